"""Translator: scenario option machinery -> coq/Gen/Setters.v (fail-closed).

Reads, by AST shape only:
  * src/scenarios/scenarios.py::Scenarios  - __init__ (flags, initial description), check_all_set (asserted
    flags), every method with an `assert not self.X_SET` guard (a *setter*): the ordered list of its effects
    (description text, guards, IS_GLOBAL_ANALYSIS tests, writes `constants_for_params[...] = expr`, flag set),
    helper methods inlined at their call site, `for i in range(a, b)` loops unrolled;
  * src/scenarios/run_scenario.py::ScenarioRunner.set_depending_on_option - required keys, the if/elif dispatch
    chains (option key, literal value, what the branch does), the NMONTHS copy, the numeric override blocks;
  * ...::alter_scenario_if_known_to_fail - the table literal and the (fixed) matching loop;
  * src/food_system/animal_populations.py::main - how '<species>_head_start' is turned into a column name, on
    which row label it is written and which row label is read afterwards;
  * the header of FAOSTAT_head_and_slaughter.csv (species columns) and the iso3 column of the country table.
Anything that is not one of the shapes below raises TranslatorRejected.
"""
import ast
import csv
import os
import sys
from fractions import Fraction

sys.path.insert(0, os.path.dirname(__file__))
from pyexpr import TranslatorRejected, find_class, find_method, coq_string, write_if_changed, qlit_fraction

SCN = "src/scenarios/scenarios.py"
RUN = "src/scenarios/run_scenario.py"
APOP = "src/food_system/animal_populations.py"
HEADCSV = "data/no_food_trade/animal_feed_data/FAOSTAT_head_and_slaughter.csv"
COUNTRYCSV = "data/no_food_trade/computer_readable_combined.csv"

CP = "constants_for_params"

PREAMBLE = r"""From Coq Require Import QArith List String.
Import ListNotations.
Open Scope Q_scope.
Open Scope string_scope.

(* right-hand sides *)
Inductive expr :=
| ENum (q : Q) | EBool (b : bool) | EStr (s : string)
| ERow (col : string)                       (* country_data[col] *)
| EConst (parent key : string)              (* constants_for_params[parent][key]; parent "" = top level *)
| EAdd (a b : expr) | ESub (a b : expr) | EMul (a b : expr) | EDiv (a b : expr)
| EList (l : list expr)                     (* list literal / unrolled comprehension *)
| ERepeat (e n : expr)                      (* [e] * n  (possibly wrapped in np.array) *)
| EFishInterp (years : list Q) (offset : Q) (* 12-point linear interpolation between yearly values, last year flat *)
| EDict.                                    (* {} *)

(* effects of a method of Scenarios, in source order *)
Inductive stmt :=
| SDesc (s : string)                        (* self.scenario_description += s *)
| SGuard (flag : string)                    (* assert not self.flag *)
| SSetFlag (flag : string)                  (* self.flag = True *)
| SAssertGlobal (want : bool)               (* assert [not] self.IS_GLOBAL_ANALYSIS *)
| SSetGlobal (b : bool)
| SNew                                      (* constants_for_params = {} *)
| SWrite (parent key : string) (e : expr)   (* constants_for_params[parent][key] = e *)
| STWrite (key : string) (e : expr)         (* time_consts[key] = e *)
| SAssertHas (key : string)                 (* assert key in constants_for_params.keys() *)
| SAssertRange (lo : Q) (e : expr) (hi : Q) (* assert lo <= e <= hi *)
| SAssertSumApprox (key : string) (target : Q)      (* assert np.sum(cp[key]) == pytest.approx(target) *)
| SAssertElemRange (key : string) (lo hi : Q) (n : nat) (* for i in range(n): assert lo <= cp[key][i] <= hi *)
| SWriteIfRowEq (col : string) (q : Q) (parent key : string) (e : expr)
| SSeaweedCols (pat dictkey : string).      (* one entry of cp[dictkey] per column whose name contains pat *)

Record setter := { s_name : string; s_uses_row : bool; s_time : bool; s_body : list stmt }.

(* set_depending_on_option *)
Inductive dact := DStmt (s : stmt) | DCall (name : string) | DAssertNoRow | DExit.
Inductive dstep :=
| DChain (optkey : string) (branches : list (string * list dact))
| DCopyOpt (constkey optkey : string).
Inductive ovr :=
| OvSubstr (pat suffix : string) (as_int : bool)
| OvSet (key : string) (lo hi : Q)
| OvMul (optkey : string) (lo hi : Q) (keys try_keys : list string).
Record failing := { f_code : string; f_conds : list (string * list string); f_corr : string * string }.
"""


# ----------------------------------------------------------------------------------------- expression emitters

def q(v):
    if isinstance(v, bool):
        raise ValueError
    fr = Fraction(v) if isinstance(v, int) else Fraction(repr(v))
    return qlit_fraction(fr)


def E_num(v):
    return f"(ENum {q(v)})"


def clist(items, sep="; "):
    return "[" + sep.join(items) + "]"


class MethodTranslator:
    """translates one method body into a list of Coq stmt terms"""

    def __init__(self, cls, path):
        self.cls, self.path = cls, path
        self.methods = {n.name: n for n in cls.body if isinstance(n, ast.FunctionDef)}

    def rej(self, node, why):
        raise TranslatorRejected(self.path, getattr(node, "lineno", 0), why)

    # ---- keys
    def key_of(self, node, env):
        """string value of a subscript key: literal or "PREFIX" + str(i)"""
        if isinstance(node, ast.Constant) and isinstance(node.value, str):
            k = node.value
        elif (isinstance(node, ast.BinOp) and isinstance(node.op, ast.Add) and isinstance(node.left, ast.Constant)
              and isinstance(node.left.value, str) and isinstance(node.right, ast.Call)
              and isinstance(node.right.func, ast.Name) and node.right.func.id == "str" and len(node.right.args) == 1
              and isinstance(node.right.args[0], ast.Name) and node.right.args[0].id in env.get("loopvars", {})):
            k = node.left.value + str(env["loopvars"][node.right.args[0].id])
        else:
            self.rej(node, f"key shape {ast.unparse(node)[:60]}")
        if "." in k or '"' in k:
            self.rej(node, f"key {k!r} contains a reserved character")
        return k

    def cp_path(self, node, env):
        """constants_for_params[K] or constants_for_params[K1][K2] -> (parent, key) or None"""
        if not isinstance(node, ast.Subscript):
            return None
        if isinstance(node.value, ast.Name) and node.value.id == env["cp"]:
            return ("", self.key_of(node.slice, env))
        if (isinstance(node.value, ast.Subscript) and isinstance(node.value.value, ast.Name)
                and node.value.value.id == env["cp"]):
            return (self.key_of(node.value.slice, env), self.key_of(node.slice, env))
        return None

    # ---- expressions
    def expr(self, node, env):
        if isinstance(node, ast.Constant):
            v = node.value
            if isinstance(v, bool):
                return f"(EBool {'true' if v else 'false'})"
            if isinstance(v, (int, float)):
                return E_num(v)
            if isinstance(v, str):
                return f"(EStr {coq_string(v)})"
            self.rej(node, f"constant {v!r}")
        if isinstance(node, ast.UnaryOp) and isinstance(node.op, ast.USub) and isinstance(node.operand, ast.Constant) \
                and isinstance(node.operand.value, (int, float)) and not isinstance(node.operand.value, bool):
            return E_num(-node.operand.value)
        if isinstance(node, ast.BinOp):
            # [e] * n
            if isinstance(node.op, ast.Mult) and isinstance(node.left, ast.List) and len(node.left.elts) == 1:
                return f"(ERepeat {self.expr(node.left.elts[0], env)} {self.expr(node.right, env)})"
            # interpolated fish series + offset
            if isinstance(node.op, ast.Add) and isinstance(node.left, ast.Name) \
                    and isinstance(env["locals"].get(node.left.id), tuple) and env["locals"][node.left.id][0] == "interp_padded" \
                    and isinstance(node.right, ast.Constant) and isinstance(node.right.value, (int, float)):
                years = env["locals"][node.left.id][1]
                return f"(EFishInterp {clist([q(y) for y in years])} {q(node.right.value)})"
            ops = {ast.Add: "EAdd", ast.Sub: "ESub", ast.Mult: "EMul", ast.Div: "EDiv"}
            for k, c in ops.items():
                if isinstance(node.op, k):
                    return f"({c} {self.expr(node.left, env)} {self.expr(node.right, env)})"
            self.rej(node, f"operator {type(node.op).__name__}")
        if isinstance(node, ast.Dict) and not node.keys:
            return "EDict"
        if isinstance(node, ast.List):
            return f"(EList {clist([self.expr(e, env) for e in node.elts])})"
        if isinstance(node, ast.ListComp):
            if len(node.generators) != 1 or node.generators[0].ifs or not isinstance(node.generators[0].target, ast.Name):
                self.rej(node, "list comprehension shape")
            rng = self.range_of(node.generators[0].iter)
            var = node.generators[0].target.id
            items = []
            for i in rng:
                env2 = dict(env)
                env2["loopvars"] = dict(env.get("loopvars", {}))
                env2["loopvars"][var] = i
                items.append(self.expr(node.elt, env2))
            return f"(EList {clist(items)})"
        if isinstance(node, ast.Call) and ast.unparse(node.func) == "np.array" and len(node.args) == 1 and not node.keywords:
            # np.array(x): identity on a scalar cell / on a repeated list (both compared as numbers / number lists)
            return self.expr(node.args[0], env)
        if isinstance(node, ast.Name):
            if node.id in env["locals"]:
                v = env["locals"][node.id]
                if isinstance(v, str):
                    return v
                self.rej(node, f"local {node.id} is not a scalar expression here")
            self.rej(node, f"unknown name {node.id}")
        if isinstance(node, ast.Subscript):
            if isinstance(node.value, ast.Name) and env.get("row") and node.value.id == env["row"]:
                return f"(ERow {coq_string(self.key_of(node.slice, env))})"
            if isinstance(node.value, ast.Name) and isinstance(env["locals"].get(node.value.id), dict):
                k = self.key_of(node.slice, env)
                d = env["locals"][node.value.id]
                if k not in d:
                    self.rej(node, f"local dict has no key {k}")
                return d[k]
            p = self.cp_path(node, env)
            if p is not None:
                return f"(EConst {coq_string(p[0])} {coq_string(p[1])})"
        self.rej(node, f"expression shape {type(node).__name__}: {ast.unparse(node)[:70]}")

    def range_of(self, node):
        if not (isinstance(node, ast.Call) and isinstance(node.func, ast.Name) and node.func.id == "range"
                and all(isinstance(a, ast.Constant) and isinstance(a.value, int) for a in node.args) and 1 <= len(node.args) <= 2):
            self.rej(node, "loop range shape")
        a = [x.value for x in node.args]
        return range(*a)

    def num(self, node):
        if isinstance(node, ast.Constant) and isinstance(node.value, (int, float)) and not isinstance(node.value, bool):
            return node.value
        self.rej(node, "numeric literal expected")

    # ---- statements
    def body(self, fn, env, out, top=True):
        stmts = list(fn.body) if isinstance(fn, ast.FunctionDef) else list(fn)
        i = 0
        while i < len(stmts):
            st = stmts[i]
            i += 1
            # docstrings / stray string expressions
            if isinstance(st, ast.Expr) and isinstance(st.value, ast.Constant) and isinstance(st.value.value, str):
                continue
            if isinstance(st, ast.Expr) and isinstance(st.value, ast.Call) and isinstance(st.value.func, ast.Name) \
                    and st.value.func.id == "print" and all(isinstance(a, ast.Constant) for a in st.value.args):
                continue
            if isinstance(st, ast.Return):
                if i != len(stmts):
                    self.rej(st, "return is not the last statement")
                return ast.unparse(st.value) if st.value is not None else None
            if isinstance(st, ast.AugAssign):
                if ast.unparse(st.target) == "self.scenario_description" and isinstance(st.op, ast.Add) \
                        and isinstance(st.value, ast.Constant) and isinstance(st.value.value, str):
                    out.append(f"SDesc {coq_string(st.value.value)}")
                    continue
                self.rej(st, "augmented assignment shape")
            if isinstance(st, ast.Assert):
                out.append(self.assertion(st, env))
                continue
            if isinstance(st, ast.For):
                self.loop(st, env, out)
                continue
            if isinstance(st, ast.If):
                self.cond(st, env, out)
                continue
            if isinstance(st, ast.Assign) and len(st.targets) == 1:
                # the seaweed column block: three statements matched together
                if isinstance(st.targets[0], ast.Name) and st.targets[0].id == "all_seaweed_col_names":
                    i = self.seaweed_block(stmts, i - 1, env, out)
                    continue
                self.assign(st, env, out)
                continue
            self.rej(st, f"statement shape {type(st).__name__}")
        return None

    def assertion(self, st, env):
        t = st.test
        if isinstance(t, ast.UnaryOp) and isinstance(t.op, ast.Not) and isinstance(t.operand, ast.Attribute) \
                and isinstance(t.operand.value, ast.Name) and t.operand.value.id == "self":
            a = t.operand.attr
            if a.endswith("_SET"):
                return f"SGuard {coq_string(a)}"
            if a == "IS_GLOBAL_ANALYSIS":
                return "SAssertGlobal false"
        if isinstance(t, ast.Attribute) and isinstance(t.value, ast.Name) and t.value.id == "self" and t.attr == "IS_GLOBAL_ANALYSIS":
            return "SAssertGlobal true"
        if isinstance(t, ast.Compare) and len(t.ops) == 1 and isinstance(t.ops[0], ast.In) and isinstance(t.left, ast.Constant) \
                and isinstance(t.left.value, str) and ast.unparse(t.comparators[0]) == env["cp"] + ".keys()":
            return f"SAssertHas {coq_string(t.left.value)}"
        if isinstance(t, ast.Compare) and len(t.ops) == 2:
            a, b, c = t.left, t.comparators[0], t.comparators[1]
            if all(isinstance(o, ast.GtE) for o in t.ops):
                return f"SAssertRange {q(self.num(c))} {self.expr(b, env)} {q(self.num(a))}"
            if all(isinstance(o, ast.LtE) for o in t.ops):
                return f"SAssertRange {q(self.num(a))} {self.expr(b, env)} {q(self.num(c))}"
        if isinstance(t, ast.Compare) and len(t.ops) == 1 and isinstance(t.ops[0], ast.Eq):
            l, r = t.left, t.comparators[0]
            if isinstance(l, ast.Call) and ast.unparse(l.func) == "np.sum" and len(l.args) == 1 \
                    and isinstance(r, ast.Call) and ast.unparse(r.func) == "pytest.approx" and len(r.args) == 1 and not r.keywords:
                p = self.cp_path(l.args[0], env)
                if p is not None and p[0] == "":
                    return f"SAssertSumApprox {coq_string(p[1])} {q(self.num(r.args[0]))}"
        self.rej(st, f"assert shape: {ast.unparse(t)[:80]}")

    def loop(self, st, env, out):
        if not isinstance(st.target, ast.Name) or st.orelse:
            self.rej(st, "for target shape")
        rng = self.range_of(st.iter)
        var = st.target.id
        # for i in range(n): assert lo <= cp[K][i] <= hi
        if len(st.body) == 1 and isinstance(st.body[0], ast.Assert):
            t = st.body[0].test
            if isinstance(t, ast.Compare) and len(t.ops) == 2 and all(isinstance(o, ast.LtE) for o in t.ops) \
                    and isinstance(t.comparators[0], ast.Subscript) and isinstance(t.comparators[0].slice, ast.Name) \
                    and t.comparators[0].slice.id == var and rng.start == 0 and rng.step == 1:
                p = self.cp_path(t.comparators[0].value, env)
                if p is not None and p[0] == "":
                    out.append(f"SAssertElemRange {coq_string(p[1])} {q(self.num(t.left))} {q(self.num(t.comparators[1]))} {len(rng)}%nat")
                    return
            self.rej(st, "assert inside loop shape")
        for i in rng:
            env2 = dict(env)
            env2["loopvars"] = dict(env.get("loopvars", {}))
            env2["loopvars"][var] = i
            for b in st.body:
                if not (isinstance(b, ast.Assign) and len(b.targets) == 1):
                    self.rej(b, "loop body statement shape")
                self.assign(b, env2, out)

    def cond(self, st, env, out):
        t = st.test
        # if LOCAL_CONSTANT:  (a literal boolean assigned earlier in the same method)
        if isinstance(t, ast.Name) and env["locals"].get(t.id) in ("(EBool true)", "(EBool false)"):
            branch = st.body if env["locals"][t.id] == "(EBool true)" else st.orelse
            r = self.body(branch, env, out, top=False)
            if r is not None:
                self.rej(st, "return inside constant branch")
            return
        # if country_data[col] == c: cp[K] = e
        if isinstance(t, ast.Compare) and len(t.ops) == 1 and isinstance(t.ops[0], ast.Eq) and not st.orelse \
                and isinstance(t.left, ast.Subscript) and isinstance(t.left.value, ast.Name) and t.left.value.id == env.get("row") \
                and len(st.body) == 1 and isinstance(st.body[0], ast.Assign) and len(st.body[0].targets) == 1:
            col = self.key_of(t.left.slice, env)
            c = self.num(t.comparators[0])
            p = self.cp_path(st.body[0].targets[0], env)
            if p is not None:
                out.append(f"SWriteIfRowEq {coq_string(col)} {q(c)} {coq_string(p[0])} {coq_string(p[1])} {self.expr(st.body[0].value, env)}")
                return
        self.rej(st, f"if shape: {ast.unparse(t)[:60]}")

    def seaweed_block(self, stmts, i, env, out):
        if i + 2 >= len(stmts):
            self.rej(stmts[i], "seaweed column block truncated")
        a, b, c = stmts[i], stmts[i + 1], stmts[i + 2]
        comp = a.value
        if not (isinstance(comp, ast.ListComp) and isinstance(comp.elt, ast.Name) and len(comp.generators) == 1):
            self.rej(a, "seaweed column comprehension shape")
        g = comp.generators[0]
        if not (ast.unparse(g.iter) == env["row"] + ".items()" and ast.unparse(g.target) == "(k, v)" and comp.elt.id == "k"
                and len(g.ifs) == 1 and isinstance(g.ifs[0], ast.Compare) and isinstance(g.ifs[0].ops[0], ast.In)
                and isinstance(g.ifs[0].left, ast.Constant) and isinstance(g.ifs[0].left.value, str)
                and ast.unparse(g.ifs[0].comparators[0]) == "k"):
            self.rej(a, "seaweed column comprehension shape")
        pat = g.ifs[0].left.value
        pb = self.cp_path(b.targets[0], env) if isinstance(b, ast.Assign) else None
        if not (pb is not None and pb[0] == "" and isinstance(b.value, ast.Dict) and not b.value.keys):
            self.rej(b, "seaweed dictionary initialisation shape")
        key = pb[1]
        want = (f"for i in range(len(all_seaweed_col_names)):\n"
                f"    {env['cp']}['{key}'][all_seaweed_col_names[i].replace('{pat}', '')] = {env['row']}[all_seaweed_col_names[i]]")
        if ast.unparse(c) != want:
            self.rej(c, "seaweed column loop shape")
        out.append(f"SWrite \"\" {coq_string(key)} EDict")
        out.append(f"SSeaweedCols {coq_string(pat)} {coq_string(key)}")
        return i + 3

    FISH_CONCAT = ("np.concatenate([np.linspace(yearly_fish_reduction[i], yearly_fish_reduction[i + 1], num=12, endpoint=False) "
                   "for i in range(len(yearly_fish_reduction) - 1)])")
    FISH_APPEND = "np.append(monthly_fish_reduction, np.full(12, yearly_fish_reduction[-1]))"

    def assign(self, st, env, out):
        tgt, val = st.targets[0], st.value
        # self.X = literal
        if isinstance(tgt, ast.Attribute) and isinstance(tgt.value, ast.Name) and tgt.value.id == "self":
            if tgt.attr.endswith("_SET") and isinstance(val, ast.Constant) and val.value is True:
                out.append(f"SSetFlag {coq_string(tgt.attr)}")
                return
            if tgt.attr == "IS_GLOBAL_ANALYSIS" and isinstance(val, ast.Constant) and isinstance(val.value, bool):
                out.append(f"SSetGlobal {'true' if val.value else 'false'}")
                return
            self.rej(st, f"assignment to self.{tgt.attr}")
        if isinstance(tgt, ast.Name):
            name = tgt.id
            if name == env["cp"]:
                if isinstance(val, ast.Dict) and not val.keys:
                    out.append("SNew")
                    return
                if isinstance(val, ast.Call) and isinstance(val.func, ast.Attribute) and ast.unparse(val.func.value) == "self":
                    callee = val.func.attr
                    args = [ast.unparse(a) for a in val.args]
                    if callee not in self.methods or val.keywords:
                        self.rej(st, f"call of unknown method {callee}")
                    fn = self.methods[callee]
                    params = [a.arg for a in fn.args.args][1:]
                    if callee == "init_generic_scenario" and args == [] and params == []:
                        env2 = {"cp": CP, "row": None, "tc": None, "locals": {}}
                    elif args == [env["cp"]] and len(params) == 1:
                        if self.is_setter(fn):
                            self.rej(st, f"guarded setter {callee} called from another method")
                        env2 = {"cp": params[0], "row": None, "tc": None, "locals": {}}
                    else:
                        self.rej(st, f"helper call arguments {args}")
                    r = self.body(fn, env2, out, top=False)
                    if r != env2["cp"]:
                        self.rej(st, f"helper {callee} does not return its dictionary")
                    return
                self.rej(st, "rebinding of the constants dictionary")
            # local = self.get_*_distribution_waste(...)
            if isinstance(val, ast.Call) and isinstance(val.func, ast.Attribute) and ast.unparse(val.func.value) == "self":
                callee = val.func.attr
                if callee not in self.methods or val.keywords:
                    self.rej(st, f"call of unknown method {callee}")
                fn = self.methods[callee]
                params = [a.arg for a in fn.args.args][1:]
                args = [ast.unparse(a) for a in val.args]
                if not ((args == [] and params == []) or (env.get("row") and args == [env["row"]] and len(params) == 1)):
                    self.rej(st, f"dict helper call arguments {args}")
                env2 = {"cp": "__none__", "row": params[0] if params else None, "tc": None, "locals": {}}
                r = self.body(fn, env2, out, top=False)
                if r is None or not isinstance(env2["locals"].get(r), dict):
                    self.rej(st, f"helper {callee} does not return a local dictionary")
                env["locals"][name] = env2["locals"][r]
                return
            if isinstance(val, ast.Dict) and not val.keys:
                env["locals"][name] = {}
                return
            if isinstance(val, ast.List) and all(isinstance(e, (ast.Constant, ast.UnaryOp)) for e in val.elts) and val.elts:
                ys = []
                for e in val.elts:
                    if isinstance(e, ast.UnaryOp) and isinstance(e.op, ast.USub):
                        ys.append(-self.num(e.operand))
                    else:
                        ys.append(self.num(e))
                env["locals"][name] = ("numlist", ys)
                return
            if ast.unparse(val) == self.FISH_CONCAT and name == "monthly_fish_reduction" \
                    and isinstance(env["locals"].get("yearly_fish_reduction"), tuple):
                env["locals"][name] = ("interp", env["locals"]["yearly_fish_reduction"][1])
                return
            if ast.unparse(val) == self.FISH_APPEND and name == "monthly_fish_reduction" \
                    and isinstance(env["locals"].get(name), tuple) and env["locals"][name][0] == "interp":
                env["locals"][name] = ("interp_padded", env["locals"][name][1])
                return
            env["locals"][name] = self.expr(val, env)
            return
        if isinstance(tgt, ast.Subscript):
            # time_consts[K] = e
            if isinstance(tgt.value, ast.Name) and env.get("tc") and tgt.value.id == env["tc"]:
                out.append(f"STWrite {coq_string(self.key_of(tgt.slice, env))} {self.expr(val, env)}")
                return
            # local_dict[K] = e
            if isinstance(tgt.value, ast.Name) and isinstance(env["locals"].get(tgt.value.id), dict):
                env["locals"][tgt.value.id][self.key_of(tgt.slice, env)] = self.expr(val, env)
                return
            p = self.cp_path(tgt, env)
            if p is not None:
                if isinstance(val, ast.Name) and isinstance(env["locals"].get(val.id), dict):
                    if p[0] != "":
                        self.rej(st, "dictionary stored below the top level")
                    out.append(f"SWrite \"\" {coq_string(p[1])} EDict")
                    for k, e in env["locals"][val.id].items():
                        out.append(f"SWrite {coq_string(p[1])} {coq_string(k)} {e}")
                    return
                out.append(f"SWrite {coq_string(p[0])} {coq_string(p[1])} {self.expr(val, env)}")
                return
        self.rej(st, f"assignment shape: {ast.unparse(st)[:80]}")

    def is_setter(self, fn):
        for n in ast.walk(fn):
            if isinstance(n, ast.Assert) and isinstance(n.test, ast.UnaryOp) and isinstance(n.test.op, ast.Not) \
                    and isinstance(n.test.operand, ast.Attribute) and n.test.operand.attr.endswith("_SET"):
                return True
        return False


def translate_scenarios(repo):
    tree = ast.parse(open(os.path.join(repo, SCN)).read())
    cls = find_class(tree, "Scenarios", SCN)
    mt = MethodTranslator(cls, SCN)
    # ---- __init__
    init = find_method(cls, "__init__", SCN)
    flags, desc0 = [], None
    for st in init.body:
        if isinstance(st, ast.Assign) and len(st.targets) == 1 and isinstance(st.targets[0], ast.Attribute) \
                and ast.unparse(st.targets[0].value) == "self" and isinstance(st.value, ast.Constant):
            a = st.targets[0].attr
            if a.endswith("_SET") and st.value.value is False:
                flags.append(a)
                continue
            if a == "scenario_description" and isinstance(st.value.value, str):
                desc0 = st.value.value
                continue
        raise TranslatorRejected(SCN, st.lineno, "statement shape in Scenarios.__init__")
    if desc0 is None or len(set(flags)) != len(flags):
        raise TranslatorRejected(SCN, init.lineno, "Scenarios.__init__: description or flags")
    # ---- check_all_set
    chk = find_method(cls, "check_all_set", SCN)
    check_flags = []
    for st in chk.body:
        if isinstance(st, ast.Expr) and isinstance(st.value, ast.Constant):
            continue
        if isinstance(st, ast.Assert) and isinstance(st.test, ast.Attribute) and ast.unparse(st.test.value) == "self" \
                and st.test.attr in flags:
            check_flags.append(st.test.attr)
            continue
        raise TranslatorRejected(SCN, st.lineno, "statement shape in check_all_set")
    # ---- methods
    setters, helpers = [], []
    for fn in cls.body:
        if not isinstance(fn, ast.FunctionDef):
            if isinstance(fn, ast.Expr) and isinstance(fn.value, ast.Constant):
                continue
            raise TranslatorRejected(SCN, fn.lineno, "non-method member of Scenarios (class-level state is shared between "
                                     "instances; the functional model cannot express it, so it is never tolerated)")
        if fn.name in ("__init__", "check_all_set"):
            continue
        if fn.decorator_list or fn.args.vararg or fn.args.kwarg or fn.args.kwonlyargs or fn.args.defaults:
            raise TranslatorRejected(SCN, fn.lineno, f"signature of {fn.name}")
        params = [a.arg for a in fn.args.args]
        if not params or params[0] != "self":
            raise TranslatorRejected(SCN, fn.lineno, f"signature of {fn.name}")
        if not mt.is_setter(fn):
            helpers.append(fn.name)
            continue
        rest = params[1:]
        allowed = {(): (None, None, None), (CP,): (CP, None, None), ("country_data",): (None, "country_data", None),
                   (CP, "country_data"): (CP, "country_data", None), (CP, "time_consts"): (CP, None, "time_consts"),
                   ("time_consts",): (None, None, "time_consts")}
        if tuple(rest) not in allowed:
            raise TranslatorRejected(SCN, fn.lineno, f"parameters of setter {fn.name}: {rest}")
        cp, row, tc = allowed[tuple(rest)]
        env = {"cp": cp or CP, "row": row, "tc": tc, "locals": {}}
        out = []
        ret = mt.body(fn, env, out)
        want_ret = tc if tc else (cp or CP)
        if ret != want_ret:
            raise TranslatorRejected(SCN, fn.lineno, f"setter {fn.name} returns {ret}, expected {want_ret}")
        setters.append({"name": fn.name, "uses_row": row is not None, "time": tc is not None, "takes_cp": cp is not None,
                        "body": out, "lineno": fn.lineno})
    # helpers must all have been inlined somewhere or be dictionary helpers: check they are at least translatable
    return {"flags": flags, "desc0": desc0, "check_flags": check_flags, "setters": setters, "helpers": helpers}


# ----------------------------------------------------------------------------------------- run_scenario.py

def translate_dispatch(repo, scn):
    tree = ast.parse(open(os.path.join(repo, RUN)).read())
    cls = find_class(tree, "ScenarioRunner", RUN)
    fn = find_method(cls, "set_depending_on_option", RUN)
    if [a.arg for a in fn.args.args] != ["self", "scenario_option", "country_data"] or \
            [ast.unparse(d) for d in fn.args.defaults] != ["None"]:
        raise TranslatorRejected(RUN, fn.lineno, "signature of set_depending_on_option")
    setter_by_name = {s["name"]: s for s in scn["setters"]}
    mt = MethodTranslator(cls, RUN)
    body = list(fn.body)
    pos = 0

    def rej(node, why):
        raise TranslatorRejected(RUN, getattr(node, "lineno", fn.lineno), why)

    # 1. PRINT_SCENARIO_OPTIONS = False; if PRINT_SCENARIO_OPTIONS: ...
    if not (ast.unparse(body[0]) == "PRINT_SCENARIO_OPTIONS = False" and isinstance(body[1], ast.If)
            and ast.unparse(body[1].test) == "PRINT_SCENARIO_OPTIONS" and not body[1].orelse):
        rej(body[0], "debug-print prologue shape")
    pos = 2
    # 2. required keys
    required = []
    while pos < len(body) and isinstance(body[pos], ast.Assert):
        t = body[pos].test
        if not (isinstance(t, ast.Compare) and len(t.ops) == 1 and isinstance(t.ops[0], ast.In) and isinstance(t.left, ast.Constant)
                and isinstance(t.left.value, str) and ast.unparse(t.comparators[0]) == "scenario_option.keys()"):
            rej(body[pos], "required-key assertion shape")
        required.append(t.left.value)
        pos += 1
    # 3. fixed prologue
    want = ["scenario_is_correct = True", "scenario_loader = Scenarios()", "ALTER_FAILING_SCENARIO_FLAG = True"]
    for w in want:
        if ast.unparse(body[pos]) != w:
            rej(body[pos], f"prologue: expected `{w}`")
        pos += 1
    alt = body[pos]
    want_alt = ("if ALTER_FAILING_SCENARIO_FLAG:\n"
                "    if country_data is None:\n"
                "        scenario_option_copy = self.alter_scenario_if_known_to_fail(scenario_option, 'WOR')\n"
                "    else:\n"
                "        scenario_option_copy = self.alter_scenario_if_known_to_fail(scenario_option, country_data['iso3'])\n"
                "else:\n"
                "    scenario_option_copy = copy.deepcopy(scenario_option)")
    if ast.unparse(alt) != want_alt:
        rej(alt, "alter-failing-scenario block shape")
    pos += 1
    if ast.unparse(body[pos]) != "time_consts_for_params = {}":
        rej(body[pos], "time_consts initialisation")
    pos += 1

    steps = []
    accepted = {}

    def call_action(st):
        """statement inside a branch -> list of dact terms"""
        if isinstance(st, ast.Assert):
            if ast.unparse(st.test) == "country_data is None":
                return ["DAssertNoRow"]
            rej(st, "assert inside a dispatch branch")
        if isinstance(st, ast.Expr) and isinstance(st.value, ast.Call):
            f = ast.unparse(st.value.func)
            if f == "print" and all(isinstance(a, ast.Constant) for a in st.value.args):
                return []
            if f == "sys.exit" and not st.value.args:
                return ["DExit"]
            rej(st, "call inside a dispatch branch")
        if isinstance(st, ast.Assign) and len(st.targets) == 1:
            tgt, val = st.targets[0], st.value
            if isinstance(tgt, ast.Name) and isinstance(val, ast.Call) and isinstance(val.func, ast.Attribute) \
                    and ast.unparse(val.func.value) == "scenario_loader" and not val.keywords:
                name = val.func.attr
                if name not in setter_by_name:
                    rej(st, f"dispatch calls {name}, which is not a guarded setter of Scenarios")
                s = setter_by_name[name]
                args = [ast.unparse(a) for a in val.args]
                exp = ([CP] if s["takes_cp"] else []) + (["country_data"] if s["uses_row"] else []) + \
                      (["time_consts_for_params"] if s["time"] else [])
                if args != exp:
                    rej(st, f"arguments of {name}: {args}, expected {exp}")
                want_tgt = "time_consts_for_params" if s["time"] else CP
                if tgt.id != want_tgt:
                    rej(st, f"result of {name} bound to {tgt.id}")
                return [f"DCall {coq_string(name)}"]
            env = {"cp": CP, "row": "country_data", "tc": None, "locals": {}}
            p = mt.cp_path(tgt, env)
            if p is not None:
                return [f"DStmt (SWrite {coq_string(p[0])} {coq_string(p[1])} {mt.expr(val, env)})"]
        rej(st, f"statement inside a dispatch branch: {ast.unparse(st)[:70]}")

    def chain(node):
        key = None
        branches = []
        while True:
            t = node.test
            if not (isinstance(t, ast.Compare) and len(t.ops) == 1 and isinstance(t.ops[0], ast.Eq)
                    and isinstance(t.left, ast.Subscript) and ast.unparse(t.left.value) == "scenario_option_copy"
                    and isinstance(t.left.slice, ast.Constant) and isinstance(t.left.slice.value, str)
                    and isinstance(t.comparators[0], ast.Constant) and isinstance(t.comparators[0].value, str)):
                rej(node, "dispatch test shape")
            k = t.left.slice.value
            if key is None:
                key = k
            elif key != k:
                rej(node, f"chain mixes option keys {key} and {k}")
            acts = []
            dead = False
            for st in node.body:
                if dead:
                    continue  # statements after sys.exit() are unreachable
                a = call_action(st)
                acts += a
                if a == ["DExit"]:
                    dead = True
            branches.append((t.comparators[0].value, acts))
            if len(node.orelse) == 1 and isinstance(node.orelse[0], ast.If):
                node = node.orelse[0]
                continue
            e = node.orelse
            if not (len(e) == 2 and ast.unparse(e[0]) == "scenario_is_correct = False" and isinstance(e[1], ast.Assert)
                    and ast.unparse(e[1].test) == "scenario_is_correct"):
                rej(node, "dispatch else-branch is not the rejection idiom")
            break
        vals = [v for v, _ in branches]
        if len(set(vals)) != len(vals):
            rej(node, f"duplicate literal in chain {key}")
        return key, branches

    # 4. chains and the NMONTHS copy, up to the override blocks
    while pos < len(body) and not isinstance(body[pos], ast.For):
        st = body[pos]
        if isinstance(st, ast.If) and ast.unparse(st.test).startswith("scenario_option_copy["):
            key, branches = chain(st)
            if key in accepted:
                rej(st, f"second chain for option {key}")
            accepted[key] = [v for v, _ in branches]
            steps.append(("chain", key, branches))
        elif isinstance(st, ast.Assign) and ast.unparse(st) == f"{CP}['NMONTHS'] = scenario_option_copy['NMONTHS']":
            steps.append(("copy", "NMONTHS", "NMONTHS"))
        else:
            rej(st, f"statement between dispatch chains: {ast.unparse(st)[:70]}")
        pos += 1
    # every dispatched option must be a required key
    for k in accepted:
        if k not in required:
            rej(fn, f"option {k} is dispatched but not asserted present")

    # 5. override blocks
    overrides = []
    while pos < len(body) and not isinstance(body[pos], ast.Return):
        st = body[pos]
        pos += 1
        if isinstance(st, ast.For):
            if not (ast.unparse(st.iter) == "scenario_option_copy.keys()" and ast.unparse(st.target) == "key"
                    and len(st.body) == 1 and isinstance(st.body[0], ast.If) and not st.body[0].orelse and not st.orelse):
                rej(st, "override loop shape")
            t = st.body[0].test
            if not (isinstance(t, ast.Compare) and len(t.ops) == 1 and isinstance(t.ops[0], ast.In) and isinstance(t.left, ast.Constant)
                    and isinstance(t.left.value, str) and ast.unparse(t.comparators[0]) == "key" and len(st.body[0].body) == 1):
                rej(st, "override loop test shape")
            pat = t.left.value
            a = ast.unparse(st.body[0].body[0])
            if a == f"{CP}[f'{{key}}_start'] = int(scenario_option_copy[key])":
                overrides.append(f"OvSubstr {coq_string(pat)} \"_start\" true")
            elif a == f"{CP}[key] = float(scenario_option_copy[key])":
                overrides.append(f"OvSubstr {coq_string(pat)} \"\" false")
            else:
                rej(st, f"override loop body: {a[:70]}")
            continue
        if isinstance(st, ast.If) and not st.orelse:
            t = st.test
            if not (isinstance(t, ast.Compare) and len(t.ops) == 1 and isinstance(t.ops[0], ast.In) and isinstance(t.left, ast.Constant)
                    and isinstance(t.left.value, str) and ast.unparse(t.comparators[0]) == "scenario_option_copy.keys()"):
                rej(st, "override test shape")
            K = t.left.value
            b = st.body
            # direct set + range assertion
            if len(b) == 2 and ast.unparse(b[0]) == f"{CP}['{K}'] = float(scenario_option_copy['{K}'])" and isinstance(b[1], ast.Assert):
                c = b[1].test
                if not (isinstance(c, ast.Compare) and len(c.ops) == 2 and all(isinstance(o, ast.LtE) for o in c.ops)
                        and ast.unparse(c.comparators[0]) == f"{CP}['{K}']"):
                    rej(b[1], "override range assertion shape")
                overrides.append(f"OvSet {coq_string(K)} {q(mt.num(c.left))} {q(mt.num(c.comparators[1]))}")
                continue
            # multiplier
            if len(b) >= 3 and ast.unparse(b[0]) == f"multiplier = float(scenario_option_copy['{K}'])" and isinstance(b[1], ast.Assert):
                c = b[1].test
                if not (isinstance(c, ast.Compare) and len(c.ops) == 2 and all(isinstance(o, ast.LtE) for o in c.ops)
                        and ast.unparse(c.comparators[0]) == "multiplier"):
                    rej(b[1], "multiplier range assertion shape")
                keys, try_keys = [], []

                def mulkey(s):
                    if not (isinstance(s, ast.AugAssign) and isinstance(s.op, ast.Mult) and ast.unparse(s.value) == "multiplier"):
                        rej(s, "multiplier statement shape")
                    p = mt.cp_path(s.target, {"cp": CP})
                    if p is None or p[0] != "":
                        rej(s, "multiplier target shape")
                    return p[1]
                for s in b[2:]:
                    if isinstance(s, ast.Try):
                        if not (len(s.handlers) == 1 and ast.unparse(s.handlers[0].type) == "BaseException"
                                and len(s.handlers[0].body) == 1 and isinstance(s.handlers[0].body[0], ast.Pass)
                                and not s.orelse and not s.finalbody):
                            rej(s, "try/except shape in multiplier block")
                        try_keys += [mulkey(x) for x in s.body]
                    else:
                        if try_keys:
                            rej(s, "plain multiplier statement after the try block")
                        keys.append(mulkey(s))
                overrides.append(f"OvMul {coq_string(K)} {q(mt.num(c.left))} {q(mt.num(c.comparators[1]))} "
                                 f"{clist([coq_string(k) for k in keys])} {clist([coq_string(k) for k in try_keys])}")
                continue
        rej(st, f"override block shape: {ast.unparse(st)[:70]}")
    if not (pos == len(body) - 1 and ast.unparse(body[pos]) == f"return ({CP}, time_consts_for_params, scenario_loader)"):
        rej(body[pos] if pos < len(body) else fn, "return shape of set_depending_on_option")

    # ---- alter_scenario_if_known_to_fail
    fa = find_method(cls, "alter_scenario_if_known_to_fail", RUN)
    fb = [s for s in fa.body if not (isinstance(s, ast.Expr) and isinstance(s.value, ast.Constant))]
    if not (isinstance(fb[0], ast.Assign) and ast.unparse(fb[0].targets[0]) == "failing_scenarios" and isinstance(fb[0].value, ast.List)):
        raise TranslatorRejected(RUN, fa.lineno, "failing_scenarios literal not found")
    failing = []
    for d in fb[0].value.elts:
        if not isinstance(d, ast.Dict):
            raise TranslatorRejected(RUN, d.lineno, "failing scenario entry is not a dict literal")
        ent = {"conds": []}
        for k, v in zip(d.keys, d.values):
            if not (isinstance(k, ast.Constant) and isinstance(k.value, str)):
                raise TranslatorRejected(RUN, d.lineno, "failing scenario key")
            if k.value == "country_code":
                ent["code"] = ast.literal_eval(v)
            elif k.value == "WARNING":
                ast.literal_eval(v)
            elif k.value == "CORRECTION":
                c = ast.literal_eval(v)
                if not (isinstance(c, dict) and len(c) == 1 and all(isinstance(x, str) for x in list(c.items())[0])):
                    raise TranslatorRejected(RUN, d.lineno, "CORRECTION shape")
                ent["corr"] = list(c.items())[0]
            else:
                vals = ast.literal_eval(v)
                if not (isinstance(vals, list) and all(isinstance(x, str) for x in vals)):
                    raise TranslatorRejected(RUN, d.lineno, "failing scenario condition values")
                ent["conds"].append((k.value, vals))
        if "code" not in ent or "corr" not in ent or not isinstance(ent["code"], str):
            raise TranslatorRejected(RUN, d.lineno, "failing scenario entry incomplete")
        failing.append(ent)
    want_tail = """unchanged_scenario_option_copy = copy.deepcopy(scenario_option)
altered_scenario_option = copy.deepcopy(scenario_option)
for failing_scenario in failing_scenarios:
    iso3_failing_scenario = failing_scenario['country_code']
    correction = failing_scenario['CORRECTION']
    warning = failing_scenario['WARNING']
    del failing_scenario['country_code']
    del failing_scenario['CORRECTION']
    del failing_scenario['WARNING']
    keys_are_subset = set(failing_scenario.keys()).issubset(set(scenario_option.keys()))
    assert keys_are_subset
    values_match = all((scenario_option[key] in failing_scenario[key] for key in failing_scenario))
    if values_match and iso3 == iso3_failing_scenario:
        altered_scenario_option[list(correction.keys())[0]] = list(correction.values())[0]
        print(warning)
        return altered_scenario_option
return unchanged_scenario_option_copy"""
    got_tail = "\n".join(ast.unparse(s) for s in fb[1:])
    if got_tail != want_tail:
        raise TranslatorRejected(RUN, fb[1].lineno, "matching loop of alter_scenario_if_known_to_fail changed")
    if [a.arg for a in fa.args.args] != ["self", "scenario_option", "iso3"]:
        raise TranslatorRejected(RUN, fa.lineno, "signature of alter_scenario_if_known_to_fail")
    return {"required": required, "steps": steps, "overrides": overrides, "failing": failing, "accepted": accepted}


# ----------------------------------------------------------------------------------------- animal_populations.main

def translate_head(repo):
    tree = ast.parse(open(os.path.join(repo, APOP)).read())
    fn = None
    for n in tree.body:
        if isinstance(n, ast.FunctionDef) and n.name == "main":
            fn = n
    if fn is None:
        raise TranslatorRejected(APOP, 0, "main not found")
    params = [a.arg for a in fn.args.args]
    if params[:5] != ["country_code", "available_feed", "available_grass", "scenario", "constants_inputs"]:
        raise TranslatorRejected(APOP, fn.lineno, f"main parameters {params}")
    idx_read = idx_over = idx_remap = idx_use = None
    info = {}
    for i, st in enumerate(fn.body):
        u = ast.unparse(st)
        if u == "df_animal_stock_info = AnimalDataReader.read_animal_population_data(population_csv)":
            idx_read = i
        elif isinstance(st, ast.If) and ast.unparse(st.test) == "constants_inputs":
            ok = (len(st.body) == 1 and isinstance(st.body[0], ast.For) and not st.orelse
                  and ast.unparse(st.body[0].iter) == "constants_inputs.items()" and ast.unparse(st.body[0].target) == "(key, value)"
                  and len(st.body[0].body) == 1 and isinstance(st.body[0].body[0], ast.If) and not st.body[0].body[0].orelse)
            if not ok:
                raise TranslatorRejected(APOP, st.lineno, "head-count override block shape")
            inner = st.body[0].body[0]
            t = inner.test
            if not (isinstance(t, ast.Compare) and isinstance(t.ops[0], ast.In) and isinstance(t.left, ast.Constant)
                    and isinstance(t.left.value, str) and ast.unparse(t.comparators[0]) == "key" and len(inner.body) == 1):
                raise TranslatorRejected(APOP, inner.lineno, "head-count override test shape")
            a = inner.body[0]
            if not (isinstance(a, ast.Assign) and ast.unparse(a.value) == "value" and isinstance(a.targets[0], ast.Subscript)
                    and ast.unparse(a.targets[0].value) == "df_animal_stock_info.loc" and isinstance(a.targets[0].slice, ast.Tuple)
                    and len(a.targets[0].slice.elts) == 2 and ast.unparse(a.targets[0].slice.elts[0]) == "country_code"):
                raise TranslatorRejected(APOP, a.lineno, "head-count override assignment shape")
            col = a.targets[0].slice.elts[1]
            if not (isinstance(col, ast.Call) and isinstance(col.func, ast.Attribute) and ast.unparse(col.func.value) == "key"
                    and col.func.attr in ("removesuffix", "strip") and len(col.args) == 1 and isinstance(col.args[0], ast.Constant)
                    and isinstance(col.args[0].value, str)):
                raise TranslatorRejected(APOP, a.lineno, f"column derivation {ast.unparse(col)}")
            info.update({"pattern": t.left.value, "mode": col.func.attr, "arg": col.args[0].value})
            idx_over = i
        elif isinstance(st, ast.If) and ast.unparse(st.test).startswith("country_code =="):
            if not (len(st.body) == 1 and isinstance(st.body[0], ast.Assign) and ast.unparse(st.body[0].targets[0]) == "country_code"
                    and isinstance(st.body[0].value, ast.Constant) and isinstance(st.test.comparators[0], ast.Constant) and not st.orelse):
                raise TranslatorRejected(APOP, st.lineno, "country code remap shape")
            if idx_remap is not None:
                raise TranslatorRejected(APOP, st.lineno, "second country code remap")
            info["remap"] = (st.test.comparators[0].value, st.body[0].value.value)
            idx_remap = i
        elif u.startswith("animal_list = AnimalModelBuilder.create_animal_objects("):
            if u != "animal_list = AnimalModelBuilder.create_animal_objects(df_animal_stock_info.loc[country_code], df_animal_attributes)":
                raise TranslatorRejected(APOP, st.lineno, "create_animal_objects call shape")
            idx_use = i
    if None in (idx_read, idx_over, idx_use) or not (idx_read < idx_over < idx_use):
        raise TranslatorRejected(APOP, fn.lineno, "main: read / override / use of the head-count table not found in order")
    if idx_remap is None:
        info["remap"] = None
        info["override_before_remap"] = False
    else:
        if not idx_remap < idx_use:
            raise TranslatorRejected(APOP, fn.lineno, "country code remap after create_animal_objects")
        info["override_before_remap"] = idx_over < idx_remap
    # nothing else may rebind country_code or the table between read and use
    for i, st in enumerate(fn.body[idx_read + 1: idx_use]):
        if i + idx_read + 1 in (idx_over, idx_remap):
            continue
        for n in ast.walk(st):
            if isinstance(n, ast.Name) and isinstance(n.ctx, ast.Store) and n.id in ("country_code", "df_animal_stock_info"):
                raise TranslatorRejected(APOP, st.lineno, "country_code / head-count table rebound between read and use")
    return info


def translate(repo):
    scn = translate_scenarios(repo)
    dsp = translate_dispatch(repo, scn)
    head = translate_head(repo)
    with open(os.path.join(repo, HEADCSV)) as f:
        header = next(csv.reader(f))
        head_rows = [r[0] for r in csv.reader(f) if r]
    species_cols = [c for c in header if c.endswith("_head")]
    if not species_cols:
        raise TranslatorRejected(HEADCSV, 1, "no *_head column")
    with open(os.path.join(repo, COUNTRYCSV)) as f:
        rd = csv.reader(f)
        h = next(rd)
        iso3 = [r[h.index("iso3")] for r in rd if r]
    out = ["(* GENERATED by harness/gen_setters.py from %s, %s, %s -- do not edit *)" % (SCN, RUN, APOP), PREAMBLE]
    out.append(f"Definition flag_names : list string := {clist([coq_string(f) for f in scn['flags']])}.")
    out.append(f"Definition initial_desc : string := {coq_string(scn['desc0'])}.")
    out.append(f"Definition check_flags : list string := {clist([coq_string(f) for f in scn['check_flags']])}.")
    out.append("")
    for s in scn["setters"]:
        out.append(f"Definition body_{s['name']} : list stmt :=\n  [ " + ";\n    ".join(s["body"]) + " ].")
    out.append("")
    out.append("Definition setters : list setter :=\n  [ " + ";\n    ".join(
        f"{{| s_name := {coq_string(s['name'])}; s_uses_row := {'true' if s['uses_row'] else 'false'}; "
        f"s_time := {'true' if s['time'] else 'false'}; s_body := body_{s['name']} |}}" for s in scn["setters"]) + " ].")
    out.append("")
    out.append(f"Definition required_keys : list string := {clist([coq_string(k) for k in dsp['required']])}.")
    steps = []
    for st in dsp["steps"]:
        if st[0] == "chain":
            brs = ";\n        ".join(f"({coq_string(v)}, {clist(acts)})" for v, acts in st[2])
            steps.append(f"DChain {coq_string(st[1])}\n      [ {brs} ]")
        else:
            steps.append(f"DCopyOpt {coq_string(st[1])} {coq_string(st[2])}")
    out.append("Definition dispatch_steps : list dstep :=\n  [ " + ";\n    ".join(steps) + " ].")
    out.append("Definition overrides : list ovr :=\n  [ " + ";\n    ".join(dsp["overrides"]) + " ].")
    fl = []
    for e in dsp["failing"]:
        conds = clist([f"({coq_string(k)}, {clist([coq_string(x) for x in vs])})" for k, vs in e["conds"]])
        fl.append(f"{{| f_code := {coq_string(e['code'])}; f_conds := {conds}; "
                  f"f_corr := ({coq_string(e['corr'][0])}, {coq_string(e['corr'][1])}) |}}")
    out.append("Definition failing_scenarios : list failing :=\n  [ " + ";\n    ".join(fl) + " ].")
    out.append("")
    out.append("(* animal_populations.main: '<species>_head_start' handling *)")
    out.append(f"Definition head_pattern : string := {coq_string(head['pattern'])}.")
    out.append(f"Definition head_derive_arg : string := {coq_string(head['arg'])}.")
    out.append(f"Definition head_derive_removesuffix : bool := {'true' if head['mode'] == 'removesuffix' else 'false'}.")
    out.append(f"Definition head_override_before_remap : bool := {'true' if head['override_before_remap'] else 'false'}.")
    rm = head["remap"]
    out.append("Definition code_remap : list (string * string) := "
               + (clist([f"({coq_string(rm[0])}, {coq_string(rm[1])})"]) if rm else "[]") + ".")
    out.append(f"Definition species_head_columns : list string := {clist([coq_string(c) for c in species_cols])}.")
    out.append(f"Definition head_table_rows : list string := {clist([coq_string(c) for c in head_rows])}.")
    out.append(f"Definition iso3_codes : list string := {clist([coq_string(c) for c in iso3])}.")
    out.append("")
    info = {"flags": scn["flags"], "check_flags": scn["check_flags"], "helpers": scn["helpers"],
            "setters": {s["name"]: {"uses_row": s["uses_row"], "time": s["time"], "takes_cp": s["takes_cp"],
                                    "statements": len(s["body"]),
                                    "guards": [b.split('"')[1] for b in s["body"] if b.startswith("SGuard")],
                                    "needs_global": ([b.endswith("true") for b in s["body"] if b.startswith("SAssertGlobal")] or [None])[0]}
                        for s in scn["setters"]},
            "required": dsp["required"], "accepted": dsp["accepted"],
            "branch_calls": {st[1]: {v: [a.split('"')[1] for a in acts if a.startswith("DCall")] + (["<exit>"] if "DExit" in acts else [])
                                     for v, acts in st[2]} for st in dsp["steps"] if st[0] == "chain"},
            "overrides": dsp["overrides"], "failing": dsp["failing"], "head": head,
            "species_head_columns": species_cols, "iso3": iso3, "head_table_rows": head_rows}
    return "\n".join(out), info


def main(repo="/repo", outdir="/verif/coq/Gen"):
    text, info = translate(repo)
    write_if_changed(os.path.join(outdir, "Setters.v"), text)
    return info


if __name__ == "__main__":
    import json
    inf = main(*sys.argv[1:])
    print(json.dumps({k: inf[k] for k in ("flags", "check_flags", "helpers", "required", "accepted", "overrides", "head")}, indent=1)[:6000])
    print(len(inf["setters"]), "setters")
