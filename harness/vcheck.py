"""Driver: ./check Cxx --tier quick|thorough ; ./check --setup ; ./check Cxx --replay f"""
import argparse
import glob
import importlib
import json
import os
import sys
import traceback

sys.path.insert(0, os.path.dirname(__file__))
import lib  # noqa: E402

ALL_GENS = ["gen_units"]


def setup():
    """translators + full build + hygiene gate"""
    os.makedirs(os.path.join(lib.COQ, "Gen"), exist_ok=True)
    gens = sorted(os.path.basename(p)[:-3] for p in glob.glob(os.path.join(lib.HARNESS, "gen_*.py")))
    for g in gens:
        mod = importlib.import_module(g)
        mod.main(lib.REPO, os.path.join(lib.COQ, "Gen"))
        print("translator", g, "ok")
    ok, bad, out = lib.coq_make([], timeout=3000)
    print(out[-3000:])
    if not ok:
        print("SETUP FAILED: coq build failed at", bad)
        return 1
    bad = lib.hygiene()
    if bad:
        print("SETUP FAILED: hygiene gate:", *bad, sep="\n  ")
        return 1
    print("setup ok")
    return 0


def main():
    ap = argparse.ArgumentParser()
    ap.add_argument("pid", nargs="?")
    ap.add_argument("--tier", default=os.environ.get("VERIF_TIER", "quick"))
    ap.add_argument("--setup", action="store_true")
    ap.add_argument("--replay")
    a = ap.parse_args()
    if a.setup:
        sys.exit(setup())
    if not a.pid:
        ap.error("property id required")
    seed = int(os.environ.get("VERIF_SEED", "20260926"))
    tier = a.tier if a.tier in ("quick", "thorough") else "quick"
    mod = importlib.import_module("props." + a.pid.lower())
    if a.replay:
        rep = json.load(open(a.replay))
        sys.exit(mod.replay(rep))
    ctx = lib.Ctx(a.pid, tier, seed)
    bad = lib.hygiene()
    if bad:
        ctx.proof_ok = False
        ctx.broken.append("hygiene gate: " + "; ".join(bad))
    try:
        mod.run(ctx)
    except Exception as e:
        traceback.print_exc()
        ctx.tie_ok = False
        ctx.broken.append(f"check crashed: {type(e).__name__}: {str(e)[:1500]}")
    sys.exit(ctx.finish())


if __name__ == "__main__":
    main()
