"""Translator: the numeric literals and the resource order of optimizer.py that the hand model coq/Model/LP.v repeats
-> coq/Gen/OptimizerConsts.v.  Fail-closed (TranslatorRejected) when a shape is not the one it was written for.
  * assign_predetermined_human_consumption_of_foods: `if ...["POP"] < <switch>:` with lower/upper = <lit> * min_consumption
  * constrain_next_optimization_to_have_same_minimum_starvation / _same_feed_biofuel: `model.objective.value() * <floor>`
  * add_maximize_sum_total_feed_used_by_animals: `<a> / <b> * feed_sum + biofuel_sum / <c>`
  * run_optimizations_on_constraints: first solve `gapRel=<lit>` and `assert status == 1`
  * __init__: key order of self.resource_constants"""
import ast
import os
from fractions import Fraction

from pyexpr import TranslatorRejected


def lit(node, path):
    if isinstance(node, ast.Constant) and isinstance(node.value, (int, float)) and not isinstance(node.value, bool):
        return Fraction(repr(node.value)) if isinstance(node.value, float) else Fraction(node.value)
    raise TranslatorRejected(path, getattr(node, "lineno", 0), "numeric literal expected")


def q(fr):
    return f"({fr.numerator}#{fr.denominator})"


def main(repo, gendir):
    path = os.path.join(repo, "src", "optimizer", "optimizer.py")
    tree = ast.parse(open(path).read())
    cls = next(n for n in tree.body if isinstance(n, ast.ClassDef) and n.name == "Optimizer")
    fns = {f.name: f for f in cls.body if isinstance(f, ast.FunctionDef)}

    def need(name):
        if name not in fns:
            raise TranslatorRejected(path, 0, f"method {name} not found")
        return fns[name]

    # ---- pins
    f = need("assign_predetermined_human_consumption_of_foods")
    ifs = [s for s in f.body if isinstance(s, ast.If) and isinstance(s.test, ast.Compare) and isinstance(s.test.ops[0], ast.Lt)
           and "POP" in ast.dump(s.test.left)]
    if len(ifs) != 1:
        raise TranslatorRejected(path, f.lineno, "expected exactly one `if ...['POP'] < literal` in the pin function")
    sw = lit(ifs[0].test.comparators[0], path)

    def bounds(stmts):
        out = {}
        for s in stmts:
            if isinstance(s, ast.Assign) and isinstance(s.targets[0], ast.Name) and s.targets[0].id in ("lower_bound", "upper_bound"):
                v = s.value
                if not (isinstance(v, ast.BinOp) and isinstance(v.op, ast.Mult) and isinstance(v.right, ast.Name)
                        and v.right.id == "min_consumption"):
                    raise TranslatorRejected(path, s.lineno, "pin bound is not <literal> * min_consumption")
                out[s.targets[0].id] = lit(v.left, path)
        if set(out) != {"lower_bound", "upper_bound"}:
            raise TranslatorRejected(path, ifs[0].lineno, "pin branch does not set both bounds")
        return out
    small, large = bounds(ifs[0].body), bounds(ifs[0].orelse)

    # ---- floors
    def floor_of(name):
        f = need(name)
        for s in ast.walk(f):
            if isinstance(s, ast.Assign) and isinstance(s.targets[0], ast.Name) and s.targets[0].id == "min_value":
                v = s.value
                if isinstance(v, ast.BinOp) and isinstance(v.op, ast.Mult) and "objective" in ast.dump(v.left):
                    return lit(v.right, path)
        raise TranslatorRejected(path, f.lineno, f"{name}: min_value = model.objective.value() * literal not found")
    fl_h = floor_of("constrain_next_optimization_to_have_same_minimum_starvation")
    fl_a = floor_of("constrain_next_optimization_to_have_same_feed_biofuel")

    # ---- weights of the feed-round objective
    f = need("add_maximize_sum_total_feed_used_by_animals")
    wf = wb = None
    for s in ast.walk(f):
        if isinstance(s, ast.Compare) and isinstance(s.ops[0], ast.LtE) and isinstance(s.comparators[0], ast.BinOp) \
                and isinstance(s.comparators[0].op, ast.Add):
            a, b = s.comparators[0].left, s.comparators[0].right
            # a = <x> / <y> * feed_sum ; b = biofuel_sum / <z>
            if (isinstance(a, ast.BinOp) and isinstance(a.op, ast.Mult) and isinstance(a.right, ast.Name) and a.right.id == "feed_sum"
                    and isinstance(a.left, ast.BinOp) and isinstance(a.left.op, ast.Div)
                    and isinstance(b, ast.BinOp) and isinstance(b.op, ast.Div) and isinstance(b.left, ast.Name) and b.left.id == "biofuel_sum"):
                wf = lit(a.left.left, path) / lit(a.left.right, path)
                wb = 1 / lit(b.right, path)
    if wf is None:
        raise TranslatorRejected(path, f.lineno, "feed-round objective is not <a>/<b> * feed_sum + biofuel_sum / <c>")

    # ---- first solve: gapRel and status assertion
    f = need("run_optimizations_on_constraints")
    gap = None
    status_assert = False
    for s in ast.walk(f):
        if isinstance(s, ast.Call) and isinstance(s.func, ast.Attribute) and s.func.attr == "PULP_CBC_CMD" and gap is None:
            for kw in s.keywords:
                if kw.arg == "gapRel":
                    gap = lit(kw.value, path)
        if isinstance(s, ast.Assert) and isinstance(s.test, ast.Compare) and isinstance(s.test.left, ast.Name) \
                and s.test.left.id == "status" and isinstance(s.test.ops[0], ast.Eq) and lit(s.test.comparators[0], path) == 1:
            status_assert = True
    if gap is None or not status_assert:
        raise TranslatorRejected(path, f.lineno, "first solve: gapRel literal / `assert status == 1` not found")

    # ---- resource order
    f = need("__init__")
    order = None
    for s in f.body:
        if isinstance(s, ast.Assign) and isinstance(s.targets[0], ast.Attribute) and s.targets[0].attr == "resource_constants" \
                and isinstance(s.value, ast.Dict):
            order = [k.value for k in s.value.keys]
    if not order:
        raise TranslatorRejected(path, f.lineno, "self.resource_constants dict literal not found")
    out = ("(* GENERATED by harness/gen_optimizer_consts.py from src/optimizer/optimizer.py - do not edit *)\n"
           "From Coq Require Import QArith List String.\nImport ListNotations.\nOpen Scope string_scope.\n"
           f"Definition src_pin_switch_pop : Q := {q(sw)}.\n"
           f"Definition src_pin_small : Q * Q := ({q(small['lower_bound'])}, {q(small['upper_bound'])}).\n"
           f"Definition src_pin_large : Q * Q := ({q(large['lower_bound'])}, {q(large['upper_bound'])}).\n"
           f"Definition src_floor_humans : Q := {q(fl_h)}.\nDefinition src_floor_animals : Q := {q(fl_a)}.\n"
           f"Definition src_weight_feed : Q := {q(wf)}.\nDefinition src_weight_biofuel : Q := {q(wb)}.\n"
           f"Definition src_first_solve_gap : Q := {q(gap)}.\n"
           "Definition src_resource_order : list string := [" + "; ".join('"%s"' % k for k in order) + "].\n")
    with open(os.path.join(gendir, "OptimizerConsts.v"), "w") as fh:
        fh.write(out)
    return {"pin_switch": float(sw), "floors": [float(fl_h), float(fl_a)], "weights": [float(wf), float(wb)], "order": order}
