"""The enumerated preset list of C16: shipped YAML scenarios (read from /repo at run time on the implementation side,
marked {"yaml": name}), the manuscript's figure presets (transcribed from plot_manuscript_figures.py with the
required key ratio_stocks_untouched in place of the script's end_simulation_stocks_ratio - as shipped the script's
dictionaries are rejected by the dispatcher, see finding C16:manuscript-presets...), world-aggregate presets
(scale: global) and single-option variations."""
import pools

COMMON_FIG1 = {"scale": "country", "NMONTHS": 120, "intake_constraints": "enabled", "nutrition": "catastrophe",
               "fat": "not_required", "protein": "not_required", "crop_disruption": "country_nuclear_winter",
               "grasses": "country_nuclear_winter", "fish": "nuclear_winter", "stored_food": "baseline",
               "seasonality": "country", "cull": "do_eat_culled", "title": "verif"}


def fig1():
    s = dict(COMMON_FIG1, scenario="no_resilient_foods", waste="baseline_in_country", shutoff="continued_after_10_percent_fed",
             meat_strategy="baseline_breeding", ratio_stocks_untouched="no_stored_between_years")
    out = {"ms_no_adaptations": dict(s)}
    s.update(waste="tripled_prices_in_country", shutoff="long_delayed_shutoff_after_10_percent_fed")
    out["ms_simple_adaptations"] = dict(s)
    s.update(ratio_stocks_untouched="zero")
    out["ms_simple_adaptations_rationing"] = dict(s)
    s.update(meat_strategy="feed_only_ruminants", shutoff="long_delayed_shutoff")
    out["ms_example_scenario"] = dict(s)
    for food in ("all_resilient_foods", "seaweed", "methane_scp", "cellulosic_sugar", "relocated_crops", "greenhouse"):
        s["scenario"] = food
        out["ms_example_" + food] = dict(s)
    return out


def world():
    s = {"NMONTHS": 120, "crop_disruption": "global_nuclear_winter", "grasses": "global_nuclear_winter", "fish": "nuclear_winter",
         "seasonality": "nuclear_winter_globally", "scale": "global", "stored_food": "baseline", "nutrition": "catastrophe",
         "fat": "not_required", "protein": "not_required", "intake_constraints": "enabled", "scenario": "no_resilient_foods",
         "ratio_stocks_untouched": "no_stored_between_years", "cull": "do_eat_culled", "meat_strategy": "baseline_breeding",
         "waste": "baseline_globally", "shutoff": "continued_after_10_percent_fed", "title": "verif"}
    out = {"world_no_adaptations": dict(s)}
    s.update(waste="tripled_prices_globally", shutoff="long_delayed_shutoff_after_10_percent_fed")
    out["world_simple_adaptations"] = dict(s)
    s.update(ratio_stocks_untouched="zero", meat_strategy="feed_only_ruminants", shutoff="long_delayed_shutoff")
    out["world_example_scenario"] = dict(s)
    s.update(scenario="all_resilient_foods")
    out["world_resilient_foods"] = dict(s)
    out["world_baseline"] = {"NMONTHS": 120, "scale": "global", "crop_disruption": "zero", "grasses": "baseline", "fish": "baseline",
                             "stored_food": "baseline", "nutrition": "baseline", "fat": "not_required", "protein": "not_required",
                             "intake_constraints": "enabled", "scenario": "no_resilient_foods", "ratio_stocks_untouched": "baseline",
                             "seasonality": "baseline_globally", "cull": "do_eat_culled", "meat_strategy": "baseline_breeding",
                             "waste": "baseline_globally", "shutoff": "continued", "title": "verif"}
    return out


YAML_NAMES = ["argentina_net_baseline", "argentina_gross_baseline", "argentina_net_nuclear_winter",
              "argentina_net_nuclear_winter_reduced", "argentina_net_nuclear_resilient",
              "argentina_net_nuclear_resilient_more_area", "baseline_model_by_country", "net_baseline", "gross_baseline",
              "net_nuclear_winter", "net_nuclear_winter_reduced", "net_nuclear_resilient", "net_nuclear_resilient_more_area"]


def variations():
    """single-option variations of the nuclear-winter base preset"""
    out = {}
    for fam, vals in sorted(pools.FAMILIES.items()):
        for v in vals:
            if pools.BASE_OPTION.get(fam) != v:
                out[f"var_{fam}={v}"] = pools.option(**{fam: v})
    for n in (48, 60, 72, 84, 96, 108):
        out[f"var_NMONTHS={n}"] = pools.option(NMONTHS=n)
    return out


def variations_of(tag, base):
    """single-option variations of another documented preset (families present in it only)"""
    out = {}
    for fam, vals in sorted(pools.FAMILIES.items()):
        if fam not in base:
            continue
        for v in vals:
            if base.get(fam) != v:
                o = dict(base)
                o[fam] = v
                out[f"{tag}_{fam}={v}"] = o
    return out


def country_presets(extended=False):
    d = {n: {"yaml": n} for n in YAML_NAMES}
    d.update(fig1())
    d.update(variations())
    if extended:
        # single-option variations of the manuscript's resilient-food example and of the baseline-climate preset
        d.update(variations_of("msv", fig1()["ms_example_all_resilient_foods"]))
        d.update(variations_of("blv", dict(pools.BASELINE_OPTION)))
    return d
