"""python3-vt harness/seedprep.py <round-tag> C01 [C02 ...] : create one scratch git worktree of /repo per property under
/tmp/seed<tag>_cXX and write the seeder's task text there (SEED_TASK.md).  The text contains ONLY the property (from the
prepared /tmp/prop_Cxx.txt or properties.jsonl), generic instructions and short labels of mechanisms already used (so they
are not repeated) - nothing about /verif's machinery."""
import json
import os
import subprocess
import sys

TEMPLATE = open(os.path.join(os.path.dirname(__file__), "seed_task_template.md")).read()


def prop_text(pid):
    p = f"/tmp/prop_{pid}.txt"
    if os.path.exists(p):
        return open(p).read()
    for line in open("/verif/properties.jsonl"):
        d = json.loads(line)
        if d["id"] == pid:
            anchors = ", ".join(a if isinstance(a, str) else a.get("path", str(a)) for a in d.get("anchors", d.get("code_anchors", [])))
            return (f"{pid} - {d['title']}\n\nSTATEMENT: {d['statement']}\n\nQUANTIFIED OVER: {d['quantifier']['text']}\n\n"
                    f"CODE ANCHORS: {anchors}\n")
    raise SystemExit("no such property " + pid)


def main():
    tag, ids = sys.argv[1], sys.argv[2:]
    for pid in ids:
        wt = f"/tmp/seed{tag}_{pid.lower()}"
        subprocess.run(["git", "-C", "/repo", "worktree", "add", "--detach", wt, "HEAD"], check=True, capture_output=True)
        labels = []
        for d in sorted(os.listdir("/verif/seeded")):
            if d.startswith(pid + "_"):
                labels.append(" ".join(d.split("_")[2:]))
        letters = "abcdefghijklmnopqrstuvwxyz"
        mech = "; ".join(f"({letters[i]}) {l}" for i, l in enumerate(labels)) or "(none)"
        txt = TEMPLATE.replace("@WT@", wt).replace("@PROP@", prop_text(pid)).replace("@MECH@", mech)
        open(os.path.join(wt, "SEED_TASK.md"), "w").write(txt)
        print(wt)


if __name__ == "__main__":
    main()
