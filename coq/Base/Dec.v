(* Decoding of data literals written by the harness into case files.
   A Python float x is written as  (fq s m e es)  with  x = (-1)^s * m * 2^(+-e)
   (m < 2^53 from math.frexp).  Primitive integers are used ONLY for this data
   encoding inside generated case files; no theorem in Props/ mentions them. *)
From Coq Require Import ZArith QArith Uint63 List.
Import ListNotations.
Open Scope Q_scope.

Definition fq (neg : bool) (m : int) (e : int) (eneg : bool) : Q :=
  let mz := Uint63.to_Z m in
  let mz := if neg then Z.opp mz else mz in
  let ez := Uint63.to_Z e in
  if eneg then Qred (Qmake mz (Z.to_pos (Z.pow 2 ez)))
  else Qmake (mz * Z.pow 2 ez) 1.

(* small integers / exact fractions *)
Definition zq (neg : bool) (m : int) : Q :=
  let mz := Uint63.to_Z m in Qmake (if neg then Z.opp mz else mz) 1.

(* self test used at the top of every case file *)
Definition dec_selftest : bool :=
  Qeq_bool (fq false 3602879701896397%uint63 55%uint63 true)
           (3602879701896397 # 36028797018963968) &&
  Qeq_bool (fq true 5%uint63 1%uint63 true) (-5 # 2) &&
  Qeq_bool (fq false 3%uint63 4%uint63 false) 48 &&
  Qeq_bool (zq true 7%uint63) (-7).

(* tolerance comparison used by all correspondence cases:
   |a - b| <= tol * max(1, |a|, scale) *)
Definition Qabs' (x : Q) : Q := if Qle_bool 0 x then x else - x.
Definition Qmax' (x y : Q) : Q := if Qle_bool x y then y else x.
Definition close (tol scale a b : Q) : bool :=
  Qle_bool (Qabs' (a - b)) (tol * Qmax' 1 (Qmax' (Qabs' a) scale)).

Fixpoint close_list (tol scale : Q) (a b : list Q) : bool :=
  match a, b with
  | [], [] => true
  | x :: a', y :: b' => close tol scale x y && close_list tol scale a' b'
  | _, _ => false
  end.

(* index of first false, for reporting *)
Fixpoint first_false (n : nat) (l : list bool) : option nat :=
  match l with
  | [] => None
  | b :: l' => if b then first_false (S n) l' else Some n
  end.

Definition count_true (l : list bool) : nat := length (filter (fun b => b) l).

(* purely relative comparison (for multiplicative computations): |a-b| <= tol*|a| *)
Definition close_rel (tol a b : Q) : bool := Qle_bool (Qabs' (a - b)) (tol * Qabs' a).
Fixpoint close_rel_list (tol : Q) (a b : list Q) : bool :=
  match a, b with
  | [], [] => true
  | x :: a', y :: b' => close_rel tol x y && close_rel_list tol a' b'
  | _, _ => false
  end.
