(* String helpers mirroring the Python string operations the code uses. *)
From Coq Require Import String Ascii List Bool Arith.
Import ListNotations.
Open Scope string_scope.

(* Python:  pat in s *)
Fixpoint contains (pat s : string) : bool :=
  if prefix pat s then true
  else match s with
       | EmptyString => false
       | String _ s' => contains pat s'
       end.

(* Python: s.split(pat)[0]   (pat non-empty) *)
Fixpoint split_first (pat s : string) : string :=
  if prefix pat s then EmptyString
  else match s with
       | EmptyString => EmptyString
       | String c s' => String c (split_first pat s')
       end.

Fixpoint drop (n : nat) (s : string) : string :=
  match n, s with
  | O, _ => s
  | S n', String _ s' => drop n' s'
  | S _, EmptyString => EmptyString
  end.

(* Python: s.replace(pat, rep)  (pat non-empty; fuel = length s suffices) *)
Fixpoint replace_all_fuel (fuel : nat) (pat rep s : string) : string :=
  match fuel with
  | O => s
  | S fuel' =>
    if prefix pat s then rep ++ replace_all_fuel fuel' pat rep (drop (String.length pat) s)
    else match s with
         | EmptyString => EmptyString
         | String c s' => String c (replace_all_fuel fuel' pat rep s')
         end
  end.
Definition replace_all (pat rep s : string) : string :=
  replace_all_fuel (S (String.length s)) pat rep s.

Definition ends_with (suf s : string) : bool :=
  let n := String.length s in let k := String.length suf in
  if Nat.leb k n then String.eqb (substring (n - k) k s) suf else false.

(* Python: s.removesuffix(suf) *)
Definition remove_suffix (suf s : string) : string :=
  if ends_with suf s then substring 0 (String.length s - String.length suf) s else s.

(* Python: s.strip(chars) : strips any of the characters of chars from both ends *)
Fixpoint mem_ascii (c : ascii) (chars : string) : bool :=
  match chars with
  | EmptyString => false
  | String d r => if Ascii.eqb c d then true else mem_ascii c r
  end.
Fixpoint lstrip_chars (chars s : string) : string :=
  match s with
  | EmptyString => EmptyString
  | String c s' => if mem_ascii c chars then lstrip_chars chars s' else s
  end.
Fixpoint rev_string (s acc : string) : string :=
  match s with
  | EmptyString => acc
  | String c s' => rev_string s' (String c acc)
  end.
Definition strip_chars (chars s : string) : string :=
  rev_string (lstrip_chars chars (rev_string (lstrip_chars chars s) "")) "".

Definition str_mem (s : string) (l : list string) : bool :=
  existsb (String.eqb s) l.

Fixpoint lookup {A} (k : string) (t : list (string * A)) : option A :=
  match t with
  | [] => None
  | (k', v) :: t' => if String.eqb k k' then Some v else lookup k t'
  end.

Lemma lookup_In {A} k (t : list (string * A)) v : lookup k t = Some v -> In (k, v) t.
Proof.
  induction t as [|[k' v'] t IH]; simpl; [discriminate|].
  destruct (String.eqb_spec k k') as [->|Hne]; intro H.
  - inversion H; subst; now left.
  - right; auto.
Qed.
