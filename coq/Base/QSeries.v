(* Series over Q: lists read with nth-with-0; generic lemmas used by Proofs/Series.v. *)
From Coq Require Import QArith Lqa Lia List Bool Arith.
Import ListNotations.
Open Scope Q_scope.

Definition nthq (l : list Q) (m : nat) : Q := nth m l 0.
Definition rep (x : Q) (n : nat) : list Q := repeat x n.
Definition qnat (n : nat) : Q := inject_Z (Z.of_nat n).
(* sum; Qred only keeps the representation small (Qred q == q) *)
Definition qsum (l : list Q) : Q := fold_right (fun x s => Qred (x + s)) 0 l.
Definition rotate (k : nat) (l : list Q) : list Q := skipn k l ++ firstn k l.
(* the series  [f 0; f 1; ...; f (n-1)] *)
Definition tab (n : nat) (f : nat -> Q) : list Q := map f (seq 0 n).
Definition Qlt_bool (a b : Q) : bool := negb (Qle_bool b a).
Definition qmin (a b : Q) : Q := if Qle_bool a b then a else b.
Definition qmax (a b : Q) : Q := if Qle_bool a b then b else a.
Definition list_min (l : list Q) : Q :=
  match l with [] => 0 | x :: l' => fold_left qmin l' x end.
Fixpoint map2 (f : Q -> Q -> Q) (a b : list Q) : list Q :=
  match a, b with
  | x :: a', y :: b' => f x y :: map2 f a' b'
  | _, _ => []
  end.

(* every element satisfies P (as a Prop over indices) *)
Definition all_nonneg (l : list Q) : Prop := forall m, 0 <= nthq l m.
Definition nondecreasing (l : list Q) : Prop :=
  forall i j, (i <= j < List.length l)%nat -> nthq l i <= nthq l j.
Definition bounded_by (b : Q) (l : list Q) : Prop := forall m, (m < List.length l)%nat -> nthq l m <= b.

Lemma qnat_nonneg : forall n, 0 <= qnat n.
Proof. intro n. unfold qnat, Qle; simpl. lia. Qed.

Lemma qnat_le : forall a b, (a <= b)%nat -> qnat a <= qnat b.
Proof. intros a b H. unfold qnat, Qle; simpl. lia. Qed.

Lemma qnat_pos : forall n, (0 < n)%nat -> 0 < qnat n.
Proof. intros n H. unfold qnat, Qlt; simpl. lia. Qed.

Lemma qnat_sub : forall a b, (b <= a)%nat -> qnat (a - b) == qnat a - qnat b.
Proof.
  intros a b H. unfold qnat. rewrite Nat2Z.inj_sub by exact H.
  unfold Qeq, Qminus, Qplus, Qopp; simpl. lia.
Qed.

Lemma tab_length : forall n f, List.length (tab n f) = n.
Proof. intros. unfold tab. rewrite map_length, seq_length. reflexivity. Qed.

Lemma tab_nth : forall n f m, (m < n)%nat -> nthq (tab n f) m = f m.
Proof.
  intros n f m H. unfold nthq, tab.
  rewrite (nth_indep _ 0 (f 0%nat)) by (rewrite map_length, seq_length; exact H).
  rewrite map_nth. rewrite seq_nth by exact H. reflexivity.
Qed.

Lemma nthq_overflow : forall l m, (List.length l <= m)%nat -> nthq l m = 0.
Proof. intros. unfold nthq. apply nth_overflow. assumption. Qed.

Lemma rep_length : forall x n, List.length (rep x n) = n.
Proof. intros. apply repeat_length. Qed.

Lemma rep_nth : forall x n m, (m < n)%nat -> nthq (rep x n) m = x.
Proof.
  intros x n. induction n; intros m H; [lia|].
  destruct m; simpl; [reflexivity|]. apply IHn. lia.
Qed.

Lemma nthq_app_l : forall a b m, (m < List.length a)%nat -> nthq (a ++ b) m = nthq a m.
Proof. intros. unfold nthq. apply app_nth1. assumption. Qed.

Lemma nthq_app_r : forall a b m, (List.length a <= m)%nat -> nthq (a ++ b) m = nthq b (m - List.length a).
Proof. intros. unfold nthq. apply app_nth2. assumption. Qed.

Lemma nthq_firstn : forall n l m, (m < n)%nat -> nthq (firstn n l) m = nthq l m.
Proof.
  induction n; intros l m H; [lia|].
  destruct l; [destruct m; reflexivity|]. destruct m; simpl; [reflexivity|].
  unfold nthq in *; simpl. apply IHn. lia.
Qed.

Lemma nthq_map : forall (f : Q -> Q) l m, (m < List.length l)%nat -> nthq (map f l) m = f (nthq l m).
Proof.
  intros f l m H. unfold nthq.
  rewrite (nth_indep _ 0 (f 0)) by (rewrite map_length; exact H).
  apply map_nth.
Qed.

Lemma map2_length : forall f a b, List.length (map2 f a b) = Nat.min (List.length a) (List.length b).
Proof. induction a; destruct b; simpl; auto. Qed.

Lemma map2_nth : forall f a b m, (m < List.length a)%nat -> (m < List.length b)%nat ->
  nthq (map2 f a b) m = f (nthq a m) (nthq b m).
Proof.
  induction a; intros b m Ha Hb; simpl in *; [lia|].
  destruct b; simpl in *; [lia|]. destruct m; [reflexivity|].
  unfold nthq in *; simpl. apply IHa; lia.
Qed.

Lemma all_nonneg_of_lt : forall l, (forall m, (m < List.length l)%nat -> 0 <= nthq l m) -> all_nonneg l.
Proof.
  intros l H m. destruct (Nat.lt_ge_cases m (List.length l)) as [L|L]; [auto|].
  rewrite nthq_overflow by exact L. lra.
Qed.

(* monotone step-by-step implies monotone *)
Lemma nondecreasing_of_step : forall l,
  (forall i, (S i < List.length l)%nat -> nthq l i <= nthq l (S i)) -> nondecreasing l.
Proof.
  intros l H i j [Hij Hj]. induction j; [replace i with 0%nat by lia; lra|].
  destruct (Nat.eq_dec i (S j)) as [->|N]; [lra|].
  apply Qle_trans with (nthq l j); [apply IHj; lia|apply H; exact Hj].
Qed.
