(* Python's round(x) on a number read as an exact rational: nearest integer, ties to even. *)
From Coq Require Import ZArith QArith Qround Qabs Lqa Lia.
Open Scope Q_scope.

Definition Qround_half_even (x : Q) : Z :=
  let f := Qfloor x in
  match Qcompare (x - inject_Z f) (1 # 2) with
  | Lt => f
  | Gt => (f + 1)%Z
  | Eq => if Z.even f then f else (f + 1)%Z
  end.

Definition Qround (x : Q) : Q := inject_Z (Qround_half_even x).

Lemma inject_Z_succ : forall z, inject_Z (z + 1) == inject_Z z + 1.
Proof. intro z. rewrite inject_Z_plus. reflexivity. Qed.

Lemma Qround_bounds : forall x, x - (1 # 2) <= Qround x /\ Qround x <= x + (1 # 2).
Proof.
  intro x. unfold Qround, Qround_half_even.
  pose proof (Qfloor_le x) as Hl. pose proof (Qlt_floor x) as Hu.
  rewrite inject_Z_succ in Hu.
  destruct (Qcompare (x - inject_Z (Qfloor x)) (1 # 2)) eqn:E.
  - apply Qeq_alt in E. destruct (Z.even (Qfloor x)); [|rewrite inject_Z_succ]; split; lra.
  - apply Qlt_alt in E. split; lra.
  - apply Qgt_alt in E. rewrite inject_Z_succ. split; lra.
Qed.

Lemma Qround_close : forall x, Qabs (Qround x - x) <= 1 # 2.
Proof. intro x. destruct (Qround_bounds x). apply Qabs_Qle_condition. split; lra. Qed.

Lemma Qround_nonneg : forall x, 0 <= x -> 0 <= Qround x.
Proof.
  intros x H. unfold Qround, Qround_half_even.
  assert (0 <= Qfloor x)%Z as Hf.
  { change 0%Z with (Qfloor 0). apply Qfloor_resp_le. exact H. }
  assert (0 <= inject_Z (Qfloor x)) by (change 0 with (inject_Z 0); rewrite <- Zle_Qle; exact Hf).
  destruct (Qcompare _ _); [destruct (Z.even _)| |]; try rewrite inject_Z_succ; lra.
Qed.

Lemma Qround_comp : forall x y, x == y -> Qround x == Qround y.
Proof.
  intros x y H. unfold Qround, Qround_half_even.
  rewrite (Qfloor_comp x y H).
  assert (E : Qcompare (x - inject_Z (Qfloor y)) (1 # 2) = Qcompare (y - inject_Z (Qfloor y)) (1 # 2))
    by (rewrite H; reflexivity).
  rewrite E. reflexivity.
Qed.

(* rounding an integer is the identity *)
Lemma Qround_inject_Z : forall z, Qround (inject_Z z) == inject_Z z.
Proof.
  intro z. unfold Qround, Qround_half_even. rewrite Qfloor_Z.
  assert (E : Qcompare (inject_Z z - inject_Z z) (1 # 2) = Lt).
  { rewrite <- Qlt_alt. setoid_replace (inject_Z z - inject_Z z) with 0 by ring. reflexivity. }
  rewrite E. reflexivity.
Qed.

Example round_half_even_examples :
  (Qround_half_even (5 # 2) = 2 /\ Qround_half_even (7 # 2) = 4 /\ Qround_half_even (-(1 # 2)) = 0 /\
   Qround_half_even (53 # 5) = 11 /\ Qround_half_even (-(3 # 2)) = -2)%Z.
Proof. repeat split. Qed.
