(* Lists of rationals read as monthly series: sum, nth-with-0, point update, tabulation.
   Used by Model/Helpers.v (C18).  Elementary lemmas only. *)
From Coq Require Import QArith Qminmax Lqa Lia List Bool Setoid.
Import ListNotations.
Open Scope Q_scope.

Fixpoint qsum (l : list Q) : Q :=
  match l with [] => 0 | x :: t => x + qsum t end.

Fixpoint upd (l : list Q) (i : nat) (v : Q) : list Q :=
  match l, i with
  | [], _ => []
  | _ :: t, O => v :: t
  | x :: t, S i' => x :: upd t i' v
  end.

(* [f 0; f 1; ...; f (n-1)] *)
Definition tab (n : nat) (f : nat -> Q) : list Q := map f (seq 0 n).

Definition Qltb (a b : Q) : bool := negb (Qle_bool b a).

(* Python's builtin min(a, b): b when b < a, else a *)
Definition pymin (a b : Q) : Q := if Qltb b a then b else a.
(* numpy.minimum / numpy.maximum (value-wise identical to pymin / its dual) *)
Definition npmin (a b : Q) : Q := if Qle_bool a b then a else b.
Definition npmax (a b : Q) : Q := if Qle_bool a b then b else a.

Lemma Qltb_spec a b : reflect (a < b) (Qltb a b).
Proof.
  unfold Qltb. destruct (Qle_bool b a) eqn:E; simpl; constructor.
  - apply Qle_bool_iff in E. lra.
  - assert (~ b <= a) by (intro K; apply Qle_bool_iff in K; congruence). lra.
Qed.

Lemma Qle_bool_spec a b : reflect (a <= b) (Qle_bool a b).
Proof.
  destruct (Qle_bool a b) eqn:E; constructor.
  - now apply Qle_bool_iff.
  - intro K. apply Qle_bool_iff in K. congruence.
Qed.

Lemma pymin_spec a b : (a <= b /\ pymin a b = a) \/ (b < a /\ pymin a b = b).
Proof. unfold pymin. destruct (Qltb_spec b a); [right|left]; split; auto; lra. Qed.

Lemma npmin_spec a b : (a <= b /\ npmin a b = a) \/ (b < a /\ npmin a b = b).
Proof. unfold npmin. destruct (Qle_bool_spec a b); [left|right]; split; auto; lra. Qed.

Lemma npmax_spec a b : (a <= b /\ npmax a b = b) \/ (b < a /\ npmax a b = a).
Proof. unfold npmax. destruct (Qle_bool_spec a b); [left|right]; split; auto; lra. Qed.

Lemma pymin_Qmin a b : pymin a b == Qmin a b.
Proof.
  destruct (pymin_spec a b) as [[H ->]|[H ->]].
  - symmetry. now apply Q.min_l.
  - symmetry. apply Q.min_r. lra.
Qed.

(* ---- upd / nth *)
Lemma upd_length l : forall i v, length (upd l i v) = length l.
Proof. induction l; intros [|i] v; simpl; auto. Qed.

Lemma nth_upd_same l : forall i v, (i < length l)%nat -> nth i (upd l i v) 0 = v.
Proof. induction l; intros [|i] v H; simpl in *; try lia; auto. apply IHl; lia. Qed.

Lemma nth_upd_other l : forall i j v, i <> j -> nth j (upd l i v) 0 = nth j l 0.
Proof.
  induction l; intros [|i] [|j] v H; simpl; auto; try congruence;
  try (apply IHl; congruence).
Qed.

Lemma qsum_upd l : forall i v, (i < length l)%nat -> qsum (upd l i v) == qsum l - nth i l 0 + v.
Proof.
  induction l; intros [|i] v H; simpl in *; try lia.
  - ring.
  - rewrite IHl by lia. ring.
Qed.

(* ---- tab *)
Lemma tab_length n f : length (tab n f) = n.
Proof. unfold tab. now rewrite map_length, seq_length. Qed.

Lemma nth_tab n f m : (m < n)%nat -> nth m (tab n f) 0 = f m.
Proof.
  intro H. unfold tab.
  rewrite nth_indep with (d' := f 0%nat) by (rewrite map_length, seq_length; exact H).
  rewrite map_nth. now rewrite seq_nth.
Qed.

Lemma nth_tab_out n f m : (n <= m)%nat -> nth m (tab n f) 0 = 0.
Proof. intro H. apply nth_overflow. now rewrite tab_length. Qed.

Lemma qsum_map_seq (f g : nat -> Q) : forall n s,
  (forall m, (s <= m < s + n)%nat -> f m == g m) -> qsum (map f (seq s n)) == qsum (map g (seq s n)).
Proof.
  induction n; intros s H; simpl; [reflexivity|].
  rewrite (H s) by lia. rewrite IHn; [reflexivity|]. intros m Hm. apply H. lia.
Qed.

Lemma qsum_tab_ext n f g : (forall m, (m < n)%nat -> f m == g m) -> qsum (tab n f) == qsum (tab n g).
Proof. intro H. unfold tab. apply qsum_map_seq. intros m Hm. apply H. lia. Qed.

Lemma qsum_map_seq_plus (f g : nat -> Q) : forall n s,
  qsum (map (fun m => f m + g m) (seq s n)) == qsum (map f (seq s n)) + qsum (map g (seq s n)).
Proof. induction n; intros s; simpl; [ring|]. rewrite IHn. ring. Qed.

Lemma qsum_tab_plus n f g : qsum (tab n (fun m => f m + g m)) == qsum (tab n f) + qsum (tab n g).
Proof. apply qsum_map_seq_plus. Qed.

Lemma qsum_map_seq_minus (f g : nat -> Q) : forall n s,
  qsum (map (fun m => f m - g m) (seq s n)) == qsum (map f (seq s n)) - qsum (map g (seq s n)).
Proof. induction n; intros s; simpl; [ring|]. rewrite IHn. ring. Qed.

Lemma qsum_tab_minus n f g : qsum (tab n (fun m => f m - g m)) == qsum (tab n f) - qsum (tab n g).
Proof. apply qsum_map_seq_minus. Qed.

Lemma qsum_map_seq_nth : forall l s (pre : list Q), length pre = s ->
  qsum (map (fun m => nth m (pre ++ l) 0) (seq s (length l))) == qsum l.
Proof.
  induction l; intros s pre H; simpl; [reflexivity|].
  rewrite app_nth2 by lia. replace (s - length pre)%nat with 0%nat by lia. simpl.
  specialize (IHl (S s) (pre ++ [a])). rewrite <- app_assoc in IHl. simpl in IHl.
  rewrite IHl; [reflexivity|]. rewrite app_length; simpl; lia.
Qed.

Lemma qsum_tab_nth l : qsum (tab (length l) (fun m => nth m l 0)) == qsum l.
Proof. exact (qsum_map_seq_nth l 0%nat [] eq_refl). Qed.

(* ---- order *)
Lemma qsum_nonneg l : (forall m, (m < length l)%nat -> 0 <= nth m l 0) -> 0 <= qsum l.
Proof.
  induction l; intro H; simpl; [lra|].
  assert (0 <= a) by (apply (H 0%nat); simpl; lia).
  assert (0 <= qsum l) by (apply IHl; intros m Hm; apply (H (S m)); simpl; lia). lra.
Qed.

(* all entries <= 0: the sum is at most any single entry *)
Lemma qsum_nonpos_le l : (forall m, (m < length l)%nat -> nth m l 0 <= 0) ->
  forall k, (k < length l)%nat -> qsum l <= nth k l 0.
Proof.
  induction l; intros H k Hk; simpl in *; [lia|].
  assert (Ha : a <= 0) by (apply (H 0%nat); lia).
  assert (Hl : forall m, (m < length l)%nat -> nth m l 0 <= 0) by (intros m Hm; apply (H (S m)); lia).
  destruct k.
  - assert (qsum l <= 0).
    { destruct l; simpl; [lra|]. specialize (IHl Hl 0%nat). simpl in IHl.
      assert (q <= 0) by (apply (Hl 0%nat); simpl; lia).
      assert (q + qsum l <= q) by (apply IHl; lia). lra. }
    lra.
  - specialize (IHl Hl k). assert (qsum l <= nth k l 0) by (apply IHl; lia). lra.
Qed.

Lemma In_down n j : (j < n)%nat -> In j (rev (seq 0 n)).
Proof. intro H. apply in_rev. rewrite rev_involutive. apply in_seq. lia. Qed.
