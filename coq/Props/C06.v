(* C06 - Herd head-count ledger balances every month.
   Statements only; proofs live in Proofs/Herd.v.  Model/Herd.v reads the month loop of animal_populations.main() as
     month_step = feeding ; phase_a (breeding change, births, retirements) ; phase_b_loop (greedy slaughter by size class,
     calculate_slaughter_rate, calculate_animal_population, pregnant slaughter) ; phase_c_loop (homekill, starvation,
     final population);
   tied to /repo transition-wise by harness/props/c06.py.  The theorems are about the per-herd bodies phase_a / phase_b /
   phase_c (every herd, every state, every month, every supply - the supply only enters through the starving count sv,
   which is universally quantified) and about the whole slaughter loop phase_b_loop (every list of herds).
   Hypotheses (static_ok): hours per head > 0; baseline slaughter, target, death rate, starvation fraction, retiring
   fraction, animals per pregnancy >= 0; birth ratio, gestation > 0; 0 <= breeding reduction <= 1.  Homekill budget and
   homekill fraction are the constants of CountryData (0). *)
From Coq Require Import QArith List Bool Lqa.
From Allfed Require Import Base.QRound Model.Herd Proofs.Herd.
Import ListNotations.
Open Scope Q_scope.

Example hypotheses_satisfiable :
  static_ok {| st_milk := false; st_sp := 0; st_size := Medium; st_rum := true; st_lsu := 1 # 10; st_lsuf := 1;
               st_eg := 3 # 5; st_ef := 4 # 5; st_hours := 4; st_base_sl := 100; st_target := 29456; st_death := 1 # 240;
               st_perpreg := 2; st_ratio := 1; st_gest := 5; st_cull := 9 # 10; st_retfrac := 0; st_starv := 9 # 10;
               st_red := 0; st_tfrac := 1 |} /\
  state_ok {| s_pop := 29456; s_sl := 0; s_ptot := 10; s_pbirth := 2; s_pfrac := 0 |}.
Proof. unfold static_ok, state_ok; cbn; repeat split; try discriminate; apply Qle_bool_iff; reflexivity. Qed.

(* --- ledger with a single clamp: end = max(0, start + births + transfers in - retirements - natural deaths -
       slaughter - starvation deaths - homekill); the code's two internal clamps compose to this one *)
Theorem c06_ledger : forall month0 st a tr remaining sv budget, budget == 0 ->
  static_ok st -> 0 <= remaining -> 0 <= s_pop (a_state a) ->
  let b := phase_b month0 st a tr remaining in
  let c := phase_c st (s_pop (a_state a)) sv b budget in
  let x := s_pop (a_state a) + a_births a + (if st_milk st then 0 else tr) - (if st_milk st then a_ret a else 0)
           - b_other_death b - b_slaughter b - c_starve_death c - c_hk_healthy c - c_hk_starving c in
  (0 <= x -> c_pop c == x) /\ (x <= 0 -> c_pop c == 0) /\ 0 <= c_pop c.
Proof. exact ledger_one. Qed.
Print Assumptions c06_ledger.

(* --- the homekill budget that the homekill / starvation loop hands from herd to herd is 0 for every herd of the list
       (so c06_ledger and c06_nonneg apply to every herd, not only the first), and the loop is phase_c herd by herd *)
Theorem c06_budget_zero : forall l,
  Forall (fun x : sstatic * Q * Q * phaseB =>
            let '(st, _, _, b) := x in
            0 < st_hours st /\ 0 <= st_starv st /\ 0 <= b_other_death b /\ 0 <= b_ptot b /\ 0 <= b_pbirth b) l ->
  Forall (fun q => q == 0) (budgets l hk_hours_total) /\
  phase_c_loop l hk_hours_total =
  map (fun xq : (sstatic * Q * Q * phaseB) * Q => let '(st, ps, sv, b, q) := xq in phase_c st ps sv b q)
      (combine l (budgets l hk_hours_total)).
Proof. intros l H. split; [apply budgets_zero; [reflexivity|exact H]|apply phase_c_loop_unfold]. Qed.
Print Assumptions c06_budget_zero.

(* --- transfers: a meat herd receives exactly what the (last) dairy herd of its species retires plus its surviving
       male calves; the dairy herd records the negative; a species without dairy herd receives nothing *)
Theorem c06_transfer : forall month0 l1 stm am l2 st a remaining,
  st_milk stm = true ->
  Forall (fun x => st_milk (fst x) && Nat.eqb (st_sp (fst x)) (st_sp stm) = false) l2 ->
  let all := l1 ++ (stm, am) :: l2 in
  let sent := a_ret am + a_tbirths am in
  (st_milk st = false -> st_sp st = st_sp stm ->
     b_transfer (phase_b month0 st a (transfer_of (st_sp st) all 0) remaining) = sent /\
     b_additive (phase_b month0 st a (transfer_of (st_sp st) all 0) remaining) = a_births a + sent) /\
  b_transfer (phase_b month0 stm am (transfer_of (st_sp stm) all 0) remaining) = - sent.
Proof.
  intros month0 l1 stm am l2 st a remaining Hm Hl2 all sent. subst all sent. split.
  - intros Hmeat Hsp. rewrite Hsp. rewrite (transfer_of_last (st_sp stm) l2 l1 stm am 0 Hm eq_refl Hl2).
    unfold phase_b. rewrite Hmeat.
    destruct (animal_population _ _ _ _ _) as [x y]. destruct (pregnant_slaughter _ _ _) as [u v]. split; reflexivity.
  - rewrite (transfer_of_last (st_sp stm) l2 l1 stm am 0 Hm eq_refl Hl2).
    unfold phase_b. rewrite Hm.
    destruct (animal_population _ _ _ _ _) as [x y]. destruct (pregnant_slaughter _ _ _) as [u v]. reflexivity.
Qed.
Print Assumptions c06_transfer.

Theorem c06_transfer_none : forall month0 all st a remaining,
  Forall (fun x => st_milk (fst x) && Nat.eqb (st_sp (fst x)) (st_sp st) = false) all -> st_milk st = false ->
  b_transfer (phase_b month0 st a (transfer_of (st_sp st) all 0) remaining) = 0.
Proof.
  intros month0 all st a remaining H Hm. rewrite (transfer_of_none _ _ 0 H). unfold phase_b. rewrite Hm.
  destruct (animal_population _ _ _ _ _) as [x y]. destruct (pregnant_slaughter _ _ _) as [u v]. reflexivity.
Qed.
Print Assumptions c06_transfer_none.

(* the surviving male calves are the dairy herd's births x (birth ratio - 1) x (1 - culling) and the retirements are
   herd x retiring fraction: both non-negative *)
Theorem c06_transfer_parts : forall m st s, static_ok st -> state_ok s ->
  let a := phase_a m (st, s) in
  a_tbirths a == a_births a * (st_ratio st - 1) * (1 - st_cull st) /\ a_ret a = s_pop s * st_retfrac st /\
  0 <= a_ret a /\ (st_cull st <= 1 -> 1 <= st_ratio st -> 0 <= a_tbirths a).
Proof.
  intros m st s H1 H2. destruct (phase_a_nonneg m st s H1 H2) as (_ & _ & _ & A & B & C & D). auto.
Qed.
Print Assumptions c06_transfer_parts.

(* --- labour hours: in every size class the greedy loop never uses more hours than the class's baseline capacity
       (sum of baseline slaughter x hours per head), whatever the order and number of herds *)
Theorem c06_hours : forall month0 all (l : list (sstatic * phaseA)), Forall (fun x => static_ok (fst x)) l ->
  let sts := map fst l in
  let h0 := (hours_of_size Small sts, hours_of_size Medium sts, hours_of_size Large sts) in
  forall z, hours_used z l (fst (phase_b_loop month0 all l h0)) <= hours_of_size z sts.
Proof.
  intros month0 all l H sts h0 z.
  assert (Hs : Forall static_ok sts).
  { subst sts. induction H; cbn [map]; constructor; auto. }
  assert (Hh : hours_nonneg h0).
  { subst h0. unfold hours_nonneg. cbn. repeat split; apply hours_of_size_nonneg; exact Hs. }
  pose proof (hours_used_le month0 all l h0 H Hh z) as P. subst h0. destruct z; exact P.
Qed.
Print Assumptions c06_hours.

(* --- slaughter never exceeds the animals available and never takes a herd below its target size *)
Theorem c06_available_target : forall month0 st a tr remaining, static_ok st -> 0 <= remaining ->
  let b := phase_b month0 st a tr remaining in
  let available := s_pop (a_state a) - (b_other_death b + (if st_milk st then a_ret a else 0)) + b_additive b in
  0 <= b_slaughter b /\
  (0 <= available -> b_slaughter b <= available) /\ (available < 0 -> b_slaughter b == 0) /\
  (st_target st <= available -> st_target st <= available - b_slaughter b) /\
  (available < st_target st -> b_slaughter b == 0).
Proof.
  intros month0 st a tr remaining H Hr. pose proof (phase_b_spec month0 st a tr remaining H Hr) as P. cbn zeta in P.
  destruct P as (_ & _ & _ & S0 & P0 & P1 & P2 & T1 & T2 & _). cbn zeta.
  destruct H as (_ & _ & Ht & _).
  set (b := phase_b month0 st a tr remaining) in *.
  set (av := s_pop (a_state a) - (b_other_death b + (if st_milk st then a_ret a else 0)) + b_additive b) in *.
  split; [exact S0|]. split; [|split; [|split]].
  - intro H. specialize (P1 H). lra.
  - intro H. apply P2. exact H.
  - intro H. assert (H0 : 0 <= av) by lra. specialize (P1 H0). specialize (T1 H). lra.
  - exact T2.
Qed.
Print Assumptions c06_available_target.

(* --- every flow and the head count are non-negative; births need a non-negative carried birthing figure, which the
       month step preserves (state_ok of the next state) *)
Theorem c06_nonneg : forall m month0 st s tr remaining sv budget, budget == 0 ->
  static_ok st -> state_ok s -> 0 <= remaining ->
  let a := phase_a m (st, s) in
  let b := phase_b month0 st a tr remaining in
  let c := phase_c st (s_pop (a_state a)) sv b budget in
  0 <= a_births a /\ 0 <= a_ret a /\ 0 <= b_other_death b /\ 0 <= b_slaughter b /\
  0 <= c_starve_death c /\ c_hk_healthy c == 0 /\ c_hk_starving c == 0 /\ c_hk_other c == 0 /\ 0 <= c_pop c /\
  state_ok {| s_pop := c_pop c; s_sl := b_slaughter b; s_ptot := c_ptot c; s_pbirth := c_pbirth c; s_pfrac := s_pfrac (a_state a) |}.
Proof.
  intros m month0 st s tr remaining sv budget Hb0 Hst Hs Hr.
  destruct (phase_a_nonneg m st s Hst Hs) as (As & Ap & Ab & _ & Ar & _). cbn zeta.
  set (a := phase_a m (st, s)) in *.
  pose proof (phase_b_spec month0 st a tr remaining Hst Hr) as B. cbn zeta in B.
  destruct B as (_ & _ & Bo & Bs & _ & _ & _ & _ & _ & _ & _ & Bpt & Bpb).
  destruct As as (P0 & _).
  pose proof (ledger_one month0 st a tr remaining sv budget Hb0 Hst Hr P0) as L. cbn zeta in L. destruct L as (_ & _ & L).
  destruct Hst as (Hh & _ & _ & Hd & Hsv & _).
  assert (Hod : 0 <= b_other_death (phase_b month0 st a tr remaining)).
  { rewrite Bo. apply Qmult_le_0_compat; assumption. }
  pose proof (phase_c_spec st (s_pop (a_state a)) sv _ budget Hb0 Hh Hsv Hod Bpt Bpb) as C. cbn zeta in C.
  destruct C as (C1 & C2 & C3 & _ & _ & C6 & _ & _ & _ & _ & _ & C12 & C13).
  repeat split; assumption.
Qed.
Print Assumptions c06_nonneg.

(* --- the hypothesis "carried birthing figure >= 0" is not implied by the initial attributes: a meat herd's baseline
       births = natural deaths + slaughter - transfer is negative when the dairy transfer dominates
       (Belarus, meat goats: 29 456 head, 5 %/year deaths, no recorded slaughter, 140.45 head/month from the dairy herd) *)
Theorem c06_births_baseline_negative_refuted :
  exists pop rate sl tr, 0 <= pop /\ 0 <= rate /\ 0 <= sl /\ 0 <= tr /\ tr < pop /\ meat_births_baseline pop rate sl tr < 0.
Proof.
  exists 29456, (1 # 20), 0, (14045 # 100). unfold meat_births_baseline. repeat split; try discriminate; reflexivity.
Qed.
Print Assumptions c06_births_baseline_negative_refuted.

(* ================= list level: the assembled month_step, and every reachable month =================
   herd_ok x := static_ok (fst x) /\ state_ok (snd x).  herd_conclusions m l x r (Proofs/Herd.v) says, for the herd x
   of the list l and the record r that month_step returns for it: r's births / retirements are phase_a of x; the single-
   clamp ledger of c06_ledger holds between x's head count and r's flows and end count; transfer_population and the
   additive animals are the (signed) transfer of x's species computed from the whole list (c06_transfer identifies it with
   the dairy herd's retirements + surviving male calves); slaughter is >= 0, <= the animals available and respects the
   target; births, retirements, natural and starvation deaths are >= 0 and the three homekill terms are 0; and the state
   handed to the next month is state_ok. *)
Theorem c06_month_step : forall month l feed grass, Forall herd_ok l ->
  let m := inject_Z (Z.of_nat month) in
  let rs := fst (fst (month_step month l feed grass)) in
  Forall2 (herd_conclusions m l) l rs /\
  (forall z, hours_used z (als_of m l) (map m_b rs) <= hours_of_size z (map fst l)) /\
  Forall herd_ok (step_states month l feed grass) /\
  map fst (step_states month l feed grass) = map fst l.
Proof.
  intros month l feed grass H. cbn zeta. split; [apply month_step_conclusions; exact H|].
  split; [apply month_step_hours; exact H|]. split; [apply step_states_ok; exact H|apply step_states_statics; exact H].
Qed.
Print Assumptions c06_month_step.

(* --- induction over months: every state reachable by iterating month_step from a state_ok list (any number of months,
       any starting month, any monthly feed and grass series) is state_ok with the same herds, so c06_month_step applies to
       the month that follows it *)
Theorem c06_reachable : forall n month feed grass l, Forall herd_ok l ->
  let l' := iterate_months n month feed grass l in
  Forall herd_ok l' /\ map fst l' = map fst l /\
  forall f g, Forall2 (herd_conclusions (inject_Z (Z.of_nat (month + n))) l') l'
                      (fst (fst (month_step (month + n) l' f g))).
Proof.
  intros n month feed grass l H. cbn zeta.
  pose proof (iterate_months_ok n month feed grass l H) as H'.
  split; [exact H'|]. split; [apply iterate_months_statics; exact H|].
  intros f g. apply month_step_conclusions. exact H'.
Qed.
Print Assumptions c06_reachable.

(* --- the initial state built by set_species_slaughter_attributes / append_month_zero is state_ok when the baseline
       births (and the initial slaughter) are non-negative - the hypothesis refuted for six (country, herd) pairs above *)
Theorem c06_init_state_ok : forall pop sl births_baseline ratio perpreg gest pfrac,
  0 <= pop -> 0 <= sl -> 0 <= births_baseline -> 0 < ratio -> 0 < perpreg -> 0 < gest ->
  state_ok (init_state pop sl births_baseline ratio perpreg gest pfrac).
Proof. exact init_state_ok_lemma. Qed.
Print Assumptions c06_init_state_ok.
