(* C17 - the shipped input table is valid, and the percentage-averaging helper behaves.
   (a) validity of Gen/CountryTable*.v (regenerated from computer_readable_combined.csv and from the country lists of
       ImportUtilities on every run) - finite, by vm_compute;
   (b) ImportUtilities.weighted_average_percentages (Model/Tables.wavg) for ALL percentage / weight vectors.
   The regeneration clause ("re-running the import scripts reproduces every table") is executed by the harness, it is not
   a theorem. *)
From Coq Require Import ZArith QArith Qminmax List String Bool.
From Allfed Require Import Base.StrUtil Model.Tables Proofs.Tables Gen.CountryTable.
Import ListNotations.
Open Scope Q_scope.
Open Scope string_scope.

(* ---------------------------------------------------------------- (a) the table *)

Lemma table_ok_true : table_ok columns raw_rows = true.
Proof. vm_compute. reflexivity. Qed.
Lemma codes_nodup_true : nodup_b (codes_of raw_rows) = true.
Proof. vm_compute. reflexivity. Qed.
Lemma names_nodup_true : nodup_b (names_of raw_rows) = true.
Proof. vm_compute. reflexivity. Qed.
Lemma codes_expected_true : same_set_b (codes_of raw_rows) expected_codes = true.
Proof. vm_compute. reflexivity. Qed.

(* 164 rows x 209 numeric columns, one row per expected country (ImportUtilities.country_codes with SWZ -> SWT),
   no country twice *)
Theorem c17_table_shape :
  List.length raw_rows = 164%nat /\ List.length columns = 209%nat /\
  Forall (fun r => List.length (snd r) = 209%nat) raw_rows /\
  NoDup (codes_of raw_rows) /\ NoDup (names_of raw_rows) /\
  (forall c, In c (codes_of raw_rows) <-> In c expected_codes) /\
  List.length expected_codes = 164%nat.
Proof.
  split; [vm_compute; reflexivity|]. split; [vm_compute; reflexivity|].
  split.
  { apply Forall_forall. intros r Hin.
    assert (H : forallb (fun r => Nat.eqb (List.length (snd r)) 209) raw_rows = true) by (vm_compute; reflexivity).
    rewrite forallb_forall in H. apply Nat.eqb_eq. apply H. exact Hin. }
  split; [apply nodup_b_NoDup, codes_nodup_true|]. split; [apply nodup_b_NoDup, names_nodup_true|].
  split; [apply same_set_b_spec, codes_expected_true|vm_compute; reflexivity].
Qed.
Print Assumptions c17_table_shape.

(* every row passes the boolean mirror of verify_country_data and the extra clauses of the property *)
Theorem c17_table_valid : forall r, In r raw_rows -> row_ok (decode_row columns r) = true.
Proof. apply table_ok_rows. exact table_ok_true. Qed.
Print Assumptions c17_table_valid.

(* ... spelled out: in every row no cell is missing; seasonality shares, loss / waste / area fractions lie in [0,1];
   grass reductions are >= -1 and crop reductions > -1 - 1e-8 (the snap tolerance of verify_country_data);
   every other quantity is >= 0; the twelve seasonality shares sum to 1 within 1e-9 *)
Theorem c17_table_cells : forall r, In r raw_rows ->
  let row := decode_row columns r in
  (forall c v, In (c, v) (cells row) -> exists x, v = Some x /\ cell_prop c x) /\
  (exists s, seasonality_sum row = Some s /\ - seas_tol <= s - 1 /\ s - 1 <= seas_tol) /\
  verify_ok row = true.
Proof. intros r Hin. apply row_ok_spec. apply c17_table_valid. exact Hin. Qed.
Print Assumptions c17_table_cells.

(* observation recorded as a theorem: the text of the table does contain crop reductions (slightly) below -100 %,
   e.g. -1.0000000000000002 - they are inside the 1e-8 snap of verify_country_data, which is why the clause above is
   stated with that tolerance *)
Definition crop_below_minus_one (row : Tables.row) : nat :=
  List.length (filter (fun i => o_lt (getq row ("crop_reduction_year" ++ nat_str i)) (q (-1))) years).
Theorem c17_crop_reduction_below_minus_one_cells :
  fold_right (fun r n => (crop_below_minus_one (decode_row columns r) + n)%nat) 0%nat raw_rows = 36%nat.
Proof. vm_compute. reflexivity. Qed.
Print Assumptions c17_crop_reduction_below_minus_one_cells.

(* ---------------------------------------------------------------- (b) weighted_average_percentages *)

(* impossible values (> 1e5 or < -100) do not influence the result: replacing one by another changes nothing *)
Theorem c17_wavg_ignores : forall ps ps' ws,
  Forall2 same_or_both_impossible ps ps' -> wavg ps ws = wavg ps' ws.
Proof. intros. apply wavg_gen_ignores. assumption. Qed.
Print Assumptions c17_wavg_ignores.

(* only impossible values -> the sentinel 9.37e36 *)
Theorem c17_wavg_all_invalid : forall ps ws r,
  wavg ps ws = WOk r -> (forall p, In p ps -> impossible p = true) -> r = sentinel.
Proof. intros ps ws r. apply wavg_all_invalid. Qed.
Print Assumptions c17_wavg_all_invalid.

(* range, weights summing to exactly 1: a non-sentinel result lies within the range of the valid inputs *)
Theorem c17_wavg_range_sum1 : forall ps ws r lo hi,
  wavg ps ws = WOk r -> r <> sentinel -> qsum ws == 1 ->
  (forall p, In p ps -> impossible p = false -> lo <= p /\ p <= hi) ->
  lo <= r /\ r <= hi.
Proof. exact wavg_range_sum1. Qed.
Print Assumptions c17_wavg_range_sum1.

(* range, every accepted weight vector (0.99999 < sum <= 1.00001): what IS provable for the code as it is -
   the result is a value m of the valid range times a factor k in [0.9999, 1.0001] *)
Theorem c17_wavg_range_partial : forall ps ws r lo hi,
  wavg ps ws = WOk r -> r <> sentinel ->
  (forall p, In p ps -> impossible p = false -> lo <= p /\ p <= hi) ->
  exists m k, r == m * k /\ lo <= m /\ m <= hi /\ r_lo <= k /\ k <= r_hi.
Proof. exact wavg_range_partial. Qed.
Print Assumptions c17_wavg_range_partial.

(* ... and the exact range statement is FALSE for the code as it is: accepted weights 1/2 + 0.500005, both inputs 10,
   result 10.00005 *)
Theorem c17_wavg_range_refuted : exists ps ws r,
  wavg ps ws = WOk r /\ r <> sentinel /\ (forall p, In p ps -> impossible p = false /\ p <= 10) /\ 10 < r.
Proof.
  exists [10; 10], [1 # 2; 500005 # 1000000], (20000100 # 2000000).
  split; [vm_compute; reflexivity|]. split; [discriminate|]. split.
  - intros p [<-|[<-|[]]]; split; try reflexivity; discriminate.
  - reflexivity.
Qed.
Print Assumptions c17_wavg_range_refuted.

(* the candidate repair (divide by the un-rejected weight sum) has the exact range property for every accepted input *)
Theorem c17_wavg_spec_range : forall ps ws r lo hi,
  wavg_spec ps ws = WOk r -> r <> sentinel ->
  (forall p, In p ps -> impossible p = false -> lo <= p /\ p <= hi) ->
  lo <= r /\ r <= hi.
Proof. exact wavg_spec_range. Qed.
Print Assumptions c17_wavg_spec_range.

(* non-vacuity: the repository's own test vectors *)
Example c17_wavg_example : match wavg [-100; 100; 100000000000000000000] [1 # 102; 1 # 102; 100 # 102] with
                           | WOk r => Qeq_bool r 0 | WAssert => false end = true.
Proof. vm_compute. reflexivity. Qed.
Example c17_wavg_sentinel : avg_percentages [100000000000; -101; 100000000; 100000000000000000000000000] = WOk sentinel.
Proof. vm_compute. reflexivity. Qed.
