(* C11 - A food quantity's unit labels always describe its numbers.
   Statements only; proofs live in Proofs/FoodOps.v; the model Model/FoodOps.v is a hand transliteration of
   src/food_system/food.py and unit_conversions.py, tied to the code by differential testing on every run.

   WF x  :=  the combined label list equals the three labels
          /\ a series has three non-empty lists of equal length
          /\ every label is  <base> ++ tokens  with a base that does not contain "month", where
             a series carries exactly one " each month", at the end, and a single value carries none
             (any number of " per month" is allowed).
   "Operands unchanged" is not a theorem: the model is functional, so it holds by construction; the tie
   checks it on the implementation (deep comparison of every operand before / after every call). *)
From Coq Require Import QArith ZArith List String Bool.
From Allfed Require Import Base.StrUtil Gen.UnitTables Model.Units Model.FoodOps Proofs.FoodOps.
Import ListNotations.
Open Scope Q_scope.
Open Scope string_scope.

(* 1. construction: int, float, list or array nutrients (int placeholders included), labels with or without
      the " each month" suffix for a series *)
Theorem c11_constructor_wf : forall k f p lk lf lp z, ctor k f p lk lf lp = Ok z ->
  match k with
  | NList _ => lab_any lk /\ lab_any lf /\ lab_any lp
  | _ => lab_sc lk /\ lab_sc lf /\ lab_sc lp
  end -> WF z.
Proof. exact ctor_wf. Qed.
Print Assumptions c11_constructor_wf.

(* 2. every operation, integer indexing included (all but the declared label mutators), preserves WF *)
Theorem c11_op_closed : forall c x o z, WF x -> op_closed o -> run_op c x o = Ok z -> WF z.
Proof. exact run_op_wf. Qed.
Print Assumptions c11_op_closed.

(* 3. hence every sequence of operations does (induction over the list) *)
Theorem c11_closed : forall c os x z, WF x -> Forall op_closed os -> run_ops c x os = Ok z -> WF z.
Proof. intros c os x z. exact (run_ops_wf c os x z). Qed.
Print Assumptions c11_closed.

(* 4. the combined label list agrees with the three labels after EVERY operation, including the label mutators, whatever the operand looked like (no hypothesis) *)
Theorem c11_units_list : forall c x o z, run_op c x o = Ok z -> units z = [ku z; fu z; pu z].
Proof. exact run_op_units. Qed.
Print Assumptions c11_units_list.

(* 5. label table *)
(* same shape in, same labels out *)
Theorem c11_labels_kept : forall x v z, WF x -> is_monthly v = mon x -> with_labels_of x v = Ok z ->
  ku z = ku x /\ fu z = fu x /\ pu z = pu x /\ fv z = v.
Proof. intros x v z W S H. exact (with_labels_same x v z H W S). Qed.
Print Assumptions c11_labels_kept.

(* token-level meaning of the label rewrites used by month extraction, sums, minima / maxima, and
   scalar * array: each -> per, each stripped, each appended *)
Theorem c11_label_rewrites : forall b pre, clean b = true -> ~ In Each pre ->
  replace_all EACH PER (render b (pre ++ [Each])) = render b (map to_per (pre ++ [Each])) /\
  split_first EACH (render b (pre ++ [Each])) = render b pre /\
  render b pre ++ EACH = render b (pre ++ [Each]) /\
  contains EACH_NOSPACE (render b (pre ++ [Each])) = true /\
  contains EACH_NOSPACE (render b pre) = false.
Proof.
  intros b pre Hc Hn. repeat split.
  - exact (A5 b _ Hc).
  - unfold EACH. rewrite (A4 b _ Hc). now rewrite before_each_end.
  - exact (A6 b pre).
  - unfold EACH_NOSPACE. rewrite (A1 b _ Hc). apply existsb_each_end.
  - unfold EACH_NOSPACE. rewrite (A1 b _ Hc). now apply existsb_no_each.
Qed.
Print Assumptions c11_label_rewrites.

(* 6. refusal: quantities whose label lists differ are not combined *)
Theorem c11_refuses : forall x y, same_units x y = false ->
  add x y = Rejected AssertRejected /\ sub x y = Rejected AssertRejected /\
  div_food x y = Rejected AssertRejected /\ min_elementwise x y = Rejected AssertRejected /\
  (forall incf incp p, pred_checks_units p = true -> eval_pred incf incp p x y = Rejected AssertRejected).
Proof.
  intros x y H. repeat split;
  [exact (refuse_add x y H)|exact (refuse_sub x y H)|exact (refuse_div x y H)|exact (refuse_min x y H)|].
  intros incf incp p Hp. exact (refuse_pred incf incp p x y Hp H).
Qed.
Print Assumptions c11_refuses.

Theorem c11_refuses_product_of_quantities : forall x y, is_a_ratio x = false -> is_a_ratio y = false ->
  exists r, mul x (MFood y) = Rejected r.
Proof. exact refuse_mul. Qed.
Print Assumptions c11_refuses_product_of_quantities.

(* 7. a dimensionless ratio times a quantity keeps the quantity's units, whichever side the ratio is on *)
Theorem c11_ratio_either_side : forall r q z, WF r -> WF q -> is_a_ratio r = true -> is_a_ratio q = false ->
  (mul r (MFood q) = Ok z \/ mul q (MFood r) = Ok z) ->
  ku z = ku q /\ fu z = fu q /\ pu z = pu q /\ units z = units q.
Proof. exact mul_ratio_labels. Qed.
Print Assumptions c11_ratio_either_side.

(* 8. the 16 predicates (and all_greater_than_or_equal_to_zero with any threshold): a single value and the one-month series give the same answer (or the same
      rejection) under all four flag settings *)
Theorem c11_predicates : forall (incf incp : bool) (pr : pred) (k f p k' f' p' : Q) (lk lf lp : string),
  eval_pred incf incp pr (one_scalar lk lf lp k f p) (one_scalar lk lf lp k' f' p')
  = eval_pred incf incp pr (one_month lk lf lp k f p) (one_month lk lf lp k' f' p').
Proof. intros. apply pred_scalar_series. Qed.
Print Assumptions c11_predicates.

(* ---------------------------------------------------------------- non-vacuity *)
Definition conv0 : conv := {| kcals_daily := 2100; fat_daily := 47; protein_daily := 51; population := 7800000000 |}.

(* all 51 unit names of the conversion tables have clean bases (so WF covers every known unit) *)
Example known_units_clean :
  forallb (fun u => clean (base_of u)) (kcal_keys ++ fat_keys ++ protein_keys) = true.
Proof. vm_compute. reflexivity. Qed.

(* the two former counterexamples (integer indexing, int placeholders with suffixed labels) now behave *)
Example integer_index_per_month :
  exists z, run_op conv0 wit_series (OIndex 0) = Ok z /\ mon z = false /\
            units z = ["billion kcals per month"; "thousand tons per month"; "thousand tons per month"].
Proof. eexists. repeat split; vm_compute; reflexivity. Qed.
Example int_placeholder_single_suffix :
  exists z, ctor (NList [1; 2]) (NInt 0) (NInt 0) "billion kcals each month" "thousand tons each month"
                 "thousand tons each month" = Ok z /\
            units z = ["billion kcals each month"; "thousand tons each month"; "thousand tons each month"].
Proof. eexists. split; vm_compute; reflexivity. Qed.

Example wf_inhabited : WF wit_series.
Proof. exact wit_series_wf. Qed.

(* a six-step sequence that is accepted, every step admissible for c11_closed *)
Example sequence_accepted :
  exists z, run_ops conv0 wit_series
    [OAdd wit_series; OMul (MNum (1#2)); OHelper "in_units_percent_fed"; ORunSum; OMonth 1; OMul (MArr [1; 2; 3])] = Ok z
    /\ ku z = "percent people fed per month each month".
Proof. eexists. split; vm_compute; reflexivity. Qed.

Example sequence_ops_closed :
  Forall op_closed [OAdd wit_series; OMul (MNum (1#2)); OHelper "in_units_percent_fed"; ORunSum; OMonth 1;
                    OMul (MArr [1; 2; 3])].
Proof. repeat constructor. Qed.

(* refusal is not vacuous: the label lists do differ and the operation is rejected *)
Example refusal_happens :
  add wit_series (raw (Monthly [1; 2] [3; 4] [5; 6]) "billion kcals each month" "million tons each month"
                      "thousand tons each month") = Rejected AssertRejected.
Proof. vm_compute. reflexivity. Qed.

(* ratio on either side, accepted both ways with the quantity's labels *)
Example ratio_both_sides :
  let r := raw (Scalar (1#2) (1#2) (1#2)) "ratio" "ratio" "ratio" in
  (exists z, mul r (MFood wit_series) = Ok z /\ units z = units wit_series) /\
  (exists z, mul wit_series (MFood r) = Ok z /\ units z = units wit_series).
Proof. split; eexists; split; vm_compute; reflexivity. Qed.

(* the predicates do return values on both sides of c11_predicates (not only rejections), and the flags matter *)
Example predicate_values :
  eval_pred true true PAnyGt (one_scalar "a" "b" "c" 1 2 1) (one_scalar "a" "b" "c" 1 1 1) = Ok true /\
  eval_pred false true PAnyGt (one_month "a" "b" "c" 1 2 1) (one_month "a" "b" "c" 1 1 1) = Ok false.
Proof. split; vm_compute; reflexivity. Qed.
