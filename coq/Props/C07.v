(* C07 - Herd feeding accounts for energy and starvation consistently.
   Statements only; proofs live in Proofs/Herd.v; the model (Model/Herd.v) is the line-by-line reading of
   AnimalSpecies.feed_the_species, AnimalPopulation.feed_animals (feed_chain / used_chain) and the sort of
   AnimalModelBuilder.get_optimal_next_animal_to_feed (sort_desc), tied to /repo by harness/props/c07.py.
   Quantifier: every herd (head count, requirement, digestion type, efficiencies), every list of herds, every supply. *)
From Coq Require Import QArith Qabs List Bool Permutation.
From Allfed Require Import Base.QRound Model.Herd Proofs.Herd.
Import ListNotations.
Open Scope Q_scope.

(* Hypotheses: feeder_ok s := 0 <= herd, 0 <= requirement, 0 < grass efficiency, 0 < feed efficiency; supplies >= 0. *)
Example hypotheses_satisfiable :
  feeder_ok {| fd_cur := 53 # 5; fd_req := 100; fd_rum := true; fd_eg := 3 # 5; fd_ef := 4 # 5 |} /\ 0 <= 40 /\ 0 <= 45.
Proof. unfold feeder_ok; cbn; repeat split; try discriminate; apply Qle_bool_iff; reflexivity. Qed.

(* --- one herd: no more grass / feed used than supplied, none created *)
Theorem c07_conservation_one : forall s g f, feeder_ok s -> 0 <= g -> 0 <= f ->
  let o := feed_the_species s g f in
  0 <= fo_grass o /\ fo_grass o <= g /\ 0 <= fo_feed o /\ fo_feed o <= f.
Proof. intros s g f H Hg Hf. destruct (feed_the_species_spec s g f H Hg Hf) as ((A & B) & (C & D) & _). auto. Qed.
Print Assumptions c07_conservation_one.

(* --- the whole priority list: used + left = supplied for grass and for feed, every use non-negative *)
Theorem c07_conservation : forall l g f, Forall feeder_ok l -> 0 <= g -> 0 <= f ->
  let '(_, g_left, f_left) := feed_chain l g f in
  0 <= g_left /\ 0 <= f_left /\
  sumq (map fst (used_chain l g f)) + g_left == g /\
  sumq (map snd (used_chain l g f)) + f_left == f /\
  Forall (fun u => 0 <= fst u /\ 0 <= snd u) (used_chain l g f).
Proof.
  intros l g f H Hg Hf. pose proof (chain_conservation l g f H Hg Hf) as P.
  destruct (feed_chain l g f) as [[os g'] f']. destruct P as ((A & B) & C & D & E). auto.
Qed.
Print Assumptions c07_conservation.

(* --- no herd receives more net energy than it requires, and what it receives is exactly the digestible
       part of what it consumed *)
Theorem c07_no_overfeed : forall s g f, feeder_ok s -> 0 <= g -> 0 <= f ->
  let o := feed_the_species s g f in
  0 <= delivered s o /\ delivered s o <= fd_req s /\
  delivered s o == (g - fo_grass o) * fd_eg s + (f - fo_feed o) * fd_ef s.
Proof.
  intros s g f H Hg Hf. destruct (feed_the_species_spec s g f H Hg Hf) as (_ & _ & (A & B) & C & _).
  unfold delivered. cbn zeta. split; [|split; [|exact C]].
  - apply (Qplus_le_l _ _ (fo_bal (feed_the_species s g f))). ring_simplify. exact B.
  - apply (Qplus_le_l _ _ (fo_bal (feed_the_species s g f))). ring_simplify.
    apply (Qle_trans _ (fd_req s + 0)); [ring_simplify; apply Qle_refl|]. apply Qplus_le_r. exact A.
Qed.
Print Assumptions c07_no_overfeed.

(* --- grass only to ruminants *)
Theorem c07_grass_ruminants : forall s g f, feeder_ok s -> 0 <= g -> 0 <= f ->
  fd_rum s = false -> fo_grass (feed_the_species s g f) = g.
Proof. intros s g f H Hg Hf. destruct (feed_the_species_spec s g f H Hg Hf) as (_ & _ & _ & _ & A & _). exact A. Qed.
Print Assumptions c07_grass_ruminants.

(* --- every herd of the list is offered exactly what the herds before it left, and is fed by feed_the_species *)
Theorem c07_in_list_order : forall l g f, Forall feeder_ok l -> 0 <= g -> 0 <= f ->
  forall l1 s l2, l = l1 ++ s :: l2 ->
  let '(_, g1, f1) := feed_chain l1 g f in
  used_chain l g f = used_chain l1 g f ++
                     (g1 - fo_grass (feed_the_species s g1 f1), f1 - fo_feed (feed_the_species s g1 f1)) ::
                     used_chain l2 (fo_grass (feed_the_species s g1 f1)) (fo_feed (feed_the_species s g1 f1)).
Proof.
  intros l g f _ _ _ l1 s l2 ->. rewrite used_chain_app.
  destruct (feed_chain l1 g f) as [[os g1] f1]. reflexivity.
Qed.
Print Assumptions c07_in_list_order.

(* --- composed: EVERY herd of the month's list, wherever it stands, is offered non-negative supplies and meets every
       single-herd clause at once (feed_spec, Proofs/Herd.v: conservation of grass and feed, 0 <= balance <= requirement,
       delivered = digestible part of what was consumed, grass only to ruminants, 0 <= fed <= herd, fed = herd when the
       requirement is met, the rounded proportional count otherwise, and short herds exhaust the resource) - the
       single-herd theorems above are stated under 0 <= g, 0 <= f; this discharges that premise inside the chain *)
Theorem c07_every_herd_in_list : forall l g f, Forall feeder_ok l -> 0 <= g -> 0 <= f ->
  forall l1 s l2, l = l1 ++ s :: l2 ->
  let '(_, g1, f1) := feed_chain l1 g f in
  0 <= g1 /\ 0 <= f1 /\ feed_spec s g1 f1 (feed_the_species s g1 f1).
Proof.
  intros l g f H Hg Hf l1 s l2 E.
  exact (chain_all_nth _ l g f (chain_each l g f H Hg Hf) l1 s l2 E).
Qed.
Print Assumptions c07_every_herd_in_list.

(* --- strict priority: if a herd is left short of its requirement, no later herd receives any feed, and if that
       herd is a ruminant no later herd receives any grass *)
Theorem c07_priority : forall l1 s l2 g f, Forall feeder_ok (l1 ++ s :: l2) -> 0 <= g -> 0 <= f ->
  let '(_, g1, f1) := feed_chain l1 g f in
  let o := feed_the_species s g1 f1 in
  ~ fo_bal o == 0 ->
  Forall (fun u => snd u == 0 /\ (fd_rum s = true -> fst u == 0)) (used_chain l2 (fo_grass o) (fo_feed o)).
Proof. exact chain_priority. Qed.
Print Assumptions c07_priority.

(* --- the priority list is the herds sorted by the key, largest first (a permutation, nothing lost) *)
Theorem c07_order : forall (A : Type) (key : A -> Q) (l : list A),
  Permutation l (sort_desc key l) /\ sorted_desc key (sort_desc key l).
Proof. intros A key l. split; [apply sort_desc_perm|apply sort_desc_sorted]. Qed.
Print Assumptions c07_order.

(* --- ... and the sort is stable, as Python's sorted(..., reverse=True) is: herds whose keys are equal keep the
       relative order they had in the input (for every key value q, the sub-list of herds with that key is unchanged).
       With c07_order this fixes the priority list completely: no tie is broken by anything but input order. *)
Theorem c07_order_stable : forall (A : Type) (key : A -> Q) (q : Q) (l : list A),
  filter (fun y => Qeq_bool (key y) q) (sort_desc key l) = filter (fun y => Qeq_bool (key y) q) l.
Proof. exact sort_desc_stable. Qed.
Print Assumptions c07_order_stable.

(* --- a list already in priority order is returned unchanged, so re-ranking the herds every month with unchanged
       keys never reshuffles them (idempotence) *)
Theorem c07_order_idempotent : forall (A : Type) (key : A -> Q) (l : list A),
  (sorted_desc key l -> sort_desc key l = l) /\ sort_desc key (sort_desc key l) = sort_desc key l.
Proof. intros A key l. split; [apply sort_desc_fixed|apply sort_desc_idem]. Qed.
Print Assumptions c07_order_idempotent.

(* --- completeness of the order specification: ANY list that is sorted by the key and keeps every key class in the
       input's order IS the priority list - c07_order and c07_order_stable leave no freedom *)
Theorem c07_order_unique : forall (A : Type) (key : A -> Q) (l l' : list A),
  sorted_desc key l' ->
  (forall q, filter (fun y => Qeq_bool (key y) q) l' = filter (fun y => Qeq_bool (key y) q) l) ->
  l' = sort_desc key l.
Proof. exact sort_desc_unique. Qed.
Print Assumptions c07_order_unique.

(* --- composed, as the month runs: rank the herds, then feed them in that order - conservation holds for the ranked
       list whatever the ranking key is *)
Theorem c07_ranked_conservation : forall (key : feeder -> Q) l g f, Forall feeder_ok l -> 0 <= g -> 0 <= f ->
  let '(_, g_left, f_left) := feed_chain (sort_desc key l) g f in
  (0 <= g_left /\ 0 <= f_left) /\
  sumq (map fst (used_chain (sort_desc key l) g f)) + g_left == g /\
  sumq (map snd (used_chain (sort_desc key l) g f)) + f_left == f /\
  Forall (fun u => 0 <= fst u /\ 0 <= snd u) (used_chain (sort_desc key l) g f).
Proof. exact sorted_chain_conservation. Qed.
Print Assumptions c07_ranked_conservation.

Example order_stable_witness :
  sort_desc (fun p : Q * nat => fst p) [(1, 0%nat); (2, 1%nat); (1, 2%nat); (2, 3%nat)] =
  [(2, 1%nat); (2, 3%nat); (1, 0%nat); (1, 2%nat)].
Proof. vm_compute. reflexivity. Qed.

(* --- fed never exceeds the herd, is never negative; the starving count is the remainder and never negative *)
Theorem c07_fed_bounds : forall s g f, feeder_ok s -> 0 <= g -> 0 <= f ->
  let o := feed_the_species s g f in
  0 <= fo_fed o /\ fo_fed o <= fd_cur s /\ starving s o == fd_cur s - fo_fed o /\ 0 <= starving s o.
Proof.
  intros s g f H Hg Hf. destruct (feed_the_species_spec s g f H Hg Hf) as (_ & _ & _ & _ & _ & (A & B) & _).
  unfold starving. cbn zeta. repeat split; try assumption; try reflexivity.
  apply (Qplus_le_l _ _ (fo_fed (feed_the_species s g f))). ring_simplify. exact B.
Qed.
Print Assumptions c07_fed_bounds.

(* --- requirement met -> the whole herd counts as fed (also when nothing is required) *)
Theorem c07_fed_full : forall s g f, feeder_ok s -> 0 <= g -> 0 <= f ->
  fo_bal (feed_the_species s g f) == 0 -> fo_fed (feed_the_species s g f) = fd_cur s.
Proof. intros s g f H Hg Hf. destruct (feed_the_species_spec s g f H Hg Hf) as (_ & _ & _ & _ & _ & _ & A & _). exact A. Qed.
Print Assumptions c07_fed_full.

(* --- otherwise fed = min(round(herd * delivered / required), herd): the herd scaled by the fraction of the
       requirement that was delivered, up to the code's own rounding to whole animals (tolerance 1/2, explicit) *)
Theorem c07_fed_partial : forall s g f, feeder_ok s -> 0 <= g -> 0 <= f ->
  let o := feed_the_species s g f in
  ~ fo_bal o == 0 ->
  fo_fed o == pymin (Qround ((delivered s o / fd_req s) * fd_cur s)) (fd_cur s) /\
  Qabs (fo_fed o - fd_cur s * (delivered s o / fd_req s)) <= 1 # 2.
Proof.
  intros s g f H Hg Hf. destruct (feed_the_species_spec s g f H Hg Hf) as (_ & _ & _ & _ & _ & _ & _ & A & _).
  exact A.
Qed.
Print Assumptions c07_fed_partial.

(* the defects repaired by commit f01a3f9 stay repaired in the model: the design-phase witnesses now behave *)
Example witness_ratio : fo_fed (feed_the_species {| fd_cur := 10; fd_req := 100; fd_rum := false; fd_eg := 3 # 5; fd_ef := 4 # 5 |} 0 75) == 6.
Proof. vm_compute. reflexivity. Qed.
Example witness_fractional_herd :
  fo_fed (feed_the_species {| fd_cur := 53 # 5; fd_req := 10000; fd_rum := false; fd_eg := 1; fd_ef := 1 |} 0 9999) == 53 # 5.
Proof. vm_compute. reflexivity. Qed.
Example witness_zero_requirement :
  fo_fed (feed_the_species {| fd_cur := 0; fd_req := 0; fd_rum := true; fd_eg := 3 # 5; fd_ef := 4 # 5 |} 5 5) == 0.
Proof. vm_compute. reflexivity. Qed.
