(* C10 - Unit conversions are mutually consistent and anchored to the population's needs.
   Statements only; proofs live in Proofs/Units.v; the tables are regenerated from
   src/food_system/unit_conversions.py on every run (Gen/UnitTables.v). *)
From Coq Require Import QArith List String Bool.
From Allfed Require Import Base.StrUtil Gen.UnitTables Model.Units Proofs.Units.
Import ListNotations.
Open Scope Q_scope.
Open Scope string_scope.

(* every multiplier of the three tables is positive, for all positive settings *)
Theorem c10_multipliers_positive : forall c, positive_settings c ->
  all_pos (kcal_mult c) /\ all_pos (fat_mult c) /\ all_pos (protein_mult c).
Proof. intros c H; repeat split; [exact (kcal_mult_pos c H)|exact (fat_mult_pos c H)|exact (protein_mult_pos c H)]. Qed.
Print Assumptions c10_multipliers_positive.

(* there and back: for ANY two unit names of a table (no per-pair enumeration) *)
Theorem c10_roundtrip : forall c, positive_settings c ->
  forall t, In t [kcal_mult c; fat_mult c; protein_mult c] ->
  forall u v cuv cvu, conversion t u v = Ok cuv -> conversion t v u = Ok cvu ->
  forall x, (x * cuv) * cvu == x.
Proof.
  intros c H t Ht u v cuv cvu H1 H2 x.
  assert (Hp : all_pos t).
  { destruct (c10_multipliers_positive c H) as (A & B & C).
    cbn [In] in Ht; destruct Ht as [<-|[<-|[<-|[]]]]; assumption. }
  rewrite <- Qmult_assoc, (roundtrip_generic t u v cuv cvu Hp H1 H2). apply Qmult_1_r.
Qed.
Print Assumptions c10_roundtrip.

(* via an intermediate unit = directly *)
Theorem c10_triangle : forall c, positive_settings c ->
  forall t, In t [kcal_mult c; fat_mult c; protein_mult c] ->
  forall u v w cuv cvw cuw, conversion t u v = Ok cuv -> conversion t v w = Ok cvw ->
  conversion t u w = Ok cuw -> forall x, (x * cuv) * cvw == x * cuw.
Proof.
  intros c H t Ht u v w cuv cvw cuw H1 H2 H3 x.
  assert (Hp : all_pos t).
  { destruct (c10_multipliers_positive c H) as (A & B & C).
    cbn [In] in Ht; destruct Ht as [<-|[<-|[<-|[]]]]; assumption. }
  rewrite (triangle_generic t u v w cuv cvw cuw Hp H1 H2 H3). ring.
Qed.
Print Assumptions c10_triangle.

(* conversions between supported names are always defined (so the two theorems above are not vacuous) *)
Theorem c10_total : forall c t, In t [kcal_mult c; fat_mult c; protein_mult c] ->
  forall u v, In u (map fst t) -> In v (map fst t) -> exists cuv, conversion t u v = Ok cuv.
Proof. intros c t _ u v. exact (conversion_total t u v). Qed.
Print Assumptions c10_total.

(* total / each month / per month spellings of one unit carry the same multiplier *)
Theorem c10_suffix_consistent : forall c, positive_settings c ->
  suffix_consistent (kcal_mult c) /\ suffix_consistent (fat_mult c) /\ suffix_consistent (protein_mult c).
Proof.
  intros c H; repeat split;
  [exact (kcal_suffix_consistent c H)|exact (fat_suffix_consistent c H)|exact (protein_suffix_consistent c H)].
Qed.
Print Assumptions c10_suffix_consistent.

(* labels: the suffix class is preserved, the looked-up name exists, converting back restores the label
   (finite domain: all supported source names x all bare target names, enumerated in the kernel) *)
Theorem c10_labels :
  labels_ok kcal_keys = true /\ labels_ok fat_keys = true /\ labels_ok protein_keys = true /\
  spellings_complete kcal_keys = true /\ spellings_complete fat_keys = true /\
  spellings_complete protein_keys = true.
Proof.
  destruct labels_ok_all as (A & B & C). destruct spellings_complete_all as (D & E & F).
  repeat split; assumption.
Qed.
Print Assumptions c10_labels.

(* scalar-or-series shape and series lengths are preserved; the label list agrees with the labels *)
Theorem c10_shape : forall c x tk tf tp y, in_units c x tk tf tp = Ok y ->
  is_monthly (fv y) = is_monthly (fv x) /\ vals_len (fv y) = vals_len (fv x) /\
  units y = [ku y; fu y; pu y].
Proof. exact in_units_shape. Qed.
Print Assumptions c10_shape.

(* anchors *)
Theorem c10_anchor_kcal : forall c, positive_settings c ->
  (forall cv, conversion (kcal_mult c) "billion kcals" "percent people fed" = Ok cv ->
              billion_kcals_needed c * cv == 100) /\
  (forall cv, conversion (kcal_mult c) "billion kcals" "kcals per person per day" = Ok cv ->
              billion_kcals_needed c * cv == kcals_daily c) /\
  (forall cv, conversion (kcal_mult c) "billion kcals" "billion people fed" = Ok cv ->
              billion_kcals_needed c * cv == population c / 1000000000).
Proof.
  intros c H; repeat split; intros cv Hc;
  [exact (anchor_kcal_percent c cv H Hc)|exact (anchor_kcal_daily c cv H Hc)|exact (anchor_kcal_billions c cv H Hc)].
Qed.
Print Assumptions c10_anchor_kcal.

Theorem c10_anchor_fat : forall c c1 c2 c3, positive_settings c ->
  conversion (fat_mult c) "thousand tons" "percent people fed" = Ok c1 ->
  conversion (fat_mult c) "thousand tons" "grams per person per day" = Ok c2 ->
  conversion (fat_mult c) "thousand tons" "billion people fed" = Ok c3 ->
  thou_tons_fat_needed c * c1 == 100 /\ thou_tons_fat_needed c * c2 == fat_daily c /\
  thou_tons_fat_needed c * c3 == population c / 1000000000.
Proof. exact anchor_fat. Qed.
Print Assumptions c10_anchor_fat.

Theorem c10_anchor_protein : forall c c1 c2 c3, positive_settings c ->
  conversion (protein_mult c) "thousand tons" "percent people fed" = Ok c1 ->
  conversion (protein_mult c) "thousand tons" "grams per person per day" = Ok c2 ->
  conversion (protein_mult c) "thousand tons" "billion people fed" = Ok c3 ->
  thou_tons_protein_needed c * c1 == 100 /\ thou_tons_protein_needed c * c2 == protein_daily c /\
  thou_tons_protein_needed c * c3 == population c / 1000000000.
Proof. exact anchor_protein. Qed.
Print Assumptions c10_anchor_protein.

Theorem c10_anchors_defined : forall c,
  (exists v, conversion (kcal_mult c) "billion kcals" "percent people fed" = Ok v) /\
  (exists v, conversion (kcal_mult c) "billion kcals" "kcals per person per day" = Ok v) /\
  (exists v, conversion (kcal_mult c) "billion kcals" "billion people fed" = Ok v) /\
  (exists v, conversion (fat_mult c) "thousand tons" "percent people fed" = Ok v) /\
  (exists v, conversion (fat_mult c) "thousand tons" "grams per person per day" = Ok v) /\
  (exists v, conversion (fat_mult c) "thousand tons" "billion people fed" = Ok v) /\
  (exists v, conversion (protein_mult c) "thousand tons" "percent people fed" = Ok v) /\
  (exists v, conversion (protein_mult c) "thousand tons" "grams per person per day" = Ok v) /\
  (exists v, conversion (protein_mult c) "thousand tons" "billion people fed" = Ok v).
Proof. exact anchors_defined. Qed.
Print Assumptions c10_anchors_defined.

(* non-vacuity: the settings the model actually uses satisfy the hypothesis *)
Example c10_settings_exist :
  positive_settings {| kcals_daily := 2100; fat_daily := 47; protein_daily := 51; population := 7800000000 |}.
Proof. unfold positive_settings; cbn; repeat split; reflexivity. Qed.
