(* C16 - every country completes under every documented preset: what Coq can carry.
   (a) every row of the shipped country table (regenerated from the csv on every run) passes the model's own
       admission checks (verify_country_data mirrored by Tables.row_ok) - finite data, decided by computation;
   (b) the no-feed human-maximising round can never be INFEASIBLE for a structural reason when seaweed is not in the
       food set, and its objective is bounded - for every admissible input and horizon;
   (c) with seaweed, feasibility is genuinely data dependent: a concrete admissible instance with a full farm is infeasible.
   Completion of the CBC solves on each cell of the grid is runtime behaviour: enumerated on the implementation
   (harness/props/c16.py). *)
From Coq Require Import ZArith QArith List String Bool.
From Coq Require Import Qround Lqa Lia Arith.
From Allfed Require Import Base.StrUtil Model.Tables Proofs.Tables Gen.CountryTable Model.LP Proofs.LPChar Proofs.LP_C16.
From Allfed Require Import Gen.UnitTables Model.Units Model.LPBool Model.Report Model.Rounds Model.Validator Proofs.Units Proofs.LPBoolSound Proofs.LP_C01 Proofs.Report Proofs.Rounds Proofs.RoundsComp Proofs.Validator.
From Allfed Require Base.QList Model.Helpers Proofs.Helpers.
Import ListNotations.
Open Scope Q_scope.

Theorem c16_rows_admissible : forall r, In r raw_rows -> row_ok (decode_row columns r) = true.
Proof. apply table_ok_rows. vm_compute. reflexivity. Qed.
Print Assumptions c16_rows_admissible.

Theorem c16_round1_feasible : forall i,
  admissible i -> add_sw i = false -> supplies_nonneg i -> zero_charges i -> caps_nonneg i ->
  exists a, Feasible i ToHumans a.
Proof. exact round1_feasible. Qed.
Print Assumptions c16_round1_feasible.

Theorem c16_round1_bounded : forall i a,
  admissible i -> (0 < NM i)%nat -> Feasible i ToHumans a ->
  a Obj 0%nat <= a Consumed 0%nat /\ a Consumed 0%nat <= 100 / need i * supply0 i /\ a Obj 0%nat <= 100 / need i * supply0 i.
Proof. exact round1_objective_bounded. Qed.
Print Assumptions c16_round1_bounded.

Theorem c16_round1_feasible_with_still_seaweed : forall i,
  admissible i -> add_sw i = true -> supplies_nonneg i -> zero_charges i -> caps_nonneg i -> sw_static_ok i ->
  exists a, Feasible i ToHumans a.
Proof. exact round1_feasible_seaweed_no_growth. Qed.
Print Assumptions c16_round1_feasible_with_still_seaweed.

(* seaweed makes feasibility data dependent: a full farm that keeps growing and may not be harvested has no allocation *)
Theorem c16_seaweed_can_be_infeasible : exists i,
  admissible i /\ supplies_nonneg i /\ zero_charges i /\ caps_nonneg i /\ ~ (exists a, Feasible i ToHumans a).
Proof. exists sw_bad. exact round1_infeasible_seaweed_example. Qed.
Print Assumptions c16_seaweed_can_be_infeasible.

(* (d) the built-in validation checks of src/optimizer/validate_results.py (Model/Validator.v), read in exact arithmetic,
   cannot fire on an exact feasible assignment of the programme: a validation banner / assertion on a grid cell is therefore
   either solver imprecision beyond the code's own tolerances or a formulation change - not a property of the data.
   Two of the checks are NOT implied and are shown so by witnesses (round 3 vs round 1; optimum above 10 000 %). *)
Theorem c16_validator_constraints_ok : forall i ty a skip, Feasible i ty a ->
  Forall (sat a) (build i ty) /\ check_constraints_satisfied skip a (build i ty) = true.
Proof. exact validator_constraints_ok. Qed.
Print Assumptions c16_validator_constraints_ok.

Theorem c16_validator_constraints_second_stage_ok : forall i ty v a skip, Feasible2 i ty v a ->
  check_constraints_satisfied skip a (build i ty ++ second_stage i ty v) = true.
Proof. exact validator_constraints_second_stage_ok. Qed.
Print Assumptions c16_validator_constraints_second_stage_ok.

Theorem c16_validator_sum_nutrients_ok : forall i c a v e ii code, lp_settings_ok i c -> Feasible2 i ToHumans v a ->
  report (report_in i c a) = Ok (e, ii) -> first_optimum i v -> v <= 10000 ->
  sum_nutrients_difference v (headline ii) == 0 /\
  ensure_optimizer_returns_same_as_sum_nutrients code v (headline ii) = true.
Proof. exact validator_sum_nutrients_ok. Qed.
Print Assumptions c16_validator_sum_nutrients_ok.

Theorem c16_validator_sum_nutrients_bound_sharp : forall v, 10000 < v ->
  exists h, 0 <= v - h /\ v - h <= (5 # 100000) * v /\ (99995 # 100000) * v <= h /\
            ensure_optimizer_returns_same_as_sum_nutrients "USA" v h = false.
Proof. exact validator_sum_nutrients_bound_sharp. Qed.
Print Assumptions c16_validator_sum_nutrients_bound_sharp.

Theorem c16_validator_sum_nutrients_fires_above_10000 :
  exists i c a v e ii, admissible i /\ lp_settings_ok i c /\ Feasible2 i ToHumans v a /\ first_optimum i v /\
    report (report_in i c a) = Ok (e, ii) /\ 10000 < v /\
    ensure_optimizer_returns_same_as_sum_nutrients "USA" v (headline ii) = false.
Proof. exact validator_sum_nutrients_fires_above_10000. Qed.
Print Assumptions c16_validator_sum_nutrients_fires_above_10000.

Theorem c16_validator_nonneg_ok : forall i c ty a e ii, lp_settings_ok i c -> Feasible i ty a -> 0 <= sw_kcals i ->
  given_nonneg i -> report (report_in i c a) = Ok (e, ii) ->
  reported_nonneg ii /\ 0 <= headline ii /\ ensure_all_greater_than_or_equal_to_zero ii = true.
Proof. exact validator_nonneg_ok. Qed.
Print Assumptions c16_validator_nonneg_ok.

Theorem c16_validator_zero_kcals_ok : forall foods, ensure_zero_kcals_have_zero_fat_and_protein false false foods = true.
Proof. exact validator_zero_kcals_ok. Qed.
Print Assumptions c16_validator_zero_kcals_ok.

Theorem c16_validator_never_nan_ok : forall i c, admissible i -> lp_settings_ok i c -> never_divides_by_zero i c.
Proof. exact validator_never_nan_ok. Qed.
Print Assumptions c16_validator_never_nan_ok.

Theorem c16_validator_feed_below_demand_round : forall i c ty a xf df xb db include_fat include_protein,
  lp_settings_ok i c -> Feasible i ty a -> 0 <= sw_kcals i -> (df <= NM i)%nat -> (db <= NM i)%nat ->
  c03_clause i a xf df xb db (NM i) ->
  assert_feed_used_below_feed_demand include_fat include_protein c (demand xf df (NM i)) (fb_of i c a) = true /\
  assert_biofuels_used_below_biofuels_demand include_fat include_protein c (demand xb db (NM i)) (fb_of i c a) = true.
Proof. exact validator_feed_below_demand_round. Qed.
Print Assumptions c16_validator_feed_below_demand_round.

Theorem c16_validator_feed_below_demand_all_rounds :
  forall G i1 a1 i2 a2 i3 a3 xf df xb db N c include_fat include_protein,
  0 <= xf -> 0 <= xb -> glue_ok G N ->
  Feasible i1 ToHumans a1 -> Feasible i2 ToAnimals a2 -> Feasible i3 ToHumans a3 ->
  has_nonhuman i1 = true -> has_nonhuman i2 = true -> has_nonhuman i3 = true ->
  0 < sw_kcals i1 -> 0 < sw_kcals i2 -> 0 < sw_kcals i3 ->
  NM i1 = N -> NM i2 = N -> NM i3 = N ->
  (forall m, (m < N)%nat -> at_ (feed_charge i1) m == round1_feed_charge G m) ->
  (forall m, (m < N)%nat -> at_ (biofuel_charge i1) m == round1_biofuel_charge m) ->
  (forall m, (m < N)%nat -> at_ (max_feed i2) m == round2_max_feed G (demand xf df N) m) ->
  (forall m, (m < N)%nat -> at_ (max_biofuel i2) m == round2_max_biofuel (demand xb db N) m) ->
  (forall m, (m < N)%nat -> at_ (feed_charge i3) m ==
     round3_feed_charge G (Base.QList.tab N (feed_sum i2 a2)) (Base.QList.tab N (biofuel_sum i2 a2)) (demand xf df N) (demand xb db N) m) ->
  (forall m, (m < N)%nat -> at_ (biofuel_charge i3) m ==
     round3_biofuel_charge G (Base.QList.tab N (feed_sum i2 a2)) (Base.QList.tab N (biofuel_sum i2 a2)) (demand xf df N) (demand xb db N) m) ->
  lp_settings_ok i1 c -> lp_settings_ok i2 c -> lp_settings_ok i3 c -> (df <= N)%nat -> (db <= N)%nat ->
  (assert_feed_used_below_feed_demand include_fat include_protein c (demand xf df N) (fb_of i1 c a1) = true /\
   assert_biofuels_used_below_biofuels_demand include_fat include_protein c (demand xb db N) (fb_of i1 c a1) = true) /\
  (assert_feed_used_below_feed_demand include_fat include_protein c (demand xf df N) (fb_of i2 c a2) = true /\
   assert_biofuels_used_below_biofuels_demand include_fat include_protein c (demand xb db N) (fb_of i2 c a2) = true) /\
  (assert_feed_used_below_feed_demand include_fat include_protein c (demand xf df N) (fb_of i3 c a3) = true /\
   assert_biofuels_used_below_biofuels_demand include_fat include_protein c (demand xb db N) (fb_of i3 c a3) = true).
Proof. exact validator_feed_below_demand_all_rounds. Qed.
Print Assumptions c16_validator_feed_below_demand_all_rounds.

Theorem c16_validator_meat_dairy_ok : forall meat1 meat2 l milk1 milk2,
  Model.Helpers.redistribute meat1 meat2 = Model.Helpers.Ok l ->
  Proofs.Helpers.nonneg meat1 -> 0 <= lsum milk1 ->
  assert_meat_dairy_doesnt_decrease_round_2 meat1 l milk1 milk2 = true.
Proof. exact validator_meat_dairy_ok. Qed.
Print Assumptions c16_validator_meat_dairy_ok.

Theorem c16_validator_round3_vs_round1_not_implied :
  exists charge3 a1 a3 v1 v3,
    admissible (cx_in 2 []) /\ admissible (cx_in 2 charge3) /\
    Feasible2 (cx_in 2 []) ToHumans v1 a1 /\ first_optimum (cx_in 2 []) v1 /\ a1 Obj 0%nat == v1 /\
    Feasible2 (cx_in 2 charge3) ToHumans v3 a3 /\ first_optimum (cx_in 2 charge3) v3 /\ a3 Obj 0%nat == v3 /\
    round3_percent_fed_not_lower_than_round1 100 v1 v3 = false.
Proof. exact validator_round3_vs_round1_not_implied. Qed.
Print Assumptions c16_validator_round3_vs_round1_not_implied.
