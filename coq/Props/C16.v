(* C16 - every country completes under every documented preset: what Coq can carry.
   (a) every row of the shipped country table (regenerated from the csv on every run) passes the model's own
       admission checks (verify_country_data mirrored by Tables.row_ok) - finite data, decided by computation;
   (b) the no-feed human-maximising round can never be INFEASIBLE for a structural reason when seaweed is not in the
       food set, and its objective is bounded - for every admissible input and horizon;
   (c) with seaweed, feasibility is genuinely data dependent: a concrete admissible instance with a full farm is infeasible.
   Completion of the CBC solves on each cell of the grid is runtime behaviour: enumerated on the implementation
   (harness/props/c16.py). *)
From Coq Require Import ZArith QArith List String Bool.
From Allfed Require Import Base.StrUtil Model.Tables Proofs.Tables Gen.CountryTable Model.LP Proofs.LPChar Proofs.LP_C16.
Import ListNotations.
Open Scope Q_scope.

Theorem c16_rows_admissible : forall r, In r raw_rows -> row_ok (decode_row columns r) = true.
Proof. apply table_ok_rows. vm_compute. reflexivity. Qed.
Print Assumptions c16_rows_admissible.

Theorem c16_round1_feasible : forall i,
  admissible i -> add_sw i = false -> supplies_nonneg i -> zero_charges i -> caps_nonneg i ->
  exists a, Feasible i ToHumans a.
Proof. exact round1_feasible. Qed.
Print Assumptions c16_round1_feasible.

Theorem c16_round1_bounded : forall i a,
  admissible i -> (0 < NM i)%nat -> Feasible i ToHumans a ->
  a Obj 0%nat <= a Consumed 0%nat /\ a Consumed 0%nat <= 100 / need i * supply0 i /\ a Obj 0%nat <= 100 / need i * supply0 i.
Proof. exact round1_objective_bounded. Qed.
Print Assumptions c16_round1_bounded.

Theorem c16_round1_feasible_with_still_seaweed : forall i,
  admissible i -> add_sw i = true -> supplies_nonneg i -> zero_charges i -> caps_nonneg i -> sw_static_ok i ->
  exists a, Feasible i ToHumans a.
Proof. exact round1_feasible_seaweed_no_growth. Qed.
Print Assumptions c16_round1_feasible_with_still_seaweed.

(* seaweed makes feasibility data dependent: a full farm that keeps growing and may not be harvested has no allocation *)
Theorem c16_seaweed_can_be_infeasible : exists i,
  admissible i /\ supplies_nonneg i /\ zero_charges i /\ caps_nonneg i /\ ~ (exists a, Feasible i ToHumans a).
Proof. exists sw_bad. exact round1_infeasible_seaweed_example. Qed.
Print Assumptions c16_seaweed_can_be_infeasible.
