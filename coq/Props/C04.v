(* C04 - Headline, monthly breakdown and saved tables agree.  Statements; proofs in Proofs/Report.v *)
From Coq Require Import QArith List String Bool.
From Allfed Require Import Base.StrUtil Gen.UnitTables Model.Units Model.LP Model.Report Proofs.Units Proofs.Report.
Import ListNotations.
Open Scope Q_scope.

Theorem c04_split_month : forall produced eaten k,
  fst (split_month produced eaten k) + snd (split_month produced eaten k) == eaten * k.
Proof. exact split_month_adds_up. Qed.
Print Assumptions c04_split_month.
