(* C04 - Headline, monthly breakdown and saved tables agree.
   Statements only; proofs in Proofs/Report.v.  Model/Report.v transliterates Extractor.extract_results and
   Interpreter.interpret_results (kcals); the unit multipliers are read from Gen/UnitTables.v (regenerated from
   unit_conversions.py on every run); the LP rows are those of Model/LP.v.
   Scope notes: numbers are exact rationals; the CSV on disk is a file-system observation audited on every
   captured round, not modelled. *)
From Coq Require Import QArith Lqa Lia List String Bool.
From Allfed Require Import Base.StrUtil Gen.UnitTables Model.Units Model.LP Model.Report Proofs.Units Proofs.LPChar Proofs.Report.
Import ListNotations.
Open Scope Q_scope.

(* (1) every reported contribution is the optimiser's allocation converted to the reporting unit:
   percent fed = 100 * ratio * value / BILLION_KCALS_NEEDED, kcals per person per day = ratio * value * 1e9 / (30 * population);
   for ANY accepted input of the chain, every month; ratio = 1 except seaweed (SEAWEED_KCALS);
   var_at is the solved value (0 when the food is not modelled) *)
Theorem c04_conversion : forall x e i, report x = Ok (e, i) -> settings_ok x ->
  let c := r_conv x in let need := billion_kcals_needed c in
  forall m, (m < r_n x)%nat ->
  (nthq (p_sf i) m == 100 * (1 * var_at (v_sf_h x) m) / need /\
   nthq (p_cr i) m == 100 * (1 * var_at (v_cr_h x) m) / need /\
   nthq (p_sw i) m == 100 * (r_sw_kcals x * var_at (v_sw_h x) m) / need /\
   nthq (p_cs i) m == 100 * (1 * var_at (v_cs_h x) m) / need /\
   nthq (p_scp i) m == 100 * (1 * var_at (v_scp_h x) m) / need /\
   nthq (p_meat i) m == 100 * (1 * var_at (v_meat x) m) / need /\
   nthq (p_gh i) m == 100 * nthq (r_greenhouse x) m / need /\
   nthq (p_fish i) m == 100 * nthq (r_fish x) m / need /\
   nthq (p_milk i) m == 100 * nthq (r_milk x) m / need) /\
  (nthq (k_sf i) m == 1 * var_at (v_sf_h x) m * 1000000000 / (30 * population c) /\
   nthq (k_sw i) m == r_sw_kcals x * var_at (v_sw_h x) m * 1000000000 / (30 * population c) /\
   nthq (k_cs i) m == 1 * var_at (v_cs_h x) m * 1000000000 / (30 * population c) /\
   nthq (k_scp i) m == 1 * var_at (v_scp_h x) m * 1000000000 / (30 * population c) /\
   nthq (k_meat i) m == 1 * var_at (v_meat x) m * 1000000000 / (30 * population c) /\
   nthq (k_gh i) m == nthq (r_greenhouse x) m * 1000000000 / (30 * population c) /\
   nthq (k_fish i) m == nthq (r_fish x) m * 1000000000 / (30 * population c) /\
   nthq (k_milk i) m == nthq (r_milk x) m * 1000000000 / (30 * population c)).
Proof. exact report_conversion. Qed.
Print Assumptions c04_conversion.

(* (2) the headline is the minimum over months of the sum of the nine per-food series (attained, and a lower bound);
   the monthly total kept on the interpreter is that sum *)
Theorem c04_headline_min_sum : forall x e i, report x = Ok (e, i) ->
  let s m := nthq (p_sf i) m + nthq (p_cr i) m + nthq (p_sw i) m + nthq (p_cs i) m + nthq (p_scp i) m +
             nthq (p_gh i) m + nthq (p_fish i) m + nthq (p_meat i) m + nthq (p_milk i) m in
  (forall m, (m < List.length (p_sf i))%nat -> nthq (p_sum i) m = s m) /\
  (forall m, (m < List.length (p_sf i))%nat -> headline i <= s m) /\
  (exists m, (m < List.length (p_sf i))%nat /\ headline i = s m).
Proof. exact report_headline. Qed.
Print Assumptions c04_headline_min_sum.

(* (3) for the allocation being reported: the monthly total IS the optimiser's consumed_kcals variable and the
   headline is its minimum over months - for every input and every assignment satisfying the rows
   Kcals_Fed_Month of the LP (in particular every feasible one, whichever solve produced it) *)
Theorem c04_headline_min_consumed : forall i c a e ii, lp_settings_ok i c -> Feasible i ToHumans a ->
  report (report_in i c a) = Ok (e, ii) ->
  (forall m, (m < NM i)%nat -> nthq (p_sum ii) m == a Consumed m) /\
  (forall m, (m < NM i)%nat -> headline ii <= a Consumed m) /\
  (exists m, (m < NM i)%nat /\ headline ii == a Consumed m).
Proof.
  intros i c a e ii H F R. pose proof (feasible_consumed_rows i a F) as S.
  destruct (report_lp_sum i c a e ii H S R) as [_ A].
  destruct (report_lp_headline i c a e ii H S R) as [B C]. repeat split; assumption.
Qed.
Print Assumptions c04_headline_min_consumed.

(* (4) the tie-breaking solves never degrade the headline: any assignment satisfying the base rows plus the
   second-stage floor built from the first optimum v reports a headline >= 0.99995 v (and >= its own objective
   variable) *)
Theorem c04_floor : forall i c a v e ii, lp_settings_ok i c -> Feasible2 i ToHumans v a ->
  report (report_in i c a) = Ok (e, ii) ->
  (99995 # 100000) * v <= headline ii /\ a Obj 0%nat <= headline ii.
Proof. exact report_floor. Qed.
Print Assumptions c04_floor.

(* ... hence the headline is within 0.005 % < 0.01 % of the optimiser's own optimum v of the first solve
   (first_optimum: no feasible point of the base LP has a larger objective value).  The upper bound is proved
   from the LP itself: moving the objective variable to the minimum of consumed_kcals keeps every row satisfied. *)
Theorem c04_headline_le_optimum : forall i c a v e ii, lp_settings_ok i c -> Feasible i ToHumans a ->
  report (report_in i c a) = Ok (e, ii) -> first_optimum i v -> headline ii <= v.
Proof. exact headline_le_optimum. Qed.
Print Assumptions c04_headline_le_optimum.

Theorem c04_within_tolerance : forall i c a v e ii, lp_settings_ok i c -> Feasible2 i ToHumans v a ->
  report (report_in i c a) = Ok (e, ii) -> first_optimum i v ->
  0 <= v - headline ii /\ v - headline ii <= (5 # 100000) * v /\ (0 < v -> (v - headline ii) / v < 1 # 10000).
Proof.
  intros i c a v e ii H F R O. destruct (report_floor i c a v e ii H F R) as [L _].
  exact (within_tolerance v (headline ii) L (headline_le_optimum i c a v e ii H (proj1 F) R O)).
Qed.
Print Assumptions c04_within_tolerance.

(* (5) crop split: eaten immediately + eaten from new storage = crops eaten, and the new-storage part is never
   negative - both branches of to_monthly_list_outdoor_crops_kcals, any production / allocation, in billion
   people fed, in percent and in the saved kcals-per-person columns *)
Theorem c04_split : forall x e i, report x = Ok (e, i) -> positive_settings (r_conv x) -> 0 < r_km x ->
  forall m, (m < r_n x)%nat ->
  (nthq (e_imm e) m + nthq (e_ns e) m == nthq (e_cr e) m /\ 0 <= nthq (e_ns e) m) /\
  (nthq (p_imm i) m + nthq (p_ns i) m == nthq (p_cr i) m /\ 0 <= nthq (p_ns i) m) /\
  (nthq (k_imm i) m + nthq (k_ns i) m == m_bf_ke (r_conv x) * nthq (e_cr e) m /\ 0 <= nthq (k_ns i) m).
Proof. exact report_split. Qed.
Print Assumptions c04_split.

Theorem c04_split_month : forall produced eaten k,
  fst (split_month produced eaten k) + snd (split_month produced eaten k) == eaten * k /\
  (0 <= k -> 0 <= snd (split_month produced eaten k)).
Proof. intros; split; [apply split_month_adds_up|apply split_month_nonneg]. Qed.
Print Assumptions c04_split_month.

(* (5b) since the clamp fix (production for humans = max(production - feed - biofuel, 0)): the part eaten immediately is
   never negative either - extractor series, percent series and the saved column - for every allocation that reports
   non-negative crops eaten, in particular for EVERY feasible assignment of the LP *)
Theorem c04_split_immediate_nonneg : forall x e i, report x = Ok (e, i) -> positive_settings (r_conv x) -> 0 < r_km x ->
  forall m, (m < r_n x)%nat -> 0 <= var_at (v_cr_h x) m ->
  0 <= nthq (e_imm e) m /\ 0 <= nthq (p_imm i) m /\ 0 <= nthq (k_imm i) m.
Proof. exact report_imm_nonneg. Qed.
Print Assumptions c04_split_immediate_nonneg.

Theorem c04_split_immediate_nonneg_feasible : forall i c ty a e ii, lp_settings_ok i c -> Feasible i ty a ->
  report (report_in i c a) = Ok (e, ii) -> forall m, (m < NM i)%nat ->
  0 <= nthq (e_imm e) m /\ 0 <= nthq (p_imm ii) m /\ 0 <= nthq (k_imm ii) m.
Proof. intros i c ty a e ii S F. exact (report_lp_imm_nonneg i c a e ii S (proj1 F)). Qed.
Print Assumptions c04_split_immediate_nonneg_feasible.

(* ... so the Extractor's own run-time checks of the split (validate_sources_add_up,
   validate_outdoor_growing_production) can never fire, whatever the inputs *)
Theorem c04_split_checks_never_fire : forall x, extract x <> Rejected AssertRejected.
Proof. exact extract_never_assert. Qed.
Print Assumptions c04_split_checks_never_fire.

(* (6) the breakdown kept on the interpreter (stored_food and outdoor_crops rounded to 3 decimals, the other seven
   unrounded) sums, month by month, to within 0.001 of the unrounded sum whose minimum is the headline; each
   rounded series is within 0.0005 of the unrounded one *)
Theorem c04_rounded_breakdown : forall x e i, report x = Ok (e, i) ->
  let s m := nthq (p_sf i) m + nthq (p_cr i) m + nthq (p_sw i) m + nthq (p_cs i) m + nthq (p_scp i) m +
             nthq (p_gh i) m + nthq (p_fish i) m + nthq (p_meat i) m + nthq (p_milk i) m in
  let kept m := nthq (q_sf i) m + nthq (q_cr i) m + nthq (p_sw i) m + nthq (p_cs i) m + nthq (p_scp i) m +
             nthq (p_gh i) m + nthq (p_fish i) m + nthq (p_meat i) m + nthq (p_milk i) m in
  forall m, (m < List.length (p_sf i))%nat ->
    - (1 # 1000) <= kept m - s m <= 1 # 1000 /\
    - (5 # 10000) <= nthq (q_sf i) m - nthq (p_sf i) m <= 5 # 10000 /\
    - (5 # 10000) <= nthq (q_cr i) m - nthq (p_cr i) m <= 5 # 10000 /\
    - (5 # 10000) <= nthq (q_sw i) m - nthq (p_sw i) m <= 5 # 10000.
Proof. exact report_rounded. Qed.
Print Assumptions c04_rounded_breakdown.

Theorem c04_round_bound : forall d x, - ((1 # 2) / pow10 d) <= round_dec d x - x <= (1 # 2) / pow10 d.
Proof. exact round_dec_bound. Qed.
Print Assumptions c04_round_bound.

(* (7) hand-off link used by the three-round theorem of C03: the series the interpreter hands to the next round
   (feed_sum_kcals_equivalent / biofuels_sum_kcals_equivalent = cell sugar + SCP + seaweed + outdoor crops + stored food,
   each one variable values -> billion people fed -> percent -> kcals per person per day), converted back with
   in_units_bil_kcals_thou_tons_thou_tons_per_month, IS the LP's monthly feed / biofuel sum - for every input and
   EVERY assignment (feasibility is not needed), every month *)
Theorem c04_feed_sum_link : forall i c a, lp_settings_ok i c -> forall m, (m < NM i)%nat ->
  nthq (back_to_bk c (feed_sum_ke (fb_of i c a))) m == feed_sum i a m /\
  nthq (back_to_bk c (biofuels_sum_ke (fb_of i c a))) m == biofuel_sum i a m.
Proof. exact feed_sum_link. Qed.
Print Assumptions c04_feed_sum_link.

(* ... hence in a human round (rounds 1 and 3) they are the round's feed / biofuel charge *)
Theorem c04_feed_sum_link_charge : forall i c a, lp_settings_ok i c -> Feasible i ToHumans a -> has_nonhuman i = true ->
  forall m, (m < NM i)%nat ->
  nthq (back_to_bk c (feed_sum_ke (fb_of i c a))) m == at_ (feed_charge i) m /\
  nthq (back_to_bk c (biofuels_sum_ke (fb_of i c a))) m == at_ (biofuel_charge i) m.
Proof. exact feed_sum_link_charge. Qed.
Print Assumptions c04_feed_sum_link_charge.

(* ------------------------------------------------------------------ non-vacuity *)

(* a two-month instance: milk only; need = 1 billion kcals, KCALS_MONTHLY = 3000 *)
Definition ex_conv : conv := {| kcals_daily := 100; fat_daily := 47; protein_daily := 51; population := 1000000000 # 3000 |}.
Definition ex_lp : lp_in :=
  {| NM := 2; add_sw := false; add_cr := false; add_sf := false; add_meat := false; add_scp := false; add_cs := false;
     store_years := true; pop := 1000000000 # 3000; kcals_monthly_pp := 3000; need := 1;
     w_sf := 0; w_cr := 0; w_meat := 0; w_scp := 0; w_cs := 0; w_sw := 0; sf0 := 0; meat_total := 0;
     sw_kcals := 1; sw_init := 0; sw_init_area := 0; sw_min_density := 0; sw_max_density := 0; sw_harvest_loss := 0;
     relocated := false; harvest_delay := 0;
     cap_sw_h := 0; cap_sw_f := 0; cap_sw_b := 0; cap_scp_h := 0; cap_scp_f := 0; cap_scp_b := 0;
     cap_cs_h := 0; cap_cs_f := 0; cap_cs_b := 0;
     crops_prod := []; milk := [1; 2]; greenhouse := []; fish := [];
     scp_prod := []; cs_prod := []; built_area := []; growth := []; feed_charge := []; biofuel_charge := [];
     meat_monthly := []; meat_running := []; max_feed := []; max_biofuel := [];
     pin_cr := []; pin_sf := []; pin_meat := []; pin_scp := []; pin_cs := []; pin_sw := [] |}.
Definition ex_a : assignment := fun s m =>
  match s, m with
  | Consumed, O => 100 | Consumed, S O => 200 | Obj, O => 100 | _, _ => 0
  end.

Example c04_settings_exist : lp_settings_ok ex_lp ex_conv /\ settings_ok (report_in ex_lp ex_conv ex_a).
Proof. unfold lp_settings_ok, settings_ok, positive_settings; cbn; repeat split; reflexivity. Qed.

Example c04_feasible2_exists : Feasible2 ex_lp ToHumans 100 ex_a.
Proof.
  split; [split|].
  - intros s m. destruct s; cbn; try lra; destruct m as [|[|m]]; cbn; lra.
  - cbn. repeat constructor; unfold sat; cbn; lra.
  - cbn. repeat constructor; unfold sat; cbn; lra.
Qed.

Example c04_first_optimum_exists : first_optimum ex_lp 100.
Proof.
  intros a' F.
  pose proof (objective_rows ex_lp a' F 0%nat ltac:(cbn; lia)) as O.
  assert (NZ : ~ need ex_lp == 0) by (cbn; intro HE; lra).
  pose proof (consumed_value ex_lp a' 0%nat NZ (feasible_consumed_rows ex_lp a' F 0%nat ltac:(cbn; lia))) as C.
  cbn in C.
  assert (E : 100 / 1 * (0 + 0 + 1 * 0 + 0 + 0 + 0 + 1 + 0 + 0) == 100) by reflexivity.
  rewrite E in C. lra.
Qed.

Example c04_report_accepts :
  match report (report_in ex_lp ex_conv ex_a) with
  | Ok (_, ii) => headline ii == 100 /\ headline ii <= 100
  | Rejected _ => False
  end.
Proof. vm_compute. split; [reflexivity|discriminate]. Qed.

(* both branches of the split occur, and np.round at a tie goes to the even neighbour *)
Example c04_split_branches :
  split_month 3 5 (1 # 2) = (3 * (1 # 2), (5 - 3) * (1 # 2)) /\ split_month 5 3 (1 # 2) = (3 * (1 # 2), 0 * (1 # 2)).
Proof. split; reflexivity. Qed.
Example c04_round_examples :
  round_dec 3 (12345 # 10000000) == 1 # 1000 /\ round_dec 3 (5 # 10000) == 0 /\ round_dec 3 (15 # 10000) == 2 # 1000 /\
  round_dec 1 (-(26 # 100)) == -(3 # 10).
Proof. repeat split; vm_compute; reflexivity. Qed.
