(* C18 - Hand-offs between rounds preserve totals, bounds and priorities.
   Statements only (proofs: Proofs/Helpers.v) about the hand model Model/Helpers.v of
   src/optimizer/parameters.py: calculate_human_consumption_for_min_needs, fill_negatives_with_positives,
   get_second_round_kcals_with_redistributed_meat, increase_biofuels_then_feed.
   All series are lists of arbitrary length; numbers are exact rationals. *)
From Coq Require Import QArith Qminmax Lqa Lia List Bool String.
From Allfed Require Import Base.QList Model.Helpers Proofs.Helpers.
Import ListNotations.
Open Scope Q_scope.

(* ---------------------------------------------------------------- minimum human consumption *)

(* the ceiling is the smaller of the no-feed result and the configured threshold (in percent of daily need) *)
Theorem c18_cap : forall K T pf, needs_cap K T pf == K * (Qmin pf T / 100).
Proof. exact needs_cap_min. Qed.
Print Assumptions c18_cap.

(* what the function returns is the table of hand-offs, keyed in the documented priority order *)
Theorem c18_min_needs_result : forall K T pf Kc N r d, min_needs K T pf Kc N r = Ok d ->
  d = combine ["fish"; "meat"; "dairy"; "greenhouse"; "outdoor_crops"; "stored_food"; "methane_scp";
               "cellulosic_sugar"; "seaweed"]%string
              (map (fun j => tab N (fun m => handoff (needs_cap K T pf) r N j m)) (seq 0 9)).
Proof.
  intros K T pf Kc N r d H. rewrite (min_needs_ok_inv _ _ _ _ _ _ _ H).
  change (map fst order_table) with ["fish"; "meat"; "dairy"; "greenhouse"; "outdoor_crops"; "stored_food";
                                     "methane_scp"; "cellulosic_sugar"; "seaweed"]%string.
  f_equal. apply map_ext. intro j. apply column_as_handoff.
Qed.
Print Assumptions c18_min_needs_result.

(* the fat / protein flags of the round-1 results only switch the two validators off: whatever the flags, the
   table returned is the same one, so every clause below (total, bounds, priority) holds for all four settings *)
Theorem c18_min_needs_result_any_flags : forall tracked K T pf Kc N r d, min_needs_gen tracked K T pf Kc N r = Ok d ->
  d = combine (map fst order_table)
              (map (fun j => tab N (fun m => handoff (needs_cap K T pf) r N j m)) (seq 0 9)).
Proof.
  intros t K T pf Kc N r d H. rewrite (min_needs_gen_ok_inv _ _ _ _ _ _ _ _ H).
  f_equal. apply map_ext. intro j. apply column_as_handoff.
Qed.
Print Assumptions c18_min_needs_result_any_flags.

(* position j of the order refers to these round-1 series (outdoor crops = immediate + newly stored) *)
Theorem c18_eaten_explicit : forall r m, map (fun j => eaten r j m) (seq 0 9) =
  [nth m (e_fish r) 0; nth m (e_meat r) 0; nth m (e_milk r) 0; nth m (e_greenhouse r) 0;
   nth m (e_immediate_oc r) 0 + nth m (e_new_stored_oc r) 0; nth m (e_stored_food r) 0;
   nth m (e_scp r) 0; nth m (e_cell_sugar r) 0; nth m (e_seaweed r) 0].
Proof. intros r m. reflexivity. Qed.
Print Assumptions c18_eaten_explicit.

(* monthly total of the hand-off = min(ceiling, what people ate in round 1 that month) *)
Theorem c18_min_needs_total : forall cap r N m, (m < N)%nat -> r1_nonneg r -> 0 <= cap ->
  qsum (tab 9 (fun j => handoff cap r N j m)) == Qmin cap (qsum (tab 9 (fun j => eaten r j m))).
Proof.
  intros cap r N m Hm Hr Hc. rewrite (handoff_total cap r N m Hm Hr Hc).
  assert (E : qsum (tab 9 (fun j => eaten r j m)) == qsum (month_foods r m)).
  { unfold eaten. change 9%nat with (List.length (month_foods r m)). apply qsum_tab_nth. }
  rewrite E. reflexivity.
Qed.
Print Assumptions c18_min_needs_total.

(* when the no-feed result pf is (at most) every month's percentage, the total is exactly
   KCALS_DAILY * min(pf, threshold) / 100 in every month *)
Theorem c18_min_needs_total_exact : forall K T pf r N, 0 <= K -> 0 <= T -> 0 <= pf -> r1_nonneg r ->
  (forall m, (m < N)%nat -> K * (pf / 100) <= qsum (tab 9 (fun j => eaten r j m))) ->
  forall m, (m < N)%nat ->
  qsum (tab 9 (fun j => handoff (needs_cap K T pf) r N j m)) == K * (Qmin pf T / 100).
Proof.
  intros K T pf r N HK HT Hpf Hr Hall m Hm.
  assert (Hx : 0 <= Qmin pf T / 100).
  { apply Qle_shift_div_l; [reflexivity|]. destruct (Q.min_spec pf T) as [[_ E]|[_ E]]; rewrite E; lra. }
  assert (Hc : 0 <= needs_cap K T pf).
  { rewrite needs_cap_min. apply Qmult_le_0_compat; assumption. }
  rewrite (c18_min_needs_total _ r N m Hm Hr Hc). rewrite needs_cap_min.
  apply Q.min_l. specialize (Hall m Hm).
  assert (Hle : K * (Qmin pf T / 100) <= K * (pf / 100)).
  { rewrite (Qmult_comm K (Qmin pf T / 100)), (Qmult_comm K (pf / 100)).
    apply Qmult_le_compat_r; [|exact HK].
    unfold Qdiv. apply Qmult_le_compat_r; [|vm_compute; discriminate].
    destruct (Q.min_spec pf T) as [[H E]|[H E]]; rewrite E; lra. }
  lra.
Qed.
Print Assumptions c18_min_needs_total_exact.

(* each food's share lies between 0 and what round 1 ate of it *)
Theorem c18_min_needs_bound : forall cap r N j m, (m < N)%nat -> r1_nonneg r -> 0 <= cap ->
  0 <= handoff cap r N j m /\ handoff cap r N j m <= eaten r j m.
Proof.
  intros cap r N j m Hm Hr Hc. rewrite (handoff_eq cap r N j m Hm). unfold eaten.
  destruct (consume_bounds (month_foods r m) cap (month_foods_nonneg r m Hr) Hc j) as (A & B & _). split; assumption.
Qed.
Print Assumptions c18_min_needs_bound.

(* priority: a food that is not fully taken leaves nothing for any later food of the order *)
Theorem c18_priority : forall cap r N j m, (m < N)%nat -> r1_nonneg r -> 0 <= cap ->
  handoff cap r N j m < eaten r j m -> forall k, (j < k)%nat -> handoff cap r N k m == 0.
Proof.
  intros cap r N j m Hm Hr Hc Hlt k Hk. rewrite (handoff_eq cap r N k m Hm).
  rewrite (handoff_eq cap r N j m Hm) in Hlt. unfold eaten in Hlt.
  exact (consume_priority (month_foods r m) cap (month_foods_nonneg r m Hr) Hc j Hlt k Hk).
Qed.
Print Assumptions c18_priority.

(* the function's own checks (assert_consumption_within_limits and the two validators of
   validate_results.py it calls) never fire on non-negative round-1 series when the ceiling does not exceed the
   daily need: the hand-off is always produced *)
Theorem c18_min_needs_validators_accept : forall K T pf Kc N r,
  r1_nonneg r -> (N <= min_len r)%nat -> 0 <= needs_cap K T pf -> needs_cap K T pf <= Kc * (1 + eps4) ->
  forall tracked, exists d, min_needs_gen tracked K T pf Kc N r = Ok d.
Proof. exact min_needs_accepts. Qed.
Print Assumptions c18_min_needs_validators_accept.

(* ---------------------------------------------------------------- fill_negatives_with_positives *)

Theorem c18_fill_sum : forall d, List.length (fill d) = List.length d /\ qsum (fill d) == qsum d.
Proof. intro d. destruct (fill_spec d) as (L & S & _). split; assumption. Qed.
Print Assumptions c18_fill_sum.

Theorem c18_fill_nonneg : forall d, 0 <= qsum d -> forall i, 0 <= nth i (fill d) 0.
Proof. intros d H. destruct (fill_spec d) as (_ & _ & _ & _ & F). exact (F H). Qed.
Print Assumptions c18_fill_nonneg.

(* surpluses only shrink (never below 0), deficits only shrink (never above 0), whatever the sum *)
Theorem c18_fill_moves_toward_zero : forall d i,
  (0 <= nth i d 0 -> 0 <= nth i (fill d) 0 <= nth i d 0) /\ (nth i d 0 <= 0 -> nth i d 0 <= nth i (fill d) 0 <= 0).
Proof. intros d i. destruct (fill_spec d) as (_ & _ & P & M & _). split; [apply P|apply M]. Qed.
Print Assumptions c18_fill_moves_toward_zero.

(* ---------------------------------------------------------------- meat re-timing between rounds *)

(* round 2 produced at least as much meat in total: the re-timed series keeps the round-2 total, is at or above
   the round-1 level every month and non-negative; none of the code's assertions fires *)
Theorem c18_retime : forall r1 r2, List.length r1 = List.length r2 -> nonneg r1 -> qsum r1 <= qsum r2 ->
  exists l, redistribute r1 r2 = Ok l /\ List.length l = List.length r2 /\ qsum l == qsum r2 /\
            forall m, (m < List.length r2)%nat -> nth m r1 0 <= nth m l 0 /\ 0 <= nth m l 0.
Proof. exact redistribute_ok. Qed.
Print Assumptions c18_retime.

(* otherwise the code takes the `return None` branch (round 2 is abandoned, nothing is re-timed) *)
Theorem c18_retime_skip : forall r1 r2, qsum r2 < qsum r1 -> redistribute r1 r2 = Skip.
Proof. exact redistribute_skip. Qed.
Print Assumptions c18_retime_skip.

(* ---------------------------------------------------------------- final feed / biofuel adjustment *)

Theorem c18_bump_never_lowers : forall b f inc maxb maxf avail m, (m < List.length b)%nat ->
  nth m b 0 <= nth m (fst (bump b f inc maxb maxf avail)) 0 /\
  nth m f 0 <= nth m (snd (bump b f inc maxb maxf avail)) 0.
Proof.
  intros b f inc maxb maxf avail m Hm. destruct (bump_nth b f inc maxb maxf avail m Hm) as [-> ->].
  apply bump1_never_lowers.
Qed.
Print Assumptions c18_bump_never_lowers.

(* feed never ends above its demand schedule (nor above feed + the positive part of the requested increase),
   for ARBITRARY inputs *)
Theorem c18_bump_feed_ceiling : forall b f inc maxb maxf avail m, (m < List.length b)%nat ->
  nth m (snd (bump b f inc maxb maxf avail)) 0 <= Qmax (nth m f 0) (nth m maxf 0) /\
  nth m (snd (bump b f inc maxb maxf avail)) 0 <= nth m f 0 + Qmax (nth m inc 0) 0.
Proof.
  intros b f inc maxb maxf avail m Hm. destruct (bump_nth b f inc maxb maxf avail m Hm) as [_ ->].
  apply bump1_feed_ceiling.
Qed.
Print Assumptions c18_bump_feed_ceiling.

(* biofuel never ends above its demand schedule (nor above biofuel + the positive part of the requested increase),
   for ARBITRARY inputs: any sign of the increase and of the availability, quantities already above their demand
   or not (the repaired code clamps both potential increases at 0) *)
Theorem c18_bump_biofuel_ceiling_any : forall b f inc maxb maxf avail m, (m < List.length b)%nat ->
  nth m (fst (bump b f inc maxb maxf avail)) 0 <= Qmax (nth m b 0) (nth m maxb 0) /\
  nth m (fst (bump b f inc maxb maxf avail)) 0 <= nth m b 0 + Qmax (nth m inc 0) 0.
Proof.
  intros b f inc maxb maxf avail m Hm. destruct (bump_nth b f inc maxb maxf avail m Hm) as [-> _].
  apply bump1_biofuel_ceiling_any.
Qed.
Print Assumptions c18_bump_biofuel_ceiling_any.

(* corollary, the in-domain form: starting within the schedule, biofuel stays within it *)
Theorem c18_bump_biofuel_ceiling : forall b f inc maxb maxf avail m, (m < List.length b)%nat ->
  nth m b 0 <= nth m maxb 0 -> nth m f 0 <= nth m maxf 0 -> 0 <= nth m inc 0 ->
  nth m (fst (bump b f inc maxb maxf avail)) 0 <= nth m maxb 0 /\
  nth m (fst (bump b f inc maxb maxf avail)) 0 <= nth m b 0 + nth m inc 0.
Proof.
  intros b f inc maxb maxf avail m Hm H1 _ H3.
  destruct (c18_bump_biofuel_ceiling_any b f inc maxb maxf avail m Hm) as [A B].
  rewrite (Q.max_r _ _ H1) in A. rewrite (Q.max_l _ _ H3) in B. split; assumption.
Qed.
Print Assumptions c18_bump_biofuel_ceiling.

(* the code before the clamp fix violated the biofuel clause: with feed already above its demand, biofuel was
   pushed above its own demand (all inputs non-negative) *)
Theorem c18_biofuel_above_demand_before_clamp_fix :
  exists b f inc maxb maxf avail, 0 <= b /\ b <= maxb /\ 0 <= f /\ 0 <= inc /\ 0 <= avail /\ maxf < f /\
    maxb < fst (bump1_before_clamp_fix b f inc maxb maxf avail).
Proof. exact bump1_before_clamp_fix_refuted. Qed.
Print Assumptions c18_biofuel_above_demand_before_clamp_fix.

(* the code before fix 5ea9ff8 violated the feed clause inside the domain (regulariser leak) *)
Theorem c18_feed_above_demand_before_fix :
  exists b f inc maxb maxf avail, 0 <= b /\ b <= maxb /\ 0 <= f /\ f <= maxf /\ 0 <= inc /\
    maxf < snd (bump1_before_fix b f inc maxb maxf avail).
Proof. exact bump1_before_fix_refuted. Qed.
Print Assumptions c18_feed_above_demand_before_fix.

(* ---------------------------------------------------------------- non-vacuity *)

Example ex_consume : consume_all 5 [3; 4; 2] = [3; 2; 0].
Proof. vm_compute. reflexivity. Qed.

Definition ex_r1 : r1_eaten :=
  {| e_fish := [100; 0]; e_meat := [200; 50]; e_milk := [300; 0]; e_greenhouse := [0; 0];
     e_immediate_oc := [500; 700]; e_new_stored_oc := [600; 0]; e_stored_food := [400; 900];
     e_scp := [0; 0]; e_cell_sugar := [10; 10]; e_seaweed := [5; 5] |}.

Example ex_r1_nonneg : r1_nonneg ex_r1.
Proof. unfold r1_nonneg, nonneg; repeat split; repeat constructor; vm_compute; discriminate. Qed.

(* threshold 90 %, round 1 fed 79 %: the ceiling is 0.79 * 2100 = 1659 and both months add up to it *)
Example ex_min_needs : exists d, min_needs 2100 90 79 2100 2 ex_r1 = Ok d /\
  Forall2 Qeq (map (fun kv => nth 0 (snd kv) 0) d) [100; 200; 300; 0; 1059; 0; 0; 0; 0] /\
  Forall2 Qeq (map (fun kv => nth 1 (snd kv) 0) d) [0; 50; 0; 0; 700; 900; 0; 9; 0].
Proof.
  eexists. split; [vm_compute; reflexivity|].
  split; simpl; (repeat (constructor; [vm_compute; reflexivity|])); constructor.
Qed.

Example ex_fill : Forall2 Qeq (fill [1; -2; 3; -1; 1#2]) [1; 0; 1#2; 0; 0].
Proof. vm_compute. (repeat (constructor; [reflexivity|])); constructor. Qed.

Example ex_retime : (exists l, redistribute [1; 2; 3] [0; 1; 6] = Ok l /\ Forall2 Qeq l [1; 2; 4]) /\
                    redistribute [1; 2; 3] [0; 1; 2] = Skip.
Proof.
  split; [|vm_compute; reflexivity]. eexists. split; [vm_compute; reflexivity|].
  (repeat (constructor; [vm_compute; reflexivity|])); constructor.
Qed.

(* the witness of the repaired defect: the current code leaves biofuel at its level (9 <= demand 10) *)
Example ex_bump_out_of_domain : fst (bump1 9 5 1 10 2 0) <= 10 /\ 10 < fst (bump1_before_clamp_fix 9 5 1 10 2 0).
Proof. vm_compute. split; discriminate || reflexivity. Qed.

Example ex_bump_domain : exists b f inc maxb maxf avail, b <= maxb /\ f <= maxf /\ 0 <= inc /\
  b < fst (bump1 b f inc maxb maxf avail) /\ f < snd (bump1 b f inc maxb maxf avail) /\
  snd (bump1 b f inc maxb maxf avail) == maxf.
Proof. exists 0, 0, 10, 10, 10, 100. vm_compute. repeat split; discriminate || reflexivity. Qed.
