(* C14 - A run's result depends only on its own inputs.
   Statements only; proofs live in Proofs/Isolation.v, definitions in Model/Isolation.v.

   Abstract model: the process has a store of cells (the attributes of `Food.conversions`
   and any other module-level mutable); a run is a deterministic program `Ret r | Rd c k |
   Wr c v k` (what it does next is a function of its own input and of the values it read).
   The theorems are parametric in the types of cells, values and results and hold for ANY
   boolean cell comparison.  What ties them to /repo is checked on every run of
   harness/props/c14.py: the recorded trace of each real run is `disciplined` (decided by
   vm_compute in a generated case file), and sampled histories agree bit for bit. *)
From Coq Require Import List Bool Arith NArith String Permutation.
From Allfed Require Import Model.Isolation Proofs.Isolation.
Import ListNotations.

Section Statements.
  Variable cell : Type.
  Variable ceqb : cell -> cell -> bool.
  Variable V : Type.
  Variable R : Type.
  Notation prog := (prog cell V R).
  Notation store := (store cell V).
  Notation result_of := (result_of cell ceqb V R).
  Notation trace_of := (trace_of cell ceqb V R).
  Notation final_of := (final_of cell ceqb V R).
  Notation disciplined := (disciplined cell ceqb V).
  Notation results_of := (results_of cell ceqb V R).

  (* a run observed (from some store G1) to read only cells it has itself written before
     returns the same result and issues the same events from every other store G2 *)
Theorem c14_noninterference : forall (p : prog) (G1 : store),
    disciplined (trace_of p G1) = true ->
    forall G2 : store, result_of p G1 = result_of p G2 /\ trace_of p G1 = trace_of p G2.
Proof. exact (noninterference cell ceqb V R). Qed.

  (* histories: whatever the other steps of a history are (other runs, repetitions, programs
     that overwrite the store, disciplined or not) and whatever store the process started
     from, the i-th result is the result of that run alone from the initial store G0 of a
     fresh process *)
Theorem c14_history : forall (h : list prog) (G : store) (i : nat) (p : prog),
    nth_error h i = Some p ->
    (exists G', disciplined (trace_of p G') = true) ->
    forall G0 : store, nth_error (results_of h G) i = Some (result_of p G0).
Proof. exact (history_nth cell ceqb V R). Qed.

  (* the same run placed anywhere in any two histories gives the same result *)
Theorem c14_any_order : forall (h1 h2 : list prog) (G1 G2 : store) (i j : nat) (p : prog),
    nth_error h1 i = Some p -> nth_error h2 j = Some p ->
    (exists G', disciplined (trace_of p G') = true) ->
    nth_error (results_of h1 G1) i = nth_error (results_of h2 G2) j.
Proof.
    intros h1 h2 G1 G2 i j p H1 H2 Hd.
    rewrite (history_nth cell ceqb V R h1 G1 i p H1 Hd G1), (history_nth cell ceqb V R h2 G2 j p H2 Hd G1).
    reflexivity.
Qed.

  (* a batch of disciplined runs executed in another order produces the same results, permuted *)
Theorem c14_reordered_batch : forall (h1 h2 : list prog), Permutation h1 h2 ->
    Forall (fun p => exists G', disciplined (trace_of p G') = true) h1 ->
    forall G1 G2 : store, Permutation (results_of h1 G1) (results_of h2 G2).
Proof. exact (history_permutation cell ceqb V R). Qed.

  (* the whole-process form of the discipline (needed for module-level containers): if in
     the log of a history no run reads a cell that was never written or whose last write was
     by ANOTHER run, then every run of the history is disciplined *)
Theorem c14_log_discipline : forall (h : list prog) (G : store),
    hdisciplined cell ceqb V (hist_log cell ceqb V R 0 h G) = true ->
    Forall (fun p => exists G', disciplined (trace_of p G') = true) h.
Proof. exact (log_discipline cell ceqb V R). Qed.

  (* the model cannot produce an incoherent trace: a recorded trace in which a read returns
     something else than the run's own last write was not produced through the recorded
     interface alone *)
Theorem c14_exec_coherent : forall (veqb : V -> V -> bool), (forall v, veqb v v = true) ->
    forall (p : prog) (G : store), coherent cell ceqb V veqb (trace_of p G) = true.
Proof. exact (exec_coherent cell ceqb V R). Qed.
End Statements.
Print Assumptions c14_noninterference.
Print Assumptions c14_history.
Print Assumptions c14_any_order.
Print Assumptions c14_reordered_batch.
Print Assumptions c14_log_discipline.
Print Assumptions c14_exec_coherent.

(* ------------------------------------------------------------------ non-vacuity *)
Open Scope string_scope.
Open Scope N_scope.
Definition P := prog string N N.
Definition st0 : store string N := fun _ => 0.
(* what another run (population 7, flag set) leaves behind *)
Definition st_dirty : store string N :=
  fun c => if String.eqb c "population" then 7 else if String.eqb c "assigned" then 1 else 5.

(* shape of the real run: establish the settings, then read them back many times *)
Definition run_country (pop kcals : N) : P :=
  Wr "assigned" 0 (Wr "kcals_daily" kcals (Wr "population" pop (Wr "assigned" 1
    (Rd "assigned" (fun a => Rd "kcals_daily" (fun k => Rd "population" (fun n => Ret (a * k * n)))))))).

Example run_country_disciplined :
  disciplined string String.eqb N (trace_of string String.eqb N N (run_country 329 2100) st_dirty) = true.
Proof. vm_compute. reflexivity. Qed.

Example run_country_reads_after_writing :
  List.length (filter (fun e => match e with ERd _ _ => true | _ => false end)
                 (trace_of string String.eqb N N (run_country 329 2100) st0)) = 3%nat.
Proof. vm_compute. reflexivity. Qed.

Example run_country_same_result :
  result_of string String.eqb N N (run_country 329 2100) st0 = 690900 /\
  result_of string String.eqb N N (run_country 329 2100) st_dirty = 690900.
Proof. vm_compute. split; reflexivity. Qed.

Example history_any_order :
  results_of string String.eqb N N [run_country 329 2100; run_country 1380 1800; run_country 329 2100] st0
    = [690900; 2484000; 690900] /\
  results_of string String.eqb N N [run_country 1380 1800; run_country 329 2100] st_dirty = [2484000; 690900].
Proof. vm_compute. split; reflexivity. Qed.

(* the hypothesis is needed: a run that re-establishes the settings only when they are not
   yet assigned (reads the flag first) keeps the previous country's population *)
Definition run_stale (pop kcals : N) : P :=
  Rd "assigned" (fun a =>
    if N.eqb a 1 then Rd "kcals_daily" (fun k => Rd "population" (fun n => Ret (k * n)))
    else Wr "kcals_daily" kcals (Wr "population" pop (Wr "assigned" 1
           (Rd "kcals_daily" (fun k => Rd "population" (fun n => Ret (k * n))))))).

Theorem c14_without_discipline_refuted :
  exists (p : P) (G1 G2 : store string N),
    disciplined string String.eqb N (trace_of string String.eqb N N p G1) = false /\
    result_of string String.eqb N N p G1 <> result_of string String.eqb N N p G2.
Proof.
  exists (run_stale 329 2100), st0, st_dirty. split; [vm_compute; reflexivity|].
  vm_compute. intro H; discriminate H.
Qed.
Print Assumptions c14_without_discipline_refuted.

Example stale_history_depends_on_order :
  results_of string String.eqb N N [run_stale 329 2100; run_stale 1380 1800] st0 = [690900; 690900] /\
  results_of string String.eqb N N [run_stale 1380 1800; run_stale 329 2100] st0 = [2484000; 2484000].
Proof. vm_compute. split; reflexivity. Qed.

(* the whole-log check accepts the disciplined history and rejects the stale one *)
Example log_check_accepts :
  hdisciplined string String.eqb N
    (hist_log string String.eqb N N 0 [run_country 329 2100; run_country 1380 1800] st_dirty) = true.
Proof. vm_compute. reflexivity. Qed.
Example log_check_rejects :
  hdisciplined string String.eqb N
    (hist_log string String.eqb N N 0 [run_stale 329 2100; run_stale 1380 1800] st0) = false.
Proof. vm_compute. reflexivity. Qed.
