(* C03 - humans come before animal feed and biofuel: the parts that are theorems.
   The cross-round policy clauses (final < T => no feed; final >= no-feed round; no-feed round reaches T => final >= T)
   depend on the solver and on rule-of-thumb constants of the round glue; they are audited on real runs
   (harness/props/c03.py), not proved.  See DESIGN.md section 5/C03. *)
From Coq Require Import QArith List Arith String.
From Allfed Require Import Gen.Shutoff Model.LP Model.Rounds Proofs.LPChar Proofs.Rounds.
Import ListNotations.
Open Scope Q_scope.

(* the demand schedule: one value per month, the monthly amount before the shut-off month, zero from it onwards *)
Theorem c03_demand_shape : forall x d n, (d <= n)%nat ->
  List.length (demand x d n) = n /\
  (forall m, (m < d)%nat -> nth m (demand x d n) 0 = x) /\
  (forall m, (d <= m)%nat -> nth m (demand x d n) 0 = 0).
Proof. intros x d n H. split; [apply demand_length; exact H | split; intros; [apply demand_before | apply demand_after]; assumption]. Qed.
Print Assumptions c03_demand_shape.

Theorem c03_demand_nonneg_linear : forall a, 0 <= a ->
  (forall d n m, 0 <= nth m (demand (monthly_of_annual a) d n) 0) /\
  (forall c, monthly_of_annual (c * a) == c * monthly_of_annual a).
Proof. intros a H. split; [intros; apply demand_nonneg, monthly_of_annual_nonneg; exact H | intros; apply monthly_of_annual_linear]. Qed.
Print Assumptions c03_demand_nonneg_linear.

(* the seven shut-off options mean what the documentation says (re-proved against the source on every run) *)
Theorem c03_shutoff_table : table_eqb shutoff_table documented_shutoff = true.
Proof. exact shutoff_table_documented. Qed.
Print Assumptions c03_shutoff_table.

Theorem c03_biofuel_never_outlasts_feed : forall n, (12 <= n)%nat -> forallb (bio_le_feed n) documented_shutoff = true.
Proof. exact months_le_horizon. Qed.
Print Assumptions c03_biofuel_never_outlasts_feed.

(* human-maximising rounds: feed and biofuel drawn from human-edible food are exactly the charge, hence within the
   demand schedule whenever the charge is, and every feed / biofuel variable is zero in a month with zero charge
   (round 1: all months; round 3: from the shut-off month on, given charge <= demand - property C18) *)
Theorem c03_humans_within_demand : forall i a fd bd,
  Feasible i ToHumans a -> has_nonhuman i = true ->
  forall m, (m < NM i)%nat ->
  at_ (feed_charge i) m <= nth m fd 0 -> at_ (biofuel_charge i) m <= nth m bd 0 ->
  feed_sum i a m <= nth m fd 0 /\ biofuel_sum i a m <= nth m bd 0.
Proof. exact humans_within_demand. Qed.
Print Assumptions c03_humans_within_demand.

Theorem c03_humans_zero_charge_zero_use : forall i a,
  Feasible i ToHumans a -> has_nonhuman i = true -> 0 < sw_kcals i ->
  forall m, (m < NM i)%nat -> at_ (feed_charge i) m <= 0 -> at_ (biofuel_charge i) m <= 0 ->
  ((add_sf i = true -> a SF_f m == 0) /\ (add_cr i = true -> a CR_f m == 0) /\ (add_sw i = true -> a SW_f m == 0) /\
   (add_cs i = true -> a CS_f m == 0) /\ (add_scp i = true -> a SCP_f m == 0)) /\
  ((add_sf i = true -> a SF_b m == 0) /\ (add_cr i = true -> a CR_b m == 0) /\ (add_sw i = true -> a SW_b m == 0) /\
   (add_cs i = true -> a CS_b m == 0) /\ (add_scp i = true -> a SCP_b m == 0)).
Proof. exact humans_zero_charge_zero_use. Qed.
Print Assumptions c03_humans_zero_charge_zero_use.

(* feed-maximising round: within the ceiling every month; zero where the ceiling is zero *)
Theorem c03_animals_within_ceiling : forall i a m,
  Feasible i ToAnimals a -> has_nonhuman i = true -> (m < NM i)%nat ->
  feed_sum i a m <= at_ (max_feed i) m /\ biofuel_sum i a m <= at_ (max_biofuel i) m.
Proof. exact animals_ceiling. Qed.
Print Assumptions c03_animals_within_ceiling.

Theorem c03_animals_zero_after_shutoff : forall i a,
  Feasible i ToAnimals a -> has_nonhuman i = true -> 0 < sw_kcals i ->
  forall m, (m < NM i)%nat -> at_ (max_feed i) m <= 0 ->
  (add_sf i = true -> a SF_f m == 0) /\ (add_cr i = true -> a CR_f m == 0) /\ (add_sw i = true -> a SW_f m == 0) /\
  (add_cs i = true -> a CS_f m == 0) /\ (add_scp i = true -> a SCP_f m == 0).
Proof. exact animals_zero_ceiling_zero_use. Qed.
Print Assumptions c03_animals_zero_after_shutoff.

(* feed-maximising round: people keep at least 99.99 % of the pinned minimum of each staple *)
Theorem c03_pins : forall i a m, Feasible i ToAnimals a -> (m < NM i)%nat ->
  (add_cr i = true -> 0 <= at_ (pin_cr i) m -> (9999 # 10000) * at_ (pin_cr i) m <= a CR_h m) /\
  (add_sf i = true -> 0 <= at_ (pin_sf i) m -> (9999 # 10000) * at_ (pin_sf i) m <= a SF_h m) /\
  (add_meat i = true -> 0 <= at_ (pin_meat i) m -> (9999 # 10000) * at_ (pin_meat i) m <= a M_eaten m).
Proof.
  intros i a m F Hm. repeat split; intros.
  - apply animals_pins_crops; assumption.
  - apply animals_pins_stored; assumption.
  - apply animals_pins_meat; assumption.
Qed.
Print Assumptions c03_pins.

(* non-vacuity: a three-month schedule with a two-month shut-off *)
Example c03_demand_example : demand 5 2 3 = [5; 5; 0].
Proof. reflexivity. Qed.
