(* C03 - humans come before animal feed and biofuel: the parts that are theorems.
   The cross-round policy clauses (final < T => no feed; final >= no-feed round; no-feed round reaches T => final >= T)
   depend on the solver and on rule-of-thumb constants of the round glue; they are audited on real runs
   (harness/props/c03.py), not proved.  See DESIGN.md section 5/C03. *)
From Coq Require Import QArith List Arith String.
From Allfed Require Import Gen.Shutoff Base.QList Model.LP Model.Rounds Model.MeatDairy Proofs.LPChar Proofs.Rounds Proofs.RoundsComp.
Import ListNotations.
Open Scope Q_scope.

(* the demand schedule: one value per month, the monthly amount before the shut-off month, zero from it onwards *)
Theorem c03_demand_shape : forall x d n, (d <= n)%nat ->
  List.length (demand x d n) = n /\
  (forall m, (m < d)%nat -> nth m (demand x d n) 0 = x) /\
  (forall m, (d <= m)%nat -> nth m (demand x d n) 0 = 0).
Proof. intros x d n H. split; [apply demand_length; exact H | split; intros; [apply demand_before | apply demand_after]; assumption]. Qed.
Print Assumptions c03_demand_shape.

Theorem c03_demand_nonneg_linear : forall a, 0 <= a ->
  (forall d n m, 0 <= nth m (demand (monthly_of_annual a) d n) 0) /\
  (forall c, monthly_of_annual (c * a) == c * monthly_of_annual a).
Proof. intros a H. split; [intros; apply demand_nonneg, monthly_of_annual_nonneg; exact H | intros; apply monthly_of_annual_linear]. Qed.
Print Assumptions c03_demand_nonneg_linear.

(* the seven shut-off options mean what the documentation says (re-proved against the source on every run) *)
Theorem c03_shutoff_table : table_eqb shutoff_table documented_shutoff = true.
Proof. exact shutoff_table_documented. Qed.
Print Assumptions c03_shutoff_table.

Theorem c03_biofuel_never_outlasts_feed : forall n, (12 <= n)%nat -> forallb (bio_le_feed n) documented_shutoff = true.
Proof. exact months_le_horizon. Qed.
Print Assumptions c03_biofuel_never_outlasts_feed.

(* human-maximising rounds: feed and biofuel drawn from human-edible food are exactly the charge, hence within the
   demand schedule whenever the charge is, and every feed / biofuel variable is zero in a month with zero charge
   (round 1: all months; round 3: from the shut-off month on, given charge <= demand - property C18) *)
Theorem c03_humans_within_demand : forall i a fd bd,
  Feasible i ToHumans a -> has_nonhuman i = true ->
  forall m, (m < NM i)%nat ->
  at_ (feed_charge i) m <= nth m fd 0 -> at_ (biofuel_charge i) m <= nth m bd 0 ->
  feed_sum i a m <= nth m fd 0 /\ biofuel_sum i a m <= nth m bd 0.
Proof. exact humans_within_demand. Qed.
Print Assumptions c03_humans_within_demand.

Theorem c03_humans_zero_charge_zero_use : forall i a,
  Feasible i ToHumans a -> has_nonhuman i = true -> 0 < sw_kcals i ->
  forall m, (m < NM i)%nat -> at_ (feed_charge i) m <= 0 -> at_ (biofuel_charge i) m <= 0 ->
  ((add_sf i = true -> a SF_f m == 0) /\ (add_cr i = true -> a CR_f m == 0) /\ (add_sw i = true -> a SW_f m == 0) /\
   (add_cs i = true -> a CS_f m == 0) /\ (add_scp i = true -> a SCP_f m == 0)) /\
  ((add_sf i = true -> a SF_b m == 0) /\ (add_cr i = true -> a CR_b m == 0) /\ (add_sw i = true -> a SW_b m == 0) /\
   (add_cs i = true -> a CS_b m == 0) /\ (add_scp i = true -> a SCP_b m == 0)).
Proof. exact humans_zero_charge_zero_use. Qed.
Print Assumptions c03_humans_zero_charge_zero_use.

(* feed-maximising round: within the ceiling every month; zero where the ceiling is zero *)
Theorem c03_animals_within_ceiling : forall i a m,
  Feasible i ToAnimals a -> has_nonhuman i = true -> (m < NM i)%nat ->
  feed_sum i a m <= at_ (max_feed i) m /\ biofuel_sum i a m <= at_ (max_biofuel i) m.
Proof. exact animals_ceiling. Qed.
Print Assumptions c03_animals_within_ceiling.

Theorem c03_animals_zero_after_shutoff : forall i a,
  Feasible i ToAnimals a -> has_nonhuman i = true -> 0 < sw_kcals i ->
  forall m, (m < NM i)%nat -> at_ (max_feed i) m <= 0 ->
  (add_sf i = true -> a SF_f m == 0) /\ (add_cr i = true -> a CR_f m == 0) /\ (add_sw i = true -> a SW_f m == 0) /\
  (add_cs i = true -> a CS_f m == 0) /\ (add_scp i = true -> a SCP_f m == 0).
Proof. exact animals_zero_ceiling_zero_use. Qed.
Print Assumptions c03_animals_zero_after_shutoff.

(* feed-maximising round: people keep at least 99.99 % of the pinned minimum of each staple *)
Theorem c03_pins : forall i a m, Feasible i ToAnimals a -> (m < NM i)%nat ->
  (add_cr i = true -> 0 <= at_ (pin_cr i) m -> (9999 # 10000) * at_ (pin_cr i) m <= a CR_h m) /\
  (add_sf i = true -> 0 <= at_ (pin_sf i) m -> (9999 # 10000) * at_ (pin_sf i) m <= a SF_h m) /\
  (add_meat i = true -> 0 <= at_ (pin_meat i) m -> (9999 # 10000) * at_ (pin_meat i) m <= a M_eaten m).
Proof.
  intros i a m F Hm. repeat split; intros.
  - apply animals_pins_crops; assumption.
  - apply animals_pins_stored; assumption.
  - apply animals_pins_meat; assumption.
Qed.
Print Assumptions c03_pins.

(* ---------- the three rounds composed (Proofs/RoundsComp.v) ----------
   The last sentence of the property for rounds 1, 2 and 3 at once, from named facts: the LP invariants (C01), the herd
   feeding conservation (C07), the round glue (clip, x0.999999999, herd run, bump: C05 / C18) and the demand schedule.
   Each linking hypothesis is an equation between an LP input field and the corresponding model function; the property
   whose tie checks that equation on real runs is named in Proofs/RoundsComp.v. *)
Theorem c03_round1 : forall G i1 a1 xf df xb db N,
  glue_ok G N -> 0 <= xf -> 0 <= xb ->
  Feasible i1 ToHumans a1 -> has_nonhuman i1 = true -> 0 < sw_kcals i1 -> NM i1 = N ->
  (forall m, (m < N)%nat -> at_ (feed_charge i1) m == round1_feed_charge G m) ->
  (forall m, (m < N)%nat -> at_ (biofuel_charge i1) m == round1_biofuel_charge m) ->
  c03_clause i1 a1 xf df xb db N /\
  (forall m, (m < N)%nat -> feed_sum i1 a1 m == 0 /\ biofuel_sum i1 a1 m == 0 /\
                            feed_vars_zero i1 a1 m /\ biofuel_vars_zero i1 a1 m).
Proof. exact RoundsComp.c03_round1. Qed.
Print Assumptions c03_round1.

Theorem c03_round2 : forall G i2 a2 xf df xb db N,
  glue_ok G N -> 0 <= xf -> 0 <= xb ->
  Feasible i2 ToAnimals a2 -> has_nonhuman i2 = true -> 0 < sw_kcals i2 -> NM i2 = N ->
  (forall m, (m < N)%nat -> at_ (max_feed i2) m == round2_max_feed G (demand xf df N) m) ->
  (forall m, (m < N)%nat -> at_ (max_biofuel i2) m == round2_max_biofuel (demand xb db N) m) ->
  c03_clause i2 a2 xf df xb db N.
Proof. exact RoundsComp.c03_round2. Qed.
Print Assumptions c03_round2.

Theorem c03_round3 : forall G i2 a2 i3 a3 xf df xb db N,
  glue_ok G N -> 0 <= xf -> 0 <= xb ->
  c03_clause i2 a2 xf df xb db N ->
  Feasible i3 ToHumans a3 -> has_nonhuman i3 = true -> 0 < sw_kcals i3 -> NM i3 = N ->
  let feed2 := tab N (feed_sum i2 a2) in let bio2 := tab N (biofuel_sum i2 a2) in
  (forall m, (m < N)%nat ->
     at_ (feed_charge i3) m == round3_feed_charge G feed2 bio2 (demand xf df N) (demand xb db N) m) ->
  (forall m, (m < N)%nat ->
     at_ (biofuel_charge i3) m == round3_biofuel_charge G feed2 bio2 (demand xf df N) (demand xb db N) m) ->
  c03_clause i3 a3 xf df xb db N.
Proof. exact RoundsComp.c03_round3. Qed.
Print Assumptions c03_round3.

Theorem c03_all_rounds : forall G i1 a1 i2 a2 i3 a3 xf df xb db N,
  0 <= xf -> 0 <= xb -> glue_ok G N ->
  Feasible i1 ToHumans a1 -> Feasible i2 ToAnimals a2 -> Feasible i3 ToHumans a3 ->
  has_nonhuman i1 = true -> has_nonhuman i2 = true -> has_nonhuman i3 = true ->
  0 < sw_kcals i1 -> 0 < sw_kcals i2 -> 0 < sw_kcals i3 ->
  NM i1 = N -> NM i2 = N -> NM i3 = N ->
  (forall m, (m < N)%nat -> at_ (feed_charge i1) m == round1_feed_charge G m) ->
  (forall m, (m < N)%nat -> at_ (biofuel_charge i1) m == round1_biofuel_charge m) ->
  (forall m, (m < N)%nat -> at_ (max_feed i2) m == round2_max_feed G (demand xf df N) m) ->
  (forall m, (m < N)%nat -> at_ (max_biofuel i2) m == round2_max_biofuel (demand xb db N) m) ->
  (forall m, (m < N)%nat -> at_ (feed_charge i3) m ==
     round3_feed_charge G (tab N (feed_sum i2 a2)) (tab N (biofuel_sum i2 a2)) (demand xf df N) (demand xb db N) m) ->
  (forall m, (m < N)%nat -> at_ (biofuel_charge i3) m ==
     round3_biofuel_charge G (tab N (feed_sum i2 a2)) (tab N (biofuel_sum i2 a2)) (demand xf df N) (demand xb db N) m) ->
  c03_clause i1 a1 xf df xb db N /\ c03_clause i2 a2 xf df xb db N /\ c03_clause i3 a3 xf df xb db N.
Proof. exact RoundsComp.c03_all_rounds. Qed.
Print Assumptions c03_all_rounds.

Theorem c03_round3_skip : forall G N feed2 bio2 fd bd m, glue_ok G N -> (m < N)%nat ->
  round2_consts_present (g_tree G) = false -> 0 <= g_const G -> at_ (g_meat3 G) m == at_ (g_meat1 G) m ->
  0 <= at_ fd m -> 0 <= at_ bd m ->
  round3_feed_charge G feed2 bio2 fd bd m == 0 /\ round3_biofuel_charge G feed2 bio2 fd bd m == 0.
Proof. exact RoundsComp.c03_round3_skip. Qed.
Print Assumptions c03_round3_skip.

(* non-vacuity: a three-month schedule with a two-month shut-off *)
Example c03_demand_example : demand 5 2 3 = [5; 5; 0].
Proof. reflexivity. Qed.
