(* C08 - Supply series follow the calendar, the disruption schedule and the delays.
   Statements about Model/Series.v (hand transliteration of the food_system supply classes, tied to /repo by the
   correspondence check of harness/props/c08.py); proofs in Proofs/Series.v.
   Supported horizons: multiples of 12 from 24 to 120 months. *)
From Coq Require Import QArith List Bool Arith Lia String.
From Allfed Require Import Base.QSeries Model.Series Proofs.Series.
Import ListNotations.
Open Scope Q_scope.

(* ---- exactly one value per simulated month *)
Theorem c08_lengths : forall pw c g n,
  List.length (outdoor_production pw c g) = cN c /\
  (forall add a wd wr pct, (n <= List.length pct)%nat -> List.length (fish_series add n a wd wr pct) = n) /\
  (forall d py, (d <= n)%nat -> List.length (demand_series n d py) = n) /\
  (forall b ratios, In n supported_horizons -> List.length (grass_series n b ratios) = n) /\
  (forall add d s nd f w, (n <= 1000)%nat -> List.length (scp_series add n d s nd f w) = n) /\
  (forall add d s nd f w, (n <= 1000)%nat -> List.length (cs_series add n d s nd f w) = n) /\
  (forall add d nf mf, List.length (seaweed_built_area add n d nf mf) = n) /\
  (forall daily, (n <= List.length daily)%nat -> List.length (seaweed_growth n daily) = n).
Proof.
  intros pw c g n. repeat split; intros.
  - apply outdoor_production_length.
  - apply fish_length; assumption.
  - apply demand_length; assumption.
  - apply grass_length; assumption.
  - apply scp_length; assumption.
  - apply cs_length; assumption.
  - apply built_area_length.
  - rewrite seaweed_growth_length. lia.
Qed.
Print Assumptions c08_lengths.

(* ---- outdoor crops: annual baseline (net of seed) x seasonality share of the calendar month (the simulation starts
   in May: month m is calendar month (m + 4) mod 12, January = 0) x 4e6/1e9 x disruption ratio of the model year
   (year 1 = 8 months May-December, years 2-9 = 12 months, year 10 = 16 months) *)
Theorem c08_outdoor_closed_form : forall c m,
  List.length (cseas c) = 12%nat -> List.length (crs c) = 9%nat -> cstart c = 5%nat ->
  (m < cN c)%nat -> (cN c <= 120)%nat ->
  let hbm := match chbm c with Some v => v | None => qsum (firstn 4 (cseas c)) end in   (* harvested before May *)
  let year1 :=            (* May-December of year 1 *)
    if Qle_bool (cr1 c) hbm then 0
    else if Qlt_bool (1 - hbm) (1 # 4) then 1
    else (cr1 c - hbm) / (1 - hbm) in
  nthq (norel_grown c) m ==
  cbase c * (1 - seed_percent / 100) * nthq (cseas c) ((m + 4) mod 12) * 4000000 / 1000000000
  * clamp0 (if (m <? 8)%nat then year1
            else nthq (crs c) ((if (m <? 104)%nat then S ((m - 8) / 12) else 9) - 1)%nat).
Proof.
  intros c m Hl Hr Hs Hm HN. cbv zeta. rewrite (norel_closed_form_doc c m) by (try assumption; lia).
  rewrite Hs. unfold year_of. destruct (m <? 8)%nat; reflexivity.
Qed.
Print Assumptions c08_outdoor_closed_form.

(* the year-1 ratio is the documented function of the annual year-1 ratio and the share harvested before May;
   that share is the January-April seasonality, except for four countries where it is fixed *)
Theorem c08_year1_ratio : forall r1 seas o,
  let hbm := match o with Some v => v | None => qsum (firstn 4 seas) end in
  year1_ratio r1 seas o ==
    (if Qle_bool r1 hbm then 0 else if Qlt_bool (1 - hbm) (1 # 4) then 1 else (r1 - hbm) / (1 - hbm)) /\
  (List.length seas = 12%nat -> o = None -> hbm == nthq seas 0 + nthq seas 1 + nthq seas 2 + nthq seas 3) /\
  0 <= year1_ratio r1 seas o /\
  (0 <= hbm -> hbm <= 1 -> r1 <= 1 -> year1_ratio r1 seas o <= 1) /\
  (0 <= hbm -> hbm < r1 -> 1 # 4 <= 1 - hbm ->
     (r1 <= 1 -> year1_ratio r1 seas o <= r1) /\ (1 <= r1 -> r1 <= year1_ratio r1 seas o)).
Proof.
  intros r1 seas o. cbv zeta. fold (harvest_before_may seas o).
  split; [exact (year1_ratio_doc r1 seas o)|].
  split; [intros Hl ->; apply harvest_before_may_default; exact Hl|].
  split; [apply year1_ratio_nonneg|].
  split.
  - intros H0 H1 Hr. rewrite year1_ratio_doc. apply year1_doc_range; assumption.
  - intros H0 Hr Hf. rewrite year1_ratio_doc. apply year1_doc_vs_annual; assumption.
Qed.
Print Assumptions c08_year1_ratio.

Theorem c08_year1_special_countries :
  country_hbm "ZAF" = Some 1 /\ country_hbm "JPN" = Some 0 /\ country_hbm "PRK" = Some 0 /\ country_hbm "KOR" = Some 0 /\
  country_hbm "ARG" = None /\
  (forall r1 seas, year1_ratio r1 seas (country_hbm "ZAF") == if Qle_bool r1 1 then 0 else 1) /\
  (forall r1 seas code, In code ["JPN"; "PRK"; "KOR"]%string ->
     year1_ratio r1 seas (country_hbm code) == if Qle_bool r1 0 then 0 else r1).
Proof.
  repeat split; try reflexivity.
  - intros. rewrite year1_ratio_doc. apply year1_all_before_may.
  - intros r1 seas code H. rewrite year1_ratio_doc.
    assert (E : country_hbm code = Some 0) by (cbn [In] in H; destruct H as [<-|[<-|[<-|[]]]]; reflexivity).
    rewrite E. apply year1_none_before_may.
Qed.
Print Assumptions c08_year1_special_countries.

(* any starting month: the cycle is the January cycle rotated by start - 1 *)
Theorem c08_calendar_rotation : forall c j, List.length (cseas c) = 12%nat -> (1 <= cstart c <= 12)%nat -> (j < 12)%nat ->
  nthq (months_cycle c) j ==
  nthq (cseas c) ((j + (cstart c - 1)) mod 12) * (cbase c * (1 - seed_percent / 100)) * 4000000 / 1000000000.
Proof. exact months_cycle_nth. Qed.
Print Assumptions c08_calendar_rotation.

(* the year-1 ratio is never negative; the 120-entry table reads year_of m *)
Theorem c08_year_blocks : forall y1 rs m, List.length rs = 9%nat -> (m < 120)%nat ->
  List.length (year_blocks y1 rs) = 120%nat /\ nthq (year_blocks y1 rs) m = nthq (y1 :: rs) (year_of m) /\
  forall r1 seas o, 0 <= year1_ratio r1 seas o.
Proof.
  intros y1 rs m Hl Hm. split; [apply year_blocks_length; exact Hl|].
  split; [apply year_blocks_nth; assumption|apply year1_ratio_nonneg].
Qed.
Print Assumptions c08_year_blocks.

Theorem c08_outdoor_nonneg : forall c, List.length (cseas c) = 12%nat -> (1 <= cstart c <= 12)%nat ->
  all_nonneg (cseas c) -> 0 <= cbase c -> all_nonneg (norel_grown c).
Proof. intros c Hl Hs Hn Hb. apply norel_nonneg. apply months_cycle_nonneg; assumption. Qed.
Print Assumptions c08_outdoor_nonneg.

(* scaling the crop baseline scales the series handed to the optimiser by exactly that factor (any power function) *)
Theorem c08_outdoor_homogeneous : forall pw c g k m,
  List.length (cseas c) = 12%nat -> List.length (crs c) = 9%nat -> (1 <= cstart c <= 12)%nat ->
  (m < cN c)%nat -> (cN c <= 120)%nat ->
  nthq (outdoor_production pw (set_base c (k * cbase c)) g) m == k * nthq (outdoor_production pw c g) m.
Proof. exact production_homogeneous. Qed.
Print Assumptions c08_outdoor_homogeneous.

(* ---- greenhouse crops: one value per month; mean monthly yield per hectare x climate ratio (relocated) x
   (1 + greenhouse gain) x distribution and retail waste x greenhouse area of the month (C09) *)
Theorem c08_greenhouse : forall pw c g, (gadd g = true -> 42 <= cN c)%nat ->
  List.length (greenhouse_kcals pw c g) = cN c /\
  (forall m, gadd g = true -> ~ gfrac g == 0 -> (m < cN c)%nat ->
   nthq (greenhouse_kcals pw c g) m ==
   (1 - cwd c / 100) * (1 - cwr c / 100) * (qsum (months_cycle c) / 12 / total_crop_area g
      * relocated pw (eff_exp c) (nthq (reductions c) m)) * (1 + ggain g / 100) * nthq (greenhouse_area (cN c) g) m).
Proof.
  intros pw c g H. split; [apply greenhouse_kcals_length; exact H|].
  intros m Hg Hf Hm. apply greenhouse_kcals_nth; try assumption. apply H. exact Hg.
Qed.
Print Assumptions c08_greenhouse.

(* ---- fish *)
Theorem c08_fish : forall n a wd wr pct m, (n <= List.length pct)%nat -> (m < n)%nat ->
  nthq (fish_series true n a wd wr pct) m ==
    a * 4000000 / 1000000000 / 12 * ((1 - wd / 100) * (1 - wr / 100)) * (nthq pct m / 100) /\
  forall add k, nthq (fish_series add n (k * a) wd wr pct) m == k * nthq (fish_series add n a wd wr pct) m.
Proof. intros. split; [apply fish_nth; assumption|intros; apply fish_homogeneous; assumption]. Qed.
Print Assumptions c08_fish.

(* ---- feed and biofuel demand: constant for `duration` months, then zero *)
Theorem c08_demand : forall n d py m, (m < n)%nat ->
  nthq (demand_series n d py) m == (if (m <? d)%nat then py / 12 * 4000000 / 1000000000 else 0) /\
  forall k, nthq (demand_series n d (k * py)) m == k * nthq (demand_series n d py) m.
Proof. intros. split; [apply demand_nth; assumption|intros; apply demand_homogeneous; assumption]. Qed.
Print Assumptions c08_demand.

(* ---- grass: baseline x ratio of the model year, blocks of 8, 12, ..., 12, 16 months *)
Theorem c08_grass : forall n b ratios m, In n supported_horizons -> (m < n)%nat ->
  nthq (grass_series n b ratios) m =
    nthq ratios (if (m <? 8)%nat then 0%nat else Nat.min ((m - 8) / 12 + 1) (n / 12 - 1)) * b * 4000 /\
  (forall k, nthq (grass_series n (k * b) ratios) m == k * nthq (grass_series n b ratios) m) /\
  (0 <= b -> all_nonneg ratios -> 0 <= nthq (grass_series n b ratios) m).
Proof.
  intros. split; [apply grass_nth; assumption|].
  split; [intros; apply grass_homogeneous; assumption|intros; apply grass_nonneg; assumption].
Qed.
Print Assumptions c08_grass.

(* ---- methane SCP: what the code does - the start-up delay is applied TWICE *)
Theorem c08_scp_two_delays : forall n d s nd f w m, (n <= 1000)%nat -> (m < n)%nat ->
  nthq (scp_series true n d s nd f w) m ==
  industrial_scale s nd f w (if (m <? 2 * d)%nat then 0 else nthq scp_pct_table (m - 2 * d)).
Proof. exact scp_nth. Qed.
Print Assumptions c08_scp_two_delays.

(* the property's reading ("shifted by the configured start-up delay", once) is false of the code as written *)
Theorem c08_scp_delay_refuted :
  exists n d s nd f w m, (m < n)%nat /\
    ~ nthq (scp_series true n d s nd f w) m == nthq (scp_series_spec true n d s nd f w) m.
Proof. exact scp_single_delay_refuted. Qed.
Print Assumptions c08_scp_delay_refuted.

Theorem c08_scp_ramp : forall n d s nd f w, (n <= 1000)%nat ->
  0 <= s /\ 0 <= nd /\ 0 <= f /\ 0 <= w /\ w <= 100 ->
  (forall i j, (i <= j)%nat -> (j < n)%nat ->
     nthq (scp_series true n d s nd f w) i <= nthq (scp_series true n d s nd f w) j) /\
  (forall m, (m < n)%nat -> 0 <= nthq (scp_series true n d s nd f w) m /\
     nthq (scp_series true n d s nd f w) m <= industrial_scale s nd f w 15) /\
  (forall k m, (m < n)%nat -> nthq (scp_series true n d s nd (k * f) w) m == k * nthq (scp_series true n d s nd f w) m).
Proof.
  intros n d s nd f w Hn Hok. split; [intros; apply scp_monotone; assumption|].
  split; [intros; apply scp_range; assumption|intros; apply scp_homogeneous; assumption].
Qed.
Print Assumptions c08_scp_ramp.

(* ---- cellulosic sugar: one delay, ramp table, plateau *)
Theorem c08_cs : forall n d s nd f w, (n <= 1000)%nat ->
  (forall m, (m < n)%nat -> nthq (cs_series true n d s nd f w) m ==
     industrial_scale s nd f w (if (m <? d)%nat then 0 else nthq cs_pct_table (m - d))) /\
  (0 <= s /\ 0 <= nd /\ 0 <= f /\ 0 <= w /\ w <= 100 ->
   (forall i j, (i <= j)%nat -> (j < n)%nat ->
      nthq (cs_series true n d s nd f w) i <= nthq (cs_series true n d s nd f w) j) /\
   (forall m, (m < n)%nat -> 0 <= nthq (cs_series true n d s nd f w) m /\
      nthq (cs_series true n d s nd f w) m <= industrial_scale s nd f w (95 # 10))) /\
  (forall k m, (m < n)%nat -> nthq (cs_series true n d s nd (k * f) w) m == k * nthq (cs_series true n d s nd f w) m).
Proof.
  intros n d s nd f w Hn. split; [intros; apply cs_nth; assumption|].
  split; [|intros; apply cs_homogeneous; assumption].
  intro Hok. split; [intros; apply cs_monotone; assumption|intros; apply cs_range; assumption].
Qed.
Print Assumptions c08_cs.

(* ---- seaweed farm area: constant during the delay, then linear, capped at the maximum *)
Theorem c08_built_area : forall n d nf mf m, (m < n)%nat ->
  nthq (seaweed_built_area true n d nf mf) m <= seaweed_max_area mf /\
  ((m < d)%nat -> nthq (seaweed_built_area true n d nf mf) m ==
     (if Qlt_bool (seaweed_max_area mf) (seaweed_init_area nf) then seaweed_max_area mf else seaweed_init_area nf)) /\
  ((d <= m)%nat -> nthq (seaweed_built_area true n d nf mf) m ==
     (let x := seaweed_init_area nf + qnat (m - d) * (seaweed_new_area_global * nf) in
      if Qlt_bool (seaweed_max_area mf) x then seaweed_max_area mf else x)).
Proof.
  intros n d nf mf m Hm. split; [apply built_area_capped; exact Hm|].
  split; intro; [apply built_area_before_delay|apply built_area_after_delay]; assumption.
Qed.
Print Assumptions c08_built_area.

(* built area never decreases and never exceeds the maximum, with or without seaweed *)
Theorem c08_built_area_monotone : forall n d nf mf, 0 <= nf ->
  (forall i j, (i <= j)%nat -> (j < n)%nat ->
     nthq (seaweed_built_area true n d nf mf) i <= nthq (seaweed_built_area true n d nf mf) j) /\
  (forall add m, (m < n)%nat -> nthq (seaweed_built_area add n d nf mf) m <= seaweed_max_area mf) /\
  ((n <= 1000)%nat -> forall i j, (i < n)%nat -> (j < n)%nat ->
     nthq (seaweed_built_area false n d nf mf) i == nthq (seaweed_built_area false n d nf mf) j).
Proof.
  intros n d nf mf Hn. split; [intros; apply built_area_monotone; assumption|].
  split; [intros; apply built_area_capped; assumption|].
  intros HN i j Hi Hj. rewrite !built_area_off_nth by assumption. reflexivity.
Qed.
Print Assumptions c08_built_area_monotone.

(* ---- seaweed growth factors: one per simulated month, 100 x (1 + daily/100)^30 of that month's daily rate *)
Theorem c08_growth : forall n daily m, (m < n)%nat -> (m < List.length daily)%nat ->
  nthq (seaweed_growth n daily) m = 100 * Qpower (nthq daily m / 100 + 1) 30.
Proof. exact seaweed_growth_nth. Qed.
Print Assumptions c08_growth.

(* ---- initial stored food: stock at the end of the month before the start (January wraps to December) *)
Theorem c08_stored : forall s start r p w,
  stored_initial s start r p w ==
    (nthq s ((start + 10) mod 12) * p / 100 - list_min s * r) * 4000000 / 1000000000 * (1 - w / 100) /\
  stock_before s 1 = nthq s 11 /\ stock_before s 5 = nthq s 3 /\
  (stored_ok s start r p = true -> 0 <= w -> w <= 100 -> 0 <= stored_initial s start r p w).
Proof.
  intros. split; [apply stored_closed_form|]. split; [reflexivity|]. split; [reflexivity|apply stored_nonneg].
Qed.
Print Assumptions c08_stored.

(* ---- fat and protein series *)
(* outdoor crops: length N; each month = crop fraction x that month's kcals; linear in the fat/protein baseline;
   non-negative *)
Theorem c08_outdoor_fat_protein : forall pw : Q -> Q -> Q,
  (forall x e, 0 <= x -> x <= 1 -> 0 < e -> e <= 1 -> x <= pw x e) ->
  (forall x e, 0 <= x -> x <= 1 -> 0 < e -> e <= 1 -> pw x e <= 1) ->
  forall c g nb,
  List.length (outdoor_nutrient pw c g nb) = cN c /\
  (forall m, (m < cN c)%nat ->
     nthq (outdoor_nutrient pw c g nb) m ==
       (if Qeq_bool (annual_yield c) 0 then 0 else (nb / 1000) / (annual_yield c * 4000000 / 1000000000))
       * nthq (outdoor_production pw c g) m) /\
  (forall k m, (m < cN c)%nat -> nthq (outdoor_nutrient pw c g (k * nb)) m == k * nthq (outdoor_nutrient pw c g nb) m) /\
  (forall m, 0 <= cbase c -> 0 <= nb -> all_nonneg (months_cycle c) -> 0 < eff_exp c /\ eff_exp c <= 1 -> 1 <= carea c ->
     (m < cN c)%nat -> (gadd g = true -> 42 <= cN c)%nat -> 0 <= total_crop_area g -> 0 <= gmult g -> gmult g <= 1 ->
     0 <= cwd c /\ cwd c <= 100 -> 0 <= nthq (outdoor_nutrient pw c g nb) m).
Proof.
  intros pw H1 H2 c g nb. split; [apply outdoor_nutrient_length|].
  split; [intros; rewrite outdoor_nutrient_nth by assumption; unfold og_fraction; rewrite Qred_correct; reflexivity|].
  split; [intros; apply outdoor_nutrient_homogeneous; assumption|].
  intros. apply (outdoor_nutrient_nonneg pw H1); assumption.
Qed.
Print Assumptions c08_outdoor_fat_protein.

Theorem c08_greenhouse_fat_protein : forall pw c g nb rr, (gadd g = true -> 42 <= cN c)%nat ->
  List.length (greenhouse_nutrient pw c g nb rr) = cN c /\
  forall m, (m < cN c)%nat ->
    nthq (greenhouse_nutrient pw c g nb rr) m == rotation_ratio c nb rr * nthq (greenhouse_kcals pw c g) m.
Proof.
  intros. split; [apply greenhouse_nutrient_length; assumption|intros; apply greenhouse_nutrient_nth; assumption].
Qed.
Print Assumptions c08_greenhouse_fat_protein.

(* SCP: kcals x a positive conversion constant; cellulosic sugar: zeros of the same length *)
Theorem c08_industrial_fat_protein : forall conv kcals,
  List.length (scp_nutrient conv kcals) = List.length kcals /\
  (forall m, (m < List.length kcals)%nat -> nthq (scp_nutrient conv kcals) m = nthq kcals m * conv) /\
  0 < scp_fat_conversion /\ 0 < scp_protein_conversion /\
  scp_fat_conversion == 1000000000 / 5350 * (9 # 100) / 1000000 /\
  scp_protein_conversion == 1000000000 / 5350 * (65 # 100) / 1000000 /\
  List.length (cs_nutrient kcals) = List.length kcals /\ (forall m, nthq (cs_nutrient kcals) m == 0).
Proof.
  intros. split; [apply scp_nutrient_length|]. split; [intros; apply scp_nutrient_nth; assumption|].
  destruct scp_conversions_positive as [A B]. split; [exact A|]. split; [exact B|].
  split; [reflexivity|]. split; [vm_compute; reflexivity|]. apply cs_nutrient_zero.
Qed.
Print Assumptions c08_industrial_fat_protein.

(* hence SCP fat/protein inherit monotonicity, non-negativity and homogeneity from the kcal series *)
Theorem c08_scp_fat_protein_homogeneous : forall conv n d s nd f w k m, (n <= 1000)%nat -> (m < n)%nat ->
  nthq (scp_nutrient conv (scp_series true n d s nd (k * f) w)) m ==
  k * nthq (scp_nutrient conv (scp_series true n d s nd f w)) m.
Proof.
  intros conv n d s nd f w k m Hn Hm.
  rewrite !scp_nutrient_nth by (rewrite scp_length by exact Hn; exact Hm).
  rewrite scp_homogeneous by assumption. ring.
Qed.
Print Assumptions c08_scp_fat_protein_homogeneous.

Theorem c08_fish_fat_protein : forall n a wd wr pct m, (n <= List.length pct)%nat -> (m < n)%nat ->
  (forall add, List.length (fish_nutrient_series add n a wd wr pct) = n) /\
  nthq (fish_nutrient_series true n a wd wr pct) m == a / 1000 / 12 * ((1 - wd / 100) * (1 - wr / 100)) * (nthq pct m / 100) /\
  (forall add k, nthq (fish_nutrient_series add n (k * a) wd wr pct) m == k * nthq (fish_nutrient_series add n a wd wr pct) m) /\
  (forall add, 0 <= a -> 0 <= wd -> wd <= 100 -> 0 <= wr -> wr <= 100 -> all_nonneg pct ->
     0 <= nthq (fish_nutrient_series add n a wd wr pct) m /\ 0 <= nthq (fish_series add n a wd wr pct) m).
Proof.
  intros n a wd wr pct m Hl Hm. split; [intro; apply fish_nutrient_length; exact Hl|].
  split; [apply fish_nutrient_nth; assumption|]. split; [intros; apply fish_nutrient_homogeneous; assumption|].
  intros. split; [apply fish_nutrient_nonneg|apply fish_nonneg]; assumption.
Qed.
Print Assumptions c08_fish_fat_protein.

Theorem c08_demand_fat_protein : forall n d t m, (m < n)%nat ->
  ((d <= n)%nat -> List.length (demand_nutrient_series n d t) = n) /\
  nthq (demand_nutrient_series n d t) m == (if (m <? d)%nat then t / 12 / 1000 else 0) /\
  (forall k, nthq (demand_nutrient_series n d (k * t)) m == k * nthq (demand_nutrient_series n d t) m) /\
  (0 <= t -> 0 <= nthq (demand_series n d t) m /\ 0 <= nthq (demand_nutrient_series n d t) m).
Proof.
  intros n d t m Hm. split; [intro; apply demand_nutrient_length; assumption|].
  split; [apply demand_nutrient_nth; exact Hm|]. split; [intro; apply demand_nutrient_homogeneous; exact Hm|].
  intro. apply demand_nonneg; assumption.
Qed.
Print Assumptions c08_demand_fat_protein.

(* ---- non-vacuity *)
Example ex_supported : In 48%nat supported_horizons /\ In 120%nat supported_horizons.
Proof. split; vm_compute; tauto. Qed.

Example ex_scp_values :   (* delay 2: production starts in month 2*2 + 12 = 16, not 14 *)
  nthq (scp_series true 48 2 1 100 1 0) 15 == 0 /\ 0 < nthq (scp_series true 48 2 1 100 1 0) 16 /\
  0 < nthq (scp_series_spec true 48 2 1 100 1 0) 14.
Proof. vm_compute. repeat split; reflexivity || discriminate. Qed.

Example ex_outdoor_hypotheses :
  let c := Build_crop_in 48 5 250 [1#12;1#12;1#12;1#12;1#12;1#12;1#12;1#12;1#12;1#12;1#12;1#12] (1#2)
                         [3#4;1#4;1#4;1#2;1#2;3#4;1;1;1] None false 1 1 8 3 2 10 0 true in
  List.length (cseas c) = 12%nat /\ List.length (crs c) = 9%nat /\ cstart c = 5%nat /\ (cN c <= 120)%nat /\
  0 < nthq (norel_grown c) 20.
Proof. vm_compute. repeat split; try reflexivity; lia. Qed.
