(* C12 - More supply never feeds fewer people; scale does not matter (statements).
   Percent fed of a people-fed round is the optimum of  a Obj 0  over  Feasible i ToHumans a.
   Definitions (scale_in, scale_a, same_side, supply_le, set_supplies, set_charges, set_wastes,
   caps_nonneg) and proofs are in Proofs/LP_C12.v; see the header there for what is and is not covered. *)
From Coq Require Import QArith List.
From Allfed Require Import Model.LP Proofs.LPChar Proofs.LP_C12.
Import ListNotations.
Open Scope Q_scope.

(* ---- scale ---- *)

Theorem c12_scale : forall (c : Q) (i : lp_in) (a : assignment),
  0 < c -> 0 < need i ->
  (Feasible i ToHumans a <-> Feasible (scale_in c i) ToHumans (scale_a ToHumans c a)) /\
  scale_a ToHumans c a Obj 0%nat == a Obj 0%nat.
Proof. exact scale_humans. Qed.
Print Assumptions c12_scale.

(* the attainable values of percent fed (hence its optimum) are the same *)
Theorem c12_scale_value : forall (c : Q) (i : lp_in),
  0 < c -> 0 < need i ->
  forall v, (exists a, Feasible i ToHumans a /\ v <= a Obj 0%nat) <->
            (exists a', Feasible (scale_in c i) ToHumans a' /\ v <= a' Obj 0%nat).
Proof. exact scale_value. Qed.
Print Assumptions c12_scale_value.

(* animals round: the pin tolerance depends on POP < 1e7, and the objective is a quantity *)
Theorem c12_scale_animals : forall (c : Q) (i : lp_in) (a : assignment),
  0 < c -> 0 < need i -> same_side c i ->
  (Feasible i ToAnimals a <-> Feasible (scale_in c i) ToAnimals (scale_a ToAnimals c a)) /\
  scale_a ToAnimals c a Obj 0%nat == c * a Obj 0%nat.
Proof. exact scale_animals. Qed.
Print Assumptions c12_scale_animals.

(* ---- supplies ---- *)

Theorem c12_supply_mono : forall i i' : lp_in,
  admissible i -> caps_nonneg i -> 0 <= sw_max_density i -> supply_le i i' ->
  forall a, Feasible i ToHumans a ->
  exists a', Feasible i' ToHumans a' /\ a Obj 0%nat <= a' Obj 0%nat.
Proof. exact supply_mono. Qed.
Print Assumptions c12_supply_mono.

Theorem c12_supply_mono_value : forall i i' : lp_in,
  admissible i -> caps_nonneg i -> 0 <= sw_max_density i -> supply_le i i' ->
  forall v, (exists a, Feasible i ToHumans a /\ v <= a Obj 0%nat) ->
            (exists a', Feasible i' ToHumans a' /\ v <= a' Obj 0%nat).
Proof. exact supply_mono_value. Qed.
Print Assumptions c12_supply_mono_value.

(* ---- feed and biofuel charges (instances without seaweed) ---- *)

Theorem c12_charge_mono_no_seaweed : forall (i : lp_in) (fc' bc' : list Q),
  admissible i -> caps_nonneg i -> add_sw i = false ->
  (forall m, 0 <= at_ fc' m <= at_ (feed_charge i) m) ->
  (forall m, 0 <= at_ bc' m <= at_ (biofuel_charge i) m) ->
  forall a, Feasible i ToHumans a ->
  exists a', Feasible (set_charges i fc' bc') ToHumans a' /\ a Obj 0%nat <= a' Obj 0%nat.
Proof. exact charge_mono. Qed.
Print Assumptions c12_charge_mono_no_seaweed.

Theorem c12_charge_mono_no_seaweed_value : forall (i : lp_in) (fc' bc' : list Q),
  admissible i -> caps_nonneg i -> add_sw i = false ->
  (forall m, 0 <= at_ fc' m <= at_ (feed_charge i) m) ->
  (forall m, 0 <= at_ bc' m <= at_ (biofuel_charge i) m) ->
  forall v, (exists a, Feasible i ToHumans a /\ v <= a Obj 0%nat) ->
            (exists a', Feasible (set_charges i fc' bc') ToHumans a' /\ v <= a' Obj 0%nat).
Proof. exact charge_mono_value. Qed.
Print Assumptions c12_charge_mono_no_seaweed_value.

(* with seaweed a smaller feed charge can make the programme infeasible *)
Theorem c12_charge_mono_seaweed_refuted :
  exists (i : lp_in) (fc' : list Q),
    admissible i /\ caps_nonneg i /\
    (forall m, 0 <= at_ fc' m <= at_ (feed_charge i) m) /\
    (exists a, Feasible i ToHumans a) /\
    (forall a, ~ Feasible (set_charges i fc' (biofuel_charge i)) ToHumans a).
Proof. exact charge_mono_refuted_seaweed. Qed.
Print Assumptions c12_charge_mono_seaweed_refuted.

(* ---- retail waste (every food except seaweed) ---- *)

Theorem c12_waste_mono_except_seaweed : forall (i : lp_in) (wsf' wcr' wmeat' wscp' wcs' : Q),
  admissible i -> caps_nonneg i ->
  waste_ok wsf' -> wsf' <= w_sf i -> waste_ok wcr' -> wcr' <= w_cr i ->
  waste_ok wmeat' -> wmeat' <= w_meat i -> waste_ok wscp' -> wscp' <= w_scp i ->
  waste_ok wcs' -> wcs' <= w_cs i ->
  forall a, Feasible i ToHumans a ->
  exists a', Feasible (set_wastes i wsf' wcr' wmeat' wscp' wcs') ToHumans a' /\ a Obj 0%nat <= a' Obj 0%nat.
Proof. exact waste_mono. Qed.
Print Assumptions c12_waste_mono_except_seaweed.

Theorem c12_waste_mono_except_seaweed_value : forall (i : lp_in) (wsf' wcr' wmeat' wscp' wcs' : Q),
  admissible i -> caps_nonneg i ->
  waste_ok wsf' -> wsf' <= w_sf i -> waste_ok wcr' -> wcr' <= w_cr i ->
  waste_ok wmeat' -> wmeat' <= w_meat i -> waste_ok wscp' -> wscp' <= w_scp i ->
  waste_ok wcs' -> wcs' <= w_cs i ->
  forall v, (exists a, Feasible i ToHumans a /\ v <= a Obj 0%nat) ->
            (exists a', Feasible (set_wastes i wsf' wcr' wmeat' wscp' wcs') ToHumans a' /\ v <= a' Obj 0%nat).
Proof. exact waste_mono_value. Qed.
Print Assumptions c12_waste_mono_except_seaweed_value.

(* a smaller seaweed retail waste can make the programme infeasible (sw_inst w f differ only in w_sw) *)
Theorem c12_waste_mono_seaweed_refuted :
  exists w w' : Q,
    waste_ok w /\ waste_ok w' /\ w' <= w /\
    admissible (sw_inst w 0) /\ caps_nonneg (sw_inst w 0) /\
    (exists a, Feasible (sw_inst w 0) ToHumans a) /\
    (forall a, ~ Feasible (sw_inst w' 0) ToHumans a).
Proof. exact waste_mono_refuted_seaweed. Qed.
Print Assumptions c12_waste_mono_seaweed_refuted.

(* ---- non-vacuity: the hypotheses hold on a concrete instance with a feasible point ---- *)

Example c12_scale_nonvacuous :
  exists c i a, 0 < c /\ ~ c == 1 /\ 0 < need i /\ Feasible i ToHumans a /\ 0 < a Obj 0%nat.
Proof. exact scale_nonvacuous. Qed.

Example c12_scale_animals_nonvacuous :
  exists c i a, 0 < c /\ ~ c == 1 /\ 0 < need i /\ same_side c i /\ Feasible i ToAnimals a.
Proof. exact scale_animals_nonvacuous. Qed.

Example c12_supply_nonvacuous :
  exists i i' a, admissible i /\ caps_nonneg i /\ 0 <= sw_max_density i /\ supply_le i i' /\
                 sf0 i < sf0 i' /\ at_ (crops_prod i) 1 < at_ (crops_prod i') 1 /\
                 meat_total i < meat_total i' /\ Feasible i ToHumans a.
Proof. exact supply_nonvacuous. Qed.

Example c12_charge_nonvacuous :
  exists i fc' bc' a, admissible i /\ caps_nonneg i /\ add_sw i = false /\
    (forall m, 0 <= at_ fc' m <= at_ (feed_charge i) m) /\
    (forall m, 0 <= at_ bc' m <= at_ (biofuel_charge i) m) /\
    at_ fc' 0 < at_ (feed_charge i) 0 /\ at_ bc' 1 < at_ (biofuel_charge i) 1 /\
    Feasible i ToHumans a.
Proof. exact charge_nonvacuous. Qed.

Example c12_waste_nonvacuous :
  exists i wsf' wcr' wmeat' wscp' wcs' a, admissible i /\ caps_nonneg i /\
    waste_ok wsf' /\ wsf' < w_sf i /\ waste_ok wcr' /\ wcr' < w_cr i /\
    waste_ok wmeat' /\ wmeat' <= w_meat i /\ waste_ok wscp' /\ wscp' <= w_scp i /\
    waste_ok wcs' /\ wcs' <= w_cs i /\ Feasible i ToHumans a.
Proof. exact waste_nonvacuous. Qed.
