(* C05 - Meat and milk offered to the optimiser match the simulated herds and feed.
   Statements only; proofs live in Proofs/MeatDairy.v; the model is Model/MeatDairy.v (tied to
   src/food_system/meat_and_dairy.py, animal_populations.py, src/optimizer/parameters.py and
   src/scenarios/run_scenario.py by the correspondence checks of harness/props/c05.py).

   Reading guide: a herd is the list of animal objects of one CalculateFeedAndMeat instance (type, size, monthly
   slaughter list, monthly population list); [wf n herd] says all those lists have n months (the real code raises
   otherwise); [at_most_one is_chicken], [at_most_one is_pig]: the species tables list each species once (with two
   "chicken" entries the code keeps only the last one - see c05_duplicate_chicken_overwrites). *)
From Coq Require Import QArith List String Bool Lqa Lia.
From Allfed Require Import Base.StrUtil Model.MeatDairy Proofs.MeatDairy.
Import ListNotations.
Open Scope Q_scope.
Open Scope string_scope.

(* per-head yields (billion kcals per head) as initialize_this_country_animal_kcals computes them *)
Theorem c05_yields : forall kg_chicken kg_pig custom,
  let y := init_animal_kcals kg_chicken kg_pig custom in
  KPC y == kg_chicken * 1525 / 1000000000 /\
  KPP y == kg_pig * 3590 / 1000000000 /\
  KPS y == (236 # 100) * 1525 / 1000000000 /\
  KPM y == (246 # 10) * 3590 / 1000000000 /\
  KPL y == (match custom with Some k => k | None => 2697 # 10 end) * 2750 / 1000000000.
Proof.
  intros. unfold y, init_animal_kcals, kg_per_large; simpl.
  unfold SMALL_ANIMAL_KCALS_PER_KG, MEDIUM_ANIMAL_KCALS_PER_KG, LARGE_ANIMAL_KCALS_PER_KG, KG_PER_SMALL_ANIMAL,
    KG_PER_MEDIUM_ANIMAL, KG_PER_LARGE_ANIMAL_DEFAULT, E9.
  repeat split; try (destruct custom); field.
Qed.
Print Assumptions c05_yields.

(* every month: meat offered = (sum over ALL species of heads slaughtered x that species' per-head yield)
   x (1 - distribution waste/100); for every herd, yields, waste, horizon *)
Theorem c05_meat_monthly : forall n y dist herd m,
  herd <> [] -> wf n herd -> at_most_one is_chicken herd -> at_most_one is_pig herd -> (m < n)%nat ->
  nth m (mo_monthly (meat_from_herd y dist herd)) 0 == herd_energy y herd m * (1 - dist / 100).
Proof. exact meat_monthly. Qed.
Print Assumptions c05_meat_monthly.

(* the running total handed to the optimiser is the cumulative sum of the monthly series (any series) *)
Theorem c05_meat_running : forall l m, (m < List.length l)%nat ->
  List.length (running l) = List.length l /\ nth m (running l) 0 == sum_first (S m) l.
Proof. intros l m H. split. apply running_from_length. apply running_nth; exact H. Qed.
Print Assumptions c05_meat_running.

(* meat_summed_consumption = sum of the monthly series = last running value *)
Theorem c05_meat_total : forall n y dist herd,
  herd <> [] -> wf n herd -> at_most_one is_chicken herd -> at_most_one is_pig herd -> (0 < n)%nat ->
  let r := meat_from_herd y dist herd in
  mo_summed r == qsum (mo_monthly r) /\ nth (n - 1) (mo_running r) 0 == mo_summed r.
Proof.
  intros n y dist herd Hne Hw Hc Hp Hn r.
  assert (S := meat_summed_spec n y dist herd Hne Hw Hc Hp).
  assert (L := meat_monthly_length n y dist herd Hne Hw Hc Hp).
  split. exact S.
  unfold r in *. unfold meat_from_herd at 1. cbn [mo_running].
  fold (mo_monthly (meat_from_herd y dist herd)).
  rewrite <- L at 1. rewrite running_last by (rewrite L; exact Hn). symmetry; exact S.
Qed.
Print Assumptions c05_meat_total.

(* linearity for arbitrary class series of a common length (no herd needed) *)
Theorem c05_meat_total_any_series : forall n y dist c, wfc n c -> qsum (each_month_meat y dist c) == meat_summed y dist c.
Proof. intros n y dist c H. exact (meat_summed_is_sum y dist c n H). Qed.
Print Assumptions c05_meat_total_any_series.

(* milk: dairy population (all species whose type contains "milk") x yield, unit conversions, both wastes;
   nothing when ADD_MILK is off *)
Theorem c05_milk : forall n add yield dist retail herd m, herd <> [] -> wf n herd -> (m < n)%nat ->
  nth m (milk_kcals add yield dist retail herd) 0 ==
  if add then sumby a_population milk_bearing herd m * yield / 12 / 1000 * 1000 * 610 / 1000000000
              * (1 - dist / 100) * (1 - retail / 100)
  else 0.
Proof.
  intros n add yield dist retail herd m Hne Hw Hm.
  destruct (dairy_population_spec n herd m Hne Hw) as (L & S).
  rewrite milk_nth by lia. destruct add; [|reflexivity]. rewrite S. reflexivity.
Qed.
Print Assumptions c05_milk.

(* feed-maximising round: ANY re-timing of the monthly series that keeps its sum offers, in total (last running value
   and meat_summed_consumption, which is not re-timed), exactly the herd's total *)
Theorem c05_round2_total : forall n y dist herd retimed,
  herd <> [] -> wf n herd -> at_most_one is_chicken herd -> at_most_one is_pig herd -> (0 < n)%nat ->
  List.length retimed = n ->
  qsum retimed == qsum (mo_monthly (meat_from_herd y dist herd)) ->
  nth (n - 1) (running retimed) 0 == mo_summed (meat_from_herd y dist herd).
Proof.
  intros n y dist herd retimed Hne Hw Hc Hp Hn HL HS.
  rewrite <- HL at 1. rewrite running_last by lia. rewrite HS.
  symmetry. exact (meat_summed_spec n y dist herd Hne Hw Hc Hp).
Qed.
Print Assumptions c05_round2_total.

(* the herds never eat more grass or feed than is available in the month (any priority list, any requirements) *)
Theorem c05_supplies_bound : forall es grass feed, eaters_ok es -> 0 <= grass -> 0 <= feed ->
  month_grass_used es grass feed <= grass /\ month_feed_used es grass feed <= feed /\
  (reqs_nonneg es -> 0 <= month_grass_used es grass feed /\ 0 <= month_feed_used es grass feed).
Proof.
  intros es grass feed Hok Hg Hf. destruct (used_le_available es grass feed Hok Hg Hf) as (A & B).
  split; [exact A|]. split; [exact B|]. intro Hr. exact (used_nonneg es grass feed Hok Hr Hg Hf).
Qed.
Print Assumptions c05_supplies_bound.

(* final round: the feed charged against human-edible food is never less than what the herds ate, month by month,
   for ALL inputs of the top-up (no hypothesis) *)
Theorem c05_feed_charged : forall round1_was_run es grass feed bump,
  month_feed_used es grass feed <= charge_month round1_was_run (month_feed_used es grass feed) bump.
Proof. intros. apply charge_ge_eaten. Qed.
Print Assumptions c05_feed_charged.

(* a month that charges no feed had herds that ate no feed *)
Theorem c05_zero_charge_nothing_eaten : forall round1_was_run es grass feed bump,
  eaters_ok es -> reqs_nonneg es -> 0 <= grass -> 0 <= feed ->
  charge_month round1_was_run (month_feed_used es grass feed) bump == 0 ->
  month_feed_used es grass feed == 0.
Proof.
  intros r1 es grass feed b Hok Hr Hg Hf Hz.
  pose proof (charge_ge_eaten r1 (month_feed_used es grass feed) b).
  destruct (used_nonneg es grass feed Hok Hr Hg Hf). lra.
Qed.
Print Assumptions c05_zero_charge_nothing_eaten.

(* round decision tree: the final round simulates new herds exactly when resources exist, demand is non-zero and
   round 2 was not aborted; those herds are run on the round-2 allocation x 0.999999999 *)
Theorem c05_round_tree : forall t n feed2 m,
  (round3_source t = NewRound3 <->
   any_resource t = true /\ demand_zero t = false /\ round2_aborts t = false) /\
  (round3_source t = NewRound3 -> nth m (herd_feed_round3 t n feed2) 0 == nth m feed2 0 * (999999999 # 1000000000)) /\
  (round3_source t = ReuseRound1 -> nth m (herd_feed_round3 t n feed2) 0 == 0).
Proof.
  intros t n feed2 m. split. apply round3_source_new. split.
  - intro H. unfold herd_feed_round3. rewrite H. apply round3_available_nth.
  - intro H. unfold herd_feed_round3. rewrite H. rewrite zeros_nth. reflexivity.
Qed.
Print Assumptions c05_round_tree.

(* both skip branches (no feed round at all / round 2 aborted): the final round reuses the zero-feed herds of round 1,
   they eat no feed, and no feed is charged - whatever the ceilings handed to the top-up *)
Theorem c05_skip_branch_no_feed : forall t n feed2 m es grass k const meat bump,
  round2_consts_present t = false ->
  eaters_ok es -> 0 <= grass -> 0 < k -> 0 <= const ->
  b_increase bump == increase_of k const meat meat ->      (* meat3 = meat1: same herd object *)
  let avail := nth m (herd_feed_round3 t n feed2) 0 in
  avail == 0 /\ month_feed_used es grass avail == 0 /\
  charge_month (round1_run t) (month_feed_used es grass avail) bump == 0.
Proof.
  intros t n feed2 m es grass k const meat bump Hs Hok Hg Hk Hc Hi avail.
  assert (A : avail = 0) by (apply skip_branch_zero_feed; exact Hs).
  rewrite A. split. reflexivity.
  assert (E := no_feed_none_eaten es grass Hok Hg). split. exact E.
  apply (charge_month_proper _ _ 0); [exact E| |reflexivity].
  rewrite Hi. apply increase_of_same; assumption.
Qed.
Print Assumptions c05_skip_branch_no_feed.

(* odd behaviour of the code as it is: a second "chicken" entry REPLACES the first one (assignment, not addition);
   outside the audited domain because the species tables list each species once *)
Definition two_chickens : list animal :=
  [ {| a_type := "chicken"; a_size := "small"; a_slaughter := [100]; a_population := [0] |};
    {| a_type := "chicken"; a_size := "small"; a_slaughter := [7]; a_population := [0] |} ].
Theorem c05_duplicate_chicken_overwrites :
  wf 1 two_chickens /\
  let y := init_animal_kcals 2 90 None in
  ~ nth 0 (mo_monthly (meat_from_herd y 0 two_chickens)) 0 == herd_energy y two_chickens 0 * (1 - 0 / 100).
Proof.
  split. repeat constructor.
  vm_compute. intro H. discriminate H.
Qed.
Print Assumptions c05_duplicate_chicken_overwrites.

(* ------------------------------------------------------------------ non-vacuity *)
Definition ex_herd : list animal :=
  [ {| a_type := "chicken"; a_size := "small"; a_slaughter := [1000; 2000]; a_population := [5000; 4000] |};
    {| a_type := "milk_cattle"; a_size := "large"; a_slaughter := [10; 20]; a_population := [300; 280] |};
    {| a_type := "pig"; a_size := "medium"; a_slaughter := [50; 0]; a_population := [100; 50] |};
    {| a_type := "meat_goat"; a_size := "medium"; a_slaughter := [8; 8]; a_population := [64; 56] |};
    {| a_type := "milk_goat"; a_size := "medium"; a_slaughter := [1; 1]; a_population := [20; 19] |};
    {| a_type := "rabbit"; a_size := "small"; a_slaughter := [3; 4]; a_population := [12; 8] |} ].

Example ex_herd_hyps : ex_herd <> [] /\ wf 2 ex_herd /\ at_most_one is_chicken ex_herd /\ at_most_one is_pig ex_herd /\
                       lengths_ok ex_herd = true.
Proof.
  split. discriminate. split. repeat constructor. split. vm_compute; lia. split. vm_compute; lia. reflexivity.
Qed.

(* the offered values are not trivially zero: month 1, 12 % distribution waste *)
Example ex_herd_values :
  let r := meat_from_herd (init_animal_kcals (165 # 100) 86 None) 12 ex_herd in
  0 < nth 1 (mo_monthly r) 0 /\ nth 1 (mo_running r) 0 == mo_summed r /\
  0 < nth 1 (milk_kcals true 1000 1 30 ex_herd) 0 /\ nth 1 (milk_kcals false 1000 1 30 ex_herd) 0 == 0 /\
  sumby a_population milk_bearing ex_herd 1 == 299.
Proof. vm_compute. repeat split; discriminate. Qed.

(* feeding: hypotheses satisfiable, herds do eat, and the top-up can raise the charge strictly above what was eaten *)
Definition ex_eaters : list eater :=
  [ {| e_req := 30; e_ruminant := true; e_eg := 6 # 10; e_ef := 8 # 10 |};
    {| e_req := 16; e_ruminant := false; e_eg := 6 # 10; e_ef := 8 # 10 |} ].
Example ex_feed :
  eaters_ok ex_eaters /\ reqs_nonneg ex_eaters /\
  month_grass_used ex_eaters 40 100 == 40 /\ month_feed_used ex_eaters 40 100 == (55 # 2) /\
  month_feed_used ex_eaters 40 100 <
    charge_month true (month_feed_used ex_eaters 40 100)
      {| b_biofuel := 0; b_increase := 5; b_max_biofuel := 0; b_max_feed := 100; b_total_crops := 1000 |}.
Proof.
  split. repeat constructor. split. repeat constructor; discriminate.
  vm_compute. repeat split; try discriminate.
Qed.

Example ex_tree :
  round3_source {| any_resource := true; demand_zero := false; round2_aborts := false |} = NewRound3 /\
  round3_source {| any_resource := true; demand_zero := false; round2_aborts := true |} = ReuseRound1 /\
  round3_source {| any_resource := true; demand_zero := true; round2_aborts := false |} = ReuseRound1 /\
  round3_source {| any_resource := false; demand_zero := false; round2_aborts := false |} = ReuseRound1.
Proof. repeat split. Qed.
