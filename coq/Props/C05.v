(* C05 - statements (preliminary) *)
From Coq Require Import QArith List String Bool.
From Allfed Require Import Base.StrUtil Model.MeatDairy Proofs.MeatDairy.
Import ListNotations.
Open Scope Q_scope.

Theorem c05_running_length : forall l, List.length (running l) = List.length l.
Proof. intro l. exact (running_from_length 0 l). Qed.
Print Assumptions c05_running_length.
