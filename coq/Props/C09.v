(* C09 - Cropland neither double-counted nor lost.
   Statements about Model/Series.v (transliteration of outdoor_crops.py / greenhouses.py as they are after
   fix: 92d5ee9 and 28cb69e); proofs in Proofs/Series.v.  The non-integer power x ** e of crop relocation is an
   arbitrary function pw with the two order hypotheses written out in each statement. *)
From Coq Require Import QArith List Bool Arith Lia.
From Allfed Require Import Base.QSeries Model.Series Proofs.Series.
Import ListNotations.
Open Scope Q_scope.

(* one value per month *)
Theorem c09_lengths : forall pw c g, (gadd g = true -> 42 <= cN c)%nat ->
  List.length (outdoor_production pw c g) = cN c /\
  List.length (greenhouse_area (cN c) g) = cN c /\
  List.length (greenhouse_fraction (cN c) g) = cN c.
Proof.
  intros pw c g H. repeat split;
  [apply outdoor_production_length|apply greenhouse_area_length; exact H|apply greenhouse_fraction_length; exact H].
Qed.
Print Assumptions c09_lengths.

(* greenhouse area: zero until delay + 5 months, then the 37-point ramp, then the plateau *)
Theorem c09_area_closed_form : forall n g m, (gadd g = true -> 42 <= n)%nat -> (m < n)%nat ->
  nthq (greenhouse_area n g) m ==
  (if Qeq_bool (total_crop_area g) 0 then 0
   else if gadd g then
     let limit := total_crop_area g * gmult g in
     if (m <? gdelay g + 5)%nat then 0
     else if (m <? gdelay g + 42)%nat then limit * qnat (m - (gdelay g + 5)) / 36
     else limit
   else 0).
Proof. intros n g m H Hm. rewrite (greenhouse_area_nth n g m H Hm). reflexivity. Qed.
Print Assumptions c09_area_closed_form.

Theorem c09_area_zero_until_delay : forall n g m, (gadd g = true -> 42 <= n)%nat -> (m < n)%nat ->
  (m < gdelay g + 5)%nat -> nthq (greenhouse_area n g) m == 0.
Proof. intros n g m H Hm Hd. rewrite (greenhouse_area_nth n g m H Hm). apply area_spec_zero_before. exact Hd. Qed.
Print Assumptions c09_area_zero_until_delay.

(* rises monotonically to at most its configured share of cropland *)
Theorem c09_area_monotone_capped : forall n g, (gadd g = true -> 42 <= n)%nat -> 0 <= total_crop_area g * gmult g ->
  (forall i j, (i <= j)%nat -> (j < n)%nat -> nthq (greenhouse_area n g) i <= nthq (greenhouse_area n g) j) /\
  (forall m, (m < n)%nat -> 0 <= nthq (greenhouse_area n g) m /\
                            nthq (greenhouse_area n g) m <= total_crop_area g * gh_mult g).
Proof.
  intros n g H Hl. split.
  - intros i j Hij Hj. rewrite (greenhouse_area_nth n g i H) by lia. rewrite (greenhouse_area_nth n g j H Hj).
    apply area_spec_mono; assumption.
  - intros m Hm. rewrite (greenhouse_area_nth n g m H Hm). apply area_spec_bounds. exact Hl.
Qed.
Print Assumptions c09_area_monotone_capped.

(* the fraction of cropland under greenhouses is area / cropland and lies in [0,1] when the share is *)
Theorem c09_fraction : forall n g m, (gadd g = true -> 42 <= n)%nat -> (m < n)%nat ->
  nthq (greenhouse_fraction n g) m ==
    (if Qeq_bool (total_crop_area g) 0 then 0 else nthq (greenhouse_area n g) m / total_crop_area g) /\
  (0 <= total_crop_area g -> 0 <= gmult g -> gmult g <= 1 ->
   0 <= nthq (greenhouse_fraction n g) m /\ nthq (greenhouse_fraction n g) m <= 1).
Proof.
  intros n g m H Hm. split.
  - rewrite (greenhouse_fraction_nth n g m H Hm). unfold frac_spec.
    destruct (Qeq_bool (total_crop_area g) 0); [reflexivity|].
    rewrite (greenhouse_area_nth n g m H Hm). reflexivity.
  - intros. rewrite (greenhouse_fraction_nth n g m H Hm). apply frac_spec_range; assumption.
Qed.
Print Assumptions c09_fraction.

(* net output = amount grown x (1 - greenhouse fraction) x (1 - distribution waste): an exact identity over the
   rationals, i.e. no rounding or truncation is applied (both relocation branches) *)
Theorem c09_net_output : forall pw c g m, cadd c = true -> (m < cN c)%nat ->
  nthq (outdoor_production pw c g) m ==
  (if crot c && (chd c + crotdelay c <=? m)%nat then nthq (grown pw c) m else nthq (norel_grown c) m)
  * (1 - nthq (greenhouse_fraction (cN c) g) m) * (1 - cwd c / 100).
Proof. intros pw c g m Ha Hm. exact (outdoor_production_nth pw c g m Ha Hm). Qed.
Print Assumptions c09_net_output.

Theorem c09_no_crops_when_switched_off : forall pw c g m, cadd c = false -> nthq (outdoor_production pw c g) m == 0.
Proof. exact outdoor_production_off. Qed.
Print Assumptions c09_no_crops_when_switched_off.

(* switching to relocated crops never lowers any month's output *)
Theorem c09_relocation_never_lowers : forall pw : Q -> Q -> Q,
  (forall x e, 0 <= x -> x <= 1 -> 0 < e -> e <= 1 -> x <= pw x e) ->
  (forall x e, 0 <= x -> x <= 1 -> 0 < e -> e <= 1 -> pw x e <= 1) ->
  forall c g m,
  all_nonneg (months_cycle c) -> 0 < cexp c -> cexp c <= 1 -> 1 <= carea c -> cadd c = true -> (m < cN c)%nat ->
  (gadd g = true -> 42 <= cN c)%nat -> 0 <= total_crop_area g -> 0 <= gmult g -> gmult g <= 1 ->
  0 <= cwd c /\ cwd c <= 100 ->
  nthq (outdoor_production pw (set_rot c false) g) m <= nthq (outdoor_production pw (set_rot c true) g) m.
Proof. intros pw H1 H2 c g m. apply relocation_never_lowers; assumption. Qed.
Print Assumptions c09_relocation_never_lowers.

(* expanding cropland never lowers any month's output *)
Theorem c09_expansion_never_lowers : forall pw : Q -> Q -> Q,
  (forall x e, 0 <= x -> x <= 1 -> 0 < e -> e <= 1 -> x <= pw x e) ->
  (forall x e, 0 <= x -> x <= 1 -> 0 < e -> e <= 1 -> pw x e <= 1) ->
  forall c g m,
  all_nonneg (months_cycle c) -> 0 < eff_exp c /\ eff_exp c <= 1 -> 1 <= carea c -> cadd c = true -> (m < cN c)%nat ->
  (gadd g = true -> 42 <= cN c)%nat -> 0 <= total_crop_area g -> 0 <= gmult g -> gmult g <= 1 ->
  0 <= cwd c /\ cwd c <= 100 ->
  nthq (outdoor_production pw (set_area c 1) g) m <= nthq (outdoor_production pw c g) m.
Proof. intros pw H1 H2 c g m. apply expansion_never_lowers; assumption. Qed.
Print Assumptions c09_expansion_never_lowers.

(* the hypothesis on the monthly cycle follows from non-negative inputs *)
Theorem c09_cycle_nonneg : forall c, List.length (cseas c) = 12%nat -> (1 <= cstart c <= 12)%nat ->
  all_nonneg (cseas c) -> 0 <= cbase c -> all_nonneg (months_cycle c).
Proof. exact months_cycle_nonneg. Qed.
Print Assumptions c09_cycle_nonneg.

(* ---- non-vacuity: a small country (monthly crops below one billion kcal), greenhouses and relocation on *)
Definition ex_crop : crop_in :=
  Build_crop_in 48 5 250 [1#12;1#12;1#12;1#12;1#12;1#12;1#12;1#12;1#12;1#12;1#12;1#12] (1#2)
                [3#4;1#4;1#4;1#2;1#2;3#4;1;1;1] None true (4#5) (72#39) 8 3 2 10 0 true.
Definition ex_gh : gh_in := Build_gh_in true 2 (19#143) 44 1430000000 (1#1000).
Definition ex_pw : Q -> Q -> Q := fun x _ => x.   (* satisfies both hypotheses *)

Example ex_pw_ok : (forall x e, 0 <= x -> x <= 1 -> 0 < e -> e <= 1 -> x <= ex_pw x e) /\
                   (forall x e, 0 <= x -> x <= 1 -> 0 < e -> e <= 1 -> ex_pw x e <= 1).
Proof. split; intros; unfold ex_pw; assumption || apply Qle_refl. Qed.

Example ex_admissible : crops_ok ex_pw ex_crop ex_gh = true.
Proof. vm_compute. reflexivity. Qed.

(* month 30: below one billion kcal, not an integer, and strictly reduced by the greenhouse fraction *)
Example ex_not_quantised :
  let x := nthq (outdoor_production ex_pw ex_crop ex_gh) 30 in
  0 < x /\ x < 1 /\ 0 < nthq (greenhouse_fraction 48 ex_gh) 30 /\
  x < nthq (grown ex_pw ex_crop) 30 * (1 - cwd ex_crop / 100).
Proof. vm_compute. repeat split; reflexivity. Qed.

Example ex_area_hypotheses : (gadd ex_gh = true -> 42 <= cN ex_crop)%nat /\ 0 <= total_crop_area ex_gh * gmult ex_gh.
Proof. split; [intros _; vm_compute; lia|vm_compute; discriminate]. Qed.
