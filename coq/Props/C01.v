(* C01 - Reported allocations never use food that does not exist.
   Statements only; proofs are in Proofs/LP_C01.v (over the row-by-row model Model/LP.v of the linear
   programme built by src/optimizer/optimizer.py; interface lemmas in Proofs/LPChar.v).
   All theorems hold for an arbitrary input record i, arbitrary horizon NM i, either optimisation type
   (unless fixed) and ANY assignment a with `Feasible i ty a` - hence for whatever vertex the solver
   returns; the `_second_stage` versions restate them for `Feasible2 i ty v a` (first-solve rows plus
   the 0.99995*v floor carried into the tie-breaking solves), whose values are the reported ones.
   "use" of a food in month k = people's share grossed up for retail waste + feed + biofuel:
     sf_use i a k = gross (w_sf i) * a SF_h k + a SF_f k + a SF_b k,  etc.;
   csum f m = f 0 + ... + f m. *)
From Coq Require Import QArith List Bool Arith.
From Allfed Require Import Model.LP Model.LPBool Proofs.LPChar Proofs.LPBoolSound Proofs.LP_C01.
From Allfed Require Import Gen.UnitTables Model.Units Model.Report Proofs.Units Proofs.Report Proofs.ReportedLedger.
Import ListNotations.
Open Scope Q_scope.

(* ---------- no quantity is negative ---------- *)
Theorem c01_nonneg : forall i ty a, Feasible i ty a -> forall s m, 0 <= a s m.
Proof. exact lpc01_nonneg. Qed.
Print Assumptions c01_nonneg.

(* ... including the grossed-up uses (needs 0 <= waste < 100) *)
Theorem c01_use_nonneg : forall i ty a, Feasible i ty a -> admissible i -> forall m,
  0 <= sf_use i a m /\ 0 <= cr_use i a m /\ 0 <= meat_use i a m /\
  0 <= scp_use i a m /\ 0 <= cs_use i a m /\ 0 <= sw_use i a m.
Proof. exact lpc01_use_nonneg. Qed.
Print Assumptions c01_use_nonneg.

(* ---------- stored food: cumulative use never exceeds the initial stock (both regimes) ---------- *)
Theorem c01_stored : forall i ty a, Feasible i ty a -> add_sf i = true ->
  forall m, (m < NM i)%nat -> csum (sf_use i a) m <= sf0 i.
Proof. exact lpc01_stored. Qed.
Print Assumptions c01_stored.

(* storage regime: the end-of-month stock IS the initial stock minus cumulative use *)
Theorem c01_stored_ledger : forall i ty a, Feasible i ty a -> add_sf i = true -> store_years i = true ->
  forall m, (m < NM i)%nat -> a SF_end m == sf0 i - csum (sf_use i a) m.
Proof. exact sf_ledger_store. Qed.
Print Assumptions c01_stored_ledger.

(* first-year-only regime: nothing is drawn after month 12 *)
Theorem c01_stored_after_first_year : forall i ty a, Feasible i ty a ->
  add_sf i = true -> store_years i = false ->
  forall m, (12 < m)%nat -> (m < NM i)%nat -> a SF_h m == 0 /\ a SF_f m == 0 /\ a SF_b m == 0.
Proof. exact lpc01_stored_after_first_year. Qed.
Print Assumptions c01_stored_after_first_year.

(* ---------- outdoor crops ---------- *)
Theorem c01_crops : forall i ty a, Feasible i ty a -> add_cr i = true ->
  forall m, (m < NM i)%nat ->
  a CR_consumed m == gross (w_cr i) * a CR_h m + a CR_f m + a CR_b m /\
  csum (a CR_consumed) m <= csum (at_ (crops_prod i)) m /\
  csum (cr_use i a) m <= csum (at_ (crops_prod i)) m.
Proof.
  intros i ty a F Hb m Hm. split; [|split].
  - exact (lpc01_crops_consumed i ty a F Hb m Hm).
  - exact (lpc01_crops i ty a F Hb m Hm).
  - exact (lpc01_crops_use i ty a F Hb m Hm).
Qed.
Print Assumptions c01_crops.

(* ---------- meat ---------- *)
(* storage regime: cumulative (grossed-up) meat eaten within the running ceiling and the total *)
Theorem c01_meat_store : forall i ty a, Feasible i ty a -> add_meat i = true -> store_years i = true ->
  forall m, (m < NM i)%nat ->
  csum (meat_use i a) m <= at_ (meat_running i) m /\ csum (meat_use i a) m <= meat_total i.
Proof. exact lpc01_meat_store. Qed.
Print Assumptions c01_meat_store.

(* no-storage regime: each month within that month's slaughter *)
Theorem c01_meat_nostore : forall i ty a, Feasible i ty a -> add_meat i = true -> store_years i = false ->
  forall m, (m < NM i)%nat -> gross (w_meat i) * a M_eaten m <= at_ (meat_monthly i) m.
Proof. exact lpc01_meat_nostore. Qed.
Print Assumptions c01_meat_nostore.

(* "never exceeds what has been slaughtered so far": explicit hypothesis that, in the storage regime,
   the running ceiling handed to the optimiser is at most the running sum of monthly slaughter *)
Theorem c01_meat_slaughtered : forall i ty a, Feasible i ty a -> add_meat i = true ->
  (store_years i = true -> forall m, (m < NM i)%nat ->
     at_ (meat_running i) m <= csum (at_ (meat_monthly i)) m) ->
  forall m, (m < NM i)%nat -> csum (meat_use i a) m <= csum (at_ (meat_monthly i)) m.
Proof. exact lpc01_meat_slaughtered. Qed.
Print Assumptions c01_meat_slaughtered.

(* ---------- single-cell protein, cellulosic sugar: monthly use within monthly output ---------- *)
Theorem c01_scp : forall i ty a, Feasible i ty a -> add_scp i = true ->
  forall m, (m < NM i)%nat ->
  gross (w_scp i) * a SCP_h m + a SCP_f m + a SCP_b m <= at_ (scp_prod i) m.
Proof. exact lpc01_scp. Qed.
Print Assumptions c01_scp.

Theorem c01_cs : forall i ty a, Feasible i ty a -> add_cs i = true ->
  forall m, (m < NM i)%nat ->
  gross (w_cs i) * a CS_h m + a CS_f m + a CS_b m <= at_ (cs_prod i) m.
Proof. exact lpc01_cs. Qed.
Print Assumptions c01_cs.

(* ---------- seaweed ---------- *)
Theorem c01_seaweed : forall i ty a, Feasible i ty a -> add_sw i = true ->
  forall m, (m < NM i)%nat ->
  (* bounds *)
  (sw_init i <= a SW_wet m /\ a SW_wet m <= sw_max_density i * at_ (built_area i) m /\
   sw_init_area i <= a SW_area m /\ a SW_area m <= at_ (built_area i) m) /\
  (* month 0 *)
  (m = O -> a SW_wet 0%nat == sw_init i /\ a SW_area 0%nat == sw_init_area i /\
            a SW_h 0%nat == 0 /\ a SW_f 0%nat == 0 /\ a SW_b 0%nat == 0) /\
  (* growth-and-harvest ledger *)
  (forall p, m = S p ->
     a SW_wet (S p) ==
     a SW_wet p * (1 + at_ (growth i) (S p) / 100)
     - (gross (w_sw i) * a SW_h (S p) + a SW_f (S p) + a SW_b (S p))
     - (a SW_area (S p) - a SW_area p) * sw_min_density i * (sw_harvest_loss i / 100)).
Proof.
  intros i ty a F Hb m Hm. split; [|split].
  - exact (lpc01_seaweed_bounds i ty a F Hb m Hm).
  - intros ->. exact (lpc01_seaweed_month0 i ty a F Hb Hm).
  - intros p ->. exact (lpc01_seaweed_ledger i ty a F Hb p Hm).
Qed.
Print Assumptions c01_seaweed.

(* ---------- rounds that maximise people fed: full use and charge equalities ---------- *)
Theorem c01_humans_full_use : forall i a, Feasible i ToHumans a -> (2 <= NM i)%nat ->
  (add_cr i = true ->
     a CR_storage (NM i - 1)%nat == 0 /\
     csum (cr_use i a) (NM i - 1)%nat == csum (at_ (crops_prod i)) (NM i - 1)%nat) /\
  (add_sf i = true -> store_years i = true ->
     a SF_end (NM i - 1)%nat == 0 /\ csum (sf_use i a) (NM i - 1)%nat == sf0 i).
Proof.
  intros i a F N2. split.
  - intros Hb. split; [exact (lpc01_humans_crops_none_left i a F N2 Hb)
                      | exact (lpc01_humans_crops_full_use i a F N2 Hb)].
  - intros Hb R. split; [exact (lpc01_humans_stored_none_left i a F N2 Hb R)
                        | exact (lpc01_humans_stored_full_use i a F N2 Hb R)].
Qed.
Print Assumptions c01_humans_full_use.

(* the first-year-only regime does NOT force the stock to be emptied (the row is commented out in the
   source): a feasible people-fed point of a two-month instance that never touches its stock *)
Theorem c01_first_year_regime_stock_left_unused :
  exists i a, admissible i /\ add_sf i = true /\ store_years i = false /\ (2 <= NM i)%nat /\
              Feasible i ToHumans a /\ csum (sf_use i a) (NM i - 1)%nat < sf0 i.
Proof. exact lpc01_first_year_regime_stock_left_unused. Qed.
Print Assumptions c01_first_year_regime_stock_left_unused.

Theorem c01_humans_charges : forall i a, Feasible i ToHumans a -> has_nonhuman i = true ->
  forall m, (m < NM i)%nat ->
  feed_sum i a m == at_ (feed_charge i) m /\ biofuel_sum i a m == at_ (biofuel_charge i) m.
Proof. exact lpc01_humans_charges. Qed.
Print Assumptions c01_humans_charges.

(* ---------- the feed-maximising round: ceilings and monotone decrease ---------- *)
Theorem c01_animals : forall i a, Feasible i ToAnimals a -> has_nonhuman i = true ->
  forall m, (m < NM i)%nat ->
  feed_sum i a m <= at_ (max_feed i) m /\ biofuel_sum i a m <= at_ (max_biofuel i) m /\
  (forall k, (k <= m)%nat -> feed_sum i a m <= feed_sum i a k /\ biofuel_sum i a m <= biofuel_sum i a k).
Proof.
  intros i a F Hb m Hm. destruct (lpc01_animals_ceiling i a F Hb m Hm) as [H1 H2].
  split; [exact H1 | split; [exact H2 |]].
  intros k Hk. exact (lpc01_animals_monotone i a F Hb k m Hk Hm).
Qed.
Print Assumptions c01_animals.

(* no feed/biofuel variable at all (the code's guard): both sums are zero *)
Theorem c01_no_nonhuman : forall i a m, has_nonhuman i = false -> feed_sum i a m == 0 /\ biofuel_sum i a m == 0.
Proof. exact lpc01_no_nonhuman. Qed.
Print Assumptions c01_no_nonhuman.

(* ---------- the values left by the tie-breaking solves ---------- *)
Theorem c01_second_stage : forall i ty v a, Feasible2 i ty v a -> Feasible i ty a.
Proof. exact Feasible2_Feasible. Qed.
Print Assumptions c01_second_stage.

Theorem c01_stored_second_stage : forall i ty v a, Feasible2 i ty v a -> add_sf i = true ->
  forall m, (m < NM i)%nat -> csum (sf_use i a) m <= sf0 i.
Proof. intros i ty v a [F _]. exact (lpc01_stored i ty a F). Qed.
Print Assumptions c01_stored_second_stage.

Theorem c01_crops_second_stage : forall i ty v a, Feasible2 i ty v a -> add_cr i = true ->
  forall m, (m < NM i)%nat ->
  a CR_consumed m == gross (w_cr i) * a CR_h m + a CR_f m + a CR_b m /\
  csum (a CR_consumed) m <= csum (at_ (crops_prod i)) m /\
  csum (cr_use i a) m <= csum (at_ (crops_prod i)) m.
Proof. intros i ty v a [F _]. exact (c01_crops i ty a F). Qed.
Print Assumptions c01_crops_second_stage.

Theorem c01_meat_second_stage : forall i ty v a, Feasible2 i ty v a -> add_meat i = true ->
  (store_years i = true -> forall m, (m < NM i)%nat ->
     csum (meat_use i a) m <= at_ (meat_running i) m /\ csum (meat_use i a) m <= meat_total i) /\
  (store_years i = false -> forall m, (m < NM i)%nat ->
     gross (w_meat i) * a M_eaten m <= at_ (meat_monthly i) m).
Proof.
  intros i ty v a [F _] Hb. split; intros R.
  - exact (lpc01_meat_store i ty a F Hb R).
  - exact (lpc01_meat_nostore i ty a F Hb R).
Qed.
Print Assumptions c01_meat_second_stage.

Theorem c01_scp_cs_second_stage : forall i ty v a, Feasible2 i ty v a ->
  (add_scp i = true -> forall m, (m < NM i)%nat ->
     gross (w_scp i) * a SCP_h m + a SCP_f m + a SCP_b m <= at_ (scp_prod i) m) /\
  (add_cs i = true -> forall m, (m < NM i)%nat ->
     gross (w_cs i) * a CS_h m + a CS_f m + a CS_b m <= at_ (cs_prod i) m).
Proof.
  intros i ty v a [F _]. split; intros Hb.
  - exact (lpc01_scp i ty a F Hb).
  - exact (lpc01_cs i ty a F Hb).
Qed.
Print Assumptions c01_scp_cs_second_stage.

Theorem c01_seaweed_second_stage : forall i ty v a, Feasible2 i ty v a -> add_sw i = true ->
  forall m, (m < NM i)%nat ->
  (sw_init i <= a SW_wet m /\ a SW_wet m <= sw_max_density i * at_ (built_area i) m /\
   sw_init_area i <= a SW_area m /\ a SW_area m <= at_ (built_area i) m) /\
  (m = O -> a SW_wet 0%nat == sw_init i /\ a SW_area 0%nat == sw_init_area i /\
            a SW_h 0%nat == 0 /\ a SW_f 0%nat == 0 /\ a SW_b 0%nat == 0) /\
  (forall p, m = S p ->
     a SW_wet (S p) ==
     a SW_wet p * (1 + at_ (growth i) (S p) / 100)
     - (gross (w_sw i) * a SW_h (S p) + a SW_f (S p) + a SW_b (S p))
     - (a SW_area (S p) - a SW_area p) * sw_min_density i * (sw_harvest_loss i / 100)).
Proof. intros i ty v a [F _]. exact (c01_seaweed i ty a F). Qed.
Print Assumptions c01_seaweed_second_stage.

Theorem c01_humans_second_stage : forall i v a, Feasible2 i ToHumans v a ->
  ((2 <= NM i)%nat ->
   (add_cr i = true ->
      a CR_storage (NM i - 1)%nat == 0 /\
      csum (cr_use i a) (NM i - 1)%nat == csum (at_ (crops_prod i)) (NM i - 1)%nat) /\
   (add_sf i = true -> store_years i = true ->
      a SF_end (NM i - 1)%nat == 0 /\ csum (sf_use i a) (NM i - 1)%nat == sf0 i)) /\
  (has_nonhuman i = true -> forall m, (m < NM i)%nat ->
     feed_sum i a m == at_ (feed_charge i) m /\ biofuel_sum i a m == at_ (biofuel_charge i) m).
Proof.
  intros i v a [F _]. split.
  - exact (c01_humans_full_use i a F).
  - exact (c01_humans_charges i a F).
Qed.
Print Assumptions c01_humans_second_stage.

Theorem c01_animals_second_stage : forall i v a, Feasible2 i ToAnimals v a -> has_nonhuman i = true ->
  forall m, (m < NM i)%nat ->
  feed_sum i a m <= at_ (max_feed i) m /\ biofuel_sum i a m <= at_ (max_biofuel i) m /\
  (forall k, (k <= m)%nat -> feed_sum i a m <= feed_sum i a k /\ biofuel_sum i a m <= biofuel_sum i a k).
Proof. intros i v a [F _]. exact (c01_animals i a F). Qed.
Print Assumptions c01_animals_second_stage.

(* ---------- within solver tolerance ---------- *)
(* if every variable is >= -eps and every row of the programme holds within eps (sat_eps), the
   stored-food bound degrades by at most (2m+3)*eps  [storage regime] *)
Theorem c01_robust_stored : forall eps i ty a, Feasible_eps eps i ty a ->
  add_sf i = true -> store_years i = true ->
  forall m, (m < NM i)%nat -> csum (sf_use i a) m <= sf0 i + (2 * nq m + 3) * eps.
Proof. exact lpc01_robust_stored. Qed.
Print Assumptions c01_robust_stored.

Theorem c01_robust_exact : forall i ty a, Feasible_eps 0 i ty a <-> Feasible i ty a.
Proof. exact Feasible_eps_0. Qed.
Print Assumptions c01_robust_exact.

(* ================================================================== *)
(* the same clauses on the REPORTED numbers                            *)
(* ================================================================== *)
(* Composition with the Extractor / Interpreter model (Model/Report.v, tied to the code by the C04 correspondence):
   `report (report_in i c a) = Ok (e, ii)` is what the interpreter returns for the allocation a of the LP built from i,
   with c the nutrition settings (lp_settings_ok: positive settings, KCALS_MONTHLY and BILLION_KCALS_NEEDED are the
   ones of c).  Reported unit: kcals per person per day - the saved columns k_* of ii (people's share; outdoor crops =
   immediate + new stored column) and the per-source feed / biofuel series rf_* / rb_* that the interpreter sums into
   feed_sum_kcals_equivalent / biofuels_sum_kcals_equivalent.  K = m_ke_bk c is the factor of
   in_units_bil_kcals_thou_tons_thou_tons_per_month (== 30 * population / 1e9) back to billion kcals per month.
   rep_X_use = gross(waste) * people's share + feed + biofuel, in the reported unit. *)

Theorem c01_reported_factor : forall c, positive_settings c ->
  m_ke_bk c == 30 * population c / 1000000000 /\ 0 < m_ke_bk c.
Proof. intros c P. split; [exact (m_ke_bk_formula c P)|exact (m_ke_bk_pos c P)]. Qed.
Print Assumptions c01_reported_factor.

(* every reported use, converted back, IS the ledger use of the theorems above *)
Theorem c01_reported_is_ledger_use : forall i c a e ii, lp_settings_ok i c -> report (report_in i c a) = Ok (e, ii) ->
  forall m, (m < NM i)%nat ->
  (add_sf i = true -> m_ke_bk c * rep_sf_use i c a ii m == sf_use i a m) /\
  (add_cr i = true -> m_ke_bk c * rep_cr_use i c a ii m == cr_use i a m) /\
  (add_sw i = true -> m_ke_bk c * rep_sw_use i c a ii m == sw_kcals i * sw_use i a m) /\
  (add_cs i = true -> m_ke_bk c * rep_cs_use i c a ii m == cs_use i a m) /\
  (add_scp i = true -> m_ke_bk c * rep_scp_use i c a ii m == scp_use i a m) /\
  (add_meat i = true -> m_ke_bk c * rep_meat_use i ii m == meat_use i a m).
Proof. exact back_uses. Qed.
Print Assumptions c01_reported_is_ledger_use.

(* nothing reported is negative: people's shares (saved columns, and the percent series), both parts of the crop split
   (eaten immediately - since the clamp fix - and eaten from new storage), every per-source feed and biofuel series *)
Theorem c01_reported_nonneg : forall i c ty a e ii, lp_settings_ok i c -> Feasible i ty a ->
  report (report_in i c a) = Ok (e, ii) -> 0 <= sw_kcals i -> forall m, (m < NM i)%nat ->
  (0 <= rh_sf ii m /\ 0 <= rh_cr ii m /\ 0 <= rh_sw ii m /\ 0 <= rh_cs ii m /\ 0 <= rh_scp ii m /\ 0 <= rh_meat ii m /\
   0 <= nthq (k_imm ii) m /\ 0 <= nthq (k_ns ii) m) /\
  (0 <= rf_sf i c a m /\ 0 <= rf_cr i c a m /\ 0 <= rf_sw i c a m /\ 0 <= rf_cs i c a m /\ 0 <= rf_scp i c a m) /\
  (0 <= rb_sf i c a m /\ 0 <= rb_cr i c a m /\ 0 <= rb_sw i c a m /\ 0 <= rb_cs i c a m /\ 0 <= rb_scp i c a m) /\
  (0 <= nthq (p_sf ii) m /\ 0 <= nthq (p_cr ii) m /\ 0 <= nthq (p_sw ii) m /\ 0 <= nthq (p_cs ii) m /\
   0 <= nthq (p_scp ii) m /\ 0 <= nthq (p_meat ii) m /\ 0 <= nthq (p_imm ii) m /\ 0 <= nthq (p_ns ii) m).
Proof. exact rl_nonneg. Qed.
Print Assumptions c01_reported_nonneg.

(* BEFORE the clamp fix (report_before_clamp_fix: the extractor without np.maximum(..., 0) around production - feed -
   biofuel) the column "outdoor crops eaten immediately" could be negative for a feasible allocation of an admissible
   input - a month without harvest in which stored crops go to feed; observed on ARG (baseline year, rounds 2 and 3).
   Kept as the machine-checked record of the repaired defect. *)
Theorem c01_reported_immediate_crops_negative_before_clamp_fix :
  exists i c a e ii, lp_settings_ok i c /\ admissible i /\ Feasible i ToHumans a /\
    report_before_clamp_fix (report_in i c a) = Ok (e, ii) /\ nthq (k_imm ii) 1 < 0 /\ nthq (p_imm ii) 1 < 0.
Proof. exact reported_immediate_crops_negative_before_clamp_fix. Qed.
Print Assumptions c01_reported_immediate_crops_negative_before_clamp_fix.

(* foods that are supplies, not variables: the reported series is the supply itself *)
Theorem c01_reported_given : forall i c a e ii, lp_settings_ok i c ->
  report (report_in i c a) = Ok (e, ii) -> forall m, (m < NM i)%nat ->
  m_ke_bk c * nthq (k_fish ii) m == at_ (fish i) m /\ m_ke_bk c * nthq (k_gh ii) m == at_ (greenhouse i) m /\
  m_ke_bk c * nthq (k_milk ii) m == at_ (milk i) m.
Proof. exact rl_given. Qed.
Print Assumptions c01_reported_given.

(* SCP and cellulosic sugar: reported use of a month within that month's output *)
Theorem c01_reported_scp_cs : forall i c ty a e ii, lp_settings_ok i c -> Feasible i ty a ->
  report (report_in i c a) = Ok (e, ii) ->
  (add_scp i = true -> forall m, (m < NM i)%nat -> m_ke_bk c * rep_scp_use i c a ii m <= at_ (scp_prod i) m) /\
  (add_cs i = true -> forall m, (m < NM i)%nat -> m_ke_bk c * rep_cs_use i c a ii m <= at_ (cs_prod i) m).
Proof.
  intros i c ty a e ii S F R. split; intros Hb.
  - exact (rl_scp i c ty a e ii S F R Hb).
  - exact (rl_cs i c ty a e ii S F R Hb).
Qed.
Print Assumptions c01_reported_scp_cs.

(* stored food: cumulative reported use never exceeds the initial stock; nothing reported after the first year in the
   first-year-only regime *)
Theorem c01_reported_stored : forall i c ty a e ii, lp_settings_ok i c -> Feasible i ty a ->
  report (report_in i c a) = Ok (e, ii) -> add_sf i = true ->
  (forall m, (m < NM i)%nat -> csum (fun k => m_ke_bk c * rep_sf_use i c a ii k) m <= sf0 i) /\
  (store_years i = false -> forall m, (12 < m)%nat -> (m < NM i)%nat -> rep_sf_use i c a ii m == 0).
Proof.
  intros i c ty a e ii S F R Hb. split.
  - exact (rl_stored i c ty a e ii S F R Hb).
  - exact (rl_stored_after_first_year i c ty a e ii S F R Hb).
Qed.
Print Assumptions c01_reported_stored.

(* outdoor crops: cumulative reported use never exceeds what has been harvested so far *)
Theorem c01_reported_crops : forall i c ty a e ii, lp_settings_ok i c -> Feasible i ty a ->
  report (report_in i c a) = Ok (e, ii) -> add_cr i = true -> forall m, (m < NM i)%nat ->
  csum (fun k => m_ke_bk c * rep_cr_use i c a ii k) m <= csum (at_ (crops_prod i)) m.
Proof. exact rl_crops. Qed.
Print Assumptions c01_reported_crops.

(* meat: both regimes, and "never more than slaughtered so far" under the same hypothesis as c01_meat_slaughtered *)
Theorem c01_reported_meat : forall i c ty a e ii, lp_settings_ok i c -> Feasible i ty a ->
  report (report_in i c a) = Ok (e, ii) -> add_meat i = true ->
  (store_years i = true -> forall m, (m < NM i)%nat ->
     csum (fun k => m_ke_bk c * rep_meat_use i ii k) m <= at_ (meat_running i) m /\
     csum (fun k => m_ke_bk c * rep_meat_use i ii k) m <= meat_total i) /\
  (store_years i = false -> forall m, (m < NM i)%nat -> m_ke_bk c * rep_meat_use i ii m <= at_ (meat_monthly i) m) /\
  ((store_years i = true -> forall m, (m < NM i)%nat -> at_ (meat_running i) m <= csum (at_ (meat_monthly i)) m) ->
   forall m, (m < NM i)%nat -> csum (fun k => m_ke_bk c * rep_meat_use i ii k) m <= csum (at_ (meat_monthly i)) m).
Proof.
  intros i c ty a e ii S F R Hb. split; [|split].
  - exact (rl_meat_store i c ty a e ii S F R Hb).
  - exact (rl_meat_nostore i c ty a e ii S F R Hb).
  - exact (rl_meat_slaughtered i c ty a e ii S F R Hb).
Qed.
Print Assumptions c01_reported_meat.

(* seaweed: the farm ledger with the reported kcals (SEAWEED_KCALS per wet unit) in place of the variables *)
Theorem c01_reported_seaweed : forall i c ty a e ii, lp_settings_ok i c -> Feasible i ty a ->
  report (report_in i c a) = Ok (e, ii) -> add_sw i = true -> 0 < sw_kcals i -> forall p, (S p < NM i)%nat ->
  a SW_wet (S p) ==
  a SW_wet p * (1 + at_ (growth i) (S p) / 100) - m_ke_bk c * rep_sw_use i c a ii (S p) / sw_kcals i
  - (a SW_area (S p) - a SW_area p) * sw_min_density i * (sw_harvest_loss i / 100).
Proof. exact rl_seaweed. Qed.
Print Assumptions c01_reported_seaweed.

(* feed and biofuel totals handed on by the interpreter: sum of the five per-source series; equal to the amounts
   charged in the rounds that maximise people fed; within the ceilings and never increasing in the feed round;
   zero when no food can go to animals *)
Theorem c01_reported_totals : forall i c a, lp_settings_ok i c -> forall m, (m < NM i)%nat ->
  (nthq (feed_sum_ke (fb_of i c a)) m = rf_cs i c a m + rf_scp i c a m + rf_sw i c a m + rf_cr i c a m + rf_sf i c a m /\
   nthq (biofuels_sum_ke (fb_of i c a)) m = rb_cs i c a m + rb_scp i c a m + rb_sw i c a m + rb_cr i c a m + rb_sf i c a m) /\
  (m_ke_bk c * nthq (feed_sum_ke (fb_of i c a)) m == feed_sum i a m /\
   m_ke_bk c * nthq (biofuels_sum_ke (fb_of i c a)) m == biofuel_sum i a m).
Proof. intros i c a S m Hm. split; [exact (rl_total_is_sum i c a m Hm)|exact (rl_total_back i c a S m Hm)]. Qed.
Print Assumptions c01_reported_totals.

Theorem c01_reported_humans_charges : forall i c a, lp_settings_ok i c -> Feasible i ToHumans a ->
  has_nonhuman i = true -> forall m, (m < NM i)%nat ->
  m_ke_bk c * nthq (feed_sum_ke (fb_of i c a)) m == at_ (feed_charge i) m /\
  m_ke_bk c * nthq (biofuels_sum_ke (fb_of i c a)) m == at_ (biofuel_charge i) m.
Proof. exact rl_humans_charges. Qed.
Print Assumptions c01_reported_humans_charges.

Theorem c01_reported_animals : forall i c a, lp_settings_ok i c -> Feasible i ToAnimals a ->
  has_nonhuman i = true -> forall m, (m < NM i)%nat ->
  m_ke_bk c * nthq (feed_sum_ke (fb_of i c a)) m <= at_ (max_feed i) m /\
  m_ke_bk c * nthq (biofuels_sum_ke (fb_of i c a)) m <= at_ (max_biofuel i) m /\
  (forall k, (k <= m)%nat ->
     m_ke_bk c * nthq (feed_sum_ke (fb_of i c a)) m <= m_ke_bk c * nthq (feed_sum_ke (fb_of i c a)) k /\
     m_ke_bk c * nthq (biofuels_sum_ke (fb_of i c a)) m <= m_ke_bk c * nthq (biofuels_sum_ke (fb_of i c a)) k).
Proof. exact rl_animals. Qed.
Print Assumptions c01_reported_animals.

Theorem c01_reported_no_nonhuman : forall i c a, lp_settings_ok i c -> has_nonhuman i = false ->
  forall m, (m < NM i)%nat ->
  nthq (feed_sum_ke (fb_of i c a)) m == 0 /\ nthq (biofuels_sum_ke (fb_of i c a)) m == 0.
Proof. exact rl_no_nonhuman. Qed.
Print Assumptions c01_reported_no_nonhuman.

(* ---------- non-vacuity: the hypotheses are satisfiable, by computation ---------- *)
(* N = 3; stored food (stock 30, 20 % waste), crops (harvest 18/12/20, 10 % waste) and SCP on *)
Example c01_example_humans :
  admissible ex_in /\ Feasible ex_in ToHumans (a_of ex_tbl_h) /\
  Feasible2 ex_in ToHumans (2000 # 63) (a_of ex_tbl_h) /\
  0 < a_of ex_tbl_h Obj 0%nat /\ csum (sf_use ex_in (a_of ex_tbl_h)) 2 == sf0 ex_in.
Proof.
  split; [exact ex_in_admissible|]. split; [exact ex_feasible_humans|].
  split; [exact ex_feasible2_humans|]. exact ex_nontrivial.
Qed.

Example c01_example_animals :
  has_nonhuman ex_in = true /\ Feasible ex_in ToAnimals (a_of ex_tbl_a) /\
  Feasible2 ex_in ToAnimals 9 (a_of ex_tbl_a).
Proof.
  split; [reflexivity|]. split; [exact ex_feasible_animals | exact ex_feasible2_animals].
Qed.

(* the reported-level theorems are not vacuous: the example instance has settings and an accepted report *)
Example c01_example_reported :
  lp_settings_ok ex_in ex_conv01 /\
  match report (report_in ex_in ex_conv01 (a_of ex_tbl_h)) with Ok _ => True | Rejected _ => False end.
Proof. split; [exact ex_settings|exact ex_report_accepted]. Qed.
