(* C01 - Reported allocations never use food that does not exist.
   Statements only; proofs are in Proofs/LP_C01.v (over the row-by-row model Model/LP.v of the linear
   programme built by src/optimizer/optimizer.py; interface lemmas in Proofs/LPChar.v).
   All theorems hold for an arbitrary input record i, arbitrary horizon NM i, either optimisation type
   (unless fixed) and ANY assignment a with `Feasible i ty a` - hence for whatever vertex the solver
   returns; the `_second_stage` versions restate them for `Feasible2 i ty v a` (first-solve rows plus
   the 0.99995*v floor carried into the tie-breaking solves), whose values are the reported ones.
   "use" of a food in month k = people's share grossed up for retail waste + feed + biofuel:
     sf_use i a k = gross (w_sf i) * a SF_h k + a SF_f k + a SF_b k,  etc.;
   csum f m = f 0 + ... + f m. *)
From Coq Require Import QArith List Bool Arith.
From Allfed Require Import Model.LP Model.LPBool Proofs.LPChar Proofs.LPBoolSound Proofs.LP_C01.
Import ListNotations.
Open Scope Q_scope.

(* ---------- no quantity is negative ---------- *)
Theorem c01_nonneg : forall i ty a, Feasible i ty a -> forall s m, 0 <= a s m.
Proof. exact lpc01_nonneg. Qed.
Print Assumptions c01_nonneg.

(* ... including the grossed-up uses (needs 0 <= waste < 100) *)
Theorem c01_use_nonneg : forall i ty a, Feasible i ty a -> admissible i -> forall m,
  0 <= sf_use i a m /\ 0 <= cr_use i a m /\ 0 <= meat_use i a m /\
  0 <= scp_use i a m /\ 0 <= cs_use i a m /\ 0 <= sw_use i a m.
Proof. exact lpc01_use_nonneg. Qed.
Print Assumptions c01_use_nonneg.

(* ---------- stored food: cumulative use never exceeds the initial stock (both regimes) ---------- *)
Theorem c01_stored : forall i ty a, Feasible i ty a -> add_sf i = true ->
  forall m, (m < NM i)%nat -> csum (sf_use i a) m <= sf0 i.
Proof. exact lpc01_stored. Qed.
Print Assumptions c01_stored.

(* storage regime: the end-of-month stock IS the initial stock minus cumulative use *)
Theorem c01_stored_ledger : forall i ty a, Feasible i ty a -> add_sf i = true -> store_years i = true ->
  forall m, (m < NM i)%nat -> a SF_end m == sf0 i - csum (sf_use i a) m.
Proof. exact sf_ledger_store. Qed.
Print Assumptions c01_stored_ledger.

(* first-year-only regime: nothing is drawn after month 12 *)
Theorem c01_stored_after_first_year : forall i ty a, Feasible i ty a ->
  add_sf i = true -> store_years i = false ->
  forall m, (12 < m)%nat -> (m < NM i)%nat -> a SF_h m == 0 /\ a SF_f m == 0 /\ a SF_b m == 0.
Proof. exact lpc01_stored_after_first_year. Qed.
Print Assumptions c01_stored_after_first_year.

(* ---------- outdoor crops ---------- *)
Theorem c01_crops : forall i ty a, Feasible i ty a -> add_cr i = true ->
  forall m, (m < NM i)%nat ->
  a CR_consumed m == gross (w_cr i) * a CR_h m + a CR_f m + a CR_b m /\
  csum (a CR_consumed) m <= csum (at_ (crops_prod i)) m /\
  csum (cr_use i a) m <= csum (at_ (crops_prod i)) m.
Proof.
  intros i ty a F Hb m Hm. split; [|split].
  - exact (lpc01_crops_consumed i ty a F Hb m Hm).
  - exact (lpc01_crops i ty a F Hb m Hm).
  - exact (lpc01_crops_use i ty a F Hb m Hm).
Qed.
Print Assumptions c01_crops.

(* ---------- meat ---------- *)
(* storage regime: cumulative (grossed-up) meat eaten within the running ceiling and the total *)
Theorem c01_meat_store : forall i ty a, Feasible i ty a -> add_meat i = true -> store_years i = true ->
  forall m, (m < NM i)%nat ->
  csum (meat_use i a) m <= at_ (meat_running i) m /\ csum (meat_use i a) m <= meat_total i.
Proof. exact lpc01_meat_store. Qed.
Print Assumptions c01_meat_store.

(* no-storage regime: each month within that month's slaughter *)
Theorem c01_meat_nostore : forall i ty a, Feasible i ty a -> add_meat i = true -> store_years i = false ->
  forall m, (m < NM i)%nat -> gross (w_meat i) * a M_eaten m <= at_ (meat_monthly i) m.
Proof. exact lpc01_meat_nostore. Qed.
Print Assumptions c01_meat_nostore.

(* "never exceeds what has been slaughtered so far": explicit hypothesis that, in the storage regime,
   the running ceiling handed to the optimiser is at most the running sum of monthly slaughter *)
Theorem c01_meat_slaughtered : forall i ty a, Feasible i ty a -> add_meat i = true ->
  (store_years i = true -> forall m, (m < NM i)%nat ->
     at_ (meat_running i) m <= csum (at_ (meat_monthly i)) m) ->
  forall m, (m < NM i)%nat -> csum (meat_use i a) m <= csum (at_ (meat_monthly i)) m.
Proof. exact lpc01_meat_slaughtered. Qed.
Print Assumptions c01_meat_slaughtered.

(* ---------- single-cell protein, cellulosic sugar: monthly use within monthly output ---------- *)
Theorem c01_scp : forall i ty a, Feasible i ty a -> add_scp i = true ->
  forall m, (m < NM i)%nat ->
  gross (w_scp i) * a SCP_h m + a SCP_f m + a SCP_b m <= at_ (scp_prod i) m.
Proof. exact lpc01_scp. Qed.
Print Assumptions c01_scp.

Theorem c01_cs : forall i ty a, Feasible i ty a -> add_cs i = true ->
  forall m, (m < NM i)%nat ->
  gross (w_cs i) * a CS_h m + a CS_f m + a CS_b m <= at_ (cs_prod i) m.
Proof. exact lpc01_cs. Qed.
Print Assumptions c01_cs.

(* ---------- seaweed ---------- *)
Theorem c01_seaweed : forall i ty a, Feasible i ty a -> add_sw i = true ->
  forall m, (m < NM i)%nat ->
  (* bounds *)
  (sw_init i <= a SW_wet m /\ a SW_wet m <= sw_max_density i * at_ (built_area i) m /\
   sw_init_area i <= a SW_area m /\ a SW_area m <= at_ (built_area i) m) /\
  (* month 0 *)
  (m = O -> a SW_wet 0%nat == sw_init i /\ a SW_area 0%nat == sw_init_area i /\
            a SW_h 0%nat == 0 /\ a SW_f 0%nat == 0 /\ a SW_b 0%nat == 0) /\
  (* growth-and-harvest ledger *)
  (forall p, m = S p ->
     a SW_wet (S p) ==
     a SW_wet p * (1 + at_ (growth i) (S p) / 100)
     - (gross (w_sw i) * a SW_h (S p) + a SW_f (S p) + a SW_b (S p))
     - (a SW_area (S p) - a SW_area p) * sw_min_density i * (sw_harvest_loss i / 100)).
Proof.
  intros i ty a F Hb m Hm. split; [|split].
  - exact (lpc01_seaweed_bounds i ty a F Hb m Hm).
  - intros ->. exact (lpc01_seaweed_month0 i ty a F Hb Hm).
  - intros p ->. exact (lpc01_seaweed_ledger i ty a F Hb p Hm).
Qed.
Print Assumptions c01_seaweed.

(* ---------- rounds that maximise people fed: full use and charge equalities ---------- *)
Theorem c01_humans_full_use : forall i a, Feasible i ToHumans a -> (2 <= NM i)%nat ->
  (add_cr i = true ->
     a CR_storage (NM i - 1)%nat == 0 /\
     csum (cr_use i a) (NM i - 1)%nat == csum (at_ (crops_prod i)) (NM i - 1)%nat) /\
  (add_sf i = true -> store_years i = true ->
     a SF_end (NM i - 1)%nat == 0 /\ csum (sf_use i a) (NM i - 1)%nat == sf0 i).
Proof.
  intros i a F N2. split.
  - intros Hb. split; [exact (lpc01_humans_crops_none_left i a F N2 Hb)
                      | exact (lpc01_humans_crops_full_use i a F N2 Hb)].
  - intros Hb R. split; [exact (lpc01_humans_stored_none_left i a F N2 Hb R)
                        | exact (lpc01_humans_stored_full_use i a F N2 Hb R)].
Qed.
Print Assumptions c01_humans_full_use.

(* the first-year-only regime does NOT force the stock to be emptied (the row is commented out in the
   source): a feasible people-fed point of a two-month instance that never touches its stock *)
Theorem c01_first_year_regime_stock_left_unused :
  exists i a, admissible i /\ add_sf i = true /\ store_years i = false /\ (2 <= NM i)%nat /\
              Feasible i ToHumans a /\ csum (sf_use i a) (NM i - 1)%nat < sf0 i.
Proof. exact lpc01_first_year_regime_stock_left_unused. Qed.
Print Assumptions c01_first_year_regime_stock_left_unused.

Theorem c01_humans_charges : forall i a, Feasible i ToHumans a -> has_nonhuman i = true ->
  forall m, (m < NM i)%nat ->
  feed_sum i a m == at_ (feed_charge i) m /\ biofuel_sum i a m == at_ (biofuel_charge i) m.
Proof. exact lpc01_humans_charges. Qed.
Print Assumptions c01_humans_charges.

(* ---------- the feed-maximising round: ceilings and monotone decrease ---------- *)
Theorem c01_animals : forall i a, Feasible i ToAnimals a -> has_nonhuman i = true ->
  forall m, (m < NM i)%nat ->
  feed_sum i a m <= at_ (max_feed i) m /\ biofuel_sum i a m <= at_ (max_biofuel i) m /\
  (forall k, (k <= m)%nat -> feed_sum i a m <= feed_sum i a k /\ biofuel_sum i a m <= biofuel_sum i a k).
Proof.
  intros i a F Hb m Hm. destruct (lpc01_animals_ceiling i a F Hb m Hm) as [H1 H2].
  split; [exact H1 | split; [exact H2 |]].
  intros k Hk. exact (lpc01_animals_monotone i a F Hb k m Hk Hm).
Qed.
Print Assumptions c01_animals.

(* no feed/biofuel variable at all (the code's guard): both sums are zero *)
Theorem c01_no_nonhuman : forall i a m, has_nonhuman i = false -> feed_sum i a m == 0 /\ biofuel_sum i a m == 0.
Proof. exact lpc01_no_nonhuman. Qed.
Print Assumptions c01_no_nonhuman.

(* ---------- the values left by the tie-breaking solves ---------- *)
Theorem c01_second_stage : forall i ty v a, Feasible2 i ty v a -> Feasible i ty a.
Proof. exact Feasible2_Feasible. Qed.
Print Assumptions c01_second_stage.

Theorem c01_stored_second_stage : forall i ty v a, Feasible2 i ty v a -> add_sf i = true ->
  forall m, (m < NM i)%nat -> csum (sf_use i a) m <= sf0 i.
Proof. intros i ty v a [F _]. exact (lpc01_stored i ty a F). Qed.
Print Assumptions c01_stored_second_stage.

Theorem c01_crops_second_stage : forall i ty v a, Feasible2 i ty v a -> add_cr i = true ->
  forall m, (m < NM i)%nat ->
  a CR_consumed m == gross (w_cr i) * a CR_h m + a CR_f m + a CR_b m /\
  csum (a CR_consumed) m <= csum (at_ (crops_prod i)) m /\
  csum (cr_use i a) m <= csum (at_ (crops_prod i)) m.
Proof. intros i ty v a [F _]. exact (c01_crops i ty a F). Qed.
Print Assumptions c01_crops_second_stage.

Theorem c01_meat_second_stage : forall i ty v a, Feasible2 i ty v a -> add_meat i = true ->
  (store_years i = true -> forall m, (m < NM i)%nat ->
     csum (meat_use i a) m <= at_ (meat_running i) m /\ csum (meat_use i a) m <= meat_total i) /\
  (store_years i = false -> forall m, (m < NM i)%nat ->
     gross (w_meat i) * a M_eaten m <= at_ (meat_monthly i) m).
Proof.
  intros i ty v a [F _] Hb. split; intros R.
  - exact (lpc01_meat_store i ty a F Hb R).
  - exact (lpc01_meat_nostore i ty a F Hb R).
Qed.
Print Assumptions c01_meat_second_stage.

Theorem c01_scp_cs_second_stage : forall i ty v a, Feasible2 i ty v a ->
  (add_scp i = true -> forall m, (m < NM i)%nat ->
     gross (w_scp i) * a SCP_h m + a SCP_f m + a SCP_b m <= at_ (scp_prod i) m) /\
  (add_cs i = true -> forall m, (m < NM i)%nat ->
     gross (w_cs i) * a CS_h m + a CS_f m + a CS_b m <= at_ (cs_prod i) m).
Proof.
  intros i ty v a [F _]. split; intros Hb.
  - exact (lpc01_scp i ty a F Hb).
  - exact (lpc01_cs i ty a F Hb).
Qed.
Print Assumptions c01_scp_cs_second_stage.

Theorem c01_seaweed_second_stage : forall i ty v a, Feasible2 i ty v a -> add_sw i = true ->
  forall m, (m < NM i)%nat ->
  (sw_init i <= a SW_wet m /\ a SW_wet m <= sw_max_density i * at_ (built_area i) m /\
   sw_init_area i <= a SW_area m /\ a SW_area m <= at_ (built_area i) m) /\
  (m = O -> a SW_wet 0%nat == sw_init i /\ a SW_area 0%nat == sw_init_area i /\
            a SW_h 0%nat == 0 /\ a SW_f 0%nat == 0 /\ a SW_b 0%nat == 0) /\
  (forall p, m = S p ->
     a SW_wet (S p) ==
     a SW_wet p * (1 + at_ (growth i) (S p) / 100)
     - (gross (w_sw i) * a SW_h (S p) + a SW_f (S p) + a SW_b (S p))
     - (a SW_area (S p) - a SW_area p) * sw_min_density i * (sw_harvest_loss i / 100)).
Proof. intros i ty v a [F _]. exact (c01_seaweed i ty a F). Qed.
Print Assumptions c01_seaweed_second_stage.

Theorem c01_humans_second_stage : forall i v a, Feasible2 i ToHumans v a ->
  ((2 <= NM i)%nat ->
   (add_cr i = true ->
      a CR_storage (NM i - 1)%nat == 0 /\
      csum (cr_use i a) (NM i - 1)%nat == csum (at_ (crops_prod i)) (NM i - 1)%nat) /\
   (add_sf i = true -> store_years i = true ->
      a SF_end (NM i - 1)%nat == 0 /\ csum (sf_use i a) (NM i - 1)%nat == sf0 i)) /\
  (has_nonhuman i = true -> forall m, (m < NM i)%nat ->
     feed_sum i a m == at_ (feed_charge i) m /\ biofuel_sum i a m == at_ (biofuel_charge i) m).
Proof.
  intros i v a [F _]. split.
  - exact (c01_humans_full_use i a F).
  - exact (c01_humans_charges i a F).
Qed.
Print Assumptions c01_humans_second_stage.

Theorem c01_animals_second_stage : forall i v a, Feasible2 i ToAnimals v a -> has_nonhuman i = true ->
  forall m, (m < NM i)%nat ->
  feed_sum i a m <= at_ (max_feed i) m /\ biofuel_sum i a m <= at_ (max_biofuel i) m /\
  (forall k, (k <= m)%nat -> feed_sum i a m <= feed_sum i a k /\ biofuel_sum i a m <= biofuel_sum i a k).
Proof. intros i v a [F _]. exact (c01_animals i a F). Qed.
Print Assumptions c01_animals_second_stage.

(* ---------- within solver tolerance ---------- *)
(* if every variable is >= -eps and every row of the programme holds within eps (sat_eps), the
   stored-food bound degrades by at most (2m+3)*eps  [storage regime] *)
Theorem c01_robust_stored : forall eps i ty a, Feasible_eps eps i ty a ->
  add_sf i = true -> store_years i = true ->
  forall m, (m < NM i)%nat -> csum (sf_use i a) m <= sf0 i + (2 * nq m + 3) * eps.
Proof. exact lpc01_robust_stored. Qed.
Print Assumptions c01_robust_stored.

Theorem c01_robust_exact : forall i ty a, Feasible_eps 0 i ty a <-> Feasible i ty a.
Proof. exact Feasible_eps_0. Qed.
Print Assumptions c01_robust_exact.

(* ---------- non-vacuity: the hypotheses are satisfiable, by computation ---------- *)
(* N = 3; stored food (stock 30, 20 % waste), crops (harvest 18/12/20, 10 % waste) and SCP on *)
Example c01_example_humans :
  admissible ex_in /\ Feasible ex_in ToHumans (a_of ex_tbl_h) /\
  Feasible2 ex_in ToHumans (2000 # 63) (a_of ex_tbl_h) /\
  0 < a_of ex_tbl_h Obj 0%nat /\ csum (sf_use ex_in (a_of ex_tbl_h)) 2 == sf0 ex_in.
Proof.
  split; [exact ex_in_admissible|]. split; [exact ex_feasible_humans|].
  split; [exact ex_feasible2_humans|]. exact ex_nontrivial.
Qed.

Example c01_example_animals :
  has_nonhuman ex_in = true /\ Feasible ex_in ToAnimals (a_of ex_tbl_a) /\
  Feasible2 ex_in ToAnimals 9 (a_of ex_tbl_a).
Proof.
  split; [reflexivity|]. split; [exact ex_feasible_animals | exact ex_feasible2_animals].
Qed.
