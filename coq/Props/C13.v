(* C13 - Scenario options mean what they say and are applied exactly once.
   Statements only; proofs live in Proofs/Options.v; the tables (setter bodies, dispatch chains, overrides,
   head-count derivation) are regenerated from scenarios.py / run_scenario.py / animal_populations.py on every
   run (Gen/Setters.v), so every theorem is re-proved against what the code says now. *)
From Coq Require Import QArith List String Bool.
From Allfed Require Import Base.StrUtil Gen.Setters Model.Options Proofs.Options.
Import ListNotations.
Open Scope Q_scope.
Open Scope string_scope.

(* exactly once, two calls: for EVERY pair of generated setters of the same family, every pair of rows and every
   state: if the first succeeded, the second is rejected at its guard and neither dictionary nor any flag changed
   (only the description text may have grown) - also when other successful calls happened in between *)
Theorem c13_exactly_once_pair : forall n1 n2 x1 x2 f r1 r2 s s1,
  find_setter n1 = Some x1 -> find_setter n2 = Some x2 ->
  family x1 = Some f -> family x2 = Some f ->
  apply_setter n1 r1 s = Ok s1 ->
  forall s2, (forall g, In g (flags s1) -> In g (flags s2)) ->
  exists k s', apply_setter n2 r2 s2 = Rej k s' /\
    flags s' = flags s2 /\ is_global s' = is_global s2 /\ consts s' = consts s2 /\ tconsts s' = tconsts s2.
Proof. exact apply_twice_rejected. Qed.
Print Assumptions c13_exactly_once_pair.

(* exactly once, histories: in ANY sequence of direct calls, a setter whose family was already set is rejected at
   that call, with the dictionaries as they were before it *)
Theorem c13_exactly_once : forall r pre mid n1 n2 x1 x2 f s0 s,
  find_setter n1 = Some x1 -> find_setter n2 = Some x2 ->
  family x1 = Some f -> family x2 = Some f ->
  run_history r s0 (pre ++ [HSet n1] ++ mid) = Ok s ->
  exists k s', run_history r s0 (pre ++ [HSet n1] ++ mid ++ [HSet n2]) = Rej k s' /\
    flags s' = flags s /\ is_global s' = is_global s /\ consts s' = consts s /\ tconsts s' = tconsts s.
Proof. exact history_exactly_once. Qed.
Print Assumptions c13_exactly_once.

(* every generated setter has a family, guards it before its first effect and sets it *)
Theorem c13_every_setter_guarded : forall x, In x setters ->
  exists f, family x = Some f /\ guard_first f (s_body x) = true /\ In (SSetFlag f) (s_body x).
Proof. exact setter_ok_spec. Qed.
Print Assumptions c13_every_setter_guarded.

(* after a successful dispatch every flag check_all_set asserts is set - for EVERY option dictionary and row *)
Theorem c13_all_set : forall opts r s, dispatch opts r = DOk s -> check_all_set s = true.
Proof. exact dispatch_all_set. Qed.
Print Assumptions c13_all_set.

Theorem c13_all_set_iff : forall s, check_all_set s = true <-> (forall f, In f check_flags -> In f (flags s)).
Proof. exact check_all_set_iff. Qed.
Print Assumptions c13_all_set_iff.

(* a missing required key is rejected (nothing of the partially built state is returned: DRej carries no state) *)
Theorem c13_missing_key_rejected : forall opts r k, In k required_keys -> lookup k opts = None ->
  dispatch opts r = DRej AssertRejected.
Proof. exact missing_key_rejected. Qed.
Print Assumptions c13_missing_key_rejected.

(* every dispatched option family is a required key (so "missing" is always caught by the theorem above) *)
Theorem c13_families_required : forall key brs, In (DChain key brs) dispatch_steps -> In key required_keys.
Proof.
  assert (H : forallb (fun st => match st with DChain k _ => str_mem k required_keys | _ => true end) dispatch_steps = true)
    by (vm_compute; reflexivity).
  intros key brs Hin. rewrite forallb_forall in H. specialize (H _ Hin). apply str_mem_In; exact H.
Qed.
Print Assumptions c13_families_required.

(* any value that is not one of the literals of its family's chain is rejected, for every dictionary and row *)
Theorem c13_unknown_value_rejected : forall opts r key brs v,
  In (DChain key brs) dispatch_steps -> lookup key opts = Some v ->
  (forall lit, In lit (chain_lits key) -> optv_is_str v lit = false) ->
  exists k, dispatch opts r = DRej k.
Proof. exact unknown_value_rejected. Qed.
Print Assumptions c13_unknown_value_rejected.

(* every literal of every chain is accepted on a witness configuration (global base without a row, or country
   base with a synthetic row), except the branches that end in sys.exit() (protein/fat = required) *)
Theorem c13_values_accepted : forall key brs v acts, In (DChain key brs) dispatch_steps -> In (v, acts) brs ->
  In DExit acts \/
  exists cfg s, In cfg witness_configs /\ dispatch (set_assoc key (OStr v) (fst cfg)) (snd cfg) = DOk s.
Proof. exact values_accepted. Qed.
Print Assumptions c13_values_accepted.

(* which values terminate the process instead of being accepted or rejected: exactly these *)
Theorem c13_exit_values :
  flat_map (fun st => match st with
                      | DChain k brs => map (fun br => (k, fst br)) (filter (fun br => existsb is_exit (snd br)) brs)
                      | _ => []
                      end) dispatch_steps = [("protein", "required"); ("fat", "required")].
Proof. vm_compute. reflexivity. Qed.
Print Assumptions c13_exit_values.

(* ------------------------------------------------------------------ documented literal tables *)
(* transcribed from scenarios/README.md, the scenario_description texts and the comments of scenarios.py:
   (family, value, every constant the option sets with its value).  NMONTHS stands for 120. *)
Definition shutoff (feed biofuel pct : Q) : dict :=
  [("DELAY.FEED_SHUTOFF_MONTHS", VNum feed); ("DELAY.BIOFUEL_SHUTOFF_MONTHS", VNum biofuel);
   ("MINIMUM_PERCENT_FED_BEFORE_NONHUMAN_CONSUMPTION_ALLOWED", VNum pct)].
Definition waste (sugar crops meat milk seafood retail : Q) : dict :=
  [("WASTE_DISTRIBUTION", VDict); ("WASTE_DISTRIBUTION.SUGAR", VNum sugar); ("WASTE_DISTRIBUTION.CROPS", VNum crops);
   ("WASTE_DISTRIBUTION.MEAT", VNum meat); ("WASTE_DISTRIBUTION.MILK", VNum milk);
   ("WASTE_DISTRIBUTION.SEAFOOD", VNum seafood); ("WASTE_DISTRIBUTION.SEAWEED", VNum seafood); ("WASTE_RETAIL", VNum retail)].
Definition intake (sw cs scp : Q) : dict :=
  [("MAX_SEAWEED_AS_PERCENT_KCALS_HUMANS", VNum sw); ("MAX_CELLULOSIC_SUGAR_AS_PERCENT_KCALS_HUMANS", VNum cs);
   ("MAX_METHANE_SCP_AS_PERCENT_KCALS_HUMANS", VNum scp);
   ("MAX_SEAWEED_AS_PERCENT_KCALS_FEED", VNum 10); ("MAX_CELLULOSIC_SUGAR_AS_PERCENT_KCALS_FEED", VNum 10);
   ("MAX_METHANE_SCP_AS_PERCENT_KCALS_FEED", VNum 43);
   ("MAX_SEAWEED_AS_PERCENT_KCALS_BIOFUEL", VNum 10); ("MAX_CELLULOSIC_SUGAR_AS_PERCENT_KCALS_BIOFUEL", VNum 100);
   ("MAX_METHANE_SCP_AS_PERCENT_KCALS_BIOFUEL", VNum 100)].
Definition years (prefix : string) (vals : list Q) : dict :=
  map (fun p => (prefix ++ fst p, VNum (snd p)))
      (combine ["1"; "2"; "3"; "4"; "5"; "6"; "7"; "8"; "9"; "10"; "11"] vals).

Definition documented : list (string * string * dict) :=
  [ ("shutoff", "immediate", shutoff 0 0 100);
    ("shutoff", "one_month_delayed_shutoff", shutoff 1 1 100);
    ("shutoff", "short_delayed_shutoff", shutoff 2 1 100);
    ("shutoff", "long_delayed_shutoff", shutoff 3 2 100);
    ("shutoff", "continued", shutoff 120 120 100);
    ("shutoff", "continued_after_10_percent_fed", shutoff 120 120 10);
    ("shutoff", "long_delayed_shutoff_after_10_percent_fed", shutoff 12 6 10);
    ("waste", "zero", waste 0 0 0 0 0 0);
    ("waste", "tripled_prices_globally", waste (9#100) (496#100) (80#100) (212#100) (17#100) (608#100));
    ("waste", "doubled_prices_globally", waste (9#100) (496#100) (80#100) (212#100) (17#100) (106#10));
    ("waste", "baseline_globally", waste (9#100) (496#100) (80#100) (212#100) (17#100) (2498#100));
    ("nutrition", "baseline", [("NUTRITION", VDict); ("NUTRITION.KCALS_DAILY", VNum 2100);
                               ("NUTRITION.FAT_DAILY", VNum (617#10)); ("NUTRITION.PROTEIN_DAILY", VNum (595#10))]);
    ("nutrition", "catastrophe", [("NUTRITION", VDict); ("NUTRITION.KCALS_DAILY", VNum 2100);
                                  ("NUTRITION.FAT_DAILY", VNum 47); ("NUTRITION.PROTEIN_DAILY", VNum 51)]);
    ("intake_constraints", "enabled", intake 10 40 50);
    ("intake_constraints", "disabled_for_humans", intake 100 100 100);
    ("stored_food", "zero", [("STORE_FOOD_BETWEEN_YEARS", VBool true); ("PERCENT_STORED_FOOD_TO_USE", VNum 0);
                             ("ADD_STORED_FOOD", VBool false)]);
    ("stored_food", "baseline", [("STORE_FOOD_BETWEEN_YEARS", VBool true); ("PERCENT_STORED_FOOD_TO_USE", VNum 100);
                                 ("ADD_STORED_FOOD", VBool true)]);
    ("ratio_stocks_untouched", "zero", [("STORE_FOOD_BETWEEN_YEARS", VBool true); ("RATIO_STOCKS_UNTOUCHED", VNum 0)]);
    ("ratio_stocks_untouched", "no_stored_between_years",
       [("STORE_FOOD_BETWEEN_YEARS", VBool false); ("RATIO_STOCKS_UNTOUCHED", VNum 0)]);
    ("ratio_stocks_untouched", "baseline", [("STORE_FOOD_BETWEEN_YEARS", VBool true); ("RATIO_STOCKS_UNTOUCHED", VNum 1)]);
    ("ratio_stocks_untouched", "baseline_no_stored_between_years",
       [("STORE_FOOD_BETWEEN_YEARS", VBool false); ("RATIO_STOCKS_UNTOUCHED", VNum 1)]);
    ("cull", "do_eat_culled", [("ADD_MEAT", VBool true); ("ADD_MILK", VBool true)]);
    ("cull", "dont_eat_culled", [("ADD_MEAT", VBool false); ("ADD_MILK", VBool false)]);
    ("meat_strategy", "reduce_breeding", [("BREEDING_STRATEGY", VStr "reduced")]);
    ("meat_strategy", "baseline_breeding", [("BREEDING_STRATEGY", VStr "baseline")]);
    ("meat_strategy", "feed_only_ruminants", [("BREEDING_STRATEGY", VStr "feed_only_ruminants")]);
    ("protein", "not_required", [("INCLUDE_PROTEIN", VBool false)]);
    ("fat", "not_required", [("INCLUDE_FAT", VBool false)]);
    ("seasonality", "no_seasonality", [("SEASONALITY", VList (repeat (1#12) 12))]);
    ("grasses", "baseline", years "RATIO_GRASSES_YEAR" (repeat 1 10));
    ("grasses", "global_nuclear_winter",
       years "RATIO_GRASSES_YEAR" [72#100; 24#100; 16#100; 13#100; 125#1000; 15#100; 17#100; 23#100; 32#100; 41#100]);
    ("grasses", "all_crops_die_instantly", years "RATIO_GRASSES_YEAR" (repeat 0 10));
    ("crop_disruption", "zero", ("ADD_OUTDOOR_GROWING", VBool true) :: years "RATIO_CROPS_YEAR" (repeat 1 10));
    ("crop_disruption", "global_nuclear_winter",
       ("ADD_OUTDOOR_GROWING", VBool true) ::
       years "RATIO_CROPS_YEAR" [47#100; 18#100; 11#100; 12#100; 16#100; 24#100; 35#100; 50#100; 67#100; 83#100; 92#100]);
    ("crop_disruption", "all_crops_die_instantly",
       ("ADD_OUTDOOR_GROWING", VBool false) :: ("RATIO_OF_CROP_YIELDS_FROM_VERY_BEGINNING", VNum 0) ::
       years "RATIO_CROPS_YEAR" (repeat 0 11));
    ("scenario", "no_resilient_foods",
       [("INDUSTRIAL_FOODS_SLOPE_MULTIPLIER", VNum 0); ("RATIO_INCREASED_CROP_AREA", VNum 1);
        ("OG_USE_BETTER_ROTATION", VBool false); ("ADD_CELLULOSIC_SUGAR", VBool false); ("ADD_GREENHOUSES", VBool false);
        ("ADD_METHANE_SCP", VBool false); ("ADD_SEAWEED", VBool false)]);
    ("scenario", "seaweed",
       [("INDUSTRIAL_FOODS_SLOPE_MULTIPLIER", VNum 0); ("RATIO_INCREASED_CROP_AREA", VNum 1);
        ("OG_USE_BETTER_ROTATION", VBool false); ("ADD_CELLULOSIC_SUGAR", VBool false); ("ADD_GREENHOUSES", VBool false);
        ("ADD_METHANE_SCP", VBool false); ("ADD_SEAWEED", VBool true); ("DELAY.SEAWEED_MONTHS", VNum 1)]);
    ("scenario", "methane_scp",
       [("RATIO_INCREASED_CROP_AREA", VNum 1); ("OG_USE_BETTER_ROTATION", VBool false);
        ("ADD_CELLULOSIC_SUGAR", VBool false); ("ADD_GREENHOUSES", VBool false); ("ADD_SEAWEED", VBool false);
        ("DELAY.INDUSTRIAL_FOODS_MONTHS", VNum 2); ("INDUSTRIAL_FOODS_SLOPE_MULTIPLIER", VNum 1); ("ADD_METHANE_SCP", VBool true)])
  ].

(* each documented option value is wired to one setter, and that setter writes exactly these constants *)
Theorem c13_writes : forall e, In e documented -> entry_holds e = true.
Proof.
  assert (H : forallb entry_holds documented = true) by (vm_compute; reflexivity).
  intros e He. rewrite forallb_forall in H. exact (H e He).
Qed.
Print Assumptions c13_writes.

(* ------------------------------------------------------------------ head-count overrides *)
(* option '<species>_head' -> constants key '<species>_head_start' -> column '<species>_head', for every species
   column of the head-count table *)
Theorem c13_head_key : forall c, In c species_head_columns -> head_column (head_const_key c) = Some c.
Proof. exact head_key_species. Qed.
Print Assumptions c13_head_key.

(* the row the override is written to is the row create_animal_objects reads, for EVERY country code (including
   the remapped SWT -> SWZ): the code is remapped before the override is applied.  Re-proved against the
   statement order found in animal_populations.main on every run. *)
Theorem c13_head_reach : forall code, head_write_label code = head_read_label code.
Proof. exact head_reach_all. Qed.
Print Assumptions c13_head_reach.

(* in particular for every country of the country table, with the label the head-count table actually has *)
Theorem c13_head_reach_countries : forall code, In code iso3_codes ->
  head_write_label code = head_read_label code /\ In (head_read_label code) head_table_rows.
Proof.
  assert (H : forallb (fun code => str_mem (head_read_label code) head_table_rows) iso3_codes = true) by (vm_compute; reflexivity).
  intros code Hc. split; [apply head_reach_all|]. rewrite forallb_forall in H. apply str_mem_In. exact (H code Hc).
Qed.
Print Assumptions c13_head_reach_countries.

(* ------------------------------------------------------------------ numeric overrides: frame (evaluated on the witness configurations) *)
(* dispatch with the extra option differs from dispatch without it at most at the `allowed` constants; the time
   constants and flags are identical; `expect` lists the values the named constants must have afterwards.
   PARTIAL: a kernel evaluation of the model on the two witness configurations for the listed values, not a
   statement for every dictionary (the general statement is covered by the differential and the audit only). *)
Definition frame_ok (cfg : options * row) (extra : options) (allowed : list string) (expect : dict) : bool :=
  match dispatch (fst cfg) (snd cfg), dispatch (fst cfg ++ extra)%list (snd cfg) with
  | DOk s0, DOk s1 =>
    forallb (fun k => str_mem k allowed ||
                      match lookup k (consts s0), lookup k (consts s1) with
                      | Some a, Some b => value_close 0 a b
                      | None, None => true
                      | _, _ => false
                      end) (map fst (consts s0) ++ map fst (consts s1))%list &&
    forallb (fun kv => match lookup (fst kv) (consts s1) with Some v => value_close 0 (snd kv) v | None => false end) expect &&
    dict_close 0 (tconsts s0) (tconsts s1) && flags_same (flags s0) (flags s1)
  | _, _ => false
  end.

Definition year_keys (p : string) : list string :=
  map (fun i => p ++ i) ["1"; "2"; "3"; "4"; "5"; "6"; "7"; "8"; "9"; "10"; "11"].

Definition frame_cases : list (options * list string * dict) :=
  ([ ([("MINIMUM_PERCENT_FED_BEFORE_NONHUMAN_CONSUMPTION_ALLOWED", ONum 0)],
     ["MINIMUM_PERCENT_FED_BEFORE_NONHUMAN_CONSUMPTION_ALLOWED"], [("MINIMUM_PERCENT_FED_BEFORE_NONHUMAN_CONSUMPTION_ALLOWED", VNum 0)]);
    ([("MINIMUM_PERCENT_FED_BEFORE_NONHUMAN_CONSUMPTION_ALLOWED", ONum (75#2))],
     ["MINIMUM_PERCENT_FED_BEFORE_NONHUMAN_CONSUMPTION_ALLOWED"], [("MINIMUM_PERCENT_FED_BEFORE_NONHUMAN_CONSUMPTION_ALLOWED", VNum (75#2))]);
    ([("RATIO_STOCKS_UNTOUCHED", ONum (1#4))], ["RATIO_STOCKS_UNTOUCHED"], [("RATIO_STOCKS_UNTOUCHED", VNum (1#4))]);
    ([("RATIO_STOCKS_UNTOUCHED", ONum 1)], ["RATIO_STOCKS_UNTOUCHED"], [("RATIO_STOCKS_UNTOUCHED", VNum 1)]);
    ([("CROP_PRODUCTION_MULTIPLIER", ONum (3#2))], year_keys "RATIO_CROPS_YEAR", []);
    ([("GRASSES_PRODUCTION_MULTIPLIER", ONum (1#2))], year_keys "RATIO_GRASSES_YEAR", []);
    ([("kg_meat_per_large_animal", ONum (423#2))], ["kg_meat_per_large_animal"], [("kg_meat_per_large_animal", VNum (423#2))]) ]
  ++ map (fun c => ([(c, ONum (24691#2))], [(c ++ "_start")%string], [((c ++ "_start")%string, VNum 12345)])) species_head_columns)%list.

Theorem c13_overrides_frame_witness : forall cfg ex, In cfg witness_configs -> In ex frame_cases ->
  frame_ok cfg (fst (fst ex)) (snd (fst ex)) (snd ex) = true.
Proof.
  assert (H : forallb (fun cfg => forallb (fun ex => frame_ok cfg (fst (fst ex)) (snd (fst ex)) (snd ex)) frame_cases)
                      witness_configs = true) by (vm_compute; reflexivity).
  intros cfg ex Hc He. rewrite forallb_forall in H. specialize (H cfg Hc). cbv beta in H.
  rewrite forallb_forall in H. exact (H ex He).
Qed.
Print Assumptions c13_overrides_frame_witness.
