(* C13 - Scenario options mean what they say and are applied exactly once.
   Statements only; proofs live in Proofs/Options.v; the tables (setter bodies, dispatch chains, overrides,
   head-count derivation) are regenerated from scenarios.py / run_scenario.py / animal_populations.py on every
   run (Gen/Setters.v), so every theorem is re-proved against what the code says now. *)
From Coq Require Import QArith List String Bool.
From Allfed Require Import Base.StrUtil Gen.Setters Model.Options Proofs.Options.
Import ListNotations.
Open Scope Q_scope.
Open Scope string_scope.

(* exactly once, two calls: for EVERY pair of generated setters of the same family, every pair of rows and every
   state: if the first succeeded, the second is rejected at its guard and neither dictionary nor any flag changed
   (only the description text may have grown) - also when other successful calls happened in between *)
Theorem c13_exactly_once_pair : forall n1 n2 x1 x2 f r1 r2 s s1,
  find_setter n1 = Some x1 -> find_setter n2 = Some x2 ->
  family x1 = Some f -> family x2 = Some f ->
  apply_setter n1 r1 s = Ok s1 ->
  forall s2, (forall g, In g (flags s1) -> In g (flags s2)) ->
  exists k s', apply_setter n2 r2 s2 = Rej k s' /\
    flags s' = flags s2 /\ is_global s' = is_global s2 /\ consts s' = consts s2 /\ tconsts s' = tconsts s2.
Proof. exact apply_twice_rejected. Qed.
Print Assumptions c13_exactly_once_pair.

(* exactly once, histories: in ANY sequence of direct calls, a setter whose family was already set is rejected at
   that call, with the dictionaries as they were before it *)
Theorem c13_exactly_once : forall r pre mid n1 n2 x1 x2 f s0 s,
  find_setter n1 = Some x1 -> find_setter n2 = Some x2 ->
  family x1 = Some f -> family x2 = Some f ->
  run_history r s0 (pre ++ [HSet n1] ++ mid) = Ok s ->
  exists k s', run_history r s0 (pre ++ [HSet n1] ++ mid ++ [HSet n2]) = Rej k s' /\
    flags s' = flags s /\ is_global s' = is_global s /\ consts s' = consts s /\ tconsts s' = tconsts s.
Proof. exact history_exactly_once. Qed.
Print Assumptions c13_exactly_once.

(* every generated setter has a family, guards it before its first effect and sets it *)
Theorem c13_every_setter_guarded : forall x, In x setters ->
  exists f, family x = Some f /\ guard_first f (s_body x) = true /\ In (SSetFlag f) (s_body x).
Proof. exact setter_ok_spec. Qed.
Print Assumptions c13_every_setter_guarded.
