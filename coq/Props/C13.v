(* C13 - Scenario options mean what they say and are applied exactly once.
   Statements only; proofs live in Proofs/Options.v; the tables (setter bodies, dispatch chains, overrides,
   head-count derivation) are regenerated from scenarios.py / run_scenario.py / animal_populations.py on every
   run (Gen/Setters.v), so every theorem is re-proved against what the code says now. *)
From Coq Require Import QArith List String Bool.
From Allfed Require Import Base.StrUtil Gen.Setters Model.Options Proofs.Options.
Import ListNotations.
Open Scope Q_scope.
Open Scope string_scope.

(* exactly once, two calls: for EVERY pair of generated setters of the same family, every pair of rows and every
   state: if the first succeeded, the second is rejected at its guard and neither dictionary nor any flag changed
   (only the description text may have grown) - also when other successful calls happened in between *)
Theorem c13_exactly_once_pair : forall n1 n2 x1 x2 f r1 r2 s s1,
  find_setter n1 = Some x1 -> find_setter n2 = Some x2 ->
  family x1 = Some f -> family x2 = Some f ->
  apply_setter n1 r1 s = Ok s1 ->
  forall s2, (forall g, In g (flags s1) -> In g (flags s2)) ->
  exists k s', apply_setter n2 r2 s2 = Rej k s' /\
    flags s' = flags s2 /\ is_global s' = is_global s2 /\ consts s' = consts s2 /\ tconsts s' = tconsts s2.
Proof. exact apply_twice_rejected. Qed.
Print Assumptions c13_exactly_once_pair.

(* exactly once, histories: in ANY sequence of direct calls, a setter whose family was already set is rejected at
   that call, with the dictionaries as they were before it *)
Theorem c13_exactly_once : forall r pre mid n1 n2 x1 x2 f s0 s,
  find_setter n1 = Some x1 -> find_setter n2 = Some x2 ->
  family x1 = Some f -> family x2 = Some f ->
  run_history r s0 (pre ++ [HSet n1] ++ mid) = Ok s ->
  exists k s', run_history r s0 (pre ++ [HSet n1] ++ mid ++ [HSet n2]) = Rej k s' /\
    flags s' = flags s /\ is_global s' = is_global s /\ consts s' = consts s /\ tconsts s' = tconsts s.
Proof. exact history_exactly_once. Qed.
Print Assumptions c13_exactly_once.

(* every generated setter has a family, guards it before its first effect and sets it *)
Theorem c13_every_setter_guarded : forall x, In x setters ->
  exists f, family x = Some f /\ guard_first f (s_body x) = true /\ In (SSetFlag f) (s_body x).
Proof. exact setter_ok_spec. Qed.
Print Assumptions c13_every_setter_guarded.

(* after a successful dispatch every flag check_all_set asserts is set - for EVERY option dictionary and row *)
Theorem c13_all_set : forall opts r s, dispatch opts r = DOk s -> check_all_set s = true.
Proof. exact dispatch_all_set. Qed.
Print Assumptions c13_all_set.

Theorem c13_all_set_iff : forall s, check_all_set s = true <-> (forall f, In f check_flags -> In f (flags s)).
Proof. exact check_all_set_iff. Qed.
Print Assumptions c13_all_set_iff.

(* a missing required key is rejected (nothing of the partially built state is returned: DRej carries no state) *)
Theorem c13_missing_key_rejected : forall opts r k, In k required_keys -> lookup k opts = None ->
  dispatch opts r = DRej AssertRejected.
Proof. exact missing_key_rejected. Qed.
Print Assumptions c13_missing_key_rejected.

(* every dispatched option family is a required key (so "missing" is always caught by the theorem above) *)
Theorem c13_families_required : forall key brs, In (DChain key brs) dispatch_steps -> In key required_keys.
Proof.
  assert (H : forallb (fun st => match st with DChain k _ => str_mem k required_keys | _ => true end) dispatch_steps = true)
    by (vm_compute; reflexivity).
  intros key brs Hin. rewrite forallb_forall in H. specialize (H _ Hin). apply str_mem_In; exact H.
Qed.
Print Assumptions c13_families_required.

(* any value that is not one of the literals of its family's chain is rejected, for every dictionary and row *)
Theorem c13_unknown_value_rejected : forall opts r key brs v,
  In (DChain key brs) dispatch_steps -> lookup key opts = Some v ->
  (forall lit, In lit (chain_lits key) -> optv_is_str v lit = false) ->
  exists k, dispatch opts r = DRej k.
Proof. exact unknown_value_rejected. Qed.
Print Assumptions c13_unknown_value_rejected.

(* every literal of every chain is accepted on a witness configuration (global base without a row, or country
   base with a synthetic row), except the branches that end in sys.exit() (protein/fat = required) *)
Theorem c13_values_accepted : forall key brs v acts, In (DChain key brs) dispatch_steps -> In (v, acts) brs ->
  In DExit acts \/
  exists cfg s, In cfg witness_configs /\ dispatch (set_assoc key (OStr v) (fst cfg)) (snd cfg) = DOk s.
Proof. exact values_accepted. Qed.
Print Assumptions c13_values_accepted.

(* which values terminate the process instead of being accepted or rejected: exactly these *)
Theorem c13_exit_values :
  flat_map (fun st => match st with
                      | DChain k brs => map (fun br => (k, fst br)) (filter (fun br => existsb is_exit (snd br)) brs)
                      | _ => []
                      end) dispatch_steps = [("protein", "required"); ("fat", "required")].
Proof. vm_compute. reflexivity. Qed.
Print Assumptions c13_exit_values.

(* ------------------------------------------------------------------ documented literal tables *)
(* transcribed from scenarios/README.md, the scenario_description texts and the comments of scenarios.py:
   (family, value, every constant the option sets with its value).  NMONTHS stands for 120. *)
Definition shutoff (feed biofuel pct : Q) : dict :=
  [("DELAY.FEED_SHUTOFF_MONTHS", VNum feed); ("DELAY.BIOFUEL_SHUTOFF_MONTHS", VNum biofuel);
   ("MINIMUM_PERCENT_FED_BEFORE_NONHUMAN_CONSUMPTION_ALLOWED", VNum pct)].
Definition waste (sugar crops meat milk seafood retail : Q) : dict :=
  [("WASTE_DISTRIBUTION", VDict); ("WASTE_DISTRIBUTION.SUGAR", VNum sugar); ("WASTE_DISTRIBUTION.CROPS", VNum crops);
   ("WASTE_DISTRIBUTION.MEAT", VNum meat); ("WASTE_DISTRIBUTION.MILK", VNum milk);
   ("WASTE_DISTRIBUTION.SEAFOOD", VNum seafood); ("WASTE_DISTRIBUTION.SEAWEED", VNum seafood); ("WASTE_RETAIL", VNum retail)].
Definition intake (sw cs scp : Q) : dict :=
  [("MAX_SEAWEED_AS_PERCENT_KCALS_HUMANS", VNum sw); ("MAX_CELLULOSIC_SUGAR_AS_PERCENT_KCALS_HUMANS", VNum cs);
   ("MAX_METHANE_SCP_AS_PERCENT_KCALS_HUMANS", VNum scp);
   ("MAX_SEAWEED_AS_PERCENT_KCALS_FEED", VNum 10); ("MAX_CELLULOSIC_SUGAR_AS_PERCENT_KCALS_FEED", VNum 10);
   ("MAX_METHANE_SCP_AS_PERCENT_KCALS_FEED", VNum 43);
   ("MAX_SEAWEED_AS_PERCENT_KCALS_BIOFUEL", VNum 10); ("MAX_CELLULOSIC_SUGAR_AS_PERCENT_KCALS_BIOFUEL", VNum 100);
   ("MAX_METHANE_SCP_AS_PERCENT_KCALS_BIOFUEL", VNum 100)].
Definition years (prefix : string) (vals : list Q) : dict :=
  map (fun p => (prefix ++ fst p, VNum (snd p)))
      (combine ["1"; "2"; "3"; "4"; "5"; "6"; "7"; "8"; "9"; "10"; "11"] vals).

Definition documented : list (string * string * dict) :=
  [ ("shutoff", "immediate", shutoff 0 0 100);
    ("shutoff", "one_month_delayed_shutoff", shutoff 1 1 100);
    ("shutoff", "short_delayed_shutoff", shutoff 2 1 100);
    ("shutoff", "long_delayed_shutoff", shutoff 3 2 100);
    ("shutoff", "continued", shutoff 120 120 100);
    ("shutoff", "continued_after_10_percent_fed", shutoff 120 120 10);
    ("shutoff", "long_delayed_shutoff_after_10_percent_fed", shutoff 12 6 10);
    ("waste", "zero", waste 0 0 0 0 0 0);
    ("waste", "tripled_prices_globally", waste (9#100) (496#100) (80#100) (212#100) (17#100) (608#100));
    ("waste", "doubled_prices_globally", waste (9#100) (496#100) (80#100) (212#100) (17#100) (106#10));
    ("waste", "baseline_globally", waste (9#100) (496#100) (80#100) (212#100) (17#100) (2498#100));
    ("nutrition", "baseline", [("NUTRITION", VDict); ("NUTRITION.KCALS_DAILY", VNum 2100);
                               ("NUTRITION.FAT_DAILY", VNum (617#10)); ("NUTRITION.PROTEIN_DAILY", VNum (595#10))]);
    ("nutrition", "catastrophe", [("NUTRITION", VDict); ("NUTRITION.KCALS_DAILY", VNum 2100);
                                  ("NUTRITION.FAT_DAILY", VNum 47); ("NUTRITION.PROTEIN_DAILY", VNum 51)]);
    ("intake_constraints", "enabled", intake 10 40 50);
    ("intake_constraints", "disabled_for_humans", intake 100 100 100);
    ("stored_food", "zero", [("STORE_FOOD_BETWEEN_YEARS", VBool true); ("PERCENT_STORED_FOOD_TO_USE", VNum 0);
                             ("ADD_STORED_FOOD", VBool false)]);
    ("stored_food", "baseline", [("STORE_FOOD_BETWEEN_YEARS", VBool true); ("PERCENT_STORED_FOOD_TO_USE", VNum 100);
                                 ("ADD_STORED_FOOD", VBool true)]);
    ("ratio_stocks_untouched", "zero", [("STORE_FOOD_BETWEEN_YEARS", VBool true); ("RATIO_STOCKS_UNTOUCHED", VNum 0)]);
    ("ratio_stocks_untouched", "no_stored_between_years",
       [("STORE_FOOD_BETWEEN_YEARS", VBool false); ("RATIO_STOCKS_UNTOUCHED", VNum 0)]);
    ("ratio_stocks_untouched", "baseline", [("STORE_FOOD_BETWEEN_YEARS", VBool true); ("RATIO_STOCKS_UNTOUCHED", VNum 1)]);
    ("ratio_stocks_untouched", "baseline_no_stored_between_years",
       [("STORE_FOOD_BETWEEN_YEARS", VBool false); ("RATIO_STOCKS_UNTOUCHED", VNum 1)]);
    ("cull", "do_eat_culled", [("ADD_MEAT", VBool true); ("ADD_MILK", VBool true)]);
    ("cull", "dont_eat_culled", [("ADD_MEAT", VBool false); ("ADD_MILK", VBool false)]);
    ("meat_strategy", "reduce_breeding", [("BREEDING_STRATEGY", VStr "reduced")]);
    ("meat_strategy", "baseline_breeding", [("BREEDING_STRATEGY", VStr "baseline")]);
    ("meat_strategy", "feed_only_ruminants", [("BREEDING_STRATEGY", VStr "feed_only_ruminants")]);
    ("protein", "not_required", [("INCLUDE_PROTEIN", VBool false)]);
    ("fat", "not_required", [("INCLUDE_FAT", VBool false)]);
    ("seasonality", "no_seasonality", [("SEASONALITY", VList (repeat (1#12) 12))]);
    ("grasses", "baseline", years "RATIO_GRASSES_YEAR" (repeat 1 10));
    ("grasses", "global_nuclear_winter",
       years "RATIO_GRASSES_YEAR" [72#100; 24#100; 16#100; 13#100; 125#1000; 15#100; 17#100; 23#100; 32#100; 41#100]);
    ("grasses", "all_crops_die_instantly", years "RATIO_GRASSES_YEAR" (repeat 0 10));
    ("crop_disruption", "zero", ("ADD_OUTDOOR_GROWING", VBool true) :: years "RATIO_CROPS_YEAR" (repeat 1 10));
    ("crop_disruption", "global_nuclear_winter",
       ("ADD_OUTDOOR_GROWING", VBool true) ::
       years "RATIO_CROPS_YEAR" [47#100; 18#100; 11#100; 12#100; 16#100; 24#100; 35#100; 50#100; 67#100; 83#100; 92#100]);
    ("crop_disruption", "all_crops_die_instantly",
       ("ADD_OUTDOOR_GROWING", VBool false) :: ("RATIO_OF_CROP_YIELDS_FROM_VERY_BEGINNING", VNum 0) ::
       years "RATIO_CROPS_YEAR" (repeat 0 11));
    ("scenario", "no_resilient_foods",
       [("INDUSTRIAL_FOODS_SLOPE_MULTIPLIER", VNum 0); ("RATIO_INCREASED_CROP_AREA", VNum 1);
        ("OG_USE_BETTER_ROTATION", VBool false); ("ADD_CELLULOSIC_SUGAR", VBool false); ("ADD_GREENHOUSES", VBool false);
        ("ADD_METHANE_SCP", VBool false); ("ADD_SEAWEED", VBool false)]);
    ("scenario", "seaweed",
       [("INDUSTRIAL_FOODS_SLOPE_MULTIPLIER", VNum 0); ("RATIO_INCREASED_CROP_AREA", VNum 1);
        ("OG_USE_BETTER_ROTATION", VBool false); ("ADD_CELLULOSIC_SUGAR", VBool false); ("ADD_GREENHOUSES", VBool false);
        ("ADD_METHANE_SCP", VBool false); ("ADD_SEAWEED", VBool true); ("DELAY.SEAWEED_MONTHS", VNum 1)]);
    ("scenario", "methane_scp",
       [("RATIO_INCREASED_CROP_AREA", VNum 1); ("OG_USE_BETTER_ROTATION", VBool false);
        ("ADD_CELLULOSIC_SUGAR", VBool false); ("ADD_GREENHOUSES", VBool false); ("ADD_SEAWEED", VBool false);
        ("DELAY.INDUSTRIAL_FOODS_MONTHS", VNum 2); ("INDUSTRIAL_FOODS_SLOPE_MULTIPLIER", VNum 1); ("ADD_METHANE_SCP", VBool true)])
  ].

(* each documented option value is wired to one setter, and that setter writes exactly these constants *)
Theorem c13_writes : forall e, In e documented -> entry_holds e = true.
Proof.
  assert (H : forallb entry_holds documented = true) by (vm_compute; reflexivity).
  intros e He. rewrite forallb_forall in H. exact (H e He).
Qed.
Print Assumptions c13_writes.

(* ------------------------------------------------------------------ head-count overrides *)
(* option '<species>_head' -> constants key '<species>_head_start' -> column '<species>_head', for every species
   column of the head-count table *)
Theorem c13_head_key : forall c, In c species_head_columns -> head_column (head_const_key c) = Some c.
Proof. exact head_key_species. Qed.
Print Assumptions c13_head_key.

(* the row the override is written to is the row create_animal_objects reads, for EVERY country code (including
   the remapped SWT -> SWZ): the code is remapped before the override is applied.  Re-proved against the
   statement order found in animal_populations.main on every run. *)
Theorem c13_head_reach : forall code, head_write_label code = head_read_label code.
Proof. exact head_reach_all. Qed.
Print Assumptions c13_head_reach.

(* in particular for every country of the country table, with the label the head-count table actually has *)
Theorem c13_head_reach_countries : forall code, In code iso3_codes ->
  head_write_label code = head_read_label code /\ In (head_read_label code) head_table_rows.
Proof.
  assert (H : forallb (fun code => str_mem (head_read_label code) head_table_rows) iso3_codes = true) by (vm_compute; reflexivity).
  intros code Hc. split; [apply head_reach_all|]. rewrite forallb_forall in H. apply str_mem_In. exact (H code Hc).
Qed.
Print Assumptions c13_head_reach_countries.

(* ------------------------------------------------------------------ numeric overrides: frame *)
(* For EVERY option dictionary that dispatch accepts and every country row: adding ONE numeric override (a key the
   dictionary does not have yet) gives a result that agrees with the result without it in flags, description,
   IS_GLOBAL_ANALYSIS, time constants and in every constant outside the named one(s);  Rel N s s' says exactly that,
   N being the named region: Nof Kc = the constant Kc (and sub-entries "Kc.x", which a scalar does not have),
   Nlist l = the listed constants.  Out-of-range values are rejected.  Proved from lookup/update frame lemmas over
   the generated override blocks (Gen/Setters.overrides), not by evaluation. *)

(* '<species>_head' for every species column of the head-count table: exactly '<species>_head_start' := int(q) *)
Theorem c13_override_head : forall c, In c species_head_columns ->
  forall opts r s q, dispatch opts r = DOk s -> lookup c opts = None ->
  exists s', dispatch (opts ++ [(c, ONum q)])%list r = DOk s' /\ Rel (Nof (c ++ "_start")) s s' /\
             lookup (c ++ "_start") (consts s') = Some (VNum (Qtrunc q)).
Proof.
  intros c Hc opts r s q H HK. pose proof head_certs as C. rewrite forallb_forall in C. specialize (C c Hc).
  unfold head_cert in C. apply andb_true_iff in C. destruct C as [C1 C2].
  destruct (trigger_of c) as [ovx|] eqn:T; [|discriminate]. destruct ovx as [pat suf [|]| |]; try discriminate.
  exact (simple_frame c _ _ C1 T opts r s q H HK).
Qed.
Print Assumptions c13_override_head.

Theorem c13_override_kg_meat : forall opts r s q, dispatch opts r = DOk s -> lookup "kg_meat_per_large_animal" opts = None ->
  exists s', dispatch (opts ++ [("kg_meat_per_large_animal", ONum q)])%list r = DOk s' /\
             Rel (Nof "kg_meat_per_large_animal") s s' /\ lookup "kg_meat_per_large_animal" (consts s') = Some (VNum q).
Proof.
  assert (C : simple_cert "kg_meat_per_large_animal" "kg_meat_per_large_animal" = true) by (vm_compute; reflexivity).
  assert (T : trigger_of "kg_meat_per_large_animal" = Some (OvSubstr "kg_meat_per_large_animal" "" false)) by (vm_compute; reflexivity).
  intros opts r s q H HK. exact (simple_frame _ _ _ C T opts r s q H HK).
Qed.
Print Assumptions c13_override_kg_meat.

Theorem c13_override_min_percent_fed : forall opts r s q, dispatch opts r = DOk s ->
  lookup "MINIMUM_PERCENT_FED_BEFORE_NONHUMAN_CONSUMPTION_ALLOWED" opts = None ->
  if in_range 0 q 100
  then exists s', dispatch (opts ++ [("MINIMUM_PERCENT_FED_BEFORE_NONHUMAN_CONSUMPTION_ALLOWED", ONum q)])%list r = DOk s' /\
             Rel (Nof "MINIMUM_PERCENT_FED_BEFORE_NONHUMAN_CONSUMPTION_ALLOWED") s s' /\
             lookup "MINIMUM_PERCENT_FED_BEFORE_NONHUMAN_CONSUMPTION_ALLOWED" (consts s') = Some (VNum q)
  else dispatch (opts ++ [("MINIMUM_PERCENT_FED_BEFORE_NONHUMAN_CONSUMPTION_ALLOWED", ONum q)])%list r = DRej AssertRejected.
Proof.
  assert (C : simple_cert "MINIMUM_PERCENT_FED_BEFORE_NONHUMAN_CONSUMPTION_ALLOWED"
                          "MINIMUM_PERCENT_FED_BEFORE_NONHUMAN_CONSUMPTION_ALLOWED" = true) by (vm_compute; reflexivity).
  assert (T : trigger_of "MINIMUM_PERCENT_FED_BEFORE_NONHUMAN_CONSUMPTION_ALLOWED" =
              Some (OvSet "MINIMUM_PERCENT_FED_BEFORE_NONHUMAN_CONSUMPTION_ALLOWED" 0 100)) by (vm_compute; reflexivity).
  intros opts r s q H HK. exact (simple_frame _ _ _ C T opts r s q H HK).
Qed.
Print Assumptions c13_override_min_percent_fed.

Theorem c13_override_ratio_stocks_untouched : forall opts r s q, dispatch opts r = DOk s ->
  lookup "RATIO_STOCKS_UNTOUCHED" opts = None ->
  if in_range 0 q 1
  then exists s', dispatch (opts ++ [("RATIO_STOCKS_UNTOUCHED", ONum q)])%list r = DOk s' /\
             Rel (Nof "RATIO_STOCKS_UNTOUCHED") s s' /\ lookup "RATIO_STOCKS_UNTOUCHED" (consts s') = Some (VNum q)
  else dispatch (opts ++ [("RATIO_STOCKS_UNTOUCHED", ONum q)])%list r = DRej AssertRejected.
Proof.
  assert (C : simple_cert "RATIO_STOCKS_UNTOUCHED" "RATIO_STOCKS_UNTOUCHED" = true) by (vm_compute; reflexivity).
  assert (T : trigger_of "RATIO_STOCKS_UNTOUCHED" = Some (OvSet "RATIO_STOCKS_UNTOUCHED" 0 1)) by (vm_compute; reflexivity).
  intros opts r s q H HK. exact (simple_frame _ _ _ C T opts r s q H HK).
Qed.
Print Assumptions c13_override_ratio_stocks_untouched.

(* multipliers: years 1..10 are multiplied (they must be numbers, which every crop_disruption / grasses setter
   guarantees - hypothesis stated explicitly, see the Example below); year 11 is multiplied when present *)
Definition ten_years (p : string) : list string := map (fun i => p ++ i) ["1"; "2"; "3"; "4"; "5"; "6"; "7"; "8"; "9"; "10"].

Theorem c13_override_crop_multiplier : forall opts r s m, dispatch opts r = DOk s ->
  lookup "CROP_PRODUCTION_MULTIPLIER" opts = None ->
  if in_range 0 m 10
  then (forall k, In k (ten_years "RATIO_CROPS_YEAR") -> numeric_at s k) ->
       exists s', dispatch (opts ++ [("CROP_PRODUCTION_MULTIPLIER", ONum m)])%list r = DOk s' /\
             Rel (Nlist (ten_years "RATIO_CROPS_YEAR" ++ ["RATIO_CROPS_YEAR11"])) s s' /\
             forall k x, In k (ten_years "RATIO_CROPS_YEAR") -> lookup k (consts s) = Some (VNum x) ->
                              lookup k (consts s') = Some (VNum (x * m))
  else dispatch (opts ++ [("CROP_PRODUCTION_MULTIPLIER", ONum m)])%list r = DRej AssertRejected.
Proof.
  assert (C : mul_cert "CROP_PRODUCTION_MULTIPLIER" = true) by (vm_compute; reflexivity).
  assert (T : trigger_of "CROP_PRODUCTION_MULTIPLIER" =
              Some (OvMul "CROP_PRODUCTION_MULTIPLIER" 0 10 (ten_years "RATIO_CROPS_YEAR") ["RATIO_CROPS_YEAR11"])) by (vm_compute; reflexivity).
  intros opts r s m H HK. exact (mul_frame _ _ _ _ _ _ C T opts r s m H HK).
Qed.
Print Assumptions c13_override_crop_multiplier.

Theorem c13_override_grasses_multiplier : forall opts r s m, dispatch opts r = DOk s ->
  lookup "GRASSES_PRODUCTION_MULTIPLIER" opts = None ->
  if in_range 0 m 10
  then (forall k, In k (ten_years "RATIO_GRASSES_YEAR") -> numeric_at s k) ->
       exists s', dispatch (opts ++ [("GRASSES_PRODUCTION_MULTIPLIER", ONum m)])%list r = DOk s' /\
             Rel (Nlist (ten_years "RATIO_GRASSES_YEAR" ++ ["RATIO_GRASSES_YEAR11"])) s s' /\
             forall k x, In k (ten_years "RATIO_GRASSES_YEAR") -> lookup k (consts s) = Some (VNum x) ->
                              lookup k (consts s') = Some (VNum (x * m))
  else dispatch (opts ++ [("GRASSES_PRODUCTION_MULTIPLIER", ONum m)])%list r = DRej AssertRejected.
Proof.
  assert (C : mul_cert "GRASSES_PRODUCTION_MULTIPLIER" = true) by (vm_compute; reflexivity).
  assert (T : trigger_of "GRASSES_PRODUCTION_MULTIPLIER" =
              Some (OvMul "GRASSES_PRODUCTION_MULTIPLIER" 0 10 (ten_years "RATIO_GRASSES_YEAR") ["RATIO_GRASSES_YEAR11"])) by (vm_compute; reflexivity).
  intros opts r s m H HK. exact (mul_frame _ _ _ _ _ _ C T opts r s m H HK).
Qed.
Print Assumptions c13_override_grasses_multiplier.

(* the hypothesis of the two multiplier theorems is met on the witness configurations *)
Example c13_multiplier_hypothesis_met :
  forallb (fun cfg => match dispatch (fst cfg) (snd cfg) with
                      | DOk s => forallb (fun k => match lookup k (consts s) with Some (VNum _) => true | _ => false end)
                                         (ten_years "RATIO_CROPS_YEAR" ++ ten_years "RATIO_GRASSES_YEAR")
                      | DRej _ => false
                      end) witness_configs = true.
Proof. vm_compute. reflexivity. Qed.

(* two single-constant overrides that name different constants commute: both orders are accepted and give the same
   flags, description, time constants and the same value for every constant (sub-entries of the two scalars aside).
   simple_cert / trigger_of are the table-checked facts used above; they hold for every species head-count option,
   kg_meat_per_large_animal, MINIMUM_PERCENT_FED_BEFORE_NONHUMAN_CONSUMPTION_ALLOWED and RATIO_STOCKS_UNTOUCHED
   (c13_single_constant_overrides). *)
Theorem c13_overrides_commute : forall K1 Kc1 ovx1 K2 Kc2 ovx2,
  simple_cert K1 Kc1 = true -> trigger_of K1 = Some ovx1 ->
  simple_cert K2 Kc2 = true -> trigger_of K2 = Some ovx2 ->
  K1 <> K2 -> Kc1 <> Kc2 ->
  forall opts r s q1 q2, dispatch opts r = DOk s -> lookup K1 opts = None -> lookup K2 opts = None ->
  simple_ok ovx1 q1 = true -> simple_ok ovx2 q2 = true ->
  exists s12 s21,
    dispatch ((opts ++ [(K1, ONum q1)]) ++ [(K2, ONum q2)])%list r = DOk s12 /\
    dispatch ((opts ++ [(K2, ONum q2)]) ++ [(K1, ONum q1)])%list r = DOk s21 /\
    same_shell s12 s21 /\
    forall k, prefix (Kc1 ++ ".") k = false -> prefix (Kc2 ++ ".") k = false ->
              lookup k (consts s12) = lookup k (consts s21).
Proof. exact simple_commute. Qed.
Print Assumptions c13_overrides_commute.

Theorem c13_single_constant_overrides :
  (forall c, In c species_head_columns -> simple_cert c (c ++ "_start") = true /\ exists ovx, trigger_of c = Some ovx /\ forall q, simple_ok ovx q = true) /\
    simple_cert "kg_meat_per_large_animal" "kg_meat_per_large_animal" = true /\
    simple_cert "MINIMUM_PERCENT_FED_BEFORE_NONHUMAN_CONSUMPTION_ALLOWED" "MINIMUM_PERCENT_FED_BEFORE_NONHUMAN_CONSUMPTION_ALLOWED" = true /\
    simple_cert "RATIO_STOCKS_UNTOUCHED" "RATIO_STOCKS_UNTOUCHED" = true.
Proof.
  split; [|repeat split; vm_compute; reflexivity].
  intros c Hc. pose proof head_certs as C. rewrite forallb_forall in C. specialize (C c Hc).
  unfold head_cert in C. apply andb_true_iff in C. destruct C as [C1 C2]. split; [exact C1|].
  destruct (trigger_of c) as [ovx|]; [|discriminate]. destruct ovx as [pat suf [|]| |]; try discriminate.
  eexists; split; [reflexivity|intro q; reflexivity].
Qed.
Print Assumptions c13_single_constant_overrides.
