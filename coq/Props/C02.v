(* C02 - Percent fed is the true optimum of the allocation problem (formulation equivalence).
   The solver is outside Coq.  What is decided here, for EVERY input `i` and horizon `NM i`, is
   that the linear programme the code builds (Model/LP.v: `build`, `Feasible`) IS the allocation
   problem of the property (Model/Physical.v: `Physical`, `achieves`, written from the property
   text over USE quantities only, with cumulative sums instead of stock variables).
   Statements only; proofs live in Proofs/LP_C02.v (on the interface Proofs/LPChar.v).

   Reading of `achieves i ty x v`:
     people-fed rounds (ToHumans):  forall m < NM i, v <= percent i x m   (v is at most the worst month);
     feed-maximising round (ToAnimals):  v <= 2/3 * sum feed + 1/3 * sum biofuel. *)
From Coq Require Import QArith List Bool Arith.
From Allfed Require Import Model.LP Model.Physical Proofs.LPChar Proofs.LP_C02.
Import ListNotations.
Open Scope Q_scope.

(* every feasible point of the code's LP is a physically feasible allocation, and the value of the
   objective variable is achieved by it (in its worst month / as its weighted total) *)
Theorem c02_sound : forall i ty a,
  0 < need i -> Feasible i ty a ->
  Physical i ty (proj a) /\ achieves i ty (proj a) (a Obj 0%nat).
Proof. exact LP_C02.c02_sound. Qed.
Print Assumptions c02_sound.

(* every physically feasible allocation, with any value v >= 0 it achieves, extends to a feasible
   point of the code's LP with the same uses and objective variable v *)
Theorem c02_complete : forall i ty x,
  admissible i -> Physical i ty x ->
  forall v, 0 <= v -> achieves i ty x v ->
  exists a, Feasible i ty a /\ alloc_eq (proj a) x /\ a Obj 0%nat == v.
Proof. exact LP_C02.c02_complete. Qed.
Print Assumptions c02_complete.

(* hence both problems have the same set of achievable objective values (so the same optimum) *)
Theorem c02_same_optimum : forall i ty v,
  admissible i -> 0 <= v ->
  ((exists a, Feasible i ty a /\ v <= a Obj 0%nat) <-> (exists x, Physical i ty x /\ achieves i ty x v)).
Proof. exact LP_C02.c02_same_optimum. Qed.
Print Assumptions c02_same_optimum.

(* "no feasible allocation feeds more people in its worst month": a bound on the LP's objective
   (the reported value, certified per instance by weak duality) bounds every physical allocation *)
Theorem c02_upper_bound_transfer : forall i ty vstar,
  admissible i -> 0 <= vstar ->
  ((forall a, Feasible i ty a -> a Obj 0%nat <= vstar) <->
   (forall x w, Physical i ty x -> achieves i ty x w -> w <= vstar)).
Proof. exact LP_C02.c02_upper_bound_transfer. Qed.
Print Assumptions c02_upper_bound_transfer.

(* the max-min objective is faithful: the objective variable is below every month's percent fed;
   raising it to the worst month (`worst_month` = min over months of the `Consumed` variable) keeps
   feasibility; so at an optimum it EQUALS the worst month, which is attained in some month *)
Theorem c02_objective_faithful : forall i a,
  (0 < NM i)%nat -> Feasible i ToHumans a ->
  (forall m, (m < NM i)%nat -> a Obj 0%nat <= a Consumed m) /\
  Feasible i ToHumans (set_obj a (worst_month i a)) /\
  a Obj 0%nat <= set_obj a (worst_month i a) Obj 0%nat /\
  (exists k, (k < NM i)%nat /\ worst_month i a = a Consumed k) /\
  ((forall b, Feasible i ToHumans b -> b Obj 0%nat <= a Obj 0%nat) -> a Obj 0%nat == worst_month i a).
Proof. exact LP_C02.c02_objective_faithful. Qed.
Print Assumptions c02_objective_faithful.

(* non-vacuity: a 3-month instance with every food present (storage regime) is admissible, has a
   physically feasible allocation feeding 44 percent in its worst month, and the code's LP has a
   feasible point with exactly these uses and objective 44; same instance, feed-maximising round *)
Example c02_nonvacuous_humans :
  admissible ex_in /\ Physical ex_in ToHumans ex_alloc /\ achieves ex_in ToHumans ex_alloc 44 /\
  exists a, Feasible ex_in ToHumans a /\ alloc_eq (proj a) ex_alloc /\ a Obj 0%nat == 44.
Proof. exact LP_C02.c02_nonvacuous_humans. Qed.

Example c02_nonvacuous_animals :
  Physical ex_in ToAnimals ex_alloc /\ achieves ex_in ToAnimals ex_alloc 3 /\
  exists a, Feasible ex_in ToAnimals a /\ alloc_eq (proj a) ex_alloc /\ a Obj 0%nat == 3.
Proof. exact LP_C02.c02_nonvacuous_animals. Qed.

(* ---------- the model's literals are the source's literals (re-read from optimizer.py on every run) ---------- *)
From Allfed Require Import Gen.OptimizerConsts Proofs.LPConsts.
Theorem c02_literals_from_source :
  (forall i, pin_bounds i = if Qlt_le_dec (pop i) 10000000 then src_pin_small else src_pin_large) /\
  src_pin_switch_pop == 10000000 /\
  (forall v, model_floor v == v * src_floor_humans /\ model_floor v == v * src_floor_animals) /\
  (forall i v, second_stage i ToHumans v = map (fun m => mk [t 1 Consumed m] Ge (model_floor v)) (months i)) /\
  src_weight_feed == 2 # 3 /\ src_weight_biofuel == 1 # 3 /\
  src_resource_order = model_resource_order.
Proof. exact lp_literals_match_source. Qed.
Print Assumptions c02_literals_from_source.

From Coq Require Import String.
From Allfed Require Import Base.StrUtil Gen.UnitTables Model.Units Model.Report Proofs.Units Proofs.Report Proofs.Headline.

(* C02 composed with C04: the number the run REPORTS (the interpreter's headline of a people-fed round) against the
   optimum v of the physical allocation problem: never above it, and within 0.005 % of it when the later solves keep
   every month at the floor of v (Feasible2).  That CBC returns such an assignment is what the HiGHS audit and the
   per-instance certificates of harness/props/c02.py check. *)
Theorem c02_headline_near_physical_optimum : forall i c a v e ii,
  admissible i -> lp_settings_ok i c -> 0 <= v ->
  (forall x w, Physical i ToHumans x -> achieves i ToHumans x w -> w <= v) ->
  Feasible2 i ToHumans v a -> report (report_in i c a) = Ok (e, ii) ->
  headline ii <= v /\ v - headline ii <= (5 # 100000) * v.
Proof. exact headline_near_physical_optimum. Qed.
Print Assumptions c02_headline_near_physical_optimum.

Theorem c02_reported_allocation_is_physical : forall i c a v e ii,
  admissible i -> lp_settings_ok i c -> 0 <= v ->
  (forall x w, Physical i ToHumans x -> achieves i ToHumans x w -> w <= v) ->
  Feasible2 i ToHumans v a -> report (report_in i c a) = Ok (e, ii) ->
  Physical i ToHumans (proj a) /\ (forall w, achieves i ToHumans (proj a) w -> w <= v).
Proof. exact headline_is_physically_achievable. Qed.
Print Assumptions c02_reported_allocation_is_physical.
