(* placeholder, replaced below *)
From Allfed Require Import Model.Aggregate.
Theorem c15_placeholder : True. Proof. exact I. Qed.
Print Assumptions c15_placeholder.
