(* C15 - the aggregate fraction fed is a capped, population-weighted mean over exactly the selected countries.
   Model: Model/Aggregate.v (get_countries_to_run_and_skip, the loop of run_model_no_trade, with
   run_optimizer_for_country abstracted as  frac : iso3 -> option Q).
   Table: Gen/CountryTable*.v, regenerated from computer_readable_combined.csv on every run. *)
From Coq Require Import ZArith QArith Qminmax List String Bool.
From Allfed Require Import Base.StrUtil Model.Tables Model.Aggregate Proofs.Aggregate Gen.CountryTable.
Import ListNotations.
Open Scope Q_scope.
Open Scope string_scope.

(* the shipped table, decoded *)
Definition table_rows : list row := map (decode_row columns) raw_rows.

(* ---------------------------------------------------------------- selection semantics (all lists, all codes) *)

(* empty list: every country is run *)
Theorem c15_select_empty : forall c, selected [] c = true.
Proof. exact selected_nil. Qed.
Print Assumptions c15_select_empty.

(* exclusion list ("!" in front of bang-free codes): every country except the named ones *)
Theorem c15_select_exclusion : forall cs c, cs <> [] -> Forall no_bang cs ->
  selected (map (append "!") cs) c = negb (str_mem c cs).
Proof. exact selected_exclusion_syntax. Qed.
Print Assumptions c15_select_exclusion.

(* inclusion list (no "!" anywhere): exactly the named countries (unknown codes and repeats are harmless) *)
Theorem c15_select_inclusion : forall cs c, cs <> [] -> Forall no_bang cs -> selected cs c = str_mem c cs.
Proof. exact selected_inclusion_syntax. Qed.
Print Assumptions c15_select_inclusion.

(* the code's exact rule, covering mixed lists and odd spellings: as soon as ONE entry has no "!", the entries without
   "!" are run and all entries containing a "!" are ignored; otherwise every entry is stripped of all its "!" and skipped *)
Theorem c15_select_general : forall l c,
  (forallb has_bang l = false -> selected l c = str_mem c (filter (fun x => negb (has_bang x)) l)) /\
  (l <> [] -> forallb has_bang l = true -> selected l c = negb (str_mem c (map strip_bang l))).
Proof. intros l c. split; [apply selected_inclusion|apply selected_exclusion]. Qed.
Print Assumptions c15_select_general.

(* ---------------------------------------------------------------- value formula (any table, any options) *)

(* whenever every selected row passes verify_country_data, the run returns
   net_pop = sum of populations and net_pop_fed = sum of population * min(1, fraction) over exactly the rows that are
   selected and have a non-NaN population and fraction (`counted`), and the result keys are their names, in order *)
Theorem c15_value : forall n opts l frac ret rows,
  n <> 0%nat ->
  (forall r, In r rows -> selected l (iso3 r) = true -> verify_ok (apply_custom opts r) = true) ->
  let cnt := filter (counted (get_run_skip l) frac) (map (apply_custom opts) rows) in
  exists a, run_no_trade n opts l frac ret rows = AggOk a /\
    net_pop a == sum_pop cnt /\ net_fed a == sum_fed frac cnt /\
    (ret = true -> NoDup (map cname cnt) -> keys a = map cname cnt) /\
    (ret = false -> keys a = []).
Proof. exact run_no_trade_value. Qed.
Print Assumptions c15_value.

(* 0 <= aggregate <= 1 for non-negative populations and fractions and a positive total *)
Theorem c15_aggregate_range : forall frac a cnt,
  net_pop a == sum_pop cnt -> net_fed a == sum_fed frac cnt ->
  (forall r, In r cnt -> 0 <= pop_of r) -> (forall r, In r cnt -> 0 <= opt0 (frac (iso3 r))) ->
  0 < sum_pop cnt -> 0 <= aggregate a /\ aggregate a <= 1.
Proof. exact aggregate_range. Qed.
Print Assumptions c15_aggregate_range.

(* order of checks: no scenario -> rejected; a selected row failing verify_country_data -> the whole run is rejected;
   a NaN population fails verify_country_data, so the code's own NaN skip is never reached *)
Theorem c15_rejections : forall n opts l frac ret rows,
  run_no_trade 0 opts l frac ret rows = AggRejected /\
  (existsb (fun r => selected l (iso3 r) && negb (verify_ok r)) rows = true ->
   run_no_trade n [] l frac ret rows = AggRejected) /\
  (forall r, getq r "population" = None -> verify_ok r = false).
Proof.
  intros. split; [reflexivity|]. split; [apply run_rejects|apply verify_ok_nan_population].
Qed.
Print Assumptions c15_rejections.

(* ---------------------------------------------------------------- the shipped table (vm_compute over Gen/) *)

Lemma table_fine : rows_fine table_rows = true.
Proof. vm_compute. reflexivity. Qed.
Lemma table_codes_nodup : nodup_b (map iso3 table_rows) = true.
Proof. vm_compute. reflexivity. Qed.
Lemma table_names_nodup : nodup_b (map cname table_rows) = true.
Proof. vm_compute. reflexivity. Qed.

(* country codes and country names of the table are duplicate-free (164 rows) *)
Theorem c15_table_once :
  NoDup (map iso3 table_rows) /\ NoDup (map cname table_rows) /\ List.length table_rows = 164%nat.
Proof.
  split; [apply nodup_b_sound, table_codes_nodup|]. split; [apply nodup_b_sound, table_names_nodup|].
  vm_compute. reflexivity.
Qed.
Print Assumptions c15_table_once.

(* every selection syntax, every vector of non-negative fractions, every non-empty scenario, on the shipped table:
   the run is accepted, the totals are the capped weighted sums over exactly the selected rows, every selected country
   is in the results exactly once, and the aggregate lies in [0,1] *)
Theorem c15_shipped_table : forall n l frac,
  n <> 0%nat -> (forall c, exists f, frac c = Some f /\ 0 <= f) ->
  exists a, run_no_trade n [] l frac true table_rows = AggOk a /\
    net_pop a == sum_pop (sel_rows l table_rows) /\
    net_fed a == sum_fed frac (sel_rows l table_rows) /\
    keys a = map cname (sel_rows l table_rows) /\ NoDup (keys a) /\
    (sel_rows l table_rows <> [] -> 0 < net_pop a /\ 0 <= aggregate a /\ aggregate a <= 1).
Proof.
  intros n l frac Hn Hf.
  apply run_fine_table; [exact Hn|apply table_fine|apply nodup_b_sound, table_names_nodup|exact Hf].
Qed.
Print Assumptions c15_shipped_table.

(* a selected code of the table corresponds to exactly one selected row *)
Theorem c15_selected_once : forall l c,
  In c (map iso3 table_rows) -> selected l c = true ->
  exists r, In r (sel_rows l table_rows) /\ iso3 r = c /\
            forall r', In r' (sel_rows l table_rows) -> iso3 r' = c -> r' = r.
Proof. intros l c. apply sel_rows_once. apply nodup_b_sound, table_codes_nodup. Qed.
Print Assumptions c15_selected_once.

Definition pop_of_code (c : string) : Q :=
  match find (fun r => String.eqb (iso3 r) c) table_rows with Some r => pop_of r | None => 0 end.

(* non-vacuity: the hypotheses are satisfiable and the numbers are what one expects *)
Example c15_example_usa_chn :
  match run_no_trade 1 [] ["USA"; "CHN"] (fun c => if String.eqb c "USA" then Some (3 # 2) else Some (1 # 2)) true table_rows with
  | AggOk a => Qeq_bool (net_pop a) (pop_of_code "USA" + pop_of_code "CHN")
               && Qeq_bool (net_fed a) (pop_of_code "USA" + (1 # 2) * pop_of_code "CHN")
               && list_eqb (keys a) ["China"; "United States of America"]
  | AggRejected => false
  end = true.
Proof. vm_compute. reflexivity. Qed.
