(* C02: the allocation problem of the property, written from the property text
   (DESIGN.md section 5 "C02" and Appendix A, paragraph `Physical`), NOT from optimizer.py.

   An allocation (`alloc`) consists of the USE quantities only: per food and month what
   goes to humans, to feed and to biofuel, the meat eaten, and for seaweed the wet biomass
   standing on the farm and the used area (these two are physical quantities of the seaweed
   ledger, not bookkeeping).  There are NO stock variables (no stored_food_start/end,
   crops_food_storage/consumed, meat_start/end, consumed_kcals, objective): stocks are
   expressed by CUMULATIVE sums of the uses against cumulative supplies.

   Shared with Model/LP.v: only the input record `lp_in`, `opt_type`, list indexing `at_`,
   the gross-up factor `gross w = 1/(1 - w/100)` (what must be taken from the supply for one
   unit to reach a human mouth, retail waste w percent), `need0` (need of the initial
   population) and the round-2 tolerance band `pin_bounds`.
   Definitions only. *)
From Coq Require Import QArith List Bool Arith.
From Allfed Require Import Model.LP.
Open Scope Q_scope.

Record alloc := {
  sf_h : nat -> Q; sf_f : nat -> Q; sf_b : nat -> Q;          (* stored food *)
  cr_h : nat -> Q; cr_f : nat -> Q; cr_b : nat -> Q;          (* outdoor crops *)
  scp_h : nat -> Q; scp_f : nat -> Q; scp_b : nat -> Q;       (* methane single-cell protein *)
  cs_h : nat -> Q; cs_f : nat -> Q; cs_b : nat -> Q;          (* cellulosic sugar *)
  meat_e : nat -> Q;                                          (* meat eaten *)
  swd_h : nat -> Q; swd_f : nat -> Q; swd_b : nat -> Q;       (* seaweed (wet tons) *)
  swd_wet : nat -> Q; swd_area : nat -> Q                     (* wet biomass on farm, used area *)
}.

(* f 0 + ... + f (n-1) ;  cumulative total up to and including month m *)
Fixpoint psum (f : nat -> Q) (n : nat) : Q :=
  match n with
  | O => 0
  | S k => psum f k + f k
  end.
Definition cum (f : nat -> Q) (m : nat) : Q := psum f (S m).

(* a food that is not part of the scenario contributes nothing *)
Definition on (b : bool) (v : Q) : Q := if b then v else 0.

(* what is taken out of the supply in month m (human share grossed up by retail waste) *)
Definition sf_use (i : lp_in) (x : alloc) (m : nat) : Q := gross (w_sf i) * sf_h x m + sf_f x m + sf_b x m.
Definition cr_use (i : lp_in) (x : alloc) (m : nat) : Q := gross (w_cr i) * cr_h x m + cr_f x m + cr_b x m.
Definition scp_use (i : lp_in) (x : alloc) (m : nat) : Q := gross (w_scp i) * scp_h x m + scp_f x m + scp_b x m.
Definition cs_use (i : lp_in) (x : alloc) (m : nat) : Q := gross (w_cs i) * cs_h x m + cs_f x m + cs_b x m.
Definition meat_use (i : lp_in) (x : alloc) (m : nat) : Q := gross (w_meat i) * meat_e x m.

(* monthly totals in billion kcal (seaweed converted with SEAWEED_KCALS) *)
Definition feed_tot (i : lp_in) (x : alloc) (m : nat) : Q :=
  on (add_sf i) (sf_f x m) + on (add_cr i) (cr_f x m) + on (add_sw i) (sw_kcals i * swd_f x m) +
  on (add_cs i) (cs_f x m) + on (add_scp i) (scp_f x m).
Definition bio_tot (i : lp_in) (x : alloc) (m : nat) : Q :=
  on (add_sf i) (sf_b x m) + on (add_cr i) (cr_b x m) + on (add_sw i) (sw_kcals i * swd_b x m) +
  on (add_cs i) (cs_b x m) + on (add_scp i) (scp_b x m).
Definition human_tot (i : lp_in) (x : alloc) (m : nat) : Q :=
  on (add_sf i) (sf_h x m) + on (add_cr i) (cr_h x m) + on (add_sw i) (sw_kcals i * swd_h x m) +
  on (add_meat i) (meat_e x m) + on (add_cs i) (cs_h x m) + on (add_scp i) (scp_h x m).

(* calories reaching humans in month m, and the same relative to need, in percent *)
Definition kcal (i : lp_in) (x : alloc) (m : nat) : Q :=
  human_tot i x m + (at_ (milk i) m + at_ (greenhouse i) m + at_ (fish i) m).
Definition percent (i : lp_in) (x : alloc) (m : nat) : Q := kcal i x m / need i * 100.

(* some food can carry feed / biofuel *)
Definition can_carry (i : lp_in) : bool := add_sf i || add_cr i || add_sw i || add_cs i || add_scp i.

Definition alloc_nonneg (x : alloc) : Prop :=
  forall m,
    0 <= sf_h x m /\ 0 <= sf_f x m /\ 0 <= sf_b x m /\
    0 <= cr_h x m /\ 0 <= cr_f x m /\ 0 <= cr_b x m /\
    0 <= scp_h x m /\ 0 <= scp_f x m /\ 0 <= scp_b x m /\
    0 <= cs_h x m /\ 0 <= cs_f x m /\ 0 <= cs_b x m /\
    0 <= meat_e x m /\
    0 <= swd_h x m /\ 0 <= swd_f x m /\ 0 <= swd_b x m /\ 0 <= swd_wet x m /\ 0 <= swd_area x m.

(* round 2: human consumption v (billion kcal) is pinned to p within the round's tolerance band *)
Definition pinned (i : lp_in) (v p : Q) : Prop :=
  fst (pin_bounds i) * p <= v /\ v <= snd (pin_bounds i) * p.

(* caps on one resilient food in month m; r converts its unit to billion kcal;
   ch cf cb are the documented percentages.
   Humans (people-fed rounds only): at most ch percent of the need of the initial population AND at
   most ch percent of the calories actually eaten that month.
   Feed / biofuel: at most cf (cb) percent of the round's feed (biofuel) charge.  NOTE: the
   feed-maximising round applies these two against the SAME `feed_charge`/`biofuel_charge` series
   (time_consts['feed'|'biofuel'], the zero series there), not against what it allocates: "as that
   round applies them" - mirrored from the code, see the report. *)
Definition resilient_caps (i : lp_in) (ty : opt_type) (x : alloc) (m : nat)
           (r : Q) (h f b : nat -> Q) (ch cf cb : Q) : Prop :=
  (ty = ToHumans ->
     r * h m <= ch / 100 * need0 i /\
     r * h m <= ch / 100 * kcal i x m) /\
  r * f m <= cf / 100 * at_ (feed_charge i) m /\
  r * b m <= cb / 100 * at_ (biofuel_charge i) m.

Record Physical (i : lp_in) (ty : opt_type) (x : alloc) : Prop := {
  (* every quantity is non-negative (values outside the horizon / of absent foods enter nothing) *)
  ph_nonneg : alloc_nonneg x;

  (* monthly foods: use <= that month's production *)
  ph_scp : add_scp i = true -> forall m, (m < NM i)%nat -> scp_use i x m <= at_ (scp_prod i) m;
  ph_cs : add_cs i = true -> forall m, (m < NM i)%nat -> cs_use i x m <= at_ (cs_prod i) m;

  (* stored food: cumulative use never exceeds the initial stock *)
  ph_sf_stock : add_sf i = true -> forall m, (m < NM i)%nat -> cum (sf_use i x) m <= sf0 i;
  (* first-year-only regime: nothing is used after month 12 *)
  ph_sf_first_year : add_sf i = true -> store_years i = false ->
    forall m, (m < NM i)%nat -> (12 < m)%nat -> sf_h x m == 0 /\ sf_f x m == 0 /\ sf_b x m == 0;
  (* storage regime, people-fed rounds, at least two months: the stock is used up *)
  ph_sf_all_used : add_sf i = true -> store_years i = true -> ty = ToHumans -> (2 <= NM i)%nat ->
    psum (sf_use i x) (NM i) == sf0 i;

  (* outdoor crops: cumulative use never exceeds cumulative production *)
  ph_cr_stock : add_cr i = true -> forall m, (m < NM i)%nat ->
    cum (cr_use i x) m <= cum (at_ (crops_prod i)) m;
  (* people-fed rounds, at least two months: everything produced is used *)
  ph_cr_all_used : add_cr i = true -> ty = ToHumans -> (2 <= NM i)%nat ->
    psum (cr_use i x) (NM i) == psum (at_ (crops_prod i)) (NM i);

  (* meat, storage regime: cumulative use never exceeds what has been slaughtered so far
     (`meat_running` = max_consumed_culled_kcals_each_month) nor the total meat of the run *)
  ph_meat_store : add_meat i = true -> store_years i = true -> forall m, (m < NM i)%nat ->
    cum (meat_use i x) m <= at_ (meat_running i) m /\ cum (meat_use i x) m <= meat_total i;
  (* meat, no-storage regime: eaten in the month it is slaughtered *)
  ph_meat_monthly : add_meat i = true -> store_years i = false -> forall m, (m < NM i)%nat ->
    meat_use i x m <= at_ (meat_monthly i) m;

  (* seaweed: density and area bounds, month-0 values, growth/harvest ledger *)
  ph_sw_bounds : add_sw i = true -> forall m, (m < NM i)%nat ->
    sw_init i <= swd_wet x m /\ swd_wet x m <= sw_max_density i * at_ (built_area i) m /\
    sw_init_area i <= swd_area x m /\ swd_area x m <= at_ (built_area i) m;
  ph_sw_first : add_sw i = true -> (0 < NM i)%nat ->
    swd_wet x 0%nat == sw_init i /\ swd_area x 0%nat == sw_init_area i /\
    swd_h x 0%nat == 0 /\ swd_f x 0%nat == 0 /\ swd_b x 0%nat == 0;
  ph_sw_ledger : add_sw i = true -> forall p, (S p < NM i)%nat ->
    swd_wet x (S p) ==
    swd_wet x p * (1 + at_ (growth i) (S p) / 100)
    - gross (w_sw i) * swd_h x (S p) - swd_f x (S p) - swd_b x (S p)
    - (swd_area x (S p) - swd_area x p) * sw_min_density i * (sw_harvest_loss i / 100);

  (* people-fed rounds: feed and biofuel equal the round's charge (when any food can carry them) *)
  ph_charge : ty = ToHumans -> can_carry i = true -> forall m, (m < NM i)%nat ->
    feed_tot i x m == at_ (feed_charge i) m /\ bio_tot i x m == at_ (biofuel_charge i) m;

  (* feed-maximising round: demand ceilings, never rising, human consumption pinned *)
  ph_ceiling : ty = ToAnimals -> can_carry i = true -> forall m, (m < NM i)%nat ->
    feed_tot i x m <= at_ (max_feed i) m /\ bio_tot i x m <= at_ (max_biofuel i) m;
  ph_decreasing : ty = ToAnimals -> can_carry i = true -> forall p, (S p < NM i)%nat ->
    feed_tot i x (S p) <= feed_tot i x p /\ bio_tot i x (S p) <= bio_tot i x p;
  ph_pins : ty = ToAnimals -> forall m, (m < NM i)%nat ->
    (add_sw i = true -> pinned i (sw_kcals i * swd_h x m) (at_ (pin_sw i) m)) /\
    (add_cr i = true -> pinned i (cr_h x m) (at_ (pin_cr i) m)) /\
    (add_sf i = true -> pinned i (sf_h x m) (at_ (pin_sf i) m)) /\
    (add_meat i = true -> pinned i (meat_e x m) (at_ (pin_meat i) m)) /\
    (add_scp i = true -> pinned i (scp_h x m) (at_ (pin_scp i) m)) /\
    (add_cs i = true -> pinned i (cs_h x m) (at_ (pin_cs i) m));

  (* intake caps and resilient-food feed/biofuel caps *)
  ph_caps : forall m, (m < NM i)%nat ->
    (add_sw i = true ->
       resilient_caps i ty x m (sw_kcals i) (swd_h x) (swd_f x) (swd_b x) (cap_sw_h i) (cap_sw_f i) (cap_sw_b i)) /\
    (add_scp i = true ->
       resilient_caps i ty x m 1 (scp_h x) (scp_f x) (scp_b x) (cap_scp_h i) (cap_scp_f i) (cap_scp_b i)) /\
    (add_cs i = true ->
       resilient_caps i ty x m 1 (cs_h x) (cs_f x) (cs_b x) (cap_cs_h i) (cap_cs_f i) (cap_cs_b i))
}.

(* The objective of the specification, without a min operator:
   people-fed rounds: v is achieved by x iff no month is fed less than v percent
   (so the best v for x is the worst month's percent);
   feed-maximising round: v is at most the weighted total 2/3 feed + 1/3 biofuel. *)
Definition weighted_total (i : lp_in) (x : alloc) : Q :=
  (2 # 3) * psum (feed_tot i x) (NM i) + (1 # 3) * psum (bio_tot i x) (NM i).

Definition achieves (i : lp_in) (ty : opt_type) (x : alloc) (v : Q) : Prop :=
  match ty with
  | ToHumans => forall m, (m < NM i)%nat -> v <= percent i x m
  | ToAnimals => v <= weighted_total i x
  end.

(* the allocation inside an assignment of the code's LP: forget the bookkeeping variables *)
Definition proj (a : assignment) : alloc :=
  {| sf_h := a SF_h; sf_f := a SF_f; sf_b := a SF_b;
     cr_h := a CR_h; cr_f := a CR_f; cr_b := a CR_b;
     scp_h := a SCP_h; scp_f := a SCP_f; scp_b := a SCP_b;
     cs_h := a CS_h; cs_f := a CS_f; cs_b := a CS_b;
     meat_e := a M_eaten;
     swd_h := a SW_h; swd_f := a SW_f; swd_b := a SW_b;
     swd_wet := a SW_wet; swd_area := a SW_area |}.

(* pointwise equality of allocations *)
Definition alloc_eq (x y : alloc) : Prop :=
  forall m,
    sf_h x m == sf_h y m /\ sf_f x m == sf_f y m /\ sf_b x m == sf_b y m /\
    cr_h x m == cr_h y m /\ cr_f x m == cr_f y m /\ cr_b x m == cr_b y m /\
    scp_h x m == scp_h y m /\ scp_f x m == scp_f y m /\ scp_b x m == scp_b y m /\
    cs_h x m == cs_h y m /\ cs_f x m == cs_f y m /\ cs_b x m == cs_b y m /\
    meat_e x m == meat_e y m /\
    swd_h x m == swd_h y m /\ swd_f x m == swd_f y m /\ swd_b x m == swd_b y m /\
    swd_wet x m == swd_wet y m /\ swd_area x m == swd_area y m.
