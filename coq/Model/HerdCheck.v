(* comparators of the herd model with observations of the implementation (evaluated in generated case files).
   Every function returns a nat: 0 = agree, anything else identifies the first disagreement. *)
From Coq Require Import ZArith QArith Qround List Bool.
From Allfed Require Import Base.Dec Base.QRound Model.Herd.
Import ListNotations.
Open Scope Q_scope.

Definition nthq (l : list Q) (n : nat) : Q := nth n l 0.

(* ---- C07 ---- *)

Definition mk_feeder_q (rum : bool) (qs : list Q) : feeder :=   (* [cur; req; eg; ef] *)
  {| fd_cur := nthq qs 0; fd_req := nthq qs 1; fd_rum := rum; fd_eg := nthq qs 2; fd_ef := nthq qs 3 |}.

(* fed count: equal up to tol, or - when the unrounded count is within 1e-6 of a half-integer (float tie) - off by one *)
Definition fed_ok (tol scale : Q) (s : feeder) (g f : Q) (model obs : Q) : bool :=
  close tol scale model obs ||
  (let neg := if fd_rum s then g * fd_eg s else 0 in
   let x := ((neg + f * fd_ef s) / fd_req s) * fd_cur s in
   let fr := x - inject_Z (Qfloor x) in
   negb (Qeq_bool (fd_req s) 0) &&
   Qle_bool (Qabs' (fr - (1 # 2))) (1 # 1000000) &&
   Qle_bool (Qabs' (model - obs)) (1 + tol * scale)).

(* one call of feed_the_species; obs = [grass left; feed left; balance; fed].  tol = 0 demands exact agreement. *)
Definition check_feed (tol scale : Q) (s : feeder) (g f : Q) (obs : list Q) : nat :=
  let o := feed_the_species s g f in
  if negb (close tol scale (fo_grass o) (nthq obs 0)) then 1%nat
  else if negb (close tol scale (fo_feed o) (nthq obs 1)) then 2%nat
  else if negb (close tol scale (fo_bal o) (nthq obs 2)) then 3%nat
  else if negb (if Qeq_bool tol 0 then Qeq_bool (fo_fed o) (nthq obs 3)
                else fed_ok tol (fd_cur s) s g f (fo_fed o) (nthq obs 3)) then 4%nat
  else 0%nat.

(* feed_animals on a whole list; obs = per herd [grass left; feed left; balance; fed] *)
Fixpoint check_outs (tol scale : Q) (k : nat) (ss : list feeder) (gf : list (Q * Q)) (os : list fedout) (obs : list (list Q)) : nat :=
  match ss, gf, os, obs with
  | [], _, [], [] => 0%nat
  | s :: ss', (g, f) :: gf', o :: os', ob :: obs' =>
      if negb (close tol scale (fo_grass o) (nthq ob 0)) then (10 * k + 1)%nat
      else if negb (close tol scale (fo_feed o) (nthq ob 1)) then (10 * k + 2)%nat
      else if negb (close tol scale (fo_bal o) (nthq ob 2)) then (10 * k + 3)%nat
      else if negb (if Qeq_bool tol 0 then Qeq_bool (fo_fed o) (nthq ob 3)
                    else fed_ok tol (fd_cur s) s g f (fo_fed o) (nthq ob 3)) then (10 * k + 4)%nat
      else check_outs tol scale (S k) ss' gf' os' obs'
  | _, _, _, _ => 9%nat
  end.

(* the (grass, feed) each herd of the chain is offered, according to the model *)
Fixpoint offered (g f : Q) (os : list fedout) : list (Q * Q) :=
  match os with [] => [] | o :: os' => (g, f) :: offered (fo_grass o) (fo_feed o) os' end.

Definition check_chain (tol scale : Q) (ss : list feeder) (g f : Q) (obs : list (list Q)) (gl fl : Q) : nat :=
  let '(os, g', f') := feed_chain ss g f in
  match check_outs tol scale 1 ss (offered g f os) os obs with
  | O => if negb (close tol scale g' gl) then 5%nat else if negb (close tol scale f' fl) then 6%nat else 0%nat
  | n => n
  end.

Definition check_req (tol : Q) (lsu lsuf cur obs : Q) : nat :=
  if close_rel tol (ne_required lsu lsuf cur) obs then 0%nat else 1%nat.

Definition check_key (tol : Q) (kph lsu lsuf ef hours obs : Q) : nat :=
  if close_rel tol (priority_key kph lsu lsuf ef hours) obs then 0%nat else 1%nat.

Fixpoint nats_eqb (a b : list nat) : bool :=
  match a, b with
  | [], [] => true
  | x :: a', y :: b' => Nat.eqb x y && nats_eqb a' b'
  | _, _ => false
  end.

(* keys in the original (dict) order; observed = original indices in the order the implementation returns *)
Definition check_order (keys : list Q) (observed : list nat) : nat :=
  let idx := combine (seq 0 (List.length keys)) keys in
  if nats_eqb (map fst (sort_desc (fun p : nat * Q => snd p) idx)) observed then 0%nat else 1%nat.

(* ---- C06 ---- *)

Definition size_of_nat (n : nat) : size := match n with O => Small | S O => Medium | _ => Large end.

(* qs = [lsu; lsuf; eg; ef; hours; base_sl; target; death; perpreg; ratio; gest; cull; retfrac; starv; red; tfrac] *)
Definition mk_static (milk rum : bool) (sp sz : nat) (qs : list Q) : sstatic :=
  {| st_milk := milk; st_sp := sp; st_size := size_of_nat sz; st_rum := rum;
     st_lsu := nthq qs 0; st_lsuf := nthq qs 1; st_eg := nthq qs 2; st_ef := nthq qs 3;
     st_hours := nthq qs 4; st_base_sl := nthq qs 5; st_target := nthq qs 6; st_death := nthq qs 7;
     st_perpreg := nthq qs 8; st_ratio := nthq qs 9; st_gest := nthq qs 10; st_cull := nthq qs 11;
     st_retfrac := nthq qs 12; st_starv := nthq qs 13; st_red := nthq qs 14; st_tfrac := nthq qs 15 |}.

(* [pop; slaughter; pregnant total; pregnant birthing; pregnant slaughter fraction] *)
Definition mk_state (qs : list Q) : sstate :=
  {| s_pop := nthq qs 0; s_sl := nthq qs 1; s_ptot := nthq qs 2; s_pbirth := nthq qs 3; s_pfrac := nthq qs 4 |}.

(* model values in the order of the observation vector *)
Definition month_vector (r : species_month) : list Q :=
  [ c_pop (m_c r); b_slaughter (m_b r); c_ptot (m_c r); c_pbirth (m_c r); s_pfrac (a_state (m_a r));
    a_births (m_a r); b_transfer (m_b r); b_other_death (m_b r); b_slpreg (m_b r); m_starving_pre r;
    c_hk_other (m_c r); c_hk_healthy (m_c r); c_hk_starving (m_c r); c_hk_total (m_c r);
    c_starve_death (m_c r); c_od_total (m_c r); fo_bal (m_fed r) ].

Fixpoint first_diff (tol scale : Q) (k : nat) (a b : list Q) : nat :=
  match a, b with
  | [], _ => 0%nat
  | x :: a', y :: b' => if close tol scale x y then first_diff tol scale (S k) a' b' else k
  | _ :: _, [] => 99%nat
  end.

Fixpoint check_species (tol : Q) (k : nat) (l : list (sstatic * sstate)) (rs : list species_month)
         (obs : list (list Q)) (gf : list (Q * Q)) : nat :=
  match l, rs, obs, gf with
  | [], [], [], _ => 0%nat
  | (st, s) :: l', r :: rs', ob :: obs', (g, f) :: gf' =>
      let scale := Qmax' (Qabs' (s_pop s)) (Qmax' (Qabs' (st_target st)) (Qabs' (st_base_sl st))) in
      (* energy balance is compared on the scale of the requirement *)
      let escale := Qabs' (ne_required (st_lsu st) (st_lsuf st) (s_pop s)) in
      let mv := month_vector r in
      match first_diff tol scale 1 (firstn 16 mv) ob with
      | O =>
          if negb (close tol escale (nthq mv 16) (nthq ob 16)) then (100 * k + 17)%nat
          else if negb (fed_ok tol scale (mk_feeder (st, s)) g f (fo_fed (m_fed r)) (nthq ob 17)) then (100 * k + 18)%nat
          (* dairy herds: surviving male calves and retiring animals *)
          else if st_milk st && negb (close tol scale (a_tbirths (m_a r)) (nthq ob 18)) then (100 * k + 19)%nat
          else if st_milk st && negb (close tol scale (a_ret (m_a r)) (nthq ob 19)) then (100 * k + 20)%nat
          else check_species tol (S k) l' rs' obs' gf'
      | n => (100 * k + n)%nat
      end
  | _, _, _, _ => 4001%nat
  end.

(* one month of main(): state at the start of the month, supplies, observed end-of-month state and flows *)
Definition check_month (tol : Q) (month : nat) (statics : list sstatic) (pre : list (list Q)) (feed grass : Q)
           (obs : list (list Q)) (feed_used grass_used : Q) : nat :=
  let l := combine statics (map mk_state pre) in
  if negb (Nat.eqb (List.length statics) (List.length pre)) then 4001%nat else
  let '(rs, fu, gu) := month_step month l feed grass in
  let sc := Qmax' (Qabs' feed) (Qabs' grass) in
  if negb (close tol sc fu feed_used) then 4002%nat
  else if negb (close tol sc gu grass_used) then 4003%nat
  else check_species tol 1 l rs obs (offered grass feed (map m_fed rs)).

Definition check_births_baseline (tol : Q) (pop rate sl tr obs : Q) : nat :=
  if close tol (Qabs' pop) (meat_births_baseline pop rate sl tr) obs then 0%nat else 1%nat.

(* one direct call of AnimalPopulation.calculate_change_in_population on a generated state:
   sq = [current_population; slaughter[-1]; pregnant total; -; pregnant slaughter fraction];
   obs = [slaughter; population after slaughter; pregnant total; pregnant birthing; natural deaths; slaughtered pregnant; hours left] *)
Definition check_phase_b (tol : Q) (month0 : bool) (st : sstatic) (sq : list Q) (additive ret remaining : Q) (obs : list Q) : nat :=
  let a := {| a_state := mk_state sq; a_births := additive; a_tbirths := 0; a_ret := ret |} in
  let b := phase_b month0 st a 0 remaining in
  let scale := Qmax' (Qabs' (nthq sq 0)) (Qmax' (Qabs' (st_target st)) (Qabs' remaining)) in
  first_diff tol scale 1 [b_slaughter b; b_pop1 b; b_ptot b; b_pbirth b; b_other_death b; b_slpreg b; b_remaining b] obs.
