(* comparison of the series models with observations of the implementation (evaluated in case files) *)
From Coq Require Import QArith List Bool Arith.
From Allfed Require Import Base.Dec Base.QSeries Model.Series.
Import ListNotations.
Open Scope Q_scope.

Definition smax (l : list Q) : Q := fold_right (fun x m => Qmax' (Qabs' x) m) 0 l.

(* |a - b| <= tol * (|a| + floor)  *)
Definition close_el (tol floor a b : Q) : bool := Qle_bool (Qabs' (a - b)) (tol * (Qabs' a + floor)).

Fixpoint close_els (tol floor : Q) (a b : list Q) : bool :=
  match a, b with
  | [], [] => true
  | x :: a', y :: b' => close_el tol floor x y && close_els tol floor a' b'
  | _, _ => false
  end.

(* relative per element, with an absolute floor of 1e-3 of the largest element of the series *)
Definition close_series (tol : Q) (model observed : list Q) : bool :=
  close_els tol (smax model / 1000) model observed.

(* first failing code of a list of (code, model series, observed series) *)
Fixpoint first_bad (tol : Q) (l : list (nat * list Q * list Q)) : nat :=
  match l with
  | [] => 0%nat
  | (code, m, o) :: l' => if close_series tol m o then first_bad tol l' else code
  end.

Definition series_code (tol : Q) (model observed : list Q) : nat :=
  if (List.length model =? List.length observed)%nat then
    if close_series tol model observed then 0%nat else 1%nat
  else 2%nat.

Definition scalar_code (tol : Q) (model observed : Q) : nat :=
  if close_el tol 0 model observed then 0%nat else 1%nat.

(* the power function instantiated with the float results observed on the implementation:
   table of (x, x ** e) for the (at most ten) distinct reductions of a case *)
Definition pw_lookup (table : list (Q * Q)) (x e : Q) : Q :=
  if Qeq_bool e 1 then x   (* x ** 1 is x exactly, in floats as well *)
  else match find (fun kv => close_el (1 # 1000000000) 0 (fst kv) x) table with
  | Some kv => snd kv
  | None => -1
  end.

(* one outdoor-crops / greenhouse case.
   accepted = the implementation returned normally;  obs = series to compare when it did *)
Definition check_crops (tol : Q) (table : list (Q * Q)) (c : crop_in) (g : gh_in)
           (accepted : bool) (obs : (crop_in -> gh_in -> (Q -> Q -> Q) -> list (nat * list Q * list Q))) : nat :=
  let pw := pw_lookup table in
  if negb (Bool.eqb (crops_ok pw c g) accepted) then (if accepted then 90%nat else 91%nat)
  else if negb accepted then 0%nat
  else first_bad tol (obs c g pw).

(* a series times a scalar: used to tie fat / protein series, which the model proves to be a scalar multiple of
   the kcal series (Proofs/Series.v outdoor_nutrient_nth, greenhouse_nutrient_nth), without re-evaluating it *)
Definition scaled (k : Q) (l : list Q) : list Q := map (Qmult k) l.
