(* M7 - scenario options: loader state, constants dictionary, interpreter of the generated setter
   bodies (Gen/Setters.v), dispatch of an option dictionary, numeric overrides, check_all_set,
   head-count column derivation.  Executable definitions only (no proofs). *)
From Coq Require Import QArith List String Bool Arith ZArith.
From Allfed Require Import Base.Dec Base.StrUtil Gen.Setters.
Import ListNotations.
Open Scope Q_scope.
Open Scope string_scope.

(* ------------------------------------------------------------------ values, dictionaries *)
Inductive value :=
| VNum (q : Q) | VBool (b : bool) | VStr (s : string) | VList (l : list Q) | VDict | VNone.

Inductive kind := AssertRejected | ValueRejected | TypeRejected | ExitK.

(* nested dictionaries are flattened: "DELAY.FEED_SHUTOFF_MONTHS"; a dictionary node itself is (k, VDict) *)
Definition dict := list (string * value).
Definition row := option dict.      (* country_data; None = not supplied *)

Fixpoint set_assoc {A} (k : string) (v : A) (d : list (string * A)) : list (string * A) :=
  match d with
  | [] => [(k, v)]
  | (k', v') :: d' => if String.eqb k k' then (k, v) :: d' else (k', v') :: set_assoc k v d'
  end.

Definition has_key {A} (k : string) (d : list (string * A)) : bool :=
  match lookup k d with Some _ => true | None => false end.

Definition dkey (parent key : string) : string :=
  if String.eqb parent "" then key else parent ++ "." ++ key.

Definition drop_children (p : string) (d : dict) : dict :=
  filter (fun kv => negb (prefix (p ++ ".") (fst kv))) d.

(* ------------------------------------------------------------------ loader state *)
Record lstate := mkst {
  flags : list string;            (* the *_SET attributes that are True *)
  is_global : option bool;        (* IS_GLOBAL_ANALYSIS; None = attribute does not exist yet *)
  desc : string;                  (* scenario_description *)
  consts : dict;                  (* constants_for_params *)
  tconsts : dict }.               (* time_consts_for_params *)

Inductive res := Ok (s : lstate) | Rej (k : kind) (s : lstate).

Definition init_state : lstate :=
  {| flags := []; is_global := None; desc := initial_desc; consts := []; tconsts := [] |}.

Definition with_consts (s : lstate) (d : dict) : lstate :=
  {| flags := flags s; is_global := is_global s; desc := desc s; consts := d; tconsts := tconsts s |}.
Definition with_tconsts (s : lstate) (d : dict) : lstate :=
  {| flags := flags s; is_global := is_global s; desc := desc s; consts := consts s; tconsts := d |}.
Definition with_flags (s : lstate) (f : list string) : lstate :=
  {| flags := f; is_global := is_global s; desc := desc s; consts := consts s; tconsts := tconsts s |}.
Definition with_global (s : lstate) (g : option bool) : lstate :=
  {| flags := flags s; is_global := g; desc := desc s; consts := consts s; tconsts := tconsts s |}.
Definition with_desc (s : lstate) (t : string) : lstate :=
  {| flags := flags s; is_global := is_global s; desc := t; consts := consts s; tconsts := tconsts s |}.

(* ------------------------------------------------------------------ expressions *)
Inductive ev := EvOk (v : value) | EvErr (k : kind).

Definition num2 (f : Q -> Q -> ev) (a b : ev) : ev :=
  match a, b with
  | EvErr k, _ => EvErr k
  | _, EvErr k => EvErr k
  | EvOk (VNum x), EvOk (VNum y) => f x y
  | _, _ => EvErr TypeRejected
  end.

Definition q_is_zero (x : Q) : bool := Qeq_bool x 0.

Fixpoint interp_years (ys : list Q) : list Q :=
  match ys with
  | [] => []
  | a :: t =>
    match t with
    | [] => repeat a 12
    | b :: _ => map (fun j => a + (b - a) * (inject_Z (Z.of_nat j) / 12)) (seq 0 12) ++ interp_years t
    end
  end.

Definition q_nat (x : Q) : option nat :=
  let r := Qred x in
  if Pos.eqb (Qden r) 1 then Some (Z.to_nat (Qnum r)) else None.

Fixpoint eval (r : row) (d : dict) (e : expr) : ev :=
  match e with
  | ENum q => EvOk (VNum q)
  | EBool b => EvOk (VBool b)
  | EStr s => EvOk (VStr s)
  | ERow col =>
    match r with
    | None => EvErr TypeRejected                     (* None[col] *)
    | Some cols => match lookup col cols with Some v => EvOk v | None => EvErr ValueRejected end
    end
  | EConst p k =>
    match lookup (dkey p k) d with Some v => EvOk v | None => EvErr ValueRejected end
  | EAdd a b => num2 (fun x y => EvOk (VNum (x + y))) (eval r d a) (eval r d b)
  | ESub a b => num2 (fun x y => EvOk (VNum (x - y))) (eval r d a) (eval r d b)
  | EMul a b => num2 (fun x y => EvOk (VNum (x * y))) (eval r d a) (eval r d b)
  | EDiv a b => num2 (fun x y => if q_is_zero y then EvErr ValueRejected else EvOk (VNum (x / y)))
                     (eval r d a) (eval r d b)
  | EList l =>
    (fix go (l : list expr) : ev :=
       match l with
       | [] => EvOk (VList [])
       | x :: t =>
         match eval r d x with
         | EvErr k => EvErr k
         | EvOk (VNum q) =>
           match go t with
           | EvOk (VList qs) => EvOk (VList (q :: qs))
           | other => other
           end
         | EvOk _ => EvErr TypeRejected
         end
       end) l
  | ERepeat e n =>
    match eval r d e, eval r d n with
    | EvErr k, _ => EvErr k
    | _, EvErr k => EvErr k
    | EvOk (VNum q), EvOk (VNum k) =>
      match q_nat k with Some c => EvOk (VList (repeat q c)) | None => EvErr TypeRejected end
    | _, _ => EvErr TypeRejected
    end
  | EFishInterp ys off => EvOk (VList (map (fun y => y + off) (interp_years ys)))
  | EDict => EvOk VDict
  end.

(* ------------------------------------------------------------------ statements *)
(* constants_for_params[parent][key] = v *)
Definition write_consts (p k : string) (v : value) (s : lstate) : res :=
  if String.eqb p "" then Ok (with_consts s (set_assoc k v (drop_children k (consts s))))
  else match lookup p (consts s) with
       | None => Rej ValueRejected s
       | Some VDict => Ok (with_consts s (set_assoc (dkey p k) v (consts s)))
       | Some _ => Rej TypeRejected s
       end.

Definition qle (a b : Q) : bool := Qle_bool a b.
Definition in_range (lo x hi : Q) : bool := qle lo x && qle x hi.

Definition qsum (l : list Q) : Q := fold_right Qplus 0 l.

(* pytest.approx(target): |x - target| <= max(1e-6 * |target|, 1e-12) *)
Definition approx_eq (x target : Q) : bool :=
  qle (Qabs' (x - target)) (Qmax' ((1 # 1000000) * Qabs' target) (1 # 1000000000000)).

Fixpoint seaweed_cols (pat dk : string) (cols : dict) (s : lstate) : res :=
  match cols with
  | [] => Ok s
  | (name, v) :: t =>
    if contains pat name then
      match write_consts dk (replace_all pat "" name) v s with
      | Ok s' => seaweed_cols pat dk t s'
      | r => r
      end
    else seaweed_cols pat dk t s
  end.

Definition exec_stmt (r : row) (s : lstate) (st : stmt) : res :=
  match st with
  | SDesc t => Ok (with_desc s (desc s ++ t))
  | SGuard f => if str_mem f (flags s) then Rej AssertRejected s else Ok s
  | SSetFlag f => Ok (with_flags s (f :: flags s))
  | SAssertGlobal w =>
    match is_global s with
    | None => Rej TypeRejected s                       (* AttributeError *)
    | Some b => if Bool.eqb b w then Ok s else Rej AssertRejected s
    end
  | SSetGlobal b => Ok (with_global s (Some b))
  | SNew => Ok (with_consts s [])
  | SWrite p k e =>
    match eval r (consts s) e with
    | EvErr kd => Rej kd s
    | EvOk v => write_consts p k v s
    end
  | STWrite k e =>
    match eval r (consts s) e with
    | EvErr kd => Rej kd s
    | EvOk v => Ok (with_tconsts s (set_assoc k v (tconsts s)))
    end
  | SAssertHas k => if has_key k (consts s) then Ok s else Rej AssertRejected s
  | SAssertRange lo e hi =>
    match eval r (consts s) e with
    | EvErr kd => Rej kd s
    | EvOk (VNum x) => if in_range lo x hi then Ok s else Rej AssertRejected s
    | EvOk _ => Rej TypeRejected s
    end
  | SAssertSumApprox k target =>
    match lookup k (consts s) with
    | Some (VList l) => if approx_eq (qsum l) target then Ok s else Rej AssertRejected s
    | Some _ => Rej TypeRejected s
    | None => Rej ValueRejected s
    end
  | SAssertElemRange k lo hi n =>
    match lookup k (consts s) with
    | Some (VList l) =>
      if forallb (fun x => in_range lo x hi) (firstn n l)
      then (if Nat.leb n (List.length l) then Ok s else Rej ValueRejected s)
      else Rej AssertRejected s
    | Some _ => Rej TypeRejected s
    | None => Rej ValueRejected s
    end
  | SWriteIfRowEq col q p k e =>
    match eval r (consts s) (ERow col) with
    | EvErr kd => Rej kd s
    | EvOk (VNum x) =>
      if Qeq_bool x q then
        match eval r (consts s) e with
        | EvErr kd => Rej kd s
        | EvOk v => write_consts p k v s
        end
      else Ok s
    | EvOk _ => Ok s
    end
  | SSeaweedCols pat dk =>
    match r with
    | None => Rej TypeRejected s
    | Some cols => seaweed_cols pat dk cols s
    end
  end.

Fixpoint exec_body (r : row) (s : lstate) (b : list stmt) : res :=
  match b with
  | [] => Ok s
  | st :: b' =>
    match exec_stmt r s st with
    | Ok s' => exec_body r s' b'
    | rej => rej
    end
  end.

Definition find_setter (name : string) : option setter :=
  find (fun x => String.eqb (s_name x) name) setters.

Definition apply_setter (name : string) (r : row) (s : lstate) : res :=
  match find_setter name with
  | Some x => exec_body r s (s_body x)
  | None => Rej TypeRejected s
  end.

(* the family of a setter = the first flag it guards *)
Fixpoint first_guard (b : list stmt) : option string :=
  match b with
  | [] => None
  | SGuard f :: _ => Some f
  | _ :: b' => first_guard b'
  end.
Definition family (x : setter) : option string := first_guard (s_body x).

Definition check_all_set (s : lstate) : bool :=
  forallb (fun f => str_mem f (flags s)) check_flags.

(* ------------------------------------------------------------------ direct call histories *)
Inductive hcall := HSet (name : string) | HConst (key : string) (v : value).

Definition run_call (r : row) (s : lstate) (c : hcall) : res :=
  match c with
  | HSet name => apply_setter name r s
  | HConst k v => write_consts "" k v s
  end.

Fixpoint run_history (r : row) (s : lstate) (cs : list hcall) : res :=
  match cs with
  | [] => Ok s
  | c :: cs' =>
    match run_call r s c with
    | Ok s' => run_history r s' cs'
    | rej => rej
    end
  end.

(* ------------------------------------------------------------------ option dictionaries *)
Inductive optv :=
| ONum (q : Q)
| OStr (s : string)              (* a string float() rejects *)
| OStrNum (s : string) (q : Q)   (* a string of digits: float(s) = int(s) = q *)
| ONone.
Definition options := list (string * optv).

Definition optv_is_str (v : optv) (s : string) : bool :=
  match v with
  | OStr t | OStrNum t _ => String.eqb t s
  | _ => false
  end.

Definition value_of_optv (v : optv) : value :=
  match v with
  | ONum q => VNum q
  | OStr s | OStrNum s _ => VStr s
  | ONone => VNone
  end.

Inductive conv := CQ (q : Q) | CErr (k : kind).
Definition to_float (v : optv) : conv :=
  match v with
  | ONum q | OStrNum _ q => CQ q
  | OStr _ => CErr ValueRejected
  | ONone => CErr TypeRejected
  end.
Definition Qtrunc (q : Q) : Q := inject_Z (Z.quot (Qnum q) (Zpos (Qden q))).
Definition to_int (v : optv) : conv :=
  match v with
  | ONum q => CQ (Qtrunc q)
  | OStrNum _ q => CQ q
  | OStr _ => CErr ValueRejected
  | ONone => CErr TypeRejected
  end.

(* alter_scenario_if_known_to_fail *)
Inductive ares := AOk (o : options) | ARej (k : kind).

Definition value_is_str (v : value) (s : string) : bool :=
  match v with VStr t => String.eqb t s | _ => false end.

Definition cond_matches (opts : options) (c : string * list string) : bool :=
  match lookup (fst c) opts with
  | Some v => existsb (optv_is_str v) (snd c)
  | None => false
  end.

Fixpoint alter (fs : list failing) (opts : options) (iso3 : value) : ares :=
  match fs with
  | [] => AOk opts
  | f :: fs' =>
    if negb (forallb (fun c => has_key (fst c) opts) (f_conds f)) then ARej AssertRejected
    else if forallb (cond_matches opts) (f_conds f) && value_is_str iso3 (f_code f)
         then AOk (set_assoc (fst (f_corr f)) (OStr (snd (f_corr f))) opts)
         else alter fs' opts iso3
  end.

Definition run_dact (r : row) (s : lstate) (a : dact) : res :=
  match a with
  | DStmt st => exec_stmt r s st
  | DCall name => apply_setter name r s
  | DAssertNoRow => match r with None => Ok s | Some _ => Rej AssertRejected s end
  | DExit => Rej ExitK s
  end.

Fixpoint run_dacts (r : row) (s : lstate) (l : list dact) : res :=
  match l with
  | [] => Ok s
  | a :: l' =>
    match run_dact r s a with
    | Ok s' => run_dacts r s' l'
    | rej => rej
    end
  end.

Definition find_branch (v : optv) (brs : list (string * list dact)) : option (list dact) :=
  match find (fun br => optv_is_str v (fst br)) brs with
  | Some br => Some (snd br)
  | None => None
  end.

Definition run_step (opts : options) (r : row) (s : lstate) (st : dstep) : res :=
  match st with
  | DChain key brs =>
    match lookup key opts with
    | None => Rej ValueRejected s
    | Some v =>
      match find_branch v brs with
      | None => Rej AssertRejected s
      | Some acts => run_dacts r s acts
      end
    end
  | DCopyOpt ck ok =>
    match lookup ok opts with
    | None => Rej ValueRejected s
    | Some v => write_consts "" ck (value_of_optv v) s
    end
  end.

Fixpoint run_steps (opts : options) (r : row) (s : lstate) (l : list dstep) : res :=
  match l with
  | [] => Ok s
  | st :: l' =>
    match run_step opts r s st with
    | Ok s' => run_steps opts r s' l'
    | rej => rej
    end
  end.

(* numeric overrides *)
Fixpoint ov_substr (pat suf : string) (as_int : bool) (opts : options) (s : lstate) : res :=
  match opts with
  | [] => Ok s
  | (k, v) :: t =>
    if contains pat k then
      match (if as_int then to_int v else to_float v) with
      | CErr kd => Rej kd s
      | CQ x =>
        match write_consts "" (k ++ suf) (VNum x) s with
        | Ok s' => ov_substr pat suf as_int t s'
        | rej => rej
        end
      end
    else ov_substr pat suf as_int t s
  end.

Definition mul_key (m : Q) (k : string) (s : lstate) : res :=
  match lookup k (consts s) with
  | None => Rej ValueRejected s
  | Some (VNum x) => Ok (with_consts s (set_assoc k (VNum (x * m)) (consts s)))
  | Some _ => Rej TypeRejected s
  end.

Fixpoint mul_keys (m : Q) (ks : list string) (s : lstate) : res :=
  match ks with
  | [] => Ok s
  | k :: t => match mul_key m k s with Ok s' => mul_keys m t s' | rej => rej end
  end.

Fixpoint mul_keys_try (m : Q) (ks : list string) (s : lstate) : lstate :=
  match ks with
  | [] => s
  | k :: t => match mul_key m k s with Ok s' => mul_keys_try m t s' | Rej _ _ => s end
  end.

Definition run_ovr (opts : options) (s : lstate) (o : ovr) : res :=
  match o with
  | OvSubstr pat suf as_int => ov_substr pat suf as_int opts s
  | OvSet key lo hi =>
    match lookup key opts with
    | None => Ok s
    | Some v =>
      match to_float v with
      | CErr kd => Rej kd s
      | CQ x =>
        match write_consts "" key (VNum x) s with
        | Ok s' => if in_range lo x hi then Ok s' else Rej AssertRejected s'
        | rej => rej
        end
      end
    end
  | OvMul okey lo hi keys trys =>
    match lookup okey opts with
    | None => Ok s
    | Some v =>
      match to_float v with
      | CErr kd => Rej kd s
      | CQ m =>
        if in_range lo m hi then
          match mul_keys m keys s with
          | Ok s' => Ok (mul_keys_try m trys s')
          | rej => rej
          end
        else Rej AssertRejected s
      end
    end
  end.

Fixpoint run_ovrs (opts : options) (s : lstate) (l : list ovr) : res :=
  match l with
  | [] => Ok s
  | o :: l' => match run_ovr opts s o with Ok s' => run_ovrs opts s' l' | rej => rej end
  end.

(* set_depending_on_option: nothing of the partially built state is returned on rejection *)
Inductive dres := DOk (s : lstate) | DRej (k : kind).

Inductive isoev := IsoOk (v : value) | IsoErr (k : kind).
Definition iso3_of (r : row) : isoev :=
  match r with
  | None => IsoOk (VStr "WOR")
  | Some cols => match lookup "iso3" cols with Some v => IsoOk v | None => IsoErr ValueRejected end
  end.

Definition dispatch (opts : options) (r : row) : dres :=
  if negb (forallb (fun k => has_key k opts) required_keys) then DRej AssertRejected
  else match iso3_of r with
       | IsoErr k => DRej k
       | IsoOk iso =>
         match alter failing_scenarios opts iso with
         | ARej k => DRej k
         | AOk opts' =>
           match run_steps opts' r init_state dispatch_steps with
           | Rej k _ => DRej k
           | Ok s =>
             match run_ovrs opts' s overrides with
             | Rej k _ => DRej k
             | Ok s' => DOk s'
             end
           end
         end
       end.

(* ------------------------------------------------------------------ head-count override (animal_populations.main) *)
Definition head_column (key : string) : option string :=
  if contains head_pattern key
  then Some (if head_derive_removesuffix then remove_suffix head_derive_arg key
             else strip_chars head_derive_arg key)
  else None.

Definition remap_code (code : string) : string :=
  match lookup code code_remap with Some c => c | None => code end.
(* the row label the override is written to, and the one create_animal_objects reads *)
Definition head_write_label (code : string) : string :=
  if head_override_before_remap then code else remap_code code.
Definition head_read_label (code : string) : string := remap_code code.

(* option key -> constants key -> column: the composition performed by OvSubstr "_head" and main *)
Definition head_const_key (optkey : string) : string := optkey ++ "_start".

(* ------------------------------------------------------------------ comparators used by generated case files *)
Definition value_close (tol : Q) (a b : value) : bool :=
  match a, b with
  | VNum x, VNum y => close_rel tol x y
  | VBool x, VBool y => Bool.eqb x y
  | VStr x, VStr y => String.eqb x y
  | VList x, VList y => close_rel_list tol x y
  | VDict, VDict => true
  | VNone, VNone => true
  | _, _ => false
  end.

(* same key set (model keys are duplicate-free by construction) and close values *)
Definition dict_close (tol : Q) (model impl : dict) : bool :=
  Nat.eqb (List.length model) (List.length impl) &&
  forallb (fun kv => match lookup (fst kv) model with
                     | Some v => value_close tol v (snd kv)
                     | None => false
                     end) impl.

Definition flags_same (model impl : list string) : bool :=
  forallb (fun f => Bool.eqb (str_mem f model) (str_mem f impl)) flag_names.

Definition kind_eqb (a b : kind) : bool :=
  match a, b with
  | AssertRejected, AssertRejected | ValueRejected, ValueRejected
  | TypeRejected, TypeRejected | ExitK, ExitK => true
  | _, _ => false
  end.

Definition optb_eqb (a b : option bool) : bool :=
  match a, b with
  | None, None => true
  | Some x, Some y => Bool.eqb x y
  | _, _ => false
  end.

(* what the implementation did *)
Inductive obs :=
| ObsOk (c t : dict) (f : list string) (g : option bool) (d : string)
| ObsRej (k : option kind) (c : option dict).     (* None kind = an exception class the model never produces *)

Definition cmp_state (tol : Q) (s : lstate) (c t : dict) (f : list string) (g : option bool) (d : string) : nat :=
  if negb (dict_close tol (consts s) c) then 4
  else if negb (dict_close tol (tconsts s) t) then 5
  else if negb (flags_same (flags s) f) then 6
  else if negb (String.eqb (desc s) d) then 7
  else if negb (optb_eqb (is_global s) g) then 8
  else 0.

(* 0 agree; 1 model accepts, implementation rejects; 2 model rejects, implementation accepts;
   3 rejection kinds differ; 4..8 accepted but states differ; 9 dictionary at rejection differs *)
Definition check_dispatch (tol : Q) (opts : options) (r : row) (o : obs) : nat :=
  match dispatch opts r, o with
  | DOk s, ObsOk c t f g d => cmp_state tol s c t f g d
  | DOk _, ObsRej _ _ => 1
  | DRej _, ObsOk _ _ _ _ _ => 2
  | DRej k, ObsRej (Some k') _ => if kind_eqb k k' then 0 else 3
  | DRej _, ObsRej None _ => 3
  end.

Definition check_history (tol : Q) (cs : list hcall) (r : row) (o : obs) : nat :=
  match run_history r init_state cs, o with
  | Ok s, ObsOk c t f g d => cmp_state tol s c t f g d
  | Ok _, ObsRej _ _ => 1
  | Rej _ _, ObsOk _ _ _ _ _ => 2
  | Rej k s, ObsRej (Some k') oc =>
    if kind_eqb k k' then
      match oc with
      | Some c => if dict_close tol (consts s) c then 0 else 9
      | None => 0
      end
    else 3
  | Rej _ _, ObsRej None _ => 3
  end.

Definition check_head (key : string) (observed : option string) : nat :=
  match head_column key, observed with
  | Some a, Some b => if String.eqb a b then 0 else 1
  | None, None => 0
  | _, _ => 2
  end.

(* compact encoding used by case files: keys are indices into a per-file table of strings *)
Inductive obsi :=
| ObsOkI (c t : list (nat * value)) (f : list nat) (g : option bool) (d : string)
| ObsRejI (k : option kind) (c : option (list (nat * value))).
Definition resolve (ks : list string) (d : list (nat * value)) : dict :=
  map (fun p => (nth (fst p) ks "", snd p)) d.
Definition obs_of (ks : list string) (o : obsi) : obs :=
  match o with
  | ObsOkI c t f g d => ObsOk (resolve ks c) (resolve ks t) (map (fun i => nth i ks "") f) g d
  | ObsRejI k c => ObsRej k (option_map (resolve ks) c)
  end.

(* exhaustive comparison of alter_scenario_if_known_to_fail: the full product of the option families, enumerated here in
   the same order as itertools.product; the implementation's outcome per combination is an index into `table` *)
Fixpoint opt_product (fams : list (string * list string)) : list options :=
  match fams with
  | [] => [[]]
  | (k, vs) :: t => flat_map (fun v => map (fun o => (k, OStr v) :: o) (opt_product t)) vs
  end.

Definition optv_eqb (a b : optv) : bool :=
  match a, b with
  | OStr x, OStr y => String.eqb x y
  | OStrNum x _, OStrNum y _ => String.eqb x y
  | ONum x, ONum y => Qeq_bool x y
  | ONone, ONone => true
  | _, _ => false
  end.

Definition optv_text (v : optv) : string :=
  match v with OStr s | OStrNum s _ => s | ONum _ => "<number>" | ONone => "<none>" end.

(* "" when the dictionary comes back unchanged, otherwise "key=new value" for the entries that differ *)
Definition alter_outcome (o : options) (iso : string) : string :=
  match alter failing_scenarios o (VStr iso) with
  | ARej _ => "<rejected>"
  | AOk o' =>
    String.concat "," (flat_map (fun kv => match lookup (fst kv) o' with
                                           | Some v => if optv_eqb v (snd kv) then [] else [fst kv ++ "=" ++ optv_text v]
                                           | None => [fst kv ++ "=<gone>"]
                                           end) o)
  end.

Fixpoint first_alter_mismatch (i : nat) (rest : options) (iso : string) (table : list string)
         (os : list options) (es : list nat) : nat :=
  match os, es with
  | [], [] => 0
  | o :: os', e :: es' =>
    if String.eqb (alter_outcome (o ++ rest)%list iso) (nth e table "<no such outcome>")
    then first_alter_mismatch (S i) rest iso table os' es'
    else S i
  | _, _ => 999999
  end.

(* 0 = model and implementation agree on every combination; n+1 = first disagreement at combination n *)
Definition check_alter (fams : list (string * list string)) (rest : options) (iso : string)
           (table : list string) (expected : list nat) : nat :=
  first_alter_mismatch 0 rest iso table (opt_product fams) expected.
