(* Model/Aggregate.v  (M8, C15)
   ScenarioRunnerNoTrade.get_countries_to_run_and_skip and the aggregation loop of
   ScenarioRunnerNoTrade.run_model_no_trade (src/scenarios/run_model_no_trade.py), transliterated.
   run_optimizer_for_country is abstracted as  frac : iso3 -> option Q  (None = NaN).
   No proofs here (Proofs/Aggregate.v). *)
From Coq Require Import ZArith QArith Qminmax List String Bool.
From Allfed Require Import Base.StrUtil Model.Tables.
Import ListNotations.
Open Scope Q_scope.
Open Scope string_scope.

(* ------------------------------------------------------------------ selection *)

Definition has_bang (c : string) : bool := contains "!" c.          (* "!" in c *)
Definition strip_bang (c : string) : string := replace_all "!" "" c. (* c.replace("!", "") *)

(* returns (exclusive_countries_to_run, countries_to_skip) *)
Definition get_run_skip (l : list string) : list string * list string :=
  match l with
  | [] => ([], [])
  | _ =>
    if forallb has_bang l
    then ([], map strip_bang (filter has_bang l))
    else (filter (fun c => negb (has_bang c)) l, [])
  end.

(* the two `continue` tests at the top of the loop body *)
Definition selected_rs (rs : list string * list string) (code : string) : bool :=
  let (excl, skip) := rs in
  (match excl with [] => true | _ => str_mem code excl end) && negb (str_mem code skip).

Definition selected (l : list string) (code : string) : bool := selected_rs (get_run_skip l) code.

(* ------------------------------------------------------------------ apply_custom_parameters *)

(* for key, value in scenario_option.items(): if key in country_data: country_data[key] = float(value)
   (only numeric-valued options that name a column matter here; the kg_meat_per_large_animal special case adds a
   column the aggregation never reads) *)
Definition apply_custom (opts : list (string * Q)) (r : row) : row :=
  fold_left (fun r kv => if has_col r (fst kv) then set_cell (fst kv) (Some (snd kv)) r else r) opts r.

(* ------------------------------------------------------------------ the loop *)

(* needs_ratio >= 1 -> 1, else needs_ratio *)
Definition cap (f : Q) : Q := if Qle_bool 1 f then 1 else f.

Record acc := { net_pop : Q; net_fed : Q; keys : list string; n_errors : nat }.
Definition acc0 : acc := {| net_pop := 0; net_fed := 0; keys := []; n_errors := 0 |}.

Inductive agg_res := AggRejected | AggOk (a : acc).

(* results[country_name] = ... : a dict keeps the first insertion position of a key *)
Definition dict_add (k : string) (ks : list string) : list string :=
  if str_mem k ks then ks else ks ++ [k].

(* one iteration; None = AssertionError out of verify_country_data *)
Definition agg_step (rs : list string * list string) (opts : list (string * Q)) (frac : string -> option Q)
           (ret : bool) (a : acc) (r0 : row) : option acc :=
  if negb (selected_rs rs (iso3 r0)) then Some a
  else
    let r := apply_custom opts r0 in
    if negb (verify_ok r) then None
    else match getq r "population" with
         | None => Some a                                   (* np.isnan(population): continue *)
         | Some pop =>
           match frac (iso3 r) with
           | None => Some {| net_pop := net_pop a; net_fed := net_fed a; keys := keys a;
                             n_errors := S (n_errors a) |}  (* np.isnan(needs_ratio) *)
           | Some f =>
             Some {| net_pop := net_pop a + pop;
                     net_fed := net_fed a + cap f * pop;
                     keys := if ret then dict_add (cname r) (keys a) else keys a;
                     n_errors := n_errors a |}
           end
         end.

Fixpoint agg_loop (rs : list string * list string) (opts : list (string * Q)) (frac : string -> option Q)
         (ret : bool) (rows : list row) (a : acc) : agg_res :=
  match rows with
  | [] => AggOk a
  | r :: rows' =>
    match agg_step rs opts frac ret a r with
    | None => AggRejected
    | Some a' => agg_loop rs opts frac ret rows' a'
    end
  end.

(* run_model_no_trade: assert len(scenario_option) > 0 first (n_opts = len(scenario_option)) *)
Definition run_no_trade (n_opts : nat) (opts : list (string * Q)) (countries_list : list string)
           (frac : string -> option Q) (ret : bool) (rows : list row) : agg_res :=
  if Nat.eqb n_opts 0 then AggRejected
  else agg_loop (get_run_skip countries_list) opts frac ret rows acc0.

(* the aggregate fraction fed (printed by the code as round(net_pop_fed / net_pop, 4) when net_pop > 0) *)
Definition aggregate (a : acc) : Q := net_fed a / net_pop a.

(* ------------------------------------------------------------------ specification side (independent of the loop) *)

Definition opt0 (o : option Q) : Q := match o with Some x => x | None => 0 end.
Definition pop_of (r : row) : Q := opt0 (getq r "population").

Definition sel_rows (l : list string) (rows : list row) : list row :=
  filter (fun r => selected l (iso3 r)) rows.

Definition sum_pop (rows : list row) : Q := fold_right (fun r s => pop_of r + s) 0 rows.
Definition sum_fed (frac : string -> option Q) (rows : list row) : Q :=
  fold_right (fun r s => pop_of r * Qmin 1 (opt0 (frac (iso3 r))) + s) 0 rows.

(* ------------------------------------------------------------------ comparator for the correspondence cases *)

Definition frac_of (d : option Q) (t : list (string * option Q)) (c : string) : option Q :=
  match lookup c t with Some v => v | None => d end.

Fixpoint list_eqb (a b : list string) : bool :=
  match a, b with
  | [], [] => true
  | x :: a', y :: b' => String.eqb x y && list_eqb a' b'
  | _, _ => false
  end.

Definition Qabs_ (x : Q) : Q := if Qle_bool 0 x then x else - x.
Definition close_ (tol a b : Q) : bool :=
  Qle_bool (Qabs_ (a - b)) (tol * (if Qle_bool 1 (Qabs_ a) then Qabs_ a else 1)).

(* row overrides applied to the table before the run (the harness applies the same to the DataFrame):
   (iso3, column, value) *)
Definition override (ovs : list (string * string * option Q)) (rows : list row) : list row :=
  map (fun r => fold_left (fun r o => let '(c, k, v) := o in
                                     if String.eqb c (iso3 r) then set_cell k v r else r) ovs r) rows.

(* 0 agree; 1 model rejects, implementation accepts; 2 model accepts, implementation rejects;
   3 net_pop differs; 4 net_pop_fed differs; 5 result keys differ *)
Definition check_agg (tol : Q) (rows : list row) (ovs : list (string * string * option Q)) (n_opts : nat)
           (opts : list (string * Q)) (l : list string) (d : option Q) (fr : list (string * option Q)) (ret : bool)
           (observed : option (Q * Q * list string)) : nat :=
  match run_no_trade n_opts opts l (frac_of d fr) ret (override ovs rows), observed with
  | AggRejected, None => 0
  | AggRejected, Some _ => 1
  | AggOk _, None => 2
  | AggOk a, Some (np, nf, ks) =>
    if negb (close_ tol (net_pop a) np) then 3
    else if negb (close_ tol (net_fed a) nf) then 4
    else if negb (list_eqb (keys a) ks) then 5 else 0
  end%nat.
