(* C14 - abstract model of process-global state and of runs that interact with it.
   Executable definitions only (no proofs here; see Proofs/Isolation.v).

   The process has a store G of cells (the attributes of the class-level object
   `Food.conversions`, plus any other module-level mutable the harness finds).  A run is a
   deterministic program: its only interaction with the store is by reading and writing
   cells, and everything it does next (including its result) is a function of its own input
   (closed over in the program) and of the values it has read so far.  This is the
   interaction-tree shape `Ret r | Rd c k | Wr c v k`; `exec` is structurally recursive.

   Everything is parametric in the type of cells (with ANY boolean comparison `ceqb`; the
   results need no property of it), of values and of results. *)
From Coq Require Import List Bool Arith NArith.
Import ListNotations.

Section Isolation.
  Variable cell : Type.
  Variable ceqb : cell -> cell -> bool.
  Variable V : Type.
  Variable R : Type.

  Definition store := cell -> V.
  Definition upd (G : store) (c : cell) (v : V) : store :=
    fun c' => if ceqb c c' then v else G c'.

  Inductive prog : Type :=
  | Ret (r : R)
  | Rd (c : cell) (k : V -> prog)
  | Wr (c : cell) (v : V) (k : prog).

  Inductive event : Type :=
  | ERd (c : cell) (v : V)
  | EWr (c : cell) (v : V).

  (* result, final store, trace *)
  Fixpoint exec (p : prog) (G : store) : R * store * list event :=
    match p with
    | Ret r => (r, G, [])
    | Rd c k => let '(r, G', t) := exec (k (G c)) G in (r, G', ERd c (G c) :: t)
    | Wr c v k => let '(r, G', t) := exec k (upd G c v) in (r, G', EWr c v :: t)
    end.

  Definition result_of (p : prog) (G : store) : R := fst (fst (exec p G)).
  Definition final_of (p : prog) (G : store) : store := snd (fst (exec p G)).
  Definition trace_of (p : prog) (G : store) : list event := snd (exec p G).

  (* membership with the SAME argument order as `upd` *)
  Fixpoint mem (c : cell) (W : list cell) : bool :=
    match W with
    | [] => false
    | w :: W' => ceqb w c || mem c W'
    end.

  (* discipline of one run's trace: every read of a cell is preceded, in the same run, by a
     write of that cell.  W = cells written so far in this run. *)
  Fixpoint disc_from (W : list cell) (t : list event) : bool :=
    match t with
    | [] => true
    | ERd c _ :: t' => mem c W && disc_from W t'
    | EWr c _ :: t' => disc_from (c :: W) t'
    end.
  Definition disciplined (t : list event) : bool := disc_from [] t.

  Fixpoint written (t : list event) : list cell :=
    match t with
    | [] => []
    | ERd _ _ :: t' => written t'
    | EWr c _ :: t' => written t' ++ [c]
    end.

  (* histories: runs executed one after the other in one process *)
  Fixpoint exec_hist (h : list prog) (G : store) : list R * store :=
    match h with
    | [] => ([], G)
    | p :: h' =>
        let '(r, G', _) := exec p G in
        let '(rs, G'') := exec_hist h' G' in (r :: rs, G'')
    end.
  Definition results_of (h : list prog) (G : store) : list R := fst (exec_hist h G).

  (* the whole-process event log: events tagged with the index of the run that issued them *)
  Fixpoint hist_log (i : nat) (h : list prog) (G : store) : list (nat * event) :=
    match h with
    | [] => []
    | p :: h' => map (pair i) (trace_of p G) ++ hist_log (S i) h' (final_of p G)
    end.

  Fixpoint last_writer (c : cell) (L : list (cell * nat)) : option nat :=
    match L with
    | [] => None
    | (w, r) :: L' => if ceqb w c then Some r else last_writer c L'
    end.

  (* discipline of a whole log (the form needed for module-level mutable containers): no run
     reads a cell whose last write was by another run, or that was never written.
     L = last writer of every cell written so far. *)
  Fixpoint hdisc_from (L : list (cell * nat)) (t : list (nat * event)) : bool :=
    match t with
    | [] => true
    | (r, ERd c _) :: t' =>
        match last_writer c L with Some r' => Nat.eqb r' r | None => false end && hdisc_from L t'
    | (r, EWr c _) :: t' => hdisc_from ((c, r) :: L) t'
    end.
  Definition hdisciplined (t : list (nat * event)) : bool := hdisc_from [] t.

  (* coherence: a read returns the value of the latest write recorded in the trace (when
     there is one).  Traces of `exec` are coherent (Proofs/Isolation.v); a recorded trace
     that is not was produced by a store modified behind the recorded interface. *)
  Variable veqb : V -> V -> bool.
  Fixpoint last_value (c : cell) (St : list (cell * V)) : option V :=
    match St with
    | [] => None
    | (w, v) :: St' => if ceqb w c then Some v else last_value c St'
    end.
  Fixpoint coh_from (St : list (cell * V)) (t : list event) : bool :=
    match t with
    | [] => true
    | ERd c v :: t' =>
        match last_value c St with Some v' => veqb v' v | None => true end && coh_from St t'
    | EWr c v :: t' => coh_from ((c, v) :: St) t'
    end.
  Definition coherent (t : list event) : bool := coh_from [] t.

  (* index of the first read that breaks the discipline (for reporting) *)
  Fixpoint first_bad (n : nat) (W : list cell) (t : list event) : option nat :=
    match t with
    | [] => None
    | ERd c _ :: t' => if mem c W then first_bad (S n) W t' else Some n
    | EWr c _ :: t' => first_bad (S n) (c :: W) t'
    end.
End Isolation.

Arguments Ret {cell V R}.
Arguments Rd {cell V R}.
Arguments Wr {cell V R}.
Arguments ERd {cell V}.
Arguments EWr {cell V}.

(* ------------------------------------------------------------------ recorded traces (case files)
   cells and values are numbered by the harness (binary naturals); value numbers identify
   the exact repr of the Python value (floats by float.hex()). *)
Definition rev_ := @event N N.
Definition Rv (c v : N) : rev_ := ERd c v.
Definition Wv (c v : N) : rev_ := EWr c v.

(* 0 = disciplined and coherent; 1 = a read before any write by the same run; 2 = a read
   returned something else than the run's own last write; 3 = both *)
Definition check_run (t : list rev_) : nat :=
  (if @disciplined N N.eqb N t then 0 else 1) + (if @coherent N N.eqb N N.eqb t then 0 else 2).

Definition first_bad_read (t : list rev_) : option nat := @first_bad N N.eqb N 0 [] t.

(* whole-process log: (tag, event); `runs` = tags of the model runs.  Every read issued by a
   run must see a cell last written under the same tag.  0 = ok, 1 = not *)
Fixpoint hdisc_runs (runs : list nat) (L : list (N * nat)) (t : list (nat * rev_)) : bool :=
  match t with
  | [] => true
  | (r, ERd c _) :: t' =>
      (negb (existsb (Nat.eqb r) runs) ||
       match @last_writer N N.eqb c L with Some r' => Nat.eqb r' r | None => false end)
      && hdisc_runs runs L t'
  | (r, EWr c _) :: t' => hdisc_runs runs ((c, r) :: L) t'
  end.

Definition tag_all (r : nat) (t : list rev_) : list (nat * rev_) := map (pair r) t.

Definition check_log (runs : list nat) (segs : list (nat * list rev_)) : nat :=
  if hdisc_runs runs [] (concat (map (fun s => tag_all (fst s) (snd s)) segs)) then 0 else 1.

(* the model predicts (c14_noninterference) that a disciplined run issues the SAME events
   whatever store it starts from: compare the trace recorded inside a batch with the trace of
   the same run recorded alone in a fresh process *)
Definition ev_eqb (a b : rev_) : bool :=
  match a, b with
  | ERd c v, ERd c' v' => N.eqb c c' && N.eqb v v'
  | EWr c v, EWr c' v' => N.eqb c c' && N.eqb v v'
  | _, _ => false
  end.
Fixpoint same_trace (a b : list rev_) : bool :=
  match a, b with
  | [], [] => true
  | x :: a', y :: b' => ev_eqb x y && same_trace a' b'
  | _, _ => false
  end.

(* pre / post: conservative events for shared state the proxy cannot see (found by the
   snapshot diff): a write at the end of the run that changed it, a read at the start of
   every later run.  code = check_run + 4 when the batch trace differs from the trace alone *)
Definition check_case (pre tr post alone : list rev_) : nat :=
  check_run (pre ++ tr ++ post) + (if same_trace tr alone then 0 else 4).
