(* M5 - herd simulation of src/food_system/animal_populations.py, read as exact rational arithmetic.
   Executable definitions only (no proofs).  Transliteration, function by function, of
     AnimalSpecies.feed_the_species / net_energy_required_per_species / one_LSU_monthly_billion_kcal
     AnimalPopulation.feed_animals, calculate_* , other_death_pregnant_adjustment, calculate_final_population
     AnimalModelBuilder.get_optimal_next_animal_to_feed (sort key and order)
     calculate_net_slaughter_hours_by_size and the month loop of main().
   Python comparisons are kept in the direction the code writes them. *)
From Coq Require Import ZArith QArith Qabs List Bool.
From Allfed Require Import Base.QRound.
Import ListNotations.
Open Scope Q_scope.

Definition Qltb (x y : Q) : bool := negb (Qle_bool y x).        (* x < y *)
Definition pymin (x y : Q) : Q := if Qltb y x then y else x.    (* min(x, y) *)
Definition pymax (x y : Q) : Q := if Qltb x y then y else x.    (* max(x, y) *)

(* ------------------------------------------------------------------ feeding (C07) *)

(* one_LSU_monthly_billion_kcal: ((29000 / 12) / 4.187) * 1000 / 1e9 *)
Definition one_LSU : Q := ((29000 / 12) / (4187 # 1000)) * 1000 / 1000000000.

(* net_energy_required_per_species = livestock_unit * one_LSU * LSU_factor * current_population *)
Definition ne_required (lsu lsu_factor cur : Q) : Q := lsu * one_LSU * lsu_factor * cur.

Record feeder := {
  fd_cur : Q;      (* current_population *)
  fd_req : Q;      (* NE_balance.kcals after reset_NE_balance *)
  fd_rum : bool;   (* animal in ruminants *)
  fd_eg : Q;       (* digestion_efficiency["grass"] *)
  fd_ef : Q        (* digestion_efficiency["feed"] *)
}.

Record fedout := {
  fo_grass : Q;    (* grass_input.kcals on return *)
  fo_feed : Q;     (* feed_input.kcals on return *)
  fo_bal : Q;      (* NE_balance.kcals on return *)
  fo_fed : Q       (* population_fed on return *)
}.

Definition feed_the_species (s : feeder) (g f : Q) : fedout :=
  let bal := fd_req s in
  let cur := fd_cur s in
  if Qeq_bool bal 0 then {| fo_grass := g; fo_feed := f; fo_bal := bal; fo_fed := cur |}
  else
    let neg := if fd_rum s then g * fd_eg s else 0 in
    let nef := f * fd_ef s in
    if Qle_bool bal neg then
      {| fo_grass := g - bal / fd_eg s; fo_feed := f; fo_bal := 0; fo_fed := cur |}
    else
      let req1 := if Qltb 0 neg then bal - neg else bal in
      let g1 := if Qltb 0 neg then 0 else g in
      if Qle_bool req1 nef then
        {| fo_grass := g1; fo_feed := f - req1 / fd_ef s; fo_bal := 0; fo_fed := cur |}
      else
        {| fo_grass := g1; fo_feed := 0; fo_bal := bal - (neg + nef);
           fo_fed := pymin (Qround (((neg + nef) / bal) * cur)) cur |}.

(* feed_animals: the list is served in the order given; grass and feed are threaded through *)
Fixpoint feed_chain (l : list feeder) (g f : Q) : list fedout * Q * Q :=
  match l with
  | [] => ([], g, f)
  | s :: l' =>
      let o := feed_the_species s g f in
      let '(os, g', f') := feed_chain l' (fo_grass o) (fo_feed o) in
      (o :: os, g', f')
  end.

(* (grass used, feed used) by each herd of the list, in list order *)
Fixpoint used_chain (l : list feeder) (g f : Q) : list (Q * Q) :=
  match l with
  | [] => []
  | s :: l' =>
      let o := feed_the_species s g f in
      (g - fo_grass o, f - fo_feed o) :: used_chain l' (fo_grass o) (fo_feed o)
  end.

(* quantities of one feeding, derived *)
Definition delivered (s : feeder) (o : fedout) : Q := fd_req s - fo_bal o.
Definition starving (s : feeder) (o : fedout) : Q := fd_cur s - fo_fed o.   (* calculate_starving_animals_after_feed *)

(* get_optimal_next_animal_to_feed: key and (stable, descending) order *)
Definition priority_key (kcals_per_head lsu lsu_factor ef hours : Q) : Q :=
  kcals_per_head / hours + ((lsu * one_LSU * lsu_factor) / ef) / hours.

Fixpoint insert_desc {A : Type} (key : A -> Q) (x : A) (l : list A) : list A :=
  match l with
  | [] => [x]
  | y :: l' => if Qle_bool (key y) (key x) then x :: l else y :: insert_desc key x l'
  end.

(* sorted(..., reverse=True) is stable: equal keys keep their original relative order *)
Definition sort_desc {A : Type} (key : A -> Q) (l : list A) : list A :=
  fold_right (insert_desc key) [] l.

(* ------------------------------------------------------------------ month step (C06) *)

Inductive size := Small | Medium | Large.
Definition size_eqb (a b : size) : bool :=
  match a, b with Small, Small | Medium, Medium | Large, Large => true | _, _ => false end.

Record sstatic := {
  st_milk : bool;        (* animal_function == "milk" / "milk" in animal_type *)
  st_sp : nat;           (* animal_species (identifier) *)
  st_size : size;
  st_rum : bool;
  st_lsu : Q; st_lsuf : Q; st_eg : Q; st_ef : Q;
  st_hours : Q;          (* animal_slaughter_hours *)
  st_base_sl : Q;        (* baseline_slaughter *)
  st_target : Q;         (* target_population_head *)
  st_death : Q;          (* other_animal_death_rate_monthly *)
  st_perpreg : Q;        (* animals_per_pregnancy *)
  st_ratio : Q;          (* birth_ratio *)
  st_gest : Q;           (* gestation *)
  st_cull : Q;           (* transfer_culling_fraction *)
  st_retfrac : Q;        (* retiring_milk_animals_fraction (0 for meat herds: unused) *)
  st_starv : Q;          (* starvation_death_fraction *)
  st_red : Q;            (* reduction_in_animal_breeding *)
  st_tfrac : Q           (* target_population_fraction *)
}.

Record sstate := {
  s_pop : Q;             (* population[-1] *)
  s_sl : Q;              (* slaughter[-1] *)
  s_ptot : Q;            (* pregnant_animals_total[-1] *)
  s_pbirth : Q;          (* pregnant_animals_birthing_this_month[-1] *)
  s_pfrac : Q            (* pregnant_animal_slaughter_fraction *)
}.

(* country constants: homekill_hours_total_month = 0, other_death_homekill_rate = 0.5, homekill_fraction = 0 *)
Definition hk_hours_total : Q := 0.
Definition hk_other_rate : Q := 1 # 2.
Definition hk_fraction : Q := 0.

(* calculate_breeding_changes under the guard of calculate_additive_births *)
Definition breeding (m : Q) (st : sstatic) (s : sstate) : sstate :=
  if Qle_bool (Qabs (m - st_gest st)) (1 # 2) then
    {| s_pop := s_pop s; s_sl := s_sl s;
       s_ptot := s_ptot s * (1 - st_red st);
       s_pbirth := s_pbirth s * (1 - st_red st);
       s_pfrac := 0 |}
  else s.

(* calculate_births: (new births of this herd, surviving transfer births) *)
Definition births (st : sstatic) (s : sstate) : Q * Q :=
  let nb := (s_pbirth s * st_perpreg st) / st_ratio st in
  (nb, (nb * (st_ratio st - 1)) * (1 - st_cull st)).

Definition retiring (st : sstatic) (s : sstate) : Q := s_pop s * st_retfrac st.

Record phaseA := { a_state : sstate; a_births : Q; a_tbirths : Q; a_ret : Q }.

Definition phase_a (m : Q) (x : sstatic * sstate) : phaseA :=
  let '(st, s) := x in
  let s' := breeding m st s in
  let '(nb, tb) := births st s' in
  {| a_state := s'; a_births := nb; a_tbirths := tb; a_ret := retiring st s' |}.

(* transfer_populations[species]: 0, overwritten by each milk herd of that species in list order *)
Fixpoint transfer_of (sp : nat) (l : list (sstatic * phaseA)) (acc : Q) : Q :=
  match l with
  | [] => acc
  | (st, a) :: l' =>
      transfer_of sp l' (if st_milk st && Nat.eqb (st_sp st) sp then a_ret a + a_tbirths a else acc)
  end.

(* calculate_net_slaughter_hours_by_size *)
Fixpoint hours_of_size (z : size) (l : list sstatic) : Q :=
  match l with
  | [] => 0
  | st :: l' => (if size_eqb (st_size st) z then st_hours st * st_base_sl st else 0) + hours_of_size z l'
  end.
(* Python's sum() adds left to right starting from 0; over Q the association is immaterial *)

Definition hours3 := (Q * Q * Q)%type.
Definition hget (h : hours3) (z : size) : Q :=
  let '(a, b, c) := h in match z with Small => a | Medium => b | Large => c end.
Definition hset (h : hours3) (z : size) (v : Q) : hours3 :=
  let '(a, b, c) := h in match z with Small => (v, b, c) | Medium => (a, v, c) | Large => (a, b, v) end.

(* calculate_slaughter_rate (current_slaughter not NaN) *)
Definition slaughter_rate (month0 : bool) (st : sstatic) (s : sstate) (remaining : Q) : Q :=
  let cur_sl := if month0 then st_base_sl st else s_sl s in
  if Qltb 0 remaining then pymin (cur_sl * st_hours st) remaining / st_hours st else 0.

(* calculate_animal_population: (actual slaughter, current_population after it) *)
Definition animal_population (pop additive deaths planned target : Q) : Q * Q :=
  let pre := pop - deaths + additive in
  let a0 := if Qltb pre target then 0
            else if Qltb (pre - planned) target then pre - target else planned in
  let a1 := if Qltb a0 0 then 0 else a0 in
  let p1 := pre - a1 in
  if Qltb p1 0 then (0, 0) else (a1, p1).

(* calculate_pregnant_slaughter: (new pregnant total, slaughtered pregnant) *)
Definition pregnant_slaughter (st : sstatic) (s : sstate) (sl : Q) : Q * Q :=
  let ptot := s_ptot s in
  let '(pt, sp) :=
    if Qeq_bool (s_pfrac s) 0 then (ptot, 0)
    else if Qltb (s_pfrac s * ptot) sl then
      let sp := s_pfrac s * ptot in (ptot - (sp + st_death st * ptot), sp)
    else (ptot - sl, sl) in
  (if Qle_bool 0 pt then pt else 0, if Qle_bool 0 sp then sp else 0).

Record phaseB := {
  b_additive : Q; b_transfer : Q (* transfer_population entry *); b_other_death : Q;
  b_slaughter : Q; b_pop1 : Q (* current_population after slaughter *);
  b_ptot : Q; b_pbirth : Q; b_slpreg : Q; b_remaining : Q
}.

(* body of the slaughter loop of main() + calculate_change_in_population, for one herd *)
Definition phase_b (month0 : bool) (st : sstatic) (a : phaseA) (tr : Q) (remaining : Q) : phaseB :=
  let s := a_state a in
  let additive := if st_milk st then a_births a else a_births a + tr in
  let tp := if st_milk st then - tr else tr in
  let ret := if st_milk st then a_ret a else 0 in
  let od := s_pop s * st_death st in
  let planned := slaughter_rate month0 st s remaining in
  let '(actual, p1) := animal_population (s_pop s) additive (od + ret) planned (st_target st) in
  let '(pt, sp) := pregnant_slaughter st s actual in
  {| b_additive := additive; b_transfer := tp; b_other_death := od; b_slaughter := actual; b_pop1 := p1;
     b_ptot := pt; b_pbirth := pt / st_gest st; b_slpreg := sp;
     b_remaining := Qred (remaining - actual * st_hours st) |}.
(* Qred x == x: representation normalisation only (keeps the threaded hours' denominators small when evaluated) *)

Fixpoint phase_b_loop (month0 : bool) (all : list (sstatic * phaseA)) (l : list (sstatic * phaseA)) (h : hours3)
  : list phaseB * hours3 :=
  match l with
  | [] => ([], h)
  | (st, a) :: l' =>
      let b := phase_b month0 st a (transfer_of (st_sp st) all 0) (hget h (st_size st)) in
      let '(bs, h') := phase_b_loop month0 all l' (hset h (st_size st) (b_remaining b)) in
      (b :: bs, h')
  end.

Record phaseC := {
  c_hk_other : Q; c_hk_healthy : Q; c_hk_starving : Q; c_hk_total : Q;
  c_starve_death : Q;      (* other_death_starving *)
  c_od_total : Q;          (* other_death_total *)
  c_ptot : Q; c_pbirth : Q;
  c_pop : Q;               (* appended to population *)
  c_budget : Q
}.

(* the homekill / starvation loop body of main() for one herd; starving_pre = current_population - population_fed *)
Definition phase_c (st : sstatic) (pop_start starving_pre : Q) (b : phaseB) (budget : Q) : phaseC :=
  let h := st_hours st in
  (* calculate_other_death_homekill_head *)
  let hk1 := pymin (b_other_death b * hk_other_rate) (budget / h) in
  let bud1 := budget - hk1 * h in
  (* calculate_healthy_homekill_head *)
  let hk2 := pymin (hk_fraction * b_pop1 b) (bud1 / h) in
  let bud2 := bud1 - hk2 * h in
  (* calculate_starving_pop_post_slaughter_healthy_homekill *)
  let sv0 := starving_pre - b_slaughter b - hk2 in
  let sv1 := if Qltb sv0 0 then 0 else sv0 in
  (* calculate_starving_homekill_head *)
  let cap0 := bud2 / h in
  let cap := if Qltb cap0 0 then 0 else cap0 in
  let hk3 := pymin sv1 cap in
  let bud3 := bud2 - hk3 * h in
  (* calculate_starving_pop_post_all_slaughter_homekill, calculate_starving_other_death_head *)
  let sv2 := pymax (sv1 - hk3) 0 in
  let sd := sv2 * st_starv st in
  let odt := sd + b_other_death b in
  (* other_death_pregnant_adjustment unless baseline-like *)
  let baseline_like := Qeq_bool (st_red st) 0 && Qeq_bool (st_tfrac st) 1 && Qltb sd 10 in
  let '(pt, pb) :=
    if baseline_like then (b_ptot b, b_pbirth b)
    else
      let fr := if Qeq_bool pop_start 0 then 1 else odt / pop_start in
      let pt := b_ptot b - b_ptot b * fr in
      let pb := b_pbirth b - b_pbirth b * fr in
      (if Qltb pt 0 then 0 else pt, if Qltb pb 0 then 0 else pb) in
  (* calculate_final_population *)
  let p2 := b_pop1 b - (sd + hk2 + hk3) in
  {| c_hk_other := hk1; c_hk_healthy := hk2; c_hk_starving := hk3; c_hk_total := hk1 + hk2 + hk3;
     c_starve_death := sd; c_od_total := odt; c_ptot := pt; c_pbirth := pb;
     c_pop := if Qltb p2 0 then 0 else p2; c_budget := Qred bud3 |}.   (* Qred x == x, as above *)

Fixpoint phase_c_loop (l : list (sstatic * Q * Q * phaseB)) (budget : Q) : list phaseC :=
  match l with
  | [] => []
  | (st, pop_start, sv, b) :: l' =>
      let c := phase_c st pop_start sv b budget in
      c :: phase_c_loop l' (c_budget c)
  end.

Definition mk_feeder (x : sstatic * sstate) : feeder :=
  let '(st, s) := x in
  {| fd_cur := s_pop s; fd_req := ne_required (st_lsu st) (st_lsuf st) (s_pop s);
     fd_rum := st_rum st; fd_eg := st_eg st; fd_ef := st_ef st |}.

Record species_month := {
  m_fed : fedout; m_a : phaseA; m_b : phaseB; m_c : phaseC; m_starving_pre : Q
}.

Definition next_state (r : species_month) : sstate :=
  {| s_pop := c_pop (m_c r); s_sl := b_slaughter (m_b r); s_ptot := c_ptot (m_c r); s_pbirth := c_pbirth (m_c r);
     s_pfrac := s_pfrac (a_state (m_a r)) |}.

Fixpoint zip4 {A B C D} (a : list A) (b : list B) (c : list C) (d : list D) : list (A * B * C * D) :=
  match a, b, c, d with
  | x :: a', y :: b', z :: c', w :: d' => (x, y, z, w) :: zip4 a' b' c' d'
  | _, _, _, _ => []
  end.

(* one pass of the month loop of main(): (per-herd results, feed used, grass used) *)
Definition month_step (month : nat) (l : list (sstatic * sstate)) (feed grass : Q)
  : list species_month * Q * Q :=
  let '(fos, g', f') := feed_chain (map mk_feeder l) grass feed in
  let svs := map (fun xo : (sstatic * sstate) * fedout => s_pop (snd (fst xo)) - fo_fed (snd xo)) (combine l fos) in
  let m := inject_Z (Z.of_nat month) in
  let als := map (fun x : sstatic * sstate => (fst x, phase_a m x)) l in
  let h0 := (hours_of_size Small (map fst l), hours_of_size Medium (map fst l), hours_of_size Large (map fst l)) in
  let '(bs, _) := phase_b_loop (Nat.eqb month 0) als als h0 in
  let cs := phase_c_loop (zip4 (map fst l) (map (fun x : sstatic * sstate => s_pop (snd x)) l) svs bs) hk_hours_total in
  (map (fun q : (fedout * (sstatic * phaseA) * phaseB * (phaseC * Q)) =>
          let '(fo, sa, b, (c, sv)) := q in
          {| m_fed := fo; m_a := snd sa; m_b := b; m_c := c; m_starving_pre := sv |})
       (zip4 fos als bs (combine cs svs)),
   feed - f', grass - g').

(* ---- initial attributes (set_species_slaughter_attributes), meat herd: baseline births *)
Definition meat_births_baseline (initial_population death_rate_annual initial_slaughter transfer : Q) : Q :=
  (death_rate_annual / 12) * initial_population + initial_slaughter - transfer.
