(* C04 model: the reporting chain  optimiser variable values -> Extractor -> Interpreter
   (src/optimizer/extract_results.py, src/optimizer/interpret_results.py), kcals only
   (fat / protein tracking is unreachable in the shipped code; with both flags off
   Food.get_min_nutrient looks at kcals only).  Line-by-line transliteration; definitions only.
   Unit multipliers come from Gen/UnitTables.v through Model/Units.conversion. *)
From Coq Require Import QArith Qround List String Bool Arith ZArith.
From Allfed Require Import Base.StrUtil Gen.UnitTables Model.Units Model.LP.
Import ListNotations.
Open Scope Q_scope.
Open Scope string_scope.

(* ------------------------------------------------------------------ series helpers *)

Definition nthq (l : list Q) (m : nat) : Q := nth m l 0.

Fixpoint zip_with (f : Q -> Q -> Q) (a b : list Q) : list Q :=
  match a, b with
  | x :: a', y :: b' => f x y :: zip_with f a' b'
  | _, _ => []
  end.
Definition ladd := zip_with Qplus.
Definition lsub := zip_with Qminus.
Definition lscale (k : Q) (l : list Q) : list Q := map (Qmult k) l.

Fixpoint lsum (l : list Q) : Q := match l with [] => 0 | x :: l' => x + lsum l' end.

Definition Qmin' (x y : Q) : Q := if Qle_bool x y then x else y.
(* python  min(array)  : ValueError on an empty sequence *)
Definition lmin (l : list Q) : option Q :=
  match l with
  | [] => None
  | x :: l' => Some (fold_left Qmin' l' x)
  end.

(* ------------------------------------------------------------------ np.round(x, decimals) *)

(* round half to even (np.rint) *)
Definition rhe (x : Q) : Z :=
  let f := Qfloor x in
  match Qcompare (x - inject_Z f) (1 # 2) with
  | Datatypes.Lt => f
  | Datatypes.Gt => (f + 1)%Z
  | Datatypes.Eq => if Z.even f then f else (f + 1)%Z
  end.
Definition pow10 (d : nat) : Q := inject_Z (Z.pow 10 (Z.of_nat d)).
Definition round_dec (d : nat) (x : Q) : Q := inject_Z (rhe (x * pow10 d)) / pow10 d.
Definition lround (d : nat) (l : list Q) : list Q := map (round_dec d) l.

(* ------------------------------------------------------------------ Extractor *)

(* an entry of the optimiser's `variables` dictionary as the Extractor sees it:
   a list of ints ([0]*NMONTHS, food not modelled) or a list of solved LpVariables (varValue) *)
Inductive varlist := NotModelled (len : nat) | Vars (vals : list Q).

(* to_monthly_list(variables, conversion) *)
Definition to_monthly_list (n : nat) (v : varlist) (conversion : Q) : list Q :=
  match v with
  | NotModelled len => repeat 0 len
  | Vars vals => map (fun m => nthq vals m * conversion) (seq 0 n)
  end.

(* the kcals line of extract_generic_results / create_food_object_from_fat_protein_variables *)
Definition extract_generic_kcals (n : nat) (km : Q) (v : varlist) (ratio : Q) : list Q :=
  to_monthly_list n v (ratio / km).
Definition create_food_kcals (n : nat) (km : Q) (v : varlist) : list Q :=
  to_monthly_list n v (1 / km).

(* one month of to_monthly_list_outdoor_crops_kcals: (immediately eaten, eaten from new storage) *)
Definition split_month (produced eaten conversion : Q) : Q * Q :=
  if Qle_bool produced eaten
  then (produced * conversion, (eaten - produced) * conversion)
  else (eaten * conversion, 0 * conversion).

Definition split_series (n : nat) (eaten produced : list Q) (conversion : Q) : list Q * list Q :=
  let ms := map (fun m => split_month (nthq produced m) (nthq eaten m) conversion) (seq 0 n) in
  (map fst ms, map snd ms).

(* multipliers read from the generated unit tables (kcal table), via Units.conversion *)
Definition mult (c : conv) (from to : string) : Q :=
  match conversion (kcal_mult c) from to with Ok k => k | Rejected _ => 0 end.
Definition m_bk_bf (c : conv) : Q := mult c "billion kcals each month" "billion people fed each month".
Definition m_bf_pct (c : conv) : Q := mult c "billion people fed each month" "percent people fed each month".
Definition m_bf_ke (c : conv) : Q := mult c "billion people fed each month" "kcals per person per day each month".

Record rep_in := {
  r_n : nat;                       (* constants["NMONTHS"] *)
  r_km : Q;                        (* constants["KCALS_MONTHLY"] *)
  r_conv : conv;                   (* Food.conversions *)
  r_sw_kcals : Q;                  (* constants["SEAWEED_KCALS"] *)
  v_sf_h : varlist; v_sw_h : varlist; v_scp_h : varlist; v_cs_h : varlist; v_meat : varlist;
  v_cr_h : varlist; v_cr_f : varlist; v_cr_b : varlist;
  r_fish : list Q; r_greenhouse : list Q; r_milk : list Q; r_crops_prod : list Q   (* billion kcals each month *)
}.

(* what extract_results leaves on the Extractor (billion people fed each month, kcals) *)
Record extracted := {
  e_sf : list Q; e_cr : list Q; e_sw : list Q; e_cs : list Q; e_scp : list Q;
  e_gh : list Q; e_fish : list Q; e_meat : list Q; e_milk : list Q;
  e_imm : list Q; e_ns : list Q
}.

Definition is_modelled (v : varlist) : bool := match v with Vars _ => true | NotModelled _ => false end.
Definition varlen (v : varlist) : nat := match v with Vars l => List.length l | NotModelled k => k end.
Definition var_at (v : varlist) (m : nat) : Q := match v with Vars l => nthq l m | NotModelled _ => 0 end.

Definition same_len (a b : list Q) : bool := Nat.eqb (List.length a) (List.length b).

Definition Qabs'' (x : Q) : Q := if Qle_bool 0 x then x else - x.
Definition all_b (p : Q -> bool) (l : list Q) : bool := forallb p l.

(* validate_sources_add_up: |imm + ns - crops_to_humans| <= 1e-3 elementwise (np.isclose(x, 0, atol=1e-3)) *)
Definition sources_add_up (imm ns cr : list Q) : bool :=
  all_b (fun d => Qle_bool (Qabs'' d) (1 # 1000)) (lsub (ladd imm ns) cr).
(* validate_outdoor_growing_production: round(cr - (imm + ns), 3) == 0 elementwise *)
Definition growing_production_ok (imm ns cr : list Q) : bool :=
  all_b (fun d => Qeq_bool (round_dec 3 d) 0) (lsub cr (ladd imm ns)).

(* np.maximum(x, 0) *)
Definition Qmax0 (x : Q) : Q := if Qle_bool 0 x then x else 0.

(* "outdoor crop production for humans": production (billion kcals) minus feed and biofuel (billion people fed), as the
   code does; clamp = true is the shipped code (np.maximum(..., 0), fix of 2026-10-02), clamp = false the code before
   that fix (kept for the refutation c01_reported_immediate_crops_negative_before_clamp_fix) *)
Definition crop_production_for_humans (clamp : bool) (prod cr_f cr_b : list Q) : list Q :=
  let d := lsub (lsub prod cr_f) cr_b in if clamp then map Qmax0 d else d.

Definition extract_gen (clamp : bool) (x : rep_in) : result extracted :=
  let n := r_n x in let km := r_km x in let c := r_conv x in
  let sf := extract_generic_kcals n km (v_sf_h x) 1 in
  let sw := extract_generic_kcals n km (v_sw_h x) (r_sw_kcals x) in
  let scp := extract_generic_kcals n km (v_scp_h x) 1 in
  let cs := extract_generic_kcals n km (v_cs_h x) 1 in
  let fish := lscale (m_bk_bf c) (r_fish x) in
  let gh := lscale (m_bk_bf c) (r_greenhouse x) in
  (* extract_outdoor_crops_results *)
  let cr := create_food_kcals n km (v_cr_h x) in      (* the zeros_like branch gives the same zeros *)
  let cr_b := create_food_kcals n km (v_cr_b x) in
  let cr_f := create_food_kcals n km (v_cr_f x) in
  let prod_h := crop_production_for_humans clamp (r_crops_prod x) cr_f cr_b in
  (* np.subtract refuses arrays of different lengths *)
  if negb (same_len (r_crops_prod x) cr_f && same_len (r_crops_prod x) cr_b) then Rejected ValueRejected else
  let split :=
    if negb (is_modelled (v_cr_h x)) && Qeq_bool (lsum prod_h) 0
    then Ok (repeat 0 (varlen (v_cr_h x)), repeat 0 (varlen (v_cr_h x)))
    else if is_modelled (v_cr_h x)
         then Ok (split_series n (map (var_at (v_cr_h x)) (seq 0 n)) prod_h (1 / km))
         else Rejected TypeRejected in                (* int has no varValue *)
  match split with
  | Rejected r => Rejected r
  | Ok (imm, ns) =>
      if negb (sources_add_up imm ns cr) then Rejected AssertRejected
      else if negb (growing_production_ok imm ns cr) then Rejected AssertRejected
      else
        let meat := create_food_kcals n km (v_meat x) in
        let milk := map (fun v => v / km) (r_milk x) in
        Ok {| e_sf := sf; e_cr := cr; e_sw := sw; e_cs := cs; e_scp := scp; e_gh := gh; e_fish := fish;
              e_meat := meat; e_milk := milk; e_imm := imm; e_ns := ns |}
  end.

Definition extract : rep_in -> result extracted := extract_gen true.
Definition extract_before_clamp_fix : rep_in -> result extracted := extract_gen false.

(* ------------------------------------------------------------------ Interpreter *)

Record interpreted := {
  (* percent people fed each month, unrounded *)
  p_sf : list Q; p_cr : list Q; p_sw : list Q; p_cs : list Q; p_scp : list Q;
  p_gh : list Q; p_fish : list Q; p_meat : list Q; p_milk : list Q; p_imm : list Q; p_ns : list Q;
  p_sum : list Q;                  (* get_sum_by_adding_to_humans / kcals_fed *)
  headline : Q;                    (* percent_people_fed *)
  (* correct_and_validate_rounding_errors: what the interpreter keeps as stored_food, outdoor_crops,
     immediate_outdoor_crops, new_stored_outdoor_crops, seaweed_rounded *)
  q_sf : list Q; q_cr : list Q; q_imm : list Q; q_ns : list Q; q_sw : list Q;
  (* kcals per person per day: the ten CSV columns in file order *)
  k_fish : list Q; k_cs : list Q; k_scp : list Q; k_gh : list Q; k_sw : list Q; k_milk : list Q;
  k_meat : list Q; k_imm : list Q; k_ns : list Q; k_sf : list Q
}.

Definition nonneg_all (l : list Q) : bool := all_b (Qle_bool 0) l.

(* stored_food + outdoor_crops + seaweed + cell_sugar + scp + greenhouse + fish + meat + milk *)
Definition sum9 (sf cr sw cs scp gh fish meat milk : list Q) : list Q :=
  ladd (ladd (ladd (ladd (ladd (ladd (ladd (ladd sf cr) sw) cs) scp) gh) fish) meat) milk.

Definition interpret (c : conv) (e : extracted) : result interpreted :=
  let pc := lscale (m_bf_pct c) in
  let ke := lscale (m_bf_ke c) in
  let sf := pc (e_sf e) in let cr := pc (e_cr e) in let sw := pc (e_sw e) in let cs := pc (e_cs e) in
  let scp := pc (e_scp e) in let gh := pc (e_gh e) in let fish := pc (e_fish e) in
  let meat := pc (e_meat e) in let milk := pc (e_milk e) in
  let imm := pc (e_imm e) in let ns := pc (e_ns e) in
  (* numpy refuses to add arrays of different lengths (no broadcasting between lengths > 1) *)
  if negb (same_len sf cr && same_len sf sw && same_len sf cs && same_len sf scp && same_len sf gh &&
           same_len sf fish && same_len sf meat && same_len sf milk)
  then Rejected ValueRejected
  else
  let s := sum9 sf cr sw cs scp gh fish meat milk in
  match lmin s with
  | None => Rejected ValueRejected
  | Some h =>
      if negb (same_len sf imm && same_len sf ns) then Rejected AssertRejected else
      let qsf := lround 3 sf in let qcr := lround 3 cr in let qsw := lround 3 sw in
      let qimm := lround 1 imm in let qns := lround 3 ns in
      if negb (nonneg_all qsf && nonneg_all qsw && nonneg_all qcr && nonneg_all qimm && nonneg_all qns)
      then Rejected AssertRejected
      else Ok {| p_sf := sf; p_cr := cr; p_sw := sw; p_cs := cs; p_scp := scp; p_gh := gh; p_fish := fish;
                 p_meat := meat; p_milk := milk; p_imm := imm; p_ns := ns; p_sum := s; headline := h;
                 q_sf := qsf; q_cr := qcr; q_imm := qimm; q_ns := qns; q_sw := qsw;
                 k_fish := ke (e_fish e); k_cs := ke (e_cs e); k_scp := ke (e_scp e); k_gh := ke (e_gh e);
                 k_sw := ke (e_sw e); k_milk := ke (e_milk e); k_meat := ke (e_meat e);
                 k_imm := ke (e_imm e); k_ns := ke (e_ns e); k_sf := ke (e_sf e) |}
  end.

Definition report_gen (clamp : bool) (x : rep_in) : result (extracted * interpreted) :=
  match extract_gen clamp x with
  | Rejected r => Rejected r
  | Ok e => match interpret (r_conv x) e with
            | Rejected r => Rejected r
            | Ok i => Ok (e, i)
            end
  end.

Definition report : rep_in -> result (extracted * interpreted) := report_gen true.
Definition report_before_clamp_fix : rep_in -> result (extracted * interpreted) := report_gen false.

(* ------------------------------------------------------------------ link with the LP (Model/LP.v) *)

(* the Extractor's inputs for the allocation `a` of the LP built from `i` *)
Definition vars_of (i : lp_in) (a : assignment) (add : bool) (s : slot) : varlist :=
  if add then Vars (map (a s) (months i)) else NotModelled (NM i).

Definition report_in (i : lp_in) (c : conv) (a : assignment) : rep_in :=
  {| r_n := NM i; r_km := kcals_monthly_pp i; r_conv := c; r_sw_kcals := sw_kcals i;
     v_sf_h := vars_of i a (add_sf i) SF_h; v_sw_h := vars_of i a (add_sw i) SW_h;
     v_scp_h := vars_of i a (add_scp i) SCP_h; v_cs_h := vars_of i a (add_cs i) CS_h;
     v_meat := vars_of i a (add_meat i) M_eaten;
     v_cr_h := vars_of i a (add_cr i) CR_h; v_cr_f := vars_of i a (add_cr i) CR_f;
     v_cr_b := vars_of i a (add_cr i) CR_b;
     r_fish := firstn (NM i) (fish i ++ repeat 0 (NM i));
     r_greenhouse := firstn (NM i) (greenhouse i ++ repeat 0 (NM i));
     r_milk := firstn (NM i) (milk i ++ repeat 0 (NM i));
     r_crops_prod := firstn (NM i) (crops_prod i ++ repeat 0 (NM i)) |}.

(* ------------------------------------------------------------------ feed / biofuel series (round hand-off) *)

(* Extractor: *_feed / *_biofuel = extract_generic_results / create_food_object_... of the feed / biofuel variables
   (billion people fed); Interpreter.calculate_feed_and_biofuels: in_units_percent_fed, then
   in_units_kcals_equivalent of the percent series, then the sum
   cell_sugar + scp + seaweed + outdoor_crops + stored_food  (feed_sum_kcals_equivalent / biofuels_sum_kcals_equivalent);
   compute_parameters_third_round converts it back with in_units_bil_kcals_thou_tons_thou_tons_per_month *)
Definition m_pct_ke (c : conv) : Q := mult c "percent people fed each month" "kcals per person per day each month".
Definition m_ke_bk (c : conv) : Q := mult c "kcals per person per day each month" "billion kcals each month".

Record fb_in := {
  f_n : nat; f_km : Q; f_conv : conv; f_sw_kcals : Q;
  vf_sf : varlist; vf_cr : varlist; vf_sw : varlist; vf_cs : varlist; vf_scp : varlist;   (* *_feed *)
  vb_sf : varlist; vb_cr : varlist; vb_sw : varlist; vb_cs : varlist; vb_scp : varlist    (* *_biofuel *)
}.

(* one food's use: variable values -> kcals per person per day (through billions fed and percent) *)
Definition use_ke (x : fb_in) (v : varlist) (ratio : Q) : list Q :=
  lscale (m_pct_ke (f_conv x)) (lscale (m_bf_pct (f_conv x)) (to_monthly_list (f_n x) v (ratio / f_km x))).

Definition sum5 (cs scp sw cr sf : list Q) : list Q := ladd (ladd (ladd (ladd cs scp) sw) cr) sf.

Definition feed_sum_ke (x : fb_in) : list Q :=
  sum5 (use_ke x (vf_cs x) 1) (use_ke x (vf_scp x) 1) (use_ke x (vf_sw x) (f_sw_kcals x))
       (use_ke x (vf_cr x) 1) (use_ke x (vf_sf x) 1).
Definition biofuels_sum_ke (x : fb_in) : list Q :=
  sum5 (use_ke x (vb_cs x) 1) (use_ke x (vb_scp x) 1) (use_ke x (vb_sw x) (f_sw_kcals x))
       (use_ke x (vb_cr x) 1) (use_ke x (vb_sf x) 1).

(* in_units_bil_kcals_thou_tons_thou_tons_per_month of a kcals-equivalent series *)
Definition back_to_bk (c : conv) (l : list Q) : list Q := lscale (m_ke_bk c) l.

Definition fb_of (i : lp_in) (c : conv) (a : assignment) : fb_in :=
  {| f_n := NM i; f_km := kcals_monthly_pp i; f_conv := c; f_sw_kcals := sw_kcals i;
     vf_sf := vars_of i a (add_sf i) SF_f; vf_cr := vars_of i a (add_cr i) CR_f; vf_sw := vars_of i a (add_sw i) SW_f;
     vf_cs := vars_of i a (add_cs i) CS_f; vf_scp := vars_of i a (add_scp i) SCP_f;
     vb_sf := vars_of i a (add_sf i) SF_b; vb_cr := vars_of i a (add_cr i) CR_b; vb_sw := vars_of i a (add_sw i) SW_b;
     vb_cs := vars_of i a (add_cs i) CS_b; vb_scp := vars_of i a (add_scp i) SCP_b |}.
