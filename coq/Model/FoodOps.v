(* M2: executable model of the operations of src/food_system/food.py::Food and the label helpers of
   src/food_system/unit_conversions.py::UnitConversions, transliterated branch by branch from the code AS IT IS
   (including odd behaviour).  No proofs in this file.
   Labels are the raw Python strings; the string operations are those of Base/StrUtil.v.
   Numbers are exact rationals.  Python exceptions are mapped to `Rejected kind`.
   `*_modelled` predicates delimit the inputs the model speaks about (mixed scalar/array garbage,
   division by zero -> inf/nan are outside). *)
From Coq Require Import QArith ZArith Qround List String Bool Arith.
From Allfed Require Import Base.StrUtil Gen.UnitTables Model.Units.
Import ListNotations.
Open Scope Q_scope.
Open Scope string_scope.

Definition EACH : string := " each month".
Definition PER : string := " per month".
Definition EACH_NOSPACE : string := "each month".

(* ------------------------------------------------------------------ small helpers *)

Fixpoint strs_eq (a b : list string) : bool :=
  match a, b with
  | [], [] => true
  | x :: a', y :: b' => String.eqb x y && strs_eq a' b'
  | _, _ => false
  end.

Definition bind {A B} (r : result A) (k : A -> result B) : result B :=
  match r with Ok a => k a | Rejected e => Rejected e end.

Definition guard {A} (b : bool) (e : rej) (k : result A) : result A :=
  if b then k else Rejected e.

Fixpoint map2 {A B C} (g : A -> B -> C) (a : list A) (b : list B) : list C :=
  match a, b with
  | x :: a', y :: b' => g x y :: map2 g a' b'
  | _, _ => []
  end.

Definition Qmin' (x y : Q) : Q := if Qle_bool x y then x else y.
Definition Qmax'' (x y : Q) : Q := if Qle_bool x y then y else x.
Definition Qabs'' (x : Q) : Q := if Qle_bool 0 x then x else - x.
Definition Qlt_bool (x y : Q) : bool := negb (Qle_bool y x).

(* numpy broadcasting of two 1-d arrays *)
Definition bc (g : Q -> Q -> Q) (a b : list Q) : option (list Q) :=
  if Nat.eqb (List.length a) (List.length b) then Some (map2 g a b)
  else match a, b with
       | [x], _ => Some (map (g x) b)
       | _, [y] => Some (map (fun x => g x y) a)
       | _, _ => None
       end.

(* elementwise binary operation on nutrient triples, scalars broadcast (numpy) *)
Definition vals_zip (g : Q -> Q -> Q) (a b : vals) : result vals :=
  match a, b with
  | Scalar k f p, Scalar k' f' p' => Ok (Scalar (g k k') (g f f') (g p p'))
  | Scalar k f p, Monthly k' f' p' => Ok (Monthly (map (g k) k') (map (g f) f') (map (g p) p'))
  | Monthly k f p, Scalar k' f' p' =>
      Ok (Monthly (map (fun x => g x k') k) (map (fun x => g x f') f) (map (fun x => g x p') p))
  | Monthly k f p, Monthly k' f' p' =>
      match bc g k k', bc g f f', bc g p p' with
      | Some a1, Some a2, Some a3 => Ok (Monthly a1 a2 a3)
      | _, _, _ => Rejected ValueRejected
      end
  end.

Definition vals_map (g : Q -> Q) (a : vals) : vals :=
  match a with
  | Scalar k f p => Scalar (g k) (g f) (g p)
  | Monthly k f p => Monthly (map g k) (map g f) (map g p)
  end.

(* food * ndarray / food-array op number-array *)
Definition vals_arr (g : Q -> Q -> Q) (a : vals) (l : list Q) : result vals :=
  vals_zip g a (Monthly l l l).

Definition vals_has_zero (a : vals) : bool :=
  match a with
  | Scalar k f p => Qeq_bool k 0 || Qeq_bool f 0 || Qeq_bool p 0
  | Monthly k f p => existsb (fun x => Qeq_bool x 0) (k ++ f ++ p)
  end.

(* ------------------------------------------------------------------ validation and construction *)

(* Food.validate_if_list *)
Definition validate (x : food) : result unit :=
  match fv x with
  | Scalar _ _ _ => Ok tt
  | Monthly k f p =>
      guard (contains EACH (ku x) && contains EACH (fu x) && contains EACH (pu x)) AssertRejected
      (guard (Nat.eqb (List.length k) (List.length f) && Nat.eqb (List.length f) (List.length p)) AssertRejected
      (guard (negb (Nat.eqb (List.length k) 0)) AssertRejected (Ok tt)))
  end.

(* Food(kcals, fat, protein, labels) when the three numbers are floats / numpy scalars / numpy arrays
   (this is how every operation builds its result) *)
Definition ctor_arr (v : vals) (k f p : string) : result food :=
  let x := mk_food v k f p in bind (validate x) (fun _ => Ok x).

(* the public constructor: each nutrient is a Python int, a float, or a list / array of floats *)
Inductive num := NInt (z : Z) | NFloat (q : Q) | NList (l : list Q).

Definition num_scalar (n : num) : option Q :=
  match n with NInt z => Some (inject_Z z) | NFloat q => Some q | NList _ => None end.

(* nutrient array and label of fat / protein in the monthly branch of __init__ :
   None = 0-d array (a float next to a list of kcals) *)
Definition ctor_side (n : nat) (x : num) (l : string) : option (list Q) * string :=
  match x with
  | NInt _ => (Some (repeat 0 n), ctor_label true l)   (* zeros; " each month" appended unless present *)
  | NFloat _ => (None, ctor_label true l)
  | NList a => (Some a, ctor_label true l)
  end.

Definition ctor_modelled (k f p : num) : bool :=
  match k with
  | NList _ => true
  | _ => match num_scalar f, num_scalar p with Some _, Some _ => true | _, _ => false end
  end.

Definition ctor (k f p : num) (lk lf lp : string) : result food :=
  match k with
  | NList kl =>
      let n := List.length kl in
      let lk' := ctor_label true lk in
      let '(fa, lf') := ctor_side n f lf in
      let '(pa, lp') := ctor_side n p lp in
      guard (contains EACH lk' && contains EACH lf' && contains EACH lp') AssertRejected
      match fa with
      | None => Rejected TypeRejected                          (* len() of unsized object *)
      | Some fl =>
          if negb (Nat.eqb n (List.length fl)) then Rejected AssertRejected
          else match pa with
               | None => Rejected TypeRejected
               | Some pl =>
                   guard (Nat.eqb (List.length fl) (List.length pl)) AssertRejected
                   (guard (negb (Nat.eqb n 0)) AssertRejected
                      (Ok {| fv := Monthly kl fl pl; ku := lk'; fu := lf'; pu := lp'; units := [lk'; lf'; lp'] |}))
               end
      end
  | _ =>
      match num_scalar k, num_scalar f, num_scalar p with
      | Some a, Some b, Some c =>
          Ok {| fv := Scalar a b c; ku := lk; fu := lf; pu := lp; units := [lk; lf; lp] |}
      | _, _, _ => Rejected ValueRejected   (* not modelled: ctor_modelled = false *)
      end
  end.

Definition ratio_one : result food := ctor (NInt 1) (NInt 1) (NInt 1) "ratio" "ratio" "ratio".
Definition ratio_zero : result food := ctor (NInt 0) (NInt 0) (NInt 0) "ratio" "ratio" "ratio".

(* ------------------------------------------------------------------ label helpers (UnitConversions) *)

Definition has_each3 (x : food) : bool :=
  contains EACH_NOSPACE (ku x) && contains EACH_NOSPACE (fu x) && contains EACH_NOSPACE (pu x).
Definition no_each3 (x : food) : bool :=
  negb (contains EACH_NOSPACE (ku x)) && negb (contains EACH_NOSPACE (fu x)) && negb (contains EACH_NOSPACE (pu x)).

Definition get_l2t (x : food) : result (list string) :=
  guard (has_each3 x) AssertRejected
    (Ok [split_first EACH (ku x); split_first EACH (fu x); split_first EACH (pu x)]).
Definition get_l2e (x : food) : result (list string) :=
  guard (has_each3 x) AssertRejected
    (Ok [replace_all EACH PER (ku x); replace_all EACH PER (fu x); replace_all EACH PER (pu x)]).
Definition get_e2l (x : food) : result (list string) :=
  guard (no_each3 x) AssertRejected (Ok [ku x ++ EACH; fu x ++ EACH; pu x ++ EACH]).

(* set_units: values untouched, three labels and the combined list written *)
Definition set_units (x : food) (k f p : string) : food :=
  {| fv := fv x; ku := k; fu := f; pu := p; units := [k; f; p] |}.

Definition set_from (x : food) (g : food -> result (list string)) : result food :=
  bind (g x) (fun l => match l with
                       | [k; f; p] => Ok (set_units x k f p)
                       | _ => Rejected ValueRejected
                       end).
Definition set_l2t (x : food) := set_from x get_l2t.
Definition set_l2e (x : food) := set_from x get_l2e.
Definition set_e2l (x : food) := set_from x get_e2l.

(* get_units: refreshes and returns the list *)
Definition get_units (x : food) : list string := [ku x; fu x; pu x].

Definition is_a_ratio (x : food) : bool :=
  contains "ratio" (ku x) && contains "ratio" (fu x) && contains "ratio" (pu x).
Definition is_units_percent (x : food) : bool :=
  contains "percent" (ku x) && contains "percent" (fu x) && contains "percent" (pu x).

(* ------------------------------------------------------------------ arithmetic *)

Definition mon (x : food) : bool := is_monthly (fv x).
Definition same_units (x y : food) : bool := strs_eq (units x) (units y).

Definition with_labels_of (x : food) (v : vals) : result food := ctor_arr v (ku x) (fu x) (pu x).

Definition add (x y : food) : result food :=
  guard (same_units x y) AssertRejected (bind (vals_zip Qplus (fv x) (fv y)) (with_labels_of x)).
Definition sub (x y : food) : result food :=
  guard (same_units x y) AssertRejected (bind (vals_zip Qminus (fv x) (fv y)) (with_labels_of x)).
Definition neg (x : food) : result food := with_labels_of x (vals_map Qopp (fv x)).
Definition abs_values (x : food) : result food := with_labels_of x (vals_map Qabs'' (fv x)).

Inductive mularg := MFood (y : food) | MNum (q : Q) | MArr (l : list Q).

(* x.__mul__(other) *)
Definition mul (x : food) (other : mularg) : result food :=
  if negb (mon x) then
    match other with
    | MFood y =>
        if mon y then
          guard (is_a_ratio x) AssertRejected
            (bind (vals_zip Qmult (fv x) (fv y)) (with_labels_of y))
        else
          let tr := is_a_ratio x in let orr := is_a_ratio y in
          guard (tr || orr) AssertRejected
            (let src := if orr then x else y in      (* `if other_is_the_ratio` comes last and wins *)
             bind (vals_zip Qmult (fv x) (fv y)) (with_labels_of src))
    | MArr l =>
        bind (vals_arr Qmult (fv x) l) (fun v => ctor_arr v (ku x ++ EACH) (fu x ++ EACH) (pu x ++ EACH))
    | MNum q => with_labels_of x (vals_map (fun a => a * q) (fv x))
    end
  else
    bind (validate x) (fun _ =>
    match other with
    | MFood y =>
        if mon y then
          bind (validate y) (fun _ =>
          let tr := is_a_ratio x in let orr := is_a_ratio y in
          guard (tr || orr) AssertRejected
            (let src := if orr then x else y in
             bind (vals_zip Qmult (fv x) (fv y)) (with_labels_of src)))
        else
          guard (is_a_ratio y) AssertRejected
            (bind (vals_zip Qmult (fv x) (fv y)) (with_labels_of x))
    | MArr l => bind (vals_arr Qmult (fv x) l) (with_labels_of x)
    | MNum q => with_labels_of x (vals_map (fun a => a * q) (fv x))
    end).

Definition div_food (x y : food) : result food :=
  guard (same_units x y) AssertRejected
  (if mon x then
     guard (mon y) AssertRejected
     (bind (validate x) (fun _ => bind (validate y) (fun _ =>
      bind (vals_zip Qdiv (fv x) (fv y)) (fun v => ctor_arr v "ratio each month" "ratio each month" "ratio each month"))))
   else
     guard (negb (mon y)) AssertRejected
     (bind (vals_zip Qdiv (fv x) (fv y)) (fun v => ctor_arr v "ratio" "ratio" "ratio"))).

Definition div_num (x : food) (q : Q) : result food := with_labels_of x (vals_map (fun a => a / q) (fv x)).

(* ------------------------------------------------------------------ selection and reduction *)

(* Python index semantics: negative indices count from the end; out of range -> IndexError *)
Definition py_index {A} (l : list A) (i : Z) : option A :=
  let n := Z.of_nat (List.length l) in
  let j := (if i <? 0 then i + n else i)%Z in
  if ((0 <=? j) && (j <? n))%Z then nth_error l (Z.to_nat j) else None.

Definition pick3 (k f p : list Q) (i : Z) : result vals :=
  match py_index k i, py_index f i, py_index p i with
  | Some a, Some b, Some c => Ok (Scalar a b c)
  | _, _, _ => Rejected ValueRejected
  end.

Definition py_slice {A} (l : list A) (a b : nat) : list A := firstn (b - a) (skipn a l).

(* make_sure_is_a_list: the three nutrients are numpy arrays *)
Definition sure_list (x : food) : result unit := guard (mon x) AssertRejected (Ok tt).

(* x[i] : a single value; its labels are rewritten " each month" -> " per month" (set_units_from_list_to_element) *)
Definition getitem_int (x : food) (i : Z) : result food :=
  bind (sure_list x) (fun _ => bind (validate x) (fun _ =>
  match fv x with
  | Monthly k f p => bind (pick3 k f p i) (fun v => bind (with_labels_of x v) set_l2e)
  | _ => Rejected AssertRejected
  end)).

Definition getitem_slice (x : food) (a b : nat) : result food :=
  bind (sure_list x) (fun _ => bind (validate x) (fun _ =>
  match fv x with
  | Monthly k f p => with_labels_of x (Monthly (py_slice k a b) (py_slice f a b) (py_slice p a b))
  | _ => Rejected AssertRejected
  end)).

Definition get_month (x : food) (i : Z) : result food :=
  bind (sure_list x) (fun _ => bind (validate x) (fun _ =>
  match fv x with
  | Monthly k f p => bind (pick3 k f p i) (fun v => bind (with_labels_of x v) set_l2e)
  | _ => Rejected AssertRejected
  end)).
Definition get_first_month (x : food) : result food := get_month x 0.

Definition qsum (l : list Q) : Q := fold_left Qplus l 0.
Fixpoint run_from (acc : Q) (l : list Q) : list Q :=
  match l with [] => [] | x :: l' => (acc + x) :: run_from (acc + x) l' end.
Definition running (l : list Q) : list Q := run_from 0 l.
Definition qmin_list (l : list Q) : Q := match l with [] => 0 | x :: l' => fold_left Qmin' l' x end.
Definition qmax_list (l : list Q) : Q := match l with [] => 0 | x :: l' => fold_left Qmax'' l' x end.

Definition get_nutrients_sum (x : food) : result food :=
  bind (sure_list x) (fun _ => bind (validate x) (fun _ =>
  match fv x with
  | Monthly k f p => bind (with_labels_of x (Scalar (qsum k) (qsum f) (qsum p))) set_l2t
  | _ => Rejected AssertRejected
  end)).

Definition get_running_total (x : food) : result food :=
  bind (sure_list x) (fun _ => bind (validate x) (fun _ =>
  match fv x with
  | Monthly k f p => with_labels_of x (Monthly (running k) (running f) (running p))
  | _ => Rejected AssertRejected
  end)).

Definition reduce_months (g : list Q -> Q) (x : food) : result food :=
  bind (sure_list x) (fun _ =>
  match fv x with
  | Monthly k f p =>
      match k, f, p with
      | _ :: _, _ :: _, _ :: _ => bind (with_labels_of x (Scalar (g k) (g f) (g p))) set_l2t
      | _, _, _ => Rejected ValueRejected          (* min() of an empty sequence *)
      end
  | _ => Rejected AssertRejected
  end).
Definition get_min_all_months := reduce_months qmin_list.
Definition get_max_all_months := reduce_months qmax_list.

(* Food.min_elementwise(a, b) *)
Definition min_elementwise (a b : food) : result food :=
  guard (same_units a b) AssertRejected
    (bind (vals_zip Qmin' (fv a) (fv b)) (with_labels_of a)).
(* python min() of a scalar and an array is outside the model *)
Definition min_elementwise_modelled (a b : food) : bool :=
  negb (same_units a b) || Bool.eqb (mon a) (mon b).

(* ------------------------------------------------------------------ shape-preserving maps *)

Definition round_half_even (q : Q) : Z :=
  let fl := Qfloor q in
  let r := q - inject_Z fl in
  if Qlt_bool r (1#2) then fl
  else if Qlt_bool (1#2) r then (fl + 1)%Z
  else if Z.even fl then fl else (fl + 1)%Z.
Definition pow10 (d : nat) : Q := inject_Z (Z.pow 10 (Z.of_nat d)).
Definition round_dec (d : nat) (q : Q) : Q := inject_Z (round_half_even (q * pow10 d)) / pow10 d.

Definition get_rounded (x : food) (d : nat) : result food :=
  bind (sure_list x) (fun _ => with_labels_of x (vals_map (round_dec d) (fv x))).

Definition clip0 (q : Q) : Q := if Qlt_bool q 0 then 0 else q.
Definition negative_values_to_zero (x : food) : result food :=
  if mon x then bind (validate x) (fun _ => with_labels_of x (vals_map clip0 (fv x)))
  else with_labels_of x (vals_map clip0 (fv x)).

(* np.roll(a, n); a[:n] = 0 *)
Definition shift_list (n : nat) (l : list Q) : list Q :=
  let len := List.length l in
  if Nat.leb len n then repeat 0 len else repeat 0 n ++ firstn (len - n) l.
Definition shift (x : food) (n : nat) : result food :=
  match fv x with
  | Scalar _ _ _ => Rejected ValueRejected
  | Monthly k f p => with_labels_of x (Monthly (shift_list n k) (shift_list n f) (shift_list n p))
  end.

(* ------------------------------------------------------------------ operations as data *)

Inductive op :=
| OAdd (y : food) | OSub (y : food) | ONeg | OAbs
| OMul (a : mularg)            (* x * a ; a number on the left goes through __rmul__ to the same code *)
| ORMul (y : food)             (* y * x *)
| ODivFood (y : food) | ODivNum (q : Q)
| OIndex (i : Z) | OSlice (a b : nat)
| OMonth (i : Z) | OFirstMonth
| OSum | ORunSum | OMinAll | OMaxAll
| OMinElem (y : food)          (* Food.min_elementwise(x, y) *)
| OMinElemR (y : food)         (* Food.min_elementwise(y, x) *)
| ORound (d : nat) | OClip | OShift (n : nat)
| OInUnits (tk tf tp : string) | OHelper (name : string)
(* declared mutators of the labels *)
| OSetUnits (k f p : string) | OSetL2T | OSetL2E | OSetE2L.

Definition run_op (c : conv) (x : food) (o : op) : result food :=
  match o with
  | OAdd y => add x y
  | OSub y => sub x y
  | ONeg => neg x
  | OAbs => abs_values x
  | OMul a => mul x a
  | ORMul y => mul y (MFood x)
  | ODivFood y => div_food x y
  | ODivNum q => div_num x q
  | OIndex i => getitem_int x i
  | OSlice a b => getitem_slice x a b
  | OMonth i => get_month x i
  | OFirstMonth => get_first_month x
  | OSum => get_nutrients_sum x
  | ORunSum => get_running_total x
  | OMinAll => get_min_all_months x
  | OMaxAll => get_max_all_months x
  | OMinElem y => min_elementwise x y
  | OMinElemR y => min_elementwise y x
  | ORound d => get_rounded x d
  | OClip => negative_values_to_zero x
  | OShift n => shift x n
  | OInUnits tk tf tp => in_units c x tk tf tp
  | OHelper name => helper c name x
  | OSetUnits k f p => Ok (set_units x k f p)
  | OSetL2T => set_l2t x
  | OSetL2E => set_l2e x
  | OSetE2L => set_e2l x
  end.

(* inputs on which the Python behaviour is outside the model (inf/nan, python min() of mixed shapes) *)
Definition op_modelled (x : food) (o : op) : bool :=
  match o with
  | ODivFood y => negb (vals_has_zero (fv y))
  | ODivNum q => negb (Qeq_bool q 0)
  | OMinElem y => min_elementwise_modelled x y
  | OMinElemR y => min_elementwise_modelled y x
  | _ => true
  end.

Fixpoint run_ops (c : conv) (x : food) (os : list op) : result food :=
  match os with
  | [] => Ok x
  | o :: os' => bind (run_op c x o) (fun y => run_ops c y os')
  end.

(* ------------------------------------------------------------------ the 16 comparison predicates *)

Inductive pred :=
| PEq | PNe | PNeverNeg
| PAllGt | PAllLt | PAnyGt | PAnyLt | PAllGe | PAllLe | PAnyGe | PAnyLe
| PAllZero | PAnyZero | PAllGtZero | PAnyGtZero | PAllGeZero
| PAllGeZeroThr (t : Q).      (* all_greater_than_or_equal_to_zero(threshold=t) : every counted value >= -t *)

Definition pred_is_binary (p : pred) : bool :=
  match p with
  | PEq | PNe | PAllGt | PAllLt | PAnyGt | PAnyLt | PAllGe | PAllLe | PAnyGe | PAnyLe => true
  | _ => false
  end.

(* nutrient-wise views: a scalar is the one-element list for `all`/`any` purposes *)
Definition lists_of (v : vals) : list Q * list Q * list Q :=
  match v with Scalar k f p => ([k], [f], [p]) | Monthly k f p => (k, f, p) end.

Definition Qeqb' (a b : Q) : bool := Qeq_bool a b.
Definition Qneb (a b : Q) : bool := negb (Qeq_bool a b).
Definition Qgtb (a b : Q) : bool := Qlt_bool b a.
Definition Qgeb (a b : Q) : bool := Qle_bool b a.

(* "all(rel) with exclude": kcals and (fat or exclude_fat) and (protein or exclude_protein) *)
Definition all3 (incf incp : bool) (a b c : bool) : bool := a && (b || negb incf) && (c || negb incp).
(* "any(rel) with include": kcals or (fat and include_fat) or (protein and include_protein) *)
Definition any3i (incf incp : bool) (a b c : bool) : bool := a || (b && incf) || (c && incp).
(* any_greater_than_or_equal_to as written: fat / protein count when they are EXCLUDED *)
Definition any3x (incf incp : bool) (a b c : bool) : bool := a || (b && negb incf) || (c && negb incp).

(* rel applied pairwise (same shapes) then all / any *)
Definition allrel (r : Q -> Q -> bool) (a b : list Q) : bool := forallb (fun x => x) (map2 r a b).
Definition anyrel (r : Q -> Q -> bool) (a b : list Q) : bool := existsb (fun x => x) (map2 r a b).
(* scalar against array *)
Definition expand (n : nat) (l : list Q) : list Q := match l with [x] => repeat x n | _ => l end.

Definition round9_is_zero (x : Q) : bool := Qle_bool (Qabs'' x * pow10 9) (1#2).

Definition same_shape (x y : food) : bool :=
  match fv x, fv y with
  | Scalar _ _ _, Scalar _ _ _ => true
  | Monthly k f p, Monthly k' f' p' =>
      Nat.eqb (List.length k) (List.length k') && Nat.eqb (List.length f) (List.length f')
      && Nat.eqb (List.length p) (List.length p')
  | _, _ => false
  end.

Definition shape_ok (x : food) : bool :=
  match fv x with
  | Scalar _ _ _ => true
  | Monthly k f p => Nat.eqb (List.length k) (List.length f) && Nat.eqb (List.length f) (List.length p)
  end.

(* binary predicates on operands of the same shape *)
Definition cmp3 (comb : bool -> bool -> bool -> bool) (q : (Q -> Q -> bool) -> list Q -> list Q -> bool)
           (r : Q -> Q -> bool) (x y : food) : bool :=
  let '(k, f, p) := lists_of (fv x) in let '(k', f', p') := lists_of (fv y) in
  comb (q r k k') (q r f f') (q r p p').

Definition un3 (comb : bool -> bool -> bool -> bool) (q : (Q -> bool) -> list Q -> bool)
           (r : Q -> bool) (x : food) : bool :=
  let '(k, f, p) := lists_of (fv x) in comb (q r k) (q r f) (q r p).

Definition eval_pred (incf incp : bool) (pr : pred) (x y : food) : result bool :=
  let val := if mon x then validate x else Ok tt in
  let units_then (b : bool) : result bool := guard (same_units x y) AssertRejected (bind val (fun _ => Ok b)) in
  match pr with
  | PEq => guard (same_units x y) AssertRejected
             (Ok (cmp3 (fun a b c => a && b && c) allrel Qeqb' x y))
  | PNe => guard (same_units x y) AssertRejected
             (Ok (cmp3 (fun a b c => a || b || c) anyrel Qneb x y))
  | PNeverNeg => bind val (fun _ => Ok (un3 (all3 incf incp) (@forallb Q) (Qle_bool 0) x))
  | PAllGt => units_then (cmp3 (all3 incf incp) allrel Qgtb x y)
  | PAllLt => units_then (cmp3 (all3 incf incp) allrel Qlt_bool x y)
  | PAnyGt => units_then (cmp3 (any3i incf incp) anyrel Qgtb x y)
  | PAnyLt => units_then (cmp3 (any3i incf incp) anyrel Qlt_bool x y)
  | PAllGe => units_then (cmp3 (all3 incf incp) allrel Qgeb x y)
  | PAllLe =>
      (* four cases on the shapes; the unit assertion differs per case *)
      let res := cmp3 (all3 incf incp) allrel Qle_bool x y in
      match mon x, mon y with
      | false, false => guard (same_units x y) AssertRejected (Ok res)
      | true, true => guard (same_units x y) AssertRejected (Ok res)
      | false, true =>
          bind (get_e2l x) (fun l => guard (strs_eq l (get_units y)) AssertRejected
            (let '(k, f, p) := lists_of (fv x) in let '(k', f', p') := lists_of (fv y) in
             Ok (all3 incf incp (allrel Qle_bool (expand (List.length k') k) k')
                                (allrel Qle_bool (expand (List.length f') f) f')
                                (allrel Qle_bool (expand (List.length p') p) p'))))
      | true, false =>
          bind (get_e2l y) (fun l => guard (strs_eq (get_units x) l) AssertRejected
            (let '(k, f, p) := lists_of (fv x) in let '(k', f', p') := lists_of (fv y) in
             Ok (all3 incf incp (allrel Qle_bool k (expand (List.length k) k'))
                                (allrel Qle_bool f (expand (List.length f) f'))
                                (allrel Qle_bool p (expand (List.length p) p')))))
      end
  | PAnyGe => units_then (cmp3 (any3x incf incp) anyrel Qgeb x y)
  | PAnyLe =>
      if mon x then bind val (fun _ => Ok (cmp3 (any3i incf incp) anyrel Qle_bool x y))
      else guard (same_units x y) AssertRejected (Ok (cmp3 (any3i incf incp) anyrel Qle_bool x y))
  | PAllZero => bind val (fun _ => Ok (un3 (all3 incf incp) (@forallb Q) round9_is_zero x))
  | PAnyZero => bind val (fun _ => Ok (un3 (any3i incf incp) (@existsb Q) (fun a => Qeq_bool a 0) x))
  | PAllGtZero => bind val (fun _ => Ok (un3 (all3 incf incp) (@forallb Q) (Qlt_bool 0) x))
  | PAnyGtZero => bind val (fun _ => Ok (un3 (any3i incf incp) (@existsb Q) (Qlt_bool 0) x))
  | PAllGeZero => bind val (fun _ => Ok (un3 (all3 incf incp) (@forallb Q) (Qle_bool 0) x))
  | PAllGeZeroThr t => bind val (fun _ => Ok (un3 (all3 incf incp) (@forallb Q) (Qle_bool (- t)) x))
  end.

(* shapes on which the numpy comparison is elementwise (no broadcasting / no python-level errors) *)
Definition pred_modelled (pr : pred) (x y : food) : bool :=
  shape_ok x &&
  (if pred_is_binary pr then
     shape_ok y &&
     match pr with
     | PAllLe => same_shape x y || negb (Bool.eqb (mon x) (mon y))
     | PAnyLe => same_shape x y || (negb (mon x) && negb (same_units x y))
     | _ => same_shape x y || negb (same_units x y)
     end
   else true).

(* well-formedness as a boolean (used by the checker to classify cases; the Prop version is in Proofs/) *)
Definition wf_bool (x : food) : bool :=
  strs_eq (units x) [ku x; fu x; pu x] && shape_ok x &&
  (if mon x then ends_with EACH (ku x) && ends_with EACH (fu x) && ends_with EACH (pu x)
   else no_each3 x).

(* a food record with given numbers and labels (the combined list agreeing with them) *)
Definition raw (v : vals) (k f p : string) : food :=
  {| fv := v; ku := k; fu := f; pu := p; units := [k; f; p] |}.
