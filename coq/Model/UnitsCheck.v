(* comparison of the units model with observations of the implementation (evaluated in case files) *)
From Coq Require Import QArith List String Bool.
From Allfed Require Import Base.Dec Base.StrUtil Gen.UnitTables Model.Units.
Import ListNotations.
Open Scope Q_scope.
Open Scope string_scope.

Definition vals_close (tol : Q) (a b : vals) : bool :=
  match a, b with
  | Scalar k f p, Scalar k' f' p' => close_rel tol k k' && close_rel tol f f' && close_rel tol p p'
  | Monthly k f p, Monthly k' f' p' =>
      close_rel_list tol k k' && close_rel_list tol f f' && close_rel_list tol p p'
  | _, _ => false
  end.

Fixpoint strs_eqb (a b : list string) : bool :=
  match a, b with
  | [], [] => true
  | x :: a', y :: b' => String.eqb x y && strs_eqb a' b'
  | _, _ => false
  end.

(* observation of a Food object: values, three labels, the units list *)
Definition obs := (vals * (string * string * string) * list string)%type.

Definition food_matches (tol : Q) (m : food) (o : obs) : nat :=
  let '(v, (k, f, p), us) := o in
  if negb (vals_close tol (fv m) v) then 1%nat
  else if negb (String.eqb (ku m) k && String.eqb (fu m) f && String.eqb (pu m) p) then 2%nat
  else if negb (strs_eqb (units m) us) then 3%nat
  else 0%nat.

(* a chain of in_units calls; observed results after each step (None = the implementation rejected) *)
Fixpoint check_chain (tol : Q) (c : conv) (x : food) (steps : list (string * string * string))
         (observed : list (option obs)) : nat :=
  match steps, observed with
  | [], [] => 0%nat
  | (tk, tf, tp) :: steps', o :: observed' =>
      match in_units c x tk tf tp, o with
      | Ok y, Some ob =>
          match food_matches tol y ob with
          | O => check_chain tol c y steps' observed'
          | n => n
          end
      | Rejected _, None => 0%nat   (* both reject: the chain stops *)
      | Ok _, None => 4%nat
      | Rejected _, Some _ => 5%nat
      end
  | _, _ => 6%nat
  end.

Definition raw_food (v : vals) (k f p : string) (us : list string) : food :=
  {| fv := v; ku := k; fu := f; pu := p; units := us |}.
