(* C16 (c) model: the model's built-in validation checks (src/optimizer/validate_results.py, class Validator) read in
   exact arithmetic over the LP of Model/LP.v and the reporting chain of Model/Report.v.  Definitions only.

   Every check is a boolean: true = the Python assertion passes, false = it raises.  The code's tolerances are
   written as explicit rationals next to the line they come from.

   Which checks run where (src/scenarios/run_scenario.py):
     interpret_optimizer_results -> Validator.validate_results            (every round)
        ensure_optimizer_returns_same_as_sum_nutrients   only if optimization_type != "to_animals"
        ensure_zero_kcals_have_zero_fat_and_protein, ensure_never_nan, ensure_all_greater_than_or_equal_to_zero,
        ensure_all_time_constants_units_are_billion_kcals (unit LABELS of the optimiser inputs: property C11, not here)
     run_optimizer -> check_constraints_satisfied    behind CHECK_CONSTRAINTS_FLAG = False (dead in the shipped code)
     run_and_analyze_scenario -> assert_feed_used_below_feed_demand / assert_biofuels_used_below_biofuels_demand
                                 after rounds 1, 2 and 3;  assert_round3_percent_fed_not_lower_than_round1 (prints only)
     run_round_2 -> assert_meat_dairy_doesnt_decrease_round_2
   kcals only: fat / protein tracking is unreachable in the shipped code (Model/LP.v, Model/Report.v). *)
From Coq Require Import QArith Qround List String Bool Arith ZArith.
From Allfed Require Import Base.StrUtil Gen.UnitTables Model.Units Model.LP Model.Report.
Import ListNotations.
Open Scope Q_scope.
Open Scope string_scope.

(* x < y as a boolean *)
Definition Qlt_b (x y : Q) : bool := negb (Qle_bool y x).

(* ------------------------------------------------------------------ check_constraints_satisfied *)

(* one constraint: var_val = the left-hand side evaluated at the final variable values, eq_val = the constant;
     compare_type 0 ( = ):  assert abs(eq_val - var_val) < 1
     compare_type 1 ( <= ): assert var_val - eq_val <= 1
     compare_type 2 ( >= ): assert eq_val - var_val <= 1
   (the tolerance is the absolute number 1, in the unit of the row) *)
Definition check_row (a : assignment) (r : row) : bool :=
  let var_val := eval a (lhs r) in
  let eq_val := rhs r in
  match sns r with
  | Eq => Qlt_b (Qabs'' (eq_val - var_val)) 1
  | Le => Qle_bool (var_val - eq_val) 1
  | Ge => Qle_bool (eq_val - var_val) 1
  end.

(* rows whose name is in maximize_constraints are skipped (`skip`); all others are checked *)
Definition check_constraints_satisfied (skip : row -> bool) (a : assignment) (rows : list row) : bool :=
  forallb (fun r => skip r || check_row a r) rows.

(* ------------------------------------------------------------------ ensure_optimizer_returns_same_as_sum_nutrients *)

Definition small_country (code : string) : bool :=
  String.eqb code "EST" || String.eqb code "LUX" || String.eqb code "CYP" || String.eqb code "GUY" ||
  String.eqb code "SWT".

(* difference = round(percent_fed_from_model - percent_people_fed, 0)   (round half to even, Report.round_dec 0);
   five small countries: assert difference < 5 (no lower bound);  every other country: assert difference == 0 *)
Definition sum_nutrients_difference (from_model headline_ : Q) : Q := round_dec 0 (from_model - headline_).
Definition ensure_optimizer_returns_same_as_sum_nutrients (code : string) (from_model headline_ : Q) : bool :=
  let difference := sum_nutrients_difference from_model headline_ in
  if small_country code then Qlt_b difference 5 else Qeq_bool difference 0.

(* ------------------------------------------------------------------ ensure_zero_kcals_have_zero_fat_and_protein *)

(* Food.make_sure_fat_protein_zero_if_kcals_is_zero (monthly list):
     np.where(kcals == 0, fat, 0) == 0 everywhere, asserted only if conversions.include_fat (resp. include_protein) *)
Definition zero_where_kcals_zero (kcals other : list Q) : bool :=
  forallb (fun ko => negb (Qeq_bool (fst ko) 0) || Qeq_bool (snd ko) 0) (combine kcals other).
Definition fat_protein_zero_if_kcals_zero (include_fat include_protein : bool) (knp : list Q * list Q * list Q) : bool :=
  let '(k, f, p) := knp in
  (negb include_fat || zero_where_kcals_zero k f) && (negb include_protein || zero_where_kcals_zero k p).
(* the eight foods the validator walks over: cell_sugar, scp, greenhouse, fish, meat, milk, immediate_outdoor_crops,
   new_stored_outdoor_crops, each as (kcals, fat, protein) *)
Definition ensure_zero_kcals_have_zero_fat_and_protein (include_fat include_protein : bool)
           (foods : list (list Q * list Q * list Q)) : bool :=
  forallb (fat_protein_zero_if_kcals_zero include_fat include_protein) foods.

(* ------------------------------------------------------------------ ensure_never_nan *)

(* Q has no NaN.  A float NaN arises in the reporting chain only from 0/0 (or from non-finite inputs, which are outside
   the model): the divisors of the chain are listed here, "never NaN" is read as "none of them is zero".
     optimiser rows      : BILLION_KCALS_NEEDED (Kcals_Fed_Month row, intake caps), 1 - waste/100 (six wastes)
     Extractor           : KCALS_MONTHLY  (ratio / KCALS_MONTHLY, milk / KCALS_MONTHLY)
     Food.in_units_*     : every multiplier of the kcal table (conversion_formula divides by the source multiplier)
     UnitConversions     : kcals_monthly, billion_kcals_needed, population *)
Definition chain_divisors (i : lp_in) (c : conv) : list Q :=
  [ need i; kcals_monthly_pp i;
    1 - w_sf i / 100; 1 - w_cr i / 100; 1 - w_meat i / 100; 1 - w_scp i / 100; 1 - w_cs i / 100; 1 - w_sw i / 100;
    kcals_monthly c; billion_kcals_needed c; population c ] ++ map snd (kcal_mult c).
Definition never_divides_by_zero (i : lp_in) (c : conv) : Prop := Forall (fun d => ~ d == 0) (chain_divisors i c).

(* ------------------------------------------------------------------ ensure_all_greater_than_or_equal_to_zero *)

(* Food.all_greater_than_or_equal_to_zero(threshold): (kcals >= -threshold).all()   [fat / protein excluded] *)
Definition all_ge (threshold : Q) (l : list Q) : bool := all_b (fun x => Qle_bool (- threshold) x) l.

(* what the interpreter holds when the validator runs (Interpreter.assign_interpreted_properties has already replaced
   stored_food, outdoor_crops, immediate_outdoor_crops, new_stored_outdoor_crops by their rounded versions):
     cell_sugar = p_cs, scp = p_scp, greenhouse = p_gh, fish = p_fish, meat = p_meat, milk = p_milk (unrounded),
     new_stored_outdoor_crops = q_ns (rounded to 3 decimals).
   The check of immediate_outdoor_crops is commented out in the source ("Todo: fix this"). *)
Definition ensure_all_greater_than_or_equal_to_zero (ii : interpreted) : bool :=
  all_ge (1 # 1000000) (p_cs ii) &&                (* cell_sugar, threshold=1e-6 *)
  all_ge (1 # 1000000) (p_scp ii) &&               (* scp, threshold=1e-6 *)
  all_ge 0 (lround 6 (p_gh ii)) &&                 (* greenhouse.get_rounded_to_decimal(6) *)
  all_ge 0 (p_fish ii) &&
  all_ge 0 (lround 6 (p_meat ii)) &&               (* meat.get_rounded_to_decimal(6) *)
  all_ge 0 (p_milk ii) &&
  all_ge 0 (q_ns ii).

(* ------------------------------------------------------------------ validate_results *)

(* the parts of validate_results that depend on the solved values (kcals); `foods` are the (kcals, fat, protein)
   triples of the eight foods of the zero-kcals check *)
Definition validate_results (ty : opt_type) (code : string) (from_model : Q) (include_fat include_protein : bool)
           (foods : list (list Q * list Q * list Q)) (ii : interpreted) : bool :=
  match ty with
  | ToAnimals => true
  | ToHumans => ensure_optimizer_returns_same_as_sum_nutrients code from_model (headline ii)
  end &&
  ensure_zero_kcals_have_zero_fat_and_protein include_fat include_protein foods &&
  ensure_all_greater_than_or_equal_to_zero ii.

(* ------------------------------------------------------------------ assert_feed_used_below_feed_demand / biofuels *)

(* Interpreter.calculate_feed_and_biofuels keeps  <food>_feed = extracted <food>_feed .in_units_percent_fed() *)
Definition use_pct (x : fb_in) (v : varlist) (ratio : Q) : list Q :=
  lscale (m_bf_pct (f_conv x)) (to_monthly_list (f_n x) v (ratio / f_km x)).

(* Validator.sum_feed_sources: cell_sugar_feed + scp_feed + seaweed_feed + outdoor_crops_feed + stored_food_feed *)
Definition sum_feed_sources (x : fb_in) : list Q :=
  sum5 (use_pct x (vf_cs x) 1) (use_pct x (vf_scp x) 1) (use_pct x (vf_sw x) (f_sw_kcals x))
       (use_pct x (vf_cr x) 1) (use_pct x (vf_sf x) 1).
Definition sum_biofuel_sources (x : fb_in) : list Q :=
  sum5 (use_pct x (vb_cs x) 1) (use_pct x (vb_scp x) 1) (use_pct x (vb_sw x) (f_sw_kcals x))
       (use_pct x (vb_cr x) 1) (use_pct x (vb_sf x) 1).

Definition m_pct_bk (c : conv) : Q := mult c "percent people fed each month" "billion kcals each month".

(* total.in_units_bil_kcals_thou_tons_thou_tons_per_month() * (1 - epsilon),  epsilon = 1e-4 *)
Definition reduced_correct_units (c : conv) (epsilon : Q) (total : list Q) : list Q :=
  lscale (1 - epsilon) (lscale (m_pct_bk c) total).

(* assert np.all((demand - reduced).kcals > -1e-6)   (numpy refuses operands of different lengths) *)
Definition used_below_demand (demand reduced : list Q) : bool :=
  same_len demand reduced && all_b (fun d => Qlt_b (- (1 # 1000000)) d) (lsub demand reduced).

(* the body shared by the two asserts, on the summed percent-fed series `total`:
     if include_protein or include_fat: return
     reduced = total.in_units_bil_kcals_thou_tons_thou_tons_per_month() * (1 - epsilon)     (epsilon = 1e-4)
     assert np.all((demand - reduced).kcals > -1e-6) *)
Definition assert_used_below_demand (include_fat include_protein : bool) (c : conv) (demand_ total : list Q) : bool :=
  if include_protein || include_fat then true
  else used_below_demand demand_ (reduced_correct_units c (1 # 10000) total).

Definition assert_feed_used_below_feed_demand (include_fat include_protein : bool) (c : conv)
           (feed_demand_ : list Q) (x : fb_in) : bool :=
  assert_used_below_demand include_fat include_protein c feed_demand_ (sum_feed_sources x).

Definition assert_biofuels_used_below_biofuels_demand (include_fat include_protein : bool) (c : conv)
           (biofuels_demand : list Q) (x : fb_in) : bool :=
  assert_used_below_demand include_fat include_protein c biofuels_demand (sum_biofuel_sources x).

(* ------------------------------------------------------------------ cross-round checks *)

(* assert_round3_percent_fed_not_lower_than_round1(minimum_people_percent_fed, round1, round3, epsilon=1):
     if round3 <= minimum - 0.1:  if not round1 <= round3 + epsilon: print(...)      - prints, never raises;
   false = the message is printed *)
Definition round3_percent_fed_not_lower_than_round1 (minimum_percent_fed round1 round3 : Q) : bool :=
  if Qle_bool round3 (minimum_percent_fed - (1 # 10)) then Qle_bool round1 (round3 + 1) else true.

(* assert_meat_dairy_doesnt_decrease_round_2(meat1, meat2, milk1, milk2, epsilon=1e-2):
     meat2.sum() + milk1.sum() >= (meat1.sum() + milk1.sum()) * (1 - epsilon)
   (as written the round-1 milk appears on BOTH sides; milk2 is not read) *)
Definition assert_meat_dairy_doesnt_decrease_round_2 (meat1 meat2 milk1 milk2 : list Q) : bool :=
  Qle_bool ((lsum meat1 + lsum milk1) * (1 - (1 # 100))) (lsum meat2 + lsum milk1).
