(* Comparators used by the generated LP case files (C01/C02/C12 tie and audits).
   - rows observed from PuLP are compared with `build i ty` as a name-free multiset
     (positional fast path, quadratic matching of the leftovers), after the same
     canonicalisation on both sides: terms keyed by (slot id, month), equal keys merged,
     zero coefficients dropped, sorted, orientation normalised (first coefficient > 0);
   - the solver's final values are checked against the MODEL's rows within a tolerance.
   Executable definitions only. *)
From Coq Require Import QArith List Bool Arith ZArith.
From Allfed Require Import Base.Dec Model.LP.
Import ListNotations.
Open Scope Q_scope.

Definition oterm := (nat * nat * Q)%type.                 (* slot id, month, coefficient *)
Definition orow := (Z * Q * list oterm)%type.              (* sense (-1 Le, 0 Eq, 1 Ge), rhs, terms *)

Definition key_lt (a b : oterm) : bool :=
  let '(s1, m1, _) := a in let '(s2, m2, _) := b in
  Nat.ltb s1 s2 || (Nat.eqb s1 s2 && Nat.ltb m1 m2).
Definition key_eq (a b : oterm) : bool :=
  let '(s1, m1, _) := a in let '(s2, m2, _) := b in Nat.eqb s1 s2 && Nat.eqb m1 m2.

(* insertion into a key-sorted list, merging equal keys *)
Fixpoint ins (x : oterm) (l : list oterm) : list oterm :=
  match l with
  | [] => [x]
  | y :: l' =>
      if key_eq x y then (let '(s, m, c) := x in let '(_, _, d) := y in (s, m, c + d)) :: l'
      else if key_lt x y then x :: l else y :: ins x l'
  end.
Definition canon_terms (l : list oterm) : list oterm :=
  filter (fun x => negb (Qeq_bool (snd x) 0)) (fold_right ins [] l).

Definition negate_terms (l : list oterm) : list oterm := map (fun x => (fst x, - snd x)) l.
Definition canon_row (r : orow) : orow :=
  let '(s, b, l) := r in
  let l := canon_terms l in
  match l with
  | (_, c) :: _ => if Qle_bool 0 c then (s, b, l) else (Z.opp s, - b, negate_terms l)
  | [] => (s, b, l)
  end.

Definition sense_z (s : sense) : Z := match s with Le => (-1)%Z | Eq => 0%Z | Ge => 1%Z end.
Definition model_row (r : row) : orow :=
  canon_row (sense_z (sns r), rhs r, map (fun x => let '(c, (s, m)) := x in (slot_id s, m, c)) (lhs r)).

Fixpoint terms_close (tol : Q) (a b : list oterm) : bool :=
  match a, b with
  | [], [] => true
  | x :: a', y :: b' => key_eq x y && close_rel tol (snd x) (snd y) && terms_close tol a' b'
  | _, _ => false
  end.

(* rhs compared relative to its own size, with an absolute floor scaled by `scale` *)
Definition row_close (tol scale : Q) (a b : orow) : bool :=
  let '(s1, b1, l1) := a in let '(s2, b2, l2) := b in
  Z.eqb s1 s2 && close tol scale b1 b2 && terms_close tol l1 l2.

(* positional pass: returns the leftovers of both sides *)
Fixpoint positional (tol scale : Q) (ms os : list orow) : list orow * list orow :=
  match ms, os with
  | m :: ms', o :: os' =>
      let '(lm, lo) := positional tol scale ms' os' in
      if row_close tol scale m o then (lm, lo) else (m :: lm, o :: lo)
  | _, _ => (ms, os)
  end.

Fixpoint remove_match (tol scale : Q) (o : orow) (ms : list orow) : option (list orow) :=
  match ms with
  | [] => None
  | m :: ms' => if row_close tol scale m o then Some ms'
                else match remove_match tol scale o ms' with Some r => Some (m :: r) | None => None end
  end.

(* number of observed rows with no partner + number of model rows with no partner *)
Fixpoint unmatched (tol scale : Q) (ms os : list orow) : nat :=
  match os with
  | [] => length ms
  | o :: os' => match remove_match tol scale o ms with
                | Some ms' => unmatched tol scale ms' os'
                | None => S (unmatched tol scale ms os')
                end
  end.

(* 0 = the observed LP is the model's LP; otherwise 1000 + number of unmatched rows;
   1 = the builder's assertion outcome differs (model says the code asserts) *)
Definition compare_lp (tol scale : Q) (i : lp_in) (ty : opt_type) (obs : list orow) : nat :=
  if negb (crops_assert_ok i) then 1%nat
  else
    let ms := map model_row (build i ty) in
    let os := map canon_row obs in
    let '(lm, lo) := positional tol scale ms os in
    match unmatched tol scale lm lo with
    | O => 0%nat
    | n => (1000 + n)%nat
    end.

(* ---------------- feasibility of reported values against the MODEL's rows ---------------- *)

Definition vals := list (nat * list Q).                    (* slot id -> series *)
Fixpoint lookup (k : nat) (v : vals) : list Q :=
  match v with [] => [] | (k', l) :: v' => if Nat.eqb k k' then l else lookup k v' end.
Definition assign_of (v : vals) : assignment := fun s m => nth m (lookup (slot_id s) v) 0.

Fixpoint eval_abs (a : assignment) (l : list (Q * var)) : Q :=
  match l with [] => 0 | (c, (s, m)) :: l' => Qabs' (c * a s m) + eval_abs a l' end.

(* residual of a row <= eps * (1 + sum |c x| + |rhs|) *)
Definition row_ok (eps : Q) (a : assignment) (r : row) : bool :=
  let v := eval a (lhs r) in
  let slack := eps * (1 + eval_abs a (lhs r) + Qabs' (rhs r)) in
  match sns r with
  | Le => Qle_bool v (rhs r + slack)
  | Ge => Qle_bool (rhs r - slack) v
  | Eq => Qle_bool (Qabs' (v - rhs r)) slack
  end.

Definition vals_nonneg (eps : Q) (v : vals) : bool :=
  forallb (fun kv => forallb (fun x => Qle_bool (- eps) x) (snd kv)) v.

(* 0 ok; 1 a negative value; 2000 + number of violated rows *)
Definition check_feasible (eps : Q) (i : lp_in) (ty : opt_type) (v : vals) : nat :=
  if negb (vals_nonneg eps v) then 1%nat
  else
    let a := assign_of v in
    match length (filter (fun r => negb (row_ok eps a r)) (build i ty)) with
    | O => 0%nat
    | n => (2000 + n)%nat
    end.

(* same with the second-stage floor rows for the first optimum v1 *)
Definition check_feasible2 (eps : Q) (i : lp_in) (ty : opt_type) (v1 : Q) (v : vals) : nat :=
  match check_feasible eps i ty v with
  | O => match length (filter (fun r => negb (row_ok eps (assign_of v) r)) (second_stage i ty v1)) with
         | O => 0%nat
         | n => (3000 + n)%nat
         end
  | n => n
  end.
