(* M4: the linear programme built by Optimizer.add_variables_and_constraints_to_model,
   transliterated row family by row family (kcals only: fat/protein tracking is
   unreachable in the shipped code - "required" calls sys.exit).  Definitions only. *)
From Coq Require Import QArith List Bool Arith.
Import ListNotations.
Open Scope Q_scope.

Inductive slot :=
| SF_start | SF_end | SF_h | SF_f | SF_b
| SCP_h | SCP_f | SCP_b
| CS_h | CS_f | CS_b
| M_start | M_end | M_eaten
| CR_storage | CR_consumed | CR_h | CR_f | CR_b
| SW_wet | SW_h | SW_f | SW_b | SW_area
| Consumed | Obj.

Definition slot_id (s : slot) : nat :=
  match s with
  | SF_start => 0 | SF_end => 1 | SF_h => 2 | SF_f => 3 | SF_b => 4
  | SCP_h => 5 | SCP_f => 6 | SCP_b => 7
  | CS_h => 8 | CS_f => 9 | CS_b => 10
  | M_start => 11 | M_end => 12 | M_eaten => 13
  | CR_storage => 14 | CR_consumed => 15 | CR_h => 16 | CR_f => 17 | CR_b => 18
  | SW_wet => 19 | SW_h => 20 | SW_f => 21 | SW_b => 22 | SW_area => 23
  | Consumed => 24 | Obj => 25
  end%nat.

Definition var := (slot * nat)%type.
Definition assignment := slot -> nat -> Q.

Inductive sense := Le | Ge | Eq.
(* sum_i c_i * x_i  (sense)  rhs *)
Record row := { lhs : list (Q * var); sns : sense; rhs : Q }.

Inductive opt_type := ToHumans | ToAnimals.

Record lp_in := {
  NM : nat;                                   (* NMONTHS *)
  add_sw : bool; add_cr : bool; add_sf : bool; add_meat : bool; add_scp : bool; add_cs : bool;
  store_years : bool;                         (* STORE_FOOD_BETWEEN_YEARS *)
  pop : Q; kcals_monthly_pp : Q; need : Q;    (* POP, KCALS_MONTHLY, BILLION_KCALS_NEEDED *)
  w_sf : Q; w_cr : Q; w_meat : Q; w_scp : Q; w_cs : Q; w_sw : Q;   (* retail waste percentages *)
  sf0 : Q;                                    (* stored_food.initial_available.kcals *)
  meat_total : Q;                             (* meat_summed_consumption *)
  sw_kcals : Q; sw_init : Q; sw_init_area : Q; sw_min_density : Q; sw_max_density : Q; sw_harvest_loss : Q;
  relocated : bool; harvest_delay : nat;      (* OG_USE_BETTER_ROTATION; INITIAL_HARVEST_DURATION + ROTATION_CHANGE *)
  cap_sw_h : Q; cap_sw_f : Q; cap_sw_b : Q;   (* MAX_<FOOD>_AS_PERCENT_KCALS_{HUMANS,FEED,BIOFUEL} *)
  cap_scp_h : Q; cap_scp_f : Q; cap_scp_b : Q;
  cap_cs_h : Q; cap_cs_f : Q; cap_cs_b : Q;
  crops_prod : list Q; milk : list Q; greenhouse : list Q; fish : list Q;
  scp_prod : list Q; cs_prod : list Q; built_area : list Q; growth : list Q;
  feed_charge : list Q; biofuel_charge : list Q;           (* time_consts['feed'|'biofuel'].kcals *)
  meat_monthly : list Q; meat_running : list Q;            (* each_month_meat_slaughtered.kcals ; max_consumed_culled_kcals_each_month *)
  max_feed : list Q; max_biofuel : list Q;                 (* round 2 ceilings *)
  pin_cr : list Q; pin_sf : list Q; pin_meat : list Q; pin_scp : list Q; pin_cs : list Q; pin_sw : list Q
                                                           (* round 2 pins, already in billion kcals *)
}.

Definition at_ (l : list Q) (m : nat) : Q := nth m l 0.
Definition gross (w : Q) : Q := 1 / (1 - w / 100).     (* 1/(1 - waste/100) *)

Definition t (c : Q) (s : slot) (m : nat) : Q * var := (c, (s, m)).
Definition opt (b : bool) (l : list (Q * var)) : list (Q * var) := if b then l else [].
Definition mk (l : list (Q * var)) (s : sense) (r : Q) : row := {| lhs := l; sns := s; rhs := r |}.

(* ---------------- resource rows ---------------- *)

Definition rows_seaweed (i : lp_in) (m : nat) : list row :=
  [ mk [t 1 SW_wet m] Ge (sw_init i);
    mk [t 1 SW_wet m] Le (sw_max_density i * at_ (built_area i) m);
    mk [t 1 SW_area m] Ge (sw_init_area i);
    mk [t 1 SW_area m] Le (at_ (built_area i) m) ] ++
  match m with
  | O => [ mk [t 1 SW_wet 0] Eq (sw_init i);
           mk [t 1 SW_area 0] Eq (sw_init_area i);
           mk [t 1 SW_h 0] Eq 0; mk [t 1 SW_f 0] Eq 0; mk [t 1 SW_b 0] Eq 0 ]
  | S p =>
      let g := at_ (growth i) m / 100 in
      let hl := sw_harvest_loss i / 100 in
      (* wet_m = wet_p*(1+g) - h_m*k - f_m - b_m - (area_m - area_p)*min_density*hl *)
      [ mk [t 1 SW_wet m; t (- (1 + g)) SW_wet p; t (gross (w_sw i)) SW_h m; t 1 SW_f m; t 1 SW_b m;
            t (sw_min_density i * hl) SW_area m; t (- (sw_min_density i * hl)) SW_area p] Eq 0 ]
  end.

Definition rows_crops (i : lp_in) (ty : opt_type) (m : nat) : list row :=
  (* consumed_m = h_m*k + b_m + f_m *)
  [ mk [t 1 CR_consumed m; t (- gross (w_cr i)) CR_h m; t (-1) CR_b m; t (-1) CR_f m] Eq 0 ] ++
  match m with
  | O => [ mk [t 1 CR_storage 0; t 1 CR_consumed 0] Eq (at_ (crops_prod i) 0) ]
  | S p =>
      [ mk [t 1 CR_storage m; t (-1) CR_storage p; t 1 CR_consumed m] Eq (at_ (crops_prod i) m) ] ++
      (if Nat.eqb m (NM i - 1) then
         match ty with ToHumans => [ mk [t 1 CR_storage m] Eq 0 ] | ToAnimals => [] end
       else [])
  end.

(* the code asserts  NMONTHS-1 > harvest_delay  when building the last month with relocated crops *)
Definition crops_assert_ok (i : lp_in) : bool :=
  if add_cr i && relocated i && Nat.ltb 1 (NM i) then Nat.ltb (harvest_delay i) (NM i - 1) else true.

Definition sf_eaten_row (i : lp_in) (m : nat) : row :=
  (* end_m = start_m - h_m*k - f_m - b_m *)
  mk [t 1 SF_end m; t (-1) SF_start m; t (gross (w_sf i)) SF_h m; t 1 SF_f m; t 1 SF_b m] Eq 0.

Definition rows_sf (i : lp_in) (ty : opt_type) (m : nat) : list row :=
  if store_years i then
    match m with
    | O => [ mk [t 1 SF_start 0] Eq (sf0 i) ]
    | S p =>
        (if Nat.eqb m (NM i - 1) then
           match ty with ToHumans => [ mk [t 1 SF_end m] Eq 0 ] | ToAnimals => [] end
         else []) ++
        [ mk [t 1 SF_start m; t (-1) SF_end p] Eq 0 ]
    end ++ [ sf_eaten_row i m ]
  else
    match m with
    | O => [ mk [t 1 SF_start 0] Eq (sf0 i); sf_eaten_row i 0 ]
    | S p =>
        if Nat.ltb 12 m then
          [ mk [t 1 SF_h m] Eq 0; mk [t 1 SF_f m] Eq 0; mk [t 1 SF_b m] Eq 0;
            mk [t 1 SF_start m; t (-1) SF_end p] Eq 0 ]
        else
          [ sf_eaten_row i m; mk [t 1 SF_start m; t (-1) SF_end p] Eq 0 ]
    end.

Definition rows_meat (i : lp_in) (m : nat) : list row :=
  if store_years i then
    [ match m with
      | O => mk [t 1 M_start 0] Eq (meat_total i)
      | S p => mk [t 1 M_start m; t (-1) M_end p] Eq 0
      end;
      (* end_m = start_m - e_m*k *)
      mk [t 1 M_end m; t (-1) M_start m; t (gross (w_meat i)) M_eaten m] Eq 0;
      mk [t (gross (w_meat i)) M_eaten m] Le (at_ (meat_running i) m);
      (* meat_total - end_m <= running_m *)
      mk [t (-1) M_end m] Le (at_ (meat_running i) m - meat_total i) ]
  else
    [ mk [t (gross (w_meat i)) M_eaten m] Le (at_ (meat_monthly i) m) ].

Definition rows_scp (i : lp_in) (m : nat) : list row :=
  [ mk [t (gross (w_scp i)) SCP_h m; t 1 SCP_f m; t 1 SCP_b m] Le (at_ (scp_prod i) m) ].

Definition rows_cs (i : lp_in) (m : nat) : list row :=
  [ mk [t (gross (w_cs i)) CS_h m; t 1 CS_f m; t 1 CS_b m] Le (at_ (cs_prod i) m) ].

(* round 2 pins *)
Definition pin_bounds (i : lp_in) : Q * Q :=
  if Qlt_le_dec (pop i) 10000000 then (9999 # 10000, 10001 # 10000) else (99999 # 100000, 100001 # 100000).

Definition rows_pin (i : lp_in) (ty : opt_type) (c : Q) (s : slot) (pin : list Q) (m : nat) : list row :=
  match ty with
  | ToHumans => []
  | ToAnimals =>
      let '(lo, hi) := pin_bounds i in
      [ mk [t c s m] Ge (lo * at_ pin m); mk [t c s m] Le (hi * at_ pin m) ]
  end.

(* resource loop: dict order seaweed, outdoor crops, stored food, meat, SCP, CS;
   month loop inside; in round 2 each resource month is followed by its pin rows *)
Definition months (i : lp_in) : list nat := seq 0 (NM i).

Definition resource_rows (i : lp_in) (ty : opt_type) : list row :=
  (if add_sw i then flat_map (fun m => rows_seaweed i m ++ rows_pin i ty (sw_kcals i) SW_h (pin_sw i) m) (months i) else []) ++
  (if add_cr i then flat_map (fun m => rows_crops i ty m ++ rows_pin i ty 1 CR_h (pin_cr i) m) (months i) else []) ++
  (if add_sf i then flat_map (fun m => rows_sf i ty m ++ rows_pin i ty 1 SF_h (pin_sf i) m) (months i) else []) ++
  (if add_meat i then flat_map (fun m => rows_meat i m ++ rows_pin i ty 1 M_eaten (pin_meat i) m) (months i) else []) ++
  (if add_scp i then flat_map (fun m => rows_scp i m ++ rows_pin i ty 1 SCP_h (pin_scp i) m) (months i) else []) ++
  (if add_cs i then flat_map (fun m => rows_cs i m ++ rows_pin i ty 1 CS_h (pin_cs i) m) (months i) else []).

(* ---------------- feed / biofuel ---------------- *)

Definition feed_terms (i : lp_in) (c : Q) (m : nat) : list (Q * var) :=
  opt (add_sf i) [t c SF_f m] ++ opt (add_cr i) [t c CR_f m] ++ opt (add_sw i) [t (c * sw_kcals i) SW_f m] ++
  opt (add_cs i) [t c CS_f m] ++ opt (add_scp i) [t c SCP_f m].
Definition biofuel_terms (i : lp_in) (c : Q) (m : nat) : list (Q * var) :=
  opt (add_sf i) [t c SF_b m] ++ opt (add_cr i) [t c CR_b m] ++ opt (add_sw i) [t (c * sw_kcals i) SW_b m] ++
  opt (add_cs i) [t c CS_b m] ++ opt (add_scp i) [t c SCP_b m].

(* the feed / biofuel sum contains at least one variable *)
Definition has_nonhuman (i : lp_in) : bool := add_sf i || add_cr i || add_sw i || add_cs i || add_scp i.

Definition rows_feed_biofuel (i : lp_in) (ty : opt_type) (m : nat) : list row :=
  if has_nonhuman i then
    match ty with
    | ToHumans =>
        [ mk (feed_terms i 1 m) Eq (at_ (feed_charge i) m);
          mk (biofuel_terms i 1 m) Eq (at_ (biofuel_charge i) m) ]
    | ToAnimals =>
        [ mk (feed_terms i 1 m) Le (at_ (max_feed i) m);
          mk (biofuel_terms i 1 m) Le (at_ (max_biofuel i) m) ] ++
        match m with
        | O => []
        | S p => [ mk (feed_terms i 1 p ++ feed_terms i (-1) m) Ge 0;
                   mk (biofuel_terms i 1 p ++ biofuel_terms i (-1) m) Ge 0 ]
        end
    end
  else [].

(* ---------------- total human consumption (to_humans only) ---------------- *)

Definition human_terms (i : lp_in) (c : Q) (m : nat) : list (Q * var) :=
  opt (add_sf i) [t c SF_h m] ++ opt (add_cr i) [t c CR_h m] ++ opt (add_sw i) [t (c * sw_kcals i) SW_h m] ++
  opt (add_meat i) [t c M_eaten m] ++ opt (add_cs i) [t c CS_h m] ++ opt (add_scp i) [t c SCP_h m].
Definition given_kcals (i : lp_in) (m : nat) : Q := at_ (milk i) m + at_ (greenhouse i) m + at_ (fish i) m.

Definition rows_consumed (i : lp_in) (ty : opt_type) (m : nat) : list row :=
  match ty with
  | ToHumans =>
      (* consumed_m = (sum + milk + greenhouse + fish)/need*100 *)
      [ mk (t 1 Consumed m :: human_terms i (- (100 / need i)) m) Eq (given_kcals i m / need i * 100) ]
  | ToAnimals => []
  end.

(* ---------------- intake caps ---------------- *)

Definition need0 (i : lp_in) : Q := pop i * kcals_monthly_pp i / 1000000000.

Definition rows_caps_food (i : lp_in) (ty : opt_type) (m : nat) (r : Q) (sh sf sb : slot) (ch cf cb : Q) : list row :=
  match ty with
  | ToHumans =>
      [ mk [t r sh m] Le (ch / 100 * need0 i);
        mk [t r sh m; t (- (ch / 100 * (need i / 100))) Consumed m] Le 0 ]
  | ToAnimals => []
  end ++
  [ mk [t r sf m] Le (cf / 100 * at_ (feed_charge i) m);
    mk [t r sb m] Le (cb / 100 * at_ (biofuel_charge i) m) ].

Definition rows_caps (i : lp_in) (ty : opt_type) (m : nat) : list row :=
  (if add_sw i then rows_caps_food i ty m (sw_kcals i) SW_h SW_f SW_b (cap_sw_h i) (cap_sw_f i) (cap_sw_b i) else []) ++
  (if add_scp i then rows_caps_food i ty m 1 SCP_h SCP_f SCP_b (cap_scp_h i) (cap_scp_f i) (cap_scp_b i) else []) ++
  (if add_cs i then rows_caps_food i ty m 1 CS_h CS_f CS_b (cap_cs_h i) (cap_cs_f i) (cap_cs_b i) else []).

(* ---------------- objective rows ---------------- *)

Definition rows_objective (i : lp_in) (ty : opt_type) : list row :=
  match ty with
  | ToHumans => map (fun m => mk [t 1 Obj 0; t (-1) Consumed m] Le 0) (months i)
  | ToAnimals =>
      [ mk (t 1 Obj 0 :: flat_map (fun m => feed_terms i (- (2 # 3)) m ++ biofuel_terms i (- (1 # 3)) m) (months i)) Le 0 ]
  end.

Definition build (i : lp_in) (ty : opt_type) : list row :=
  resource_rows i ty ++
  flat_map (fun m => rows_feed_biofuel i ty m ++ rows_consumed i ty m ++ rows_caps i ty m) (months i) ++
  rows_objective i ty.

(* second stage: floor on the first optimum v (0.99995 * v) carried into the tie-break solves *)
Definition second_stage (i : lp_in) (ty : opt_type) (v : Q) : list row :=
  let floor := v * (99995 # 100000) in
  match ty with
  | ToHumans => map (fun m => mk [t 1 Consumed m] Ge floor) (months i)
  | ToAnimals =>
      [ mk (flat_map (fun m => feed_terms i (2 # 3) m ++ biofuel_terms i (1 # 3) m) (months i)) Ge floor ]
  end.

(* ---------------- semantics ---------------- *)

Fixpoint eval (a : assignment) (l : list (Q * var)) : Q :=
  match l with
  | [] => 0
  | (c, (s, m)) :: l' => c * a s m + eval a l'
  end.

Definition sat (a : assignment) (r : row) : Prop :=
  match sns r with
  | Le => eval a (lhs r) <= rhs r
  | Ge => rhs r <= eval a (lhs r)
  | Eq => eval a (lhs r) == rhs r
  end.

Definition nonneg (a : assignment) : Prop := forall s m, 0 <= a s m.

Definition Feasible (i : lp_in) (ty : opt_type) (a : assignment) : Prop :=
  nonneg a /\ Forall (sat a) (build i ty).

Definition Feasible2 (i : lp_in) (ty : opt_type) (v : Q) (a : assignment) : Prop :=
  Feasible i ty a /\ Forall (sat a) (second_stage i ty v).

(* admissible inputs: waste percentages in [0,100), positive need *)
Definition waste_ok (w : Q) : Prop := 0 <= w /\ w < 100.
Definition admissible (i : lp_in) : Prop :=
  waste_ok (w_sf i) /\ waste_ok (w_cr i) /\ waste_ok (w_meat i) /\ waste_ok (w_scp i) /\
  waste_ok (w_cs i) /\ waste_ok (w_sw i) /\ 0 < need i /\ 0 < sw_kcals i.
