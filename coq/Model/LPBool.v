(* Executable checkers for Model/LP.v: boolean row satisfaction, table-based assignments
   and a boolean feasibility test (used to exhibit concrete feasible points by computation).
   Definitions only; soundness lemmas are in Proofs/LPBoolSound.v. *)
From Coq Require Import QArith List Bool Arith.
From Allfed Require Import Model.LP.
Import ListNotations.
Open Scope Q_scope.

Definition satb (a : assignment) (r : row) : bool :=
  match sns r with
  | Le => Qle_bool (eval a (lhs r)) (rhs r)
  | Ge => Qle_bool (rhs r) (eval a (lhs r))
  | Eq => Qeq_bool (eval a (lhs r)) (rhs r)
  end.

(* a finite table of values; every variable not listed is 0 (first match wins) *)
Definition entry := (slot * nat * Q)%type.

Fixpoint lookup (tbl : list entry) (s : slot) (m : nat) : Q :=
  match tbl with
  | [] => 0
  | (s', m', q) :: tl =>
      if Nat.eqb (slot_id s) (slot_id s') && Nat.eqb m m' then q else lookup tl s m
  end.

Definition a_of (tbl : list entry) : assignment := lookup tbl.

Definition tbl_nonnegb (tbl : list entry) : bool := forallb (fun e : entry => Qle_bool 0 (snd e)) tbl.

Definition feasibleb (i : lp_in) (ty : opt_type) (tbl : list entry) : bool :=
  tbl_nonnegb tbl && forallb (satb (a_of tbl)) (build i ty).

Definition feasible2b (i : lp_in) (ty : opt_type) (v : Q) (tbl : list entry) : bool :=
  feasibleb i ty tbl && forallb (satb (a_of tbl)) (second_stage i ty v).

(* series helper: values of one slot for months 0,1,2,... *)
Fixpoint series_from (s : slot) (m : nat) (l : list Q) : list entry :=
  match l with
  | [] => []
  | q :: tl => (s, m, q) :: series_from s (S m) tl
  end.
Definition series (s : slot) (l : list Q) : list entry := series_from s 0 l.

(* an all-off, all-zero input (N months); examples switch individual fields on *)
Definition lp_zero (n : nat) : lp_in :=
  {| NM := n;
     add_sw := false; add_cr := false; add_sf := false; add_meat := false; add_scp := false; add_cs := false;
     store_years := true;
     pop := 1000000; kcals_monthly_pp := 63000; need := 63;
     w_sf := 0; w_cr := 0; w_meat := 0; w_scp := 0; w_cs := 0; w_sw := 0;
     sf0 := 0; meat_total := 0;
     sw_kcals := 1; sw_init := 0; sw_init_area := 0; sw_min_density := 0; sw_max_density := 0; sw_harvest_loss := 0;
     relocated := false; harvest_delay := 0;
     cap_sw_h := 0; cap_sw_f := 0; cap_sw_b := 0;
     cap_scp_h := 0; cap_scp_f := 0; cap_scp_b := 0;
     cap_cs_h := 0; cap_cs_f := 0; cap_cs_b := 0;
     crops_prod := []; milk := []; greenhouse := []; fish := [];
     scp_prod := []; cs_prod := []; built_area := []; growth := [];
     feed_charge := []; biofuel_charge := [];
     meat_monthly := []; meat_running := [];
     max_feed := []; max_biofuel := [];
     pin_cr := []; pin_sf := []; pin_meat := []; pin_scp := []; pin_cs := []; pin_sw := [] |}.
