(* C02, certificate layer: an explicit upper bound `ubound i ty` on EVERY variable that occurs in
   the linear programme `build i ty` of Model/LP.v, as a cheap function of the inputs (sums of the
   monthly supplies).  It is the `ub` argument of `check_cert` (Model/LPCert.v); with it an
   accepted certificate is an unconditional optimality statement (Proofs/LP_Bound.v).
   Definitions only.  Every piece is non-negative by construction (`pos_part`), so no sign
   hypothesis on the inputs is needed.

   HARNESS INTERFACE
     Eval vm_compute in (ubound i ty).                       (well under a second for 120 months)
     Eval vm_compute in (bound_hyps_b i ty && store_ok_b i). (must be true for the theorems) *)
From Coq Require Import QArith List Bool Arith.
From Allfed Require Import Model.LP Model.LPCert.
Import ListNotations.
Open Scope Q_scope.

(* f 0 + ... + f (n-1), kept reduced *)
Fixpoint rsum (f : nat -> Q) (n : nat) : Q :=
  match n with
  | O => 0
  | S k => Qred (rsum f k + f k)
  end.

(* sum of the positive parts of the first n entries of a series *)
Definition pos_sum (l : list Q) (n : nat) : Q := rsum (fun m => pos_part (at_ l m)) n.

Definition onb (b : bool) (x : Q) : Q := if b then x else 0.

(* ---- one piece per food: bounds its variables in every month ---- *)

(* SF_start, SF_end, SF_h, SF_f, SF_b (stock carried over the years) *)
Definition B_sf (i : lp_in) : Q := onb (add_sf i) (pos_part (sf0 i)).

(* CR_storage, CR_consumed, CR_h, CR_f, CR_b *)
Definition B_cr (i : lp_in) : Q := onb (add_cr i) (pos_sum (crops_prod i) (NM i)).

(* M_start, M_end (storage regime only), M_eaten *)
Definition B_meat (i : lp_in) : Q :=
  onb (add_meat i) (if store_years i then pos_part (meat_total i) else pos_sum (meat_monthly i) (NM i)).

(* SCP_h, SCP_f, SCP_b ; CS_h, CS_f, CS_b *)
Definition B_scp (i : lp_in) : Q := onb (add_scp i) (pos_sum (scp_prod i) (NM i)).
Definition B_cs (i : lp_in) : Q := onb (add_cs i) (pos_sum (cs_prod i) (NM i)).

(* seaweed: ceilings of wet mass and of area in month m *)
Definition sw_W (i : lp_in) (m : nat) : Q := pos_part (sw_max_density i * at_ (built_area i) m).
Definition sw_B (i : lp_in) (m : nat) : Q := pos_part (at_ (built_area i) m).
Definition sw_c (i : lp_in) : Q := sw_min_density i * (sw_harvest_loss i / 100).
(* ceiling of what can be harvested in month m (from the ledger row, wet_m >= 0) *)
Definition sw_U (i : lp_in) (m : nat) : Q :=
  match m with
  | O => 0
  | S p => sw_W i p * pos_part (1 + at_ (growth i) m / 100)
           + sw_B i p * pos_part (sw_c i) + sw_B i m * pos_part (- sw_c i)
  end.
(* SW_wet, SW_area *)
Definition B_sw_stock (i : lp_in) : Q := onb (add_sw i) (rsum (sw_W i) (NM i) + rsum (sw_B i) (NM i)).
(* SW_h, SW_f, SW_b *)
Definition B_sw_use (i : lp_in) : Q := onb (add_sw i) (rsum (sw_U i) (NM i)).

(* kcals that can reach people in one month from the optimised foods *)
Definition B_human (i : lp_in) : Q :=
  B_sf i + B_cr i + sw_kcals i * B_sw_use i + B_meat i + B_cs i + B_scp i.

(* Consumed m (percent fed), and Obj 0 of the people-fed rounds *)
Definition B_cons (i : lp_in) : Q :=
  (B_human i + rsum (fun m => pos_part (given_kcals i m)) (NM i)) * (100 / need i).

(* Obj 0 of the feed-maximising round *)
Definition B_obj_animals (i : lp_in) : Q := pos_sum (max_feed i) (NM i) + pos_sum (max_biofuel i) (NM i).

Definition ubound (i : lp_in) (ty : opt_type) : Q :=
  Qred (B_sf i + B_cr i + B_meat i + B_scp i + B_cs i + B_sw_stock i + B_sw_use i +
        match ty with ToHumans => B_cons i | ToAnimals => B_obj_animals i end).

(* ---- hypotheses of the boundedness theorem, as booleans ---- *)

(* with no month at all the people-fed programme has no row and Obj is unbounded *)
Definition bound_hyps_b (i : lp_in) (ty : opt_type) : bool :=
  match ty with ToHumans => Nat.ltb 0 (NM i) | ToAnimals => true end.

(* first-year-only stock regime: SF_end m / SF_start (m+1), m > 12, are unbounded *)
Definition store_ok_b (i : lp_in) : bool := store_years i || negb (add_sf i).

Definition waste_ok_b (w : Q) : bool := Qle_bool 0 w && negb (Qle_bool 100 w).
Definition admissible_b (i : lp_in) : bool :=
  waste_ok_b (w_sf i) && waste_ok_b (w_cr i) && waste_ok_b (w_meat i) && waste_ok_b (w_scp i) &&
  waste_ok_b (w_cs i) && waste_ok_b (w_sw i) && negb (Qle_bool (need i) 0) && negb (Qle_bool (sw_kcals i) 0).

(* the whole per-instance check: input hypotheses + certificate with the computed bound *)
Definition cert_ok (i : lp_in) (ty : opt_type) (y : list Q) (claimed : Q) : bool :=
  admissible_b i && bound_hyps_b i ty && store_ok_b i && Qle_bool 0 claimed &&
  check_cert (build i ty) y (ubound i ty) claimed.
