(* Model/Tables.v  (M8; used by C17, C16, C15)
   GENERIC access to the generated country table (Gen/CountryTable.v) and the row validity predicates.

   The generated table is  raw_rows : list raw_row  with
       raw_row = (iso3, country, cells),  cells : list (option (Z * Z))   in the order of Gen `columns`
   where  Some (m, e)  denotes the exact decimal  m * 10^e  written in the CSV and  None  a missing / NaN cell.
   This file does NOT import Gen/: every function takes the column list as an argument, so that it can be
   applied to the regenerated table, to perturbed rows (correspondence) and to hypothetical tables (lemmas).

     dq, decode_row, getq       decoding and access by column name
     verify_ok                  boolean mirror of ScenarioRunnerNoTrade.verify_country_data
                                (src/scenarios/run_model_no_trade.py), assertion by assertion; a missing cell behaves as
                                NaN does in Python (every comparison with it is False)
     complete, extra_ok         the clauses of property C17 the code does not assert (no missing cell, fractions in
                                [0,1], seasonality sum within 1e-9 of 1, reductions >= -1 (crop: within the code's 1e-8
                                snap), every other quantity >= 0)
     row_ok                     complete && verify_ok && extra_ok        <- what C16 / C17 use
     wavg                       ImportUtilities.weighted_average_percentages
   No proofs here (Proofs/Tables.v). *)
From Coq Require Import ZArith QArith List String Bool.
From Allfed Require Import Base.StrUtil.
Import ListNotations.
Open Scope Q_scope.
Open Scope string_scope.

(* ------------------------------------------------------------------ decoding *)

Definition raw_cell := option (Z * Z).
Definition raw_row := (string * string * list raw_cell)%type.

(* m * 10^e, exact *)
Definition dq (c : Z * Z) : Q :=
  let (m, e) := c in
  if (e <? 0)%Z then Qmake m (Z.to_pos (10 ^ (- e))) else inject_Z (m * 10 ^ e).

(* a decoded row: code, name, (column, value) association list; None = missing (NaN) *)
Record row := { iso3 : string; cname : string; cells : list (string * option Q) }.

Definition decode_row (cols : list string) (r : raw_row) : row :=
  let '(c, n, cs) := r in
  {| iso3 := c; cname := n; cells := combine cols (map (option_map dq) cs) |}.

(* number of raw cells = number of columns (combine would silently truncate) *)
Definition raw_width_ok (cols : list string) (r : raw_row) : bool :=
  let '(_, _, cs) := r in Nat.eqb (List.length cs) (List.length cols).

(* value of a column; None when the column does not exist or the cell is missing *)
Definition getq (r : row) (k : string) : option Q :=
  match lookup k (cells r) with Some v => v | None => None end.

Definition has_col (r : row) (k : string) : bool :=
  match lookup k (cells r) with Some _ => true | None => false end.

(* replace the value of a column (used by the correspondence cases) *)
Definition set_cell (k : string) (v : option Q) (r : row) : row :=
  {| iso3 := iso3 r; cname := cname r;
     cells := map (fun kv => if String.eqb (fst kv) k then (fst kv, v) else kv) (cells r) |}.

(* ------------------------------------------------------------------ comparisons with NaN semantics *)

Definition Qlt_b (x y : Q) : bool := negb (Qle_bool y x).

Definition o_lt (a b : option Q) : bool :=
  match a, b with Some x, Some y => Qlt_b x y | _, _ => false end.
Definition o_le (a b : option Q) : bool :=
  match a, b with Some x, Some y => Qle_bool x y | _, _ => false end.
Definition o_abs (a : option Q) : option Q := option_map (fun x => if Qle_bool 0 x then x else - x) a.
Definition o_add (a b : option Q) : option Q :=
  match a, b with Some x, Some y => Some (x + y) | _, _ => None end.
Definition q (x : Q) : option Q := Some x.

(* ------------------------------------------------------------------ verify_country_data *)

(* assert lo <= x (or lo < x) and x < hi, in the order of the source *)
Definition verify_bounds : list (string * (bool * Q * Q)) :=
  [ ("population", (true, 10000, 10000000000));
    ("grasses_baseline", (false, 0, 20000));
    ("dairy", (false, 0, 1000000000));
    ("chicken", (false, 0, 1000000000));
    ("pork", (false, 0, 1000000000));
    ("beef", (false, 0, 1000000000));
    ("small_animals", (false, 0, 100000000000));
    ("medium_animals", (false, 0, 10000000000));
    ("large_animals", (false, 0, 10000000000));
    ("dairy_cows", (false, 0, 1000000000));
    ("biofuel_kcals", (false, 0, 1000000000));
    ("biofuel_protein", (false, 0, 1000000000));
    ("biofuel_fat", (false, 0, 1000000000));
    ("feed_kcals", (false, 0, 2000000000));
    ("feed_protein", (false, 0, 1000000000));
    ("feed_fat", (false, 0, 1000000000));
    ("crop_kcals", (false, 0, 10000000000));
    ("crop_protein", (false, 0, 10000000000));
    ("crop_fat", (false, 0, 10000000000));
    ("distribution_loss_crops", (false, 0, 1));
    ("distribution_loss_sugar", (false, 0, 1));
    ("distribution_loss_meat", (false, 0, 1));
    ("distribution_loss_dairy", (false, 0, 1));
    ("distribution_loss_seafood", (false, 0, 1));
    ("retail_waste_baseline", (false, 0, 1));
    ("retail_waste_price_double", (false, 0, 1));
    ("retail_waste_price_triple", (false, 0, 1));
    ("wood_pulp_tonnes", (false, 0, 1000000000));
    ("crop_area_1000ha", (false, 0, 2000000000));
    ("milk_yield_kg_per_milk_bearing_animal_per_year", (false, 0, 20000));
    ("kg_meat_per_pig", (false, 0, 200));
    ("kg_meat_per_chicken", (false, 0, 5)) ].

Definition bound_ok (r : row) (b : string * (bool * Q * Q)) : bool :=
  let '(k, (strict, lo, hi)) := b in
  let x := getq r k in
  (if strict : bool then o_lt (q lo) x else o_le (q lo) x) && o_lt x (q hi).

Definition nat_str (n : nat) : string :=
  match n with
  | 0%nat => "0" | 1%nat => "1" | 2%nat => "2" | 3%nat => "3" | 4%nat => "4" | 5%nat => "5" | 6%nat => "6"
  | 7%nat => "7" | 8%nat => "8" | 9%nat => "9" | 10%nat => "10" | 11%nat => "11" | 12%nat => "12" | _ => "?"
  end.

Definition years : list nat := seq 1 10.          (* range(1, 11) *)
Definition month_nums : list nat := seq 1 12.     (* range(1, 13) *)
Definition months : list string :=
  ["jan"; "feb"; "mar"; "apr"; "may"; "jun"; "jul"; "aug"; "sep"; "oct"; "nov"; "dec"].

Definition eps8 : Q := 1 # 100000000.

(* for i in 1..10:  if x < -1: (if |x + 1| < 1e-8: snap to -1 else: assert False) *)
Definition crop_reduction_ok (r : row) (i : nat) : bool :=
  let x := getq r ("crop_reduction_year" ++ nat_str i) in
  if o_lt x (q (-1)) then o_lt (o_abs (o_add x (q 1))) (q eps8) else true.

(* assert all(grasses_reduction_year{i} >= -1) *)
Definition grasses_reduction_ok (r : row) (i : nat) : bool :=
  o_le (q (-1)) (getq r ("grasses_reduction_year" ++ nat_str i)).

Definition seasonality_sum (r : row) : option Q :=
  fold_left (fun acc i => o_add acc (getq r ("seasonality_m" ++ nat_str i))) month_nums (q 0).

(* np.isclose(s, 1):  |s - 1| <= atol + rtol * |1|  with atol = 1e-8, rtol = 1e-5 *)
Definition isclose_tol : Q := (1 # 100000000) + (1 # 100000).
Definition seasonality_isclose (r : row) : bool :=
  o_le (o_abs (o_add (seasonality_sum r) (q (-1)))) (q isclose_tol).

(* assert all(stocks_kcals_<month> < 10e9) over the 12 months *)
Definition stocks_upper_ok (r : row) : bool :=
  forallb (fun m => o_lt (getq r ("stocks_kcals_" ++ m)) (q 10000000000)) months.

(* for i in range(1, 11): months[i]  -- i.e. feb .. nov; jan and dec are NOT looked at (as in the source):
     if x < 0: (if |x| < 1e-8: <sets crop_reduction_year{i} = 0> else: assert False)
   The side effect on crop_reduction_year{i} is irrelevant for acceptance (it happens after the crop checks). *)
Definition stocks_lower_ok (r : row) : bool :=
  forallb (fun m => let x := getq r ("stocks_kcals_" ++ m) in
                    if o_lt x (q 0) then o_lt (o_abs x) (q eps8) else true)
          (firstn 10 (skipn 1 months)).

(* the statements of verify_country_data in source order: bounds up to crop_fat, reductions, seasonality, stocks,
   remaining bounds.  (Order does not matter for the boolean.) *)
Definition verify_ok (r : row) : bool :=
  forallb (bound_ok r) verify_bounds
  && forallb (crop_reduction_ok r) years
  && forallb (grasses_reduction_ok r) years
  && seasonality_isclose r
  && stocks_upper_ok r
  && stocks_lower_ok r.

(* ------------------------------------------------------------------ the clauses of C17 beyond the code's asserts *)

Definition complete (r : row) : bool :=
  forallb (fun kv => match snd kv with Some _ => true | None => false end) (cells r).

Definition is_reduction (c : string) : bool :=
  prefix "crop_reduction_year" c || prefix "grasses_reduction_year" c.

(* columns whose values are shares of a whole *)
Definition is_fraction (c : string) : bool :=
  prefix "seasonality_m" c || prefix "distribution_loss_" c || prefix "retail_waste_" c
  || str_mem c ["percent_of_global_production"; "percent_of_global_capex"; "fraction_crop_area"; "max_area_fraction";
                "new_area_fraction"; "initial_built_fraction"; "initial_seaweed_fraction"; "power_law_improvement"].

Definition seas_tol : Q := 1 # 1000000000.   (* 1e-9 *)

Definition cell_extra_ok (kv : string * option Q) : bool :=
  let (c, v) := kv in
  if prefix "crop_reduction_year" c then o_lt (q (-1 - eps8)) v
  else if prefix "grasses_reduction_year" c then o_le (q (-1)) v
  else if is_fraction c then o_le (q 0) v && o_le v (q 1)
  else o_le (q 0) v.

Definition extra_ok (r : row) : bool :=
  forallb cell_extra_ok (cells r)
  && o_le (o_abs (o_add (seasonality_sum r) (q (-1)))) (q seas_tol).

Definition row_ok (r : row) : bool := complete r && verify_ok r && extra_ok r.

(* the columns verify_country_data and the property clauses name must exist *)
Definition required_columns : list string :=
  map fst verify_bounds
  ++ map (fun i => "crop_reduction_year" ++ nat_str i) years
  ++ map (fun i => "grasses_reduction_year" ++ nat_str i) years
  ++ map (fun i => "seasonality_m" ++ nat_str i) month_nums
  ++ map (fun m => "stocks_kcals_" ++ m) months.

Definition table_ok (cols : list string) (raws : list raw_row) : bool :=
  forallb (fun c => str_mem c cols) required_columns
  && forallb (raw_width_ok cols) raws
  && forallb (fun r => row_ok (decode_row cols r)) raws.

Definition codes_of (raws : list raw_row) : list string := map (fun r => fst (fst r)) raws.
Definition names_of (raws : list raw_row) : list string := map (fun r => snd (fst r)) raws.

(* duplicate-free, boolean *)
Fixpoint nodup_b (l : list string) : bool :=
  match l with
  | [] => true
  | x :: l' => negb (str_mem x l') && nodup_b l'
  end.

Definition same_set_b (a b : list string) : bool :=
  forallb (fun x => str_mem x b) a && forallb (fun x => str_mem x a) b.

(* ------------------------------------------------------------------ weighted_average_percentages *)

Definition sentinel : Q := 9370000000000000000000000000000000000.   (* 9.37e36 *)

Inductive wres := WAssert | WOk (v : Q).

Definition qsum (l : list Q) : Q := fold_left Qplus l 0.

(* a percentage is "non-possible" when  p > 1e5 or p < -100 *)
Definition impossible (p : Q) : bool := Qlt_b 100000 p || Qlt_b p (-100).

(* loop state: (N_valid, mean_value, rejected_weighting_sum, non_rejected_weighting_sum) *)
Definition wstate := (nat * Q * Q * Q)%type.

Fixpoint wloop (ps ws : list Q) (st : wstate) : option wstate :=
  match ps, ws with
  | p :: ps', w :: ws' =>
    let '(n, mean, rej, nrej) := st in
    if Qle_bool 0 w && Qle_bool w 1 then          (* assert 0 <= weight <= 1 *)
      if impossible p then wloop ps' ws' (n, mean, rej + w, nrej)
      else wloop ps' ws' (S n, mean + p * w, rej, nrej + w)
    else None
  | _, _ => Some st
  end.

Definition w_hi : Q := 100001 # 100000.   (* 1.00001 *)
Definition w_lo : Q := 99999 # 100000.    (* 0.99999 *)
Definition r_lo : Q := 9999 # 10000.      (* 0.9999 *)
Definition r_hi : Q := 10001 # 10000.     (* 1.0001 *)

(* `spec` = true divides by the un-rejected weight sum (candidate repair F6), false by 1 - rejected (the code) *)
Definition wavg_gen (spec : bool) (ps ws : list Q) : wres :=
  if negb (Nat.eqb (List.length ps) (List.length ws)) then WAssert
  else if negb (Qle_bool (qsum ws) w_hi && Qlt_b w_lo (qsum ws)) then WAssert
  else match wloop ps ws (0%nat, 0, 0, 0) with
       | None => WAssert
       | Some (n, mean, rej, nrej) =>
         if Nat.eqb n 0 then WOk sentinel
         else let ren := 1 - rej in
              if Qeq_bool ren 0 then WOk sentinel
              else if negb (Qle_bool r_lo (nrej / ren) && Qle_bool (nrej / ren) r_hi) then WAssert
              else WOk (mean / (if spec then nrej else ren))
       end.

Definition wavg := wavg_gen false.        (* the code as it is *)
Definition wavg_spec := wavg_gen true.

(* average_percentages: even weights 1/n  (assert round(sum, 8) == 1 holds trivially in exact arithmetic) *)
Definition avg_percentages (ps : list Q) : wres :=
  let n := List.length ps in
  wavg ps (repeat (1 / inject_Z (Z.of_nat n)) n).

(* valid (possible) inputs with their weights *)
Fixpoint valid_pairs (ps ws : list Q) : list (Q * Q) :=
  match ps, ws with
  | p :: ps', w :: ws' => if impossible p then valid_pairs ps' ws' else (p, w) :: valid_pairs ps' ws'
  | _, _ => []
  end.

(* ------------------------------------------------------------------ comparators for the correspondence cases *)

Definition Qabs_t (x : Q) : Q := if Qle_bool 0 x then x else - x.
Definition close_t (tol a b : Q) : bool :=
  Qle_bool (Qabs_t (a - b)) (tol * (if Qle_bool 1 (Qabs_t a) then Qabs_t a else 1)).

Definition wres_agrees (tol : Q) (m : wres) (observed : option Q) : bool :=
  match m, observed with
  | WAssert, None => true
  | WOk v, Some o => close_t tol v o
  | _, _ => false
  end.

(* weighted_average_percentages: 0 = agrees with the code as modelled (wavg); 10 = agrees only with the repaired
   variant wavg_spec (somebody applied the repair); 1 = acceptance differs; 2 = value differs *)
Definition check_wavg (tol : Q) (ps ws : list Q) (observed : option Q) : nat :=
  if wres_agrees tol (wavg ps ws) observed then 0
  else if wres_agrees tol (wavg_spec ps ws) observed then 10
  else match wavg ps ws, observed with
       | WOk _, Some _ => 2
       | _, _ => 1
       end.

Definition set_cells (ovs : list (string * option Q)) (r : row) : row :=
  fold_left (fun r kv => set_cell (fst kv) (snd kv) r) ovs r.

(* verify_country_data on row number i of the table with some cells replaced:
   0 agree; 1 model accepts, implementation rejects; 2 model rejects, implementation accepts; 3 no such row *)
Definition check_verify (rows : list row) (i : nat) (ovs : list (string * option Q)) (accepted : bool) : nat :=
  match nth_error rows i with
  | None => 3
  | Some r =>
    match verify_ok (set_cells ovs r), accepted with
    | true, true | false, false => 0
    | true, false => 1
    | false, true => 2
    end
  end.
