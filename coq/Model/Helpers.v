(* C18 - hand-offs between the three optimisation rounds (src/optimizer/parameters.py).
   Executable definitions only; line-by-line transliterations over exact rationals.

     consume_all / min_needs     calculate_human_consumption_for_min_needs (+ the three validators it calls)
     fix_one / fill              fill_negatives_with_positives
     redistribute                get_second_round_kcals_with_redistributed_meat (called by
                                 compute_parameters_second_round; DESIGN calls it redistribute_meat)
     bump1 / bump                increase_biofuels_then_feed (current code: np.minimum of fix 5ea9ff8 and the
                                 clamp of both potential increases at 0)

   Units: every series handed to calculate_human_consumption_for_min_needs is already in
   "kcals per person per day" (the *_kcals_equivalent members of the round-1 interpreter); the function
   performs no conversion itself, the ceiling is KCALS_DAILY * percent / 100 in the same unit. *)
From Coq Require Import QArith List String Bool.
From Allfed Require Import Base.QList.
Import ListNotations.
Open Scope Q_scope.

Inductive res (A : Type) : Type := Ok (a : A) | Skip | Rejected.
Arguments Ok {A} a.
Arguments Skip {A}.
Arguments Rejected {A}.

(* ------------------------------------------------------------------ minimum human needs *)

(* if percent_people_fed > THRESHOLD: K * (THRESHOLD / 100) else K * (percent_people_fed / 100) *)
Definition needs_cap (kcals_daily threshold pf1 : Q) : Q :=
  if Qltb threshold pf1 then kcals_daily * (threshold / 100) else kcals_daily * (pf1 / 100).

(* one month: remaining := cap; for each food in order: consumed = min(food, remaining); remaining -= consumed *)
Fixpoint consume_all (remaining : Q) (foods : list Q) : list Q :=
  match foods with
  | [] => []
  | f :: fs => let c := pymin f remaining in c :: consume_all (remaining - c) fs
  end.

(* what round 1 reports as eaten by people, per food, kcals per person per day, one entry per month *)
Record r1_eaten : Type := {
  e_fish : list Q; e_meat : list Q; e_milk : list Q; e_greenhouse : list Q;
  e_immediate_oc : list Q; e_new_stored_oc : list Q; e_stored_food : list Q;
  e_scp : list Q; e_cell_sugar : list Q; e_seaweed : list Q }.

Open Scope string_scope.

(* attribute of interpreted_results_round1 -> series *)
Definition series_of (r : r1_eaten) (attr : string) : list Q :=
  if attr =? "fish_kcals_equivalent" then e_fish r
  else if attr =? "meat_kcals_equivalent" then e_meat r
  else if attr =? "milk_kcals_equivalent" then e_milk r
  else if attr =? "greenhouse_kcals_equivalent" then e_greenhouse r
  else if attr =? "immediate_outdoor_crops_kcals_equivalent" then e_immediate_oc r
  else if attr =? "new_stored_outdoor_crops_kcals_equivalent" then e_new_stored_oc r
  else if attr =? "stored_food_kcals_equivalent" then e_stored_food r
  else if attr =? "scp_kcals_equivalent" then e_scp r
  else if attr =? "cell_sugar_kcals_equivalent" then e_cell_sugar r
  else if attr =? "seaweed_kcals_equivalent" then e_seaweed r
  else [].

Definition all_attrs : list string :=
  ["fish_kcals_equivalent"; "meat_kcals_equivalent"; "milk_kcals_equivalent"; "greenhouse_kcals_equivalent";
   "immediate_outdoor_crops_kcals_equivalent"; "new_stored_outdoor_crops_kcals_equivalent";
   "stored_food_kcals_equivalent"; "scp_kcals_equivalent"; "cell_sugar_kcals_equivalent";
   "seaweed_kcals_equivalent"].

(* the order of the consume(...) calls in the month loop: (key of the returned dictionary, attributes summed).
   The harness extracts the same table from the source by AST on every run and compares (HelpersCheck.check_order) *)
Definition order_table : list (string * list string) :=
  [("fish", ["fish_kcals_equivalent"]);
   ("meat", ["meat_kcals_equivalent"]);
   ("dairy", ["milk_kcals_equivalent"]);
   ("greenhouse", ["greenhouse_kcals_equivalent"]);
   ("outdoor_crops", ["immediate_outdoor_crops_kcals_equivalent"; "new_stored_outdoor_crops_kcals_equivalent"]);
   ("stored_food", ["stored_food_kcals_equivalent"]);
   ("methane_scp", ["scp_kcals_equivalent"]);
   ("cellulosic_sugar", ["cell_sugar_kcals_equivalent"]);
   ("seaweed", ["seaweed_kcals_equivalent"])].

(* the table Validator.verify_food_usage_priorities_round2 zips (food name, interpreter attribute); for
   "outdoor_crops" the validator replaces the looked-up series by immediate + new_stored *)
Definition validator_table : list (string * string) :=
  [("fish", "fish_kcals_equivalent"); ("meat", "meat_kcals_equivalent"); ("dairy", "milk_kcals_equivalent");
   ("greenhouse", "greenhouse_kcals_equivalent"); ("outdoor_crops", "immediate_outdoor_crops_kcals_equivalent");
   ("stored_food", "stored_food_kcals_equivalent"); ("methane_scp", "scp_kcals_equivalent");
   ("cellulosic_sugar", "cell_sugar_kcals_equivalent"); ("seaweed", "seaweed_kcals_equivalent")].

Close Scope string_scope.

Definition avail_of (r : r1_eaten) (m : nat) (attrs : list string) : Q :=
  fold_left (fun acc a => acc + nth m (series_of r a) 0) (tl attrs) (nth m (series_of r (hd EmptyString attrs)) 0).

(* what round 1 ate of each food in month m, in priority order *)
Definition month_foods (r : r1_eaten) (m : nat) : list Q :=
  map (fun e => avail_of r m (snd e)) order_table.

Definition min_needs_rows (cap : Q) (r : r1_eaten) (N : nat) : list (list Q) :=
  map (fun m => consume_all cap (month_foods r m)) (seq 0 N).

Definition column (rows : list (list Q)) (j : nat) : list Q := map (fun row => nth j row 0) rows.

Definition min_len (r : r1_eaten) : nat :=
  fold_left Nat.min (map (fun a => List.length (series_of r a)) all_attrs) (List.length (e_fish r)).

(* --- the three validators run at the end of the function (kcals only: fat/protein excluded) *)

(* assert_consumption_within_limits: every food, every month <= the ceiling *)
Definition within_limits (cap : Q) (rows : list (list Q)) : bool :=
  forallb (fun row => forallb (fun c => Qle_bool c cap) row) rows.

(* verify_minimum_food_consumption_sum_round2: monthly total <= Food.conversions.kcals_daily * (1 + 1e-4) *)
Definition eps4 : Q := 1 # 10000.
Definition sum_ok (conv_kcals_daily : Q) (rows : list (list Q)) : bool :=
  forallb (fun row => Qle_bool (qsum row) (conv_kcals_daily * (1 + eps4))) rows.

(* verify_food_usage_priorities_round2, one month: usage percentages must not increase along the order *)
Fixpoint usage_ok (prev : Q) (consumed avail : list Q) : bool :=
  match consumed, avail with
  | c :: cs, a :: avs =>
      let pct := 100 * c / a in
      if Qle_bool a eps4 || Qle_bool pct eps4 then usage_ok prev cs avs
      else if Qle_bool pct (prev * (1 + eps4)) then usage_ok pct cs avs else false
  | _, _ => true
  end.

Definition validator_avail (r : r1_eaten) (m : nat) : list Q :=
  map (fun e => if String.eqb (fst e) "outdoor_crops"
                then nth m (e_immediate_oc r) 0 + nth m (e_new_stored_oc r) 0
                else nth m (series_of r (snd e)) 0) validator_table.

Definition priorities_ok (r : r1_eaten) (rows : list (list Q)) : bool :=
  forallb (fun mr => usage_ok 100 (snd mr) (validator_avail r (fst mr))) (combine (seq 0 (List.length rows)) rows).

(* the function: Rejected = an IndexError (NMONTHS beyond a series) or one of the assertions fires.
   `tracked` = include_fat or include_protein of the round-1 results: the two validators of validate_results.py then
   return without checking anything (the values computed are the same whatever the flags) *)
Definition min_needs_gen (tracked : bool) (kcals_daily threshold pf1 conv_kcals_daily : Q) (N : nat) (r : r1_eaten)
  : res (list (string * list Q)) :=
  if Nat.ltb (min_len r) N then Rejected else
  let cap := needs_cap kcals_daily threshold pf1 in
  let rows := min_needs_rows cap r N in
  if within_limits cap rows && (tracked || (sum_ok conv_kcals_daily rows && priorities_ok r rows))
  then Ok (combine (map fst order_table) (map (column rows) (seq 0 (List.length order_table))))
  else Rejected.

(* every shipped simulation: fat and protein not tracked *)
Definition min_needs := min_needs_gen false.

(* ------------------------------------------------------------------ fill_negatives_with_positives *)

(* inner loop body for one i (descending), with the `break` once arr[neg] == 0.
   Qred puts a rational in lowest terms (Qred x == x): it changes no value, it only keeps numerators and
   denominators small when case files are evaluated (repeated + / - would otherwise square them) *)
Fixpoint fix_one (neg : nat) (idxs : list nat) (arr : list Q) : list Q :=
  match idxs with
  | [] => arr
  | i :: rest =>
      if Nat.eqb i neg || Qle_bool (nth i arr 0) 0 then fix_one neg rest arr
      else
        let adj := pymin (- nth neg arr 0) (nth i arr 0) in
        let arr1 := upd arr neg (Qred (nth neg arr 0 + adj)) in
        let arr2 := upd arr1 i (Qred (nth i arr1 0 - adj)) in
        if Qeq_bool (nth neg arr2 0) 0 then arr2 else fix_one neg rest arr2
  end.

Definition down (n : nat) : list nat := rev (seq 0 n).

(* np.where(arr < 0)[0], computed once before the loops *)
Definition neg_indices (arr : list Q) : list nat :=
  filter (fun i => Qltb (nth i arr 0) 0) (seq 0 (List.length arr)).

Definition fill (arr : list Q) : list Q :=
  fold_left (fun a neg => fix_one neg (down (List.length a)) a) (neg_indices arr) arr.

(* ------------------------------------------------------------------ meat re-timing between rounds 1 and 2 *)

Definition tol3 : Q := 1 # 1000.
Definition qabs (x : Q) : Q := if Qle_bool 0 x then x else - x.

Definition redistribute (r1 r2 : list Q) : res (list Q) :=
  if Qltb (qsum r2) (qsum r1) then Skip                             (* `return None`: round 2 is abandoned *)
  else if negb (Nat.eqb (List.length r1) (List.length r2)) then Rejected   (* numpy shape error at r2 - r1 *)
  else
    let n := List.length r2 in
    let diff := tab n (fun m => nth m r2 0 - nth m r1 0) in
    let spd := fill diff in
    if negb (forallb (fun x => Qle_bool (- tol3) x) spd) then Rejected else
    let adj := tab n (fun m => nth m spd 0 - nth m diff 0) in
    if negb (Qle_bool (qabs (qsum adj)) tol3) then Rejected else
    if negb (forallb (fun x => Qle_bool (- tol3) x) (tab n (fun m => nth m adj 0 + nth m r2 0))) then Rejected else
    Ok (tab n (fun m => nth m r2 0 + nth m adj 0)).

(* ------------------------------------------------------------------ increase_biofuels_then_feed *)

Definition regulariser : Q := 1 # 1000000000.

Definition bump1 (b f inc maxb maxf avail : Q) : Q * Q :=
  let pb := npmax 0 (npmin (b + inc) maxb - b) in      (* np.maximum(np.minimum(biofuel + increase, max_biofuel) - biofuel, 0) *)
  let pf := npmax 0 (npmin (f + inc) maxf - f) in      (* np.maximum(np.minimum(feed + increase, max_feed) - feed, 0) *)
  let tp := pb + pf in
  let allowed := if Qle_bool (tp + b + f) avail then tp else avail - b - f in
  let prop := pb / (tp + regulariser) in
  let ab := allowed * prop in
  let af := npmin (allowed - ab) pf in
  let ab := npmax 0 ab in
  let af := npmax 0 af in
  (b + ab, f + af).

(* the code before the clamp fix (potential increases could be negative when a quantity already exceeded its
   demand or the requested increase was negative); kept for the refutation that motivated the fix *)
Definition bump1_before_clamp_fix (b f inc maxb maxf avail : Q) : Q * Q :=
  let pb := npmin (b + inc) maxb - b in
  let pf := npmin (f + inc) maxf - f in
  let tp := pb + pf in
  let allowed := if Qle_bool (tp + b + f) avail then tp else avail - b - f in
  let prop := pb / (tp + regulariser) in
  let ab := allowed * prop in
  let af := npmin (allowed - ab) pf in
  let ab := npmax 0 ab in
  let af := npmax 0 af in
  (b + ab, f + af).

(* the code before fix 5ea9ff8 (kept for the refutation that motivated the fix) *)
Definition bump1_before_fix (b f inc maxb maxf avail : Q) : Q * Q :=
  let pb := npmin (b + inc) maxb - b in
  let pf := npmin (f + inc) maxf - f in
  let tp := pb + pf in
  let allowed := if Qle_bool (tp + b + f) avail then tp else avail - b - f in
  let prop := pb / (tp + regulariser) in
  let ab := allowed * prop in
  let af := allowed - ab in
  (b + npmax 0 ab, f + npmax 0 af).

Definition bump (b f inc maxb maxf avail : list Q) : list Q * list Q :=
  let n := List.length b in
  let at_ m := bump1 (nth m b 0) (nth m f 0) (nth m inc 0) (nth m maxb 0) (nth m maxf 0) (nth m avail 0) in
  (tab n (fun m => fst (at_ m)), tab n (fun m => snd (at_ m))).
