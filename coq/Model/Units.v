(* M1: unit conversion model.  Tables, derived settings, the conversion formula and the
   in_units suffix branches come from Gen/UnitTables.v (regenerated from the source on
   every run); this file adds the (small) control flow of get_conversion / in_units. *)
From Coq Require Import QArith List String Bool.
From Allfed Require Import Base.StrUtil Gen.UnitTables.
Import ListNotations.
Open Scope Q_scope.
Open Scope string_scope.

Inductive rej := AssertRejected | TypeRejected | ValueRejected | ExitRejected.
Inductive result (A : Type) := Ok (a : A) | Rejected (r : rej).
Arguments Ok {A} a.
Arguments Rejected {A} r.

Inductive vals :=
| Scalar (k f p : Q)
| Monthly (k f p : list Q).

Definition is_monthly (v : vals) : bool := match v with Scalar _ _ _ => false | Monthly _ _ _ => true end.

Definition vals_scale (ck cf cp : Q) (v : vals) : vals :=
  match v with
  | Scalar k f p => Scalar (ck * k) (cf * f) (cp * p)
  | Monthly k f p => Monthly (map (Qmult ck) k) (map (Qmult cf) f) (map (Qmult cp) p)
  end.

(* get_unit_multipliers... + get_conversion for one nutrient *)
Definition conversion (t : list (string * Q)) (from to : string) : result Q :=
  match lookup from t, lookup to t with
  | Some mf, Some mt => Ok (conversion_formula mf mt)
  | _, _ => Rejected AssertRejected
  end.

(* which branch of in_units fires, as (result label suffix, lookup suffix) *)
Fixpoint pick_branch (u0 : string) (bs : list (string * string * string)) : string * string :=
  match bs with
  | [] => in_units_else
  | (tst, nw, cv) :: bs' => if contains tst u0 then (nw, cv) else pick_branch u0 bs'
  end.

(* Food.__init__'s normalisation of one label (float/array nutrient values) *)
Definition ctor_label (monthly : bool) (l : string) : string :=
  if monthly && negb (contains "each month" l) then l ++ " each month" else l.

Record food := { fv : vals; ku : string; fu : string; pu : string; units : list string }.

Definition mk_food (v : vals) (k f p : string) : food :=
  let m := is_monthly v in
  let k' := ctor_label m k in let f' := ctor_label m f in let p' := ctor_label m p in
  {| fv := v; ku := k'; fu := f'; pu := p'; units := [k'; f'; p'] |}.

Definition in_units (c : conv) (x : food) (tk tf tp : string) : result food :=
  let from := units x in
  let u0 := nth 0 from "" in let u1 := nth 1 from "" in let u2 := nth 2 from "" in
  let '(nw, cv) := pick_branch u0 in_units_branches in
  match conversion (kcal_mult c) u0 (tk ++ cv),
        conversion (fat_mult c) u1 (tf ++ cv),
        conversion (protein_mult c) u2 (tp ++ cv) with
  | Ok ck, Ok cf, Ok cp =>
      Ok (mk_food (vals_scale ck cf cp (fv x)) (tk ++ nw) (tf ++ nw) (tp ++ nw))
  | _, _, _ => Rejected AssertRejected
  end.

Definition helper (c : conv) (name : string) (x : food) : result food :=
  match lookup name helper_targets with
  | Some (a, b, d) => in_units c x a b d
  | None => Rejected AssertRejected
  end.

(* classification of a label by its suffix: 0 = total, 1 = each month, 2 = per month *)
Definition suffix_class (l : string) : nat :=
  if ends_with " each month" l then 1%nat else if ends_with " per month" l then 2%nat else 0%nat.

Definition base_of (l : string) : string :=
  if ends_with " each month" l then remove_suffix " each month" l
  else if ends_with " per month" l then remove_suffix " per month" l else l.

Definition same_base (a b : string) : bool := String.eqb (base_of a) (base_of b).

Definition bare_keys (ks : list string) : list string :=
  filter (fun k => Nat.eqb (suffix_class k) 0) ks.
