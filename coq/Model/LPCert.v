(* C02, third layer: per-instance OPTIMALITY certificate checker for the LPs of Model/LP.v

     maximise  a Obj 0   subject to   nonneg a   and   Forall (sat a) rows.

   Weak duality with the Neumaier-Shcherbina bound repair, so that floating-point dual
   multipliers (rationalised exactly) suffice.  Definitions only; soundness is in
   Proofs/LPCert.v.

   DATA INTERFACE FOR THE HARNESS
   ------------------------------
   * The case file contains   Definition y : list Q := [ ... ].   written with the `fq` / `zq`
     decoders of Base/Dec.v: exactly ONE multiplier per row of `build i ty`, IN THE ORDER of
     `build i ty` (resource rows, then per month feed/biofuel + consumed + caps, then the
     objective rows).  A length mismatch makes the checker answer `false`.
   * Sign convention (multipliers of the MAXIMISATION problem "max Obj s.t. rows, a >= 0",
     i.e. y_r = d(optimum)/d(rhs_r)):
         Le rows:  y_r >= 0      Ge rows:  y_r <= 0      Eq rows:  free.
     Wrong-signed multipliers (round-off) are CLAMPED to 0 inside the checker, never trusted.
     A solver that MINIMISES  -Obj  (PuLP/CBC `constraint.pi`, HiGHS `marginals` of
     `linprog(c = -e_Obj)`) reports the sensitivities of the minimum: NEGATE every one of them
     before writing `y`.  (Whether a given front end flips the signs back for `LpMaximize` is
     best settled empirically, once: in the convention required here the multipliers of the
     `Obj - Consumed_m <= 0` rows of a human round are >= 0 and sum to 1, and `cert_yb`
     reproduces the optimum; with the wrong sign everything is clamped away and `cert_yb`
     is far off.)
   * The checker evaluates
         by    := sum_r y_r * rhs_r
         d_j   := c_j - sum_r y_r * coef_{r,j}          (c_j = 1 for (Obj,0), else 0)
         bound := by + ub * sum_j max(0, d_j)
     and answers   Qle_bool bound claimed.   `ub` is any number the caller can justify as an
     upper bound of every variable that occurs (see `check_cert_sound_occ`);
     `check_cert_nobound` needs no `ub` but requires every d_j <= 0 exactly.
   * Evaluate with   Eval vm_compute in (check_cert (build i ty) y ub claimed).          *)
From Coq Require Import QArith List Bool Arith PArith.
From Allfed Require Import Model.LP.
Import ListNotations.
Open Scope Q_scope.

(* ---------------- keys ---------------- *)

(* injective positive encoding of a variable (26 slots) *)
Definition encode (v : var) : positive := Pos.of_succ_nat (slot_id (fst v) + 26 * snd v).

Definition slot_of_id (n : nat) : slot :=
  match n with
  | 0 => SF_start | 1 => SF_end | 2 => SF_h | 3 => SF_f | 4 => SF_b
  | 5 => SCP_h | 6 => SCP_f | 7 => SCP_b
  | 8 => CS_h | 9 => CS_f | 10 => CS_b
  | 11 => M_start | 12 => M_end | 13 => M_eaten
  | 14 => CR_storage | 15 => CR_consumed | 16 => CR_h | 17 => CR_f | 18 => CR_b
  | 19 => SW_wet | 20 => SW_h | 21 => SW_f | 22 => SW_b | 23 => SW_area
  | 24 => Consumed | _ => Obj
  end%nat.

Definition decode (k : positive) : var :=
  let n := pred (Pos.to_nat k) in (slot_of_id (n mod 26), (n / 26)%nat).

(* ---------------- sparse accumulator: binary trie over positive keys ---------------- *)
(* an absent key holds 0; entries are kept reduced *)

Inductive trie := TLeaf | TNode (l : trie) (o : Q) (r : trie).

Definition tl (m : trie) : trie := match m with TLeaf => TLeaf | TNode l _ _ => l end.
Definition tv (m : trie) : Q := match m with TLeaf => 0 | TNode _ o _ => o end.
Definition tr (m : trie) : trie := match m with TLeaf => TLeaf | TNode _ _ r => r end.

(* entry k := entry k + q *)
Fixpoint tadd (k : positive) (q : Q) (m : trie) : trie :=
  match k with
  | xH => TNode (tl m) (Qred (tv m + q)) (tr m)
  | xO k' => TNode (tadd k' q (tl m)) (tv m) (tr m)
  | xI k' => TNode (tl m) (tv m) (tadd k' q (tr m))
  end.

Fixpoint tget (k : positive) (m : trie) : Q :=
  match k with
  | xH => tv m
  | xO k' => tget k' (tl m)
  | xI k' => tget k' (tr m)
  end.

Definition pos_part (q : Q) : Q := if Qle_bool 0 q then q else 0.

(* sum of the positive parts of all entries *)
Fixpoint tslack (m : trie) : Q :=
  match m with
  | TLeaf => 0
  | TNode l o r => Qred (tslack l + pos_part o + tslack r)
  end.

(* every entry <= 0 *)
Fixpoint tnonpos (m : trie) : bool :=
  match m with
  | TLeaf => true
  | TNode l o r => Qle_bool o 0 && tnonpos l && tnonpos r
  end.

(* ---------------- the certificate ---------------- *)

(* sign discipline, by clamping *)
Definition clamp (s : sense) (y : Q) : Q :=
  match s with
  | Le => if Qle_bool 0 y then y else 0
  | Ge => if Qle_bool y 0 then y else 0
  | Eq => y
  end.

(* d := d - y * (terms) *)
Fixpoint acc_terms (y : Q) (l : list (Q * var)) (d : trie) : trie :=
  match l with
  | [] => d
  | (c, v) :: l' => acc_terms y l' (tadd (encode v) (- (y * c)) d)
  end.

(* (by, d) := (by + y_r * rhs_r, d - y_r * lhs_r) over all rows; None on length mismatch *)
Fixpoint acc_rows (rows : list row) (ys : list Q) (yb : Q) (d : trie) : option (Q * trie) :=
  match rows, ys with
  | [], [] => Some (yb, d)
  | r :: rows', y :: ys' =>
      let y' := clamp (sns r) y in
      if Qeq_bool y' 0 then acc_rows rows' ys' yb d
      else acc_rows rows' ys' (Qred (yb + y' * rhs r)) (acc_terms y' (lhs r) d)
  | _, _ => None
  end.

(* reduced costs start from the objective  c = e_(Obj,0) *)
Definition d_init : trie := tadd (encode (Obj, 0%nat)) 1 TLeaf.

Definition cert_run (rows : list row) (y : list Q) : option (Q * trie) := acc_rows rows y 0 d_init.

(* b.y + ub * sum_j max(0, d_j) *)
Definition cert_bound (rows : list row) (y : list Q) (ub : Q) : option Q :=
  match cert_run rows y with
  | Some (yb, d) => Some (yb + ub * tslack d)
  | None => None
  end.

Definition check_cert (rows : list row) (y : list Q) (ub : Q) (claimed : Q) : bool :=
  match cert_bound rows y ub with
  | Some b => Qle_bool b claimed
  | None => false
  end.

(* exact dual feasibility: every reduced cost <= 0, no bound on the variables needed *)
Definition check_cert_nobound (rows : list row) (y : list Q) (claimed : Q) : bool :=
  match cert_run rows y with
  | Some (yb, d) => tnonpos d && Qle_bool yb claimed
  | None => false
  end.

(* diagnostics for the harness (not used by the theorems): b.y, slack sum, reduced cost of a variable *)
Definition cert_yb (rows : list row) (y : list Q) : option Q :=
  match cert_run rows y with Some (yb, _) => Some yb | None => None end.
Definition cert_slack (rows : list row) (y : list Q) : option Q :=
  match cert_run rows y with Some (_, d) => Some (tslack d) | None => None end.
Definition cert_redcost (rows : list row) (y : list Q) (v : var) : option Q :=
  match cert_run rows y with Some (_, d) => Some (tget (encode v) d) | None => None end.

(* variables that occur: the objective variable and every variable of a row *)
Definition var_eqb (v w : var) : bool :=
  Nat.eqb (slot_id (fst v)) (slot_id (fst w)) && Nat.eqb (snd v) (snd w).
Definition occurs (v : var) (rows : list row) : bool :=
  var_eqb v (Obj, 0%nat) || existsb (fun r => existsb (fun cv => var_eqb v (snd cv)) (lhs r)) rows.
