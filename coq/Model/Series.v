(* M3 - monthly supply series (C08, C09): executable transliterations of
   src/food_system/{outdoor_crops,greenhouses,seafood,stored_food,methane_scp,cellulosic_sugar,
   seaweed,meat_and_dairy,feed_and_biofuels}.py as the code is NOW (after fix: 92d5ee9, 28cb69e).
   Definitions only; lemmas are in Proofs/Series.v.  Numbers are exact rationals. *)
From Coq Require Import QArith List Bool Arith ZArith String.
From Allfed Require Import Base.QSeries.
Import ListNotations.
Open Scope Q_scope.

(* numpy.linspace(a, b, n) *)
Definition linspace (a b : Q) (n : nat) : list Q :=
  tab n (fun i => a + (b - a) * qnat i / qnat (n - 1)).

(* ------------------------------------------------------------------ outdoor crops *)

Record crop_in := {
  cN : nat;                 (* NMONTHS *)
  cstart : nat;             (* STARTING_MONTH_NUM (1 = January; the simulation uses 5) *)
  cbase : Q;                (* BASELINE_CROP_KCALS *)
  cseas : list Q;           (* SEASONALITY, January first *)
  cr1 : Q;                  (* RATIO_CROPS_YEAR1 *)
  crs : list Q;             (* RATIO_CROPS_YEAR2 .. YEAR10 *)
  chbm : option Q;          (* harvest-before-May override: ZAF -> 1, JPN/PRK/KOR -> 0, else None *)
  crot : bool;              (* OG_USE_BETTER_ROTATION *)
  cexp : Q;                 (* ROTATION_IMPROVEMENTS.POWER_LAW_IMPROVEMENT *)
  carea : Q;                (* RATIO_INCREASED_CROP_AREA *)
  chd : nat;                (* INITIAL_HARVEST_DURATION_IN_MONTHS *)
  cyears : nat;             (* NUMBER_YEARS_TAKES_TO_REACH_INCREASED_AREA *)
  crotdelay : nat;          (* DELAY.ROTATION_CHANGE_IN_MONTHS *)
  cwd : Q;                  (* WASTE_DISTRIBUTION.CROPS (percent) *)
  cwr : Q;                  (* WASTE_RETAIL (percent) *)
  cadd : bool               (* ADD_OUTDOOR_GROWING *)
}.

(* SEED_PERCENT = 100 * (92 / 3898);  ANNUAL_YIELD = BASELINE * (1 - SEED_PERCENT / 100) *)
Definition seed_percent : Q := 100 * (92 / 3898).
(* Qred q == q: it only keeps the representation of the rational small when the model is evaluated *)
Definition annual_yield (c : crop_in) : Q := Qred (cbase c * (1 - seed_percent / 100)).

(* X_KCALS_OG = X_FRACTION * ANNUAL_YIELD * 4e6 / 1e9, January first *)
Definition month_cycle_jan (c : crop_in) : list Q :=
  map (fun s => s * annual_yield c * 4000000 / 1000000000) (cseas c).

(* month_cycle_starting_january[month_index:] + month_cycle_starting_january[0:month_index] *)
Definition months_cycle (c : crop_in) : list Q := rotate (cstart c - 1) (month_cycle_jan c).

(* get_year_1_ratio_using_fraction_harvest_before_may *)
Definition year1_ratio (r1 : Q) (seas : list Q) (hbm_override : option Q) : Q :=
  let hbm := match hbm_override with Some v => v | None => qsum (firstn 4 seas) end in
  let after_nw := r1 - hbm in
  let after_nw := if Qlt_bool after_nw 0 then 0 else after_nw in
  if Qlt_bool 0 after_nw then
    let fa := 1 - hbm in
    if Qlt_bool fa (1 # 4) then 1 else after_nw / fa
  else 0.

(* the four countries whose harvest-before-May share is fixed in the code instead of read from the seasonality *)
Definition country_hbm (code : string) : option Q :=
  if String.eqb code "ZAF" then Some 1
  else if String.eqb code "JPN" then Some 0
  else if String.eqb code "PRK" then Some 0
  else if String.eqb code "KOR" then Some 0
  else None.

(* all_months_reductions: 8 months of year 1, 12 of years 2..9, 16 of year 10  (always 120 entries) *)
Definition year_blocks (y1 : Q) (rs : list Q) : list Q :=
  rep y1 8 ++ flat_map (fun r => rep r 12) (removelast rs) ++ rep (last rs 0) 16.

Definition reductions (c : crop_in) : list Q :=
  year_blocks (year1_ratio (cr1 c) (cseas c) (chbm c)) (crs c).

(* which entry of (year-1 ratio :: ratios of years 2..10) month m reads *)
Definition year_of (m : nat) : nat :=
  if (m <? 8)%nat then 0%nat else if (m <? 104)%nat then S ((m - 8) / 12) else 9%nat.

(* "if baseline_reduction <= 0: round(baseline_reduction, 8)"; negative values beyond rounding are
   rejected by the assert (see crops_ok) *)
Definition clamp0 (r : Q) : Q := if Qle_bool r 0 then 0 else r.

Definition eff_exp (c : crop_in) : Q := if crot c then cexp c else 1.

Section WithPower.
  (* baseline_reduction ** OG_KCAL_EXPONENT : not a rational function; see Proofs/Series.v for
     the order hypotheses the theorems use. *)
  Variable pw : Q -> Q -> Q.

  Definition relocated (e r : Q) : Q :=
    let r := clamp0 r in if Qlt_bool 1 r then r else pw r e.

  (* assign_reduction_from_climate_impact *)
  Definition grown_climate (c : crop_in) : list Q :=
    let cyc := months_cycle c in let reds := reductions c in let e := eff_exp c in
    tab (cN c) (fun i => nthq cyc (i mod 12) * relocated e (nthq reds i)).

  Definition norel_grown (c : crop_in) : list Q :=
    let cyc := months_cycle c in let reds := reductions c in
    tab (cN c) (fun i => nthq cyc (i mod 12) * clamp0 (nthq reds i)).

  (* assign_increase_from_increased_cultivated_area: the ramp "linspace" *)
  Definition area_ramp (c : crop_in) : list Q :=
    let total := (cyears c * 12)%nat in
    let increment := (carea c - 1) / (qnat total - qnat (chd c)) in
    tab (cN c) (fun i =>
      if (total <=? i)%nat then carea c
      else if (chd c <=? i)%nat then 1 + (qnat i - qnat (chd c)) * increment
      else 1).

  (* KCALS_GROWN after calculate_monthly_production *)
  Definition grown (c : crop_in) : list Q :=
    if Qlt_bool 1 (carea c) then map2 Qmult (grown_climate c) (area_ramp c) else grown_climate c.

  (* ---------------------------------------------------------------- greenhouses *)

  Record gh_in := {
    gadd : bool;            (* ADD_GREENHOUSES *)
    gdelay : nat;           (* DELAY.GREENHOUSE_MONTHS *)
    gmult : Q;              (* GREENHOUSE_AREA_MULTIPLIER *)
    ggain : Q;              (* GREENHOUSE_GAIN_PCT *)
    gglobal : Q;            (* INITIAL_GLOBAL_CROP_AREA *)
    gfrac : Q               (* INITIAL_CROP_AREA_FRACTION *)
  }.

  Definition total_crop_area (g : gh_in) : Q := gglobal g * gfrac g.
  Definition gh_mult (g : gh_in) : Q := if gadd g then gmult g else 0.

  (* get_greenhouse_area *)
  Definition greenhouse_area (n : nat) (g : gh_in) : list Q :=
    if Qeq_bool (total_crop_area g) 0 then rep 0 n
    else if gadd g then
      let limit := total_crop_area g * gmult g in
      firstn n (rep 0 (gdelay g) ++ rep 0 5 ++ linspace 0 limit 37 ++ rep limit (n - 42))
    else rep 0 n.

  Definition greenhouse_fraction (n : nat) (g : gh_in) : list Q :=
    if Qeq_bool (total_crop_area g) 0 then rep 0 n
    else map (fun a => a / total_crop_area g) (greenhouse_area n g).

  (* assign_productivity_reduction_from_climate_impact (GH_KCALS_GROWN_PER_HECTARE) *)
  Definition gh_kcals_per_ha_grown (c : crop_in) (g : gh_in) : list Q :=
    let monthly := Qred ((qsum (months_cycle c) / 12) / total_crop_area g) in
    let coef := Qred ((1 - cwd c / 100) * (1 - cwr c / 100)) in
    let reds := reductions c in let e := eff_exp c in
    tab (cN c) (fun i => coef * (monthly * relocated e (nthq reds i))).

  (* get_greenhouse_yield_per_ha (kcals; KCAL_RATIO_ROTATION = 1) and the product with the area
     that Parameters.init_greenhouse_params hands to the optimiser *)
  Definition greenhouse_kcals (c : crop_in) (g : gh_in) : list Q :=
    if Qeq_bool (gfrac g) 0 then rep 0 (cN c)
    else if gadd g then
      map2 Qmult (map (fun k => k * 1 * (1 + ggain g / 100)) (gh_kcals_per_ha_grown c g))
                 (greenhouse_area (cN c) g)
    else rep 0 (cN c).

  (* set_crop_production_minus_greenhouse_area: crops_produced, then production.kcals *)
  Definition crops_produced (c : crop_in) (frac : list Q) : list Q :=
    if cadd c then
      let nr := norel_grown c in
      if crot c then
        let hd := (chd c + crotdelay c)%nat in
        let gr := grown c in
        tab (cN c) (fun i => (if (i <? hd)%nat then nthq nr i else nthq gr i) * (1 - nthq frac i))
      else
        tab (cN c) (fun i => nthq nr i * (1 - nthq frac i))
    else rep 0 (cN c).

  Definition outdoor_production (c : crop_in) (g : gh_in) : list Q :=
    map (fun x => x * (1 - cwd c / 100)) (crops_produced c (greenhouse_fraction (cN c) g)).

  (* the conditions under which the implementation does not raise *)
  Definition seas_sum_ok (c : crop_in) : bool :=
    let s := qsum (cseas c) in
    (Qlt_bool s (1001 # 1000) && Qlt_bool (999 # 1000) s) || Qeq_bool s 0.

  Definition year1_ok (c : crop_in) : bool :=
    let hbm := match chbm c with Some v => v | None => qsum (firstn 4 (cseas c)) end in
    Qlt_bool (qmax (cr1 c) 0) 101 &&
    (if Qlt_bool 0 (cr1 c - hbm) then Qle_bool 0 (1 - hbm) && Qle_bool (1 - hbm) 1 else true).

  Definition reductions_ok (c : crop_in) : bool :=
    let cyc := months_cycle c in let reds := reductions c in let e := eff_exp c in
    forallb (fun i => let r := nthq reds i in
                      Qlt_bool (- (5 # 1000000000)) r &&
                      (* assert KCALS_GROWN[-1] >= month_kcals * baseline_reduction *)
                      Qle_bool (nthq cyc (i mod 12) * clamp0 r) (nthq cyc (i mod 12) * relocated e r))
            (seq 0 (cN c)).

  Definition area_ok (c : crop_in) : bool :=
    if Qlt_bool 1 (carea c) then
      negb (cyears c * 12 =? chd c)%nat && ((cyears c * 12 <=? cN c)%nat || (cyears c * 12 <=? chd c)%nat)
    else true.

  Definition crops_ok (c : crop_in) (g : gh_in) : bool :=
    (* calculate_monthly_production only runs when crops or greenhouses are switched on *)
    (if cadd c || gadd g then
       (List.length (cseas c) =? 12)%nat && (List.length (crs c) =? 9)%nat &&
       (1 <=? cstart c)%nat && (cstart c <=? 12)%nat && (cN c <=? 120)%nat &&
       seas_sum_ok c && year1_ok c && reductions_ok c && area_ok c
     else true) &&
    (if gadd g then (42 <=? cN c)%nat && Qle_bool 0 (total_crop_area g) else true).
End WithPower.

(* ------------------------------------------------------------------ fish (seafood.py) *)

Definition fish_monthly (annual wd wr : Q) : Q :=
  annual * ((1 - wd / 100) * (1 - wr / 100)) * 4000000 / 1000000000 / 12.

Definition fish_series (add : bool) (n : nat) (annual wd wr : Q) (pct : list Q) : list Q :=
  if add then map (fun x => x / 100 * fish_monthly annual wd wr) (firstn n pct)
  else map (fun _ => 0) (firstn n pct).

(* ------------------------------------------------------------------ feed / biofuel demand *)

(* kcals = per_year / 12 * 4e6 / 1e9; [x] * duration + [0] * (NMONTHS - duration) *)
Definition demand_monthly (per_year : Q) : Q := per_year / 12 * 4000000 / 1000000000.
Definition demand_series (n duration : nat) (per_year : Q) : list Q :=
  rep (demand_monthly per_year) duration ++ rep 0 (n - duration).

(* ------------------------------------------------------------------ grass (meat_and_dairy.py) *)

(* number of months of year i (1-based) of int(NMONTHS / 12) years; "i == n_years" compares with the
   float NMONTHS / 12 and is only ever true when NMONTHS is a multiple of 12 *)
Definition grass_block (n i : nat) : nat :=
  if (i =? 1)%nat then 8%nat
  else if ((n mod 12 =? 0) && (i =? n / 12))%nat%bool then 16%nat else 12%nat.

(* "million dry caloric tons" -> "billion kcals": x 1e6 t x 4e6 kcal/t / 1e9 *)
Definition grass_series (n : nat) (baseline_monthly : Q) (ratios : list Q) : list Q :=
  flat_map (fun i => rep (nthq ratios (i - 1) * baseline_monthly * 4000) (grass_block n i))
           (seq 1 (n / 12)).

Definition grass_year_of (n m : nat) : nat :=
  if (m <? 8)%nat then 0%nat else Nat.min ((m - 8) / 12 + 1) (n / 12 - 1).

(* ------------------------------------------------------------------ methane SCP, cellulosic sugar *)

Definition scp_pct_table : list Q :=
  rep 0 12 ++ rep 2 5 ++ [4] ++ rep 7 5 ++ [9] ++ rep 11 6 ++ [13] ++ rep 15 1000.

Definition industrial_scale (slope needs fraction wd : Q) (p : Q) : Q :=
  p / (1 - 12 / 100) * slope / 100 * needs * fraction * (1 - wd / 100).

(* the delay list is prepended TWICE: once inside global_values_percent_fed_just_scp and once more
   when METHANE_SCP_PERCENT_KCALS is built *)
Definition scp_series (add : bool) (n delay : nat) (slope needs fraction wd : Q) : list Q :=
  if add then
    firstn n (map (industrial_scale slope needs fraction wd)
                  (rep 0 delay ++ (rep 0 delay ++ scp_pct_table)))
  else rep 0 n.

(* what the property's reading ("shifted by the configured start-up delay") would be *)
Definition scp_series_spec (add : bool) (n delay : nat) (slope needs fraction wd : Q) : list Q :=
  if add then
    firstn n (map (industrial_scale slope needs fraction wd) (rep 0 delay ++ scp_pct_table))
  else rep 0 n.

Definition cs_pct_table : list Q := rep 0 5 ++ rep (47 # 10) 3 ++ rep (95 # 10) 1000.

Definition cs_series (add : bool) (n delay : nat) (slope needs fraction wd : Q) : list Q :=
  if add then
    firstn n (map (fun p => industrial_scale slope needs fraction wd (p * 1)) (rep 0 delay ++ cs_pct_table))
  else firstn n (rep 0 n).

(* GLOBAL_MONTHLY_NEEDS = GLOBAL_POP * kcals_monthly / 1e9 *)
Definition global_monthly_needs (global_pop kcals_monthly : Q) : Q :=
  global_pop * kcals_monthly / 1000000000.

(* ------------------------------------------------------------------ seaweed *)

Definition seaweed_new_area_global : Q := (20765 # 10000) * 30.
Definition seaweed_init_area (new_frac : Q) : Q := (1 # 10) * new_frac.
Definition seaweed_max_area (max_frac : Q) : Q := 1853 * max_frac.

Definition seaweed_built_area (add : bool) (n delay : nat) (new_frac max_frac : Q) : list Q :=
  let per_month := seaweed_new_area_global * new_frac in
  let init := seaweed_init_area new_frac in
  let mx := seaweed_max_area max_frac in
  let sd := rep init (if add then delay else 1000%nat) in
  let long := sd ++ linspace init (qnat (n - 1) * per_month + init) n in
  firstn n (map (fun x => if Qlt_bool mx x then mx else x) long).

(* 100 * ((daily / 100 + 1) ** 30), columns in increasing numeric order, cut to the horizon
   (sorted_monthly_percents[: NMONTHS], fix: 90c9bfa) *)
Definition growth_factor (d : Q) : Q := 100 * Qpower (d / 100 + 1) 30.
Definition seaweed_growth (n : nat) (daily : list Q) : list Q := firstn n (map growth_factor daily).

(* ------------------------------------------------------------------ stored food *)

(* end_of_month_stocks[starting_month_index - 1] with Python's negative-index wrap-around *)
Definition stock_before (stocks : list Q) (start : nat) : Q := nthq stocks ((start + 10) mod 12).

Definition stored_tons (stocks : list Q) (start : nat) (ratio_untouched pct : Q) : Q :=
  stock_before stocks start * (pct / 100) - list_min stocks * ratio_untouched.

Definition stored_initial (stocks : list Q) (start : nat) (ratio_untouched pct wd : Q) : Q :=
  stored_tons stocks start ratio_untouched pct * 4000000 / 1000000000 * (1 - wd / 100).

Definition stored_ok (stocks : list Q) (start : nat) (ratio_untouched pct : Q) : bool :=
  (1 <=? start)%nat && (start <=? 12)%nat && Qle_bool ratio_untouched (pct / 100) &&
  Qle_bool 0 (stored_tons stocks start ratio_untouched pct).

(* ------------------------------------------------------------------ fat and protein *)

(* OG_FRACTION_FAT / OG_FRACTION_PROTEIN: (BASELINE_CROP_x / 1e3) / (ANNUAL_YIELD * 4e6 / 1e9), zero when nothing is grown *)
Definition og_fraction (c : crop_in) (nutrient_base : Q) : Q :=
  Qred (if Qeq_bool (annual_yield c) 0 then 0
        else (nutrient_base / 1000) / (annual_yield c * 4000000 / 1000000000)).

(* production.fat / production.protein = OG_FRACTION_x * crops_produced * (1 - waste) *)
Definition outdoor_nutrient (pw : Q -> Q -> Q) (c : crop_in) (g : gh_in) (nutrient_base : Q) : list Q :=
  let fr := og_fraction c nutrient_base in
  map (fun x => fr * x * (1 - cwd c / 100)) (crops_produced pw c (greenhouse_fraction (cN c) g)).

(* FAT_RATIO_ROTATION / PROTEIN_RATIO_ROTATION: OG_FRACTION_x, times the rotation ratio when crops are relocated *)
Definition rotation_ratio (c : crop_in) (nutrient_base rot_ratio : Q) : Q :=
  Qred (if crot c then og_fraction c nutrient_base * rot_ratio else og_fraction c nutrient_base).

(* greenhouse fat / protein per hectare = ratio * kcals per hectare, then times the area *)
Definition greenhouse_nutrient (pw : Q -> Q -> Q) (c : crop_in) (g : gh_in) (nutrient_base rot_ratio : Q) : list Q :=
  if Qeq_bool (gfrac g) 0 then rep 0 (cN c)
  else if gadd g then
    let r := rotation_ratio c nutrient_base rot_ratio in
    map2 Qmult (map (fun k => r * (k * 1 * (1 + ggain g / 100))) (gh_kcals_per_ha_grown pw c g))
               (greenhouse_area (cN c) g)
  else rep 0 (cN c).

(* SCP: kcals * (1e9 / 5350 * fraction by mass / 1e6) *)
Definition scp_fat_conversion : Q := 1000000000 / 5350 * (9 # 100) / 1000000.
Definition scp_protein_conversion : Q := 1000000000 / 5350 * (650 # 1000) / 1000000.
Definition scp_nutrient (conv : Q) (kcals : list Q) : list Q := map (fun k => k * conv) kcals.

(* cellulosic sugar carries no fat or protein: np.zeros(len(kcals)) *)
Definition cs_nutrient (kcals : list Q) : list Q := map (fun _ => 0) kcals.

(* fish fat / protein: tons annual / 1e3 / 12 * waste coefficient, times the monthly percentage *)
Definition fish_nutrient_monthly (tons_annual wd wr : Q) : Q :=
  tons_annual / 1000 / 12 * ((1 - wd / 100) * (1 - wr / 100)).
Definition fish_nutrient_series (add : bool) (n : nat) (tons_annual wd wr : Q) (pct : list Q) : list Q :=
  if add then map (fun x => x / 100 * fish_nutrient_monthly tons_annual wd wr) (firstn n pct)
  else map (fun _ => 0) (firstn n pct).

(* feed / biofuel fat and protein demand: tons per year / 12 / 1e3 for `duration` months, then zero *)
Definition demand_nutrient_series (n duration : nat) (tons_per_year : Q) : list Q :=
  rep (tons_per_year / 12 / 1000) duration ++ rep 0 (n - duration).
