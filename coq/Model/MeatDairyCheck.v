(* C05: comparators used by generated case files (model vs observations of the implementation).
   Every checker returns a nat: 0 = agree, otherwise the kind of mismatch. *)
From Coq Require Import QArith List String Bool.
From Allfed Require Import Base.Dec Base.StrUtil Model.MeatDairy.
Import ListNotations.
Open Scope Q_scope.

Definition mk_animal (t s : string) (sl pop : list Q) : animal :=
  {| a_type := t; a_size := s; a_slaughter := sl; a_population := pop |}.

Definition yields_list (y : yields) : list Q := [KPC y; KPP y; KPS y; KPM y; KPL y].

(* absolute-or-relative closeness with a scale: |a-b| <= tol * max(1,|a|,scale) *)
Definition cl (tol scale : Q) := close_list tol scale.

Definition list_max_abs (l : list Q) : Q := fold_right (fun x acc => Qmax' (Qabs' x) acc) 0 l.

(* meat part of one round.
   observed: None when the implementation raised; otherwise
   (per-head yields, the five class series, monthly, running, summed) *)
Definition meat_obs := (list Q * list (list Q) * list Q * list Q * Q)%type.

Definition classes_list (c : classes) : list (list Q) :=
  [chickens c; pigs c; small_nc c; medium_np c; large c].

Fixpoint close_rel_lists (tol : Q) (a b : list (list Q)) : bool :=
  match a, b with
  | [], [] => true
  | x :: a', y :: b' => close_rel_list tol x y && close_rel_lists tol a' b'
  | _, _ => false
  end.

Definition check_meat (tol : Q) (kgc kgp : Q) (custom : option Q) (dist : Q) (herd : list animal)
           (o : option meat_obs) : nat :=
  match o with
  | None => if lengths_ok herd then 5%nat else 0%nat
  | Some (oy, ocls, omonthly, orunning, osummed) =>
      if negb (lengths_ok herd) then 5%nat
      else
        let y := init_animal_kcals kgc kgp custom in
        let r := meat_from_herd y dist herd in
        let scale := list_max_abs (mo_running r) in
        if negb (close_rel_list tol (yields_list y) oy) then 1%nat
        else if negb (close_rel_lists tol (classes_list (get_meat_produced herd)) ocls) then 7%nat
        else if negb (cl tol 0 (mo_monthly r) omonthly) then 2%nat
        else if negb (cl tol scale (mo_running r) orunning) then 3%nat
        else if negb (close tol scale (mo_summed r) osummed) then 4%nat
        else 0%nat
  end.

(* exact variant of the monthly comparison for all-dyadic cases is not possible (the per-head yields divide by
   1e9), so only the tolerance version exists; the class series (pure additions of dyadic heads) are exact: *)
Fixpoint qlist_eqb (a b : list Q) : bool :=
  match a, b with
  | [], [] => true
  | x :: a', y :: b' => Qeq_bool x y && qlist_eqb a' b'
  | _, _ => false
  end.
Fixpoint qlists_eqb (a b : list (list Q)) : bool :=
  match a, b with
  | [], [] => true
  | x :: a', y :: b' => qlist_eqb x y && qlists_eqb a' b'
  | _, _ => false
  end.
Definition check_classes_exact (herd : list animal) (ocls : list (list Q)) (odairy : list Q) : nat :=
  if negb (lengths_ok herd) then 5%nat
  else if negb (qlists_eqb (classes_list (get_meat_produced herd)) ocls) then 7%nat
  else if negb (qlist_eqb (dairy_population herd) odairy) then 8%nat
  else 0%nat.

Definition check_milk (tol : Q) (add_milk : bool) (yield dist retail : Q) (herd : list animal) (omilk : list Q) : nat :=
  if negb (cl tol 0 (milk_kcals add_milk yield dist retail herd) omilk) then 6%nat else 0%nat.

(* one whole round: meat then milk *)
Definition check_round (tol : Q) (kgc kgp : Q) (custom : option Q) (dist_meat : Q) (herd : list animal)
           (o : option meat_obs) (add_milk : bool) (yield dist_milk retail : Q) (omilk : list Q) : nat :=
  match check_meat tol kgc kgp custom dist_meat herd o with
  | O => match o with
         | None => 0%nat
         | Some _ => check_milk tol add_milk yield dist_milk retail herd omilk
         end
  | n => n
  end.

(* a human-maximising round of a REAL run: per-head yields and class series are not observable there *)
Definition check_round_run (tol : Q) (kgc kgp : Q) (custom : option Q) (dist_meat : Q) (herd : list animal)
           (omonthly orunning : list Q) (osummed : Q)
           (add_milk : bool) (yield dist_milk retail : Q) (omilk : list Q) : nat :=
  if negb (lengths_ok herd) then 5%nat
  else
    let y := init_animal_kcals kgc kgp custom in
    let r := meat_from_herd y dist_meat herd in
    let scale := list_max_abs (mo_running r) in
    if negb (cl tol 0 (mo_monthly r) omonthly) then 2%nat
    else if negb (cl tol scale (mo_running r) orunning) then 3%nat
    else if negb (close tol scale (mo_summed r) osummed) then 4%nat
    else check_milk tol add_milk yield dist_milk retail herd omilk.

(* round 2 (feed maximising): the monthly series was re-timed; total and summed must be the herd's, the running series
   must be the prefix sums of WHAT WAS OFFERED, and the last running value must equal the herd total *)
Definition check_round2 (tol : Q) (kgc kgp : Q) (custom : option Q) (dist_meat : Q) (herd : list animal)
           (omonthly orunning : list Q) (osummed : Q) : nat :=
  if negb (lengths_ok herd) then 5%nat
  else
    let y := init_animal_kcals kgc kgp custom in
    let r := meat_from_herd y dist_meat herd in
    let scale := Qabs' (mo_summed r) in
    if negb (close tol scale (mo_summed r) osummed) then 4%nat
    else if negb (close tol scale (qsum (mo_monthly r)) (qsum omonthly)) then 2%nat
    else if negb (cl tol scale (running omonthly) orunning) then 3%nat
    else if negb (close tol scale (last orunning 0) (mo_summed r)) then 9%nat
    else 0%nat.

(* AnimalPopulation.feed_animals on one month's supplies *)
Definition mk_eater (req : Q) (rum : bool) (eg ef : Q) : eater :=
  {| e_req := req; e_ruminant := rum; e_eg := eg; e_ef := ef |}.

Definition check_feed (tol : Q) (eaters : list eater) (grass feed : Q) (ograss ofeed : Q) : nat :=
  let '(g, f) := feed_animals eaters grass feed in
  let scale := Qmax' (Qabs' grass) (Qabs' feed) in
  if negb (close tol scale g ograss) then 10%nat
  else if negb (close tol scale f ofeed) then 11%nat
  else 0%nat.

(* increase_biofuels_then_feed, month by month: rows of (biofuel, feed, increase, max_biofuel, max_feed, total_crops)
   against observed (biofuel', feed') *)
Fixpoint check_bump (tol : Q) (rows : list (Q * Q * Q * Q * Q * Q)) (obs : list (Q * Q)) : nat :=
  match rows, obs with
  | [], [] => 0%nat
  | (b, f, i, mb, mf, tc) :: rows', (ob0, of0) :: obs' =>
      let '(b', f') := increase_month b f i mb mf tc in
      let scale := Qmax' (Qabs' b) (Qmax' (Qabs' f) (Qabs' tc)) in
      if negb (close tol scale b' ob0) then 12%nat
      else if negb (close tol scale f' of0) then 13%nat
      else check_bump tol rows' obs'
  | _, _ => 14%nat
  end.

(* the final round of a real run: which herd it used and what that herd was run on *)
Definition check_round3_source (any_res demand0 aborts : bool) (reused_round1 : bool) (n : nat)
           (feed2_billion : list Q) (tol : Q) (oavail : list Q) : nat :=
  let t := {| any_resource := any_res; demand_zero := demand0; round2_aborts := aborts |} in
  let reuse := match round3_source t with ReuseRound1 => true | NewRound3 => false end in
  if negb (Bool.eqb reuse reused_round1) then 15%nat
  else if negb (cl tol 0 (herd_feed_round3 t n feed2_billion) oavail) then 16%nat
  else 0%nat.

(* charge of the final round given the herd's eaten series and the bump inputs *)
Fixpoint check_charge (tol : Q) (r1run : bool) (eaten : list Q) (bs : list (Q * Q * Q * Q * Q)) (ocharge : list Q) : nat :=
  match eaten, bs, ocharge with
  | [], [], [] => 0%nat
  | e :: eaten', (bio, inc, mb, mf, tc) :: bs', oc :: ocharge' =>
      let c := charge_month r1run e {| b_biofuel := bio; b_increase := inc; b_max_biofuel := mb; b_max_feed := mf;
                                       b_total_crops := tc |} in
      if negb (close tol (Qmax' (Qabs' e) (Qabs' tc)) c oc) then 17%nat
      else check_charge tol r1run eaten' bs' ocharge'
  | _, _, _ => 18%nat
  end.
