(* comparison of the Food operations model with observations of the implementation
   (evaluated by vm_compute in generated case files; 0 = agree) *)
From Coq Require Import QArith ZArith List String Bool Arith.
From Allfed Require Import Base.Dec Base.StrUtil Gen.UnitTables Model.Units Model.FoodOps.
Import ListNotations.
Open Scope Q_scope.
Open Scope string_scope.

(* |a - b| <= tol * max(1, |a|, sc) ; sc = largest input magnitude of the step (absorbs cancellation) *)
Fixpoint close_l (tol sc : Q) (a b : list Q) : bool :=
  match a, b with
  | [], [] => true
  | x :: a', y :: b' => close tol sc x y && close_l tol sc a' b'
  | _, _ => false
  end.

Definition vals_close (tol sc : Q) (a b : vals) : bool :=
  match a, b with
  | Scalar k f p, Scalar k' f' p' => close tol sc k k' && close tol sc f f' && close tol sc p p'
  | Monthly k f p, Monthly k' f' p' => close_l tol sc k k' && close_l tol sc f f' && close_l tol sc p p'
  | _, _ => false
  end.

Definition same_kind (a b : vals) : bool := Bool.eqb (is_monthly a) (is_monthly b).

(* observation of a Food object: values, three labels, the units list *)
Definition obs := (vals * (string * string * string) * list string)%type.

Definition food_of_obs (o : obs) : food :=
  let '(v, (k, f, p), us) := o in {| fv := v; ku := k; fu := f; pu := p; units := us |}.

(* what the implementation did: returned a Food, raised (classified), or raised something unclassified *)
Inductive expected := EOk (o : obs) | EErr (r : rej) | EOther.

Definition rej_eqb (a b : rej) : bool :=
  match a, b with
  | AssertRejected, AssertRejected | TypeRejected, TypeRejected
  | ValueRejected, ValueRejected | ExitRejected, ExitRejected => true
  | _, _ => false
  end.

(* codes: 1 values, 2 labels, 3 units list, 4 model accepts / impl rejects, 5 model rejects / impl accepts,
   7 scalar-vs-series shape, 8 rejection kind differs, 9 unclassified exception, 50 input outside the model *)
Definition food_matches (tol sc : Q) (m : food) (o : obs) : nat :=
  let '(v, (k, f, p), us) := o in
  if negb (same_kind (fv m) v) then 7%nat
  else if negb (vals_close tol sc (fv m) v) then 1%nat
  else if negb (String.eqb (ku m) k && String.eqb (fu m) f && String.eqb (pu m) p) then 2%nat
  else if negb (strs_eq (units m) us) then 3%nat
  else 0%nat.

Definition cmp_result (tol sc : Q) (r : result food) (e : expected) : nat :=
  match r, e with
  | Ok y, EOk ob => food_matches tol sc y ob
  | Rejected a, EErr b => if rej_eqb a b then 0%nat else 8%nat
  | Ok _, _ => 4%nat
  | Rejected _, EOk _ => 5%nat
  | Rejected _, EOther => 9%nat
  end.

Definition check_ctor (tol sc : Q) (k f p : num) (lk lf lp : string) (e : expected) : nat :=
  if negb (ctor_modelled k f p) then 50%nat else cmp_result tol sc (ctor k f p lk lf lp) e.

Definition check_step (tol sc : Q) (c : conv) (x : food) (o : op) (e : expected) : nat :=
  if negb (op_modelled x o) then 50%nat else cmp_result tol sc (run_op c x o) e.

(* transition-wise check of a sequence: every step starts from the OBSERVED previous state.
   result: 0, or 100*step + code of the first step that does not agree / is outside the model *)
Fixpoint check_seq (tol : Q) (c : conv) (i : nat) (x : food) (steps : list (op * expected * Q)) : nat :=
  match steps with
  | [] => 0%nat
  | (o, e, sc) :: steps' =>
      match check_step tol sc c x o e with
      | O => match e with
             | EOk ob => check_seq tol c (S i) (food_of_obs ob) steps'
             | _ => 0%nat
             end
      | n => (100 * i + n)%nat
      end
  end.

(* predicates: observed Some b / classified exception *)
Inductive pexpected := PVal (b : bool) | PErr (r : rej) | POther.

Definition check_pred (incf incp : bool) (pr : pred) (x y : food) (e : pexpected) : nat :=
  if negb (pred_modelled pr x y) then 50%nat
  else match eval_pred incf incp pr x y, e with
       | Ok b, PVal b' => if Bool.eqb b b' then 0%nat else 1%nat
       | Rejected a, PErr b => if rej_eqb a b then 0%nat else 8%nat
       | Ok _, _ => 4%nat
       | Rejected _, PVal _ => 5%nat
       | Rejected _, POther => 9%nat
       end.

(* label getters *)
Inductive getter := GL2T | GL2E | GE2L | GUnits | GIsRatio | GIsPercent.
Inductive gexpected := GStrs (l : list string) | GBool (b : bool) | GErr (r : rej) | GOther.

Definition check_getter (g : getter) (x : food) (e : gexpected) : nat :=
  let strs (r : result (list string)) :=
    match r, e with
    | Ok l, GStrs l' => if strs_eq l l' then 0%nat else 2%nat
    | Rejected a, GErr b => if rej_eqb a b then 0%nat else 8%nat
    | Ok _, _ => 4%nat
    | Rejected _, _ => 5%nat
    end in
  let bl (b : bool) := match e with GBool b' => if Bool.eqb b b' then 0%nat else 1%nat | _ => 4%nat end in
  match g with
  | GL2T => strs (get_l2t x)
  | GL2E => strs (get_l2e x)
  | GE2L => strs (get_e2l x)
  | GUnits => strs (Ok (get_units x))
  | GIsRatio => bl (is_a_ratio x)
  | GIsPercent => bl (is_units_percent x)
  end.

(* is the (observed) food well formed?  1 = yes *)
Definition obs_wf (o : obs) : nat := if wf_bool (food_of_obs o) then 1%nat else 0%nat.

(* all six getters on one state; result 10*(index+1) + code of the first that differs *)
Fixpoint check_getters_from (i : nat) (x : food) (l : list (getter * gexpected)) : nat :=
  match l with
  | [] => 0%nat
  | (g, e) :: l' => match check_getter g x e with
                    | O => check_getters_from (S i) x l'
                    | n => (10 * (S i) + n)%nat
                    end
  end.
Definition check_getters (x : food) (l : list (getter * gexpected)) : nat := check_getters_from 0 x l.
