(* comparison of Model/Helpers.v with observations of the implementation (evaluated in generated case files).
   Every check returns a nat: 0 = agree, otherwise the kind of mismatch. *)
From Coq Require Import QArith List String Bool.
From Allfed Require Import Base.Dec Base.QList Model.Helpers.
From Allfed Require Model.MeatDairy.
Import ListNotations.
Open Scope Q_scope.

(* what the implementation did: raised / returned None / returned a value *)
Inductive observed (A : Type) : Type := ORaised | ONone | OVal (a : A).
Arguments ORaised {A}.
Arguments ONone {A}.
Arguments OVal {A} a.

Definition maxabs (l : list Q) : Q := fold_left (fun acc x => Qmax' acc (Qabs' x)) l 0.

(* fill_negatives_with_positives: 1 = values differ *)
Definition check_fill (tol scale : Q) (arr obs : list Q) : nat :=
  if close_list tol scale (fill arr) obs then 0%nat else 1%nat.

(* get_second_round_kcals_with_redistributed_meat *)
Definition check_redist (tol scale : Q) (r1 r2 : list Q) (obs : observed (list Q)) : nat :=
  match redistribute r1 r2, obs with
  | Ok l, OVal o => if close_list tol scale l o then 0%nat else 1%nat
  | Skip, ONone => 0%nat
  | Rejected, ORaised => 0%nat
  | Ok _, ONone => 2%nat
  | Skip, OVal _ => 3%nat
  | Rejected, _ => 4%nat
  | _, ORaised => 5%nat
  end.

(* increase_biofuels_then_feed: 1 = biofuel differs, 2 = feed differs *)
Definition check_bump (tol scale : Q) (b f inc maxb maxf avail ob of_ : list Q) : nat :=
  let '(mb, mf) := bump b f inc maxb maxf avail in
  if negb (close_list tol scale mb ob) then 1%nat
  else if negb (close_list tol scale mf of_) then 2%nat else 0%nat.

Fixpoint dict_close (tol scale : Q) (a b : list (string * list Q)) : nat :=
  match a, b with
  | [], [] => 0%nat
  | (k, v) :: a', (k', v') :: b' =>
      if negb (String.eqb k k') then 2%nat
      else if negb (close_list tol scale v v') then 1%nat
      else dict_close tol scale a' b'
  | _, _ => 3%nat
  end.

(* calculate_human_consumption_for_min_needs: 1 values, 2 keys/order, 3 number of keys,
   4 model accepts / implementation raised, 5 model rejects / implementation returned *)
Definition check_min_needs (tol scale : Q) (tracked : bool) (K T pf Kconv : Q) (N : nat) (r : r1_eaten)
           (obs : observed (list (string * list Q))) : nat :=
  match min_needs_gen tracked K T pf Kconv N r, obs with
  | Ok d, OVal o => dict_close tol scale d o
  | Rejected, ORaised => 0%nat
  | Ok _, _ => 4%nat
  | _, _ => 5%nat
  end.

Fixpoint strs_eqb (a b : list string) : bool :=
  match a, b with
  | [], [] => true
  | x :: a', y :: b' => String.eqb x y && strs_eqb a' b'
  | _, _ => false
  end.

Fixpoint table_eqb (a b : list (string * list string)) : bool :=
  match a, b with
  | [], [] => true
  | (k, v) :: a', (k', v') :: b' => String.eqb k k' && strs_eqb v v' && table_eqb a' b'
  | _, _ => false
  end.

Fixpoint vtable_eqb (a b : list (string * string)) : bool :=
  match a, b with
  | [], [] => true
  | (k, v) :: a', (k', v') :: b' => String.eqb k k' && String.eqb v v' && vtable_eqb a' b'
  | _, _ => false
  end.

(* the priority table extracted from the source by the harness (AST) against the model's:
   1 = consume order differs, 2 = validator table differs *)
Definition check_order (src_order : list (string * list string)) (src_validator : list (string * string)) : nat :=
  if negb (table_eqb order_table src_order) then 1%nat
  else if negb (vtable_eqb validator_table src_validator) then 2%nat else 0%nat.

Definition mk_r1 (fish meat milk gh imm ns sf scp cs sw : list Q) : r1_eaten :=
  {| e_fish := fish; e_meat := meat; e_milk := milk; e_greenhouse := gh; e_immediate_oc := imm;
     e_new_stored_oc := ns; e_stored_food := sf; e_scp := scp; e_cell_sugar := cs; e_seaweed := sw |}.

(* the `increase` argument of a real call of increase_biofuels_then_feed against the model of the round-3 top-up
   (Model/MeatDairy.increase_of, the function the composition theorems of Proofs/RoundsComp.v use):
   inc[m] = max0((meat3[m] - meat1[m]) / 2 * k - const) / k,  k = 1e9 / days_in_month / population
   (billion kcals per month -> kcals per person per day), const = 20 (100 for NZL).
   |model - observed| <= tol * |model| + atol.   1 = values differ, 3 = lengths differ *)
Fixpoint close_abs_list (tol atol : Q) (a b : list Q) : bool :=
  match a, b with
  | [], [] => true
  | x :: a', y :: b' => Qle_bool (Qabs' (x - y)) (tol * Qabs' x + atol) && close_abs_list tol atol a' b'
  | _, _ => false
  end.

Definition check_increase (tol atol population days const : Q) (meat1 meat3 inc : list Q) : nat :=
  let k := 1000000000 / days / population in
  if negb (Nat.eqb (List.length meat3) (List.length inc) && Nat.eqb (List.length meat1) (List.length inc)) then 3%nat
  else
    let model := tab (List.length inc)
                     (fun m => Qred (MeatDairy.increase_of k const (nth m meat3 0) (nth m meat1 0))) in
    if close_abs_list tol atol model inc then 0%nat else 1%nat.
