(* comparison of Model/Report.v with observations of Extractor.extract_results +
   Interpreter.interpret_results (evaluated inside generated case files) *)
From Coq Require Import QArith Qround List String Bool Arith ZArith.
From Allfed Require Import Base.Dec Base.StrUtil Gen.UnitTables Model.Units Model.LP Model.Report.
Import ListNotations.
Open Scope Q_scope.

Record observed := {
  ob_e : list (list Q);    (* Extractor, billion people fed: sf cr sw cs scp gh fish meat milk imm ns *)
  ob_p : list (list Q);    (* Interpreter, percent, unrounded: sw cs scp gh fish meat milk *)
  ob_sum : list Q;         (* to_humans_fed_sum.kcals *)
  ob_head : Q;             (* percent_people_fed *)
  ob_q : list (list Q);    (* rounded: stored_food outdoor_crops immediate new_stored seaweed_rounded *)
  ob_k : list (list Q)     (* kcals equivalent, CSV column order *)
}.

Definition maxabs (l : list Q) : Q := fold_left (fun acc x => Qmax' acc (Qabs' x)) l 0.
Definition maxabs2 (ls : list (list Q)) : Q := fold_left (fun acc l => Qmax' acc (maxabs l)) ls 0.

(* |a - b| <= tol * max(|a|, scale) *)
Definition close_s (tol scale a b : Q) : bool := Qle_bool (Qabs' (a - b)) (tol * Qmax' (Qabs' a) scale).
Fixpoint close_s_list (tol scale : Q) (a b : list Q) : bool :=
  match a, b with
  | [], [] => true
  | x :: a', y :: b' => close_s tol scale x y && close_s_list tol scale a' b'
  | _, _ => false
  end.

(* index (from 1) of the first pair of series that disagrees; 0 = all agree.
   rel = true: purely multiplicative series, relative comparison; false: scale-relative *)
Fixpoint first_bad (tol scale : Q) (k : nat) (ms : list (bool * list Q)) (os : list (list Q)) : nat :=
  match ms, os with
  | [], [] => 0%nat
  | (rel, m) :: ms', o :: os' =>
      if (if rel then close_rel_list tol m o else close_s_list tol scale m o)
      then first_bad tol scale (S k) ms' os' else k
  | _, _ => 99%nat
  end.

Definition near_tie (d : nat) (x : Q) : bool :=
  let y := x * pow10 d in
  Qle_bool (Qabs' (y - inject_Z (Qfloor y) - (1 # 2))) (1 # 1000000).
Definition round_match (d : nat) (x o : Q) : bool :=
  Qle_bool (Qabs' (round_dec d x - o)) (1 # 1000000000) ||
  (near_tie d x && Qle_bool (Qabs' (x - o)) (((1 # 2) + (1 # 1000000)) / pow10 d)).
Fixpoint round_match_list (d : nat) (xs os : list Q) : bool :=
  match xs, os with
  | [], [] => true
  | x :: xs', o :: os' => round_match d x o && round_match_list d xs' os'
  | _, _ => false
  end.
Fixpoint first_bad_round (k : nat) (ms : list (nat * list Q)) (os : list (list Q)) : nat :=
  match ms, os with
  | [], [] => 0%nat
  | (d, m) :: ms', o :: os' => if round_match_list d m o then first_bad_round (S k) ms' os' else k
  | _, _ => 99%nat
  end.

Definition rej_code (r : rej) : nat :=
  match r with AssertRejected => 1 | TypeRejected => 2 | ValueRejected => 3 | ExitRejected => 4 end%nat.

(* 0 = agree.  100+k: extractor series k; 200+k: percent series k; 300: sum; 400: headline;
   500+k: rounded series k; 600+k: kcals-equivalent column k; 700: model rejects, implementation accepts;
   800: model accepts, implementation rejects; 900+c: both reject, model's class c differs *)
Definition check_report (tol : Q) (x : rep_in) (o : option observed) (err : nat) : nat :=
  match report x, o with
  | Rejected r, None => if Nat.eqb (rej_code r) err then 0%nat else (900 + rej_code r)%nat
  | Rejected _, Some _ => 700%nat
  | Ok _, None => 800%nat
  | Ok (e, i), Some ob =>
      let km := r_km x in
      let es := [e_sf e; e_cr e; e_sw e; e_cs e; e_scp e; e_gh e; e_fish e; e_meat e; e_milk e] in
      let s_e := Qmax' (maxabs2 (es ++ [e_imm e; e_ns e])) (maxabs (r_crops_prod x) / km) in
      let b1 := first_bad tol s_e 1 (map (fun l => (true, l)) es ++ [(false, e_imm e); (false, e_ns e)]) (ob_e ob) in
      if negb (Nat.eqb b1 0) then (100 + b1)%nat else
      let s_p := s_e * m_bf_pct (r_conv x) in
      let b2 := first_bad tol s_p 1
                  (map (fun l => (true, l)) [p_sw i; p_cs i; p_scp i; p_gh i; p_fish i; p_meat i; p_milk i]) (ob_p ob) in
      if negb (Nat.eqb b2 0) then (200 + b2)%nat else
      let s_s := Qmax' s_p (maxabs (p_sum i)) in
      if negb (close_s_list tol s_s (p_sum i) (ob_sum ob)) then 300%nat else
      if negb (close_s tol s_s (headline i) (ob_head ob)) then 400%nat else
      let b5 := first_bad_round 1 [(3, p_sf i); (3, p_cr i); (1, p_imm i); (3, p_ns i); (3, p_sw i)]%nat (ob_q ob) in
      if negb (Nat.eqb b5 0) then (500 + b5)%nat else
      let s_k := s_e * m_bf_ke (r_conv x) in
      let b6 := first_bad tol s_k 1
                  ([(true, k_fish i); (true, k_cs i); (true, k_scp i); (true, k_gh i); (true, k_sw i);
                    (true, k_milk i); (true, k_meat i); (false, k_imm i); (false, k_ns i); (true, k_sf i)]) (ob_k ob) in
      if negb (Nat.eqb b6 0) then (600 + b6)%nat else 0%nat
  end.

Definition mk_in (n : nat) (km : Q) (c : conv) (swk : Q) (vs : list varlist) (ts : list (list Q)) : rep_in :=
  let v k := nth k vs (NotModelled n) in let s k := nth k ts [] in
  {| r_n := n; r_km := km; r_conv := c; r_sw_kcals := swk;
     v_sf_h := v 0%nat; v_sw_h := v 1%nat; v_scp_h := v 2%nat; v_cs_h := v 3%nat; v_meat := v 4%nat;
     v_cr_h := v 5%nat; v_cr_f := v 6%nat; v_cr_b := v 7%nat;
     r_fish := s 0%nat; r_greenhouse := s 1%nat; r_milk := s 2%nat; r_crops_prod := s 3%nat |}.

Definition mk_obs (e p : list (list Q)) (s : list Q) (h : Q) (q k : list (list Q)) : observed :=
  {| ob_e := e; ob_p := p; ob_sum := s; ob_head := h; ob_q := q; ob_k := k |}.

(* ------------------------------------------------------------------ feed / biofuel sums (hand-off series) *)
Definition mk_fb (n : nat) (km : Q) (c : conv) (swk : Q) (vs : list varlist) : fb_in :=
  let v k := nth k vs (NotModelled n) in
  {| f_n := n; f_km := km; f_conv := c; f_sw_kcals := swk;
     vf_sf := v 0%nat; vf_cr := v 1%nat; vf_sw := v 2%nat; vf_cs := v 3%nat; vf_scp := v 4%nat;
     vb_sf := v 5%nat; vb_cr := v 6%nat; vb_sw := v 7%nat; vb_cs := v 8%nat; vb_scp := v 9%nat |}.

(* per: the ten per-food kcals-equivalent series (feed: cs scp seaweed crops stored; then biofuel in the same order);
   fs / bs: feed_sum_kcals_equivalent / biofuels_sum_kcals_equivalent; fback / bback: the same converted back to
   billion kcals each month.  0 = agree; 100+k per-food series k; 200 / 300 the sums; 400 / 500 converted back *)
Definition check_fb (tol : Q) (x : fb_in) (per : list (list Q)) (fs bs fback bback : list Q) : nat :=
  let c := f_conv x in
  let ms := [use_ke x (vf_cs x) 1; use_ke x (vf_scp x) 1; use_ke x (vf_sw x) (f_sw_kcals x); use_ke x (vf_cr x) 1;
             use_ke x (vf_sf x) 1; use_ke x (vb_cs x) 1; use_ke x (vb_scp x) 1; use_ke x (vb_sw x) (f_sw_kcals x);
             use_ke x (vb_cr x) 1; use_ke x (vb_sf x) 1] in
  let b1 := first_bad tol 0 1 (map (fun l => (true, l)) ms) per in
  if negb (Nat.eqb b1 0) then (100 + b1)%nat else
  let s := maxabs2 ms in
  if negb (close_s_list tol s (feed_sum_ke x) fs) then 200%nat else
  if negb (close_s_list tol s (biofuels_sum_ke x) bs) then 300%nat else
  let sb := s * m_ke_bk c in
  if negb (close_s_list tol sb (back_to_bk c (feed_sum_ke x)) fback) then 400%nat else
  if negb (close_s_list tol sb (back_to_bk c (biofuels_sum_ke x)) bback) then 500%nat else 0%nat.
