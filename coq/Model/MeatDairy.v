(* C05 - meat and milk offered to the optimiser, and the feed charged in the final round.
   Executable definitions only (no proofs).  Line-by-line transliteration over Q of

     src/food_system/meat_and_dairy.py   MeatAndDairy.__init__ (the per-kg / per-head constants),
                                         initialize_this_country_animal_kcals,
                                         calculate_meat_after_distribution_waste,
                                         get_max_slaughter_monthly_after_distribution_waste,
                                         get_milk_produced_postwaste
     src/food_system/animal_populations.py  CalculateFeedAndMeat.get_meat_produced,
                                         get_total_milk_bearing_animals,
                                         AnimalSpecies.feed_the_species (supply side only),
                                         AnimalPopulation.feed_animals, the feed_used / grass_used lines of main
     src/food_system/food.py             Food.get_running_total_nutrients_sum (kcals)
     src/optimizer/parameters.py         calculate_meat_from_feed_results,
                                         calculate_non_meat_and_dairy_from_feed_results,
                                         increase_biofuels_then_feed, compute_parameters_third_round (feed part)
     src/scenarios/run_scenario.py       run_round_2 (the -20 clip), run_and_analyze_scenario (round decision tree)

   Python floats are read as exact rationals.
   [Qred] (reduction to lowest terms, Qred q == q) is inserted after additions: it is the identity on the rational
   VALUE and only keeps numerators/denominators small when case files are evaluated with vm_compute. *)
From Coq Require Import QArith List String Bool.
From Allfed Require Import Base.StrUtil.
Import ListNotations.
Open Scope Q_scope.

(* ------------------------------------------------------------------ constants (MeatAndDairy.__init__) *)
Definition KG_PER_SMALL_ANIMAL : Q := 236 # 100.           (* 2.36 *)
Definition KG_PER_MEDIUM_ANIMAL : Q := 246 # 10.           (* 24.6 *)
Definition KG_PER_LARGE_ANIMAL_DEFAULT : Q := 2697 # 10.   (* 269.7 *)
Definition LARGE_ANIMAL_KCALS_PER_KG : Q := 2750.
Definition SMALL_ANIMAL_KCALS_PER_KG : Q := 1525.
Definition MEDIUM_ANIMAL_KCALS_PER_KG : Q := 3590.
Definition MILK_KCALS : Q := 610.
Definition E9 : Q := 1000000000.

(* kg_meat_per_large_animal overrides 269.7 when the key is present *)
Definition kg_per_large (custom : option Q) : Q :=
  match custom with Some k => k | None => KG_PER_LARGE_ANIMAL_DEFAULT end.

(* ------------------------------------------------------------------ initialize_this_country_animal_kcals
   billion kcals per head *)
Record yields := { KPC : Q; KPP : Q; KPS : Q; KPM : Q; KPL : Q }.

Definition init_animal_kcals (kg_meat_per_chicken kg_meat_per_pig : Q) (custom_large : option Q) : yields :=
  {| KPC := kg_meat_per_chicken * SMALL_ANIMAL_KCALS_PER_KG / E9;
     KPP := MEDIUM_ANIMAL_KCALS_PER_KG * kg_meat_per_pig / E9;
     KPS := SMALL_ANIMAL_KCALS_PER_KG * KG_PER_SMALL_ANIMAL / E9;
     KPM := MEDIUM_ANIMAL_KCALS_PER_KG * KG_PER_MEDIUM_ANIMAL / E9;
     KPL := LARGE_ANIMAL_KCALS_PER_KG * kg_per_large custom_large / E9 |}.

(* ------------------------------------------------------------------ the herd lists the formulas read *)
Record animal := { a_type : string; a_size : string; a_slaughter : list Q; a_population : list Q }.

Definition no_animal : animal := {| a_type := ""; a_size := ""; a_slaughter := []; a_population := [] |}.

Record classes := { chickens : list Q; pigs : list Q; small_nc : list Q; medium_np : list Q; large : list Q }.

Definition zeros (n : nat) : list Q := repeat 0 n.

(* numpy  a += b  on equal-length arrays (see lengths_ok) *)
Definition vadd (a b : list Q) : list Q := map (fun p => Qred (fst p + snd p)) (combine a b).

(* one iteration of the loop of get_meat_produced: chicken and pig ASSIGN, the three size classes ADD;
   an animal that matches no branch (unknown size) is ignored *)
Definition class_step (c : classes) (a : animal) : classes :=
  if String.eqb (a_type a) "chicken" then
    {| chickens := a_slaughter a; pigs := pigs c; small_nc := small_nc c; medium_np := medium_np c; large := large c |}
  else if String.eqb (a_type a) "pig" then
    {| chickens := chickens c; pigs := a_slaughter a; small_nc := small_nc c; medium_np := medium_np c; large := large c |}
  else if String.eqb (a_size a) "small" && negb (String.eqb (a_type a) "chicken") then
    {| chickens := chickens c; pigs := pigs c; small_nc := vadd (small_nc c) (a_slaughter a);
       medium_np := medium_np c; large := large c |}
  else if String.eqb (a_size a) "medium" && negb (String.eqb (a_type a) "pig") then
    {| chickens := chickens c; pigs := pigs c; small_nc := small_nc c;
       medium_np := vadd (medium_np c) (a_slaughter a); large := large c |}
  else if String.eqb (a_size a) "large" then
    {| chickens := chickens c; pigs := pigs c; small_nc := small_nc c; medium_np := medium_np c;
       large := vadd (large c) (a_slaughter a) |}
  else c.

Definition get_meat_produced (herd : list animal) : classes :=
  let n := List.length (a_slaughter (hd no_animal herd)) in
  fold_left class_step herd
    {| chickens := zeros n; pigs := zeros n; small_nc := zeros n; medium_np := zeros n; large := zeros n |}.

(* the real code raises (IndexError / numpy broadcast ValueError) unless the herd is non-empty and all
   monthly lists have one common length *)
Definition lengths_ok (herd : list animal) : bool :=
  match herd with
  | [] => false
  | a0 :: _ =>
      let n := List.length (a_slaughter a0) in
      forallb (fun a => Nat.eqb (List.length (a_slaughter a)) n && Nat.eqb (List.length (a_population a)) n) herd
  end.

(* ------------------------------------------------------------------ calculate_meat_after_distribution_waste (kcals) *)
Definition meat_after_distribution_waste (y : yields) (dist_waste : Q) (c p s m l : Q) : Q :=
  Qred ((c * KPC y + p * KPP y + s * KPS y + m * KPM y + l * KPL y) * (1 - dist_waste / 100)).

(* get_max_slaughter_monthly_after_distribution_waste:  for m in range(len(small_animals_nonchicken_culled)) *)
Definition each_month_meat (y : yields) (dist_waste : Q) (c : classes) : list Q :=
  map (fun i => meat_after_distribution_waste y dist_waste
                  (nth i (chickens c) 0) (nth i (pigs c) 0) (nth i (small_nc c) 0)
                  (nth i (medium_np c) 0) (nth i (large c) 0))
      (seq 0 (List.length (small_nc c))).

(* Food.get_running_total_nutrients_sum *)
Fixpoint running_from (acc : Q) (l : list Q) : list Q :=
  match l with
  | [] => []
  | x :: t => Qred (acc + x) :: running_from (Qred (acc + x)) t
  end.
Definition running (l : list Q) : list Q := running_from 0 l.

(* np.sum *)
Definition qsum (l : list Q) : Q := fold_right (fun x acc => Qred (x + acc)) 0 l.

(* constants_out["meat_summed_consumption"]: the same formula applied to the five np.sum's *)
Definition meat_summed (y : yields) (dist_waste : Q) (c : classes) : Q :=
  meat_after_distribution_waste y dist_waste
    (qsum (chickens c)) (qsum (pigs c)) (qsum (small_nc c)) (qsum (medium_np c)) (qsum (large c)).

(* what calculate_meat_from_feed_results writes *)
Record meat_out := { mo_monthly : list Q; mo_running : list Q; mo_summed : Q }.
Definition meat_from_herd (y : yields) (dist_waste : Q) (herd : list animal) : meat_out :=
  let c := get_meat_produced herd in
  let monthly := each_month_meat y dist_waste c in
  {| mo_monthly := monthly; mo_running := running monthly; mo_summed := meat_summed y dist_waste c |}.

(* ------------------------------------------------------------------ milk *)
(* get_total_milk_bearing_animals:  "milk" in animal.animal_type *)
Definition milk_bearing (a : animal) : bool := contains "milk" (a_type a).

Definition dairy_step (acc : list Q) (a : animal) : list Q :=
  if milk_bearing a then vadd acc (a_population a) else acc.

Definition dairy_population (herd : list animal) : list Q :=
  fold_left dairy_step herd (zeros (List.length (a_population (hd no_animal herd)))).

(* calculate_non_meat_and_dairy_from_feed_results: tons of milk a month *)
Definition monthly_milk_tons (yield_kg_per_year : Q) (pop : Q) : Q := pop * yield_kg_per_year / 12 / 1000.

(* get_milk_produced_postwaste (kcals): billion kcals *)
Definition milk_postwaste (dist_waste retail_waste : Q) (tons : Q) : Q :=
  Qred (tons * 1000 * MILK_KCALS / E9 * (1 - dist_waste / 100) * (1 - retail_waste / 100)).

Definition milk_kcals (add_milk : bool) (yield_kg_per_year dist_waste retail_waste : Q) (herd : list animal) : list Q :=
  map (fun p => if add_milk then milk_postwaste dist_waste retail_waste (monthly_milk_tons yield_kg_per_year p) else 0)
      (dairy_population herd).

(* ------------------------------------------------------------------ feed and grass eaten by the herds in one month
   supply side of AnimalSpecies.feed_the_species; req = NE_balance.kcals after reset_NE_balance.
   returns (grass left, feed left) *)
Definition feed_species (eg ef : Q) (req : Q) (is_ruminant : bool) (grass feed : Q) : Q * Q :=
  if Qeq_bool req 0 then (grass, feed)
  else
    let ne_grass := if is_ruminant then grass * eg else 0 in
    let ne_feed := feed * ef in
    if Qle_bool req ne_grass then (grass - req / eg, feed)
    else
      let pos := negb (Qle_bool ne_grass 0) in          (* NE_from_grass > 0 *)
      let req' := if pos then req - ne_grass else req in
      let grass' := if pos then 0 else grass in
      if Qle_bool req' ne_feed then (grass', feed - req' / ef)
      else (grass', 0).

Record eater := { e_req : Q; e_ruminant : bool; e_eg : Q; e_ef : Q }.

(* AnimalPopulation.feed_animals: in priority order *)
Definition feed_animals (eaters : list eater) (grass feed : Q) : Q * Q :=
  fold_left (fun gf e => feed_species (e_eg e) (e_ef e) (e_req e) (e_ruminant e) (fst gf) (snd gf)) eaters (grass, feed).

(* main():  feed_used.kcals[month] = available_feed.kcals[month] - left ; same for grass *)
Definition month_feed_used (eaters : list eater) (grass feed : Q) : Q := feed - snd (feed_animals eaters grass feed).
Definition month_grass_used (eaters : list eater) (grass feed : Q) : Q := grass - fst (feed_animals eaters grass feed).

(* ------------------------------------------------------------------ the final round's feed charge *)
Definition Qmin' (x y : Q) : Q := if Qle_bool x y then x else y.
Definition Qmax0 (x : Q) : Q := if Qle_bool 0 x then x else 0.

(* run_round_2:  np.clip(feed_sum_kcals_equivalent.kcals - 20, 0, None) *)
Definition round2_clip (x : Q) : Q := Qmax0 (x - 20).

(* compute_parameters_third_round:  feed_sum_billion_kcals * 0.999999999  (the herd's available feed) *)
Definition SHAVE : Q := 999999999 # 1000000000.
Definition round3_available (feed2_billion : list Q) : list Q := map (fun x => x * SHAVE) feed2_billion.

(* increase_biofuels_then_feed, one month (numpy elementwise); returns (biofuel, feed) *)
Definition increase_month (biofuel feed increase max_biofuel max_feed total_crops : Q) : Q * Q :=
  let pot_bio := Qmax0 (Qmin' (biofuel + increase) max_biofuel - biofuel) in
  let pot_feed := Qmax0 (Qmin' (feed + increase) max_feed - feed) in
  let total_pot := pot_bio + pot_feed in
  let allowed := if Qle_bool (total_pot + biofuel + feed) total_crops then total_pot
                 else total_crops - biofuel - feed in
  let prop_bio := pot_bio / (total_pot + (1 # 1000000000)) in
  let adj_bio := allowed * prop_bio in
  let adj_feed := Qmin' (allowed - adj_bio) pot_feed in
  (biofuel + Qmax0 adj_bio, feed + Qmax0 adj_feed).

Record bump_in := { b_biofuel : Q; b_increase : Q; b_max_biofuel : Q; b_max_feed : Q; b_total_crops : Q }.

(* time_consts_round3["feed"].kcals for one month: the herd's feed_used, bumped when round 1 was run *)
Definition charge_month (round1_run : bool) (eaten : Q) (b : bump_in) : Q :=
  if round1_run
  then snd (increase_month (b_biofuel b) eaten (b_increase b) (b_max_biofuel b) (b_max_feed b) (b_total_crops b))
  else eaten.

(* the "increase" fed to the bump: ((meat3 - meat1)/2 in kcals-equivalent, minus const, negatives to zero), back in
   billion kcals.  k > 0 is the billion-kcals -> kcals-per-person-per-day multiplier, const = 20 (100 for NZL) *)
Definition increase_of (k const : Q) (meat3 meat1 : Q) : Q := Qmax0 ((meat3 - meat1) / 2 * k - const) / k.

(* ------------------------------------------------------------------ round decision tree of run_and_analyze_scenario *)
Record tree_in := {
  any_resource : bool;     (* ADD_STORED_FOOD or ADD_OUTDOOR_GROWING or ADD_SEAWEED or ADD_CELLULOSIC_SUGAR or ADD_METHANE_SCP *)
  demand_zero : bool;      (* feed_demand.all_equals_zero() and biofuels_demand.all_equals_zero() *)
  round2_aborts : bool     (* get_second_round_kcals_with_redistributed_meat returned None *)
}.

Definition round1_run (t : tree_in) : bool := any_resource t && negb (demand_zero t).
(* compute_parameters_third_round receives time_consts_round2 = None in both skip branches *)
Definition round2_consts_present (t : tree_in) : bool := round1_run t && negb (round2_aborts t).

(* which herd simulation the final round's meat, milk and feed come from, and the feed it was run on *)
Inductive herd_source := ReuseRound1 | NewRound3.
Definition round3_source (t : tree_in) : herd_source := if round2_consts_present t then NewRound3 else ReuseRound1.

(* the feed series handed to CalculateFeedAndMeat for the herd used by each round *)
Definition herd_feed_round1 (n : nat) : list Q := zeros n.
Definition herd_feed_round2 (feed_demand : list Q) : list Q := feed_demand.
Definition herd_feed_round3 (t : tree_in) (n : nat) (feed2_billion : list Q) : list Q :=
  match round3_source t with
  | NewRound3 => round3_available feed2_billion
  | ReuseRound1 => herd_feed_round1 n
  end.
