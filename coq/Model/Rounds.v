(* M6 (part): demand schedules of feed_and_biofuels.py and the shut-off table's reading.
   get_feed_usage / get_biofuel_usage:  [monthly] * duration + [0] * (NMONTHS - duration)
   with monthly = annual / 12 * 4e6 / 1e9 (thousand dry caloric tons per year -> billion kcals per month).
   Python's  [0] * negative  is the empty list, which is what nat subtraction gives.   Definitions only. *)
From Coq Require Import QArith List Arith String.
From Allfed Require Import Gen.Shutoff.
Import ListNotations.
Open Scope Q_scope.

Definition monthly_of_annual (annual : Q) : Q := annual / 12 * 4000000 / 1000000000.

Definition demand (monthly : Q) (d n : nat) : list Q := repeat monthly d ++ repeat 0 (n - d).

Definition months_of (d : dur) (n : nat) : nat := match d with Months k => k | Horizon => n end.

Definition feed_demand (annual : Q) (d : dur) (n : nat) : list Q := demand (monthly_of_annual annual) (months_of d n) n.

(* documented table (scenarios/README.md and the assertion messages): option -> feed months, biofuel months, threshold *)
Definition documented_shutoff : list (string * (dur * dur * Q)) := [
  ("continued"%string, (Horizon, Horizon, 100));
  ("continued_after_10_percent_fed"%string, (Horizon, Horizon, 10));
  ("immediate"%string, (Months 0, Months 0, 100));
  ("long_delayed_shutoff"%string, (Months 3, Months 2, 100));
  ("long_delayed_shutoff_after_10_percent_fed"%string, (Months 12, Months 6, 10));
  ("one_month_delayed_shutoff"%string, (Months 1, Months 1, 100));
  ("short_delayed_shutoff"%string, (Months 2, Months 1, 100)) ].

Definition dur_eqb (a b : dur) : bool :=
  match a, b with Months x, Months y => Nat.eqb x y | Horizon, Horizon => true | _, _ => false end.
Definition entry_eqb (a b : string * (dur * dur * Q)) : bool :=
  let '(s1, (f1, b1, t1)) := a in let '(s2, (f2, b2, t2)) := b in
  String.eqb s1 s2 && dur_eqb f1 f2 && dur_eqb b1 b2 && Qeq_bool t1 t2.
Fixpoint table_eqb (a b : list (string * (dur * dur * Q))) : bool :=
  match a, b with
  | [], [] => true
  | x :: a', y :: b' => entry_eqb x y && table_eqb a' b'
  | _, _ => false
  end.

(* biofuel never outlasts feed (for horizons of at least a year) *)
Definition bio_le_feed (n : nat) (e : string * (dur * dur * Q)) : bool :=
  let '(_, (f, b, _)) := e in Nat.leb (months_of b n) (months_of f n).
