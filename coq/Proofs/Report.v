(* lemmas about Model/Report.v (C04): conversions, headline = min of the per-food sum, link with the LP rows
   Kcals_Fed_Month / objective / second stage of Model/LP.v, crop split, np.round bounds *)
From Coq Require Import QArith Qround Lqa Lia List String Bool Arith ZArith.
From Allfed Require Import Base.StrUtil Gen.UnitTables Model.Units Model.LP Model.Report Proofs.Units Proofs.LPChar.
Import ListNotations.
Open Scope Q_scope.

(* ---------- lists ---------- *)
Lemma nth_map_seq {A} (f : nat -> A) d n s m : (m < n)%nat -> nth m (map f (seq s n)) d = f (s + m)%nat.
Proof.
  revert s m; induction n; intros s m H; [lia|].
  destruct m; cbn; [f_equal; lia|]. rewrite IHn by lia. f_equal; lia.
Qed.

Lemma nth_repeat0 m k : nth m (repeat 0 k) 0 = 0.
Proof. revert m; induction k; intros [|m]; cbn; auto. Qed.

Lemma nthq_lscale k l m : nthq (lscale k l) m == k * nthq l m.
Proof.
  unfold nthq, lscale. revert m; induction l; intros [|m]; cbn; try ring. apply IHl.
Qed.

Lemma length_zip f a b : List.length (zip_with f a b) = Nat.min (List.length a) (List.length b).
Proof. revert b; induction a; intros [|y b]; cbn; auto. Qed.

Lemma nthq_zip f a b m : (m < List.length a)%nat -> (m < List.length b)%nat ->
  nthq (zip_with f a b) m = f (nthq a m) (nthq b m).
Proof.
  unfold nthq. revert b m; induction a; intros [|y b] [|m]; cbn; intros; try lia; auto.
  apply IHa; lia.
Qed.

Lemma to_monthly_list_len n v k : varlen v = n -> List.length (to_monthly_list n v k) = n.
Proof.
  destruct v; cbn; intros <-; [apply repeat_length|]. now rewrite map_length, seq_length.
Qed.

Lemma to_monthly_list_nth n v k m : (m < n)%nat -> nthq (to_monthly_list n v k) m == var_at v m * k.
Proof.
  intros H. destruct v; cbn; unfold nthq.
  - rewrite nth_repeat0. ring.
  - rewrite (nth_map_seq (fun m => nthq vals m * k)) by exact H. reflexivity.
Qed.

Lemma Qle_bool_false x y : Qle_bool x y = false -> y < x.
Proof.
  intro H. destruct (Qlt_le_dec y x) as [L|L]; [exact L|].
  apply Qle_bool_iff in L. congruence.
Qed.
Lemma Qmin'_le_l x y : Qmin' x y <= x.
Proof. unfold Qmin'. destruct (Qle_bool x y) eqn:E; [lra|]. apply Qle_bool_false in E. lra. Qed.
Lemma Qmin'_le_r x y : Qmin' x y <= y.
Proof. unfold Qmin'. destruct (Qle_bool x y) eqn:E; [now apply Qle_bool_iff|lra]. Qed.
Lemma Qmin'_cases x y : Qmin' x y = x \/ Qmin' x y = y.
Proof. unfold Qmin'. destruct (Qle_bool x y); auto. Qed.

Lemma fold_min_le l : forall x, fold_left Qmin' l x <= x /\ (forall y, In y l -> fold_left Qmin' l x <= y).
Proof.
  induction l; intros x; cbn.
  - split; [lra|tauto].
  - destruct (IHl (Qmin' x a)) as [A B]. split.
    + pose proof (Qmin'_le_l x a). lra.
    + intros y [<-|Hy]; [pose proof (Qmin'_le_r x a); lra|auto].
Qed.
Lemma fold_min_in l : forall x, fold_left Qmin' l x = x \/ In (fold_left Qmin' l x) l.
Proof.
  induction l; intros x; cbn; [auto|].
  destruct (IHl (Qmin' x a)) as [E|E]; [|auto].
  rewrite E. destruct (Qmin'_cases x a) as [->| ->]; auto.
Qed.

Lemma lmin_spec l h : lmin l = Some h -> In h l /\ forall y, In y l -> h <= y.
Proof.
  destruct l as [|x l]; cbn; [discriminate|]. intros [= <-].
  destruct (fold_min_le l x) as [A B]. split.
  - destruct (fold_min_in l x) as [->|E]; auto.
  - intros y [<-|Hy]; auto.
Qed.

Lemma lmin_nth l h : lmin l = Some h ->
  (exists m, (m < List.length l)%nat /\ nthq l m = h) /\ forall m, (m < List.length l)%nat -> h <= nthq l m.
Proof.
  intros H. destruct (lmin_spec l h H) as [A B]. split.
  - destruct (In_nth l h 0 A) as (m & Hm & E). exists m; auto.
  - intros m Hm. apply B. apply nth_In; exact Hm.
Qed.

(* ---------- inversion of extract / interpret ---------- *)
Definition prod_h (x : rep_in) : list Q :=
  crop_production_for_humans true (r_crops_prod x) (create_food_kcals (r_n x) (r_km x) (v_cr_f x))
                             (create_food_kcals (r_n x) (r_km x) (v_cr_b x)).

Lemma extract_inv x e : extract x = Ok e ->
  e_sf e = extract_generic_kcals (r_n x) (r_km x) (v_sf_h x) 1 /\
  e_sw e = extract_generic_kcals (r_n x) (r_km x) (v_sw_h x) (r_sw_kcals x) /\
  e_scp e = extract_generic_kcals (r_n x) (r_km x) (v_scp_h x) 1 /\
  e_cs e = extract_generic_kcals (r_n x) (r_km x) (v_cs_h x) 1 /\
  e_fish e = lscale (m_bk_bf (r_conv x)) (r_fish x) /\
  e_gh e = lscale (m_bk_bf (r_conv x)) (r_greenhouse x) /\
  e_cr e = create_food_kcals (r_n x) (r_km x) (v_cr_h x) /\
  e_meat e = create_food_kcals (r_n x) (r_km x) (v_meat x) /\
  e_milk e = map (fun v => v / r_km x) (r_milk x) /\
  (if is_modelled (v_cr_h x)
   then (e_imm e, e_ns e) = split_series (r_n x) (map (var_at (v_cr_h x)) (seq 0 (r_n x))) (prod_h x) (1 / r_km x)
   else e_imm e = repeat 0 (varlen (v_cr_h x)) /\ e_ns e = repeat 0 (varlen (v_cr_h x))).
Proof.
  unfold extract, extract_gen. fold (prod_h x).
  destruct (negb (same_len _ _ && same_len _ _)); [discriminate|].
  destruct (is_modelled (v_cr_h x)) eqn:M; cbn [negb andb].
  - destruct (split_series _ _ _ _) as [imm ns] eqn:S.
    destruct (negb (sources_add_up _ _ _)); [discriminate|].
    destruct (negb (growing_production_ok _ _ _)); [discriminate|].
    intros [= <-]; cbn. repeat split; reflexivity.
  - destruct (Qeq_bool (lsum (prod_h x)) 0); [|discriminate].
    destruct (negb (sources_add_up _ _ _)); [discriminate|].
    destruct (negb (growing_production_ok _ _ _)); [discriminate|].
    intros [= <-]; cbn. repeat split; reflexivity.
Qed.

Lemma interpret_inv c e i : interpret c e = Ok i ->
  p_sf i = lscale (m_bf_pct c) (e_sf e) /\ p_cr i = lscale (m_bf_pct c) (e_cr e) /\
  p_sw i = lscale (m_bf_pct c) (e_sw e) /\ p_cs i = lscale (m_bf_pct c) (e_cs e) /\
  p_scp i = lscale (m_bf_pct c) (e_scp e) /\ p_gh i = lscale (m_bf_pct c) (e_gh e) /\
  p_fish i = lscale (m_bf_pct c) (e_fish e) /\ p_meat i = lscale (m_bf_pct c) (e_meat e) /\
  p_milk i = lscale (m_bf_pct c) (e_milk e) /\ p_imm i = lscale (m_bf_pct c) (e_imm e) /\
  p_ns i = lscale (m_bf_pct c) (e_ns e) /\
  p_sum i = sum9 (p_sf i) (p_cr i) (p_sw i) (p_cs i) (p_scp i) (p_gh i) (p_fish i) (p_meat i) (p_milk i) /\
  lmin (p_sum i) = Some (headline i) /\
  (same_len (p_sf i) (p_cr i) && same_len (p_sf i) (p_sw i) && same_len (p_sf i) (p_cs i) &&
   same_len (p_sf i) (p_scp i) && same_len (p_sf i) (p_gh i) && same_len (p_sf i) (p_fish i) &&
   same_len (p_sf i) (p_meat i) && same_len (p_sf i) (p_milk i) = true) /\
  q_sf i = lround 3 (p_sf i) /\ q_cr i = lround 3 (p_cr i) /\ q_imm i = lround 1 (p_imm i) /\
  q_ns i = lround 3 (p_ns i) /\ q_sw i = lround 3 (p_sw i) /\
  k_fish i = lscale (m_bf_ke c) (e_fish e) /\ k_cs i = lscale (m_bf_ke c) (e_cs e) /\
  k_scp i = lscale (m_bf_ke c) (e_scp e) /\ k_gh i = lscale (m_bf_ke c) (e_gh e) /\
  k_sw i = lscale (m_bf_ke c) (e_sw e) /\ k_milk i = lscale (m_bf_ke c) (e_milk e) /\
  k_meat i = lscale (m_bf_ke c) (e_meat e) /\ k_imm i = lscale (m_bf_ke c) (e_imm e) /\
  k_ns i = lscale (m_bf_ke c) (e_ns e) /\ k_sf i = lscale (m_bf_ke c) (e_sf e).
Proof.
  unfold interpret.
  destruct (same_len _ _ && same_len _ _ && same_len _ _ && same_len _ _ && same_len _ _ && same_len _ _ && same_len _ _ && same_len _ _) eqn:L;
    cbn [negb]; [|discriminate].
  destruct (lmin _) as [h|] eqn:Hm; [|discriminate].
  destruct (negb (same_len _ _ && same_len _ _)); [discriminate|].
  destruct (negb _); [discriminate|].
  intros [= <-]; cbn. repeat split; try reflexivity; assumption.
Qed.

(* ---------- multipliers ---------- *)
Open Scope string_scope.
Lemma m_bk_bf_eq c : m_bk_bf c = conversion_formula 1 (kcal_billion_kcal_to_billion_people c).
Proof. reflexivity. Qed.
Lemma m_bf_pct_eq c : m_bf_pct c = conversion_formula (kcal_billion_kcal_to_billion_people c) (kcal_billion_kcal_to_percent_fed c).
Proof. reflexivity. Qed.
Lemma m_bf_ke_eq c : m_bf_ke c = conversion_formula (kcal_billion_kcal_to_billion_people c)
   ((kcal_billion_kcal_to_billion_people c) * (kcal_billion_people_to_kcals_equivalent c)).
Proof. reflexivity. Qed.
Close Scope string_scope.

Lemma pct_formula c km r : positive_settings c -> km == kcals_monthly c ->
  m_bf_pct c * (r / km) == 100 * r / billion_kcals_needed c.
Proof.
  intros (A & B & C & D) ->. rewrite m_bf_pct_eq. unfold conversion_formula. unfold_units. field. qnz.
Qed.
Lemma ke_formula c km r : positive_settings c -> km == kcals_monthly c ->
  m_bf_ke c * (r / km) == r * 1000000000 / (30 * population c).
Proof.
  intros (A & B & C & D) ->. rewrite m_bf_ke_eq. unfold conversion_formula. unfold_units. field. qnz.
Qed.
Lemma bk_bf_formula c : positive_settings c -> m_bk_bf c == 1 / kcals_monthly c.
Proof.
  intros (A & B & C & D). rewrite m_bk_bf_eq. unfold conversion_formula. unfold_units. field. qnz.
Qed.
Lemma km_pos c : positive_settings c -> 0 < kcals_monthly c.
Proof. intros (A & B & C & D). unfold_units. lra. Qed.
Lemma bkn_pos c : positive_settings c -> 0 < billion_kcals_needed c.
Proof.
  intros H. pose proof (km_pos c H) as K. destruct H as (A & B & C & D).
  unfold billion_kcals_needed. apply Qdiv_pos; [apply Qmult_lt_0_compat; assumption|lra].
Qed.
Lemma m_bf_pct_pos c : positive_settings c -> 0 < m_bf_pct c.
Proof.
  intros H. pose proof (pct_formula c (kcals_monthly c) (kcals_monthly c) H (Qeq_refl _)) as E.
  destruct H as (A & B & C & D).
  assert (K : 0 < kcals_monthly c) by (unfold_units; lra).
  assert (N : 0 < billion_kcals_needed c) by (unfold_units; apply Qdiv_pos; [nra|lra]).
  assert (E1 : kcals_monthly c / kcals_monthly c == 1) by (field; lra).
  rewrite E1, Qmult_1_r in E. rewrite E. apply Qdiv_pos; [nra|exact N].
Qed.
Lemma m_bf_ke_pos c : positive_settings c -> 0 < m_bf_ke c.
Proof.
  intros H. pose proof (ke_formula c (kcals_monthly c) (kcals_monthly c) H (Qeq_refl _)) as E.
  destruct H as (A & B & C & D).
  assert (K : 0 < kcals_monthly c) by (unfold_units; lra).
  assert (E1 : kcals_monthly c / kcals_monthly c == 1) by (field; lra).
  rewrite E1, Qmult_1_r in E. rewrite E. apply Qdiv_pos; [nra|lra].
Qed.

Lemma nthq_map_div km l m : ~ km == 0 -> nthq (map (fun v => v / km) l) m == nthq l m / km.
Proof.
  intros K. unfold nthq. revert m; induction l; intros [|m]; cbn; try (field; exact K); try reflexivity. apply IHl.
Qed.

(* one converted series: percent and kcals-equivalent of an optimiser variable list *)
Lemma pct_of_vars c n km v r m : positive_settings c -> km == kcals_monthly c -> (m < n)%nat ->
  nthq (lscale (m_bf_pct c) (to_monthly_list n v (r / km))) m == 100 * (r * var_at v m) / billion_kcals_needed c.
Proof.
  intros H K Hm. rewrite nthq_lscale, to_monthly_list_nth by exact Hm.
  transitivity (var_at v m * (m_bf_pct c * (r / km))); [ring|]. rewrite (pct_formula c km r H K).
  pose proof (bkn_pos c H). field. intro HE; lra.
Qed.
Lemma ke_of_vars c n km v r m : positive_settings c -> km == kcals_monthly c -> (m < n)%nat ->
  nthq (lscale (m_bf_ke c) (to_monthly_list n v (r / km))) m == r * var_at v m * 1000000000 / (30 * population c).
Proof.
  intros H K Hm. rewrite nthq_lscale, to_monthly_list_nth by exact Hm.
  transitivity (var_at v m * (m_bf_ke c * (r / km))); [ring|]. rewrite (ke_formula c km r H K).
  destruct H as (A & B & C & D). field. lra.
Qed.

(* ---------- report: inversion ---------- *)
Lemma report_inv x e i : report x = Ok (e, i) -> extract x = Ok e /\ interpret (r_conv x) e = Ok i.
Proof.
  unfold report, report_gen, extract. destruct (extract_gen true x) as [e'|]; [|discriminate].
  destruct (interpret _ e') as [i'|] eqn:HI; [|discriminate]. intros [= <- <-]; split; [reflexivity|exact HI].
Qed.

Definition settings_ok (x : rep_in) : Prop :=
  positive_settings (r_conv x) /\ r_km x == kcals_monthly (r_conv x).

(* c04_conversion: every reported series is the documented conversion of the allocation *)
Lemma report_conversion x e i : report x = Ok (e, i) -> settings_ok x ->
  let c := r_conv x in let need := billion_kcals_needed c in
  forall m, (m < r_n x)%nat ->
  (nthq (p_sf i) m == 100 * (1 * var_at (v_sf_h x) m) / need /\
   nthq (p_cr i) m == 100 * (1 * var_at (v_cr_h x) m) / need /\
   nthq (p_sw i) m == 100 * (r_sw_kcals x * var_at (v_sw_h x) m) / need /\
   nthq (p_cs i) m == 100 * (1 * var_at (v_cs_h x) m) / need /\
   nthq (p_scp i) m == 100 * (1 * var_at (v_scp_h x) m) / need /\
   nthq (p_meat i) m == 100 * (1 * var_at (v_meat x) m) / need /\
   nthq (p_gh i) m == 100 * nthq (r_greenhouse x) m / need /\
   nthq (p_fish i) m == 100 * nthq (r_fish x) m / need /\
   nthq (p_milk i) m == 100 * nthq (r_milk x) m / need) /\
  (nthq (k_sf i) m == 1 * var_at (v_sf_h x) m * 1000000000 / (30 * population c) /\
   nthq (k_sw i) m == r_sw_kcals x * var_at (v_sw_h x) m * 1000000000 / (30 * population c) /\
   nthq (k_cs i) m == 1 * var_at (v_cs_h x) m * 1000000000 / (30 * population c) /\
   nthq (k_scp i) m == 1 * var_at (v_scp_h x) m * 1000000000 / (30 * population c) /\
   nthq (k_meat i) m == 1 * var_at (v_meat x) m * 1000000000 / (30 * population c) /\
   nthq (k_gh i) m == nthq (r_greenhouse x) m * 1000000000 / (30 * population c) /\
   nthq (k_fish i) m == nthq (r_fish x) m * 1000000000 / (30 * population c) /\
   nthq (k_milk i) m == nthq (r_milk x) m * 1000000000 / (30 * population c)).
Proof.
  intros R [P K] c need m Hm. destruct (report_inv _ _ _ R) as [HE HI].
  destruct (extract_inv _ _ HE) as (E1 & E2 & E3 & E4 & E5 & E6 & E7 & E8 & E9 & _).
  destruct (interpret_inv _ _ _ HI) as
    (I1 & I2 & I3 & I4 & I5 & I6 & I7 & I8 & I9 & _ & _ & _ & _ & _ & _ & _ & _ & _ & _ &
     K1 & K2 & K3 & K4 & K5 & K6 & K7 & _ & _ & K10).
  fold c in HI, I1, I2, I3, I4, I5, I6, I7, I8, I9, K1, K2, K3, K4, K5, K6, K7, K10, P, K.
  pose proof (bkn_pos c P) as NP. pose proof (km_pos c P) as KP. fold need in NP.
  assert (KM : ~ r_km x == 0) by (rewrite K; intro HE0; lra).
  destruct P as (A & B & C & D).
  assert (P : positive_settings c) by (repeat split; assumption).
  assert (G : forall l, nthq (lscale (m_bf_pct c) (lscale (m_bk_bf c) l)) m == 100 * nthq l m / need).
  { intros l. rewrite !nthq_lscale, (bk_bf_formula c P).
    pose proof (pct_formula c (kcals_monthly c) 1 P (Qeq_refl _)) as F.
    transitivity (nthq l m * (m_bf_pct c * (1 / kcals_monthly c))); [ring|]. rewrite F. unfold need. field. intro HE0; fold need in HE0; lra. }
  assert (G' : forall l, nthq (lscale (m_bf_ke c) (lscale (m_bk_bf c) l)) m == nthq l m * 1000000000 / (30 * population c)).
  { intros l. rewrite !nthq_lscale, (bk_bf_formula c P).
    pose proof (ke_formula c (kcals_monthly c) 1 P (Qeq_refl _)) as F.
    transitivity (nthq l m * (m_bf_ke c * (1 / kcals_monthly c))); [ring|]. rewrite F. field. lra. }
  split.
  - rewrite I1, I2, I3, I4, I5, I6, I7, I8, I9, E1, E2, E3, E4, E5, E6, E7, E8, E9.
    unfold extract_generic_kcals, create_food_kcals.
    repeat split; try (apply pct_of_vars; assumption); try apply G.
    rewrite nthq_lscale, nthq_map_div by exact KM.
    pose proof (pct_formula c (r_km x) 1 P K) as F.
    transitivity (nthq (r_milk x) m * (m_bf_pct c * (1 / r_km x))); [field; exact KM|]. rewrite F.
    unfold need. field. intro HE0; fold need in HE0; lra.
  - rewrite K1, K2, K3, K4, K5, K6, K7, K10, E1, E2, E3, E4, E5, E6, E8, E9.
    unfold extract_generic_kcals, create_food_kcals.
    repeat split; try (apply ke_of_vars; assumption); try apply G'.
    rewrite nthq_lscale, nthq_map_div by exact KM.
    pose proof (ke_formula c (r_km x) 1 P K) as F.
    transitivity (nthq (r_milk x) m * (m_bf_ke c * (1 / r_km x))); [field; exact KM|]. rewrite F.
    field. lra.
Qed.

(* ---------- headline = min over months of the sum of the nine series ---------- *)
Lemma ladd_nth a b m : List.length b = List.length a -> (m < List.length a)%nat ->
  nthq (ladd a b) m = nthq a m + nthq b m.
Proof. intros L H. unfold ladd. apply nthq_zip; lia. Qed.
Lemma ladd_len a b : List.length b = List.length a -> List.length (ladd a b) = List.length a.
Proof. intros L. unfold ladd. rewrite length_zip. lia. Qed.

Lemma same_len_eq a b : same_len a b = true -> List.length b = List.length a.
Proof. unfold same_len. intros H. apply Nat.eqb_eq in H. lia. Qed.

Lemma sum9_len sf cr sw cs scp gh fish meat milk :
  List.length cr = List.length sf -> List.length sw = List.length sf -> List.length cs = List.length sf ->
  List.length scp = List.length sf -> List.length gh = List.length sf -> List.length fish = List.length sf ->
  List.length meat = List.length sf -> List.length milk = List.length sf ->
  List.length (sum9 sf cr sw cs scp gh fish meat milk) = List.length sf.
Proof.
  intros L1 L2 L3 L4 L5 L6 L7 L8. unfold sum9.
  assert (A1 := ladd_len sf cr L1).
  assert (A2 := ladd_len (ladd sf cr) sw ltac:(lia)).
  assert (A3 := ladd_len (ladd (ladd sf cr) sw) cs ltac:(lia)).
  assert (A4 := ladd_len (ladd (ladd (ladd sf cr) sw) cs) scp ltac:(lia)).
  assert (A5 := ladd_len (ladd (ladd (ladd (ladd sf cr) sw) cs) scp) gh ltac:(lia)).
  assert (A6 := ladd_len (ladd (ladd (ladd (ladd (ladd sf cr) sw) cs) scp) gh) fish ltac:(lia)).
  assert (A7 := ladd_len (ladd (ladd (ladd (ladd (ladd (ladd sf cr) sw) cs) scp) gh) fish) meat ltac:(lia)).
  assert (A8 := ladd_len (ladd (ladd (ladd (ladd (ladd (ladd (ladd sf cr) sw) cs) scp) gh) fish) meat) milk ltac:(lia)).
  lia.
Qed.

Lemma sum9_nth sf cr sw cs scp gh fish meat milk m :
  List.length cr = List.length sf -> List.length sw = List.length sf -> List.length cs = List.length sf ->
  List.length scp = List.length sf -> List.length gh = List.length sf -> List.length fish = List.length sf ->
  List.length meat = List.length sf -> List.length milk = List.length sf -> (m < List.length sf)%nat ->
  nthq (sum9 sf cr sw cs scp gh fish meat milk) m =
    nthq sf m + nthq cr m + nthq sw m + nthq cs m + nthq scp m + nthq gh m + nthq fish m + nthq meat m + nthq milk m.
Proof.
  intros L1 L2 L3 L4 L5 L6 L7 L8 H. unfold sum9.
  assert (A1 := ladd_len sf cr L1).
  assert (A2 := ladd_len (ladd sf cr) sw ltac:(lia)).
  assert (A3 := ladd_len (ladd (ladd sf cr) sw) cs ltac:(lia)).
  assert (A4 := ladd_len (ladd (ladd (ladd sf cr) sw) cs) scp ltac:(lia)).
  assert (A5 := ladd_len (ladd (ladd (ladd (ladd sf cr) sw) cs) scp) gh ltac:(lia)).
  assert (A6 := ladd_len (ladd (ladd (ladd (ladd (ladd sf cr) sw) cs) scp) gh) fish ltac:(lia)).
  assert (A7 := ladd_len (ladd (ladd (ladd (ladd (ladd (ladd sf cr) sw) cs) scp) gh) fish) meat ltac:(lia)).
  rewrite !ladd_nth by lia. reflexivity.
Qed.

Lemma report_headline x e i : report x = Ok (e, i) ->
  let s m := nthq (p_sf i) m + nthq (p_cr i) m + nthq (p_sw i) m + nthq (p_cs i) m + nthq (p_scp i) m +
             nthq (p_gh i) m + nthq (p_fish i) m + nthq (p_meat i) m + nthq (p_milk i) m in
  (forall m, (m < List.length (p_sf i))%nat -> nthq (p_sum i) m = s m) /\
  (forall m, (m < List.length (p_sf i))%nat -> headline i <= s m) /\
  (exists m, (m < List.length (p_sf i))%nat /\ headline i = s m).
Proof.
  intros R s. destruct (report_inv _ _ _ R) as [HE HI].
  destruct (interpret_inv _ _ _ HI) as
    (_ & _ & _ & _ & _ & _ & _ & _ & _ & _ & _ & S & M & L & _).
  repeat (apply andb_prop in L; destruct L as [L ?]).
  repeat match goal with H : same_len _ _ = true |- _ => apply same_len_eq in H end.
  assert (Ln : List.length (p_sum i) = List.length (p_sf i)) by (rewrite S; apply sum9_len; assumption).
  assert (N : forall m, (m < List.length (p_sf i))%nat -> nthq (p_sum i) m = s m).
  { intros m Hm. rewrite S. apply sum9_nth; assumption. }
  destruct (lmin_nth _ _ M) as [(m0 & Hm0 & E0) Hall].
  split; [exact N|]. split.
  - intros m Hm. rewrite <- (N m Hm). apply Hall. lia.
  - exists m0. split; [lia|]. rewrite <- E0. apply N. lia.
Qed.

(* ---------- link with the LP rows ---------- *)
Definition bsel (b : bool) (v : Q) : Q := if b then v else 0.

Lemma varlen_vars_of i a add s : varlen (vars_of i a add s) = NM i.
Proof. unfold vars_of, months. destruct add; cbn; [now rewrite map_length, seq_length|reflexivity]. Qed.

Lemma var_at_vars_of i a add s m : (m < NM i)%nat -> var_at (vars_of i a add s) m = bsel add (a s m).
Proof.
  intros H. unfold vars_of, months. destruct add; cbn; [|reflexivity].
  unfold nthq. now rewrite (nth_map_seq (a s) 0 (NM i) 0 m H).
Qed.

Lemma nth_firstn_lt {A} (d : A) n : forall l m, (m < n)%nat -> nth m (firstn n l) d = nth m l d.
Proof. induction n; intros l m H; [lia|]. destruct l; [now destruct m|]. destruct m; cbn; auto. apply IHn; lia. Qed.

Lemma nth_pad l k m : nth m (l ++ repeat 0 k) 0 = nth m l 0.
Proof.
  destruct (Nat.lt_ge_cases m (List.length l)) as [H|H].
  - now rewrite app_nth1.
  - rewrite app_nth2 by lia. rewrite nth_repeat0. symmetry. apply nth_overflow; lia.
Qed.

Lemma nthq_padded l n m : (m < n)%nat -> nthq (firstn n (l ++ repeat 0 n)) m = at_ l m.
Proof. intros H. unfold nthq, at_. rewrite nth_firstn_lt by exact H. apply nth_pad. Qed.

Lemma eval_human_terms i a k m :
  eval a (human_terms i k m) ==
  k * (bsel (add_sf i) (a SF_h m) + bsel (add_cr i) (a CR_h m) + sw_kcals i * bsel (add_sw i) (a SW_h m) +
       bsel (add_meat i) (a M_eaten m) + bsel (add_cs i) (a CS_h m) + bsel (add_scp i) (a SCP_h m)).
Proof.
  unfold human_terms, opt, t, bsel.
  destruct (add_sf i), (add_cr i), (add_sw i), (add_meat i), (add_cs i), (add_scp i); cbn; ring.
Qed.

Definition consumed_row (i : lp_in) (m : nat) : row :=
  mk (t 1 Consumed m :: human_terms i (- (100 / need i)) m) Eq (given_kcals i m / need i * 100).

Lemma consumed_row_in_build i m : (m < NM i)%nat -> In (consumed_row i m) (build i ToHumans).
Proof.
  intros H. unfold build. apply in_or_app; right. apply in_or_app; left.
  apply in_flat_map. exists m. split; [unfold months; apply in_seq; lia|].
  apply in_or_app; right. apply in_or_app; left. cbn. left. reflexivity.
Qed.

Lemma feasible_consumed_rows i a : Feasible i ToHumans a -> forall m, (m < NM i)%nat -> sat a (consumed_row i m).
Proof.
  intros [_ F] m H. rewrite Forall_forall in F. apply F. apply consumed_row_in_build; exact H.
Qed.

(* row Kcals_Fed_Month read as a definition of consumed_kcals *)
Lemma consumed_value i a m : ~ need i == 0 -> sat a (consumed_row i m) ->
  a Consumed m == 100 / need i *
    (bsel (add_sf i) (a SF_h m) + bsel (add_cr i) (a CR_h m) + sw_kcals i * bsel (add_sw i) (a SW_h m) +
     bsel (add_meat i) (a M_eaten m) + bsel (add_cs i) (a CS_h m) + bsel (add_scp i) (a SCP_h m) +
     at_ (milk i) m + at_ (greenhouse i) m + at_ (fish i) m).
Proof.
  intros N S. unfold sat, consumed_row, mk in S. cbn [sns lhs rhs] in S. unfold t at 1 in S. cbn [eval] in S.
  rewrite eval_human_terms in S. unfold given_kcals in S.
  set (H := bsel (add_sf i) (a SF_h m) + bsel (add_cr i) (a CR_h m) + sw_kcals i * bsel (add_sw i) (a SW_h m) +
     bsel (add_meat i) (a M_eaten m) + bsel (add_cs i) (a CS_h m) + bsel (add_scp i) (a SCP_h m)) in *.
  assert (E : a Consumed m == (at_ (milk i) m + at_ (greenhouse i) m + at_ (fish i) m) / need i * 100 + 100 / need i * H).
  { rewrite <- S. field. exact N. }
  rewrite E. field. exact N.
Qed.

Definition lp_settings_ok (i : lp_in) (c : conv) : Prop :=
  positive_settings c /\ kcals_monthly_pp i == kcals_monthly c /\ need i == billion_kcals_needed c.

Lemma report_lp_sum i c a e ii : lp_settings_ok i c ->
  (forall m, (m < NM i)%nat -> sat a (consumed_row i m)) ->
  report (report_in i c a) = Ok (e, ii) ->
  List.length (p_sf ii) = NM i /\ forall m, (m < NM i)%nat -> nthq (p_sum ii) m == a Consumed m.
Proof.
  intros (P & K & N) S R.
  assert (SO : settings_ok (report_in i c a)) by (split; assumption).
  pose proof (report_conversion _ _ _ R SO) as CV. cbn zeta in CV.
  destruct (report_headline _ _ _ R) as (HS & _ & _).
  destruct (report_inv _ _ _ R) as [HE HI].
  destruct (extract_inv _ _ HE) as (E1 & _).
  destruct (interpret_inv _ _ _ HI) as (I1 & _).
  assert (Ln : List.length (p_sf ii) = NM i).
  { rewrite I1, E1. unfold lscale, extract_generic_kcals. rewrite map_length.
    apply to_monthly_list_len. cbn. apply varlen_vars_of. }
  split; [exact Ln|]. intros m Hm.
  rewrite HS by lia.
  destruct (CV m Hm) as ((C1 & C2 & C3 & C4 & C5 & C6 & C7 & C8 & C9) & _).
  cbn [report_in r_conv r_sw_kcals v_sf_h v_cr_h v_sw_h v_cs_h v_scp_h v_meat r_greenhouse r_fish r_milk r_n] in *.
  rewrite C1, C2, C3, C4, C5, C6, C7, C8, C9.
  rewrite !var_at_vars_of, !nthq_padded by exact Hm.
  pose proof (bkn_pos c P) as NP.
  assert (NZ : ~ need i == 0) by (rewrite N; intro HE0; lra).
  rewrite (consumed_value i a m NZ (S m Hm)). rewrite N. field. intro HE0; lra.
Qed.

Lemma report_lp_headline i c a e ii : lp_settings_ok i c ->
  (forall m, (m < NM i)%nat -> sat a (consumed_row i m)) ->
  report (report_in i c a) = Ok (e, ii) ->
  (forall m, (m < NM i)%nat -> headline ii <= a Consumed m) /\
  (exists m, (m < NM i)%nat /\ headline ii == a Consumed m).
Proof.
  intros H S R. destruct (report_lp_sum i c a e ii H S R) as [Ln Sm].
  destruct (report_headline _ _ _ R) as (HS & Hle & (m0 & Hm0 & E0)). rewrite Ln in *.
  split.
  - intros m Hm. rewrite <- (Sm m Hm), (HS m Hm). apply Hle; exact Hm.
  - exists m0. split; [exact Hm0|]. rewrite <- (Sm m0 Hm0), (HS m0 Hm0), E0. reflexivity.
Qed.

(* ---------- second stage floor ---------- *)
Lemma floor_rows i v a : Feasible2 i ToHumans v a -> forall m, (m < NM i)%nat -> (99995 # 100000) * v <= a Consumed m.
Proof.
  intros [_ F] m H. cbn in F. rewrite Forall_forall in F.
  specialize (F (mk [t 1 Consumed m] Ge (v * (99995 # 100000)))).
  assert (I : In (mk [t 1 Consumed m] Ge (v * (99995 # 100000))) (map (fun m => mk [t 1 Consumed m] Ge (v * (99995 # 100000))) (months i))).
  { apply in_map_iff. exists m. split; [reflexivity|unfold months; apply in_seq; lia]. }
  specialize (F I). unfold sat in F; cbn in F. lra.
Qed.

Lemma objective_rows i a : Feasible i ToHumans a -> forall m, (m < NM i)%nat -> a Obj 0%nat <= a Consumed m.
Proof.
  intros [_ F] m H. rewrite Forall_forall in F.
  assert (I : In (mk [t 1 Obj 0; t (-1) Consumed m] Le 0) (build i ToHumans)).
  { unfold build. apply in_or_app; right. apply in_or_app; right. cbn.
    apply in_map_iff. exists m. split; [reflexivity|unfold months; apply in_seq; lia]. }
  specialize (F _ I). unfold sat in F; cbn in F. lra.
Qed.

(* ---------- crop split ---------- *)
Lemma split_month_adds_up produced eaten k :
  fst (split_month produced eaten k) + snd (split_month produced eaten k) == eaten * k.
Proof. unfold split_month. destruct (Qle_bool produced eaten); cbn; ring. Qed.

Lemma split_month_nonneg produced eaten k : 0 <= k -> 0 <= snd (split_month produced eaten k).
Proof.
  intros K. unfold split_month. destruct (Qle_bool produced eaten) eqn:E; cbn; [|lra].
  apply Qle_bool_iff in E. apply Qmult_le_0_compat; lra.
Qed.

Lemma nth_map_lt {A B} (f : A -> B) d d' l m : (m < List.length l)%nat -> nth m (map f l) d' = f (nth m l d).
Proof. revert m; induction l; intros [|m] H; cbn in *; try lia; auto. apply IHl; lia. Qed.

Lemma extract_split x e : extract x = Ok e -> 0 < r_km x -> forall m, (m < r_n x)%nat ->
  nthq (e_imm e) m + nthq (e_ns e) m == nthq (e_cr e) m /\ 0 <= nthq (e_ns e) m.
Proof.
  intros HE K m Hm. destruct (extract_inv _ _ HE) as (_ & _ & _ & _ & _ & _ & E7 & _ & _ & S).
  rewrite E7. unfold create_food_kcals. rewrite to_monthly_list_nth by exact Hm.
  destruct (is_modelled (v_cr_h x)) eqn:M.
  - unfold split_series in S. injection S as -> ->. unfold nthq.
    rewrite !map_map. rewrite !nth_map_seq by exact Hm. cbn beta. cbn [plus]. rewrite ?nth_map_seq by exact Hm. cbn [plus].
    split; [apply split_month_adds_up|apply split_month_nonneg].
    apply Qlt_le_weak. apply Qdiv_pos; [reflexivity|exact K].
  - destruct S as [-> ->]. unfold nthq. rewrite !nth_repeat0.
    destruct (v_cr_h x); cbn in M |- *; [|discriminate M]. split; [ring|lra].
Qed.

(* ---------- np.round ---------- *)
Lemma rhe_bound y : - (1 # 2) <= inject_Z (rhe y) - y <= 1 # 2.
Proof.
  unfold rhe. pose proof (Qfloor_le y) as L. pose proof (Qlt_floor y) as U.
  rewrite inject_Z_plus in U. change (inject_Z 1) with 1 in U.
  set (f := Qfloor y) in *.
  destruct (Qcompare (y - inject_Z f) (1 # 2)) eqn:C.
  - apply Qeq_alt in C.
    destruct (Z.even f); [|rewrite inject_Z_plus; change (inject_Z 1) with 1]; lra.
  - apply Qlt_alt in C. lra.
  - apply Qgt_alt in C. rewrite inject_Z_plus; change (inject_Z 1) with 1. lra.
Qed.

Lemma pow10_pos d : 0 < pow10 d.
Proof.
  unfold pow10. assert (0 < 10 ^ Z.of_nat d)%Z by (apply Z.pow_pos_nonneg; lia).
  unfold Qlt; cbn. lia.
Qed.

Lemma round_dec_bound d x : - ((1 # 2) / pow10 d) <= round_dec d x - x <= (1 # 2) / pow10 d.
Proof.
  unfold round_dec. pose proof (pow10_pos d) as P. pose proof (rhe_bound (x * pow10 d)) as B.
  set (r := inject_Z (rhe (x * pow10 d))) in *.
  assert (E : r / pow10 d - x == (r - x * pow10 d) / pow10 d) by (field; lra).
  rewrite E. clear E. destruct B as [B1 B2]. split.
  - apply Qle_shift_div_l; [exact P|]. 
    assert (E : - ((1 # 2) / pow10 d) * pow10 d == - (1 # 2)) by (field; lra). rewrite E. exact B1.
  - apply Qle_shift_div_r; [exact P|].
    assert (E : (1 # 2) / pow10 d * pow10 d == (1 # 2)) by (field; lra). rewrite E. exact B2.
Qed.

Lemma pow10_3 : pow10 3 == 1000. Proof. reflexivity. Qed.
Lemma pow10_1 : pow10 1 == 10. Proof. reflexivity. Qed.

Lemma lround_nth d l m : (m < List.length l)%nat -> nthq (lround d l) m = round_dec d (nthq l m).
Proof. intros H. unfold nthq, lround. apply nth_map_lt; exact H. Qed.

(* the breakdown the interpreter keeps (stored_food and outdoor_crops rounded to 3 decimals) against the headline *)
Lemma report_rounded x e i : report x = Ok (e, i) ->
  let s m := nthq (p_sf i) m + nthq (p_cr i) m + nthq (p_sw i) m + nthq (p_cs i) m + nthq (p_scp i) m +
             nthq (p_gh i) m + nthq (p_fish i) m + nthq (p_meat i) m + nthq (p_milk i) m in
  let kept m := nthq (q_sf i) m + nthq (q_cr i) m + nthq (p_sw i) m + nthq (p_cs i) m + nthq (p_scp i) m +
             nthq (p_gh i) m + nthq (p_fish i) m + nthq (p_meat i) m + nthq (p_milk i) m in
  forall m, (m < List.length (p_sf i))%nat ->
    - (1 # 1000) <= kept m - s m <= 1 # 1000 /\
    - (5 # 10000) <= nthq (q_sf i) m - nthq (p_sf i) m <= 5 # 10000 /\
    - (5 # 10000) <= nthq (q_cr i) m - nthq (p_cr i) m <= 5 # 10000 /\
    - (5 # 10000) <= nthq (q_sw i) m - nthq (p_sw i) m <= 5 # 10000.
Proof.
  intros R s kept m Hm. destruct (report_inv _ _ _ R) as [HE HI].
  destruct (interpret_inv _ _ _ HI) as
    (_ & _ & _ & _ & _ & _ & _ & _ & _ & _ & _ & _ & _ & L & Q1 & Q2 & _ & _ & Q5 & _).
  repeat (apply andb_prop in L; destruct L as [L ?]).
  repeat match goal with H : same_len _ _ = true |- _ => apply same_len_eq in H end.
  pose proof (round_dec_bound 3 (nthq (p_sf i) m)) as B1.
  pose proof (round_dec_bound 3 (nthq (p_cr i) m)) as B2.
  pose proof (round_dec_bound 3 (nthq (p_sw i) m)) as B3.
  assert (E : (1 # 2) / pow10 3 == 5 # 10000) by reflexivity.
  rewrite E in B1, B2, B3.
  unfold kept, s. rewrite Q1, Q2, Q5. rewrite !lround_nth by lia. lra.
Qed.

(* ---------- split, in the reporting units ---------- *)
Lemma report_split x e i : report x = Ok (e, i) -> positive_settings (r_conv x) -> 0 < r_km x ->
  forall m, (m < r_n x)%nat ->
  (nthq (e_imm e) m + nthq (e_ns e) m == nthq (e_cr e) m /\ 0 <= nthq (e_ns e) m) /\
  (nthq (p_imm i) m + nthq (p_ns i) m == nthq (p_cr i) m /\ 0 <= nthq (p_ns i) m) /\
  (nthq (k_imm i) m + nthq (k_ns i) m == m_bf_ke (r_conv x) * nthq (e_cr e) m /\ 0 <= nthq (k_ns i) m).
Proof.
  intros R P K m Hm. destruct (report_inv _ _ _ R) as [HE HI].
  destruct (extract_split _ _ HE K m Hm) as [A B].
  destruct (interpret_inv _ _ _ HI) as
    (_ & I2 & _ & _ & _ & _ & _ & _ & _ & I10 & I11 & _ & _ & _ & _ & _ & _ & _ & _ &
     _ & _ & _ & _ & _ & _ & _ & K8 & K9 & _).
  pose proof (m_bf_pct_pos _ P) as PP. pose proof (m_bf_ke_pos _ P) as PK.
  split; [split; assumption|]. split.
  - rewrite I2, I10, I11, !nthq_lscale. split; [rewrite <- A; ring|].
    apply Qmult_le_0_compat; [lra|exact B].
  - rewrite K8, K9, !nthq_lscale. split; [rewrite <- A; ring|].
    apply Qmult_le_0_compat; [lra|exact B].
Qed.

(* ---------- floor carried by the tie-breaking solves ---------- *)
Lemma report_floor i c a v e ii : lp_settings_ok i c -> Feasible2 i ToHumans v a ->
  report (report_in i c a) = Ok (e, ii) ->
  (99995 # 100000) * v <= headline ii /\ a Obj 0%nat <= headline ii.
Proof.
  intros H F R. destruct F as [F1 F2].
  destruct (report_lp_headline i c a e ii H (feasible_consumed_rows i a F1) R) as [_ (m & Hm & E)].
  rewrite E. split; [apply (floor_rows i v a (conj F1 F2) m Hm)|apply (objective_rows i a F1 m Hm)].
Qed.

Lemma within_tolerance v h : (99995 # 100000) * v <= h -> h <= v ->
  0 <= v - h /\ v - h <= (5 # 100000) * v /\ (0 < v -> (v - h) / v < 1 # 10000).
Proof.
  intros A B. repeat split; try lra. intros V.
  apply Qlt_shift_div_r; [exact V|]. lra.
Qed.

(* ---------- the headline never exceeds the optimum of the first solve ---------- *)
Definition is_obj (s : slot) : bool := match s with Obj => true | _ => false end.
Definition no_obj (l : list (Q * var)) : bool := forallb (fun cv => negb (is_obj (fst (snd cv)))) l.
Definition set_obj (a : assignment) (h : Q) : assignment := fun s m => match s with Obj => h | _ => a s m end.

Lemma eval_set_obj a h l : no_obj l = true -> eval (set_obj a h) l = eval a l.
Proof.
  induction l as [|[c [s m]] l IH]; cbn; [reflexivity|]. intros H. apply andb_prop in H. destruct H as [H1 H2].
  rewrite (IH H2). destruct s; cbn in *; try reflexivity; discriminate.
Qed.

Lemma sat_set_obj a h r : no_obj (lhs r) = true -> sat a r -> sat (set_obj a h) r.
Proof. intros N S. unfold sat in *. rewrite (eval_set_obj a h _ N). exact S. Qed.

Definition row_no_obj (r : row) : Prop := no_obj (lhs r) = true.

Lemma no_obj_app l1 l2 : no_obj (l1 ++ l2) = no_obj l1 && no_obj l2.
Proof. unfold no_obj. apply forallb_app. Qed.

Lemma feed_terms_no_obj i c m : no_obj (feed_terms i c m) = true.
Proof. unfold feed_terms, opt. destruct (add_sf i), (add_cr i), (add_sw i), (add_cs i), (add_scp i); reflexivity. Qed.
Lemma biofuel_terms_no_obj i c m : no_obj (biofuel_terms i c m) = true.
Proof. unfold biofuel_terms, opt. destruct (add_sf i), (add_cr i), (add_sw i), (add_cs i), (add_scp i); reflexivity. Qed.
Lemma human_terms_no_obj i c m : no_obj (human_terms i c m) = true.
Proof. unfold human_terms, opt. destruct (add_sf i), (add_cr i), (add_sw i), (add_meat i), (add_cs i), (add_scp i); reflexivity. Qed.

Ltac brk := repeat match goal with
  | |- context[if ?b then _ else _] => destruct b
  | |- context[match ?m with O => _ | S _ => _ end] => destruct m
  end.
Ltac fin := cbn; repeat (apply Forall_cons || apply Forall_nil); try reflexivity.

Ltac res_step :=
  match goal with |- Forall _ (if ?b then _ else _) => destruct b; [|apply Forall_nil] end;
  apply Forall_flat_map; apply Forall_forall; intros m _; (apply Forall_app; split; [|apply Forall_nil]).

Lemma resource_rows_no_obj i : Forall row_no_obj (resource_rows i ToHumans).
Proof.
  unfold resource_rows.
  repeat (apply Forall_app; split); res_step.
  - unfold rows_seaweed. destruct m; fin.
  - unfold rows_crops. destruct m; [fin|]. destruct (Nat.eqb (S m) (NM i - 1)); fin.
  - unfold rows_sf, sf_eaten_row. destruct (store_years i); destruct m; try (destruct (Nat.eqb (S m) (NM i - 1))); 
      try (destruct (Nat.ltb 12 (S m))); fin.
  - unfold rows_meat. destruct (store_years i); destruct m; fin.
  - unfold rows_scp. fin.
  - unfold rows_cs. fin.
Qed.

Lemma middle_rows_no_obj i :
  Forall row_no_obj (flat_map (fun m => rows_feed_biofuel i ToHumans m ++ rows_consumed i ToHumans m ++ rows_caps i ToHumans m) (months i)).
Proof.
  apply Forall_flat_map; apply Forall_forall; intros m _.
  repeat (apply Forall_app; split).
  - unfold rows_feed_biofuel. destruct (has_nonhuman i); [|apply Forall_nil].
    repeat apply Forall_cons; try apply Forall_nil; unfold row_no_obj; cbn [lhs mk];
      [apply feed_terms_no_obj|apply biofuel_terms_no_obj].
  - cbn. apply Forall_cons; [|apply Forall_nil]. unfold row_no_obj; cbn [lhs mk].
    change (no_obj (t 1 Consumed m :: human_terms i (- (100 / need i)) m)) with (true && no_obj (human_terms i (- (100 / need i)) m)).
    now rewrite human_terms_no_obj.
  - destruct (add_sw i); [|apply Forall_nil]. unfold rows_caps_food. fin.
  - destruct (add_scp i); [|apply Forall_nil]. unfold rows_caps_food. fin.
  - destruct (add_cs i); [|apply Forall_nil]. unfold rows_caps_food. fin.
Qed.

Lemma feasible_set_obj i a h : Feasible i ToHumans a -> 0 <= h ->
  (forall m, (m < NM i)%nat -> h <= a Consumed m) -> Feasible i ToHumans (set_obj a h).
Proof.
  intros [NN F] H0 Hle. split.
  - intros s m. destruct s; cbn; try apply NN. exact H0.
  - unfold build in *. apply Forall_app in F. destruct F as [F1 F]. apply Forall_app in F. destruct F as [F2 F3].
    apply Forall_app; split; [|apply Forall_app; split].
    + pose proof (resource_rows_no_obj i) as N. rewrite Forall_forall in *. intros r Hr. apply sat_set_obj; auto. apply N; exact Hr.
    + pose proof (middle_rows_no_obj i) as N. rewrite Forall_forall in *. intros r Hr. apply sat_set_obj; auto. apply N; exact Hr.
    + cbn. apply Forall_forall. intros r Hr. apply in_map_iff in Hr. destruct Hr as (m & <- & Hm).
      unfold months in Hm. apply in_seq in Hm. unfold sat; cbn. specialize (Hle m ltac:(lia)). lra.
Qed.

(* v is the optimum of the first solve: no feasible point has a larger objective value *)
Definition first_optimum (i : lp_in) (v : Q) : Prop := forall a', Feasible i ToHumans a' -> a' Obj 0%nat <= v.

Lemma headline_le_optimum i c a v e ii : lp_settings_ok i c -> Feasible i ToHumans a ->
  report (report_in i c a) = Ok (e, ii) -> first_optimum i v -> headline ii <= v.
Proof.
  intros H F R O.
  destruct (report_lp_headline i c a e ii H (feasible_consumed_rows i a F) R) as [Hle (m0 & Hm0 & E0)].
  assert (H0 : 0 <= headline ii) by (rewrite E0; apply (proj1 F)).
  specialize (O (set_obj a (headline ii)) (feasible_set_obj i a (headline ii) F H0 Hle)). exact O.
Qed.

(* ---------- the Extractor's own add-up assertions can never fire ---------- *)
Lemma zip_map {A} f (g h : A -> Q) L : zip_with f (map g L) (map h L) = map (fun m => f (g m) (h m)) L.
Proof. induction L; cbn; [reflexivity|]. now rewrite IHL. Qed.

Lemma forallb_map_in {A} (p : Q -> bool) (F : A -> Q) L :
  (forall m, In m L -> p (F m) = true) -> forallb p (map F L) = true.
Proof.
  intros H. apply forallb_forall. intros d Hd. apply in_map_iff in Hd. destruct Hd as (m & <- & Hm). auto.
Qed.

Lemma small_ok d : d == 0 -> Qle_bool (Qabs'' d) (1 # 1000) = true.
Proof.
  intros E. apply Qle_bool_iff. unfold Qabs''. destruct (Qle_bool 0 d); rewrite E; lra.
Qed.

Lemma rhe_comp x y : x == y -> rhe x = rhe y.
Proof. intros E. unfold rhe. rewrite (Qfloor_comp _ _ E). now rewrite E. Qed.

Lemma round0_ok d : d == 0 -> Qeq_bool (round_dec 3 d) 0 = true.
Proof.
  intros E. apply Qeq_bool_iff. unfold round_dec.
  assert (E' : d * pow10 3 == 0 * pow10 3) by now rewrite E.
  rewrite (rhe_comp _ _ E'). reflexivity.
Qed.

Lemma forallb_repeat (p : Q -> bool) x k : p x = true -> forallb p (repeat x k) = true.
Proof. intros H. induction k; cbn; [reflexivity|]. now rewrite H, IHk. Qed.

Lemma zip_repeat f x y k : zip_with f (repeat x k) (repeat y k) = repeat (f x y) k.
Proof. induction k; cbn; [reflexivity|]. now rewrite IHk. Qed.

Lemma extract_never_assert x : extract x <> Rejected AssertRejected.
Proof.
  unfold extract, extract_gen.
  destruct (negb (same_len _ _ && same_len _ _)); [discriminate|].
  set (ph := crop_production_for_humans true (r_crops_prod x) (create_food_kcals (r_n x) (r_km x) (v_cr_f x)) (create_food_kcals (r_n x) (r_km x) (v_cr_b x))).
  destruct (v_cr_h x) as [k|vals]; cbn [is_modelled negb andb varlen].
  - destruct (Qeq_bool (lsum ph) 0); [|discriminate].
    unfold create_food_kcals, to_monthly_list, sources_add_up, growing_production_ok, all_b, lsub, ladd.
    rewrite !zip_repeat. rewrite !forallb_repeat by reflexivity. cbn. discriminate.
  - unfold split_series. rewrite !map_map.
    unfold create_food_kcals, to_monthly_list, sources_add_up, growing_production_ok, all_b, lsub, ladd.
    rewrite !zip_map.
    assert (IN : forall m, In m (seq 0 (r_n x)) -> nthq (map (var_at (Vars vals)) (seq 0 (r_n x))) m = nthq vals m).
    { intros m Hm. apply in_seq in Hm. unfold nthq. rewrite nth_map_seq by lia. reflexivity. }
    rewrite forallb_map_in.
    2:{ intros m Hm. apply small_ok. rewrite (IN m Hm). rewrite split_month_adds_up. ring. }
    rewrite forallb_map_in.
    2:{ intros m Hm. apply round0_ok. rewrite (IN m Hm). rewrite split_month_adds_up. ring. }
    cbn. discriminate.
Qed.

(* ---------- feed / biofuel sums handed to the next round ---------- *)
Lemma pct_ke_bk_formula c : positive_settings c ->
  m_ke_bk c * (m_pct_ke c * m_bf_pct c) == kcals_monthly c.
Proof.
  intros (A & B & C & D).
  change (m_ke_bk c) with (conversion_formula
     ((kcal_billion_kcal_to_billion_people c) * (kcal_billion_people_to_kcals_equivalent c)) 1).
  change (m_pct_ke c) with (conversion_formula (kcal_billion_kcal_to_percent_fed c)
     ((kcal_billion_kcal_to_billion_people c) * (kcal_billion_people_to_kcals_equivalent c))).
  rewrite m_bf_pct_eq. unfold conversion_formula. unfold_units. field. qnz.
Qed.

Lemma use_ke_len x v r : varlen v = f_n x -> List.length (use_ke x v r) = f_n x.
Proof. intros H. unfold use_ke, lscale. rewrite !map_length. apply to_monthly_list_len; exact H. Qed.

Lemma use_ke_back x v r m : positive_settings (f_conv x) -> f_km x == kcals_monthly (f_conv x) -> (m < f_n x)%nat ->
  m_ke_bk (f_conv x) * nthq (use_ke x v r) m == r * var_at v m.
Proof.
  intros P K Hm. unfold use_ke. rewrite !nthq_lscale, to_monthly_list_nth by exact Hm.
  pose proof (pct_ke_bk_formula _ P) as F. pose proof (km_pos _ P) as KP.
  transitivity (var_at v m * (r / f_km x) * (m_ke_bk (f_conv x) * (m_pct_ke (f_conv x) * m_bf_pct (f_conv x)))); [ring|].
  rewrite F, K. field. intro HE; lra.
Qed.

Lemma sum5_nth a b c d e m n : List.length a = n -> List.length b = n -> List.length c = n -> List.length d = n ->
  List.length e = n -> (m < n)%nat ->
  nthq (sum5 a b c d e) m = nthq a m + nthq b m + nthq c m + nthq d m + nthq e m.
Proof.
  intros La Lb Lc Ld Le H. unfold sum5.
  assert (A1 := ladd_len a b ltac:(lia)).
  assert (A2 := ladd_len (ladd a b) c ltac:(lia)).
  assert (A3 := ladd_len (ladd (ladd a b) c) d ltac:(lia)).
  rewrite !ladd_nth by lia. reflexivity.
Qed.

Lemma feed_sum_link i c a : lp_settings_ok i c -> forall m, (m < NM i)%nat ->
  nthq (back_to_bk c (feed_sum_ke (fb_of i c a))) m == feed_sum i a m /\
  nthq (back_to_bk c (biofuels_sum_ke (fb_of i c a))) m == biofuel_sum i a m.
Proof.
  intros (P & K & _) m Hm. unfold back_to_bk, feed_sum_ke, biofuels_sum_ke. rewrite !nthq_lscale.
  set (x := fb_of i c a).
  assert (Hn : f_n x = NM i) by reflexivity.
  assert (L : forall add s r, List.length (use_ke x (vars_of i a add s) r) = NM i).
  { intros. rewrite use_ke_len; [exact Hn|apply varlen_vars_of]. }
  assert (B : forall add s r, m_ke_bk c * nthq (use_ke x (vars_of i a add s) r) m == r * bsel add (a s m)).
  { intros add s r. rewrite <- (var_at_vars_of i a add s m Hm).
    apply (use_ke_back x (vars_of i a add s) r m P K). rewrite Hn; exact Hm. }
  split.
  - cbn [x fb_of vf_cs vf_scp vf_sw vf_cr vf_sf f_sw_kcals].
    rewrite (sum5_nth _ _ _ _ _ m (NM i)) by (try apply L; exact Hm).
    rewrite !Qmult_plus_distr_r, !B. unfold feed_sum, bq, bsel. destruct (add_sw i); ring.
  - cbn [x fb_of vb_cs vb_scp vb_sw vb_cr vb_sf f_sw_kcals].
    rewrite (sum5_nth _ _ _ _ _ m (NM i)) by (try apply L; exact Hm).
    rewrite !Qmult_plus_distr_r, !B. unfold biofuel_sum, bq, bsel. destruct (add_sw i); ring.
Qed.

Lemma rows_feed_biofuel_in_build i ty m : (m < NM i)%nat ->
  forall r, In r (rows_feed_biofuel i ty m) -> In r (build i ty).
Proof.
  intros H r Hr. unfold build. apply in_or_app; right. apply in_or_app; left.
  apply in_flat_map. exists m. split; [unfold months; apply in_seq; lia|].
  apply in_or_app; left. exact Hr.
Qed.

(* corollary: in a human round the reported sums, converted back, are the round's charge *)
Lemma feed_sum_link_charge i c a : lp_settings_ok i c -> Feasible i ToHumans a -> has_nonhuman i = true ->
  forall m, (m < NM i)%nat ->
  nthq (back_to_bk c (feed_sum_ke (fb_of i c a))) m == at_ (feed_charge i) m /\
  nthq (back_to_bk c (biofuels_sum_ke (fb_of i c a))) m == at_ (biofuel_charge i) m.
Proof.
  intros H [_ F] R m Hm. destruct (feed_sum_link i c a H m Hm) as [A B].
  assert (S : Forall (sat a) (rows_feed_biofuel i ToHumans m)).
  { rewrite Forall_forall in *. intros r Hr. apply F. apply (rows_feed_biofuel_in_build i ToHumans m Hm r Hr). }
  apply (sat_rows_feed_biofuel_humans i a m R) in S. destruct S as [S1 S2].
  rewrite A, B. split; assumption.
Qed.

(* ---------- after the clamp fix: the part of the crops eaten immediately is never negative ---------- *)
Lemma Qmax0_nonneg v : 0 <= Qmax0 v.
Proof. unfold Qmax0. destruct (Qle_bool 0 v) eqn:E; [now apply Qle_bool_iff|lra]. Qed.

Lemma prod_h_nonneg x m : 0 <= nthq (prod_h x) m.
Proof.
  unfold prod_h, crop_production_for_humans, nthq.
  set (d := lsub _ _). clearbody d. revert m; induction d; intros [|m]; cbn; try lra; [apply Qmax0_nonneg|apply IHd].
Qed.

Lemma split_month_imm_nonneg produced eaten k : 0 <= produced -> 0 <= eaten -> 0 <= k ->
  0 <= fst (split_month produced eaten k).
Proof.
  intros P E K. unfold split_month. destruct (Qle_bool produced eaten); cbn; apply Qmult_le_0_compat; assumption.
Qed.

Lemma extract_imm_nonneg x e : extract x = Ok e -> 0 < r_km x -> forall m, (m < r_n x)%nat ->
  0 <= var_at (v_cr_h x) m -> 0 <= nthq (e_imm e) m.
Proof.
  intros HE K m Hm V. destruct (extract_inv _ _ HE) as (_ & _ & _ & _ & _ & _ & _ & _ & _ & S).
  destruct (is_modelled (v_cr_h x)) eqn:M.
  - unfold split_series in S. injection S as -> _. unfold nthq.
    rewrite !map_map. rewrite !nth_map_seq by exact Hm. cbn beta. cbn [plus]. rewrite ?nth_map_seq by exact Hm. cbn [plus].
    apply split_month_imm_nonneg; [apply prod_h_nonneg|exact V|].
    apply Qlt_le_weak. apply Qdiv_pos; [reflexivity|exact K].
  - destruct S as [-> _]. unfold nthq. rewrite nth_repeat0. lra.
Qed.

(* in the reporting units: percent and the saved column *)
Lemma report_imm_nonneg x e i : report x = Ok (e, i) -> positive_settings (r_conv x) -> 0 < r_km x ->
  forall m, (m < r_n x)%nat -> 0 <= var_at (v_cr_h x) m ->
  0 <= nthq (e_imm e) m /\ 0 <= nthq (p_imm i) m /\ 0 <= nthq (k_imm i) m.
Proof.
  intros R P K m Hm V. destruct (report_inv _ _ _ R) as [HE HI].
  pose proof (extract_imm_nonneg _ _ HE K m Hm V) as A.
  destruct (interpret_inv _ _ _ HI) as
    (_ & _ & _ & _ & _ & _ & _ & _ & _ & I10 & _ & _ & _ & _ & _ & _ & _ & _ & _ &
     _ & _ & _ & _ & _ & _ & _ & K8 & _).
  pose proof (m_bf_pct_pos _ P) as PP. pose proof (m_bf_ke_pos _ P) as PK.
  split; [exact A|]. rewrite I10, K8, !nthq_lscale.
  split; apply Qmult_le_0_compat; lra.
Qed.

(* for the allocation of the LP: every feasible assignment *)
Lemma report_lp_imm_nonneg i c a e ii : lp_settings_ok i c -> nonneg a ->
  report (report_in i c a) = Ok (e, ii) -> forall m, (m < NM i)%nat ->
  0 <= nthq (e_imm e) m /\ 0 <= nthq (p_imm ii) m /\ 0 <= nthq (k_imm ii) m.
Proof.
  intros (P & K & _) NN R m Hm.
  apply (report_imm_nonneg (report_in i c a) e ii R P); [cbn; rewrite K; apply km_pos; exact P|exact Hm|].
  cbn [report_in v_cr_h]. rewrite var_at_vars_of by exact Hm. unfold bsel. destruct (add_cr i); [apply NN|lra].
Qed.
