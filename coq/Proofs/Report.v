(* lemmas about Model/Report.v (C04) *)
From Coq Require Import QArith Qround Lqa Lia List String Bool Arith ZArith.
From Allfed Require Import Base.StrUtil Gen.UnitTables Model.Units Model.LP Model.Report Proofs.Units.
Import ListNotations.
Open Scope Q_scope.

Lemma Qle_bool_false x y : Qle_bool x y = false -> y < x.
Proof.
  intro H. destruct (Qlt_le_dec y x) as [L|L]; [exact L|].
  apply Qle_bool_iff in L. congruence.
Qed.

(* both branches of to_monthly_list_outdoor_crops_kcals, any produced / eaten / conversion *)
Lemma split_month_adds_up produced eaten k :
  fst (split_month produced eaten k) + snd (split_month produced eaten k) == eaten * k.
Proof. unfold split_month. destruct (Qle_bool produced eaten); cbn; ring. Qed.
