(* C01 at the level of what is REPORTED: composition of the LP theorems of Proofs/LP_C01.v (feasible assignments)
   with the Extractor / Interpreter model of Model/Report.v (Proofs/Report.v).
   Reported unit: kcals per person per day (the ten saved columns k_* of `interpreted`, and the per-food feed /
   biofuel series use_ke of the hand-off model); the explicit factor back to billion kcals per month is
   K = m_ke_bk c  (= in_units_bil_kcals_thou_tons_thou_tons_per_month; K == 30 * population / 1e9).
   Percent series p_* are covered by the sign statements. *)
From Coq Require Import QArith Qround Lqa Lia List String Bool Arith ZArith.
From Allfed Require Import Base.StrUtil Gen.UnitTables Model.Units Model.LP Model.LPBool Model.Report
  Proofs.Units Proofs.LPChar Proofs.LPBoolSound Proofs.LP_C01 Proofs.Report.
Import ListNotations.
Open Scope Q_scope.

Lemma m_ke_bk_formula c : positive_settings c -> m_ke_bk c == 30 * population c / 1000000000.
Proof.
  intros (A & B & C & D).
  change (m_ke_bk c) with (conversion_formula
     ((kcal_billion_kcal_to_billion_people c) * (kcal_billion_people_to_kcals_equivalent c)) 1).
  unfold conversion_formula. unfold_units. field. qnz.
Qed.

Lemma m_ke_bk_pos c : positive_settings c -> 0 < m_ke_bk c.
Proof. intros P. rewrite (m_ke_bk_formula c P). destruct P as (A & B & C & D). apply Qdiv_pos; lra. Qed.

Lemma scaled_nonneg k x v : 0 < k -> k * x == v -> 0 <= v -> 0 <= x.
Proof.
  intros K E V. assert (X : x == v / k) by (rewrite <- E; field; lra). rewrite X.
  apply Qle_shift_div_l; [exact K|lra].
Qed.

Lemma bsel_nonneg b v : 0 <= v -> 0 <= bsel b v.
Proof. destruct b; cbn; lra. Qed.

(* the reported series of one food: people's share (saved column), feed, biofuel - kcals per person per day *)
Section Reported.
  Variables (i : lp_in) (c : conv) (a : assignment) (e : extracted) (ii : interpreted).
  Hypothesis S : lp_settings_ok i c.
  Hypothesis R : report (report_in i c a) = Ok (e, ii).

  Let K := m_ke_bk c.
  Let x := fb_of i c a.

  (* reported per-source series, month m *)
  Definition rh_sf m := nthq (k_sf ii) m.
  Definition rh_cr m := nthq (k_imm ii) m + nthq (k_ns ii) m.     (* eaten immediately + eaten from new storage *)
  Definition rh_sw m := nthq (k_sw ii) m.
  Definition rh_cs m := nthq (k_cs ii) m.
  Definition rh_scp m := nthq (k_scp ii) m.
  Definition rh_meat m := nthq (k_meat ii) m.
  Definition rf_sf m := nthq (use_ke x (vf_sf x) 1) m.
  Definition rf_cr m := nthq (use_ke x (vf_cr x) 1) m.
  Definition rf_sw m := nthq (use_ke x (vf_sw x) (f_sw_kcals x)) m.
  Definition rf_cs m := nthq (use_ke x (vf_cs x) 1) m.
  Definition rf_scp m := nthq (use_ke x (vf_scp x) 1) m.
  Definition rb_sf m := nthq (use_ke x (vb_sf x) 1) m.
  Definition rb_cr m := nthq (use_ke x (vb_cr x) 1) m.
  Definition rb_sw m := nthq (use_ke x (vb_sw x) (f_sw_kcals x)) m.
  Definition rb_cs m := nthq (use_ke x (vb_cs x) 1) m.
  Definition rb_scp m := nthq (use_ke x (vb_scp x) 1) m.

  (* reported use of a food in month m, people's share grossed up for retail waste - still in the reported unit *)
  Definition rep_sf_use m := gross (w_sf i) * rh_sf m + rf_sf m + rb_sf m.
  Definition rep_cr_use m := gross (w_cr i) * rh_cr m + rf_cr m + rb_cr m.
  Definition rep_sw_use m := gross (w_sw i) * rh_sw m + rf_sw m + rb_sw m.
  Definition rep_cs_use m := gross (w_cs i) * rh_cs m + rf_cs m + rb_cs m.
  Definition rep_scp_use m := gross (w_scp i) * rh_scp m + rf_scp m + rb_scp m.
  Definition rep_meat_use m := gross (w_meat i) * rh_meat m.

  Let P : positive_settings c := proj1 S.
  Let SO : settings_ok (report_in i c a) := conj (proj1 S) (proj1 (proj2 S)).

  Lemma K_pos : 0 < K.
  Proof. apply m_ke_bk_pos; exact P. Qed.

  Lemma K_factor : K * (1000000000 / (30 * population c)) == 1.
  Proof. unfold K. rewrite (m_ke_bk_formula c P). destruct (proj1 S) as (A & B & C & D). field. lra. Qed.

  (* ---- each reported number, converted back, is the LP variable it reports ---- *)
  Lemma back_humans m : (m < NM i)%nat ->
    K * rh_sf m == bsel (add_sf i) (a SF_h m) /\ K * rh_cr m == bsel (add_cr i) (a CR_h m) /\
    K * rh_sw m == sw_kcals i * bsel (add_sw i) (a SW_h m) /\ K * rh_cs m == bsel (add_cs i) (a CS_h m) /\
    K * rh_scp m == bsel (add_scp i) (a SCP_h m) /\ K * rh_meat m == bsel (add_meat i) (a M_eaten m).
  Proof.
    intros Hm. pose proof K_factor as KF.
    destruct (report_conversion _ _ _ R SO m Hm) as (_ & C1 & C2 & C3 & C4 & C5 & _).
    cbn [report_in r_conv r_sw_kcals v_sf_h v_sw_h v_cs_h v_scp_h v_meat] in C1, C2, C3, C4, C5.
    rewrite !var_at_vars_of in C1, C2, C3, C4, C5 by exact Hm.
    assert (G : forall v, K * (v * 1000000000 / (30 * population c)) == v).
    { intros v. transitivity (v * (K * (1000000000 / (30 * population c)))); [|rewrite KF; ring].
      destruct (proj1 S) as (A & B & C & D). field. lra. }
    unfold rh_sf, rh_sw, rh_cs, rh_scp, rh_meat. rewrite C1, C2, C3, C4, C5, !G.
    repeat split; try ring.
    (* crops: the two saved columns add up to the crops eaten *)
    assert (KM : 0 < r_km (report_in i c a)).
    { cbn. rewrite (proj1 (proj2 S)). apply km_pos; exact P. }
    destruct (report_split _ _ _ R P KM m Hm) as (_ & _ & (E1 & _)).
    destruct (report_inv _ _ _ R) as [HE _].
    destruct (extract_inv _ _ HE) as (_ & _ & _ & _ & _ & _ & E7 & _).
    unfold rh_cr. cbn [r_conv report_in] in E1. rewrite E1, E7. unfold create_food_kcals.
    rewrite to_monthly_list_nth by exact Hm. cbn [report_in v_cr_h r_km r_n].
    rewrite var_at_vars_of by exact Hm.
    pose proof (ke_formula c (kcals_monthly_pp i) 1 P (proj1 (proj2 S))) as F.
    transitivity (bsel (add_cr i) (a CR_h m) * (K * (m_bf_ke c * (1 / kcals_monthly_pp i)))); [ring|].
    rewrite F. transitivity (bsel (add_cr i) (a CR_h m) * (K * (1000000000 / (30 * population c)))).
    - destruct (proj1 S) as (A & B & C & D). field. lra.
    - rewrite KF. ring.
  Qed.

  Lemma back_use (add : bool) (s : slot) r m : (m < NM i)%nat ->
    K * nthq (use_ke x (vars_of i a add s) r) m == r * bsel add (a s m).
  Proof.
    intros Hm. rewrite <- (var_at_vars_of i a add s m Hm).
    apply (use_ke_back x (vars_of i a add s) r m P (proj1 (proj2 S))). exact Hm.
  Qed.

  Lemma back_feed_biofuel m : (m < NM i)%nat ->
    (K * rf_sf m == bsel (add_sf i) (a SF_f m) /\ K * rf_cr m == bsel (add_cr i) (a CR_f m) /\
     K * rf_sw m == sw_kcals i * bsel (add_sw i) (a SW_f m) /\ K * rf_cs m == bsel (add_cs i) (a CS_f m) /\
     K * rf_scp m == bsel (add_scp i) (a SCP_f m)) /\
    (K * rb_sf m == bsel (add_sf i) (a SF_b m) /\ K * rb_cr m == bsel (add_cr i) (a CR_b m) /\
     K * rb_sw m == sw_kcals i * bsel (add_sw i) (a SW_b m) /\ K * rb_cs m == bsel (add_cs i) (a CS_b m) /\
     K * rb_scp m == bsel (add_scp i) (a SCP_b m)).
  Proof.
    intros Hm. unfold rf_sf, rf_cr, rf_sw, rf_cs, rf_scp, rb_sf, rb_cr, rb_sw, rb_cs, rb_scp.
    cbn [x fb_of vf_sf vf_cr vf_sw vf_cs vf_scp vb_sf vb_cr vb_sw vb_cs vb_scp f_sw_kcals].
    rewrite !back_use by exact Hm. repeat split; ring.
  Qed.

  (* reported uses, converted back, are the ledger uses of Proofs/LP_C01.v *)
  Lemma back_uses m : (m < NM i)%nat ->
    (add_sf i = true -> K * rep_sf_use m == sf_use i a m) /\
    (add_cr i = true -> K * rep_cr_use m == cr_use i a m) /\
    (add_sw i = true -> K * rep_sw_use m == sw_kcals i * sw_use i a m) /\
    (add_cs i = true -> K * rep_cs_use m == cs_use i a m) /\
    (add_scp i = true -> K * rep_scp_use m == scp_use i a m) /\
    (add_meat i = true -> K * rep_meat_use m == meat_use i a m).
  Proof.
    intros Hm. destruct (back_humans m Hm) as (H1 & H2 & H3 & H4 & H5 & H6).
    destruct (back_feed_biofuel m Hm) as ((F1 & F2 & F3 & F4 & F5) & (B1 & B2 & B3 & B4 & B5)).
    unfold rep_sf_use, rep_cr_use, rep_sw_use, rep_cs_use, rep_scp_use, rep_meat_use,
           sf_use, cr_use, sw_use, cs_use, scp_use, meat_use.
    repeat split; intros Hb; rewrite Hb in *; cbn [bsel] in *.
    - transitivity (gross (w_sf i) * (K * rh_sf m) + K * rf_sf m + K * rb_sf m); [ring|]. rewrite H1, F1, B1. reflexivity.
    - transitivity (gross (w_cr i) * (K * rh_cr m) + K * rf_cr m + K * rb_cr m); [ring|]. rewrite H2, F2, B2. reflexivity.
    - transitivity (gross (w_sw i) * (K * rh_sw m) + K * rf_sw m + K * rb_sw m); [ring|]. rewrite H3, F3, B3. ring.
    - transitivity (gross (w_cs i) * (K * rh_cs m) + K * rf_cs m + K * rb_cs m); [ring|]. rewrite H4, F4, B4. reflexivity.
    - transitivity (gross (w_scp i) * (K * rh_scp m) + K * rf_scp m + K * rb_scp m); [ring|]. rewrite H5, F5, B5. reflexivity.
    - transitivity (gross (w_meat i) * (K * rh_meat m)); [ring|]. rewrite H6. reflexivity.
  Qed.
End Reported.

(* ================================================================== *)
(* the ledger theorems of C01, stated on the reported numbers          *)
(* ================================================================== *)
Section Ledger.
  Variables (i : lp_in) (c : conv) (ty : opt_type) (a : assignment) (e : extracted) (ii : interpreted).
  Hypothesis HS : lp_settings_ok i c.
  Hypothesis F : Feasible i ty a.
  Hypothesis R : report (report_in i c a) = Ok (e, ii).

  Let K := m_ke_bk c.

  (* (2) monthly foods: reported use (people grossed up + feed + biofuel), back in billion kcals, within the month's output *)
  Lemma rl_scp : add_scp i = true -> forall m, (m < NM i)%nat ->
    K * rep_scp_use i c a ii m <= at_ (scp_prod i) m.
  Proof.
    intros Hb m Hm. destruct (back_uses i c a e ii HS R m Hm) as (_ & _ & _ & _ & E & _).
    unfold K. rewrite (E Hb). exact (lpc01_scp i ty a F Hb m Hm).
  Qed.

  Lemma rl_cs : add_cs i = true -> forall m, (m < NM i)%nat ->
    K * rep_cs_use i c a ii m <= at_ (cs_prod i) m.
  Proof.
    intros Hb m Hm. destruct (back_uses i c a e ii HS R m Hm) as (_ & _ & _ & E & _).
    unfold K. rewrite (E Hb). exact (lpc01_cs i ty a F Hb m Hm).
  Qed.

  (* (3) stocks: cumulative reported use *)
  Lemma rl_stored : add_sf i = true -> forall m, (m < NM i)%nat ->
    csum (fun k => K * rep_sf_use i c a ii k) m <= sf0 i.
  Proof.
    intros Hb m Hm. rewrite (csum_ext _ (sf_use i a) m).
    - exact (lpc01_stored i ty a F Hb m Hm).
    - intros k Hk. destruct (back_uses i c a e ii HS R k ltac:(lia)) as (E & _). exact (E Hb).
  Qed.

  Lemma rl_stored_after_first_year : add_sf i = true -> store_years i = false ->
    forall m, (12 < m)%nat -> (m < NM i)%nat -> rep_sf_use i c a ii m == 0.
  Proof.
    intros Hb Rg m H12 Hm. destruct (back_uses i c a e ii HS R m Hm) as (E & _). specialize (E Hb).
    destruct (lpc01_stored_after_first_year i ty a F Hb Rg m H12 Hm) as (Z1 & Z2 & Z3).
    unfold sf_use in E. rewrite Z1, Z2, Z3 in E.
    pose proof (K_pos i c HS) as KP. fold K in E.
    assert (X : rep_sf_use i c a ii m == (gross (w_sf i) * 0 + 0 + 0) / K) by (rewrite <- E; field; fold K in KP; lra).
    rewrite X. field. fold K in KP; lra.
  Qed.

  Lemma rl_crops : add_cr i = true -> forall m, (m < NM i)%nat ->
    csum (fun k => K * rep_cr_use i c a ii k) m <= csum (at_ (crops_prod i)) m.
  Proof.
    intros Hb m Hm. rewrite (csum_ext _ (cr_use i a) m).
    - exact (lpc01_crops_use i ty a F Hb m Hm).
    - intros k Hk. destruct (back_uses i c a e ii HS R k ltac:(lia)) as (_ & E & _). exact (E Hb).
  Qed.

  Lemma rl_meat_csum m : add_meat i = true -> (m < NM i)%nat ->
    csum (fun k => K * rep_meat_use i ii k) m == csum (meat_use i a) m.
  Proof.
    intros Hb Hm. apply csum_ext. intros k Hk.
    destruct (back_uses i c a e ii HS R k ltac:(lia)) as (_ & _ & _ & _ & _ & E). exact (E Hb).
  Qed.

  Lemma rl_meat_store : add_meat i = true -> store_years i = true -> forall m, (m < NM i)%nat ->
    csum (fun k => K * rep_meat_use i ii k) m <= at_ (meat_running i) m /\
    csum (fun k => K * rep_meat_use i ii k) m <= meat_total i.
  Proof. intros Hb Rg m Hm. rewrite (rl_meat_csum m Hb Hm). exact (lpc01_meat_store i ty a F Hb Rg m Hm). Qed.

  Lemma rl_meat_nostore : add_meat i = true -> store_years i = false -> forall m, (m < NM i)%nat ->
    K * rep_meat_use i ii m <= at_ (meat_monthly i) m.
  Proof.
    intros Hb Rg m Hm. destruct (back_uses i c a e ii HS R m Hm) as (_ & _ & _ & _ & _ & E).
    unfold K. rewrite (E Hb). exact (lpc01_meat_nostore i ty a F Hb Rg m Hm).
  Qed.

  Lemma rl_meat_slaughtered : add_meat i = true ->
    (store_years i = true -> forall m, (m < NM i)%nat -> at_ (meat_running i) m <= csum (at_ (meat_monthly i)) m) ->
    forall m, (m < NM i)%nat -> csum (fun k => K * rep_meat_use i ii k) m <= csum (at_ (meat_monthly i)) m.
  Proof. intros Hb H m Hm. rewrite (rl_meat_csum m Hb Hm). exact (lpc01_meat_slaughtered i ty a F Hb H m Hm). Qed.

  (* seaweed: the reported kcals are SEAWEED_KCALS times the wet tonnes of the farm ledger *)
  Lemma rl_seaweed : add_sw i = true -> 0 < sw_kcals i -> forall p, (S p < NM i)%nat ->
    a SW_wet (S p) ==
    a SW_wet p * (1 + at_ (growth i) (S p) / 100) - K * rep_sw_use i c a ii (S p) / sw_kcals i
    - (a SW_area (S p) - a SW_area p) * sw_min_density i * (sw_harvest_loss i / 100).
  Proof.
    intros Hb Hk p Hm. destruct (back_uses i c a e ii HS R (S p) Hm) as (_ & _ & E & _).
    unfold K. rewrite (E Hb), (lpc01_seaweed_ledger i ty a F Hb p Hm). field. lra.
  Qed.

  (* foods that are not variables: the reported series is the given supply *)
  Lemma rl_given m : (m < NM i)%nat ->
    K * nthq (k_fish ii) m == at_ (fish i) m /\ K * nthq (k_gh ii) m == at_ (greenhouse i) m /\
    K * nthq (k_milk ii) m == at_ (milk i) m.
  Proof.
    intros Hm. pose proof (K_factor i c a HS) as KF.
    assert (SO : settings_ok (report_in i c a)) by (split; [exact (proj1 HS)|exact (proj1 (proj2 HS))]).
    destruct (report_conversion _ _ _ R SO m Hm) as (_ & _ & _ & _ & _ & _ & C6 & C7 & C8).
    cbn [report_in r_conv r_greenhouse r_fish r_milk] in C6, C7, C8.
    rewrite !nthq_padded in C6, C7, C8 by exact Hm.
    assert (G : forall v, K * (v * 1000000000 / (30 * population c)) == v).
    { intros v. transitivity (v * (m_ke_bk c * (1000000000 / (30 * population c)))); [|rewrite KF; ring].
      unfold K. destruct (proj1 HS) as (A & B & C & D). field. lra. }
    rewrite C6, C7, C8, !G. repeat split; reflexivity.
  Qed.

  (* (1) signs *)
  Lemma rl_nonneg : 0 <= sw_kcals i -> forall m, (m < NM i)%nat ->
    (0 <= rh_sf ii m /\ 0 <= rh_cr ii m /\ 0 <= rh_sw ii m /\ 0 <= rh_cs ii m /\ 0 <= rh_scp ii m /\ 0 <= rh_meat ii m /\
     0 <= nthq (k_imm ii) m /\ 0 <= nthq (k_ns ii) m) /\
    (0 <= rf_sf i c a m /\ 0 <= rf_cr i c a m /\ 0 <= rf_sw i c a m /\ 0 <= rf_cs i c a m /\ 0 <= rf_scp i c a m) /\
    (0 <= rb_sf i c a m /\ 0 <= rb_cr i c a m /\ 0 <= rb_sw i c a m /\ 0 <= rb_cs i c a m /\ 0 <= rb_scp i c a m) /\
    (0 <= nthq (p_sf ii) m /\ 0 <= nthq (p_cr ii) m /\ 0 <= nthq (p_sw ii) m /\ 0 <= nthq (p_cs ii) m /\
     0 <= nthq (p_scp ii) m /\ 0 <= nthq (p_meat ii) m /\ 0 <= nthq (p_imm ii) m /\ 0 <= nthq (p_ns ii) m).
  Proof.
    intros Hk m Hm.
    destruct (report_lp_imm_nonneg i c a e ii HS (proj1 F) R m Hm) as (_ & IP & IK). pose proof (K_pos i c HS) as KP. pose proof (lpc01_nonneg i ty a F) as NN.
    destruct (back_humans i c a e ii HS R m Hm) as (H1 & H2 & H3 & H4 & H5 & H6).
    destruct (back_feed_biofuel i c a HS m Hm) as ((F1 & F2 & F3 & F4 & F5) & (B1 & B2 & B3 & B4 & B5)).
    assert (V : forall b s, 0 <= bsel b (a s m)) by (intros; apply bsel_nonneg; apply NN).
    assert (W : forall b s, 0 <= sw_kcals i * bsel b (a s m)) by (intros; apply Qmult_le_0_compat; [exact Hk|apply V]).
    assert (KM : 0 < r_km (report_in i c a)).
    { cbn. rewrite (proj1 (proj2 HS)). apply km_pos; exact (proj1 HS). }
    destruct (report_split _ _ _ R (proj1 HS) KM m Hm) as (_ & (_ & N1) & (_ & N2)).
    split; [|split; [|split]].
    - repeat split; try exact N2; try exact IK;
        [eapply scaled_nonneg; [exact KP|exact H1|apply V] | eapply scaled_nonneg; [exact KP|exact H2|apply V]
        | eapply scaled_nonneg; [exact KP|exact H3|apply W] | eapply scaled_nonneg; [exact KP|exact H4|apply V]
        | eapply scaled_nonneg; [exact KP|exact H5|apply V] | eapply scaled_nonneg; [exact KP|exact H6|apply V]].
    - repeat split;
        [eapply scaled_nonneg; [exact KP|exact F1|apply V] | eapply scaled_nonneg; [exact KP|exact F2|apply V]
        | eapply scaled_nonneg; [exact KP|exact F3|apply W] | eapply scaled_nonneg; [exact KP|exact F4|apply V]
        | eapply scaled_nonneg; [exact KP|exact F5|apply V]].
    - repeat split;
        [eapply scaled_nonneg; [exact KP|exact B1|apply V] | eapply scaled_nonneg; [exact KP|exact B2|apply V]
        | eapply scaled_nonneg; [exact KP|exact B3|apply W] | eapply scaled_nonneg; [exact KP|exact B4|apply V]
        | eapply scaled_nonneg; [exact KP|exact B5|apply V]].
    - assert (SO : settings_ok (report_in i c a)) by (split; [exact (proj1 HS)|exact (proj1 (proj2 HS))]).
      destruct (report_conversion _ _ _ R SO m Hm) as ((C1 & C2 & C3 & C4 & C5 & C6 & _) & _).
      cbn [report_in r_conv r_sw_kcals v_sf_h v_cr_h v_sw_h v_cs_h v_scp_h v_meat] in C1, C2, C3, C4, C5, C6.
      rewrite !var_at_vars_of in C1, C2, C3, C4, C5, C6 by exact Hm.
      pose proof (bkn_pos c (proj1 HS)) as NP.
      assert (Z : forall v, 0 <= v -> 0 <= 100 * v / billion_kcals_needed c).
      { intros v Hv. apply Qle_shift_div_l; [exact NP|]. lra. }
      rewrite C1, C2, C3, C4, C5, C6.
      repeat split; try exact N1; try exact IP; apply Z; rewrite ?Qmult_1_l; try apply V; apply W.
  Qed.
End Ledger.

(* ================================================================== *)
(* (4) reported feed / biofuel totals                                  *)
(* ================================================================== *)
Section Totals.
  Variables (i : lp_in) (c : conv) (a : assignment).
  Hypothesis HS : lp_settings_ok i c.
  Let K := m_ke_bk c.
  Let x := fb_of i c a.

  (* the reported total is the sum of the five reported per-source series *)
  Lemma rl_total_is_sum m : (m < NM i)%nat ->
    nthq (feed_sum_ke x) m = rf_cs i c a m + rf_scp i c a m + rf_sw i c a m + rf_cr i c a m + rf_sf i c a m /\
    nthq (biofuels_sum_ke x) m = rb_cs i c a m + rb_scp i c a m + rb_sw i c a m + rb_cr i c a m + rb_sf i c a m.
  Proof.
    intros Hm. unfold feed_sum_ke, biofuels_sum_ke, rf_cs, rf_scp, rf_sw, rf_cr, rf_sf, rb_cs, rb_scp, rb_sw, rb_cr, rb_sf.
    assert (L : forall add s r, List.length (use_ke x (vars_of i a add s) r) = NM i).
    { intros. rewrite use_ke_len; [reflexivity|apply varlen_vars_of]. }
    split; apply (sum5_nth _ _ _ _ _ m (NM i)); try apply L; exact Hm.
  Qed.

  Lemma rl_total_back m : (m < NM i)%nat ->
    K * nthq (feed_sum_ke x) m == feed_sum i a m /\ K * nthq (biofuels_sum_ke x) m == biofuel_sum i a m.
  Proof.
    intros Hm. destruct (feed_sum_link i c a HS m Hm) as [A B].
    unfold back_to_bk in A, B. rewrite nthq_lscale in A, B. split; assumption.
  Qed.

  (* rounds that maximise people fed: the reported totals are exactly the amounts charged *)
  Lemma rl_humans_charges : Feasible i ToHumans a -> has_nonhuman i = true -> forall m, (m < NM i)%nat ->
    K * nthq (feed_sum_ke x) m == at_ (feed_charge i) m /\ K * nthq (biofuels_sum_ke x) m == at_ (biofuel_charge i) m.
  Proof.
    intros F Hb m Hm. destruct (rl_total_back m Hm) as [A B]. destruct (lpc01_humans_charges i a F Hb m Hm) as [C D].
    rewrite A, B. split; assumption.
  Qed.

  (* the feed round: within the demand ceilings, never increasing *)
  Lemma rl_animals : Feasible i ToAnimals a -> has_nonhuman i = true -> forall m, (m < NM i)%nat ->
    K * nthq (feed_sum_ke x) m <= at_ (max_feed i) m /\ K * nthq (biofuels_sum_ke x) m <= at_ (max_biofuel i) m /\
    (forall k, (k <= m)%nat -> K * nthq (feed_sum_ke x) m <= K * nthq (feed_sum_ke x) k /\
                               K * nthq (biofuels_sum_ke x) m <= K * nthq (biofuels_sum_ke x) k).
  Proof.
    intros F Hb m Hm. destruct (rl_total_back m Hm) as [A B].
    destruct (lpc01_animals_ceiling i a F Hb m Hm) as [C D]. rewrite A, B.
    split; [exact C|split; [exact D|]]. intros k Hk.
    destruct (rl_total_back k ltac:(lia)) as [A' B']. rewrite A, B, A', B'.
    exact (lpc01_animals_monotone i a F Hb k m Hk Hm).
  Qed.

  Lemma rl_no_nonhuman : has_nonhuman i = false -> forall m, (m < NM i)%nat ->
    nthq (feed_sum_ke x) m == 0 /\ nthq (biofuels_sum_ke x) m == 0.
  Proof.
    intros Hb m Hm. destruct (rl_total_back m Hm) as [A B]. destruct (lpc01_no_nonhuman i a m Hb) as [C D].
    pose proof (K_pos i c HS) as KP. fold K in KP. rewrite C in A. rewrite D in B. split.
    - assert (X : nthq (feed_sum_ke x) m == 0 / K) by (rewrite <- A; field; lra). rewrite X. field; lra.
    - assert (X : nthq (biofuels_sum_ke x) m == 0 / K) by (rewrite <- B; field; lra). rewrite X. field; lra.
  Qed.
End Totals.

(* ================================================================== *)
(* non-vacuity, and what is NOT true of the reported numbers           *)
(* ================================================================== *)
Definition ex_conv01 : conv := {| kcals_daily := 2100; fat_daily := 47; protein_daily := 51; population := 1000000 |}.

Lemma ex_settings : lp_settings_ok ex_in ex_conv01.
Proof. unfold lp_settings_ok, positive_settings; cbn. repeat split; reflexivity. Qed.

Lemma ex_report_accepted :
  match report (report_in ex_in ex_conv01 (a_of ex_tbl_h)) with Ok _ => True | Rejected _ => False end.
Proof. vm_compute. exact I. Qed.

(* BEFORE the clamp fix (extract_gen false = the code without np.maximum(..., 0)) the series "outdoor crops eaten
   immediately" could be reported NEGATIVE: in a month whose harvest is smaller than (feed + biofuel from crops) /
   KCALS_MONTHLY (the extractor subtracts feed and biofuel in billion people fed from production in billion kcals), e.g.
   no harvest while stored crops go to feed.  Same instance as ex_in with the harvest moved: 38 / 0 / 12.  With the
   shipped (clamped) definition the same instance reports 0 (rl_nonneg). *)
Definition ex_neg_in : lp_in :=
  {| NM := 3;
     add_sw := false; add_cr := true; add_sf := true; add_meat := false; add_scp := true; add_cs := false;
     store_years := true;
     pop := 1000000; kcals_monthly_pp := 63000; need := 63;
     w_sf := 20; w_cr := 10; w_meat := 0; w_scp := 0; w_cs := 0; w_sw := 0;
     sf0 := 30; meat_total := 0;
     sw_kcals := 1; sw_init := 0; sw_init_area := 0; sw_min_density := 0; sw_max_density := 0; sw_harvest_loss := 0;
     relocated := false; harvest_delay := 0;
     cap_sw_h := 0; cap_sw_f := 0; cap_sw_b := 0;
     cap_scp_h := 100; cap_scp_f := 100; cap_scp_b := 100;
     cap_cs_h := 0; cap_cs_f := 0; cap_cs_b := 0;
     crops_prod := [38; 0; 12]; milk := [1; 1; 1]; greenhouse := []; fish := [2; 2; 2];
     scp_prod := [0; 5; 5]; cs_prod := []; built_area := []; growth := [];
     feed_charge := [4; 4; 4]; biofuel_charge := [1; 1; 1];
     meat_monthly := []; meat_running := [];
     max_feed := [4; 4; 4]; max_biofuel := [1; 1; 1];
     pin_cr := [9; 9; 18]; pin_sf := [8; 8; 4]; pin_meat := []; pin_scp := [0; 2; 2]; pin_cs := []; pin_sw := [] |}.

Definition ex_neg_tbl : list entry :=
  (Obj, O, 2000 # 63) ::
  series SF_start [30; 20; 10] ++ series SF_end [20; 10; 0] ++
  series SF_h [8; 8; 4] ++ series SF_f [0; 0; 4] ++ series SF_b [0; 0; 1] ++
  series CR_h [9; 9; 18] ++ series CR_f [4; 4; 0] ++ series CR_b [1; 1; 0] ++
  series CR_consumed [15; 15; 20] ++ series CR_storage [23; 8; 0] ++
  series SCP_h [0; 2; 2] ++
  series Consumed [2000 # 63; 2200 # 63; 2700 # 63].

Lemma ex_neg_feasible : Feasible ex_neg_in ToHumans (a_of ex_neg_tbl).
Proof. apply feasibleb_sound. vm_compute. reflexivity. Qed.

Lemma reported_immediate_crops_negative_before_clamp_fix :
  exists i c a e ii, lp_settings_ok i c /\ admissible i /\ Feasible i ToHumans a /\
    report_before_clamp_fix (report_in i c a) = Ok (e, ii) /\ nthq (k_imm ii) 1 < 0 /\ nthq (p_imm ii) 1 < 0.
Proof.
  destruct (report_before_clamp_fix (report_in ex_neg_in ex_conv01 (a_of ex_neg_tbl))) as [[e ii]|] eqn:E.
  - exists ex_neg_in, ex_conv01, (a_of ex_neg_tbl), e, ii.
    split; [unfold lp_settings_ok, positive_settings; cbn; repeat split; reflexivity|].
    split; [unfold admissible, waste_ok; cbn; repeat split; lra|].
    split; [exact ex_neg_feasible|]. split; [exact E|].
    vm_compute in E. injection E as <- <-. split; vm_compute; reflexivity.
  - vm_compute in E. discriminate E.
Qed.

(* the same instance under the shipped code: accepted, and the column is 0 in that month *)
Lemma ex_neg_after_fix :
  match report (report_in ex_neg_in ex_conv01 (a_of ex_neg_tbl)) with
  | Ok (_, ii) => nthq (k_imm ii) 1 == 0 | Rejected _ => False end.
Proof. vm_compute. reflexivity. Qed.
