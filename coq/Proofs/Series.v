(* placeholder, being written *)
