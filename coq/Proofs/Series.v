(* Lemmas about the supply-series models of Model/Series.v (C08, C09). *)
From Coq Require Import QArith Lqa Lia List Bool Arith ZArith String.
From Allfed Require Import Base.QSeries Model.Series.
Import ListNotations.
Open Scope Q_scope.

Lemma Qlt_bool_iff : forall a b, Qlt_bool a b = true <-> a < b.
Proof.
  intros a b. unfold Qlt_bool. rewrite negb_true_iff. split; intro H.
  - apply Qnot_le_lt. intro L. apply Qle_bool_iff in L. congruence.
  - destruct (Qle_bool b a) eqn:E; [|reflexivity]. apply Qle_bool_iff in E. lra.
Qed.

Lemma Qlt_bool_false : forall a b, Qlt_bool a b = false <-> b <= a.
Proof.
  intros a b. unfold Qlt_bool. rewrite negb_false_iff. apply Qle_bool_iff.
Qed.

Lemma linspace_length : forall a b n, List.length (linspace a b n) = n.
Proof. intros. apply tab_length. Qed.

Lemma linspace_nth : forall a b n i, (i < n)%nat ->
  nthq (linspace a b n) i = a + (b - a) * qnat i / qnat (n - 1).
Proof. intros. unfold linspace. apply tab_nth. assumption. Qed.

(* ---------------------------------------------------------------- greenhouse area *)
Definition area_fn (d : nat) (lim : Q) (m : nat) : Q :=
  if (m <? d + 5)%nat then 0
  else if (m <? d + 42)%nat then lim * qnat (m - (d + 5)) / 36
  else lim.

Definition area_spec (g : gh_in) (m : nat) : Q :=
  if Qeq_bool (total_crop_area g) 0 then 0
  else if gadd g then area_fn (gdelay g) (total_crop_area g * gmult g) m else 0.

Lemma area_long_nth : forall d lim k m, (m < d + 42 + k)%nat ->
  nthq (rep 0 d ++ rep 0 5 ++ linspace 0 lim 37 ++ rep lim k) m == area_fn d lim m.
Proof.
  intros d lim k m H. unfold area_fn.
  destruct (m <? d + 5)%nat eqn:E1.
  - apply Nat.ltb_lt in E1.
    destruct (Nat.lt_ge_cases m d) as [L|L].
    + rewrite nthq_app_l by (rewrite rep_length; exact L). rewrite rep_nth by exact L. reflexivity.
    + rewrite nthq_app_r by (rewrite rep_length; exact L). rewrite rep_length.
      rewrite nthq_app_l by (rewrite rep_length; lia). rewrite rep_nth by lia. reflexivity.
  - apply Nat.ltb_ge in E1.
    rewrite nthq_app_r by (rewrite rep_length; lia). rewrite rep_length.
    rewrite nthq_app_r by (rewrite rep_length; lia). rewrite rep_length.
    destruct (m <? d + 42)%nat eqn:E2.
    + apply Nat.ltb_lt in E2.
      rewrite nthq_app_l by (rewrite linspace_length; lia).
      rewrite linspace_nth by lia.
      replace (m - d - 5)%nat with (m - (d + 5))%nat by lia.
      change (qnat (37 - 1)) with 36. field.
    + apply Nat.ltb_ge in E2.
      rewrite nthq_app_r by (rewrite linspace_length; lia). rewrite linspace_length.
      rewrite rep_nth by lia. reflexivity.
Qed.

Lemma greenhouse_area_length : forall n g, (gadd g = true -> 42 <= n)%nat -> List.length (greenhouse_area n g) = n.
Proof.
  intros n g H. unfold greenhouse_area.
  destruct (Qeq_bool (total_crop_area g) 0); [apply rep_length|].
  destruct (gadd g); [|apply rep_length].
  rewrite firstn_length. repeat rewrite app_length. repeat rewrite rep_length. rewrite linspace_length.
  specialize (H eq_refl). lia.
Qed.

Lemma greenhouse_area_nth : forall n g m, (gadd g = true -> 42 <= n)%nat -> (m < n)%nat ->
  nthq (greenhouse_area n g) m == area_spec g m.
Proof.
  intros n g m H Hm. unfold greenhouse_area, area_spec.
  destruct (Qeq_bool (total_crop_area g) 0); [rewrite rep_nth by exact Hm; reflexivity|].
  destruct (gadd g); [|rewrite rep_nth by exact Hm; reflexivity].
  specialize (H eq_refl).
  rewrite nthq_firstn by exact Hm. apply area_long_nth. lia.
Qed.

Lemma area_fn_zero_before : forall d lim m, (m < d + 5)%nat -> area_fn d lim m == 0.
Proof. intros d lim m H. unfold area_fn. apply Nat.ltb_lt in H. rewrite H. reflexivity. Qed.

Lemma area_fn_bounds : forall d lim m, 0 <= lim -> 0 <= area_fn d lim m /\ area_fn d lim m <= lim.
Proof.
  intros d lim m Hl. unfold area_fn.
  destruct (m <? d + 5)%nat; [lra|].
  destruct (m <? d + 42)%nat eqn:E; [|lra].
  apply Nat.ltb_lt in E.
  assert (A : 0 <= qnat (m - (d + 5))) by apply qnat_nonneg.
  assert (B : qnat (m - (d + 5)) <= qnat 36) by (apply qnat_le; lia).
  change (qnat 36) with 36 in B.
  assert (C1 : 0 <= lim * qnat (m - (d + 5))) by nra.
  assert (C2 : lim * qnat (m - (d + 5)) <= lim * 36) by nra.
  set (t := lim * qnat (m - (d + 5))) in *. clearbody t. split; [apply Qle_shift_div_l; lra|apply Qle_shift_div_r; lra].
Qed.

Lemma area_fn_step : forall d lim m, 0 <= lim -> area_fn d lim m <= area_fn d lim (S m).
Proof.
  intros d lim m Hl.
  destruct (area_fn_bounds d lim (S m) Hl) as [B1 B2].
  destruct (area_fn_bounds d lim m Hl) as [B3 B4].
  unfold area_fn in *.
  destruct (m <? d + 5)%nat eqn:E1; [exact B1|].
  apply Nat.ltb_ge in E1.
  replace (S m <? d + 5)%nat with false in * by (symmetry; apply Nat.ltb_ge; lia).
  destruct (S m <? d + 42)%nat eqn:E2.
  - apply Nat.ltb_lt in E2.
    replace (m <? d + 42)%nat with true by (symmetry; apply Nat.ltb_lt; lia).
    assert (A : qnat (m - (d + 5)) <= qnat (S m - (d + 5))) by (apply qnat_le; lia).
    assert (A' : lim * qnat (m - (d + 5)) <= lim * qnat (S m - (d + 5))) by nra.
    set (t1 := lim * qnat (m - (d + 5))) in *. set (t2 := lim * qnat (S m - (d + 5))) in *. clearbody t1 t2. apply Qle_shift_div_r; [lra|]. unfold Qdiv. rewrite <- Qmult_assoc. setoid_replace (/ 36 * 36) with 1 by reflexivity. lra.
  - destruct (m <? d + 42)%nat; [exact B4|lra].
Qed.

Lemma area_fn_mono : forall d lim i j, 0 <= lim -> (i <= j)%nat -> area_fn d lim i <= area_fn d lim j.
Proof.
  intros d lim i j Hl H. induction H; [lra|].
  apply Qle_trans with (area_fn d lim m); [exact IHle|apply area_fn_step; exact Hl].
Qed.
(* ---------------------------------------------------------------- fraction *)
Definition frac_spec (g : gh_in) (m : nat) : Q :=
  if Qeq_bool (total_crop_area g) 0 then 0 else area_spec g m / total_crop_area g.

Lemma greenhouse_fraction_length : forall n g, (gadd g = true -> 42 <= n)%nat -> List.length (greenhouse_fraction n g) = n.
Proof.
  intros n g H. unfold greenhouse_fraction. destruct (Qeq_bool (total_crop_area g) 0); [apply rep_length|].
  rewrite map_length. apply greenhouse_area_length. exact H.
Qed.

Lemma greenhouse_fraction_nth : forall n g m, (gadd g = true -> 42 <= n)%nat -> (m < n)%nat ->
  nthq (greenhouse_fraction n g) m == frac_spec g m.
Proof.
  intros n g m H Hm. unfold greenhouse_fraction, frac_spec.
  destruct (Qeq_bool (total_crop_area g) 0) eqn:E; [rewrite rep_nth by exact Hm; reflexivity|].
  rewrite nthq_map by (rewrite greenhouse_area_length by exact H; exact Hm).
  rewrite (greenhouse_area_nth n g m H Hm). unfold area_spec. rewrite E. reflexivity.
Qed.

Lemma area_spec_bounds : forall g m, 0 <= total_crop_area g * gmult g ->
  0 <= area_spec g m /\ area_spec g m <= total_crop_area g * gh_mult g.
Proof.
  intros g m H. unfold area_spec, gh_mult.
  destruct (Qeq_bool (total_crop_area g) 0) eqn:E.
  - apply Qeq_bool_iff in E. rewrite E. split; [lra|]. destruct (gadd g); lra.
  - destruct (gadd g); [apply area_fn_bounds; exact H|]. split; lra.
Qed.

Lemma frac_spec_range : forall g m, 0 <= total_crop_area g -> 0 <= gmult g -> gmult g <= 1 ->
  0 <= frac_spec g m /\ frac_spec g m <= 1.
Proof.
  intros g m Ht H0 H1. unfold frac_spec.
  destruct (Qeq_bool (total_crop_area g) 0) eqn:E; [split; lra|].
  assert (Hne : ~ total_crop_area g == 0) by (intro A; apply Qeq_bool_iff in A; congruence).
  assert (Hp : 0 < total_crop_area g) by (destruct (Qlt_le_dec 0 (total_crop_area g)); [assumption|exfalso; apply Hne; lra]).
  assert (Hl : 0 <= total_crop_area g * gmult g) by nra.
  destruct (area_spec_bounds g m Hl) as [A B].
  assert (B' : area_spec g m <= total_crop_area g * 1).
  { apply Qle_trans with (total_crop_area g * gh_mult g); [exact B|]. unfold gh_mult. destruct (gadd g); nra. }
  split; [apply Qle_shift_div_l; lra|apply Qle_shift_div_r; lra].
Qed.

(* ---------------------------------------------------------------- net output *)
Lemma crops_produced_length : forall pw c frac, List.length (crops_produced pw c frac) = cN c.
Proof.
  intros. unfold crops_produced. destruct (cadd c); [|apply rep_length].
  destruct (crot c); cbv zeta; apply tab_length.
Qed.

Lemma outdoor_production_length : forall pw c g, List.length (outdoor_production pw c g) = cN c.
Proof. intros. unfold outdoor_production. rewrite map_length. apply crops_produced_length. Qed.

(* what is grown on the land in month m: relocated crops once the relocation delay has passed *)
Definition grown_on_land (pw : Q -> Q -> Q) (c : crop_in) (m : nat) : Q :=
  if crot c && (chd c + crotdelay c <=? m)%nat then nthq (grown pw c) m else nthq (norel_grown c) m.

Lemma outdoor_production_nth : forall pw c g m, cadd c = true -> (m < cN c)%nat ->
  nthq (outdoor_production pw c g) m ==
  grown_on_land pw c m * (1 - nthq (greenhouse_fraction (cN c) g) m) * (1 - cwd c / 100).
Proof.
  intros pw c g m Ha Hm. unfold outdoor_production.
  rewrite nthq_map by (rewrite crops_produced_length; exact Hm).
  unfold crops_produced, grown_on_land. rewrite Ha.
  destruct (crot c); cbv zeta; rewrite tab_nth by exact Hm; simpl andb.
  - destruct (m <? chd c + crotdelay c)%nat eqn:E.
    + apply Nat.ltb_lt in E. replace (chd c + crotdelay c <=? m)%nat with false by (symmetry; apply Nat.leb_gt; exact E). reflexivity.
    + apply Nat.ltb_ge in E. replace (chd c + crotdelay c <=? m)%nat with true by (symmetry; apply Nat.leb_le; exact E). reflexivity.
  - reflexivity.
Qed.

Lemma outdoor_production_off : forall pw c g m, cadd c = false -> nthq (outdoor_production pw c g) m == 0.
Proof.
  intros pw c g m Ha. destruct (Nat.lt_ge_cases m (cN c)) as [L|L].
  - unfold outdoor_production. rewrite nthq_map by (rewrite crops_produced_length; exact L).
    unfold crops_produced. rewrite Ha. rewrite rep_nth by exact L. ring.
  - rewrite nthq_overflow by (rewrite outdoor_production_length; exact L). reflexivity.
Qed.
(* ---------------------------------------------------------------- relocation and expansion *)
Definition set_rot (c : crop_in) (b : bool) : crop_in :=
  Build_crop_in (cN c) (cstart c) (cbase c) (cseas c) (cr1 c) (crs c) (chbm c) b (cexp c) (carea c) (chd c)
                (cyears c) (crotdelay c) (cwd c) (cwr c) (cadd c).
Definition set_area (c : crop_in) (a : Q) : crop_in :=
  Build_crop_in (cN c) (cstart c) (cbase c) (cseas c) (cr1 c) (crs c) (chbm c) (crot c) (cexp c) a (chd c)
                (cyears c) (crotdelay c) (cwd c) (cwr c) (cadd c).
Definition set_base (c : crop_in) (b : Q) : crop_in :=
  Build_crop_in (cN c) (cstart c) b (cseas c) (cr1 c) (crs c) (chbm c) (crot c) (cexp c) (carea c) (chd c)
                (cyears c) (crotdelay c) (cwd c) (cwr c) (cadd c).

Lemma clamp0_nonneg : forall r, 0 <= clamp0 r.
Proof. intro r. unfold clamp0. destruct (Qle_bool r 0) eqn:E; [lra|]. 
  destruct (Qlt_le_dec 0 r); [lra|]. apply Qle_bool_iff in q. congruence. Qed.

Section Power.
  Variable pw : Q -> Q -> Q.
  (* what the theorems need of x ** e : on [0,1] with 0 < e <= 1 it lies between x and 1 *)
  Hypothesis pw_ge : forall x e, 0 <= x -> x <= 1 -> 0 < e -> e <= 1 -> x <= pw x e.
  Hypothesis pw_le1 : forall x e, 0 <= x -> x <= 1 -> 0 < e -> e <= 1 -> pw x e <= 1.

  Lemma relocated_ge : forall e r, 0 < e -> e <= 1 -> clamp0 r <= relocated pw e r.
  Proof.
    intros e r He0 He1. unfold relocated. pose proof (clamp0_nonneg r) as H0.
    destruct (Qlt_bool 1 (clamp0 r)) eqn:E; [lra|].
    apply Qlt_bool_false in E. apply pw_ge; assumption.
  Qed.

  Definition exp_ok (c : crop_in) : Prop := 0 < eff_exp c /\ eff_exp c <= 1.

  Lemma grown_climate_length : forall c, List.length (grown_climate pw c) = cN c.
  Proof. intros. unfold grown_climate. cbv zeta. apply tab_length. Qed.
  Lemma norel_length : forall c, List.length (norel_grown c) = cN c.
  Proof. intros. unfold norel_grown. cbv zeta. apply tab_length. Qed.
  Lemma area_ramp_length : forall c, List.length (area_ramp c) = cN c.
  Proof. intros. unfold area_ramp. cbv zeta. apply tab_length. Qed.

  Lemma grown_length : forall c, List.length (grown pw c) = cN c.
  Proof.
    intros. unfold grown. destruct (Qlt_bool 1 (carea c)); [|apply grown_climate_length].
    rewrite map2_length, grown_climate_length, area_ramp_length. apply Nat.min_id.
  Qed.

  Lemma norel_nth : forall c m, (m < cN c)%nat ->
    nthq (norel_grown c) m = nthq (months_cycle c) (m mod 12) * clamp0 (nthq (reductions c) m).
  Proof. intros. unfold norel_grown. cbv zeta. apply tab_nth. assumption. Qed.

  Lemma grown_climate_nth : forall c m, (m < cN c)%nat ->
    nthq (grown_climate pw c) m = nthq (months_cycle c) (m mod 12) * relocated pw (eff_exp c) (nthq (reductions c) m).
  Proof. intros. unfold grown_climate. cbv zeta. apply tab_nth. assumption. Qed.

  Lemma norel_nonneg : forall c, all_nonneg (months_cycle c) -> all_nonneg (norel_grown c).
  Proof.
    intros c Hc. apply all_nonneg_of_lt. intros m Hm. rewrite norel_length in Hm.
    rewrite norel_nth by exact Hm. pose proof (Hc (m mod 12)%nat). pose proof (clamp0_nonneg (nthq (reductions c) m)). nra.
  Qed.

  Lemma climate_ge_norel : forall c m, all_nonneg (months_cycle c) -> exp_ok c -> (m < cN c)%nat ->
    nthq (norel_grown c) m <= nthq (grown_climate pw c) m.
  Proof.
    intros c m Hc [He0 He1] Hm. rewrite norel_nth, grown_climate_nth by exact Hm.
    pose proof (Hc (m mod 12)%nat). pose proof (relocated_ge (eff_exp c) (nthq (reductions c) m) He0 He1). nra.
  Qed.

  Lemma area_ramp_ge1 : forall c m, 1 <= carea c -> (m < cN c)%nat -> 1 <= nthq (area_ramp c) m.
  Proof.
    intros c m Ha Hm. unfold area_ramp. cbv zeta. rewrite tab_nth by exact Hm.
    destruct (cyears c * 12 <=? m)%nat eqn:E1; [exact Ha|].
    destruct (chd c <=? m)%nat eqn:E2; [|lra].
    apply Nat.leb_gt in E1. apply Nat.leb_le in E2.
    assert (A : qnat (chd c) <= qnat m) by (apply qnat_le; exact E2).
    assert (B : qnat m < qnat (cyears c * 12)).
    { unfold qnat, Qlt; simpl. lia. }
    assert (D : 0 < qnat (cyears c * 12) - qnat (chd c)) by lra.
    assert (F : 0 <= (carea c - 1) / (qnat (cyears c * 12) - qnat (chd c))) by (apply Qle_shift_div_l; lra).
    set (inc := (carea c - 1) / (qnat (cyears c * 12) - qnat (chd c))) in *. clearbody inc. nra.
  Qed.

  Lemma grown_ge_climate : forall c m, all_nonneg (months_cycle c) -> exp_ok c -> 1 <= carea c -> (m < cN c)%nat ->
    nthq (grown_climate pw c) m <= nthq (grown pw c) m.
  Proof.
    intros c m Hc He Ha Hm. unfold grown. destruct (Qlt_bool 1 (carea c)); [|lra].
    rewrite map2_nth by (rewrite ?grown_climate_length, ?area_ramp_length; exact Hm).
    pose proof (area_ramp_ge1 c m Ha Hm) as R.
    pose proof (climate_ge_norel c m Hc He Hm) as G.
    pose proof (norel_nonneg c Hc m) as Z.
    set (x := nthq (grown_climate pw c) m) in *. set (y := nthq (area_ramp c) m) in *. clearbody x y. nra.
  Qed.

  (* relocated crops never yield less than the same land without relocation *)
  Lemma grown_ge_norel : forall c m, all_nonneg (months_cycle c) -> exp_ok c -> 1 <= carea c -> (m < cN c)%nat ->
    nthq (norel_grown c) m <= nthq (grown pw c) m.
  Proof.
    intros c m Hc He Ha Hm.
    apply Qle_trans with (nthq (grown_climate pw c) m); [apply climate_ge_norel|apply grown_ge_climate]; assumption.
  Qed.

  Lemma norel_set_rot : forall c b, norel_grown (set_rot c b) = norel_grown c.
  Proof. reflexivity. Qed.
  Lemma norel_set_area : forall c a, norel_grown (set_area c a) = norel_grown c.
  Proof. reflexivity. Qed.
  Lemma climate_set_area : forall c a, grown_climate pw (set_area c a) = grown_climate pw c.
  Proof. reflexivity. Qed.

  Definition waste_ok (c : crop_in) : Prop := 0 <= cwd c /\ cwd c <= 100.

  Lemma production_monotone_in_grown : forall c c' g m,
    cN c' = cN c -> cwd c' = cwd c -> cadd c = true -> cadd c' = true -> (m < cN c)%nat ->
    (gadd g = true -> 42 <= cN c)%nat -> 0 <= total_crop_area g -> 0 <= gmult g -> gmult g <= 1 -> waste_ok c ->
    grown_on_land pw c m <= grown_on_land pw c' m ->
    nthq (outdoor_production pw c g) m <= nthq (outdoor_production pw c' g) m.
  Proof.
    intros c c' g m HN Hw Ha Ha' Hm Hg Ht H0 H1 [W0 W1] HG.
    rewrite (outdoor_production_nth pw c g m Ha Hm).
    rewrite (outdoor_production_nth pw c' g m Ha') by (rewrite HN; exact Hm).
    rewrite HN, Hw. rewrite (greenhouse_fraction_nth (cN c) g m Hg Hm).
    destruct (frac_spec_range g m Ht H0 H1) as [F0 F1].
    set (f := frac_spec g m) in *. set (a := grown_on_land pw c m) in *. set (b := grown_on_land pw c' m) in *.
    clearbody f a b.
    assert (K : 0 <= (1 - f) * (1 - cwd c / 100)).
    { apply Qmult_le_0_compat; [lra|]. assert (cwd c / 100 <= 1) by (apply Qle_shift_div_r; lra). lra. }
    set (k := (1 - f) * (1 - cwd c / 100)) in *.
    setoid_replace (a * (1 - f) * (1 - cwd c / 100)) with (a * k) by (unfold k; ring).
    setoid_replace (b * (1 - f) * (1 - cwd c / 100)) with (b * k) by (unfold k; ring).
    clearbody k. nra.
  Qed.

  Lemma relocation_never_lowers : forall c g m,
    all_nonneg (months_cycle c) -> 0 < cexp c -> cexp c <= 1 -> 1 <= carea c -> cadd c = true -> (m < cN c)%nat ->
    (gadd g = true -> 42 <= cN c)%nat -> 0 <= total_crop_area g -> 0 <= gmult g -> gmult g <= 1 -> waste_ok c ->
    nthq (outdoor_production pw (set_rot c false) g) m <= nthq (outdoor_production pw (set_rot c true) g) m.
  Proof.
    intros c g m Hc He0 He1 Ha Hadd Hm Hg Ht H0 H1 Hw.
    apply production_monotone_in_grown; try assumption; try reflexivity.
    unfold grown_on_land. cbn [crot set_rot chd crotdelay andb].
    destruct (chd c + crotdelay c <=? m)%nat; [|rewrite !norel_set_rot; lra].
    rewrite !norel_set_rot.
    apply (grown_ge_norel (set_rot c true) m); try assumption.
    unfold exp_ok, eff_exp. cbn. split; assumption.
  Qed.

  Lemma expansion_never_lowers : forall c g m,
    all_nonneg (months_cycle c) -> exp_ok c -> 1 <= carea c -> cadd c = true -> (m < cN c)%nat ->
    (gadd g = true -> 42 <= cN c)%nat -> 0 <= total_crop_area g -> 0 <= gmult g -> gmult g <= 1 -> waste_ok c ->
    nthq (outdoor_production pw (set_area c 1) g) m <= nthq (outdoor_production pw c g) m.
  Proof.
    intros c g m Hc He Ha Hadd Hm Hg Ht H0 H1 Hw.
    apply production_monotone_in_grown; try assumption; try reflexivity.
    unfold grown_on_land. cbn [crot set_area chd crotdelay].
    destruct (crot c && (chd c + crotdelay c <=? m)%nat); [|rewrite norel_set_area; lra].
    unfold grown at 1. cbn [carea set_area]. replace (Qlt_bool 1 1) with false by reflexivity.
    rewrite climate_set_area. apply grown_ge_climate; assumption.
  Qed.
End Power.
(* ================================================================ C08: calendar, year blocks, closed forms *)

(* index of the ratio (year-1 ratio :: years 2..10) each of the 120 table entries reads *)
Definition year_index : list nat :=
  repeat 0%nat 8 ++ flat_map (fun k => repeat k 12) (seq 1 8) ++ repeat 9%nat 16.

Lemma year_blocks_map : forall y1 r2 r3 r4 r5 r6 r7 r8 r9 r10,
  year_blocks y1 [r2; r3; r4; r5; r6; r7; r8; r9; r10] =
  map (fun k => nthq (y1 :: [r2; r3; r4; r5; r6; r7; r8; r9; r10]) k) year_index.
Proof. reflexivity. Qed.

Lemma year_index_spec : forall m, (m < 120)%nat -> nth m year_index 0%nat = year_of m.
Proof.
  assert (H : forallb (fun m => Nat.eqb (nth m year_index 0%nat) (year_of m)) (seq 0 120) = true) by (vm_compute; reflexivity).
  intros m Hm. rewrite forallb_forall in H. apply Nat.eqb_eq. apply H. apply in_seq. lia.
Qed.

Lemma nthq_map_nat : forall (f : nat -> Q) (l : list nat) m, (m < List.length l)%nat ->
  nthq (map f l) m = f (nth m l 0%nat).
Proof.
  intros f l m H. unfold nthq. rewrite (nth_indep _ 0 (f 0%nat)) by (rewrite map_length; exact H). apply map_nth.
Qed.

Lemma year_blocks_nth : forall y1 rs m, List.length rs = 9%nat -> (m < 120)%nat ->
  nthq (year_blocks y1 rs) m = nthq (y1 :: rs) (year_of m).
Proof.
  intros y1 rs m Hl Hm.
  do 9 (destruct rs as [|? rs]; [discriminate|]). destruct rs; [|discriminate].
  rewrite year_blocks_map. rewrite nthq_map_nat by (vm_compute; lia).
  rewrite year_index_spec by exact Hm. reflexivity.
Qed.

Lemma year_blocks_length : forall y1 rs, List.length rs = 9%nat -> List.length (year_blocks y1 rs) = 120%nat.
Proof.
  intros y1 rs Hl. do 9 (destruct rs as [|? rs]; [discriminate|]). destruct rs; [|discriminate]. reflexivity.
Qed.

(* calendar: the cycle that starts in month `start` *)
Lemma rotate_nth12 : forall (l : list Q) k j, List.length l = 12%nat -> (k < 12)%nat -> (j < 12)%nat ->
  nthq (rotate k l) j = nthq l ((j + k) mod 12).
Proof.
  intros l k j Hl Hk Hj.
  do 12 (destruct l as [|? l]; [discriminate|]). destruct l; [|discriminate].
  do 12 (destruct k as [|k]; [do 12 (destruct j as [|j]; [reflexivity|]); lia|]). lia.
Qed.

Lemma months_cycle_nth : forall c j, List.length (cseas c) = 12%nat -> (1 <= cstart c <= 12)%nat -> (j < 12)%nat ->
  nthq (months_cycle c) j ==
  nthq (cseas c) ((j + (cstart c - 1)) mod 12) * (cbase c * (1 - seed_percent / 100)) * 4000000 / 1000000000.
Proof.
  intros c j Hl Hs Hj. unfold months_cycle.
  rewrite rotate_nth12 by (unfold month_cycle_jan; rewrite ?map_length; lia).
  unfold month_cycle_jan. rewrite nthq_map by (rewrite Hl; apply Nat.mod_upper_bound; lia).
  unfold annual_yield. rewrite Qred_correct. reflexivity.
Qed.

Lemma months_cycle_nonneg : forall c, List.length (cseas c) = 12%nat -> (1 <= cstart c <= 12)%nat ->
  all_nonneg (cseas c) -> 0 <= cbase c -> all_nonneg (months_cycle c).
Proof.
  intros c Hl Hs Hn Hb. apply all_nonneg_of_lt. intros j Hj.
  assert (L : List.length (months_cycle c) = 12%nat).
  { unfold months_cycle, rotate, month_cycle_jan. rewrite app_length, skipn_length, firstn_length, map_length. lia. }
  rewrite L in Hj. rewrite months_cycle_nth by assumption.
  pose proof (Hn ((j + (cstart c - 1)) mod 12)%nat) as A.
  assert (S : 0 <= 1 - seed_percent / 100) by (unfold seed_percent, Qle; simpl; lia).
  set (s := nthq (cseas c) ((j + (cstart c - 1)) mod 12)) in *. set (k := 1 - seed_percent / 100) in *. clearbody s k.
  assert (BK : 0 <= cbase c * k) by nra. set (bk := cbase c * k) in *. clearbody bk.
  apply Qle_shift_div_l; [lra|]. nra.
Qed.

Definition year1 (c : crop_in) : Q := year1_ratio (cr1 c) (cseas c) (chbm c).

(* what one month of un-relocated crops is, as a function of the inputs:
   annual baseline net of seed x seasonality share of the calendar month x 4e6/1e9 x ratio of the model year *)
Lemma norel_closed_form : forall c m,
  List.length (cseas c) = 12%nat -> List.length (crs c) = 9%nat -> (1 <= cstart c <= 12)%nat ->
  (m < cN c)%nat -> (cN c <= 120)%nat ->
  nthq (norel_grown c) m ==
  cbase c * (1 - seed_percent / 100) * nthq (cseas c) ((m + (cstart c - 1)) mod 12) * 4000000 / 1000000000
  * clamp0 (nthq (year1 c :: crs c) (year_of m)).
Proof.
  intros c m Hl Hr Hs Hm HN. rewrite norel_nth by exact Hm.
  rewrite months_cycle_nth by (try assumption; apply Nat.mod_upper_bound; lia).
  rewrite Nat.add_mod_idemp_l by lia.
  unfold reductions. rewrite year_blocks_nth by (try assumption; lia).
  unfold year1. field.
Qed.

Lemma year1_ratio_nonneg : forall r1 seas o, 0 <= year1_ratio r1 seas o.
Proof.
  intros. unfold year1_ratio. cbv zeta.
  set (hbm := match o with Some v => v | None => qsum (firstn 4 seas) end).
  set (a := if Qlt_bool (r1 - hbm) 0 then 0 else r1 - hbm).
  destruct (Qlt_bool 0 a) eqn:E; [|lra]. apply Qlt_bool_iff in E.
  destruct (Qlt_bool (1 - hbm) (1 # 4)) eqn:E2; [lra|]. apply Qlt_bool_false in E2.
  apply Qle_shift_div_l; lra.
Qed.

(* scaling the baseline scales every month by exactly that factor *)
Lemma norel_homogeneous : forall c k m,
  List.length (cseas c) = 12%nat -> List.length (crs c) = 9%nat -> (1 <= cstart c <= 12)%nat ->
  (m < cN c)%nat -> (cN c <= 120)%nat ->
  nthq (norel_grown (set_base c (k * cbase c))) m == k * nthq (norel_grown c) m.
Proof.
  intros c k m Hl Hr Hs Hm HN.
  rewrite (norel_closed_form (set_base c (k * cbase c)) m) by assumption.
  rewrite (norel_closed_form c m) by assumption.
  cbn [cbase cseas cstart crs set_base]. unfold year1. cbn [cr1 cseas chbm set_base]. field.
Qed.

(* ---------------------------------------------------------------- fish *)
Lemma fish_length : forall add n a wd wr pct, (n <= List.length pct)%nat ->
  List.length (fish_series add n a wd wr pct) = n.
Proof. intros. unfold fish_series. destruct add; rewrite map_length, firstn_length; lia. Qed.

Lemma fish_nth : forall n a wd wr pct m, (n <= List.length pct)%nat -> (m < n)%nat ->
  nthq (fish_series true n a wd wr pct) m ==
  a * 4000000 / 1000000000 / 12 * ((1 - wd / 100) * (1 - wr / 100)) * (nthq pct m / 100).
Proof.
  intros n a wd wr pct m Hl Hm. unfold fish_series.
  rewrite nthq_map by (rewrite firstn_length; lia). rewrite nthq_firstn by exact Hm.
  unfold fish_monthly. field.
Qed.

Lemma fish_homogeneous : forall add n a wd wr pct k m, (n <= List.length pct)%nat -> (m < n)%nat ->
  nthq (fish_series add n (k * a) wd wr pct) m == k * nthq (fish_series add n a wd wr pct) m.
Proof.
  intros add n a wd wr pct k m Hl Hm. destruct add.
  - rewrite !fish_nth by assumption. field.
  - unfold fish_series. rewrite !nthq_map by (rewrite firstn_length; lia). ring.
Qed.

(* ---------------------------------------------------------------- feed / biofuel demand *)
Lemma demand_length : forall n d py, (d <= n)%nat -> List.length (demand_series n d py) = n.
Proof. intros. unfold demand_series. rewrite app_length, !rep_length. lia. Qed.

Lemma demand_nth : forall n d py m, (m < n)%nat ->
  nthq (demand_series n d py) m == if (m <? d)%nat then py / 12 * 4000000 / 1000000000 else 0.
Proof.
  intros n d py m Hm. unfold demand_series.
  destruct (m <? d)%nat eqn:E.
  - apply Nat.ltb_lt in E. rewrite nthq_app_l by (rewrite rep_length; exact E). rewrite rep_nth by exact E. reflexivity.
  - apply Nat.ltb_ge in E. rewrite nthq_app_r by (rewrite rep_length; exact E). rewrite rep_length.
    rewrite rep_nth by lia. reflexivity.
Qed.

Lemma demand_homogeneous : forall n d py k m, (m < n)%nat ->
  nthq (demand_series n d (k * py)) m == k * nthq (demand_series n d py) m.
Proof. intros. rewrite !demand_nth by assumption. destruct (m <? d)%nat; field. Qed.

(* ---------------------------------------------------------------- SCP / CS *)
Lemma scp_table_length : List.length scp_pct_table = 1031%nat.
Proof. vm_compute. reflexivity. Qed.
Lemma cs_table_length : List.length cs_pct_table = 1008%nat.
Proof. vm_compute. reflexivity. Qed.

Lemma delayed_nth : forall d (t : list Q) m,
  nthq (rep 0 d ++ t) m = if (m <? d)%nat then 0 else nthq t (m - d).
Proof.
  intros d t m. destruct (m <? d)%nat eqn:E.
  - apply Nat.ltb_lt in E. rewrite nthq_app_l by (rewrite rep_length; exact E). apply rep_nth. exact E.
  - apply Nat.ltb_ge in E. rewrite nthq_app_r by (rewrite rep_length; exact E). rewrite rep_length. reflexivity.
Qed.

Lemma scp_length : forall add n d s nd f w, (n <= 1000)%nat -> List.length (scp_series add n d s nd f w) = n.
Proof.
  intros. unfold scp_series. destruct add; [|apply rep_length].
  rewrite firstn_length, map_length, !app_length, !rep_length, scp_table_length. lia.
Qed.

(* the code applies the start-up delay TWICE *)
Lemma scp_nth : forall n d s nd f w m, (n <= 1000)%nat -> (m < n)%nat ->
  nthq (scp_series true n d s nd f w) m ==
  industrial_scale s nd f w (if (m <? 2 * d)%nat then 0 else nthq scp_pct_table (m - 2 * d)).
Proof.
  intros n d s nd f w m Hn Hm. unfold scp_series.
  rewrite nthq_firstn by exact Hm.
  rewrite nthq_map by (rewrite !app_length, !rep_length, scp_table_length; lia).
  rewrite delayed_nth. destruct (m <? d)%nat eqn:E1.
  - apply Nat.ltb_lt in E1. replace (m <? 2 * d)%nat with true by (symmetry; apply Nat.ltb_lt; lia). reflexivity.
  - apply Nat.ltb_ge in E1. rewrite delayed_nth. destruct (m - d <? d)%nat eqn:E2.
    + apply Nat.ltb_lt in E2. replace (m <? 2 * d)%nat with true by (symmetry; apply Nat.ltb_lt; lia). reflexivity.
    + apply Nat.ltb_ge in E2. replace (m <? 2 * d)%nat with false by (symmetry; apply Nat.ltb_ge; lia).
      replace (m - d - d)%nat with (m - 2 * d)%nat by lia. reflexivity.
Qed.

Lemma cs_nth : forall n d s nd f w m, (n <= 1000)%nat -> (m < n)%nat ->
  nthq (cs_series true n d s nd f w) m ==
  industrial_scale s nd f w (if (m <? d)%nat then 0 else nthq cs_pct_table (m - d)).
Proof.
  intros n d s nd f w m Hn Hm. unfold cs_series.
  rewrite nthq_firstn by exact Hm.
  rewrite (nthq_map (fun p => industrial_scale s nd f w (p * 1))) by (rewrite !app_length, !rep_length, cs_table_length; lia).
  rewrite delayed_nth. unfold industrial_scale. destruct (m <? d)%nat; field.
Qed.

Lemma cs_length : forall add n d s nd f w, (n <= 1000)%nat -> List.length (cs_series add n d s nd f w) = n.
Proof.
  intros. unfold cs_series. destruct add.
  - rewrite firstn_length, map_length, !app_length, !rep_length, cs_table_length. lia.
  - rewrite firstn_length, rep_length. lia.
Qed.

Lemma table_step_ok : forall t, forallb (fun i => Qle_bool (nthq t i) (nthq t (S i))) (seq 0 (List.length t - 1)) = true ->
  forall i j, (i <= j)%nat -> (j < List.length t)%nat -> nthq t i <= nthq t j.
Proof.
  intros t H i j Hij Hj. assert (ND : nondecreasing t).
  { apply nondecreasing_of_step. intros k Hk. rewrite forallb_forall in H. apply Qle_bool_iff. apply H. apply in_seq. lia. }
  apply ND. lia.
Qed.

Lemma scp_table_mono : forall i j, (i <= j)%nat -> (j < 1031)%nat -> nthq scp_pct_table i <= nthq scp_pct_table j.
Proof. intros i j H1 H2. apply table_step_ok; [vm_compute; reflexivity|exact H1|rewrite scp_table_length; exact H2]. Qed.

Lemma cs_table_mono : forall i j, (i <= j)%nat -> (j < 1008)%nat -> nthq cs_pct_table i <= nthq cs_pct_table j.
Proof. intros i j H1 H2. apply table_step_ok; [vm_compute; reflexivity|exact H1|rewrite cs_table_length; exact H2]. Qed.

Lemma table_bounds : forall t lo hi, forallb (fun x => Qle_bool lo x && Qle_bool x hi) t = true ->
  forall i, (i < List.length t)%nat -> lo <= nthq t i /\ nthq t i <= hi.
Proof.
  intros t lo hi H i Hi. rewrite forallb_forall in H.
  specialize (H (nthq t i) (nth_In t 0 Hi)). apply andb_true_iff in H. destruct H as [A B].
  split; apply Qle_bool_iff; assumption.
Qed.

Lemma scp_table_bounds : forall i, (i < 1031)%nat -> 0 <= nthq scp_pct_table i /\ nthq scp_pct_table i <= 15.
Proof. intros. apply table_bounds; [vm_compute; reflexivity|rewrite scp_table_length; assumption]. Qed.

Lemma cs_table_bounds : forall i, (i < 1008)%nat -> 0 <= nthq cs_pct_table i /\ nthq cs_pct_table i <= 95 # 10.
Proof. intros. apply table_bounds; [vm_compute; reflexivity|rewrite cs_table_length; assumption]. Qed.

Definition industrial_ok (s nd f w : Q) : Prop := 0 <= s /\ 0 <= nd /\ 0 <= f /\ 0 <= w /\ w <= 100.

Lemma industrial_scale_mono : forall s nd f w p q, industrial_ok s nd f w -> p <= q ->
  industrial_scale s nd f w p <= industrial_scale s nd f w q.
Proof.
  intros s nd f w p q (Hs & Hn & Hf & Hw0 & Hw1) Hpq. unfold industrial_scale.
  assert (W : 0 <= 1 - w / 100) by (assert (w / 100 <= 1) by (apply Qle_shift_div_r; lra); lra).
  assert (K : 0 <= s / 100 * nd * f * (1 - w / 100)).
  { assert (S1 : 0 <= s / 100) by (apply Qle_shift_div_l; lra).
    apply Qmult_le_0_compat; [|exact W]. apply Qmult_le_0_compat; [|exact Hf]. apply Qmult_le_0_compat; assumption. }
  setoid_replace (p / (1 - 12 / 100) * s / 100 * nd * f * (1 - w / 100))
    with (p * (25 # 22) * (s / 100 * nd * f * (1 - w / 100))) by field.
  setoid_replace (q / (1 - 12 / 100) * s / 100 * nd * f * (1 - w / 100))
    with (q * (25 # 22) * (s / 100 * nd * f * (1 - w / 100))) by field.
  set (k := s / 100 * nd * f * (1 - w / 100)) in *. clearbody k.
  assert (p * (25 # 22) <= q * (25 # 22)) by lra. nra.
Qed.

Lemma industrial_scale_zero : forall s nd f w, industrial_scale s nd f w 0 == 0.
Proof. intros. unfold industrial_scale. field. Qed.

(* ramp: non-decreasing, non-negative, at most the plateau *)
Lemma scp_monotone : forall n d s nd f w i j, (n <= 1000)%nat -> industrial_ok s nd f w -> (i <= j)%nat -> (j < n)%nat ->
  nthq (scp_series true n d s nd f w) i <= nthq (scp_series true n d s nd f w) j.
Proof.
  intros n d s nd f w i j Hn Hok Hij Hj.
  rewrite !scp_nth by lia. apply industrial_scale_mono; [exact Hok|].
  destruct (Nat.ltb_spec i (2 * d)) as [E1|E1]; destruct (Nat.ltb_spec j (2 * d)) as [E2|E2].
  - apply Qle_refl.
  - apply (scp_table_bounds (j - 2 * d)). lia.
  - lia.
  - apply scp_table_mono; lia.
Qed.

Lemma scp_range : forall n d s nd f w m, (n <= 1000)%nat -> industrial_ok s nd f w -> (m < n)%nat ->
  0 <= nthq (scp_series true n d s nd f w) m /\
  nthq (scp_series true n d s nd f w) m <= industrial_scale s nd f w 15.
Proof.
  intros n d s nd f w m Hn Hok Hm. rewrite scp_nth by lia.
  rewrite <- (industrial_scale_zero s nd f w) at 1.
  destruct (m <? 2 * d)%nat eqn:E.
  - split; apply industrial_scale_mono; try exact Hok; lra.
  - apply Nat.ltb_ge in E. destruct (scp_table_bounds (m - 2 * d)) as [A B]; [lia|].
    split; apply industrial_scale_mono; assumption.
Qed.

Lemma cs_monotone : forall n d s nd f w i j, (n <= 1000)%nat -> industrial_ok s nd f w -> (i <= j)%nat -> (j < n)%nat ->
  nthq (cs_series true n d s nd f w) i <= nthq (cs_series true n d s nd f w) j.
Proof.
  intros n d s nd f w i j Hn Hok Hij Hj.
  rewrite !cs_nth by lia. apply industrial_scale_mono; [exact Hok|].
  destruct (Nat.ltb_spec i d) as [E1|E1]; destruct (Nat.ltb_spec j d) as [E2|E2].
  - apply Qle_refl.
  - apply (cs_table_bounds (j - d)). lia.
  - lia.
  - apply cs_table_mono; lia.
Qed.

Lemma cs_range : forall n d s nd f w m, (n <= 1000)%nat -> industrial_ok s nd f w -> (m < n)%nat ->
  0 <= nthq (cs_series true n d s nd f w) m /\
  nthq (cs_series true n d s nd f w) m <= industrial_scale s nd f w (95 # 10).
Proof.
  intros n d s nd f w m Hn Hok Hm. rewrite cs_nth by lia.
  rewrite <- (industrial_scale_zero s nd f w) at 1.
  destruct (m <? d)%nat eqn:E.
  - split; apply industrial_scale_mono; try exact Hok; lra.
  - apply Nat.ltb_ge in E. destruct (cs_table_bounds (m - d)) as [A B]; [lia|].
    split; apply industrial_scale_mono; assumption.
Qed.

Lemma scp_homogeneous : forall n d s nd f w k m, (n <= 1000)%nat -> (m < n)%nat ->
  nthq (scp_series true n d s nd (k * f) w) m == k * nthq (scp_series true n d s nd f w) m.
Proof. intros. rewrite !scp_nth by assumption. unfold industrial_scale. field. Qed.

Lemma cs_homogeneous : forall n d s nd f w k m, (n <= 1000)%nat -> (m < n)%nat ->
  nthq (cs_series true n d s nd (k * f) w) m == k * nthq (cs_series true n d s nd f w) m.
Proof. intros. rewrite !cs_nth by assumption. unfold industrial_scale. field. Qed.

(* the property's reading (one delay) is refuted for the code as written *)
Lemma scp_single_delay_refuted :
  exists n d s nd f w m, (m < n)%nat /\ ~ nthq (scp_series true n d s nd f w) m == nthq (scp_series_spec true n d s nd f w) m.
Proof.
  exists 48%nat, 2%nat, 1, 100, 1, 0, 14%nat. split; [lia|]. vm_compute. discriminate.
Qed.

(* ---------------------------------------------------------------- stored food *)
Lemma stock_before_january : forall s, stock_before s 1 = nthq s 11.
Proof. reflexivity. Qed.
Lemma stock_before_may : forall s, stock_before s 5 = nthq s 3.
Proof. reflexivity. Qed.

Lemma stored_closed_form : forall s start r p w,
  stored_initial s start r p w ==
  (nthq s ((start + 10) mod 12) * p / 100 - list_min s * r) * 4000000 / 1000000000 * (1 - w / 100).
Proof. intros. unfold stored_initial, stored_tons, stock_before. field. Qed.

Lemma stored_nonneg : forall s start r p w, stored_ok s start r p = true -> 0 <= w -> w <= 100 ->
  0 <= stored_initial s start r p w.
Proof.
  intros s start r p w H W0 W1. unfold stored_ok in H. repeat (apply andb_true_iff in H; destruct H as [H ?]).
  apply Qle_bool_iff in H0. unfold stored_initial.
  assert (0 <= 1 - w / 100) by (assert (w / 100 <= 1) by (apply Qle_shift_div_r; lra); lra).
  set (t := stored_tons s start r p) in *. clearbody t.
  apply Qmult_le_0_compat; [|assumption]. apply Qle_shift_div_l; [lra|]. nra.
Qed.
(* ---------------------------------------------------------------- grass *)
Definition grass_years (n : nat) : list nat :=
  flat_map (fun i => repeat (i - 1)%nat (grass_block n i)) (seq 1 (n / 12)).

Lemma map_repeat_q : forall (f : nat -> Q) x k, map f (repeat x k) = rep (f x) k.
Proof. intros. induction k; simpl; [reflexivity|]. unfold rep in *. rewrite IHk. reflexivity. Qed.

Lemma grass_series_map : forall n b ratios,
  grass_series n b ratios = map (fun y => nthq ratios y * b * 4000) (grass_years n).
Proof.
  intros. unfold grass_series, grass_years. generalize (seq 1 (n / 12)). intro l.
  induction l as [|i l IH]; simpl; [reflexivity|].
  rewrite map_app, map_repeat_q, IH. reflexivity.
Qed.

Definition supported_horizons : list nat := [24; 36; 48; 60; 72; 84; 96; 108; 120]%nat.

Definition grass_years_ok (n : nat) : bool :=
  Nat.eqb (List.length (grass_years n)) n &&
  forallb (fun m => Nat.eqb (nth m (grass_years n) 0%nat) (grass_year_of n m)) (seq 0 n).

Lemma grass_years_checked : forallb grass_years_ok supported_horizons = true.
Proof. vm_compute. reflexivity. Qed.

Lemma grass_length : forall n b ratios, In n supported_horizons -> List.length (grass_series n b ratios) = n.
Proof.
  intros n b ratios Hin. pose proof grass_years_checked as H. rewrite forallb_forall in H.
  specialize (H n Hin). apply andb_true_iff in H. destruct H as [L _]. apply Nat.eqb_eq in L.
  rewrite grass_series_map, map_length. exact L.
Qed.

(* 8 months of year 1, 12 of every middle year, 16 of the last *)
Lemma grass_nth : forall n b ratios m, In n supported_horizons -> (m < n)%nat ->
  nthq (grass_series n b ratios) m = nthq ratios (grass_year_of n m) * b * 4000.
Proof.
  intros n b ratios m Hin Hm. pose proof grass_years_checked as H. rewrite forallb_forall in H.
  specialize (H n Hin). apply andb_true_iff in H. destruct H as [L F]. apply Nat.eqb_eq in L.
  rewrite forallb_forall in F. assert (E : nth m (grass_years n) 0%nat = grass_year_of n m).
  { apply Nat.eqb_eq. apply F. apply in_seq. lia. }
  rewrite grass_series_map. rewrite nthq_map_nat by (rewrite L; exact Hm). rewrite E. reflexivity.
Qed.

Lemma grass_homogeneous : forall n b ratios k m, In n supported_horizons -> (m < n)%nat ->
  nthq (grass_series n (k * b) ratios) m == k * nthq (grass_series n b ratios) m.
Proof. intros. rewrite !grass_nth by assumption. ring. Qed.

Lemma grass_nonneg : forall n b ratios m, In n supported_horizons -> (m < n)%nat -> 0 <= b -> all_nonneg ratios ->
  0 <= nthq (grass_series n b ratios) m.
Proof.
  intros n b ratios m Hin Hm Hb Hr. rewrite grass_nth by assumption.
  pose proof (Hr (grass_year_of n m)). set (r := nthq ratios (grass_year_of n m)) in *. clearbody r. nra.
Qed.

(* ---------------------------------------------------------------- seaweed built area *)
Lemma built_area_length : forall add n d nf mf, List.length (seaweed_built_area add n d nf mf) = n.
Proof.
  intros. unfold seaweed_built_area. cbv zeta.
  rewrite firstn_length, map_length, app_length, rep_length, linspace_length. lia.
Qed.

Lemma built_area_capped : forall add n d nf mf m, (m < n)%nat ->
  nthq (seaweed_built_area add n d nf mf) m <= seaweed_max_area mf.
Proof.
  intros add n d nf mf m Hm. unfold seaweed_built_area. cbv zeta.
  rewrite nthq_firstn by exact Hm.
  rewrite nthq_map by (rewrite app_length, rep_length, linspace_length; lia).
  match goal with |- (if Qlt_bool ?a ?x then _ else _) <= _ => destruct (Qlt_bool a x) eqn:E end.
  - apply Qle_refl.
  - apply Qlt_bool_false in E. exact E.
Qed.

(* constant while the start-up delay lasts *)
Lemma built_area_before_delay : forall n d nf mf m, (m < n)%nat -> (m < d)%nat ->
  nthq (seaweed_built_area true n d nf mf) m ==
  (if Qlt_bool (seaweed_max_area mf) (seaweed_init_area nf) then seaweed_max_area mf else seaweed_init_area nf).
Proof.
  intros n d nf mf m Hm Hd. unfold seaweed_built_area. cbv zeta.
  rewrite nthq_firstn by exact Hm.
  rewrite nthq_map by (rewrite app_length, rep_length, linspace_length; lia).
  rewrite nthq_app_l by (rewrite rep_length; exact Hd). rewrite rep_nth by exact Hd. reflexivity.
Qed.

(* after the delay: initial area + (m - delay) x monthly build rate, capped *)
Lemma built_area_after_delay : forall n d nf mf m, (m < n)%nat -> (d <= m)%nat ->
  nthq (seaweed_built_area true n d nf mf) m ==
  (let x := seaweed_init_area nf + qnat (m - d) * (seaweed_new_area_global * nf) in
   if Qlt_bool (seaweed_max_area mf) x then seaweed_max_area mf else x).
Proof.
  intros n d nf mf m Hm Hd. unfold seaweed_built_area. cbv zeta.
  rewrite nthq_firstn by exact Hm.
  rewrite nthq_map by (rewrite app_length, rep_length, linspace_length; lia).
  rewrite nthq_app_r by (rewrite rep_length; exact Hd). rewrite rep_length.
  rewrite linspace_nth by lia.
  set (init := seaweed_init_area nf). set (per := seaweed_new_area_global * nf). set (mx := seaweed_max_area mf).
  assert (E : init + (qnat (n - 1) * per + init - init) * qnat (m - d) / qnat (n - 1) == init + qnat (m - d) * per).
  { destruct (Nat.eq_dec n 1) as [->|Hn1].
    - replace (m - d)%nat with 0%nat by lia. change (qnat (1 - 1)) with 0. change (qnat 0) with 0.
      unfold Qdiv. change (/ 0) with 0. ring.
    - assert (P : 0 < qnat (n - 1)) by (apply qnat_pos; lia). field. intro Z. lra. }
  destruct (Qlt_bool mx (init + (qnat (n - 1) * per + init - init) * qnat (m - d) / qnat (n - 1))) eqn:E1;
  destruct (Qlt_bool mx (init + qnat (m - d) * per)) eqn:E2; try reflexivity; try exact E.
  - apply Qlt_bool_iff in E1. apply Qlt_bool_false in E2. lra.
  - apply Qlt_bool_false in E1. apply Qlt_bool_iff in E2. lra.
Qed.
(* ---------------------------------------------------------------- more on the area; homogeneity of the crop series *)
Lemma area_spec_mono : forall g i j, 0 <= total_crop_area g * gmult g -> (i <= j)%nat -> area_spec g i <= area_spec g j.
Proof.
  intros g i j H Hij. unfold area_spec. destruct (Qeq_bool (total_crop_area g) 0); [lra|].
  destruct (gadd g); [apply area_fn_mono; assumption|lra].
Qed.

Lemma area_spec_zero_before : forall g m, (m < gdelay g + 5)%nat -> area_spec g m == 0.
Proof.
  intros g m H. unfold area_spec. destruct (Qeq_bool (total_crop_area g) 0); [reflexivity|].
  destruct (gadd g); [apply area_fn_zero_before; exact H|reflexivity].
Qed.

Section Homogeneous.
  Variable pw : Q -> Q -> Q.

  Lemma grown_climate_homogeneous : forall c k m,
    List.length (cseas c) = 12%nat -> (1 <= cstart c <= 12)%nat -> (m < cN c)%nat ->
    nthq (grown_climate pw (set_base c (k * cbase c))) m == k * nthq (grown_climate pw c) m.
  Proof.
    intros c k m Hl Hs Hm.
    rewrite (grown_climate_nth pw (set_base c (k * cbase c)) m) by exact Hm.
    rewrite (grown_climate_nth pw c m) by exact Hm.
    rewrite (months_cycle_nth (set_base c (k * cbase c))) by (try assumption; apply Nat.mod_upper_bound; lia).
    rewrite (months_cycle_nth c) by (try assumption; apply Nat.mod_upper_bound; lia).
    change (reductions (set_base c (k * cbase c))) with (reductions c).
    change (eff_exp (set_base c (k * cbase c))) with (eff_exp c).
    cbn [cseas cstart cbase set_base]. field.
  Qed.

  Lemma grown_homogeneous : forall c k m,
    List.length (cseas c) = 12%nat -> (1 <= cstart c <= 12)%nat -> (m < cN c)%nat ->
    nthq (grown pw (set_base c (k * cbase c))) m == k * nthq (grown pw c) m.
  Proof.
    intros c k m Hl Hs Hm. unfold grown. change (carea (set_base c (k * cbase c))) with (carea c).
    destruct (Qlt_bool 1 (carea c)).
    - rewrite !map2_nth by (rewrite ?grown_climate_length, ?area_ramp_length; exact Hm).
      change (area_ramp (set_base c (k * cbase c))) with (area_ramp c).
      rewrite grown_climate_homogeneous by assumption. ring.
    - apply grown_climate_homogeneous; assumption.
  Qed.

  (* scaling the crop baseline by k scales every month of the series handed to the optimiser by exactly k *)
  Lemma production_homogeneous : forall c g k m,
    List.length (cseas c) = 12%nat -> List.length (crs c) = 9%nat -> (1 <= cstart c <= 12)%nat ->
    (m < cN c)%nat -> (cN c <= 120)%nat ->
    nthq (outdoor_production pw (set_base c (k * cbase c)) g) m == k * nthq (outdoor_production pw c g) m.
  Proof.
    intros c g k m Hl Hr Hs Hm HN. destruct (cadd c) eqn:Ha.
    - rewrite (outdoor_production_nth pw (set_base c (k * cbase c)) g m Ha Hm).
      rewrite (outdoor_production_nth pw c g m Ha Hm).
      unfold grown_on_land. cbn [crot chd crotdelay cN cwd set_base].
      destruct (crot c && (chd c + crotdelay c <=? m)%nat).
      + rewrite grown_homogeneous by assumption. ring.
      + rewrite norel_homogeneous by assumption. ring.
    - rewrite !outdoor_production_off by exact Ha. ring.
  Qed.
End Homogeneous.

(* ---------------------------------------------------------------- greenhouse crops *)
Lemma gh_per_ha_length : forall pw c g, List.length (gh_kcals_per_ha_grown pw c g) = cN c.
Proof. intros. unfold gh_kcals_per_ha_grown. cbv zeta. apply tab_length. Qed.

Lemma greenhouse_kcals_length : forall pw c g, (gadd g = true -> 42 <= cN c)%nat ->
  List.length (greenhouse_kcals pw c g) = cN c.
Proof.
  intros pw c g H. unfold greenhouse_kcals. destruct (Qeq_bool (gfrac g) 0); [apply rep_length|].
  destruct (gadd g) eqn:E; [|apply rep_length].
  rewrite map2_length, map_length, gh_per_ha_length, greenhouse_area_length by (rewrite E; exact H).
  apply Nat.min_id.
Qed.

(* greenhouse crops = mean monthly yield per hectare x climate ratio (relocated) x (1 + gain) x both wastes x area *)
Lemma greenhouse_kcals_nth : forall pw c g m, gadd g = true -> ~ gfrac g == 0 -> (42 <= cN c)%nat -> (m < cN c)%nat ->
  nthq (greenhouse_kcals pw c g) m ==
  (1 - cwd c / 100) * (1 - cwr c / 100) * (qsum (months_cycle c) / 12 / total_crop_area g
     * relocated pw (eff_exp c) (nthq (reductions c) m)) * (1 + ggain g / 100) * nthq (greenhouse_area (cN c) g) m.
Proof.
  intros pw c g m Hg Hf HN Hm. unfold greenhouse_kcals.
  destruct (Qeq_bool (gfrac g) 0) eqn:E; [apply Qeq_bool_iff in E; contradiction|]. rewrite Hg.
  rewrite map2_nth by (rewrite ?map_length, ?gh_per_ha_length, ?greenhouse_area_length; try exact Hm; intros; exact HN).
  rewrite nthq_map by (rewrite gh_per_ha_length; exact Hm).
  unfold gh_kcals_per_ha_grown. cbv zeta. rewrite tab_nth by exact Hm. rewrite !Qred_correct. ring.
Qed.

(* ---------------------------------------------------------------- seaweed growth factors *)
Lemma seaweed_growth_length : forall n daily, List.length (seaweed_growth n daily) = Nat.min n (List.length daily).
Proof. intros. unfold seaweed_growth. rewrite firstn_length, map_length. reflexivity. Qed.

Lemma seaweed_growth_nth : forall n daily m, (m < n)%nat -> (m < List.length daily)%nat ->
  nthq (seaweed_growth n daily) m = growth_factor (nthq daily m).
Proof.
  intros n daily m Hn Hl. unfold seaweed_growth. rewrite nthq_firstn by exact Hn. apply nthq_map. exact Hl.
Qed.

(* ================================================================ extension: year-1 ratio as the documented function *)
Definition harvest_before_may (seas : list Q) (o : option Q) : Q :=
  match o with Some v => v | None => qsum (firstn 4 seas) end.

(* nothing if the year-1 ratio does not exceed what was harvested before May; the full normal yield if less than a
   quarter of the harvest falls after May; otherwise the remaining ratio spread over the remaining harvest share *)
Definition year1_doc (r1 hbm : Q) : Q :=
  if Qle_bool r1 hbm then 0
  else if Qlt_bool (1 - hbm) (1 # 4) then 1
  else (r1 - hbm) / (1 - hbm).

Lemma Qle_bool_false : forall a b, Qle_bool a b = false <-> b < a.
Proof.
  intros a b. split; intro H.
  - apply Qnot_le_lt. intro L. apply Qle_bool_iff in L. congruence.
  - destruct (Qle_bool a b) eqn:E; [|reflexivity]. apply Qle_bool_iff in E. lra.
Qed.

Lemma year1_ratio_doc : forall r1 seas o, year1_ratio r1 seas o == year1_doc r1 (harvest_before_may seas o).
Proof.
  intros r1 seas o. unfold year1_ratio, year1_doc. cbv zeta. fold (harvest_before_may seas o).
  set (hbm := harvest_before_may seas o).
  destruct (Qlt_bool (r1 - hbm) 0) eqn:E1.
  - apply Qlt_bool_iff in E1. replace (Qlt_bool 0 0) with false by reflexivity.
    replace (Qle_bool r1 hbm) with true by (symmetry; apply Qle_bool_iff; lra). reflexivity.
  - apply Qlt_bool_false in E1. destruct (Qlt_bool 0 (r1 - hbm)) eqn:E2.
    + apply Qlt_bool_iff in E2. replace (Qle_bool r1 hbm) with false by (symmetry; apply Qle_bool_false; lra). reflexivity.
    + apply Qlt_bool_false in E2. replace (Qle_bool r1 hbm) with true by (symmetry; apply Qle_bool_iff; lra). reflexivity.
Qed.

Lemma qsum_cons : forall x l, qsum (x :: l) == x + qsum l.
Proof. intros. change (qsum (x :: l)) with (Qred (x + qsum l)). apply Qred_correct. Qed.

Lemma harvest_before_may_default : forall seas, List.length seas = 12%nat ->
  harvest_before_may seas None == nthq seas 0 + nthq seas 1 + nthq seas 2 + nthq seas 3.
Proof.
  intros seas H. do 12 (destruct seas as [|? seas]; [discriminate|]).
  unfold harvest_before_may. cbn [firstn]. rewrite !qsum_cons. unfold nthq; simpl. ring.
Qed.

Lemma year1_doc_range : forall r1 hbm, 0 <= hbm -> hbm <= 1 -> r1 <= 1 ->
  0 <= year1_doc r1 hbm /\ year1_doc r1 hbm <= 1.
Proof.
  intros r1 hbm H0 H1 Hr. unfold year1_doc.
  destruct (Qle_bool r1 hbm) eqn:E1; [lra|]. apply Qle_bool_false in E1.
  destruct (Qlt_bool (1 - hbm) (1 # 4)) eqn:E2; [lra|]. apply Qlt_bool_false in E2.
  split; [apply Qle_shift_div_l; lra|apply Qle_shift_div_r; lra].
Qed.

(* in the proportional branch the year-1 ratio lies on the same side of 1 as the annual ratio, and beyond it *)
Lemma year1_doc_vs_annual : forall r1 hbm, 0 <= hbm -> hbm < r1 -> 1 # 4 <= 1 - hbm ->
  (r1 <= 1 -> year1_doc r1 hbm <= r1) /\ (1 <= r1 -> r1 <= year1_doc r1 hbm).
Proof.
  intros r1 hbm H0 Hr Hf. unfold year1_doc.
  replace (Qle_bool r1 hbm) with false by (symmetry; apply Qle_bool_false; exact Hr).
  replace (Qlt_bool (1 - hbm) (1 # 4)) with false by (symmetry; apply Qlt_bool_false; exact Hf).
  split; intro H.
  - apply Qle_shift_div_r; [lra|]. nra.
  - apply Qle_shift_div_l; [lra|]. nra.
Qed.

(* the four special cases *)
Lemma country_hbm_cases :
  country_hbm "ZAF"%string = Some 1 /\ country_hbm "JPN"%string = Some 0 /\ country_hbm "PRK"%string = Some 0 /\ country_hbm "KOR"%string = Some 0 /\
  country_hbm "ARG"%string = None /\ country_hbm "WOR"%string = None.
Proof. repeat split; reflexivity. Qed.

Lemma year1_all_before_may : forall r1, year1_doc r1 1 == if Qle_bool r1 1 then 0 else 1.
Proof. intro r1. unfold year1_doc. destruct (Qle_bool r1 1); reflexivity. Qed.

Lemma year1_none_before_may : forall r1, year1_doc r1 0 == if Qle_bool r1 0 then 0 else r1.
Proof.
  intro r1. unfold year1_doc. destruct (Qle_bool r1 0); [reflexivity|].
  replace (Qlt_bool (1 - 0) (1 # 4)) with false by reflexivity. field.
Qed.

Lemma clamp0_proper : forall a b, a == b -> clamp0 a == clamp0 b.
Proof.
  intros a b H. unfold clamp0. destruct (Qle_bool a 0) eqn:E1; destruct (Qle_bool b 0) eqn:E2; try lra.
  - apply Qle_bool_iff in E1. apply Qle_bool_false in E2. lra.
  - apply Qle_bool_false in E1. apply Qle_bool_iff in E2. lra.
Qed.

Lemma norel_closed_form_doc : forall c m,
  List.length (cseas c) = 12%nat -> List.length (crs c) = 9%nat -> (1 <= cstart c <= 12)%nat ->
  (m < cN c)%nat -> (cN c <= 120)%nat ->
  nthq (norel_grown c) m ==
  cbase c * (1 - seed_percent / 100) * nthq (cseas c) ((m + (cstart c - 1)) mod 12) * 4000000 / 1000000000
  * clamp0 (if (m <? 8)%nat then year1_doc (cr1 c) (harvest_before_may (cseas c) (chbm c))
            else nthq (crs c) (year_of m - 1)).
Proof.
  intros c m Hl Hr Hs Hm HN. rewrite (norel_closed_form c m) by assumption.
  apply Qmult_comp; [reflexivity|]. unfold year_of.
  destruct (m <? 8)%nat eqn:E.
  - apply clamp0_proper. unfold nthq at 1. simpl. unfold year1. apply year1_ratio_doc.
  - apply clamp0_proper. destruct (m <? 104)%nat; unfold nthq; simpl; rewrite ?Nat.sub_0_r; reflexivity.
Qed.

(* ================================================================ extension: seaweed built area is non-decreasing *)
Definition cap (mx x : Q) : Q := if Qlt_bool mx x then mx else x.
Definition built_x (d : nat) (nf : Q) (m : nat) : Q :=
  if (m <? d)%nat then seaweed_init_area nf
  else seaweed_init_area nf + qnat (m - d) * (seaweed_new_area_global * nf).

Lemma cap_mono : forall mx x y, x <= y -> cap mx x <= cap mx y.
Proof.
  intros mx x y H. unfold cap. destruct (Qlt_bool mx x) eqn:E1; destruct (Qlt_bool mx y) eqn:E2;
  try apply Qlt_bool_iff in E1; try apply Qlt_bool_false in E1; try apply Qlt_bool_iff in E2; try apply Qlt_bool_false in E2; lra.
Qed.

Lemma cap_le : forall mx x, cap mx x <= mx.
Proof. intros. unfold cap. destruct (Qlt_bool mx x) eqn:E; [lra|apply Qlt_bool_false in E; exact E]. Qed.

Lemma built_area_nth : forall n d nf mf m, (m < n)%nat ->
  nthq (seaweed_built_area true n d nf mf) m == cap (seaweed_max_area mf) (built_x d nf m).
Proof.
  intros n d nf mf m Hm. unfold built_x, cap. destruct (Nat.ltb_spec m d) as [L|L].
  - apply built_area_before_delay; assumption.
  - rewrite built_area_after_delay by assumption. reflexivity.
Qed.

Lemma built_x_mono : forall d nf i j, 0 <= nf -> (i <= j)%nat -> built_x d nf i <= built_x d nf j.
Proof.
  intros d nf i j Hn Hij. unfold built_x.
  assert (P : 0 <= seaweed_new_area_global * nf).
  { apply Qmult_le_0_compat; [unfold seaweed_new_area_global, Qle; simpl; lia|exact Hn]. }
  set (per := seaweed_new_area_global * nf) in *. clearbody per.
  destruct (Nat.ltb_spec i d) as [L1|L1]; destruct (Nat.ltb_spec j d) as [L2|L2]; try lia.
  - lra.
  - pose proof (qnat_nonneg (j - d)). nra.
  - assert (qnat (i - d) <= qnat (j - d)) by (apply qnat_le; lia). nra.
Qed.

Lemma built_area_monotone : forall n d nf mf i j, 0 <= nf -> (i <= j)%nat -> (j < n)%nat ->
  nthq (seaweed_built_area true n d nf mf) i <= nthq (seaweed_built_area true n d nf mf) j.
Proof.
  intros n d nf mf i j Hn Hij Hj. rewrite !built_area_nth by lia. apply cap_mono. apply built_x_mono; assumption.
Qed.

(* without seaweed the area stays at its (capped) initial value *)
Lemma built_area_off_nth : forall n d nf mf m, (n <= 1000)%nat -> (m < n)%nat ->
  nthq (seaweed_built_area false n d nf mf) m == cap (seaweed_max_area mf) (seaweed_init_area nf).
Proof.
  intros n d nf mf m Hn Hm. unfold seaweed_built_area. cbv zeta.
  rewrite nthq_firstn by exact Hm.
  rewrite nthq_map by (rewrite app_length, rep_length, linspace_length; lia).
  rewrite nthq_app_l by (rewrite rep_length; lia). rewrite rep_nth by lia. reflexivity.
Qed.

(* ================================================================ extension: fat and protein series *)
Lemma wastefactor_nonneg : forall w, 0 <= w -> w <= 100 -> 0 <= 1 - w / 100.
Proof. intros w H0 H1. assert (w / 100 <= 1) by (apply Qle_shift_div_r; lra). lra. Qed.

Lemma og_fraction_nonneg : forall c nb, 0 <= cbase c -> 0 <= nb -> 0 <= og_fraction c nb.
Proof.
  intros c nb Hb Hn. unfold og_fraction. rewrite Qred_correct. destruct (Qeq_bool (annual_yield c) 0) eqn:E; [lra|].
  assert (A : 0 <= annual_yield c).
  { unfold annual_yield. rewrite Qred_correct. apply Qmult_le_0_compat; [exact Hb|unfold seed_percent, Qle; simpl; lia]. }
  assert (Ne : ~ annual_yield c == 0) by (intro Z; apply Qeq_bool_iff in Z; congruence).
  assert (P : 0 < annual_yield c * 4000000 / 1000000000) by (apply Qlt_shift_div_l; lra).
  apply Qle_shift_div_l; [exact P|]. assert (0 <= nb / 1000) by (apply Qle_shift_div_l; lra). lra.
Qed.

Lemma og_fraction_homogeneous : forall c nb k, og_fraction c (k * nb) == k * og_fraction c nb.
Proof.
  intros. unfold og_fraction. rewrite !Qred_correct. destruct (Qeq_bool (annual_yield c) 0) eqn:E; [ring|].
  field. intro Z. apply Qeq_bool_iff in Z. congruence.
Qed.

Section Nutrients.
  Variable pw : Q -> Q -> Q.
  Hypothesis pw_ge : forall x e, 0 <= x -> x <= 1 -> 0 < e -> e <= 1 -> x <= pw x e.
  Hypothesis pw_le1 : forall x e, 0 <= x -> x <= 1 -> 0 < e -> e <= 1 -> pw x e <= 1.

  Lemma production_nonneg : forall c g m,
    all_nonneg (months_cycle c) -> exp_ok c -> 1 <= carea c -> (m < cN c)%nat ->
    (gadd g = true -> 42 <= cN c)%nat -> 0 <= total_crop_area g -> 0 <= gmult g -> gmult g <= 1 -> waste_ok c ->
    0 <= nthq (outdoor_production pw c g) m.
  Proof.
    intros c g m Hc He Ha Hm Hg Ht H0 H1 [W0 W1]. destruct (cadd c) eqn:Hadd.
    - rewrite (outdoor_production_nth pw c g m Hadd Hm). rewrite (greenhouse_fraction_nth (cN c) g m Hg Hm).
      destruct (frac_spec_range g m Ht H0 H1) as [F0 F1].
      pose proof (wastefactor_nonneg (cwd c) W0 W1) as W.
      assert (G : 0 <= grown_on_land pw c m).
      { unfold grown_on_land. pose proof (norel_nonneg c Hc m) as Z.
        destruct (crot c && (chd c + crotdelay c <=? m)%nat); [|exact Z].
        apply Qle_trans with (nthq (norel_grown c) m); [exact Z|]. apply (grown_ge_norel pw pw_ge); assumption. }
      apply Qmult_le_0_compat; [|exact W]. apply Qmult_le_0_compat; [exact G|lra].
    - rewrite outdoor_production_off by exact Hadd. lra.
  Qed.

  Lemma outdoor_nutrient_length : forall c g nb, List.length (outdoor_nutrient pw c g nb) = cN c.
  Proof. intros. unfold outdoor_nutrient. cbv zeta. rewrite map_length. apply crops_produced_length. Qed.

  (* fat / protein of a month = the crop fraction times that month's kcals *)
  Lemma outdoor_nutrient_nth : forall c g nb m, (m < cN c)%nat ->
    nthq (outdoor_nutrient pw c g nb) m == og_fraction c nb * nthq (outdoor_production pw c g) m.
  Proof.
    intros c g nb m Hm. unfold outdoor_nutrient, outdoor_production. cbv zeta.
    rewrite !nthq_map by (rewrite crops_produced_length; exact Hm). ring.
  Qed.

  Lemma outdoor_nutrient_homogeneous : forall c g nb k m, (m < cN c)%nat ->
    nthq (outdoor_nutrient pw c g (k * nb)) m == k * nthq (outdoor_nutrient pw c g nb) m.
  Proof. intros. rewrite !outdoor_nutrient_nth by assumption. rewrite og_fraction_homogeneous. ring. Qed.

  Lemma outdoor_nutrient_nonneg : forall c g nb m,
    0 <= cbase c -> 0 <= nb ->
    all_nonneg (months_cycle c) -> exp_ok c -> 1 <= carea c -> (m < cN c)%nat ->
    (gadd g = true -> 42 <= cN c)%nat -> 0 <= total_crop_area g -> 0 <= gmult g -> gmult g <= 1 -> waste_ok c ->
    0 <= nthq (outdoor_nutrient pw c g nb) m.
  Proof.
    intros. rewrite outdoor_nutrient_nth by assumption.
    apply Qmult_le_0_compat; [apply og_fraction_nonneg; assumption|apply production_nonneg; assumption].
  Qed.

  Lemma greenhouse_nutrient_length : forall c g nb rr, (gadd g = true -> 42 <= cN c)%nat ->
    List.length (greenhouse_nutrient pw c g nb rr) = cN c.
  Proof.
    intros c g nb rr H. unfold greenhouse_nutrient. destruct (Qeq_bool (gfrac g) 0); [apply rep_length|].
    destruct (gadd g) eqn:E; [|apply rep_length]. cbv zeta.
    rewrite map2_length, map_length, gh_per_ha_length, greenhouse_area_length by (rewrite E; exact H).
    apply Nat.min_id.
  Qed.

  Lemma greenhouse_nutrient_nth : forall c g nb rr m, (gadd g = true -> 42 <= cN c)%nat -> (m < cN c)%nat ->
    nthq (greenhouse_nutrient pw c g nb rr) m == rotation_ratio c nb rr * nthq (greenhouse_kcals pw c g) m.
  Proof.
    intros c g nb rr m H Hm. unfold greenhouse_nutrient, greenhouse_kcals.
    destruct (Qeq_bool (gfrac g) 0); [rewrite !rep_nth by exact Hm; ring|].
    destruct (gadd g) eqn:E; [|rewrite !rep_nth by exact Hm; ring]. cbv zeta.
    rewrite !map2_nth by (rewrite ?map_length, ?gh_per_ha_length, ?greenhouse_area_length; try exact Hm; rewrite E; exact H).
    rewrite !nthq_map by (rewrite gh_per_ha_length; exact Hm). ring.
  Qed.
End Nutrients.

Lemma scp_nutrient_length : forall conv k, List.length (scp_nutrient conv k) = List.length k.
Proof. intros. unfold scp_nutrient. apply map_length. Qed.

Lemma scp_nutrient_nth : forall conv k m, (m < List.length k)%nat -> nthq (scp_nutrient conv k) m = nthq k m * conv.
Proof. intros. unfold scp_nutrient. apply (nthq_map (fun x => x * conv)). assumption. Qed.

Lemma scp_conversions_positive : 0 < scp_fat_conversion /\ 0 < scp_protein_conversion.
Proof. split; vm_compute; reflexivity. Qed.

Lemma cs_nutrient_zero : forall k, List.length (cs_nutrient k) = List.length k /\ forall m, nthq (cs_nutrient k) m == 0.
Proof.
  intro k. split; [apply map_length|]. intro m. destruct (Nat.lt_ge_cases m (List.length k)) as [L|L].
  - unfold cs_nutrient. rewrite (nthq_map (fun _ => 0)) by exact L. reflexivity.
  - rewrite nthq_overflow by (unfold cs_nutrient; rewrite map_length; exact L). reflexivity.
Qed.

Lemma fish_nutrient_length : forall add n a wd wr pct, (n <= List.length pct)%nat ->
  List.length (fish_nutrient_series add n a wd wr pct) = n.
Proof. intros. unfold fish_nutrient_series. destruct add; rewrite map_length, firstn_length; lia. Qed.

Lemma fish_nutrient_nth : forall n a wd wr pct m, (n <= List.length pct)%nat -> (m < n)%nat ->
  nthq (fish_nutrient_series true n a wd wr pct) m ==
  a / 1000 / 12 * ((1 - wd / 100) * (1 - wr / 100)) * (nthq pct m / 100).
Proof.
  intros n a wd wr pct m Hl Hm. unfold fish_nutrient_series.
  rewrite nthq_map by (rewrite firstn_length; lia). rewrite nthq_firstn by exact Hm.
  unfold fish_nutrient_monthly. field.
Qed.

Lemma fish_nutrient_homogeneous : forall add n a wd wr pct k m, (n <= List.length pct)%nat -> (m < n)%nat ->
  nthq (fish_nutrient_series add n (k * a) wd wr pct) m == k * nthq (fish_nutrient_series add n a wd wr pct) m.
Proof.
  intros add n a wd wr pct k m Hl Hm. destruct add.
  - rewrite !fish_nutrient_nth by assumption. field.
  - unfold fish_nutrient_series. rewrite !nthq_map by (rewrite firstn_length; lia). ring.
Qed.

Lemma fish_factor_nonneg : forall x wd wr p, 0 <= x -> 0 <= wd -> wd <= 100 -> 0 <= wr -> wr <= 100 -> 0 <= p ->
  0 <= x * ((1 - wd / 100) * (1 - wr / 100)) * (p / 100).
Proof.
  intros x wd wr p Hx A B C D Hp.
  pose proof (wastefactor_nonneg wd A B). pose proof (wastefactor_nonneg wr C D).
  assert (0 <= p / 100) by (apply Qle_shift_div_l; lra).
  apply Qmult_le_0_compat; [|assumption]. apply Qmult_le_0_compat; [assumption|].
  apply Qmult_le_0_compat; assumption.
Qed.

Lemma fish_nutrient_nonneg : forall add n a wd wr pct m, (n <= List.length pct)%nat -> (m < n)%nat ->
  0 <= a -> 0 <= wd -> wd <= 100 -> 0 <= wr -> wr <= 100 -> all_nonneg pct ->
  0 <= nthq (fish_nutrient_series add n a wd wr pct) m.
Proof.
  intros add n a wd wr pct m Hl Hm Ha A B C D Hp. destruct add.
  - rewrite fish_nutrient_nth by assumption. apply fish_factor_nonneg; try assumption; [|apply Hp].
    assert (0 <= a / 1000) by (apply Qle_shift_div_l; lra). apply Qle_shift_div_l; lra.
  - unfold fish_nutrient_series. rewrite (nthq_map (fun _ => 0)) by (rewrite firstn_length; lia). lra.
Qed.

Lemma fish_nonneg : forall add n a wd wr pct m, (n <= List.length pct)%nat -> (m < n)%nat ->
  0 <= a -> 0 <= wd -> wd <= 100 -> 0 <= wr -> wr <= 100 -> all_nonneg pct ->
  0 <= nthq (fish_series add n a wd wr pct) m.
Proof.
  intros add n a wd wr pct m Hl Hm Ha A B C D Hp. destruct add.
  - rewrite fish_nth by assumption. apply fish_factor_nonneg; try assumption; [|apply Hp].
    assert (0 <= a * 4000000 / 1000000000) by (apply Qle_shift_div_l; lra). apply Qle_shift_div_l; lra.
  - unfold fish_series. rewrite (nthq_map (fun _ => 0)) by (rewrite firstn_length; lia). lra.
Qed.

Lemma demand_nutrient_length : forall n d t, (d <= n)%nat -> List.length (demand_nutrient_series n d t) = n.
Proof. intros. unfold demand_nutrient_series. rewrite app_length, !rep_length. lia. Qed.

Lemma demand_nutrient_nth : forall n d t m, (m < n)%nat ->
  nthq (demand_nutrient_series n d t) m == if (m <? d)%nat then t / 12 / 1000 else 0.
Proof.
  intros n d t m Hm. unfold demand_nutrient_series.
  destruct (Nat.ltb_spec m d) as [E|E].
  - rewrite nthq_app_l by (rewrite rep_length; exact E). rewrite rep_nth by exact E. reflexivity.
  - rewrite nthq_app_r by (rewrite rep_length; exact E). rewrite rep_length. rewrite rep_nth by lia. reflexivity.
Qed.

Lemma demand_nutrient_homogeneous : forall n d t k m, (m < n)%nat ->
  nthq (demand_nutrient_series n d (k * t)) m == k * nthq (demand_nutrient_series n d t) m.
Proof. intros. rewrite !demand_nutrient_nth by assumption. destruct (m <? d)%nat; field. Qed.

Lemma demand_nonneg : forall n d py m, (m < n)%nat -> 0 <= py ->
  0 <= nthq (demand_series n d py) m /\ 0 <= nthq (demand_nutrient_series n d py) m.
Proof.
  intros n d py m Hm Hp. rewrite demand_nth, demand_nutrient_nth by assumption.
  assert (0 <= py / 12) by (apply Qle_shift_div_l; lra).
  assert (0 <= py / 12 * 4000000 / 1000000000) by (apply Qle_shift_div_l; lra).
  assert (0 <= py / 12 / 1000) by (apply Qle_shift_div_l; lra).
  destruct (m <? d)%nat; split; lra.
Qed.
