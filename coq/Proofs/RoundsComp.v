(* C03, last sentence, composed over the WHOLE three-round pipeline:

     "In every round and month the feed and biofuel drawn from human-edible food never exceed the scenario's
      demand schedule and are zero from the configured shut-off month onwards."

   The pieces composed here (none of them is edited):
     Proofs/Rounds.v     (C03)  demand schedule; LP rows of the feed / biofuel totals in both optimisation types
     Proofs/LPChar.v     (C01)  what a feasible assignment of the LP satisfies
     Proofs/MeatDairy.v  (C05)  herds never eat more feed than they are offered; the final round's charge
     Proofs/Herd.v       (C07)  the same feeding routine in the herd model (shown equal below)
     Proofs/Helpers.v    (C18)  increase_biofuels_then_feed: never lowers, feed ceiling, biofuel ceiling (with domain)

   The glue between the rounds (src/optimizer/parameters.py: the ..._round1 initialiser,
   compute_parameters_second_round, compute_parameters_third_round; src/scenarios/run_scenario.py: run_round_2,
   run_and_analyze_scenario) is written out below month by month from model functions that already exist in
   Model/MeatDairy.v; every "link" between an LP input field and such a function is an explicit premise of
   c03_all_rounds, with the property whose tie checks that equation on real runs named next to it.

   Two models of the same code exist twice; both pairs are shown equal here and one of each is used:
     increase_biofuels_then_feed : MeatDairy.increase_month = Helpers.bump1   (increase_month_is_bump1, by computation)
     feed_animals (supply side)  : MeatDairy.feed_animals   = Herd.feed_chain (feed_animals_is_feed_chain)
   The statements use the MeatDairy functions (those are the ones C05 compares with the round glue of real runs);
   the C18 bounds are transported through the first equation, C07's conservation through the second.

   Units: the LP works in billion kcals a month; run_round_2 clips in kcals per person per day.  The conversion is
   x |-> x * k with one positive factor k (Food.in_units_kcals_equivalent / in_units_bil_kcals...), the same k that
   MeatDairy.increase_of uses. *)
From Coq Require Import QArith Qminmax List Arith Lia Lqa Bool.
From Allfed Require Import Base.QList Model.LP Model.LPBool Model.Rounds Model.Herd Model.Helpers Model.MeatDairy.
From Allfed Require Import Proofs.LPChar Proofs.LPBoolSound Proofs.Rounds Proofs.Herd Proofs.Helpers Proofs.MeatDairy.
Import ListNotations.
Open Scope Q_scope.

(* ================================================================== 0. the duplicated models agree *)

Lemma increase_month_is_bump1 b f inc mb mf tc : increase_month b f inc mb mf tc = bump1 b f inc mb mf tc.
Proof. unfold increase_month, bump1, npmin, npmax, Qmin', Qmax0, regulariser. cbv zeta. reflexivity. Qed.

Definition eater_of (s : feeder) : eater :=
  {| e_req := fd_req s; e_ruminant := fd_rum s; e_eg := fd_eg s; e_ef := fd_ef s |}.

Lemma feed_species_is_feed_the_species s g f :
  feed_species (fd_eg s) (fd_ef s) (fd_req s) (fd_rum s) g f =
  (fo_grass (feed_the_species s g f), fo_feed (feed_the_species s g f)).
Proof.
  unfold feed_species, feed_the_species, Model.Herd.Qltb.
  destruct (Qeq_bool (fd_req s) 0); [reflexivity|].
  destruct (Qle_bool (fd_req s) (if fd_rum s then g * fd_eg s else 0)); [reflexivity|].
  destruct (negb (Qle_bool (if fd_rum s then g * fd_eg s else 0) 0));
    match goal with |- context [Qle_bool ?x (f * fd_ef s)] => destruct (Qle_bool x (f * fd_ef s)) end; reflexivity.
Qed.

Lemma feed_animals_is_feed_chain l : forall g f,
  feed_animals (map eater_of l) g f = (snd (fst (feed_chain l g f)), snd (feed_chain l g f)).
Proof.
  unfold feed_animals. induction l as [|s l IH]; intros g f; cbn [map fold_left feed_chain fst snd]; [reflexivity|].
  change (e_eg (eater_of s)) with (fd_eg s). change (e_ef (eater_of s)) with (fd_ef s).
  change (e_req (eater_of s)) with (fd_req s). change (e_ruminant (eater_of s)) with (fd_rum s).
  rewrite feed_species_is_feed_the_species. cbn [fst snd]. rewrite IH.
  destruct (feed_chain l (fo_grass (feed_the_species s g f)) (fo_feed (feed_the_species s g f))) as [[os g1] f1].
  reflexivity.
Qed.

(* hence the feed "used" of MeatDairy is the sum of the per-herd uses whose conservation C07 proves *)
Lemma month_feed_used_is_chain_sum l g f : Forall feeder_ok l -> 0 <= g -> 0 <= f ->
  month_feed_used (map eater_of l) g f == sumq (map snd (used_chain l g f)) /\
  month_grass_used (map eater_of l) g f == sumq (map fst (used_chain l g f)).
Proof.
  intros Hok Hg Hf. unfold month_feed_used, month_grass_used. rewrite feed_animals_is_feed_chain.
  pose proof (chain_conservation l g f Hok Hg Hf) as P.
  destruct (feed_chain l g f) as [[os g1] f1]. cbn [fst snd]. destruct P as (_ & A & B & _). lra.
Qed.

Lemma eaters_ok_of_feeders l : Forall feeder_ok l -> eaters_ok (map eater_of l).
Proof.
  unfold eaters_ok. induction 1 as [|s l Hs _ IH]; cbn [map]; constructor; [|exact IH].
  destruct Hs as (_ & _ & A & B). split; assumption.
Qed.

(* ================================================================== 1. the glue, month by month *)

(* what the property speaks about: the two totals of an allocation, and "every feed / biofuel variable is zero" *)
Definition feed_vars_zero (i : lp_in) (a : assignment) (m : nat) : Prop :=
  (add_sf i = true -> a SF_f m == 0) /\ (add_cr i = true -> a CR_f m == 0) /\ (add_sw i = true -> a SW_f m == 0) /\
  (add_cs i = true -> a CS_f m == 0) /\ (add_scp i = true -> a SCP_f m == 0).
Definition biofuel_vars_zero (i : lp_in) (a : assignment) (m : nat) : Prop :=
  (add_sf i = true -> a SF_b m == 0) /\ (add_cr i = true -> a CR_b m == 0) /\ (add_sw i = true -> a SW_b m == 0) /\
  (add_cs i = true -> a CS_b m == 0) /\ (add_scp i = true -> a SCP_b m == 0).

(* the last sentence of C03 for ONE round: monthly feed amount xf for the first df months, biofuel xb for db months *)
Definition c03_clause (i : lp_in) (a : assignment) (xf : Q) (df : nat) (xb : Q) (db : nat) (N : nat) : Prop :=
  forall m, (m < N)%nat ->
    feed_sum i a m <= nth m (demand xf df N) 0 /\
    biofuel_sum i a m <= nth m (demand xb db N) 0 /\
    ((df <= m)%nat -> feed_vars_zero i a m) /\
    ((db <= m)%nat -> biofuel_vars_zero i a m).

(* everything the round glue reads besides the LP results *)
Record glue := {
  g_tree : tree_in;                 (* the three flags of the round decision tree *)
  g_k : Q;                          (* billion kcals a month -> kcals per person per day (positive) *)
  g_const : Q;                      (* the rule-of-thumb constant: 20, 100 for NZL *)
  g_grass : list Q;                 (* human_inedible_feed, billion kcals a month *)
  g_herd1 : nat -> list eater;      (* the herds of the zero-feed simulation in month m, in feeding order *)
  g_herd2 : nat -> list eater;      (* ... of the simulation that is offered the demand schedule *)
  g_herd3 : nat -> list eater;      (* ... of the simulation the final round uses *)
  g_meat1 : list Q; g_meat3 : list Q;   (* each_month_meat_slaughtered of round 1 / round 3, billion kcals *)
  g_crops : list Q                  (* total_crops_available of the top-up *)
}.

(* --- round 1: the herds are run on herd_feed_round1 = zeros; time_consts['feed'] is what they used,
       time_consts['biofuel'] is an array of zeros *)
Definition round1_feed_charge (G : glue) (m : nat) : Q := month_feed_used (g_herd1 G m) (at_ (g_grass G) m) 0.
Definition round1_biofuel_charge (m : nat) : Q := 0.

(* --- round 2: the herds are run on herd_feed_round2 fd = fd (the feed demand schedule); the feed ceiling is what
       they used; the biofuel ceiling is the biofuel demand schedule itself (time_consts_round2
       ['max_biofuel_that_could_be_used'] = biofuels_demand) *)
Definition round2_max_feed (G : glue) (fd : list Q) (m : nat) : Q :=
  month_feed_used (g_herd2 G m) (at_ (g_grass G) m) (at_ (herd_feed_round2 fd) m).
Definition round2_max_biofuel (bd : list Q) (m : nat) : Q := at_ bd m.

(* --- between rounds 2 and 3: run_round_2 clips the two totals in kcals per person per day, the third-round
       set-up converts back to billion kcals *)
Definition clip20 (k x : Q) : Q := round2_clip (x * k) / k.

(* the feed offered to the final round's herds: (clipped round-2 total) x 0.999999999 when round 2 delivered,
   zeros (the zero-feed herds are reused) in both skip branches.  This is nth m (herd_feed_round3 ...) 0, see
   round3_supply_month_spec *)
Definition round3_supply_month (t : tree_in) (k feed2_m : Q) : Q :=
  match round3_source t with NewRound3 => clip20 k feed2_m * SHAVE | ReuseRound1 => 0 end.

(* the biofuel total handed to the final round: clipped round-2 total, or the zeros of
   get_interpreted_results_for_round3_if_zero_feed *)
Definition round3_biofuel_month (t : tree_in) (k bio2_m : Q) : Q :=
  match round3_source t with NewRound3 => clip20 k bio2_m | ReuseRound1 => 0 end.

Definition round3_eaten (G : glue) (feed2 : list Q) (m : nat) : Q :=
  month_feed_used (g_herd3 G m) (at_ (g_grass G) m) (round3_supply_month (g_tree G) (g_k G) (at_ feed2 m)).

(* arguments of increase_biofuels_then_feed in month m: ceilings = the two demand schedules *)
Definition round3_bump (G : glue) (bio2 fd bd : list Q) (m : nat) : bump_in :=
  {| b_biofuel := round3_biofuel_month (g_tree G) (g_k G) (at_ bio2 m);
     b_increase := increase_of (g_k G) (g_const G) (at_ (g_meat3 G) m) (at_ (g_meat1 G) m);
     b_max_biofuel := at_ bd m; b_max_feed := at_ fd m; b_total_crops := at_ (g_crops G) m |}.

(* the biofuel twin of MeatDairy.charge_month: first component of the same call *)
Definition biofuel_charge_month (round1_was_run : bool) (eaten : Q) (b : bump_in) : Q :=
  if round1_was_run
  then fst (increase_month (b_biofuel b) eaten (b_increase b) (b_max_biofuel b) (b_max_feed b) (b_total_crops b))
  else b_biofuel b.

(* time_consts_round3['feed'|'biofuel'].kcals[m] as functions of the round-2 totals feed2, bio2 (billion kcals) *)
Definition round3_feed_charge (G : glue) (feed2 bio2 fd bd : list Q) (m : nat) : Q :=
  charge_month (round1_run (g_tree G)) (round3_eaten G feed2 m) (round3_bump G bio2 fd bd m).
Definition round3_biofuel_charge (G : glue) (feed2 bio2 fd bd : list Q) (m : nat) : Q :=
  biofuel_charge_month (round1_run (g_tree G)) (round3_eaten G feed2 m) (round3_bump G bio2 fd bd m).

(* the standing side conditions on the glue: positive conversion factor, positive digestion efficiencies,
   non-negative grass *)
Definition glue_ok (G : glue) (N : nat) : Prop :=
  0 < g_k G /\
  forall m, (m < N)%nat ->
    0 <= at_ (g_grass G) m /\ eaters_ok (g_herd1 G m) /\ eaters_ok (g_herd2 G m) /\ eaters_ok (g_herd3 G m).

(* ================================================================== 2. small facts about the glue *)

Lemma round3_supply_month_spec t n k feed2 m : (m < List.length feed2)%nat ->
  nth m (herd_feed_round3 t n (map (clip20 k) feed2)) 0 == round3_supply_month t k (nth m feed2 0).
Proof.
  intro Hm. unfold herd_feed_round3, round3_supply_month. destruct (round3_source t).
  - unfold herd_feed_round1. rewrite zeros_nth. reflexivity.
  - rewrite round3_available_nth.
    rewrite (nth_indep (map (clip20 k) feed2) 0 (clip20 k 0)) by (rewrite map_length; exact Hm).
    rewrite map_nth. reflexivity.
Qed.

Lemma clip20_nonneg k x : 0 < k -> 0 <= clip20 k x.
Proof.
  intro Hk. unfold clip20, round2_clip. apply Qle_shift_div_l; [exact Hk|].
  generalize (Qmax0_nonneg (x * k - 20)). lra.
Qed.

(* the clip never raises a value, and keeps it under any non-negative ceiling the value was under *)
Lemma clip20_le k x d : 0 < k -> x <= d -> 0 <= d -> clip20 k x <= d.
Proof.
  intros Hk Hx Hd. unfold clip20, round2_clip. apply Qle_shift_div_r; [exact Hk|].
  unfold Qmax0. destruct (Qle_bool 0 (x * k - 20)) eqn:E.
  - assert (x * k <= d * k) by (apply Qmult_le_compat_r; lra). lra.
  - assert (0 <= d * k) by (apply Qmult_le_0_compat; lra). lra.
Qed.

Lemma shave_le x : 0 <= x -> 0 <= x * SHAVE /\ x * SHAVE <= x.
Proof. intro H. unfold SHAVE. lra. Qed.

Lemma round3_supply_bounds t k x d : 0 < k -> x <= d -> 0 <= d ->
  0 <= round3_supply_month t k x /\ round3_supply_month t k x <= d.
Proof.
  intros Hk Hx Hd. unfold round3_supply_month. destruct (round3_source t); [lra|].
  pose proof (clip20_nonneg k x Hk) as A. pose proof (clip20_le k x d Hk Hx Hd) as B.
  destruct (shave_le _ A). lra.
Qed.

Lemma round3_biofuel_bounds t k x d : 0 < k -> x <= d -> 0 <= d ->
  0 <= round3_biofuel_month t k x /\ round3_biofuel_month t k x <= d.
Proof.
  intros Hk Hx Hd. unfold round3_biofuel_month. destruct (round3_source t); [lra|].
  split; [apply clip20_nonneg; exact Hk | apply clip20_le; assumption].
Qed.

Lemma increase_of_nonneg k const m3 m1 : 0 < k -> 0 <= increase_of k const m3 m1.
Proof.
  intro Hk. unfold increase_of. apply Qle_shift_div_l; [exact Hk|].
  generalize (Qmax0_nonneg ((m3 - m1) / 2 * k - const)). lra.
Qed.

(* C07 / C05: the herds of the final round eat no more than they are offered, which is no more than the round-2
   total, which is within the schedule *)
Lemma round3_eaten_le G N feed2 d m : glue_ok G N -> (m < N)%nat -> at_ feed2 m <= d -> 0 <= d ->
  round3_eaten G feed2 m <= d.
Proof.
  intros (Hk & Hg) Hm Hx Hd. destruct (Hg m Hm) as (Gr & _ & _ & H3).
  destruct (round3_supply_bounds (g_tree G) (g_k G) (at_ feed2 m) d Hk Hx Hd) as (S0 & S1).
  destruct (used_le_available (g_herd3 G m) (at_ (g_grass G) m) _ H3 Gr S0) as (_ & U).
  unfold round3_eaten. lra.
Qed.

(* C18 through increase_month_is_bump1: the top-up leaves feed within its schedule (no premise on its inputs
   besides eaten <= schedule) ... *)
Lemma charge_month_le r1 eaten b : eaten <= b_max_feed b -> charge_month r1 eaten b <= b_max_feed b.
Proof.
  intro H. unfold charge_month. destruct r1; [|exact H]. rewrite increase_month_is_bump1.
  destruct (bump1_feed_ceiling (b_biofuel b) eaten (b_increase b) (b_max_biofuel b) (b_max_feed b) (b_total_crops b))
    as (A & _).
  rewrite (Q.max_r _ _ H) in A. exact A.
Qed.

(* ... and biofuel within its own, the domain premise of c18_bump_biofuel_ceiling being exactly what the earlier
   steps give *)
Lemma biofuel_charge_month_le r1 eaten b :
  b_biofuel b <= b_max_biofuel b -> eaten <= b_max_feed b -> 0 <= b_increase b ->
  biofuel_charge_month r1 eaten b <= b_max_biofuel b.
Proof.
  intros Hb Hf Hi. unfold biofuel_charge_month. destruct r1; [|exact Hb]. rewrite increase_month_is_bump1.
  destruct (bump1_biofuel_ceiling (b_biofuel b) eaten (b_increase b) (b_max_biofuel b) (b_max_feed b)
              (b_total_crops b) Hb Hf Hi) as (A & _).
  exact A.
Qed.

Lemma biofuel_charge_month_ge r1 eaten b : b_biofuel b <= biofuel_charge_month r1 eaten b.
Proof. unfold biofuel_charge_month. destruct r1; [apply increase_month_biofuel_ge | apply Qle_refl]. Qed.

(* the round-3 charges are within the schedules whenever the round-2 totals were *)
Lemma round3_charges_within G N feed2 bio2 fd bd m : glue_ok G N -> (m < N)%nat ->
  at_ feed2 m <= at_ fd m -> at_ bio2 m <= at_ bd m -> 0 <= at_ fd m -> 0 <= at_ bd m ->
  round3_feed_charge G feed2 bio2 fd bd m <= at_ fd m /\ round3_biofuel_charge G feed2 bio2 fd bd m <= at_ bd m.
Proof.
  intros HG Hm Hf Hb Hfd Hbd.
  pose proof (round3_eaten_le G N feed2 (at_ fd m) m HG Hm Hf Hfd) as E.
  destruct HG as (Hk & _).
  split.
  - unfold round3_feed_charge.
    exact (charge_month_le _ _ (round3_bump G bio2 fd bd m) E).
  - unfold round3_biofuel_charge.
    apply (biofuel_charge_month_le _ _ (round3_bump G bio2 fd bd m)); cbn [round3_bump b_biofuel b_max_biofuel b_max_feed b_increase].
    + apply round3_biofuel_bounds; assumption.
    + exact E.
    + apply increase_of_nonneg; exact Hk.
Qed.

(* LP side, human-maximising rounds, one quantity at a time (the existing lemma needs both charges at once) *)
Lemma humans_zero_feed_charge i a m : Feasible i ToHumans a -> has_nonhuman i = true -> 0 < sw_kcals i ->
  (m < NM i)%nat -> at_ (feed_charge i) m <= 0 -> feed_vars_zero i a m.
Proof.
  intros F Hn Hk Hm H. pose proof (Feasible_feed_biofuel i ToHumans a F m Hm) as R.
  apply (sat_rows_feed_biofuel_humans i a m Hn) in R. destruct R as [R1 _].
  apply feed_sum_zero_each; [exact (Feasible_nonneg i ToHumans a F) | exact Hk | lra].
Qed.

Lemma humans_zero_biofuel_charge i a m : Feasible i ToHumans a -> has_nonhuman i = true -> 0 < sw_kcals i ->
  (m < NM i)%nat -> at_ (biofuel_charge i) m <= 0 -> biofuel_vars_zero i a m.
Proof.
  intros F Hn Hk Hm H. pose proof (Feasible_feed_biofuel i ToHumans a F m Hm) as R.
  apply (sat_rows_feed_biofuel_humans i a m Hn) in R. destruct R as [_ R2].
  apply biofuel_sum_zero_each; [exact (Feasible_nonneg i ToHumans a F) | exact Hk | lra].
Qed.

(* any human-maximising round whose charges are within the schedule satisfies the clause *)
Lemma humans_clause i a xf df xb db N :
  Feasible i ToHumans a -> has_nonhuman i = true -> 0 < sw_kcals i -> NM i = N ->
  (forall m, (m < N)%nat -> at_ (feed_charge i) m <= nth m (demand xf df N) 0 /\
                            at_ (biofuel_charge i) m <= nth m (demand xb db N) 0) ->
  c03_clause i a xf df xb db N.
Proof.
  intros F Hn Hk HN Hc m Hm. destruct (Hc m Hm) as (C1 & C2).
  assert (Hm' : (m < NM i)%nat) by (rewrite HN; exact Hm).
  destruct (humans_within_demand i a _ _ F Hn m Hm' C1 C2) as (A & B).
  split; [exact A|]. split; [exact B|]. split; intro Hd.
  - apply humans_zero_feed_charge; try assumption. rewrite (demand_after xf df N m Hd) in C1. exact C1.
  - apply humans_zero_biofuel_charge; try assumption. rewrite (demand_after xb db N m Hd) in C2. exact C2.
Qed.

(* ================================================================== 3. the three rounds *)

(* Round 1.  Links:  time_consts_round1['feed'] = what the zero-feed herds used ; ['biofuel'] = zeros. *)
Lemma c03_round1 G i1 a1 xf df xb db N :
  glue_ok G N -> 0 <= xf -> 0 <= xb ->
  Feasible i1 ToHumans a1 -> has_nonhuman i1 = true -> 0 < sw_kcals i1 -> NM i1 = N ->
  (forall m, (m < N)%nat -> at_ (feed_charge i1) m == round1_feed_charge G m) ->
  (forall m, (m < N)%nat -> at_ (biofuel_charge i1) m == round1_biofuel_charge m) ->
  c03_clause i1 a1 xf df xb db N /\
  (forall m, (m < N)%nat -> feed_sum i1 a1 m == 0 /\ biofuel_sum i1 a1 m == 0 /\
                            feed_vars_zero i1 a1 m /\ biofuel_vars_zero i1 a1 m).
Proof.
  intros (Hk & HG) Hxf Hxb F Hn Hsw HN L1 L2.
  assert (Z : forall m, (m < N)%nat -> at_ (feed_charge i1) m == 0 /\ at_ (biofuel_charge i1) m == 0).
  { intros m Hm. destruct (HG m Hm) as (Gr & H1 & _). split.
    - rewrite (L1 m Hm). unfold round1_feed_charge. apply no_feed_none_eaten; assumption.
    - rewrite (L2 m Hm). reflexivity. }
  split.
  - apply humans_clause; try assumption. intros m Hm. destruct (Z m Hm) as (Z1 & Z2).
    pose proof (demand_nonneg xf df N m Hxf). pose proof (demand_nonneg xb db N m Hxb). split; lra.
  - intros m Hm. destruct (Z m Hm) as (Z1 & Z2).
    assert (Hm' : (m < NM i1)%nat) by (rewrite HN; exact Hm).
    pose proof (Feasible_feed_biofuel i1 ToHumans a1 F m Hm') as R.
    apply (sat_rows_feed_biofuel_humans i1 a1 m Hn) in R. destruct R as [R1 R2].
    split; [lra|]. split; [lra|]. split.
    + apply humans_zero_feed_charge; try assumption. lra.
    + apply humans_zero_biofuel_charge; try assumption. lra.
Qed.

(* the form asked for: zero charges, stated directly *)
Lemma c03_round1_zero_charges i1 a1 :
  Feasible i1 ToHumans a1 -> has_nonhuman i1 = true -> 0 < sw_kcals i1 ->
  (forall m, (m < NM i1)%nat -> at_ (feed_charge i1) m == 0 /\ at_ (biofuel_charge i1) m == 0) ->
  forall m, (m < NM i1)%nat -> feed_vars_zero i1 a1 m /\ biofuel_vars_zero i1 a1 m.
Proof.
  intros F Hn Hsw Z m Hm. destruct (Z m Hm) as (Z1 & Z2).
  apply (humans_zero_charge_zero_use i1 a1 F Hn Hsw m Hm); lra.
Qed.

(* Round 2.  Links:  max_feed_that_could_be_used = what the herds used when offered the feed schedule ;
   max_biofuel_that_could_be_used = the biofuel schedule. *)
Lemma c03_round2 G i2 a2 xf df xb db N :
  glue_ok G N -> 0 <= xf -> 0 <= xb ->
  Feasible i2 ToAnimals a2 -> has_nonhuman i2 = true -> 0 < sw_kcals i2 -> NM i2 = N ->
  (forall m, (m < N)%nat -> at_ (max_feed i2) m == round2_max_feed G (demand xf df N) m) ->
  (forall m, (m < N)%nat -> at_ (max_biofuel i2) m == round2_max_biofuel (demand xb db N) m) ->
  c03_clause i2 a2 xf df xb db N.
Proof.
  intros (Hk & HG) Hxf Hxb F Hn Hsw HN L1 L2 m Hm.
  assert (Hm' : (m < NM i2)%nat) by (rewrite HN; exact Hm).
  destruct (animals_ceiling i2 a2 m F Hn Hm') as (A & B).
  destruct (HG m Hm) as (Gr & _ & H2 & _).
  pose proof (demand_nonneg xf df N m Hxf) as Dn.
  assert (C : at_ (max_feed i2) m <= nth m (demand xf df N) 0).
  { rewrite (L1 m Hm). unfold round2_max_feed, herd_feed_round2, at_.
    destruct (used_le_available (g_herd2 G m) (nth m (g_grass G) 0) (nth m (demand xf df N) 0) H2 Gr Dn) as (_ & U).
    exact U. }
  assert (D : at_ (max_biofuel i2) m <= nth m (demand xb db N) 0).
  { rewrite (L2 m Hm). unfold round2_max_biofuel, at_. apply Qle_refl. }
  split; [lra|]. split; [lra|]. split; intro Hd.
  - rewrite (demand_after xf df N m Hd) in C.
    apply feed_sum_zero_each; [exact (Feasible_nonneg i2 ToAnimals a2 F) | exact Hsw | lra].
  - rewrite (demand_after xb db N m Hd) in D.
    apply biofuel_sum_zero_each; [exact (Feasible_nonneg i2 ToAnimals a2 F) | exact Hsw | lra].
Qed.

(* Round 3.  Links:  time_consts_round3['feed'|'biofuel'] = the modelled charge computed from the round-2 totals.
   The premise on round 2 is the CONCLUSION of c03_round2 (only its first two conjuncts are used). *)
Lemma c03_round3 G i2 a2 i3 a3 xf df xb db N :
  glue_ok G N -> 0 <= xf -> 0 <= xb ->
  c03_clause i2 a2 xf df xb db N ->
  Feasible i3 ToHumans a3 -> has_nonhuman i3 = true -> 0 < sw_kcals i3 -> NM i3 = N ->
  let feed2 := tab N (feed_sum i2 a2) in let bio2 := tab N (biofuel_sum i2 a2) in
  (forall m, (m < N)%nat ->
     at_ (feed_charge i3) m == round3_feed_charge G feed2 bio2 (demand xf df N) (demand xb db N) m) ->
  (forall m, (m < N)%nat ->
     at_ (biofuel_charge i3) m == round3_biofuel_charge G feed2 bio2 (demand xf df N) (demand xb db N) m) ->
  c03_clause i3 a3 xf df xb db N.
Proof.
  intros HG Hxf Hxb C2 F Hn Hsw HN feed2 bio2 L1 L2.
  apply humans_clause; try assumption. intros m Hm.
  destruct (C2 m Hm) as (A & B & _).
  assert (Ef : at_ feed2 m = feed_sum i2 a2 m) by (unfold feed2, at_; apply nth_tab; exact Hm).
  assert (Eb : at_ bio2 m = biofuel_sum i2 a2 m) by (unfold bio2, at_; apply nth_tab; exact Hm).
  pose proof (demand_nonneg xf df N m Hxf) as Df. pose proof (demand_nonneg xb db N m Hxb) as Db.
  destruct (round3_charges_within G N feed2 bio2 (demand xf df N) (demand xb db N) m HG Hm) as (P & Q);
    unfold at_ in *; try (rewrite Ef); try (rewrite Eb); try assumption.
  rewrite (L1 m Hm), (L2 m Hm). split; assumption.
Qed.

(* ================================================================== 4. all rounds *)

Lemma c03_all_rounds G i1 a1 i2 a2 i3 a3 xf df xb db N :
  (* the scenario: monthly amounts (monthly_of_annual of a non-negative annual total, c03_demand_nonneg_linear)
     and the two shut-off months; no relation between df and db is needed *)
  0 <= xf -> 0 <= xb ->
  (* side conditions on the glue (positive unit factor, positive digestion efficiencies, grass >= 0) *)
  glue_ok G N ->
  (* the three solves returned feasible points of the three LPs                       [C01: rows tie + value audit] *)
  Feasible i1 ToHumans a1 -> Feasible i2 ToAnimals a2 -> Feasible i3 ToHumans a3 ->
  has_nonhuman i1 = true -> has_nonhuman i2 = true -> has_nonhuman i3 = true ->
  0 < sw_kcals i1 -> 0 < sw_kcals i2 -> 0 < sw_kcals i3 ->
  NM i1 = N -> NM i2 = N -> NM i3 = N ->
  (* round 1 charges: zero-feed herds' use, zero biofuel                               [C05: herd/charge glue] *)
  (forall m, (m < N)%nat -> at_ (feed_charge i1) m == round1_feed_charge G m) ->
  (forall m, (m < N)%nat -> at_ (biofuel_charge i1) m == round1_biofuel_charge m) ->
  (* round 2 ceilings: use of the herds offered the schedule; the biofuel schedule     [C05 / C07: herd run; C03 tie: schedule] *)
  (forall m, (m < N)%nat -> at_ (max_feed i2) m == round2_max_feed G (demand xf df N) m) ->
  (forall m, (m < N)%nat -> at_ (max_biofuel i2) m == round2_max_biofuel (demand xb db N) m) ->
  (* round 3 charges: clip, x0.999999999, herd run, top-up - computed from a2          [C05: clip/shave/herd/charge; C18: top-up] *)
  (forall m, (m < N)%nat -> at_ (feed_charge i3) m ==
     round3_feed_charge G (tab N (feed_sum i2 a2)) (tab N (biofuel_sum i2 a2)) (demand xf df N) (demand xb db N) m) ->
  (forall m, (m < N)%nat -> at_ (biofuel_charge i3) m ==
     round3_biofuel_charge G (tab N (feed_sum i2 a2)) (tab N (biofuel_sum i2 a2)) (demand xf df N) (demand xb db N) m) ->
  c03_clause i1 a1 xf df xb db N /\ c03_clause i2 a2 xf df xb db N /\ c03_clause i3 a3 xf df xb db N.
Proof.
  intros Hxf Hxb HG F1 F2 F3 H1 H2 H3 S1 S2 S3 N1 N2 N3 L1f L1b L2f L2b L3f L3b.
  assert (R2 : c03_clause i2 a2 xf df xb db N) by (apply (c03_round2 G); assumption).
  split; [|split].
  - apply (c03_round1 G i1 a1 xf df xb db N); assumption.
  - exact R2.
  - apply (c03_round3 G i2 a2 i3 a3 xf df xb db N); assumption.
Qed.

(* the two skip branches (no feed round at all / round 2 abandoned): both charges of the final round are exactly
   zero when the increase is zero (same herd object: meat3 = meat1), so the final round uses no feed or biofuel *)
Lemma c03_round3_skip G N feed2 bio2 fd bd m : glue_ok G N -> (m < N)%nat ->
  round2_consts_present (g_tree G) = false -> 0 <= g_const G -> at_ (g_meat3 G) m == at_ (g_meat1 G) m ->
  0 <= at_ fd m -> 0 <= at_ bd m ->
  round3_feed_charge G feed2 bio2 fd bd m == 0 /\ round3_biofuel_charge G feed2 bio2 fd bd m == 0.
Proof.
  intros (Hk & HG) Hm Hs Hc Hmeat Hfd Hbd. destruct (HG m Hm) as (Gr & _ & _ & H3).
  assert (Src : round3_source (g_tree G) = ReuseRound1) by (unfold round3_source; rewrite Hs; reflexivity).
  assert (E : round3_eaten G feed2 m == 0).
  { unfold round3_eaten, round3_supply_month. rewrite Src. apply no_feed_none_eaten; assumption. }
  assert (I : b_increase (round3_bump G bio2 fd bd m) == 0).
  { cbn [round3_bump b_increase]. unfold increase_of.
    assert (X : (at_ (g_meat3 G) m - at_ (g_meat1 G) m) / 2 * g_k G - g_const G <= 0).
    { rewrite Hmeat. assert ((at_ (g_meat1 G) m - at_ (g_meat1 G) m) / 2 * g_k G == 0) by field. lra. }
    rewrite (Qmax0_nonpos _ X). field. lra. }
  split.
  - unfold round3_feed_charge. apply (charge_month_proper _ _ 0); [exact E | exact I | reflexivity].
  - pose proof (biofuel_charge_month_ge (round1_run (g_tree G)) (round3_eaten G feed2 m) (round3_bump G bio2 fd bd m)) as Lo.
    unfold round3_biofuel_charge, biofuel_charge_month in *.
    cbn [round3_bump b_biofuel b_increase b_max_biofuel b_max_feed b_total_crops] in *.
    unfold round3_biofuel_month in *. rewrite Src in *.
    destruct (round1_run (g_tree G)); [|reflexivity].
    rewrite increase_month_is_bump1 in *.
    match goal with |- fst (bump1 ?b ?f ?inc ?mb ?mf ?tc) == 0 =>
      assert (Hf : f <= mf) by lra; assert (Hi : 0 <= inc) by (cbn [round3_bump b_increase] in I; lra);
      destruct (bump1_biofuel_ceiling b f inc mb mf tc Hbd Hf Hi) as (_ & Up) end.
    cbn [round3_bump b_increase] in I. lra.
Qed.

(* ================================================================== 5. the premises are satisfiable *)

Definition ex_glue : glue :=
  {| g_tree := {| any_resource := true; demand_zero := false; round2_aborts := false |};
     g_k := 1 # 2; g_const := 20; g_grass := [40; 40; 40];
     g_herd1 := fun _ => [ {| e_req := 30; e_ruminant := true; e_eg := 6 # 10; e_ef := 8 # 10 |} ];
     g_herd2 := fun _ => [ {| e_req := 30; e_ruminant := true; e_eg := 6 # 10; e_ef := 8 # 10 |} ];
     g_herd3 := fun _ => [ {| e_req := 30; e_ruminant := true; e_eg := 6 # 10; e_ef := 8 # 10 |} ];
     g_meat1 := [1; 1; 1]; g_meat3 := [200; 1; 1]; g_crops := [1000; 1000; 1000] |}.

Example ex_glue_ok : glue_ok ex_glue 3.
Proof.
  split; [reflexivity|]. intros m Hm. split.
  - destruct m as [|[|[|m]]]; try lia; vm_compute; discriminate.
  - repeat split; repeat constructor.
Qed.

(* round-2 totals 100 (feed) and 60 (biofuel) in month 0 of a schedule 100/60: the herds eat part of the clipped
   supply and the top-up raises both charges, yet neither passes its schedule *)
Example ex_round3_values :
  let fd := demand 100 2 3 in let bd := demand 60 1 3 in
  round3_eaten ex_glue [100; 100; 0] 0 == (15 # 2) /\
  round3_eaten ex_glue [100; 100; 0] 0 < round3_feed_charge ex_glue [100; 100; 0] [60; 0; 0] fd bd 0 /\
  round3_feed_charge ex_glue [100; 100; 0] [60; 0; 0] fd bd 0 <= 100 /\
  clip20 (1 # 2) 60 < round3_biofuel_charge ex_glue [100; 100; 0] [60; 0; 0] fd bd 0 /\
  round3_biofuel_charge ex_glue [100; 100; 0] [60; 0; 0] fd bd 0 <= 60 /\
  round3_feed_charge ex_glue [100; 100; 0] [60; 0; 0] fd bd 2 == 0 /\
  round3_biofuel_charge ex_glue [100; 100; 0] [60; 0; 0] fd bd 1 == 0.
Proof. vm_compute. repeat split; discriminate. Qed.

(* a complete three-round instance: every premise of c03_all_rounds holds, by computation.
   N = 3, feed schedule 5 a month for 2 months, biofuel 1 a month for 1 month.
   LP inputs: stored food (stock 30, 20 % waste), crops (harvest 18/12/20, 10 % waste) and SCP on, as in the C01 example.
   Round 2 herds need 4 of feed a month (non-ruminant, requirement 3.2, efficiency 0.8): ceilings 4/4/0 and 1/0/0;
   the feed round allocates 4/4/0 and 1/0/0.  Clip with k = 10: (4*10 - 20)/10 = 2 feed, biofuel to 0; the final
   round's herds (requirement 0.8) eat 1 of the 1.999999998 offered; same meat as round 1, so no top-up:
   final charges 1/1/0 and 0/0/0. *)
Definition ex_lp (fc bc mf mb pcr psf : list Q) : lp_in :=
  {| NM := 3;
     add_sw := false; add_cr := true; add_sf := true; add_meat := false; add_scp := true; add_cs := false;
     store_years := true;
     pop := 1000000; kcals_monthly_pp := 63000; need := 63;
     w_sf := 20; w_cr := 10; w_meat := 0; w_scp := 0; w_cs := 0; w_sw := 0;
     sf0 := 30; meat_total := 0;
     sw_kcals := 1; sw_init := 0; sw_init_area := 0; sw_min_density := 0; sw_max_density := 0; sw_harvest_loss := 0;
     relocated := false; harvest_delay := 0;
     cap_sw_h := 0; cap_sw_f := 0; cap_sw_b := 0;
     cap_scp_h := 100; cap_scp_f := 100; cap_scp_b := 100;
     cap_cs_h := 0; cap_cs_f := 0; cap_cs_b := 0;
     crops_prod := [18; 12; 20]; milk := [1; 1; 1]; greenhouse := []; fish := [2; 2; 2];
     scp_prod := [0; 5; 5]; cs_prod := []; built_area := []; growth := [];
     feed_charge := fc; biofuel_charge := bc;
     LP.meat_monthly := []; meat_running := [];
     max_feed := mf; max_biofuel := mb;
     pin_cr := pcr; pin_sf := psf; pin_meat := []; pin_scp := [0; 2; 2]; pin_cs := []; pin_sw := [] |}.

Definition ex_i1 : lp_in := ex_lp [0; 0; 0] [0; 0; 0] [] [] [] [].
Definition ex_i2 : lp_in := ex_lp [0; 0; 0] [0; 0; 0] [4; 4; 0] [1; 0; 0] [9; 99 # 10; 18] [8; 8; 8].
Definition ex_i3 : lp_in := ex_lp [1; 1; 0] [0; 0; 0] [] [] [] [].

Definition ex_common : list entry :=
  series SF_start [30; 20; 10] ++ series SF_end [20; 10; 0] ++ series SF_h [8; 8; 8] ++
  series CR_consumed [15; 15; 20] ++ series CR_storage [3; 0; 0] ++ series SCP_h [0; 2; 2].
Definition ex_t1 : list entry := (Obj, O, 2450 # 63) :: ex_common ++
  series CR_h [27 # 2; 27 # 2; 18] ++ series Consumed [2450 # 63; 2650 # 63; 3100 # 63].
Definition ex_t2 : list entry := (Obj, O, 17 # 3) :: ex_common ++
  series CR_h [9; 99 # 10; 18] ++ series CR_f [4; 4; 0] ++ series CR_b [1; 0; 0] ++
  series Consumed [2000 # 63; 2290 # 63; 3100 # 63].
Definition ex_t3 : list entry := (Obj, O, 2360 # 63) :: ex_common ++
  series CR_h [63 # 5; 63 # 5; 18] ++ series CR_f [1; 1; 0] ++ series Consumed [2360 # 63; 2560 # 63; 3100 # 63].

Definition ex_pipe : glue :=
  {| g_tree := {| any_resource := true; demand_zero := false; round2_aborts := false |};
     g_k := 10; g_const := 20; g_grass := [40; 40; 40];
     g_herd1 := fun _ => [ {| e_req := 16 # 5; e_ruminant := false; e_eg := 6 # 10; e_ef := 8 # 10 |} ];
     g_herd2 := fun _ => [ {| e_req := 16 # 5; e_ruminant := false; e_eg := 6 # 10; e_ef := 8 # 10 |} ];
     g_herd3 := fun _ => [ {| e_req := 4 # 5; e_ruminant := false; e_eg := 6 # 10; e_ef := 8 # 10 |} ];
     g_meat1 := [1; 1; 1]; g_meat3 := [1; 1; 1]; g_crops := [1000; 1000; 1000] |}.

Lemma ex_f1 : Feasible ex_i1 ToHumans (a_of ex_t1).
Proof. apply feasibleb_sound. vm_compute. reflexivity. Qed.
Lemma ex_f2 : Feasible ex_i2 ToAnimals (a_of ex_t2).
Proof. apply feasibleb_sound. vm_compute. reflexivity. Qed.
Lemma ex_f3 : Feasible ex_i3 ToHumans (a_of ex_t3).
Proof. apply feasibleb_sound. vm_compute. reflexivity. Qed.

Lemma ex_pipe_ok : glue_ok ex_pipe 3.
Proof.
  split; [reflexivity|]. intros m Hm. split.
  - destruct m as [|[|[|m]]]; try lia; vm_compute; discriminate.
  - repeat split; repeat constructor.
Qed.

Ltac months3 := let m := fresh "m" in let H := fresh "H" in
  intros m H; destruct m as [|[|[|m]]]; [| | |exfalso; lia]; vm_compute; reflexivity.

Lemma ex_link_1f : forall m, (m < 3)%nat -> at_ (feed_charge ex_i1) m == round1_feed_charge ex_pipe m.
Proof. months3. Qed.
Lemma ex_link_1b : forall m, (m < 3)%nat -> at_ (biofuel_charge ex_i1) m == round1_biofuel_charge m.
Proof. months3. Qed.
Lemma ex_link_2f : forall m, (m < 3)%nat -> at_ (max_feed ex_i2) m == round2_max_feed ex_pipe (demand 5 2 3) m.
Proof. months3. Qed.
Lemma ex_link_2b : forall m, (m < 3)%nat -> at_ (max_biofuel ex_i2) m == round2_max_biofuel (demand 1 1 3) m.
Proof. months3. Qed.
Lemma ex_link_3f : forall m, (m < 3)%nat -> at_ (feed_charge ex_i3) m ==
  round3_feed_charge ex_pipe (tab 3 (feed_sum ex_i2 (a_of ex_t2))) (tab 3 (biofuel_sum ex_i2 (a_of ex_t2)))
    (demand 5 2 3) (demand 1 1 3) m.
Proof. months3. Qed.
Lemma ex_link_3b : forall m, (m < 3)%nat -> at_ (biofuel_charge ex_i3) m ==
  round3_biofuel_charge ex_pipe (tab 3 (feed_sum ex_i2 (a_of ex_t2))) (tab 3 (biofuel_sum ex_i2 (a_of ex_t2)))
    (demand 5 2 3) (demand 1 1 3) m.
Proof. months3. Qed.

Example ex_all_rounds :
  (c03_clause ex_i1 (a_of ex_t1) 5 2 1 1 3 /\ c03_clause ex_i2 (a_of ex_t2) 5 2 1 1 3 /\
   c03_clause ex_i3 (a_of ex_t3) 5 2 1 1 3) /\
  (* not degenerate: the feed round and the final round do draw feed before the shut-off month *)
  feed_sum ex_i2 (a_of ex_t2) 0 == 4 /\ biofuel_sum ex_i2 (a_of ex_t2) 0 == 1 /\ feed_sum ex_i3 (a_of ex_t3) 1 == 1.
Proof.
  split; [|vm_compute; repeat split; reflexivity].
  assert (H5 : 0 <= 5) by lra. assert (H1 : 0 <= 1) by lra. assert (Hs : 0 < 1) by lra.
  exact (c03_all_rounds ex_pipe ex_i1 (a_of ex_t1) ex_i2 (a_of ex_t2) ex_i3 (a_of ex_t3) 5 2 1 1 3
           H5 H1 ex_pipe_ok ex_f1 ex_f2 ex_f3 eq_refl eq_refl eq_refl Hs Hs Hs eq_refl eq_refl eq_refl
           ex_link_1f ex_link_1b ex_link_2f ex_link_2b ex_link_3f ex_link_3b).
Qed.
