(* Soundness of the optimality-certificate checker of Model/LPCert.v (weak duality with the
   Neumaier-Shcherbina bound repair).  Elementary: induction over keys, tries, terms, rows. *)
From Coq Require Import QArith Lqa Lia List Bool Arith PArith.
From Allfed Require Import Model.LP Model.LPCert.
Import ListNotations.
Open Scope Q_scope.

(* ---------------- keys ---------------- *)

Lemma slot_id_lt : forall s, (slot_id s < 26)%nat.
Proof. destruct s; cbn; lia. Qed.

Lemma slot_of_id_id : forall s, slot_of_id (slot_id s) = s.
Proof. destruct s; reflexivity. Qed.

Lemma decode_encode : forall v, decode (encode v) = v.
Proof.
  intros [s m]. unfold decode, encode. cbn [fst snd].
  rewrite SuccNat2Pos.id_succ. cbn [pred].
  pose proof (slot_id_lt s) as Hlt.
  rewrite (Nat.mul_comm 26 m).
  rewrite Nat.mod_add by lia. rewrite Nat.div_add by lia.
  rewrite Nat.mod_small by lia. rewrite Nat.div_small by lia.
  rewrite slot_of_id_id. reflexivity.
Qed.

Lemma encode_inj : forall v w, encode v = encode w -> v = w.
Proof. intros v w H. rewrite <- (decode_encode v), <- (decode_encode w), H. reflexivity. Qed.

(* an assignment seen through the keys *)
Definition ap (a : assignment) (k : positive) : Q := a (fst (decode k)) (snd (decode k)).

Lemma ap_encode : forall a s m, ap a (encode (s, m)) = a s m.
Proof. intros. unfold ap. rewrite decode_encode. reflexivity. Qed.

(* ---------------- the trie as a linear form ---------------- *)

(* sum over all entries of  entry_k * p k  *)
Fixpoint tsum (p : positive -> Q) (m : trie) : Q :=
  match m with
  | TLeaf => 0
  | TNode l o r => tsum (fun k => p (xO k)) l + o * p xH + tsum (fun k => p (xI k)) r
  end.

Lemma tsum_unfold : forall p m,
  tsum p m == tsum (fun k => p (xO k)) (tl m) + tv m * p xH + tsum (fun k => p (xI k)) (tr m).
Proof. intros p [|l o r]; cbn; ring. Qed.

Lemma tsum_tadd : forall k q m p, tsum p (tadd k q m) == tsum p m + q * p k.
Proof.
  induction k as [k IH|k IH|]; intros q m p; cbn [tadd tsum].
  - rewrite IH. rewrite (tsum_unfold p m). ring.
  - rewrite IH. rewrite (tsum_unfold p m). ring.
  - rewrite Qred_correct. rewrite (tsum_unfold p m). ring.
Qed.

Lemma pos_part_nonneg : forall q, 0 <= pos_part q.
Proof.
  intro q. unfold pos_part. destruct (Qle_bool 0 q) eqn:E.
  - apply Qle_bool_iff; exact E.
  - lra.
Qed.

Lemma pos_part_ge : forall q, q <= pos_part q.
Proof.
  intro q. unfold pos_part. destruct (Qle_bool 0 q) eqn:E.
  - lra.
  - destruct (Qlt_le_dec q 0) as [H|H]; [lra|]. apply Qle_bool_iff in H. congruence.
Qed.

Lemma tslack_nonneg : forall m, 0 <= tslack m.
Proof.
  induction m as [|l IHl o r IHr]; cbn [tslack]; [lra|].
  rewrite Qred_correct. pose proof (pos_part_nonneg o). lra.
Qed.

(* entry * x <= max(0, entry) * ub   for 0 <= x <= ub *)
Lemma term_slack : forall o x ub, 0 <= x -> x <= ub -> o * x <= ub * pos_part o.
Proof.
  intros o x ub H0 H1.
  pose proof (pos_part_nonneg o) as Hp. pose proof (pos_part_ge o) as Hg.
  nra.
Qed.

Lemma tsum_slack : forall ub m p,
  (forall k, 0 <= p k) -> (forall k, p k <= ub) -> tsum p m <= ub * tslack m.
Proof.
  intros ub. induction m as [|l IHl o r IHr]; intros p H0 H1; cbn [tsum tslack].
  - lra.
  - rewrite Qred_correct.
    pose proof (IHl (fun k => p (xO k)) (fun k => H0 _) (fun k => H1 _)) as Hl.
    pose proof (IHr (fun k => p (xI k)) (fun k => H0 _) (fun k => H1 _)) as Hr.
    pose proof (term_slack o (p xH) ub (H0 _) (H1 _)) as Ho.
    lra.
Qed.

Lemma tsum_nonpos : forall m p,
  (forall k, 0 <= p k) -> tnonpos m = true -> tsum p m <= 0.
Proof.
  induction m as [|l IHl o r IHr]; intros p H0 Hn; cbn [tsum tnonpos] in *.
  - lra.
  - apply andb_true_iff in Hn. destruct Hn as [Hn Hr]. apply andb_true_iff in Hn. destruct Hn as [Ho Hl].
    apply Qle_bool_iff in Ho.
    pose proof (IHl (fun k => p (xO k)) (fun k => H0 _) Hl).
    pose proof (IHr (fun k => p (xI k)) (fun k => H0 _) Hr).
    pose proof (H0 xH). nra.
Qed.

(* ---------------- terms and rows ---------------- *)

Lemma acc_terms_sum : forall a y l d,
  tsum (ap a) (acc_terms y l d) == tsum (ap a) d - y * eval a l.
Proof.
  intros a y. induction l as [|[c [s m]] l IH]; intros d; cbn [acc_terms eval].
  - ring.
  - rewrite IH, tsum_tadd, ap_encode. ring.
Qed.

Lemma clamp_sat : forall a r y,
  sat a r -> clamp (sns r) y * eval a (lhs r) <= clamp (sns r) y * rhs r.
Proof.
  intros a r y Hs. unfold sat in Hs. unfold clamp. destruct (sns r).
  - destruct (Qle_bool 0 y) eqn:E; [apply Qle_bool_iff in E; nra | lra].
  - destruct (Qle_bool y 0) eqn:E; [apply Qle_bool_iff in E; nra | lra].
  - rewrite Hs. lra.
Qed.

(* the invariant  (linear form d)(a) + yb  can only grow along the rows *)
Lemma acc_rows_sum : forall a rows ys yb d yb' d',
  Forall (sat a) rows ->
  acc_rows rows ys yb d = Some (yb', d') ->
  tsum (ap a) d + yb <= tsum (ap a) d' + yb'.
Proof.
  intros a. induction rows as [|r rows IH]; intros ys yb d yb' d' HF H; destruct ys as [|y ys]; cbn [acc_rows] in H;
    try discriminate.
  - injection H as <- <-. lra.
  - inversion HF as [|? ? Hr HF']; subst.
    pose proof (clamp_sat a r y Hr) as Hc.
    destruct (Qeq_bool (clamp (sns r) y) 0) eqn:E.
    + apply (IH _ _ _ _ _ HF' H).
    + apply IH in H; [|exact HF'].
      rewrite acc_terms_sum, Qred_correct in H. lra.
Qed.

Lemma d_init_sum : forall a, tsum (ap a) d_init == a Obj 0%nat.
Proof. intro a. unfold d_init. rewrite tsum_tadd, ap_encode. cbn [tsum]. ring. Qed.

Lemma cert_run_sum : forall a rows y yb d,
  Forall (sat a) rows -> cert_run rows y = Some (yb, d) ->
  a Obj 0%nat <= tsum (ap a) d + yb.
Proof.
  intros a rows y yb d HF H. unfold cert_run in H.
  apply (acc_rows_sum a _ _ _ _ _ _ HF) in H. rewrite d_init_sum in H. lra.
Qed.

(* ---------------- soundness ---------------- *)

Theorem cert_bound_sound : forall rows y ub b,
  cert_bound rows y ub = Some b ->
  forall a, nonneg a -> Forall (sat a) rows -> (forall s m, a s m <= ub) -> a Obj 0%nat <= b.
Proof.
  intros rows y ub b H a Hn HF Hu. unfold cert_bound in H.
  destruct (cert_run rows y) as [[yb d]|] eqn:E; [|discriminate]. injection H as <-.
  pose proof (cert_run_sum a rows y yb d HF E) as H1.
  pose proof (tsum_slack ub d (ap a) (fun k => Hn _ _) (fun k => Hu _ _)) as H2.
  lra.
Qed.

Theorem check_cert_sound : forall rows y ub claimed,
  check_cert rows y ub claimed = true ->
  forall a, nonneg a -> Forall (sat a) rows -> (forall s m, a s m <= ub) -> a Obj 0%nat <= claimed.
Proof.
  intros rows y ub claimed H a Hn HF Hu. unfold check_cert in H.
  destruct (cert_bound rows y ub) as [b|] eqn:E; [|discriminate].
  apply Qle_bool_iff in H.
  pose proof (cert_bound_sound rows y ub b E a Hn HF Hu). lra.
Qed.

Theorem check_cert_nobound_sound : forall rows y claimed,
  check_cert_nobound rows y claimed = true ->
  forall a, nonneg a -> Forall (sat a) rows -> a Obj 0%nat <= claimed.
Proof.
  intros rows y claimed H a Hn HF. unfold check_cert_nobound in H.
  destruct (cert_run rows y) as [[yb d]|] eqn:E; [|discriminate].
  apply andb_true_iff in H. destruct H as [Hd Hb]. apply Qle_bool_iff in Hb.
  pose proof (cert_run_sum a rows y yb d HF E) as H1.
  pose proof (tsum_nonpos d (ap a) (fun k => Hn _ _) Hd) as H2.
  lra.
Qed.

(* ---------------- bound needed only for the variables that occur ---------------- *)

Lemma slot_id_inj : forall s s', slot_id s = slot_id s' -> s = s'.
Proof. intros s s' H. rewrite <- (slot_of_id_id s), <- (slot_of_id_id s'), H. reflexivity. Qed.

Lemma var_eqb_eq : forall v w, var_eqb v w = true <-> v = w.
Proof.
  intros [s m] [s' m']. unfold var_eqb. cbn [fst snd]. rewrite andb_true_iff, !Nat.eqb_eq. split.
  - intros [H1 H2]. apply slot_id_inj in H1. subst. reflexivity.
  - intros H. injection H as -> ->. split; reflexivity.
Qed.

Lemma occurs_obj : forall rows, occurs (Obj, 0%nat) rows = true.
Proof. intros. unfold occurs. replace (var_eqb (Obj, 0%nat) (Obj, 0%nat)) with true; [reflexivity|]. symmetry. apply var_eqb_eq. reflexivity. Qed.

Lemma occurs_in : forall rows r c v, In r rows -> In (c, v) (lhs r) -> occurs v rows = true.
Proof.
  intros rows r c v Hr Hv. unfold occurs. apply orb_true_iff. right.
  apply existsb_exists. exists r. split; [exact Hr|].
  apply existsb_exists. exists (c, v). split; [exact Hv|]. apply var_eqb_eq. reflexivity.
Qed.

(* a with the variables outside f set to 0 *)
Definition restrict (f : var -> bool) (a : assignment) : assignment :=
  fun s m => if f (s, m) then a s m else 0.

Lemma eval_restrict : forall f a l,
  (forall c v, In (c, v) l -> f v = true) -> eval (restrict f a) l == eval a l.
Proof.
  intros f a. induction l as [|[c [s m]] l IH]; intros H; cbn [eval].
  - reflexivity.
  - rewrite IH by (intros c' v' Hin; apply (H c' v'); right; exact Hin).
    unfold restrict at 1. rewrite (H c (s, m)) by (left; reflexivity). reflexivity.
Qed.

Lemma sat_restrict : forall f a r,
  (forall c v, In (c, v) (lhs r) -> f v = true) -> sat a r -> sat (restrict f a) r.
Proof.
  intros f a r H Hs. unfold sat in *. pose proof (eval_restrict f a (lhs r) H) as E.
  destruct (sns r); rewrite E; exact Hs.
Qed.

Theorem check_cert_sound_occ : forall rows y ub claimed,
  check_cert rows y ub claimed = true ->
  forall a, nonneg a -> Forall (sat a) rows ->
  (forall s m, occurs (s, m) rows = true -> a s m <= ub) -> a Obj 0%nat <= claimed.
Proof.
  intros rows y ub claimed H a Hn HF Hu.
  set (f := fun v => occurs v rows).
  assert (Hobj : restrict f a Obj 0%nat = a Obj 0%nat).
  { unfold restrict, f. rewrite occurs_obj. reflexivity. }
  rewrite <- Hobj.
  apply (check_cert_sound rows y ub claimed H).
  - intros s m. unfold restrict. destruct (f (s, m)); [apply Hn | lra].
  - rewrite Forall_forall in *. intros r Hr. apply sat_restrict; [|apply HF; exact Hr].
    intros c v Hv. unfold f. apply (occurs_in rows r c v Hr Hv).
  - intros s m. unfold restrict. destruct (f (s, m)) eqn:E.
    + apply Hu. exact E.
    + pose proof (Hu Obj 0%nat (occurs_obj rows)). pose proof (Hn Obj 0%nat). lra.
Qed.

(* specialisation to the programmes of Model/LP.v *)
Theorem check_cert_optimal : forall i ty y ub claimed,
  check_cert (build i ty) y ub claimed = true ->
  forall a, Feasible i ty a ->
  (forall s m, occurs (s, m) (build i ty) = true -> a s m <= ub) -> a Obj 0%nat <= claimed.
Proof. intros i ty y ub claimed H a [Hn HF] Hu. exact (check_cert_sound_occ _ _ _ _ H a Hn HF Hu). Qed.

Theorem check_cert_nobound_optimal : forall i ty y claimed,
  check_cert_nobound (build i ty) y claimed = true ->
  forall a, Feasible i ty a -> a Obj 0%nat <= claimed.
Proof. intros i ty y claimed H a [Hn HF]. exact (check_cert_nobound_sound _ _ _ H a Hn HF). Qed.

(* ---------------- the hypotheses are satisfiable; the bound is attained ---------------- *)
(* max Obj  s.t.  Obj <= C0, Obj <= C1, C0 + 2 C1 <= 12, C0 >= 1 :  optimum 4 at C0 = C1 = 4,
   multipliers 1/3, 2/3, 1/3, 0 *)
Definition ex_rows : list row :=
  [ mk [t 1 Obj 0; t (-1) Consumed 0] Le 0;
    mk [t 1 Obj 0; t (-1) Consumed 1] Le 0;
    mk [t 1 Consumed 0; t 2 Consumed 1] Le 12;
    mk [t 1 Consumed 0] Ge 1 ].
Definition ex_y : list Q := [1 # 3; 2 # 3; 1 # 3; 0].
Definition ex_a : assignment :=
  fun s m => match s with Obj => 4 | Consumed => 4 | _ => 0 end.

Example ex_cert : check_cert ex_rows ex_y 100 4 = true /\ check_cert_nobound ex_rows ex_y 4 = true.
Proof. split; vm_compute; reflexivity. Qed.

Example ex_feasible :
  nonneg ex_a /\ Forall (sat ex_a) ex_rows /\ (forall s m, ex_a s m <= 100) /\ ex_a Obj 0%nat == 4.
Proof.
  split; [|split; [|split]].
  - intros s m. destruct s; cbn; lra.
  - repeat constructor; unfold sat; cbn; lra.
  - intros s m. destruct s; cbn; lra.
  - reflexivity.
Qed.

Print Assumptions check_cert_sound.
Print Assumptions check_cert_nobound_sound.
Print Assumptions check_cert_sound_occ.
Print Assumptions check_cert_optimal.
Print Assumptions check_cert_nobound_optimal.
Print Assumptions cert_bound_sound.
