(* C16 (c): the built-in validation checks of src/optimizer/validate_results.py, read in exact arithmetic, pass on
   every EXACT feasible assignment of the LP - lemmas about Model/Validator.v.
   Builds on (does not edit) Proofs/LPChar.v, Proofs/Report.v (C04), Proofs/Rounds.v + Proofs/RoundsComp.v (C03),
   Proofs/Helpers.v (C18). *)
From Coq Require Import QArith Qround Lqa Lia List String Bool Arith ZArith.
From Allfed Require Import Base.StrUtil Gen.UnitTables Model.Units Model.LP Model.LPBool Model.Report Model.Rounds Model.Validator.
From Allfed Require Import Proofs.Units Proofs.LPChar Proofs.LPBoolSound Proofs.LP_C01 Proofs.Report Proofs.Rounds Proofs.RoundsComp.
From Allfed Require Base.QList Model.Helpers Proofs.Helpers.
Import ListNotations.
Open Scope Q_scope.

(* ================================================================== booleans *)

Lemma Qlt_b_true x y : x < y -> Qlt_b x y = true.
Proof.
  intros H. unfold Qlt_b. destruct (Qle_bool y x) eqn:E; [|reflexivity].
  apply Qle_bool_iff in E. lra.
Qed.

Lemma Qlt_b_false x y : y <= x -> Qlt_b x y = false.
Proof. intros H. unfold Qlt_b. apply Qle_bool_iff in H. now rewrite H. Qed.

Lemma Qle_bool_true x y : x <= y -> Qle_bool x y = true.
Proof. intros H. now apply Qle_bool_iff. Qed.

(* ================================================================== 1. check_constraints_satisfied *)

Lemma check_row_of_sat a r : sat a r -> check_row a r = true.
Proof.
  unfold sat, check_row. destruct (sns r); intros H.
  - apply Qle_bool_true. lra.
  - apply Qle_bool_true. lra.
  - apply Qlt_b_true. unfold Qabs''. destruct (Qle_bool 0 (rhs r - eval a (lhs r))); lra.
Qed.

Lemma check_constraints_of_sat skip a rows : Forall (sat a) rows -> check_constraints_satisfied skip a rows = true.
Proof.
  intros H. unfold check_constraints_satisfied. apply forallb_forall. intros r Hr.
  rewrite Forall_forall in H. rewrite (check_row_of_sat a r (H r Hr)). apply orb_true_r.
Qed.

(* every row of the programme is satisfied exactly, hence within the code's tolerance (the absolute number 1),
   whichever rows the caller exempts *)
Theorem validator_constraints_ok : forall i ty a skip, Feasible i ty a ->
  Forall (sat a) (build i ty) /\ check_constraints_satisfied skip a (build i ty) = true.
Proof.
  intros i ty a skip [_ F]. split; [exact F|]. apply check_constraints_of_sat; exact F.
Qed.

(* ... including the floor rows the tie-breaking solves add *)
Theorem validator_constraints_second_stage_ok : forall i ty v a skip, Feasible2 i ty v a ->
  check_constraints_satisfied skip a (build i ty ++ second_stage i ty v) = true.
Proof.
  intros i ty v a skip [[_ F] S]. apply check_constraints_of_sat. apply Forall_app. split; assumption.
Qed.

(* the tolerance is not vacuous: a row violated by more than 1 is caught *)
Lemma check_row_catches a r : sns r = Le -> rhs r + 1 < eval a (lhs r) -> check_row a r = false.
Proof.
  intros S H. unfold check_row. rewrite S. destruct (Qle_bool (eval a (lhs r) - rhs r) 1) eqn:E; [|reflexivity].
  apply Qle_bool_iff in E. lra.
Qed.

(* ================================================================== 2. ensure_optimizer_returns_same_as_sum_nutrients *)

Lemma rhe_small y : - (1 # 2) <= y -> y <= 1 # 2 -> rhe y = 0%Z.
Proof.
  intros L U. unfold rhe. pose proof (Qfloor_le y) as A. pose proof (Qlt_floor y) as B.
  set (f := Qfloor y) in *.
  assert (Hf : (f = -1 \/ f = 0)%Z).
  { assert (H1 : inject_Z f < inject_Z 1) by (change (inject_Z 1) with 1; lra).
    assert (H2 : inject_Z (-1) < inject_Z (f + 1)) by (change (inject_Z (-1)) with (- (1)); lra).
    rewrite <- Zlt_Qlt in H1, H2. lia. }
  destruct Hf as [E|E]; rewrite E in *.
  - change (inject_Z (-1)) with (- (1)) in *.
    destruct (Qcompare (y - - (1)) (1 # 2)) eqn:C.
    + reflexivity.
    + apply Qlt_alt in C. lra.
    + reflexivity.
  - change (inject_Z 0) with 0 in *.
    destruct (Qcompare (y - 0) (1 # 2)) eqn:C.
    + reflexivity.
    + reflexivity.
    + apply Qgt_alt in C. lra.
Qed.

Lemma round0_small x : - (1 # 2) <= x -> x <= 1 # 2 -> round_dec 0 x == 0.
Proof.
  intros L U. unfold round_dec.
  assert (E : x * pow10 0 == x) by (change (pow10 0) with 1; ring).
  rewrite (rhe_comp _ _ E), (rhe_small x L U). reflexivity.
Qed.

Lemma rhe_ge_1 y : 1 # 2 < y -> (1 <= rhe y)%Z.
Proof.
  intros H. pose proof (rhe_bound y) as [B _].
  assert (H0 : inject_Z 0 < inject_Z (rhe y)) by (change (inject_Z 0) with 0; lra).
  rewrite <- Zlt_Qlt in H0. lia.
Qed.

Lemma round0_large x : 1 # 2 < x -> 1 <= round_dec 0 x.
Proof.
  intros H. unfold round_dec.
  assert (E : x * pow10 0 == x) by (change (pow10 0) with 1; ring).
  rewrite (rhe_comp _ _ E). pose proof (rhe_ge_1 x H) as G.
  assert (G' : inject_Z 1 <= inject_Z (rhe x)) by (rewrite <- Zle_Qle; exact G).
  change (inject_Z 1) with 1 in G'. change (pow10 0) with 1.
  assert (E2 : inject_Z (rhe x) / 1 == inject_Z (rhe x)) by (field).
  rewrite E2. exact G'.
Qed.

(* pure arithmetic: a model optimum v and a headline h with 0 <= v - h <= 0.00005 v pass the check when v <= 10 000
   (0.00005 * 10 000 = 0.5, and round(0.5, 0) = 0 by round-half-to-even), for every country code *)
Lemma sum_nutrients_arith code v h : 0 <= v - h -> v - h <= (5 # 100000) * v -> v <= 10000 ->
  sum_nutrients_difference v h == 0 /\ ensure_optimizer_returns_same_as_sum_nutrients code v h = true.
Proof.
  intros A B C.
  assert (D : sum_nutrients_difference v h == 0) by (apply round0_small; lra).
  split; [exact D|]. unfold ensure_optimizer_returns_same_as_sum_nutrients.
  destruct (small_country code).
  - apply Qlt_b_true. rewrite D. reflexivity.
  - apply Qeq_bool_iff. exact D.
Qed.

(* the check cannot fire for exact solutions of the two-stage solve: hypotheses of c04_within_tolerance plus
   v <= 10 000 (percent) *)
Theorem validator_sum_nutrients_ok : forall i c a v e ii code, lp_settings_ok i c -> Feasible2 i ToHumans v a ->
  report (report_in i c a) = Ok (e, ii) -> first_optimum i v -> v <= 10000 ->
  sum_nutrients_difference v (headline ii) == 0 /\
  ensure_optimizer_returns_same_as_sum_nutrients code v (headline ii) = true.
Proof.
  intros i c a v e ii code H F R O V.
  destruct (report_floor i c a v e ii H F R) as [L _].
  pose proof (headline_le_optimum i c a v e ii H (proj1 F) R O) as U.
  apply sum_nutrients_arith; lra.
Qed.

(* the bound is sharp: above 10 000 % the relative floor 0.99995 leaves more than 0.5 of absolute slack, and a
   headline sitting on the floor makes the check of an ordinary country fire *)
Theorem validator_sum_nutrients_bound_sharp : forall v, 10000 < v ->
  exists h, 0 <= v - h /\ v - h <= (5 # 100000) * v /\ (99995 # 100000) * v <= h /\
            ensure_optimizer_returns_same_as_sum_nutrients "USA" v h = false.
Proof.
  intros v V. exists ((99995 # 100000) * v). repeat split; try lra.
  unfold ensure_optimizer_returns_same_as_sum_nutrients. cbn [small_country String.eqb Ascii.eqb Bool.eqb orb].
  destruct (Qeq_bool (sum_nutrients_difference v ((99995 # 100000) * v)) 0) eqn:E; [|reflexivity].
  apply Qeq_bool_iff in E. unfold sum_nutrients_difference in E.
  pose proof (round0_large (v - (99995 # 100000) * v) ltac:(lra)). lra.
Qed.

(* ================================================================== 3. >= 0, zero kcals, never NaN *)

Definition series_nonneg (l : list Q) : Prop := Forall (fun x => 0 <= x) l.

Lemma series_nonneg_nth l m : series_nonneg l -> 0 <= nthq l m.
Proof.
  intros H. unfold nthq. destruct (nth_in_or_default m l 0) as [I|E]; [|rewrite E; lra].
  unfold series_nonneg in H. rewrite Forall_forall in H. apply H; exact I.
Qed.

Lemma series_nonneg_repeat0 k : series_nonneg (repeat 0 k).
Proof. unfold series_nonneg. apply Forall_forall. intros x Hx. apply repeat_spec in Hx. rewrite Hx. lra. Qed.

Lemma series_nonneg_lscale k l : 0 <= k -> series_nonneg l -> series_nonneg (lscale k l).
Proof.
  intros K H. unfold series_nonneg, lscale in *. rewrite Forall_forall in *. intros y Hy.
  apply in_map_iff in Hy. destruct Hy as (x & <- & Hx). apply Qmult_le_0_compat; [exact K|apply H; exact Hx].
Qed.

Lemma series_nonneg_map_seq (f : nat -> Q) s n : (forall m, 0 <= f m) -> series_nonneg (map f (seq s n)).
Proof.
  intros H. unfold series_nonneg. apply Forall_forall. intros y Hy. apply in_map_iff in Hy.
  destruct Hy as (m & <- & _). apply H.
Qed.

Lemma series_nonneg_to_monthly n v k : 0 <= k -> (forall m, 0 <= var_at v m) -> series_nonneg (to_monthly_list n v k).
Proof.
  intros K H. destruct v as [len|vals]; cbn [to_monthly_list].
  - apply series_nonneg_repeat0.
  - apply series_nonneg_map_seq. intros m. apply Qmult_le_0_compat; [exact (H m)|exact K].
Qed.

Lemma series_nonneg_firstn n l : series_nonneg l -> series_nonneg (firstn n l).
Proof.
  unfold series_nonneg. intros H. revert n. induction H as [|x l Hx Hl IH]; intros [|n]; cbn; constructor; auto.
Qed.

Lemma series_nonneg_padded n l : (forall m, 0 <= at_ l m) -> series_nonneg (firstn n (l ++ repeat 0 n)).
Proof.
  intros H. apply series_nonneg_firstn. unfold series_nonneg. apply Forall_app. split; [|apply series_nonneg_repeat0].
  apply Forall_forall. intros x Hx. destruct (In_nth l x 0 Hx) as (m & _ & <-). exact (H m).
Qed.

Lemma series_nonneg_map_div km l : 0 < km -> series_nonneg l -> series_nonneg (map (fun v => v / km) l).
Proof.
  intros K H. unfold series_nonneg in *. rewrite Forall_forall in *. intros y Hy.
  apply in_map_iff in Hy. destruct Hy as (x & <- & Hx). apply Qle_shift_div_l; [exact K|]. specialize (H x Hx). lra.
Qed.

Lemma series_nonneg_ladd a b : series_nonneg a -> series_nonneg b -> series_nonneg (ladd a b).
Proof.
  unfold series_nonneg, ladd. intros Ha. revert b. induction Ha as [|x a Hx Ha IH]; intros b Hb; cbn; [constructor|].
  destruct Hb as [|y b Hy Hb]; constructor; [lra|apply IH; exact Hb].
Qed.

Lemma rhe_nonneg y : 0 <= y -> (0 <= rhe y)%Z.
Proof.
  intros H. unfold rhe. assert (F : (0 <= Qfloor y)%Z).
  { change 0%Z with (Qfloor 0). apply Qfloor_resp_le. exact H. }
  destruct (Qcompare (y - inject_Z (Qfloor y)) (1 # 2)); [destruct (Z.even (Qfloor y))| |]; lia.
Qed.

Lemma round_dec_nonneg d x : 0 <= x -> 0 <= round_dec d x.
Proof.
  intros H. unfold round_dec. pose proof (pow10_pos d) as P.
  assert (Y : 0 <= x * pow10 d) by (apply Qmult_le_0_compat; lra).
  pose proof (rhe_nonneg _ Y) as R. rewrite Zle_Qle in R. change (inject_Z 0) with 0 in R.
  apply Qle_shift_div_l; [exact P|]. lra.
Qed.

Lemma series_nonneg_lround d l : series_nonneg l -> series_nonneg (lround d l).
Proof.
  intros H. unfold series_nonneg, lround in *. rewrite Forall_forall in *. intros y Hy.
  apply in_map_iff in Hy. destruct Hy as (x & <- & Hx). apply round_dec_nonneg. apply H; exact Hx.
Qed.

Lemma all_ge_of_nonneg thr l : 0 <= thr -> series_nonneg l -> all_ge thr l = true.
Proof.
  intros T H. unfold all_ge, all_b. apply forallb_forall. intros x Hx.
  unfold series_nonneg in H. rewrite Forall_forall in H. specialize (H x Hx). apply Qle_bool_true. lra.
Qed.

Lemma var_at_vars_of_nonneg i a add s m : nonneg a -> 0 <= var_at (vars_of i a add s) m.
Proof.
  intros H. unfold vars_of. destruct add; cbn [var_at]; [|lra].
  apply series_nonneg_nth. apply series_nonneg_map_seq. intros k. apply H.
Qed.

(* milk, fish and greenhouse handed to the optimiser are non-negative *)
Definition given_nonneg (i : lp_in) : Prop :=
  (forall m, 0 <= at_ (milk i) m) /\ (forall m, 0 <= at_ (fish i) m) /\ (forall m, 0 <= at_ (greenhouse i) m).

Lemma extract_ns_nonneg x e : extract x = Ok e -> 0 < r_km x -> series_nonneg (e_ns e).
Proof.
  intros HE K. destruct (extract_inv _ _ HE) as (_ & _ & _ & _ & _ & _ & _ & _ & _ & S).
  destruct (is_modelled (v_cr_h x)).
  - unfold split_series in S. injection S as _ ->. rewrite map_map. apply series_nonneg_map_seq.
    intros m. apply split_month_nonneg. apply Qlt_le_weak. apply Qdiv_pos; [reflexivity|exact K].
  - destruct S as [_ ->]. apply series_nonneg_repeat0.
Qed.

(* every series the report keeps for a food is non-negative, except immediate_outdoor_crops (p_imm / q_imm / k_imm:
   `produced` in to_monthly_list_outdoor_crops_kcals is production minus feed and biofuel and may be negative) *)
Definition reported_nonneg (ii : interpreted) : Prop :=
  series_nonneg (p_sf ii) /\ series_nonneg (p_cr ii) /\ series_nonneg (p_sw ii) /\ series_nonneg (p_cs ii) /\
  series_nonneg (p_scp ii) /\ series_nonneg (p_gh ii) /\ series_nonneg (p_fish ii) /\ series_nonneg (p_meat ii) /\
  series_nonneg (p_milk ii) /\ series_nonneg (p_ns ii) /\ series_nonneg (p_sum ii) /\
  series_nonneg (q_sf ii) /\ series_nonneg (q_cr ii) /\ series_nonneg (q_sw ii) /\ series_nonneg (q_ns ii).

Lemma report_nonneg i c a e ii : lp_settings_ok i c -> nonneg a -> 0 <= sw_kcals i -> given_nonneg i ->
  report (report_in i c a) = Ok (e, ii) -> reported_nonneg ii /\ 0 <= headline ii.
Proof.
  intros (P & K & _) NN SW (GM & GF & GG) R.
  destruct (report_inv _ _ _ R) as [HE HI]. cbn [report_in r_conv] in HI.
  destruct (extract_inv _ _ HE) as (E1 & E2 & E3 & E4 & E5 & E6 & E7 & E8 & E9 & _).
  destruct (interpret_inv _ _ _ HI) as
    (I1 & I2 & I3 & I4 & I5 & I6 & I7 & I8 & I9 & _ & I11 & S & M & _ & Q1 & Q2 & _ & Q4 & Q5 & _).
  pose proof (km_pos c P) as KP.
  assert (KM : 0 < kcals_monthly_pp i) by (rewrite K; exact KP).
  assert (PCT : 0 <= m_bf_pct c) by (apply Qlt_le_weak, m_bf_pct_pos; exact P).
  assert (BK : 0 <= m_bk_bf c) by (rewrite (bk_bf_formula c P); apply Qlt_le_weak, Qdiv_pos; [reflexivity|exact KP]).
  assert (C1 : 0 <= 1 / kcals_monthly_pp i) by (apply Qlt_le_weak, Qdiv_pos; [reflexivity|exact KM]).
  assert (CS : 0 <= sw_kcals i / kcals_monthly_pp i) by (apply Qle_shift_div_l; [exact KM|lra]).
  cbn [report_in r_n r_km r_conv r_sw_kcals v_sf_h v_sw_h v_scp_h v_cs_h v_meat v_cr_h r_fish r_greenhouse r_milk] in *.
  assert (V : forall add s, series_nonneg (lscale (m_bf_pct c) (to_monthly_list (NM i) (vars_of i a add s) (1 / kcals_monthly_pp i)))).
  { intros add s. apply series_nonneg_lscale; [exact PCT|]. apply series_nonneg_to_monthly; [exact C1|].
    intros m. apply var_at_vars_of_nonneg; exact NN. }
  assert (Hsf : series_nonneg (p_sf ii)) by (rewrite I1, E1; apply V).
  assert (Hcr : series_nonneg (p_cr ii)) by (rewrite I2, E7; apply V).
  assert (Hsw : series_nonneg (p_sw ii)).
  { rewrite I3, E2. apply series_nonneg_lscale; [exact PCT|]. apply series_nonneg_to_monthly; [exact CS|].
    intros m. apply var_at_vars_of_nonneg; exact NN. }
  assert (Hcs : series_nonneg (p_cs ii)) by (rewrite I4, E4; apply V).
  assert (Hscp : series_nonneg (p_scp ii)) by (rewrite I5, E3; apply V).
  assert (Hgh : series_nonneg (p_gh ii)).
  { rewrite I6, E6. apply series_nonneg_lscale; [exact PCT|]. apply series_nonneg_lscale; [exact BK|].
    apply series_nonneg_padded; exact GG. }
  assert (Hfish : series_nonneg (p_fish ii)).
  { rewrite I7, E5. apply series_nonneg_lscale; [exact PCT|]. apply series_nonneg_lscale; [exact BK|].
    apply series_nonneg_padded; exact GF. }
  assert (Hmeat : series_nonneg (p_meat ii)) by (rewrite I8, E8; apply V).
  assert (Hmilk : series_nonneg (p_milk ii)).
  { rewrite I9, E9. apply series_nonneg_lscale; [exact PCT|]. apply series_nonneg_map_div; [exact KM|].
    apply series_nonneg_padded; exact GM. }
  assert (Hns : series_nonneg (p_ns ii)).
  { rewrite I11. apply series_nonneg_lscale; [exact PCT|]. apply (extract_ns_nonneg _ _ HE). exact KM. }
  assert (Hsum : series_nonneg (p_sum ii)).
  { rewrite S. unfold sum9. repeat apply series_nonneg_ladd; assumption. }
  split.
  - unfold reported_nonneg. rewrite Q1, Q2, Q4, Q5.
    repeat split; try assumption; apply series_nonneg_lround; assumption.
  - destruct (lmin_spec _ _ M) as [IN _]. unfold series_nonneg in Hsum. rewrite Forall_forall in Hsum. apply Hsum; exact IN.
Qed.

(* every check of ensure_all_greater_than_or_equal_to_zero passes, every reported series (but the immediate-crops
   split) is >= 0, and the headline is >= 0 - for every round type *)
Theorem validator_nonneg_ok : forall i c ty a e ii, lp_settings_ok i c -> Feasible i ty a -> 0 <= sw_kcals i ->
  given_nonneg i -> report (report_in i c a) = Ok (e, ii) ->
  reported_nonneg ii /\ 0 <= headline ii /\ ensure_all_greater_than_or_equal_to_zero ii = true.
Proof.
  intros i c ty a e ii H [NN _] SW G R. destruct (report_nonneg i c a e ii H NN SW G R) as [RN HL].
  split; [exact RN|]. split; [exact HL|].
  destruct RN as (_ & _ & _ & Hcs & Hscp & Hgh & Hfish & Hmeat & Hmilk & _ & _ & _ & _ & _ & Hqns).
  unfold ensure_all_greater_than_or_equal_to_zero.
  rewrite (all_ge_of_nonneg (1 # 1000000) _ ltac:(lra) Hcs), (all_ge_of_nonneg (1 # 1000000) _ ltac:(lra) Hscp),
          (all_ge_of_nonneg 0 _ ltac:(lra) (series_nonneg_lround 6 _ Hgh)), (all_ge_of_nonneg 0 _ ltac:(lra) Hfish),
          (all_ge_of_nonneg 0 _ ltac:(lra) (series_nonneg_lround 6 _ Hmeat)), (all_ge_of_nonneg 0 _ ltac:(lra) Hmilk),
          (all_ge_of_nonneg 0 _ ltac:(lra) Hqns).
  reflexivity.
Qed.

(* ---------- zero kcals => zero fat and protein ---------- *)

(* with fat / protein tracking off (the only reachable setting: "required" exits in the shipped code) the check asserts
   nothing, whatever the series are *)
Theorem validator_zero_kcals_ok : forall foods, ensure_zero_kcals_have_zero_fat_and_protein false false foods = true.
Proof.
  intros foods. unfold ensure_zero_kcals_have_zero_fat_and_protein. apply forallb_forall.
  intros [[k f] p] _. reflexivity.
Qed.

(* what holds beyond that: the Extractor builds kcals, fat and protein of a food from the SAME optimiser variable
   (value * ratio / constant), so a series proportional to the variable values is zero wherever the kcals series with a
   non-zero factor is zero - the check would pass with tracking on as well, for such foods *)
Lemma in_combine_maps {A} (f g : A -> Q) l x y : In (x, y) (combine (map f l) (map g l)) -> exists v, x = f v /\ y = g v.
Proof. induction l as [|v l IH]; cbn; [tauto|]. intros [E|H]; [inversion E; eauto|auto]. Qed.

Lemma zero_where_kcals_zero_proportional (vals : list Q) kk kf : ~ kk == 0 ->
  zero_where_kcals_zero (map (Qmult kk) vals) (map (Qmult kf) vals) = true.
Proof.
  intros K. unfold zero_where_kcals_zero. apply forallb_forall. intros [x y] H.
  destruct (in_combine_maps _ _ _ _ _ H) as (v & -> & ->). cbn [fst snd].
  destruct (Qeq_bool (kk * v) 0) eqn:Z; [|reflexivity]. cbn [negb orb].
  apply Qeq_bool_iff in Z. apply Qeq_bool_iff.
  assert (V : v == 0).
  { destruct (Qeq_dec v 0) as [V|V]; [exact V|]. exfalso. apply Qmult_integral in Z. tauto. }
  rewrite V. ring.
Qed.

(* ---------- never NaN ---------- *)

Lemma pos_nonzero (d : Q) : 0 < d -> ~ d == 0.
Proof. intros H E. rewrite E in H. apply (Qlt_irrefl 0 H). Qed.

(* no divisor of the optimiser rows / Extractor / unit conversions is zero: with positive need and population and
   waste percentages below 100, NaN (0/0) cannot arise from finite inputs *)
Theorem validator_never_nan_ok : forall i c, admissible i -> lp_settings_ok i c -> never_divides_by_zero i c.
Proof.
  intros i c (W1 & W2 & W3 & W4 & W5 & W6 & N & _) (P & K & _).
  pose proof (km_pos c P) as KP. pose proof (bkn_pos c P) as BP.
  unfold never_divides_by_zero, chain_divisors. apply Forall_app. split.
  - repeat (apply Forall_cons; [apply pos_nonzero|]); try apply Forall_nil;
      try (apply waste_den_pos; assumption); try assumption.
    + rewrite K. exact KP.
    + destruct P as (_ & _ & _ & D). exact D.
  - pose proof (kcal_mult_pos c P) as A. unfold all_pos in A. rewrite Forall_forall in *.
    intros d Hd. apply in_map_iff in Hd. destruct Hd as (kv & <- & Hkv). apply pos_nonzero. exact (A kv Hkv).
Qed.

(* ================================================================== 4. feed / biofuel used below demand *)

Lemma pct_bk_formula c : positive_settings c -> m_pct_bk c * m_bf_pct c == kcals_monthly c.
Proof.
  intros (A & B & C & D).
  change (m_pct_bk c) with (conversion_formula (kcal_billion_kcal_to_percent_fed c) 1).
  rewrite m_bf_pct_eq. unfold conversion_formula. unfold_units. field. qnz.
Qed.

Lemma use_pct_len x v r : varlen v = f_n x -> List.length (use_pct x v r) = f_n x.
Proof. intros H. unfold use_pct, lscale. rewrite map_length. apply to_monthly_list_len; exact H. Qed.

Lemma use_pct_back x v r m : positive_settings (f_conv x) -> f_km x == kcals_monthly (f_conv x) -> (m < f_n x)%nat ->
  m_pct_bk (f_conv x) * nthq (use_pct x v r) m == r * var_at v m.
Proof.
  intros P K Hm. unfold use_pct. rewrite nthq_lscale, to_monthly_list_nth by exact Hm.
  pose proof (pct_bk_formula _ P) as F. pose proof (km_pos _ P) as KP.
  transitivity (var_at v m * (r / f_km x) * (m_pct_bk (f_conv x) * m_bf_pct (f_conv x))); [ring|].
  rewrite F, K. field. intro HE; lra.
Qed.

Lemma sum5_len a b c d e n : List.length a = n -> List.length b = n -> List.length c = n -> List.length d = n ->
  List.length e = n -> List.length (sum5 a b c d e) = n.
Proof.
  intros La Lb Lc Ld Le. unfold sum5.
  assert (A1 := ladd_len a b ltac:(lia)).
  assert (A2 := ladd_len (ladd a b) c ltac:(lia)).
  assert (A3 := ladd_len (ladd (ladd a b) c) d ltac:(lia)).
  assert (A4 := ladd_len (ladd (ladd (ladd a b) c) d) e ltac:(lia)). lia.
Qed.

(* what the two asserts look at (sum of the five percent-fed feed series, converted to billion kcals) IS the LP's monthly
   feed / biofuel sum - for every assignment *)
Lemma validator_feed_link i c a : lp_settings_ok i c ->
  List.length (sum_feed_sources (fb_of i c a)) = NM i /\ List.length (sum_biofuel_sources (fb_of i c a)) = NM i /\
  forall m, (m < NM i)%nat ->
    nthq (lscale (m_pct_bk c) (sum_feed_sources (fb_of i c a))) m == feed_sum i a m /\
    nthq (lscale (m_pct_bk c) (sum_biofuel_sources (fb_of i c a))) m == biofuel_sum i a m.
Proof.
  intros (P & K & _). set (x := fb_of i c a).
  assert (Hn : f_n x = NM i) by reflexivity.
  assert (L : forall add s r, List.length (use_pct x (vars_of i a add s) r) = NM i).
  { intros. rewrite use_pct_len; [exact Hn|apply varlen_vars_of]. }
  split; [|split].
  - unfold sum_feed_sources. apply sum5_len; apply L.
  - unfold sum_biofuel_sources. apply sum5_len; apply L.
  - intros m Hm. rewrite !nthq_lscale.
    assert (B : forall add s r, m_pct_bk c * nthq (use_pct x (vars_of i a add s) r) m == r * bsel add (a s m)).
    { intros add s r. rewrite <- (var_at_vars_of i a add s m Hm).
      apply (use_pct_back x (vars_of i a add s) r m P K). rewrite Hn; exact Hm. }
    unfold sum_feed_sources, sum_biofuel_sources. split.
    + cbn [x fb_of vf_cs vf_scp vf_sw vf_cr vf_sf f_sw_kcals].
      rewrite (sum5_nth _ _ _ _ _ m (NM i)) by (try apply L; exact Hm).
      rewrite !Qmult_plus_distr_r, !B. unfold feed_sum, bq, bsel. destruct (add_sw i); ring.
    + cbn [x fb_of vb_cs vb_scp vb_sw vb_cr vb_sf f_sw_kcals].
      rewrite (sum5_nth _ _ _ _ _ m (NM i)) by (try apply L; exact Hm).
      rewrite !Qmult_plus_distr_r, !B. unfold biofuel_sum, bq, bsel. destruct (add_sw i); ring.
Qed.

Lemma used_below_demand_ok demand_ reduced n : List.length demand_ = n -> List.length reduced = n ->
  (forall m, (m < n)%nat -> nthq reduced m <= nthq demand_ m) -> used_below_demand demand_ reduced = true.
Proof.
  intros Ld Lr H. unfold used_below_demand, same_len. rewrite Ld, Lr, Nat.eqb_refl. cbn [andb].
  unfold all_b. apply forallb_forall. intros d Hd.
  destruct (In_nth _ _ 0 Hd) as (m & Hm & E). unfold lsub in *. rewrite length_zip in Hm.
  change (nth m (zip_with Qminus demand_ reduced) 0) with (nthq (zip_with Qminus demand_ reduced) m) in E.
  rewrite nthq_zip in E by lia. subst d. apply Qlt_b_true. specialize (H m ltac:(lia)). lra.
Qed.

Lemma reduced_le c eps total s m : 0 <= eps -> eps <= 1 -> nthq (lscale (m_pct_bk c) total) m == s -> 0 <= s ->
  nthq (reduced_correct_units c eps total) m <= s.
Proof.
  intros E0 E1 H S. unfold reduced_correct_units. rewrite nthq_lscale, H. nra.
Qed.

(* the two asserts hold for ANY demand series that bounds the LP's monthly feed / biofuel sums, with room to spare:
   (1 - 1e-4) * used <= used <= demand, and 0 > -1e-6 *)
Theorem validator_feed_below_demand_ok : forall i c a fd bd include_fat include_protein,
  lp_settings_ok i c -> nonneg a -> 0 <= sw_kcals i -> List.length fd = NM i -> List.length bd = NM i ->
  (forall m, (m < NM i)%nat -> feed_sum i a m <= nthq fd m) ->
  (forall m, (m < NM i)%nat -> biofuel_sum i a m <= nthq bd m) ->
  assert_feed_used_below_feed_demand include_fat include_protein c fd (fb_of i c a) = true /\
  assert_biofuels_used_below_biofuels_demand include_fat include_protein c bd (fb_of i c a) = true.
Proof.
  intros i c a fd bd incf incp H NN SW Lf Lb Hf Hb.
  destruct (validator_feed_link i c a H) as (L1 & L2 & LK).
  unfold assert_feed_used_below_feed_demand, assert_biofuels_used_below_biofuels_demand, assert_used_below_demand.
  destruct (incp || incf); [split; reflexivity|]. split.
  - apply (used_below_demand_ok _ _ (NM i) Lf).
    + unfold reduced_correct_units, lscale. rewrite !map_length. exact L1.
    + intros m Hm. destruct (LK m Hm) as [A _].
      pose proof (feed_sum_nonneg i a m NN SW) as G. specialize (Hf m Hm).
      pose proof (reduced_le c (1 # 10000) _ _ m ltac:(lra) ltac:(lra) A G). lra.
  - apply (used_below_demand_ok _ _ (NM i) Lb).
    + unfold reduced_correct_units, lscale. rewrite !map_length. exact L2.
    + intros m Hm. destruct (LK m Hm) as [_ A].
      pose proof (biofuel_sum_nonneg i a m NN SW) as G. specialize (Hb m Hm).
      pose proof (reduced_le c (1 # 10000) _ _ m ltac:(lra) ltac:(lra) A G). lra.
Qed.

(* one round, from the conclusion of the C03 theorems (c03_round1/2/3, c03_all_rounds): the demand schedule is
   feed_and_biofuels.get_feed_usage / get_biofuel_usage = Rounds.demand *)
Theorem validator_feed_below_demand_round : forall i c ty a xf df xb db include_fat include_protein,
  lp_settings_ok i c -> Feasible i ty a -> 0 <= sw_kcals i -> (df <= NM i)%nat -> (db <= NM i)%nat ->
  c03_clause i a xf df xb db (NM i) ->
  assert_feed_used_below_feed_demand include_fat include_protein c (demand xf df (NM i)) (fb_of i c a) = true /\
  assert_biofuels_used_below_biofuels_demand include_fat include_protein c (demand xb db (NM i)) (fb_of i c a) = true.
Proof.
  intros i c ty a xf df xb db incf incp H [NN _] SW Df Db CL.
  apply validator_feed_below_demand_ok; try assumption.
  - apply demand_length; exact Df.
  - apply demand_length; exact Db.
  - intros m Hm. destruct (CL m Hm) as (A & _). exact A.
  - intros m Hm. destruct (CL m Hm) as (_ & A & _). exact A.
Qed.

(* the whole pipeline: under the hypotheses of c03_all_rounds, the six assertions (feed and biofuel, after rounds
   1, 2 and 3) pass *)
Theorem validator_feed_below_demand_all_rounds :
  forall G i1 a1 i2 a2 i3 a3 xf df xb db N c include_fat include_protein,
  0 <= xf -> 0 <= xb -> glue_ok G N ->
  Feasible i1 ToHumans a1 -> Feasible i2 ToAnimals a2 -> Feasible i3 ToHumans a3 ->
  has_nonhuman i1 = true -> has_nonhuman i2 = true -> has_nonhuman i3 = true ->
  0 < sw_kcals i1 -> 0 < sw_kcals i2 -> 0 < sw_kcals i3 ->
  NM i1 = N -> NM i2 = N -> NM i3 = N ->
  (forall m, (m < N)%nat -> at_ (feed_charge i1) m == round1_feed_charge G m) ->
  (forall m, (m < N)%nat -> at_ (biofuel_charge i1) m == round1_biofuel_charge m) ->
  (forall m, (m < N)%nat -> at_ (max_feed i2) m == round2_max_feed G (demand xf df N) m) ->
  (forall m, (m < N)%nat -> at_ (max_biofuel i2) m == round2_max_biofuel (demand xb db N) m) ->
  (forall m, (m < N)%nat -> at_ (feed_charge i3) m ==
     round3_feed_charge G (Base.QList.tab N (feed_sum i2 a2)) (Base.QList.tab N (biofuel_sum i2 a2)) (demand xf df N) (demand xb db N) m) ->
  (forall m, (m < N)%nat -> at_ (biofuel_charge i3) m ==
     round3_biofuel_charge G (Base.QList.tab N (feed_sum i2 a2)) (Base.QList.tab N (biofuel_sum i2 a2)) (demand xf df N) (demand xb db N) m) ->
  lp_settings_ok i1 c -> lp_settings_ok i2 c -> lp_settings_ok i3 c -> (df <= N)%nat -> (db <= N)%nat ->
  (assert_feed_used_below_feed_demand include_fat include_protein c (demand xf df N) (fb_of i1 c a1) = true /\
   assert_biofuels_used_below_biofuels_demand include_fat include_protein c (demand xb db N) (fb_of i1 c a1) = true) /\
  (assert_feed_used_below_feed_demand include_fat include_protein c (demand xf df N) (fb_of i2 c a2) = true /\
   assert_biofuels_used_below_biofuels_demand include_fat include_protein c (demand xb db N) (fb_of i2 c a2) = true) /\
  (assert_feed_used_below_feed_demand include_fat include_protein c (demand xf df N) (fb_of i3 c a3) = true /\
   assert_biofuels_used_below_biofuels_demand include_fat include_protein c (demand xb db N) (fb_of i3 c a3) = true).
Proof.
  intros G i1 a1 i2 a2 i3 a3 xf df xb db N c incf incp Xf Xb GL F1 F2 F3 H1 H2 H3 S1 S2 S3 N1 N2 N3
         L1 L2 L3 L4 L5 L6 C1 C2 C3 Df Db.
  destruct (c03_all_rounds G i1 a1 i2 a2 i3 a3 xf df xb db N Xf Xb GL F1 F2 F3 H1 H2 H3 S1 S2 S3 N1 N2 N3
              L1 L2 L3 L4 L5 L6) as (K1 & K2 & K3).
  subst N. split; [|split].
  - apply (validator_feed_below_demand_round i1 c ToHumans a1); try assumption; lra.
  - rewrite <- N2 in *. apply (validator_feed_below_demand_round i2 c ToAnimals a2); try assumption; lra.
  - rewrite <- N3 in *. apply (validator_feed_below_demand_round i3 c ToHumans a3); try assumption; lra.
Qed.

(* ================================================================== 5. cross-round checks *)

(* ---------- assert_meat_dairy_doesnt_decrease_round_2: implied by the re-timing helper (C18) ----------
   run_round_2 reaches the assertion only when compute_parameters_second_round did not return None, i.e. when
   get_second_round_kcals_with_redistributed_meat (Model/Helpers.redistribute) returned the re-timed series, which is
   what time_consts_round2["each_month_meat_slaughtered"].kcals holds by then.  That helper returns None exactly when
   round 2 has less meat in total (c18_retime_skip) and otherwise keeps the round-2 total (c18_retime), so the asserted
   inequality holds with the whole 1 % to spare - for non-negative round-1 meat and milk totals.  It says nothing about
   the HERD model being monotone in feed: when it is not, the round is skipped instead. *)
Lemma qsum_lsum l : Base.QList.qsum l = lsum l.
Proof. induction l as [|x l IH]; cbn; [reflexivity|]. now rewrite IH. Qed.

Theorem validator_meat_dairy_ok : forall meat1 meat2 l milk1 milk2,
  Model.Helpers.redistribute meat1 meat2 = Model.Helpers.Ok l ->
  Proofs.Helpers.nonneg meat1 -> 0 <= lsum milk1 ->
  assert_meat_dairy_doesnt_decrease_round_2 meat1 l milk1 milk2 = true.
Proof.
  intros meat1 meat2 l milk1 milk2 H NN MK.
  assert (S : Base.QList.qsum meat1 <= Base.QList.qsum meat2).
  { destruct (Qlt_le_dec (Base.QList.qsum meat2) (Base.QList.qsum meat1)) as [C|C]; [|exact C].
    rewrite (Proofs.Helpers.redistribute_skip _ _ C) in H. discriminate. }
  assert (Len : List.length meat1 = List.length meat2).
  { destruct (Nat.eq_dec (List.length meat1) (List.length meat2)) as [E|E]; [exact E|]. exfalso.
    unfold Model.Helpers.redistribute in H.
    destruct (Base.QList.Qltb (Base.QList.qsum meat2) (Base.QList.qsum meat1)); [discriminate|].
    apply Nat.eqb_neq in E. rewrite E in H. cbn in H. discriminate. }
  destruct (Proofs.Helpers.redistribute_ok meat1 meat2 Len NN S) as (l' & E & _ & Sum & _).
  rewrite H in E. injection E as <-.
  pose proof (Proofs.Helpers.nonneg_qsum meat1 NN) as M1.
  unfold assert_meat_dairy_doesnt_decrease_round_2. apply Qle_bool_true.
  rewrite <- (qsum_lsum meat1), <- (qsum_lsum l), <- (qsum_lsum milk1). rewrite <- (qsum_lsum milk1) in MK. lra.
Qed.

(* ---------- assert_round3_percent_fed_not_lower_than_round1: NOT implied ----------
   The check compares the optimum of round 1 (no feed charged) with the headline of round 3 (feed and biofuel charged as
   round 2 and the glue decided).  Nothing in one LP relates the two: for exact optimal solutions of two admissible
   inputs that differ ONLY in the charge, round 3 can be far below round 1.  Whether the charge handed to round 3 is
   small enough is the cross-round policy of C03 (threshold clauses: audited on real runs, not proved); the code itself
   only prints a message here.  Counter-model: two months, stored food 2 (billion kcals), need 1 a month;
   round 1 feeds 100 %, with a feed charge of 1/2 a month round 3 feeds 50 %. *)
Definition cx_conv : conv := {| kcals_daily := 100; fat_daily := 47; protein_daily := 51; population := 1000000000 # 3000 |}.
Definition cx_in (stock : Q) (charge : list Q) : lp_in :=
  {| NM := 2; add_sw := false; add_cr := false; add_sf := true; add_meat := false; add_scp := false; add_cs := false;
     store_years := true; pop := 1000000000 # 3000; kcals_monthly_pp := 3000; need := 1;
     w_sf := 0; w_cr := 0; w_meat := 0; w_scp := 0; w_cs := 0; w_sw := 0; sf0 := stock; meat_total := 0;
     sw_kcals := 1; sw_init := 0; sw_init_area := 0; sw_min_density := 0; sw_max_density := 0; sw_harvest_loss := 0;
     relocated := false; harvest_delay := 0;
     cap_sw_h := 0; cap_sw_f := 0; cap_sw_b := 0; cap_scp_h := 0; cap_scp_f := 0; cap_scp_b := 0;
     cap_cs_h := 0; cap_cs_f := 0; cap_cs_b := 0;
     crops_prod := []; milk := []; greenhouse := []; fish := [];
     scp_prod := []; cs_prod := []; built_area := []; growth := []; feed_charge := charge; biofuel_charge := [];
     meat_monthly := []; meat_running := []; max_feed := []; max_biofuel := [];
     pin_cr := []; pin_sf := []; pin_meat := []; pin_scp := []; pin_cs := []; pin_sw := [] |}.
Definition cx1 : lp_in := cx_in 2 [].
Definition cx3 : lp_in := cx_in 2 [1 # 2; 1 # 2].
Definition cx_tbl1 : list entry :=
  series SF_start [2; 1] ++ series SF_end [1; 0] ++ series SF_h [1; 1] ++ series Consumed [100; 100] ++ series Obj [100].
Definition cx_tbl3 : list entry :=
  series SF_start [2; 1] ++ series SF_end [1; 0] ++ series SF_h [1 # 2; 1 # 2] ++ series SF_f [1 # 2; 1 # 2] ++
  series Consumed [50; 50] ++ series Obj [50].

Lemma cx_admissible stock charge : admissible (cx_in stock charge).
Proof. unfold admissible, waste_ok; cbn. repeat split; lra. Qed.

Lemma cx_settings stock charge : lp_settings_ok (cx_in stock charge) cx_conv.
Proof. unfold lp_settings_ok, positive_settings; cbn. repeat split; reflexivity. Qed.

Lemma cx1_feasible2 : Feasible2 cx1 ToHumans 100 (a_of cx_tbl1).
Proof. apply feasible2b_sound. vm_compute. reflexivity. Qed.
Lemma cx3_feasible2 : Feasible2 cx3 ToHumans 50 (a_of cx_tbl3).
Proof. apply feasible2b_sound. vm_compute. reflexivity. Qed.

(* no feasible point of the instance does better than 50 * (stock - total charge) *)
Lemma cx_bound stock charge a' : Feasible (cx_in stock charge) ToHumans a' ->
  a' Obj 0%nat <= 50 * stock - 50 * (at_ charge 0 + at_ charge 1).
Proof.
  intros F. set (i := cx_in stock charge) in *.
  assert (H0 : (0 < NM i)%nat) by (cbn; lia). assert (H1 : (1 < NM i)%nat) by (cbn; lia).
  pose proof (objective_rows i a' F 0%nat H0) as O0. pose proof (objective_rows i a' F 1%nat H1) as O1.
  assert (NZ : ~ need i == 0) by (cbn; intro HE; lra).
  pose proof (consumed_value i a' 0%nat NZ (feasible_consumed_rows i a' F 0%nat H0)) as C0.
  pose proof (consumed_value i a' 1%nat NZ (feasible_consumed_rows i a' F 1%nat H1)) as C1.
  pose proof (lpc01_stored i ToHumans a' F eq_refl 1%nat H1) as ST.
  destruct (lpc01_humans_charges i a' F eq_refl 0%nat H0) as [F0 _].
  destruct (lpc01_humans_charges i a' F eq_refl 1%nat H1) as [F1 _].
  pose proof (proj1 F) as NN.
  pose proof (NN SF_b 0%nat) as B0. pose proof (NN SF_b 1%nat) as B1.
  unfold csum, sf_use in ST. cbn [sumQ] in ST.
  assert (G : gross (w_sf i) == 1) by reflexivity. rewrite G in ST.
  unfold feed_sum in F0, F1. cbn in C0, C1, F0, F1, ST.
  assert (E : 100 / 1 == 100) by reflexivity. rewrite E in C0, C1.
  change (at_ (feed_charge i) 0) with (at_ charge 0) in F0. change (at_ (feed_charge i) 1) with (at_ charge 1) in F1.
  unfold at_ in *. lra.
Qed.

Lemma cx1_first_optimum : first_optimum cx1 100.
Proof. intros a' F. pose proof (cx_bound 2 [] a' F) as B. cbn in B. lra. Qed.
Lemma cx3_first_optimum : first_optimum cx3 50.
Proof. intros a' F. pose proof (cx_bound 2 [1 # 2; 1 # 2] a' F) as B. cbn in B. lra. Qed.

(* two admissible inputs differing only in the feed charge, each with an exact two-stage solution attaining its own
   optimum: the round-3 check (minimum_percent_fed = 100) is violated *)
Theorem validator_round3_vs_round1_not_implied :
  exists charge3 a1 a3 v1 v3,
    admissible (cx_in 2 []) /\ admissible (cx_in 2 charge3) /\
    Feasible2 (cx_in 2 []) ToHumans v1 a1 /\ first_optimum (cx_in 2 []) v1 /\ a1 Obj 0%nat == v1 /\
    Feasible2 (cx_in 2 charge3) ToHumans v3 a3 /\ first_optimum (cx_in 2 charge3) v3 /\ a3 Obj 0%nat == v3 /\
    round3_percent_fed_not_lower_than_round1 100 v1 v3 = false.
Proof.
  exists [1 # 2; 1 # 2], (a_of cx_tbl1), (a_of cx_tbl3), 100, 50.
  repeat split; try apply cx_admissible.
  - exact (proj1 (proj1 cx1_feasible2)).
  - exact (proj2 (proj1 cx1_feasible2)).
  - exact (proj2 cx1_feasible2).
  - exact cx1_first_optimum.
  - exact (proj1 (proj1 cx3_feasible2)).
  - exact (proj2 (proj1 cx3_feasible2)).
  - exact (proj2 cx3_feasible2).
  - exact cx3_first_optimum.
Qed.

(* ================================================================== 6. the 10 000 % bound of the sum-nutrients check is needed *)

(* an admissible instance with 200 times the food its people need, and an EXACT solution of the two-stage solve (first
   optimum 20 000 %, floor 19 999 %) whose headline sits on the floor: the ordinary-country check fires.  This is the
   only structural way the check can fail, and it needs more than 10 000 % fed. *)
Definition cxh : lp_in := cx_in 400 [].
Definition cx_tblh : list entry :=
  series SF_start [400; 20001 # 100] ++ series SF_end [20001 # 100; 0] ++ series SF_h [19999 # 100; 20001 # 100] ++
  series Consumed [19999; 20001] ++ series Obj [19999].

Lemma cxh_feasible2 : Feasible2 cxh ToHumans 20000 (a_of cx_tblh).
Proof. apply feasible2b_sound. vm_compute. reflexivity. Qed.
Lemma cxh_first_optimum : first_optimum cxh 20000.
Proof. intros a' F. pose proof (cx_bound 400 [] a' F) as B. cbn in B. lra. Qed.

Theorem validator_sum_nutrients_fires_above_10000 :
  exists i c a v e ii, admissible i /\ lp_settings_ok i c /\ Feasible2 i ToHumans v a /\ first_optimum i v /\
    report (report_in i c a) = Ok (e, ii) /\ 10000 < v /\
    ensure_optimizer_returns_same_as_sum_nutrients "USA" v (headline ii) = false.
Proof.
  assert (X : match report (report_in cxh cx_conv (a_of cx_tblh)) with
              | Ok (_, ii) => ensure_optimizer_returns_same_as_sum_nutrients "USA" 20000 (headline ii) = false
              | Rejected _ => False
              end) by (vm_compute; reflexivity).
  destruct (report (report_in cxh cx_conv (a_of cx_tblh))) as [[e ii]|r] eqn:R; [|contradiction].
  exists cxh, cx_conv, (a_of cx_tblh), 20000, e, ii.
  split; [apply cx_admissible|]. split; [apply cx_settings|]. split; [exact cxh_feasible2|].
  split; [exact cxh_first_optimum|]. split; [exact R|]. split; [reflexivity|exact X].
Qed.

(* ================================================================== 7. non-vacuity *)

Lemma at_nil_nonneg m : 0 <= at_ [] m.
Proof. unfold at_. destruct m; cbn; lra. Qed.

Lemma cx_given_nonneg stock charge : given_nonneg (cx_in stock charge).
Proof. unfold given_nonneg; cbn. repeat split; apply at_nil_nonneg. Qed.

(* the final round of the counter-model above (stock 2, feed charge 1/2 a month, exact optimum 50 %): every hypothesis of
   the theorems is satisfied and every check passes *)
Example validator_example :
  exists e ii, report (report_in cx3 cx_conv (a_of cx_tbl3)) = Ok (e, ii) /\ headline ii == 50 /\
    validate_results ToHumans "USA" 50 false false [] ii = true /\
    assert_feed_used_below_feed_demand false false cx_conv [1 # 2; 1 # 2] (fb_of cx3 cx_conv (a_of cx_tbl3)) = true /\
    assert_biofuels_used_below_biofuels_demand false false cx_conv [0; 0] (fb_of cx3 cx_conv (a_of cx_tbl3)) = true /\
    check_constraints_satisfied (fun _ => false) (a_of cx_tbl3) (build cx3 ToHumans ++ second_stage cx3 ToHumans 50) = true /\
    never_divides_by_zero cx3 cx_conv.
Proof.
  assert (X : match report (report_in cx3 cx_conv (a_of cx_tbl3)) with
              | Ok (_, ii) => headline ii == 50 | Rejected _ => False end) by (vm_compute; reflexivity).
  destruct (report (report_in cx3 cx_conv (a_of cx_tbl3))) as [[e ii]|r] eqn:R; [|contradiction].
  exists e, ii. split; [reflexivity|]. split; [exact X|].
  pose proof (cx_settings 2 [1 # 2; 1 # 2]) as ST. fold cx3 in ST.
  pose proof cx3_feasible2 as F2. pose proof (proj1 F2) as F.
  destruct (validator_sum_nutrients_ok cx3 cx_conv _ 50 e ii "USA" ST F2 R cx3_first_optimum ltac:(lra)) as [_ C1].
  destruct (validator_nonneg_ok cx3 cx_conv ToHumans _ e ii ST F ltac:(cbn; lra) (cx_given_nonneg _ _) R) as (_ & _ & C3).
  split.
  { unfold validate_results. rewrite C1, C3, (validator_zero_kcals_ok []). reflexivity. }
  assert (FD : assert_feed_used_below_feed_demand false false cx_conv [1 # 2; 1 # 2] (fb_of cx3 cx_conv (a_of cx_tbl3)) = true /\
               assert_biofuels_used_below_biofuels_demand false false cx_conv [0; 0] (fb_of cx3 cx_conv (a_of cx_tbl3)) = true).
  { apply validator_feed_below_demand_ok; try reflexivity; try exact ST; try exact (proj1 F); try (cbn; lra).
    - intros m Hm. destruct (lpc01_humans_charges cx3 _ F eq_refl m Hm) as [A _]. rewrite A. unfold at_, nthq. cbn. lra.
    - intros m Hm. destruct (lpc01_humans_charges cx3 _ F eq_refl m Hm) as [_ A]. rewrite A.
      cbn in Hm. unfold at_, nthq. destruct m as [|[|m]]; cbn; try lra; lia. }
  destruct FD as [FD1 FD2]. split; [exact FD1|]. split; [exact FD2|].
  split; [apply validator_constraints_second_stage_ok; exact F2|].
  apply validator_never_nan_ok; [apply cx_admissible|exact ST].
Qed.

(* the worked instance of Props/C01.v (three months; stored food, crops and SCP on, 20 % / 10 % waste): both round
   types pass check_constraints_satisfied, and a wrong assignment (all zeros) is caught by it *)
Example validator_constraints_example :
  check_constraints_satisfied (fun _ => false) (a_of ex_tbl_h) (build ex_in ToHumans ++ second_stage ex_in ToHumans (2000 # 63)) = true /\
  check_constraints_satisfied (fun _ => false) (a_of ex_tbl_a) (build ex_in ToAnimals ++ second_stage ex_in ToAnimals 9) = true /\
  check_constraints_satisfied (fun _ => false) (fun _ _ => 0) (build ex_in ToHumans) = false.
Proof.
  split; [apply validator_constraints_second_stage_ok; exact ex_feasible2_humans|].
  split; [apply validator_constraints_second_stage_ok; exact ex_feasible2_animals|].
  vm_compute. reflexivity.
Qed.

(* the cross-round checks as functions of their arguments *)
Example validator_cross_round_values :
  round3_percent_fed_not_lower_than_round1 100 100 50 = false /\
  round3_percent_fed_not_lower_than_round1 100 100 (9995 # 100) = true /\
  round3_percent_fed_not_lower_than_round1 100 60 (595 # 10) = true /\
  assert_meat_dairy_doesnt_decrease_round_2 [10; 10] [0; 20] [1; 1] [] = true /\
  assert_meat_dairy_doesnt_decrease_round_2 [10; 10] [0; 19] [1; 1] [5; 5] = false.
Proof. repeat split; vm_compute; reflexivity. Qed.
