(* C02: boundedness of the feasible set of Model/LP.v (in progress) *)
From Coq Require Import QArith.
