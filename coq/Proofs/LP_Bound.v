(* C02, certificate layer: the boundedness hypothesis of `check_cert_optimal` discharged.
   For every input `i`, every optimisation type and every feasible assignment of the programme
   `build i ty` (Model/LP.v), every variable that OCCURS in the programme is below the explicit,
   computable number `ubound i ty` (Model/LPBound.v).  Hence a certificate accepted by
   `check_cert (build i ty) y (ubound i ty) claimed` proves `claimed` optimal with no side
   condition on the assignment (`certificate_optimal`), also at the level of the specification
   Model/Physical.v (`certificate_optimal_physical`).
   Hypotheses: `admissible i` (as everywhere), `bound_hyps i ty` (people-fed rounds need at least
   one month: with no month there is no row and Obj is unbounded) and `store_ok i` (stock carried
   over the years, or no stored food: in the first-year-only regime SF_end m / SF_start (m+1),
   m > 12, are genuinely unbounded - `first_year_regime_unbounded`). *)
From Coq Require Import QArith List Bool Arith Lia Lqa.
From Allfed Require Import Model.LP Model.LPCert Model.LPBound.
From Allfed Require Import Proofs.LPChar Proofs.LPCert Proofs.LP_C01.
From Allfed Require Model.Physical Proofs.LP_C02.
Import ListNotations.
Open Scope Q_scope.

(* ================================================================== *)
(* which variables occur in `build i ty`                              *)
(* ================================================================== *)

Definition live (i : lp_in) (ty : opt_type) (v : var) : Prop :=
  match fst v with
  | SF_start | SF_end | SF_h | SF_f | SF_b => add_sf i = true /\ (snd v < NM i)%nat
  | SCP_h | SCP_f | SCP_b => add_scp i = true /\ (snd v < NM i)%nat
  | CS_h | CS_f | CS_b => add_cs i = true /\ (snd v < NM i)%nat
  | M_start | M_end => (add_meat i = true /\ store_years i = true) /\ (snd v < NM i)%nat
  | M_eaten => add_meat i = true /\ (snd v < NM i)%nat
  | CR_storage | CR_consumed | CR_h | CR_f | CR_b => add_cr i = true /\ (snd v < NM i)%nat
  | SW_wet | SW_h | SW_f | SW_b | SW_area => add_sw i = true /\ (snd v < NM i)%nat
  | Consumed => ty = ToHumans /\ (snd v < NM i)%nat
  | Obj => snd v = O
  end.

Definition terms_live (i : lp_in) (ty : opt_type) (l : list (Q * var)) : Prop :=
  Forall (fun cv => live i ty (snd cv)) l.
Definition row_live (i : lp_in) (ty : opt_type) (r : row) : Prop := terms_live i ty (lhs r).

Ltac live_solve :=
  unfold row_live, terms_live; cbv zeta; unfold t; cbn [lhs mk];
  repeat (apply Forall_cons || apply Forall_nil);
  unfold live; cbn [fst snd]; repeat split; (assumption || lia || reflexivity).

Ltac rows_live := repeat (apply Forall_cons || apply Forall_nil || apply Forall_app; try split); try live_solve.

Section Live.
  Variables (i : lp_in) (ty : opt_type).

  Lemma terms_live_opt b l : (b = true -> terms_live i ty l) -> terms_live i ty (opt b l).
  Proof. destruct b; cbn [opt]; intros H; [apply H; reflexivity | constructor]. Qed.

  Lemma terms_live_app l1 l2 : terms_live i ty l1 -> terms_live i ty l2 -> terms_live i ty (l1 ++ l2).
  Proof. intros H1 H2. apply Forall_app. split; assumption. Qed.

  Lemma live_seaweed m : add_sw i = true -> (m < NM i)%nat -> Forall (row_live i ty) (rows_seaweed i m).
  Proof. intros Hb Hm. unfold rows_seaweed. destruct m as [|p]; rows_live. Qed.

  Lemma live_pin c s pin m : live i ty (s, m) -> Forall (row_live i ty) (rows_pin i ty c s pin m).
  Proof.
    intros H. unfold rows_pin. destruct ty; [constructor|]. destruct (pin_bounds i) as [lo hi].
    repeat (apply Forall_cons || apply Forall_nil); unfold row_live, terms_live; cbn [lhs mk t];
      repeat (apply Forall_cons || apply Forall_nil); exact H.
  Qed.

  Lemma live_crops m : add_cr i = true -> (m < NM i)%nat -> Forall (row_live i ty) (rows_crops i ty m).
  Proof.
    intros Hb Hm. unfold rows_crops. destruct m as [|p]; [rows_live|].
    destruct (Nat.eqb (S p) (NM i - 1)); destruct ty; rows_live.
  Qed.

  Lemma live_sf_eaten m : add_sf i = true -> (m < NM i)%nat -> row_live i ty (sf_eaten_row i m).
  Proof. intros Hb Hm. unfold sf_eaten_row. live_solve. Qed.

  Lemma live_sf m : add_sf i = true -> (m < NM i)%nat -> Forall (row_live i ty) (rows_sf i ty m).
  Proof.
    intros Hb Hm. pose proof (live_sf_eaten m Hb Hm) as He. unfold rows_sf.
    destruct (store_years i); destruct m as [|p];
      try destruct (Nat.eqb (S p) (NM i - 1)); try destruct (Nat.ltb 12 (S p)); destruct ty;
      rows_live; try exact He.
  Qed.

  Lemma live_meat m : add_meat i = true -> (m < NM i)%nat -> Forall (row_live i ty) (rows_meat i m).
  Proof.
    intros Hb Hm. unfold rows_meat. destruct (store_years i) eqn:R; destruct m as [|p]; rows_live.
  Qed.

  Lemma live_scp m : add_scp i = true -> (m < NM i)%nat -> Forall (row_live i ty) (rows_scp i m).
  Proof. intros Hb Hm. unfold rows_scp. rows_live. Qed.

  Lemma live_cs m : add_cs i = true -> (m < NM i)%nat -> Forall (row_live i ty) (rows_cs i m).
  Proof. intros Hb Hm. unfold rows_cs. rows_live. Qed.

  Lemma live_feed_terms c m : (m < NM i)%nat -> terms_live i ty (feed_terms i c m).
  Proof.
    intros Hm. unfold feed_terms.
    repeat apply terms_live_app; apply terms_live_opt; intros Hb; live_solve.
  Qed.

  Lemma live_biofuel_terms c m : (m < NM i)%nat -> terms_live i ty (biofuel_terms i c m).
  Proof.
    intros Hm. unfold biofuel_terms.
    repeat apply terms_live_app; apply terms_live_opt; intros Hb; live_solve.
  Qed.

  Lemma live_human_terms c m : (m < NM i)%nat -> terms_live i ty (human_terms i c m).
  Proof.
    intros Hm. unfold human_terms.
    repeat apply terms_live_app; apply terms_live_opt; intros Hb; live_solve.
  Qed.

  Lemma live_feed_biofuel m : (m < NM i)%nat -> Forall (row_live i ty) (rows_feed_biofuel i ty m).
  Proof.
    intros Hm. unfold rows_feed_biofuel. destruct (has_nonhuman i); [|constructor].
    destruct ty eqn:T; [|destruct m as [|p]]; cbn [app];
      repeat (apply Forall_cons || apply Forall_nil); unfold row_live; cbn [lhs mk]; rewrite <- T;
      repeat first [ apply live_feed_terms; lia | apply live_biofuel_terms; lia | apply terms_live_app ].
  Qed.

  Lemma live_consumed m : (m < NM i)%nat -> Forall (row_live i ty) (rows_consumed i ty m).
  Proof.
    intros Hm. unfold rows_consumed. destruct ty eqn:T; [|constructor].
    apply Forall_cons; [|constructor]. unfold row_live; cbn [lhs mk]. apply Forall_cons.
    - unfold live; cbn [t fst snd]. split; [reflexivity | exact Hm].
    - rewrite <- T. apply live_human_terms. exact Hm.
  Qed.

  Lemma live_caps_food m r sh sf sb ch cf cb :
    live i ty (sh, m) -> live i ty (sf, m) -> live i ty (sb, m) -> (m < NM i)%nat ->
    Forall (row_live i ty) (rows_caps_food i ty m r sh sf sb ch cf cb).
  Proof.
    intros Hh Hf Hb Hm. unfold rows_caps_food. destruct ty eqn:T; cbn [app];
      repeat (apply Forall_cons || apply Forall_nil); unfold row_live, terms_live; cbn [lhs mk t];
      repeat (apply Forall_cons || apply Forall_nil); cbn [snd]; try assumption.
    unfold live; cbn [fst snd]. split; [reflexivity | exact Hm].
  Qed.

  Lemma live_caps m : (m < NM i)%nat -> Forall (row_live i ty) (rows_caps i ty m).
  Proof.
    intros Hm. unfold rows_caps. rewrite !Forall_app. repeat split.
    - destruct (add_sw i) eqn:Hb; [|constructor]. apply live_caps_food; try exact Hm; unfold live; cbn [fst snd]; auto.
    - destruct (add_scp i) eqn:Hb; [|constructor]. apply live_caps_food; try exact Hm; unfold live; cbn [fst snd]; auto.
    - destruct (add_cs i) eqn:Hb; [|constructor]. apply live_caps_food; try exact Hm; unfold live; cbn [fst snd]; auto.
  Qed.

  Lemma live_objective : Forall (row_live i ty) (rows_objective i ty).
  Proof.
    unfold rows_objective, months. destruct ty eqn:T.
    - apply Forall_map_seq0. intros m Hm. live_solve.
    - apply Forall_cons; [|constructor]. unfold row_live; cbn [lhs mk]. apply Forall_cons.
      + unfold live; cbn [t fst snd]. reflexivity.
      + apply Forall_flat_map_seq0. intros m Hm. rewrite <- T.
        apply terms_live_app; [apply live_feed_terms | apply live_biofuel_terms]; exact Hm.
  Qed.

  Lemma live_block (b : bool) (f g : nat -> list row) :
    (b = true -> forall m, (m < NM i)%nat -> Forall (row_live i ty) (f m) /\ Forall (row_live i ty) (g m)) ->
    Forall (row_live i ty) (if b then flat_map (fun m => f m ++ g m) (months i) else []).
  Proof. intros H. unfold months. apply Forall_resource_block. exact H. Qed.

  Theorem build_live : Forall (row_live i ty) (build i ty).
  Proof.
    unfold build, resource_rows. rewrite !Forall_app. repeat split.
    - apply live_block. intros Hb m Hm. split; [apply live_seaweed | apply live_pin; unfold live; cbn [fst snd]]; auto.
    - apply live_block. intros Hb m Hm. split; [apply live_crops | apply live_pin; unfold live; cbn [fst snd]]; auto.
    - apply live_block. intros Hb m Hm. split; [apply live_sf | apply live_pin; unfold live; cbn [fst snd]]; auto.
    - apply live_block. intros Hb m Hm. split; [apply live_meat | apply live_pin; unfold live; cbn [fst snd]]; auto.
    - apply live_block. intros Hb m Hm. split; [apply live_scp | apply live_pin; unfold live; cbn [fst snd]]; auto.
    - apply live_block. intros Hb m Hm. split; [apply live_cs | apply live_pin; unfold live; cbn [fst snd]]; auto.
    - unfold months. apply Forall_flat_map_seq0. intros m Hm. rewrite !Forall_app.
      repeat split; [apply live_feed_biofuel | apply live_consumed | apply live_caps]; exact Hm.
    - apply live_objective.
  Qed.

  (* every variable that occurs is the objective variable or belongs to an added food and a month
     of the horizon (M_start/M_end: storage regime only; Consumed: people-fed rounds only) *)
  Theorem occurs_inv s m : occurs (s, m) (build i ty) = true -> live i ty (s, m).
  Proof.
    unfold occurs. rewrite orb_true_iff. intros [H|H].
    - apply var_eqb_eq in H. injection H as -> ->. unfold live; cbn [fst snd]. reflexivity.
    - apply existsb_exists in H. destruct H as (r & Hr & H).
      apply existsb_exists in H. destruct H as ([c v] & Hv & H).
      apply var_eqb_eq in H. cbn [snd] in H. subst v.
      pose proof build_live as HL. rewrite Forall_forall in HL. specialize (HL r Hr).
      unfold row_live, terms_live in HL. rewrite Forall_forall in HL. exact (HL _ Hv).
  Qed.
End Live.

(* ================================================================== *)
(* arithmetic helpers                                                 *)
(* ================================================================== *)

Lemma rsum_sumQ f n : rsum f n == sumQ f n.
Proof. induction n as [|n IH]; cbn [rsum sumQ]; [reflexivity | rewrite Qred_correct, IH; reflexivity]. Qed.

Lemma rsum_nonneg f n : (forall m, 0 <= f m) -> 0 <= rsum f n.
Proof. intros H. rewrite rsum_sumQ. apply sumQ_nonneg. intros; apply H. Qed.

Lemma term_le_csum f m : (forall k, 0 <= f k) -> f m <= csum f m.
Proof.
  intros H. unfold csum. cbn [sumQ].
  assert (0 <= sumQ f m) by (apply sumQ_nonneg; intros; apply H). lra.
Qed.

Lemma csum_le_rsum f m n : (forall k, 0 <= f k) -> (m < n)%nat -> csum f m <= rsum f n.
Proof.
  intros H Hm. rewrite rsum_sumQ. unfold csum. apply sumQ_mono_n; [intros; apply H | lia].
Qed.

Lemma term_le_rsum f m n : (forall k, 0 <= f k) -> (m < n)%nat -> f m <= rsum f n.
Proof. intros H Hm. pose proof (term_le_csum f m H). pose proof (csum_le_rsum f m n H Hm). lra. Qed.

Lemma pos_sum_nonneg l n : 0 <= pos_sum l n.
Proof. unfold pos_sum. apply rsum_nonneg. intros; apply pos_part_nonneg. Qed.

Lemma at_le_pos_sum l m n : (m < n)%nat -> at_ l m <= pos_sum l n.
Proof.
  intros Hm. unfold pos_sum.
  pose proof (term_le_rsum (fun m => pos_part (at_ l m)) m n (fun k => pos_part_nonneg _) Hm) as H.
  cbv beta in H. pose proof (pos_part_ge (at_ l m)). lra.
Qed.

Lemma csum_at_le_pos_sum l m n : (m < n)%nat -> csum (at_ l) m <= pos_sum l n.
Proof.
  intros Hm. unfold pos_sum.
  pose proof (csum_le_rsum (fun m => pos_part (at_ l m)) m n (fun k => pos_part_nonneg _) Hm) as H.
  assert (csum (at_ l) m <= csum (fun m => pos_part (at_ l m)) m)
    by (apply csum_le; intros; apply pos_part_ge). lra.
Qed.

Lemma mul_bound x X c : 0 <= x -> x <= X -> x * c <= X * pos_part c.
Proof.
  intros H0 H1. pose proof (pos_part_ge c). pose proof (pos_part_nonneg c).
  assert (x * c <= x * pos_part c).
  { rewrite (Qmult_comm x c), (Qmult_comm x (pos_part c)). apply Qmult_le_compat_r; assumption. }
  assert (x * pos_part c <= X * pos_part c) by (apply Qmult_le_compat_r; assumption). lra.
Qed.

Lemma gross_drop w x : waste_ok w -> 0 <= x -> x <= gross w * x.
Proof.
  intros Hw Hx. pose proof (gross_ge_1 w Hw).
  assert (0 <= (gross w - 1) * x) by (apply Qmult_le_0_compat; lra). lra.
Qed.

(* a three-way use: each share is below the (grossed-up) total *)
Lemma use_parts w h f b U : waste_ok w -> 0 <= h -> 0 <= f -> 0 <= b -> gross w * h + f + b <= U ->
  h <= U /\ f <= U /\ b <= U.
Proof.
  intros Hw Hh Hf Hb H. pose proof (gross_drop w h Hw Hh). repeat split; lra.
Qed.

Lemma onb_nonneg b x : 0 <= x -> 0 <= onb b x.
Proof. destruct b; cbn [onb]; lra. Qed.

Lemma bq_le_onb b x X : (b = true -> x <= X) -> bq b x <= onb b X.
Proof. destruct b; cbn [bq onb]; intros H; [apply H; reflexivity | lra]. Qed.

(* ================================================================== *)
(* the pieces are non-negative                                        *)
(* ================================================================== *)

Lemma B_sf_nonneg i : 0 <= B_sf i.
Proof. apply onb_nonneg, pos_part_nonneg. Qed.
Lemma B_cr_nonneg i : 0 <= B_cr i.
Proof. apply onb_nonneg, pos_sum_nonneg. Qed.
Lemma B_meat_nonneg i : 0 <= B_meat i.
Proof. apply onb_nonneg. destruct (store_years i); [apply pos_part_nonneg | apply pos_sum_nonneg]. Qed.
Lemma B_scp_nonneg i : 0 <= B_scp i.
Proof. apply onb_nonneg, pos_sum_nonneg. Qed.
Lemma B_cs_nonneg i : 0 <= B_cs i.
Proof. apply onb_nonneg, pos_sum_nonneg. Qed.
Lemma sw_W_nonneg i m : 0 <= sw_W i m.
Proof. apply pos_part_nonneg. Qed.
Lemma sw_B_nonneg i m : 0 <= sw_B i m.
Proof. apply pos_part_nonneg. Qed.
Lemma sw_U_nonneg i m : 0 <= sw_U i m.
Proof.
  destruct m as [|p]; cbn [sw_U]; [lra|].
  pose proof (Qmult_le_0_compat _ _ (sw_W_nonneg i p) (pos_part_nonneg (1 + at_ (growth i) (S p) / 100))).
  pose proof (Qmult_le_0_compat _ _ (sw_B_nonneg i p) (pos_part_nonneg (sw_c i))).
  pose proof (Qmult_le_0_compat _ _ (sw_B_nonneg i (S p)) (pos_part_nonneg (- sw_c i))). lra.
Qed.
Lemma B_sw_stock_nonneg i : 0 <= B_sw_stock i.
Proof.
  apply onb_nonneg. pose proof (rsum_nonneg (sw_W i) (NM i) (sw_W_nonneg i)).
  pose proof (rsum_nonneg (sw_B i) (NM i) (sw_B_nonneg i)). lra.
Qed.
Lemma B_sw_use_nonneg i : 0 <= B_sw_use i.
Proof. apply onb_nonneg, rsum_nonneg, sw_U_nonneg. Qed.

Lemma B_human_nonneg i : 0 < sw_kcals i -> 0 <= B_human i.
Proof.
  intros Hk. unfold B_human.
  pose proof (B_sf_nonneg i). pose proof (B_cr_nonneg i). pose proof (B_meat_nonneg i).
  pose proof (B_cs_nonneg i). pose proof (B_scp_nonneg i).
  assert (0 <= sw_kcals i * B_sw_use i) by (apply Qmult_le_0_compat; [lra | apply B_sw_use_nonneg]). lra.
Qed.

Lemma need_factor_nonneg i : 0 < need i -> 0 <= 100 / need i.
Proof. intros Hn. apply Qle_shift_div_l; [exact Hn | lra]. Qed.

Lemma B_cons_nonneg i : 0 < sw_kcals i -> 0 < need i -> 0 <= B_cons i.
Proof.
  intros Hk Hn. unfold B_cons. apply Qmult_le_0_compat; [|apply need_factor_nonneg; exact Hn].
  pose proof (B_human_nonneg i Hk).
  pose proof (rsum_nonneg (fun m => pos_part (given_kcals i m)) (NM i) (fun m => pos_part_nonneg _)). lra.
Qed.

Lemma B_obj_animals_nonneg i : 0 <= B_obj_animals i.
Proof. unfold B_obj_animals. pose proof (pos_sum_nonneg (max_feed i) (NM i)). pose proof (pos_sum_nonneg (max_biofuel i) (NM i)). lra. Qed.

Definition B_last (i : lp_in) (ty : opt_type) : Q :=
  match ty with ToHumans => B_cons i | ToAnimals => B_obj_animals i end.

Lemma ubound_eq i ty :
  ubound i ty == B_sf i + B_cr i + B_meat i + B_scp i + B_cs i + B_sw_stock i + B_sw_use i + B_last i ty.
Proof. unfold ubound. rewrite Qred_correct. reflexivity. Qed.

Definition store_ok (i : lp_in) : Prop := store_years i = true \/ add_sf i = false.
Definition bound_hyps (i : lp_in) (ty : opt_type) : Prop := ty = ToHumans -> (0 < NM i)%nat.

(* ================================================================== *)
(* per-food bounds                                                    *)
(* ================================================================== *)
Section Bounds.
  Variables (i : lp_in) (ty : opt_type) (a : assignment).
  Hypothesis A : admissible i.
  Hypothesis F : Feasible i ty a.

  Let Hn : forall s m, 0 <= a s m := lpc01_nonneg i ty a F.

  Lemma A_sf : waste_ok (w_sf i). Proof. destruct A as (H & _); exact H. Qed.
  Lemma A_cr : waste_ok (w_cr i). Proof. destruct A as (_ & H & _); exact H. Qed.
  Lemma A_meat : waste_ok (w_meat i). Proof. destruct A as (_ & _ & H & _); exact H. Qed.
  Lemma A_scp : waste_ok (w_scp i). Proof. destruct A as (_ & _ & _ & H & _); exact H. Qed.
  Lemma A_cs : waste_ok (w_cs i). Proof. destruct A as (_ & _ & _ & _ & H & _); exact H. Qed.
  Lemma A_sw : waste_ok (w_sw i). Proof. destruct A as (_ & _ & _ & _ & _ & H & _); exact H. Qed.
  Lemma A_need : 0 < need i. Proof. destruct A as (_ & _ & _ & _ & _ & _ & H & _); exact H. Qed.
  Lemma A_kcals : 0 < sw_kcals i. Proof. destruct A as (_ & _ & _ & _ & _ & _ & _ & H); exact H. Qed.

  Lemma use_nonneg_all k :
    0 <= sf_use i a k /\ 0 <= cr_use i a k /\ 0 <= meat_use i a k /\
    0 <= scp_use i a k /\ 0 <= cs_use i a k /\ 0 <= sw_use i a k.
  Proof. exact (lpc01_use_nonneg i ty a F A k). Qed.

  (* ---------------- stored food ---------------- *)

  Lemma bnd_sf_use : add_sf i = true -> forall m, (m < NM i)%nat ->
    a SF_h m <= pos_part (sf0 i) /\ a SF_f m <= pos_part (sf0 i) /\ a SF_b m <= pos_part (sf0 i).
  Proof.
    intros Hb m Hm. apply (use_parts (w_sf i)); try apply Hn; [apply A_sf|].
    pose proof (lpc01_stored i ty a F Hb m Hm) as H.
    pose proof (term_le_csum (sf_use i a) m (fun k => proj1 (use_nonneg_all k))) as H1.
    unfold sf_use at 1 in H1. pose proof (pos_part_ge (sf0 i)). lra.
  Qed.

  Lemma bnd_sf_end : add_sf i = true -> store_years i = true -> forall m, (m < NM i)%nat ->
    a SF_end m <= pos_part (sf0 i).
  Proof.
    intros Hb R m Hm. pose proof (sf_ledger_store i ty a F Hb R m Hm) as H.
    assert (0 <= csum (sf_use i a) m) by (apply csum_nonneg; intros k _; exact (proj1 (use_nonneg_all k))).
    pose proof (pos_part_ge (sf0 i)). lra.
  Qed.

  Lemma bnd_sf_start : add_sf i = true -> store_years i = true -> forall m, (m < NM i)%nat ->
    a SF_start m <= pos_part (sf0 i).
  Proof.
    intros Hb R m Hm. pose proof (Feasible_sf i ty a F m Hb Hm) as H. destruct m as [|p].
    - apply (sat_rows_sf_store_O i ty a R) in H. destruct H as [H _]. pose proof (pos_part_ge (sf0 i)). lra.
    - apply (sat_rows_sf_store_S i ty a p R) in H. destruct H as [H _].
      pose proof (bnd_sf_end Hb R p ltac:(lia)). lra.
  Qed.

  (* ---------------- outdoor crops ---------------- *)

  Lemma bnd_cr_consumed : add_cr i = true -> forall m, (m < NM i)%nat ->
    a CR_consumed m <= pos_sum (crops_prod i) (NM i).
  Proof.
    intros Hb m Hm. pose proof (lpc01_crops i ty a F Hb m Hm) as H.
    pose proof (term_le_csum (a CR_consumed) m (Hn CR_consumed)).
    pose proof (csum_at_le_pos_sum (crops_prod i) m (NM i) Hm). lra.
  Qed.

  Lemma bnd_cr_storage : add_cr i = true -> forall m, (m < NM i)%nat ->
    a CR_storage m <= pos_sum (crops_prod i) (NM i).
  Proof.
    intros Hb m Hm. pose proof (crops_ledger i ty a F Hb m Hm) as H.
    assert (0 <= csum (a CR_consumed) m) by (apply csum_nonneg; intros; apply Hn).
    pose proof (csum_at_le_pos_sum (crops_prod i) m (NM i) Hm). lra.
  Qed.

  Lemma bnd_cr_use : add_cr i = true -> forall m, (m < NM i)%nat ->
    a CR_h m <= pos_sum (crops_prod i) (NM i) /\ a CR_f m <= pos_sum (crops_prod i) (NM i) /\
    a CR_b m <= pos_sum (crops_prod i) (NM i).
  Proof.
    intros Hb m Hm. apply (use_parts (w_cr i)); try apply Hn; [apply A_cr|].
    pose proof (lpc01_crops_consumed i ty a F Hb m Hm) as H. unfold cr_use in H.
    pose proof (bnd_cr_consumed Hb m Hm). lra.
  Qed.

  (* ---------------- meat ---------------- *)

  Lemma bnd_meat_eaten : add_meat i = true -> forall m, (m < NM i)%nat ->
    a M_eaten m <= (if store_years i then pos_part (meat_total i) else pos_sum (meat_monthly i) (NM i)).
  Proof.
    intros Hb m Hm. pose proof (gross_drop (w_meat i) (a M_eaten m) A_meat (Hn _ _)) as Hg.
    destruct (store_years i) eqn:R.
    - destruct (lpc01_meat_store i ty a F Hb R m Hm) as [_ H].
      pose proof (term_le_csum (meat_use i a) m (fun k => proj1 (proj2 (proj2 (use_nonneg_all k))))) as H1.
      unfold meat_use at 1 in H1. pose proof (pos_part_ge (meat_total i)). lra.
    - pose proof (lpc01_meat_nostore i ty a F Hb R m Hm) as H. unfold meat_use in H.
      pose proof (at_le_pos_sum (meat_monthly i) m (NM i) Hm). lra.
  Qed.

  Lemma bnd_meat_end : add_meat i = true -> store_years i = true -> forall m, (m < NM i)%nat ->
    a M_end m <= pos_part (meat_total i).
  Proof.
    intros Hb R m Hm. pose proof (meat_ledger i ty a F Hb R m Hm) as H.
    assert (0 <= csum (meat_use i a) m)
      by (apply csum_nonneg; intros k _; exact (proj1 (proj2 (proj2 (use_nonneg_all k))))).
    pose proof (pos_part_ge (meat_total i)). lra.
  Qed.

  Lemma bnd_meat_start : add_meat i = true -> store_years i = true -> forall m, (m < NM i)%nat ->
    a M_start m <= pos_part (meat_total i).
  Proof.
    intros Hb R m Hm. pose proof (Feasible_meat i ty a F m Hb Hm) as H. destruct m as [|p].
    - apply (sat_rows_meat_store_O i a R) in H. destruct H as [H _]. pose proof (pos_part_ge (meat_total i)). lra.
    - apply (sat_rows_meat_store_S i a p R) in H. destruct H as [H _].
      pose proof (bnd_meat_end Hb R p ltac:(lia)). lra.
  Qed.

  (* ---------------- single-cell protein, cellulosic sugar ---------------- *)

  Lemma bnd_scp : add_scp i = true -> forall m, (m < NM i)%nat ->
    a SCP_h m <= pos_sum (scp_prod i) (NM i) /\ a SCP_f m <= pos_sum (scp_prod i) (NM i) /\
    a SCP_b m <= pos_sum (scp_prod i) (NM i).
  Proof.
    intros Hb m Hm. apply (use_parts (w_scp i)); try apply Hn; [apply A_scp|].
    pose proof (lpc01_scp i ty a F Hb m Hm) as H. unfold scp_use in H.
    pose proof (at_le_pos_sum (scp_prod i) m (NM i) Hm). lra.
  Qed.

  Lemma bnd_cs : add_cs i = true -> forall m, (m < NM i)%nat ->
    a CS_h m <= pos_sum (cs_prod i) (NM i) /\ a CS_f m <= pos_sum (cs_prod i) (NM i) /\
    a CS_b m <= pos_sum (cs_prod i) (NM i).
  Proof.
    intros Hb m Hm. apply (use_parts (w_cs i)); try apply Hn; [apply A_cs|].
    pose proof (lpc01_cs i ty a F Hb m Hm) as H. unfold cs_use in H.
    pose proof (at_le_pos_sum (cs_prod i) m (NM i) Hm). lra.
  Qed.

  (* ---------------- seaweed ---------------- *)

  Lemma bnd_sw_wet_m : add_sw i = true -> forall m, (m < NM i)%nat -> a SW_wet m <= sw_W i m.
  Proof.
    intros Hb m Hm. destruct (lpc01_seaweed_bounds i ty a F Hb m Hm) as (_ & H & _).
    unfold sw_W. pose proof (pos_part_ge (sw_max_density i * at_ (built_area i) m)). lra.
  Qed.

  Lemma bnd_sw_area_m : add_sw i = true -> forall m, (m < NM i)%nat -> a SW_area m <= sw_B i m.
  Proof.
    intros Hb m Hm. destruct (lpc01_seaweed_bounds i ty a F Hb m Hm) as (_ & _ & _ & H).
    unfold sw_B. pose proof (pos_part_ge (at_ (built_area i) m)). lra.
  Qed.

  Lemma bnd_sw_stock : add_sw i = true -> forall m, (m < NM i)%nat ->
    a SW_wet m <= rsum (sw_W i) (NM i) + rsum (sw_B i) (NM i) /\
    a SW_area m <= rsum (sw_W i) (NM i) + rsum (sw_B i) (NM i).
  Proof.
    intros Hb m Hm. pose proof (bnd_sw_wet_m Hb m Hm). pose proof (bnd_sw_area_m Hb m Hm).
    pose proof (term_le_rsum (sw_W i) m (NM i) (sw_W_nonneg i) Hm).
    pose proof (term_le_rsum (sw_B i) m (NM i) (sw_B_nonneg i) Hm).
    pose proof (rsum_nonneg (sw_W i) (NM i) (sw_W_nonneg i)).
    pose proof (rsum_nonneg (sw_B i) (NM i) (sw_B_nonneg i)). split; lra.
  Qed.

  Lemma bnd_sw_use_m : add_sw i = true -> forall m, (m < NM i)%nat -> sw_use i a m <= sw_U i m.
  Proof.
    intros Hb m Hm. destruct m as [|p].
    - destruct (lpc01_seaweed_month0 i ty a F Hb Hm) as (_ & _ & H1 & H2 & H3).
      unfold sw_use. rewrite H1, H2, H3. cbn [sw_U]. lra.
    - pose proof (lpc01_seaweed_ledger i ty a F Hb p Hm) as H.
      assert (Hp : (p < NM i)%nat) by lia.
      pose proof (mul_bound _ _ (1 + at_ (growth i) (S p) / 100) (Hn SW_wet p) (bnd_sw_wet_m Hb p Hp)).
      pose proof (mul_bound _ _ (sw_c i) (Hn SW_area p) (bnd_sw_area_m Hb p Hp)).
      pose proof (mul_bound _ _ (- sw_c i) (Hn SW_area (S p)) (bnd_sw_area_m Hb (S p) Hm)).
      pose proof (Hn SW_wet (S p)). cbn [sw_U]. unfold sw_c in *. lra.
  Qed.

  Lemma bnd_sw_use : add_sw i = true -> forall m, (m < NM i)%nat ->
    a SW_h m <= rsum (sw_U i) (NM i) /\ a SW_f m <= rsum (sw_U i) (NM i) /\ a SW_b m <= rsum (sw_U i) (NM i).
  Proof.
    intros Hb m Hm. apply (use_parts (w_sw i)); try apply Hn; [apply A_sw|].
    pose proof (bnd_sw_use_m Hb m Hm) as H. unfold sw_use in H.
    pose proof (term_le_rsum (sw_U i) m (NM i) (sw_U_nonneg i) Hm). lra.
  Qed.

  (* ---------------- people's total, percent fed, objective ---------------- *)

  Lemma bnd_human_sum : forall m, (m < NM i)%nat -> human_sum i a m <= B_human i.
  Proof.
    intros m Hm. unfold human_sum, B_human.
    assert (bq (add_sf i) (a SF_h m) <= B_sf i) by (apply bq_le_onb; intros Hb; apply (bnd_sf_use Hb m Hm)).
    assert (bq (add_cr i) (a CR_h m) <= B_cr i) by (apply bq_le_onb; intros Hb; apply (bnd_cr_use Hb m Hm)).
    assert (bq (add_meat i) (a M_eaten m) <= B_meat i) by (apply bq_le_onb; intros Hb; apply (bnd_meat_eaten Hb m Hm)).
    assert (bq (add_cs i) (a CS_h m) <= B_cs i) by (apply bq_le_onb; intros Hb; apply (bnd_cs Hb m Hm)).
    assert (bq (add_scp i) (a SCP_h m) <= B_scp i) by (apply bq_le_onb; intros Hb; apply (bnd_scp Hb m Hm)).
    assert (bq (add_sw i) (sw_kcals i * a SW_h m) <= sw_kcals i * B_sw_use i).
    { unfold B_sw_use. destruct (add_sw i) eqn:Hb; cbn [bq onb]; [|lra].
      destruct (bnd_sw_use Hb m Hm) as [H' _]. pose proof A_kcals.
      rewrite !(Qmult_comm (sw_kcals i)). apply Qmult_le_compat_r; lra. }
    lra.
  Qed.

  Lemma bnd_consumed : ty = ToHumans -> forall m, (m < NM i)%nat -> a Consumed m <= B_cons i.
  Proof.
    intros T m Hm. pose proof F as F'. rewrite T in F'.
    pose proof (Feasible_consumed i ToHumans a F' m Hm) as H.
    pose proof A_need as Hnd.
    apply sat_rows_consumed_humans in H; [|intro HE; lra].
    pose proof (bnd_human_sum m Hm) as H1.
    pose proof (term_le_rsum (fun m => pos_part (given_kcals i m)) m (NM i) (fun k => pos_part_nonneg _) Hm) as H2.
    cbv beta in H2. pose proof (pos_part_ge (given_kcals i m)) as H3.
    rewrite H. unfold B_cons.
    setoid_replace ((human_sum i a m + given_kcals i m) / need i * 100)
      with ((human_sum i a m + given_kcals i m) * (100 / need i)) by (field; intro HE; lra).
    apply Qmult_le_compat_r; [lra | apply need_factor_nonneg; exact Hnd].
  Qed.

  Lemma bnd_obj_humans : ty = ToHumans -> (0 < NM i)%nat -> a Obj 0%nat <= B_cons i.
  Proof.
    intros T H0. pose proof (bnd_consumed T 0%nat H0) as H. pose proof F as F'. rewrite T in F'.
    pose proof (Feasible_objective i ToHumans a F') as HO.
    pose proof (proj1 (sat_rows_objective_humans i a) HO 0%nat H0). lra.
  Qed.

  Lemma bnd_obj_animals : ty = ToAnimals -> a Obj 0%nat <= B_obj_animals i.
  Proof.
    intros T. pose proof F as F'. rewrite T in F'.
    pose proof (Feasible_objective i ToAnimals a F') as HO.
    apply (proj1 (sat_rows_objective_animals i a)) in HO. unfold B_obj_animals, pos_sum. rewrite !rsum_sumQ.
    pose proof (Qlt_le_weak _ _ A_kcals) as Hk.
    assert (Hf : sumQ (feed_sum i a) (NM i) <= sumQ (fun m => pos_part (at_ (max_feed i) m)) (NM i)).
    { apply sumQ_le. intros m Hm. pose proof (pos_part_ge (at_ (max_feed i) m)). pose proof (pos_part_nonneg (at_ (max_feed i) m)).
      destruct (has_nonhuman i) eqn:Hb.
      - destruct (lpc01_animals_ceiling i a F' Hb m Hm). lra.
      - rewrite (feed_sum_no_nonhuman i a m Hb). lra. }
    assert (Hbf : sumQ (biofuel_sum i a) (NM i) <= sumQ (fun m => pos_part (at_ (max_biofuel i) m)) (NM i)).
    { apply sumQ_le. intros m Hm. pose proof (pos_part_ge (at_ (max_biofuel i) m)). pose proof (pos_part_nonneg (at_ (max_biofuel i) m)).
      destruct (has_nonhuman i) eqn:Hb.
      - destruct (lpc01_animals_ceiling i a F' Hb m Hm). lra.
      - rewrite (biofuel_sum_no_nonhuman i a m Hb). lra. }
    assert (0 <= sumQ (feed_sum i a) (NM i)) by (apply sumQ_nonneg; intros; apply feed_sum_nonneg; [exact Hn | exact Hk]).
    assert (0 <= sumQ (biofuel_sum i a) (NM i)) by (apply sumQ_nonneg; intros; apply biofuel_sum_nonneg; [exact Hn | exact Hk]).
    lra.
  Qed.
End Bounds.

(* ================================================================== *)
(* every occurring variable of every feasible point is below `ubound` *)
(* ================================================================== *)

Lemma bound_hyps_b_sound i ty : bound_hyps_b i ty = true -> bound_hyps i ty.
Proof.
  unfold bound_hyps_b, bound_hyps. intros H T. rewrite T in H. apply Nat.ltb_lt in H. exact H.
Qed.

Lemma store_ok_b_sound i : store_ok_b i = true -> store_ok i.
Proof.
  unfold store_ok_b, store_ok. destruct (store_years i); [left; reflexivity|].
  destruct (add_sf i); cbn; intros H; [discriminate H | right; reflexivity].
Qed.

Lemma waste_ok_b_sound w : waste_ok_b w = true -> waste_ok w.
Proof.
  unfold waste_ok_b, waste_ok. rewrite andb_true_iff, negb_true_iff. intros [H1 H2].
  apply Qle_bool_iff in H1. split; [exact H1|].
  apply Qnot_le_lt. intros H. apply Qle_bool_iff in H. rewrite H in H2. discriminate H2.
Qed.

Lemma pos_b_sound x : negb (Qle_bool x 0) = true -> 0 < x.
Proof.
  rewrite negb_true_iff. intros H2. apply Qnot_le_lt. intros H. apply Qle_bool_iff in H.
  rewrite H in H2. discriminate H2.
Qed.

Lemma admissible_b_sound i : admissible_b i = true -> admissible i.
Proof.
  unfold admissible_b, admissible. rewrite !andb_true_iff.
  intros (((((((H1 & H2) & H3) & H4) & H5) & H6) & H7) & H8).
  repeat split; try (apply waste_ok_b_sound; assumption); apply pos_b_sound; assumption.
Qed.

Theorem feasible_bounded : forall i ty a,
  admissible i -> bound_hyps i ty -> store_ok i -> Feasible i ty a ->
  forall s m, occurs (s, m) (build i ty) = true -> a s m <= ubound i ty.
Proof.
  intros i ty a A BH SO F s m Ho. apply occurs_inv in Ho. rewrite ubound_eq.
  pose proof (B_sf_nonneg i). pose proof (B_cr_nonneg i). pose proof (B_meat_nonneg i).
  pose proof (B_scp_nonneg i). pose proof (B_cs_nonneg i). pose proof (B_sw_stock_nonneg i).
  pose proof (B_sw_use_nonneg i).
  assert (0 <= B_last i ty).
  { destruct ty; cbn [B_last]; [apply B_cons_nonneg; [apply (A_kcals i A) | apply (A_need i A)]
                               | apply B_obj_animals_nonneg]. }
  unfold live in Ho; destruct s; cbn [fst snd] in Ho.
  - (* SF_start *) destruct Ho as [Hb Hm]. destruct SO as [R|R]; [|congruence].
    assert (a SF_start m <= B_sf i) by (unfold B_sf; rewrite Hb; apply (bnd_sf_start i ty a A F Hb R m Hm)). lra.
  - (* SF_end *) destruct Ho as [Hb Hm]. destruct SO as [R|R]; [|congruence].
    assert (a SF_end m <= B_sf i) by (unfold B_sf; rewrite Hb; apply (bnd_sf_end i ty a A F Hb R m Hm)). lra.
  - destruct Ho as [Hb Hm].
    assert (a SF_h m <= B_sf i) by (unfold B_sf; rewrite Hb; apply (bnd_sf_use i ty a A F Hb m Hm)). lra.
  - destruct Ho as [Hb Hm].
    assert (a SF_f m <= B_sf i) by (unfold B_sf; rewrite Hb; apply (bnd_sf_use i ty a A F Hb m Hm)). lra.
  - destruct Ho as [Hb Hm].
    assert (a SF_b m <= B_sf i) by (unfold B_sf; rewrite Hb; apply (bnd_sf_use i ty a A F Hb m Hm)). lra.
  - destruct Ho as [Hb Hm].
    assert (a SCP_h m <= B_scp i) by (unfold B_scp; rewrite Hb; apply (bnd_scp i ty a A F Hb m Hm)). lra.
  - destruct Ho as [Hb Hm].
    assert (a SCP_f m <= B_scp i) by (unfold B_scp; rewrite Hb; apply (bnd_scp i ty a A F Hb m Hm)). lra.
  - destruct Ho as [Hb Hm].
    assert (a SCP_b m <= B_scp i) by (unfold B_scp; rewrite Hb; apply (bnd_scp i ty a A F Hb m Hm)). lra.
  - destruct Ho as [Hb Hm].
    assert (a CS_h m <= B_cs i) by (unfold B_cs; rewrite Hb; apply (bnd_cs i ty a A F Hb m Hm)). lra.
  - destruct Ho as [Hb Hm].
    assert (a CS_f m <= B_cs i) by (unfold B_cs; rewrite Hb; apply (bnd_cs i ty a A F Hb m Hm)). lra.
  - destruct Ho as [Hb Hm].
    assert (a CS_b m <= B_cs i) by (unfold B_cs; rewrite Hb; apply (bnd_cs i ty a A F Hb m Hm)). lra.
  - (* M_start *) destruct Ho as [[Hb R] Hm].
    assert (a M_start m <= B_meat i) by (unfold B_meat; rewrite Hb, R; apply (bnd_meat_start i ty a A F Hb R m Hm)). lra.
  - (* M_end *) destruct Ho as [[Hb R] Hm].
    assert (a M_end m <= B_meat i) by (unfold B_meat; rewrite Hb, R; apply (bnd_meat_end i ty a A F Hb R m Hm)). lra.
  - (* M_eaten *) destruct Ho as [Hb Hm].
    assert (a M_eaten m <= B_meat i) by (unfold B_meat; rewrite Hb; apply (bnd_meat_eaten i ty a A F Hb m Hm)). lra.
  - destruct Ho as [Hb Hm].
    assert (a CR_storage m <= B_cr i) by (unfold B_cr; rewrite Hb; apply (bnd_cr_storage i ty a F Hb m Hm)). lra.
  - destruct Ho as [Hb Hm].
    assert (a CR_consumed m <= B_cr i) by (unfold B_cr; rewrite Hb; apply (bnd_cr_consumed i ty a F Hb m Hm)). lra.
  - destruct Ho as [Hb Hm].
    assert (a CR_h m <= B_cr i) by (unfold B_cr; rewrite Hb; apply (bnd_cr_use i ty a A F Hb m Hm)). lra.
  - destruct Ho as [Hb Hm].
    assert (a CR_f m <= B_cr i) by (unfold B_cr; rewrite Hb; apply (bnd_cr_use i ty a A F Hb m Hm)). lra.
  - destruct Ho as [Hb Hm].
    assert (a CR_b m <= B_cr i) by (unfold B_cr; rewrite Hb; apply (bnd_cr_use i ty a A F Hb m Hm)). lra.
  - destruct Ho as [Hb Hm].
    assert (a SW_wet m <= B_sw_stock i) by (unfold B_sw_stock; rewrite Hb; apply (bnd_sw_stock i ty a F Hb m Hm)). lra.
  - destruct Ho as [Hb Hm].
    assert (a SW_h m <= B_sw_use i) by (unfold B_sw_use; rewrite Hb; apply (bnd_sw_use i ty a A F Hb m Hm)). lra.
  - destruct Ho as [Hb Hm].
    assert (a SW_f m <= B_sw_use i) by (unfold B_sw_use; rewrite Hb; apply (bnd_sw_use i ty a A F Hb m Hm)). lra.
  - destruct Ho as [Hb Hm].
    assert (a SW_b m <= B_sw_use i) by (unfold B_sw_use; rewrite Hb; apply (bnd_sw_use i ty a A F Hb m Hm)). lra.
  - destruct Ho as [Hb Hm].
    assert (a SW_area m <= B_sw_stock i) by (unfold B_sw_stock; rewrite Hb; apply (bnd_sw_stock i ty a F Hb m Hm)). lra.
  - (* Consumed *) destruct Ho as [T Hm].
    assert (a Consumed m <= B_last i ty) by (rewrite T; apply (bnd_consumed i ty a A F T m Hm)). lra.
  - (* Obj *) subst m.
    assert (a Obj 0%nat <= B_last i ty).
    { destruct ty eqn:T; cbn [B_last].
      - apply (bnd_obj_humans i ToHumans a A F eq_refl). apply BH. reflexivity.
      - apply (bnd_obj_animals i ToAnimals a A F eq_refl). }
    lra.
Qed.

(* ================================================================== *)
(* an accepted certificate is an unconditional optimality statement   *)
(* ================================================================== *)

Theorem certificate_optimal : forall i ty y claimed,
  admissible i -> bound_hyps i ty -> store_ok i ->
  check_cert (build i ty) y (ubound i ty) claimed = true ->
  forall a, Feasible i ty a -> a Obj 0%nat <= claimed.
Proof.
  intros i ty y claimed A BH SO HC a F.
  apply (check_cert_optimal i ty y (ubound i ty) claimed HC a F).
  intros s m Ho. apply (feasible_bounded i ty a A BH SO F s m Ho).
Qed.

(* transported to the specification (Model/Physical.v): no physically feasible allocation
   achieves more than the certified value *)
Theorem certificate_optimal_physical : forall i ty y claimed,
  admissible i -> bound_hyps i ty -> store_ok i -> 0 <= claimed ->
  check_cert (build i ty) y (ubound i ty) claimed = true ->
  forall x w, Physical.Physical i ty x -> Physical.achieves i ty x w -> w <= claimed.
Proof.
  intros i ty y claimed A BH SO H0 HC.
  apply (proj1 (LP_C02.c02_upper_bound_transfer i ty claimed A H0)).
  intros a F. apply (certificate_optimal i ty y claimed A BH SO HC a F).
Qed.

(* everything the harness has to evaluate, in one boolean *)
Theorem cert_ok_sound : forall i ty y claimed,
  cert_ok i ty y claimed = true ->
  (forall a, Feasible i ty a -> a Obj 0%nat <= claimed) /\
  (forall x w, Physical.Physical i ty x -> Physical.achieves i ty x w -> w <= claimed).
Proof.
  intros i ty y claimed H. unfold cert_ok in H. rewrite !andb_true_iff in H.
  destruct H as ((((H1 & H2) & H3) & H4) & H5).
  apply admissible_b_sound in H1. apply bound_hyps_b_sound in H2. apply store_ok_b_sound in H3.
  apply Qle_bool_iff in H4. split.
  - apply (certificate_optimal i ty y claimed H1 H2 H3 H5).
  - apply (certificate_optimal_physical i ty y claimed H1 H2 H3 H4 H5).
Qed.

(* ================================================================== *)
(* examples: the hypotheses are satisfiable; the excluded regime is unbounded *)
(* ================================================================== *)

(* the 3-month, all-foods instance of Proofs/LP_C02.v satisfies every hypothesis *)
Example bound_hyps_satisfiable :
  admissible LP_C02.ex_in /\ bound_hyps LP_C02.ex_in ToHumans /\ bound_hyps LP_C02.ex_in ToAnimals /\
  store_ok LP_C02.ex_in /\
  admissible_b LP_C02.ex_in && bound_hyps_b LP_C02.ex_in ToHumans && store_ok_b LP_C02.ex_in = true.
Proof.
  split; [apply admissible_b_sound; vm_compute; reflexivity|].
  split; [apply bound_hyps_b_sound; reflexivity|].
  split; [apply bound_hyps_b_sound; reflexivity|].
  split; [apply store_ok_b_sound; reflexivity|]. vm_compute. reflexivity.
Qed.

(* first-year-only stock regime, 15 months, only stored food (nothing in stock): the variable
   SF_end 13 occurs (in the row SF_start 14 - SF_end 13 = 0) and is unbounded on the feasible set *)
Definition ex_unb_in : lp_in :=
  {| NM := 15;
     add_sw := false; add_cr := false; add_sf := true; add_meat := false; add_scp := false; add_cs := false;
     store_years := false;
     pop := 1000000; kcals_monthly_pp := 63000; need := 63;
     w_sf := 0; w_cr := 0; w_meat := 0; w_scp := 0; w_cs := 0; w_sw := 0;
     sf0 := 0; meat_total := 0;
     sw_kcals := 1; sw_init := 0; sw_init_area := 0; sw_min_density := 0; sw_max_density := 0; sw_harvest_loss := 0;
     relocated := false; harvest_delay := 0;
     cap_sw_h := 0; cap_sw_f := 0; cap_sw_b := 0;
     cap_scp_h := 0; cap_scp_f := 0; cap_scp_b := 0;
     cap_cs_h := 0; cap_cs_f := 0; cap_cs_b := 0;
     crops_prod := []; milk := []; greenhouse := []; fish := [];
     scp_prod := []; cs_prod := []; built_area := []; growth := [];
     feed_charge := []; biofuel_charge := [];
     meat_monthly := []; meat_running := [];
     max_feed := []; max_biofuel := [];
     pin_cr := []; pin_sf := []; pin_meat := []; pin_scp := []; pin_cs := []; pin_sw := [] |}.

Definition ex_unb_a (K : Q) : assignment :=
  fun s m =>
    match s with
    | SF_end => if Nat.eqb m 13 then K else 0
    | SF_start => if Nat.eqb m 14 then K else 0
    | _ => 0
    end.

Example first_year_regime_unbounded : forall K, 0 <= K ->
  admissible ex_unb_in /\ bound_hyps ex_unb_in ToHumans /\ ~ store_ok ex_unb_in /\
  occurs (SF_end, 13%nat) (build ex_unb_in ToHumans) = true /\
  Feasible ex_unb_in ToHumans (ex_unb_a K) /\ ex_unb_a K SF_end 13%nat == K.
Proof.
  intros K HK.
  split; [apply admissible_b_sound; vm_compute; reflexivity|].
  split; [apply bound_hyps_b_sound; reflexivity|].
  split; [intros [H|H]; discriminate H|].
  split; [vm_compute; reflexivity|].
  split; [|reflexivity].
  split.
  - intros s m. unfold ex_unb_a. destruct s; try lra; destruct (Nat.eqb m _); lra.
  - let r := eval vm_compute in (build ex_unb_in ToHumans) in
    change (Forall (sat (ex_unb_a K)) r).
    repeat (apply Forall_cons || apply Forall_nil);
      unfold sat; cbn [sns lhs rhs eval ex_unb_a Nat.eqb]; lra.
Qed.

(* end to end on a one-month instance with only single-cell protein (10 units, no waste, need 100):
   the optimum is 10 percent; multipliers deliberately perturbed (0.999 instead of 1 on the supply
   row), so that the reduced cost of SCP_h is positive and the bound `ubound` = 20 is really used *)
Definition ex_cert_in : lp_in :=
  {| NM := 1;
     add_sw := false; add_cr := false; add_sf := false; add_meat := false; add_scp := true; add_cs := false;
     store_years := false;
     pop := 1000000000; kcals_monthly_pp := 100; need := 100;
     w_sf := 0; w_cr := 0; w_meat := 0; w_scp := 0; w_cs := 0; w_sw := 0;
     sf0 := 0; meat_total := 0;
     sw_kcals := 1; sw_init := 0; sw_init_area := 0; sw_min_density := 0; sw_max_density := 0; sw_harvest_loss := 0;
     relocated := false; harvest_delay := 0;
     cap_sw_h := 0; cap_sw_f := 0; cap_sw_b := 0;
     cap_scp_h := 100; cap_scp_f := 100; cap_scp_b := 100;
     cap_cs_h := 0; cap_cs_f := 0; cap_cs_b := 0;
     crops_prod := []; milk := []; greenhouse := []; fish := [];
     scp_prod := [10]; cs_prod := []; built_area := []; growth := [];
     feed_charge := []; biofuel_charge := [];
     meat_monthly := []; meat_running := [];
     max_feed := []; max_biofuel := [];
     pin_cr := []; pin_sf := []; pin_meat := []; pin_scp := []; pin_cs := []; pin_sw := [] |}.

(* rows: supply; feed =; biofuel =; consumed =; four cap rows; Obj - Consumed <= 0 *)
Definition ex_cert_y : list Q := [999 # 1000; 0; 0; 1; 0; 0; 0; 0; 1].

Example ex_cert_accepted :
  ubound ex_cert_in ToHumans == 20 /\
  cert_ok ex_cert_in ToHumans ex_cert_y (1001 # 100) = true /\
  cert_ok ex_cert_in ToHumans ex_cert_y 10 = false /\
  (forall a, Feasible ex_cert_in ToHumans a -> a Obj 0%nat <= 1001 # 100).
Proof.
  split; [vm_compute; reflexivity|]. split; [vm_compute; reflexivity|]. split; [vm_compute; reflexivity|].
  apply (cert_ok_sound ex_cert_in ToHumans ex_cert_y (1001 # 100)). vm_compute. reflexivity.
Qed.

(* cost of the bound on a full-size instance: 120 months, every food, float-like rationals
   (53-bit numerators over 2^40); about 0.4 s by vm_compute *)
Definition ex_ser (seed : Z) (n : nat) : list Q :=
  map (fun k => Qmake (1125899906842597 + seed * 7919 * Z.of_nat k * 104729 + Z.of_nat k) (2 ^ 40)) (seq 0 n).

Definition ex120 : lp_in :=
  {| NM := 120;
     add_sw := true; add_cr := true; add_sf := true; add_meat := true; add_scp := true; add_cs := true;
     store_years := true;
     pop := 7800000000; kcals_monthly_pp := 63000; need := 491400;
     w_sf := 12; w_cr := 24; w_meat := 4; w_scp := 12; w_cs := 14; w_sw := 14;
     sf0 := Qmake 4398046511104999 (2 ^ 32); meat_total := Qmake 439804651110499 (2 ^ 32);
     sw_kcals := 2; sw_init := 1; sw_init_area := 1; sw_min_density := 400; sw_max_density := 4000; sw_harvest_loss := 20;
     relocated := true; harvest_delay := 7;
     cap_sw_h := 10; cap_sw_f := 10; cap_sw_b := 10;
     cap_scp_h := 50; cap_scp_f := 50; cap_scp_b := 50;
     cap_cs_h := 50; cap_cs_f := 50; cap_cs_b := 50;
     crops_prod := ex_ser 1 120; milk := ex_ser 2 120; greenhouse := ex_ser 3 120; fish := ex_ser 4 120;
     scp_prod := ex_ser 5 120; cs_prod := ex_ser 6 120; built_area := ex_ser 7 120; growth := ex_ser 8 120;
     feed_charge := ex_ser 9 120; biofuel_charge := ex_ser 10 120;
     meat_monthly := ex_ser 11 120; meat_running := ex_ser 12 120;
     max_feed := ex_ser 13 120; max_biofuel := ex_ser 14 120;
     pin_cr := ex_ser 15 120; pin_sf := ex_ser 16 120; pin_meat := ex_ser 17 120; pin_scp := ex_ser 18 120;
     pin_cs := ex_ser 19 120; pin_sw := ex_ser 20 120 |}.

Example ubound_120_months :
  admissible_b ex120 && bound_hyps_b ex120 ToHumans && store_ok_b ex120 = true /\
  0 < ubound ex120 ToHumans /\ 0 < ubound ex120 ToAnimals.
Proof. split; [vm_compute; reflexivity|]. split; vm_compute; reflexivity. Qed.

Print Assumptions occurs_inv.
Print Assumptions feasible_bounded.
Print Assumptions certificate_optimal.
Print Assumptions certificate_optimal_physical.
Print Assumptions cert_ok_sound.
Print Assumptions first_year_regime_unbounded.
