(* C12 - "More supply never feeds fewer people; scale does not matter", on Model/LP.v.

   Everything is about the people-fed round (ty = ToHumans) unless said otherwise; percent fed is
   the optimum of  a Obj 0  over  Feasible i ToHumans a.  Monotonicity is stated without a solver:
   Dominated i i'  :=  every feasible point of i has a feasible point of i' with an objective value
   at least as large (hence sup / optimum are monotone; Dominated_value is the "attainable value" form).

   Proved (arbitrary NM, arbitrary admissible inputs):
   1. scale: Feasible i ty a <-> Feasible (scale_in c i) ty (scale_a ty c a) for c > 0 (c12_scale_lemma).
      ToHumans: Consumed and Obj (percentages) are not scaled, the objective value is unchanged, and the
      set of attainable objective values is the same (scale_value).  ToAnimals: the pin tolerance switches
      at POP = 1e7, so POP and c*POP must be on the same side (same_side); the to-animals objective is a
      quantity (billion kcal), so there every slot is scaled and the objective value is multiplied by c.
   2. supplies (supply_mono over supply_le; one lemma per supply): SCP, cellulosic sugar, monthly meat
      (no-storage regime), seaweed built area (same point stays feasible; needs 0 <= sw_max_density);
      milk / greenhouse / fish (Consumed rises; needs the three human intake caps >= 0 = caps_nonneg,
      because the Reduced_Population cap rows are  x*r <= cap/100 * need/100 * Consumed);
      outdoor crops (the extra harvest of month m is eaten by people in month m), initial stored food
      (eaten in month 0; both storage regimes), meat stock (storage regime: meat_total and every running
      ceiling raised; the extra stock is carried in M_start / M_end - there is no "nothing left" row for meat).
      NOT covered: initial seaweed stock / area (also lower bounds of every month) and growth rates.
   3. charges (charge_mono): smaller feed / biofuel charges (pointwise, >= 0) dominate, for instances
      WITHOUT seaweed (add_sw i = false).  Feed variables are scaled by fc'/fc, biofuel variables by bc'/bc
      (this also keeps the resilient-food FEED / BIOFUEL cap rows, whose right-hand sides shrink with the
      charge); what stored food and crops no longer give goes to people, SCP / CS just use less.
      With seaweed the statement is FALSE of LP.v as written: charge_mono_refuted_seaweed (the seaweed
      ledger is an equality and the farm has a maximum density, so the harvest must go somewhere; with
      a human intake cap and a smaller feed charge nothing can take it - the smaller-charge programme is
      infeasible while the larger-charge one is feasible).
   4. retail waste (waste_mono): smaller waste of stored food, crops, meat (h' = h * gross w / gross w',
      ledgers unchanged, Consumed rises) and of SCP, CS (same point) dominates.  Seaweed waste is excluded:
      waste_mono_refuted_seaweed (same mechanism: less waste = more net seaweed for people, which the
      intake cap forbids, and the ledger equality does not allow to leave it on the full farm). *)
From Coq Require Import QArith List Bool Arith Lia Lqa.
From Allfed Require Import Model.LP Proofs.LPChar Model.LPBool Proofs.LPBoolSound.
Import ListNotations.
Open Scope Q_scope.


(* ================================================================== *)
(* 0. month-wise arithmetic specification of Feasible                 *)
(* ================================================================== *)

Definition kneed (i : lp_in) : Q := 100 / need i.

Definition sw_spec (i : lp_in) (a : assignment) (m : nat) : Prop :=
  match m with
  | O => sw_bounds i a 0 /\
         a SW_wet 0%nat == sw_init i /\ a SW_area 0%nat == sw_init_area i /\
         a SW_h 0%nat == 0 /\ a SW_f 0%nat == 0 /\ a SW_b 0%nat == 0
  | S p => sw_bounds i a (S p) /\ sw_ledger i a p
  end.

Definition cr_spec (i : lp_in) (ty : opt_type) (a : assignment) (m : nat) : Prop :=
  cr_consumed_eq i a m /\
  match m with
  | O => a CR_storage 0%nat == at_ (crops_prod i) 0 - a CR_consumed 0%nat
  | S p => a CR_storage (S p) == at_ (crops_prod i) (S p) + a CR_storage p - a CR_consumed (S p) /\
           (S p = NM i - 1 -> ty = ToHumans -> a CR_storage (S p) == 0)%nat
  end.

Definition sf_spec (i : lp_in) (ty : opt_type) (a : assignment) (m : nat) : Prop :=
  match m with
  | O => a SF_start 0%nat == sf0 i /\ sf_eaten_eq i a 0
  | S p =>
      a SF_start (S p) == a SF_end p /\
      (if store_years i then
         sf_eaten_eq i a (S p) /\ (S p = NM i - 1 -> ty = ToHumans -> a SF_end (S p) == 0)%nat
       else if Nat.ltb 12 (S p) then
         a SF_h (S p) == 0 /\ a SF_f (S p) == 0 /\ a SF_b (S p) == 0
       else sf_eaten_eq i a (S p))
  end.

Definition meat_spec (i : lp_in) (a : assignment) (m : nat) : Prop :=
  if store_years i then
    match m with
    | O => a M_start 0%nat == meat_total i
    | S p => a M_start (S p) == a M_end p
    end /\
    a M_end m == a M_start m - gross (w_meat i) * a M_eaten m /\
    gross (w_meat i) * a M_eaten m <= at_ (meat_running i) m /\
    meat_total i - a M_end m <= at_ (meat_running i) m
  else gross (w_meat i) * a M_eaten m <= at_ (meat_monthly i) m.

Definition scp_spec (i : lp_in) (a : assignment) (m : nat) : Prop :=
  gross (w_scp i) * a SCP_h m + a SCP_f m + a SCP_b m <= at_ (scp_prod i) m.

Definition cs_spec (i : lp_in) (a : assignment) (m : nat) : Prop :=
  gross (w_cs i) * a CS_h m + a CS_f m + a CS_b m <= at_ (cs_prod i) m.

Definition pin_spec (i : lp_in) (ty : opt_type) (a : assignment) (c : Q) (s : slot) (pin : list Q) (m : nat) : Prop :=
  ty = ToAnimals ->
  fst (pin_bounds i) * at_ pin m <= c * a s m /\ c * a s m <= snd (pin_bounds i) * at_ pin m.

Definition fb_spec (i : lp_in) (ty : opt_type) (a : assignment) (m : nat) : Prop :=
  has_nonhuman i = true ->
  match ty with
  | ToHumans => feed_sum i a m == at_ (feed_charge i) m /\ biofuel_sum i a m == at_ (biofuel_charge i) m
  | ToAnimals =>
      feed_sum i a m <= at_ (max_feed i) m /\ biofuel_sum i a m <= at_ (max_biofuel i) m /\
      match m with
      | O => True
      | S p => feed_sum i a (S p) <= feed_sum i a p /\ biofuel_sum i a (S p) <= biofuel_sum i a p
      end
  end.

Definition cons_spec (i : lp_in) (ty : opt_type) (a : assignment) (m : nat) : Prop :=
  ty = ToHumans -> a Consumed m == kneed i * (human_sum i a m + given_kcals i m).

Definition caps_spec (i : lp_in) (ty : opt_type) (a : assignment) (m : nat) : Prop :=
  (add_sw i = true ->
     caps_food_spec i ty a m (sw_kcals i) SW_h SW_f SW_b (cap_sw_h i) (cap_sw_f i) (cap_sw_b i)) /\
  (add_scp i = true ->
     caps_food_spec i ty a m 1 SCP_h SCP_f SCP_b (cap_scp_h i) (cap_scp_f i) (cap_scp_b i)) /\
  (add_cs i = true ->
     caps_food_spec i ty a m 1 CS_h CS_f CS_b (cap_cs_h i) (cap_cs_f i) (cap_cs_b i)).

Definition obj_spec (i : lp_in) (ty : opt_type) (a : assignment) : Prop :=
  match ty with
  | ToHumans => forall m, (m < NM i)%nat -> a Obj 0%nat <= a Consumed m
  | ToAnimals => a Obj 0%nat <= (2 # 3) * sumQ (feed_sum i a) (NM i) + (1 # 3) * sumQ (biofuel_sum i a) (NM i)
  end.

Definition FeasT (i : lp_in) (ty : opt_type) (a : assignment) : Prop :=
  nonneg a /\
  (add_sw i = true -> forall m, (m < NM i)%nat ->
     sw_spec i a m /\ pin_spec i ty a (sw_kcals i) SW_h (pin_sw i) m) /\
  (add_cr i = true -> forall m, (m < NM i)%nat ->
     cr_spec i ty a m /\ pin_spec i ty a 1 CR_h (pin_cr i) m) /\
  (add_sf i = true -> forall m, (m < NM i)%nat ->
     sf_spec i ty a m /\ pin_spec i ty a 1 SF_h (pin_sf i) m) /\
  (add_meat i = true -> forall m, (m < NM i)%nat ->
     meat_spec i a m /\ pin_spec i ty a 1 M_eaten (pin_meat i) m) /\
  (add_scp i = true -> forall m, (m < NM i)%nat ->
     scp_spec i a m /\ pin_spec i ty a 1 SCP_h (pin_scp i) m) /\
  (add_cs i = true -> forall m, (m < NM i)%nat ->
     cs_spec i a m /\ pin_spec i ty a 1 CS_h (pin_cs i) m) /\
  (forall m, (m < NM i)%nat -> fb_spec i ty a m /\ cons_spec i ty a m /\ caps_spec i ty a m) /\
  obj_spec i ty a.

Lemma sat_sw_spec i a m : Forall (sat a) (rows_seaweed i m) <-> sw_spec i a m.
Proof. destruct m; [apply sat_rows_seaweed_O | apply sat_rows_seaweed_S]. Qed.

Lemma sat_cr_spec i ty a m : Forall (sat a) (rows_crops i ty m) <-> cr_spec i ty a m.
Proof.
  unfold cr_spec. destruct m; [rewrite sat_rows_crops_O | rewrite sat_rows_crops_S]; tauto.
Qed.

Lemma sat_sf_spec i ty a m : Forall (sat a) (rows_sf i ty m) <-> sf_spec i ty a m.
Proof.
  unfold sf_spec. destruct (store_years i) eqn:R.
  - destruct m; [rewrite sat_rows_sf_store_O | rewrite sat_rows_sf_store_S]; auto; tauto.
  - destruct m; [rewrite sat_rows_sf_nostore_O; auto; tauto|].
    destruct (Nat.ltb_spec 12 (S m)) as [L|L].
    + rewrite sat_rows_sf_nostore_later; auto; tauto.
    + rewrite sat_rows_sf_nostore_first_year; auto; tauto.
Qed.

Lemma sat_meat_spec i a m : Forall (sat a) (rows_meat i m) <-> meat_spec i a m.
Proof.
  unfold meat_spec. destruct (store_years i) eqn:R.
  - destruct m; [rewrite sat_rows_meat_store_O | rewrite sat_rows_meat_store_S]; auto; tauto.
  - apply sat_rows_meat_nostore; auto.
Qed.

Lemma sat_pin_spec i ty a c s pin m : Forall (sat a) (rows_pin i ty c s pin m) <-> pin_spec i ty a c s pin m.
Proof.
  unfold pin_spec. destruct ty.
  - rewrite sat_rows_pin_humans. split; [intros _ H; discriminate H | tauto].
  - rewrite sat_rows_pin_animals. tauto.
Qed.

Lemma sat_fb_spec i ty a m : Forall (sat a) (rows_feed_biofuel i ty m) <-> fb_spec i ty a m.
Proof.
  unfold fb_spec. destruct (has_nonhuman i) eqn:R.
  - destruct ty.
    + rewrite sat_rows_feed_biofuel_humans; auto; tauto.
    + destruct m; [rewrite sat_rows_feed_biofuel_animals_O | rewrite sat_rows_feed_biofuel_animals_S]; auto; tauto.
  - rewrite sat_rows_feed_biofuel_none; auto. split; [intros _ H; discriminate H | tauto].
Qed.

Lemma sat_cons_spec i ty a m : Forall (sat a) (rows_consumed i ty m) <-> cons_spec i ty a m.
Proof.
  unfold cons_spec, kneed. destruct ty.
  - rewrite sat_rows_consumed_humans_raw.
    assert (E : given_kcals i m / need i * 100 == 100 / need i * given_kcals i m) by (unfold Qdiv; ring).
    split.
    + intros H _. rewrite E in H. lra.
    + intros H. specialize (H eq_refl). rewrite E. lra.
  - rewrite sat_rows_consumed_animals. split; [intros _ H; discriminate H | tauto].
Qed.

Lemma FeasT_iff i ty a : Feasible i ty a <-> FeasT i ty a.
Proof.
  rewrite Feasible_char. unfold FeasT.
  assert (Ho : Forall (sat a) (rows_objective i ty) <-> obj_spec i ty a).
  { destruct ty; [apply sat_rows_objective_humans | apply sat_rows_objective_animals]. }
  rewrite Ho.
  split.
  - intros (H0 & H1 & H2 & H3 & H4 & H5 & H6 & H7 & H8).
    split; [exact H0|].
    split; [intros Hb m Hm; rewrite <- sat_sw_spec, <- sat_pin_spec; apply H1; auto|].
    split; [intros Hb m Hm; rewrite <- sat_cr_spec, <- sat_pin_spec; apply H2; auto|].
    split; [intros Hb m Hm; rewrite <- sat_sf_spec, <- sat_pin_spec; apply H3; auto|].
    split; [intros Hb m Hm; rewrite <- sat_meat_spec, <- sat_pin_spec; apply H4; auto|].
    split; [intros Hb m Hm; unfold scp_spec; rewrite <- sat_rows_scp, <- sat_pin_spec; apply H5; auto|].
    split; [intros Hb m Hm; unfold cs_spec; rewrite <- sat_rows_cs, <- sat_pin_spec; apply H6; auto|].
    split; [|exact H8].
    intros m Hm. unfold caps_spec. rewrite <- sat_fb_spec, <- sat_cons_spec, <- sat_rows_caps. apply H7; auto.
  - intros (H0 & H1 & H2 & H3 & H4 & H5 & H6 & H7 & H8).
    split; [exact H0|].
    split; [intros Hb m Hm; rewrite sat_sw_spec, sat_pin_spec; apply H1; auto|].
    split; [intros Hb m Hm; rewrite sat_cr_spec, sat_pin_spec; apply H2; auto|].
    split; [intros Hb m Hm; rewrite sat_sf_spec, sat_pin_spec; apply H3; auto|].
    split; [intros Hb m Hm; rewrite sat_meat_spec, sat_pin_spec; apply H4; auto|].
    split; [intros Hb m Hm; rewrite sat_rows_scp, sat_pin_spec; apply H5; auto|].
    split; [intros Hb m Hm; rewrite sat_rows_cs, sat_pin_spec; apply H6; auto|].
    split; [|exact H8].
    intros m Hm. rewrite sat_fb_spec, sat_cons_spec, sat_rows_caps. apply H7; auto.
Qed.

(* ================================================================== *)
(* 1. scale invariance                                                *)
(* ================================================================== *)

Definition sc (c : Q) (l : list Q) : list Q := map (Qmult c) l.

Lemma at_sc c l m : at_ (sc c l) m == c * at_ l m.
Proof.
  unfold at_, sc. revert m. induction l as [|x l IH]; intros [|m]; cbn [map nth]; try ring. apply IH.
Qed.

Definition scale_in (c : Q) (i : lp_in) : lp_in :=
  {| NM := NM i; add_sw := add_sw i; add_cr := add_cr i; add_sf := add_sf i; add_meat := add_meat i; 
     add_scp := add_scp i; add_cs := add_cs i; store_years := store_years i; pop := c * pop i; 
     kcals_monthly_pp := kcals_monthly_pp i; need := c * need i; w_sf := w_sf i; w_cr := w_cr i; 
     w_meat := w_meat i; w_scp := w_scp i; w_cs := w_cs i; w_sw := w_sw i; sf0 := c * sf0 i; 
     meat_total := c * meat_total i; sw_kcals := sw_kcals i; sw_init := c * sw_init i; 
     sw_init_area := c * sw_init_area i; sw_min_density := sw_min_density i; 
     sw_max_density := sw_max_density i; sw_harvest_loss := sw_harvest_loss i; 
     relocated := relocated i; harvest_delay := harvest_delay i; cap_sw_h := cap_sw_h i; 
     cap_sw_f := cap_sw_f i; cap_sw_b := cap_sw_b i; cap_scp_h := cap_scp_h i; 
     cap_scp_f := cap_scp_f i; cap_scp_b := cap_scp_b i; cap_cs_h := cap_cs_h i; 
     cap_cs_f := cap_cs_f i; cap_cs_b := cap_cs_b i; crops_prod := sc c (crops_prod i); 
     milk := sc c (milk i); greenhouse := sc c (greenhouse i); fish := sc c (fish i); 
     scp_prod := sc c (scp_prod i); cs_prod := sc c (cs_prod i); built_area := sc c (built_area i); 
     growth := growth i; feed_charge := sc c (feed_charge i); 
     biofuel_charge := sc c (biofuel_charge i); meat_monthly := sc c (meat_monthly i); 
     meat_running := sc c (meat_running i); max_feed := sc c (max_feed i); 
     max_biofuel := sc c (max_biofuel i); pin_cr := sc c (pin_cr i); pin_sf := sc c (pin_sf i); 
     pin_meat := sc c (pin_meat i); pin_scp := sc c (pin_scp i); pin_cs := sc c (pin_cs i); 
     pin_sw := sc c (pin_sw i) |}.

(* every slot is a quantity (billion kcal, tons, km^2) except, in a to-humans round, the two
   percentages Consumed and Obj; in a to-animals round Obj is a quantity too (billion kcal)
   and Consumed is unconstrained, so everything is scaled there *)
Definition scale_a (ty : opt_type) (c : Q) (a : assignment) : assignment :=
  fun s m =>
    match s with
    | Consumed | Obj => match ty with ToHumans => a s m | ToAnimals => c * a s m end
    | _ => c * a s m
    end.

Definition same_side (c : Q) (i : lp_in) : Prop := pop i < 10000000 <-> c * pop i < 10000000.

Lemma sc_le c x y x' y' : 0 < c -> x' == c * x -> y' == c * y -> (x <= y <-> x' <= y').
Proof. intros Hc E1 E2. rewrite E1, E2. symmetry. apply Qmult_le_l. exact Hc. Qed.

Lemma sc_eq c x y x' y' : 0 < c -> x' == c * x -> y' == c * y -> (x == y <-> x' == y').
Proof.
  intros Hc E1 E2. rewrite E1, E2. split; intros H.
  - rewrite H. reflexivity.
  - apply (Qmult_inj_l x y c); [intro HE; lra | exact H].
Qed.

Lemma and_iff_morph (A B C D : Prop) : (A <-> B) -> (C <-> D) -> (A /\ C <-> B /\ D).
Proof. tauto. Qed.
Lemma imp_iff_morph (A B C : Prop) : (A -> (B <-> C)) -> ((A -> B) <-> (A -> C)).
Proof. tauto. Qed.
Lemma eq_iff_r (x y y' : Q) : y == y' -> (x == y <-> x == y').
Proof. intros E. rewrite E. tauto. Qed.

Ltac sc_cbn := cbn -[Qmult Qplus Qminus Qdiv Qinv Qopp Qle Qlt Qeq at_ gross sc Nat.sub Nat.ltb inject_Z].
Ltac sc_side := sc_cbn; rewrite ?at_sc; unfold Qdiv; ring.
Ltac sc_atom Hc :=
  first [ apply (sc_le _ _ _ _ _ Hc); [sc_side | sc_side]
        | apply (sc_eq _ _ _ _ _ Hc); [sc_side | sc_side] ].
Ltac sc_go Hc :=
  repeat first [ apply and_iff_morph | sc_atom Hc | apply imp_iff_morph; intro ].

Section Scale.
  Variables (c : Q) (i : lp_in) (a : assignment).
  Hypothesis Hc : 0 < c.
  Local Notation i' := (scale_in c i).

  Lemma scale_nonneg (ty : opt_type) : nonneg a <-> nonneg (scale_a ty c a).
  Proof.
    unfold nonneg. split; intros H s m.
    - unfold scale_a. destruct s, ty; try apply H; apply Qmult_le_0_compat; try lra; apply H.
    - specialize (H s m). unfold scale_a in H.
      assert (0 <= c * a s m -> 0 <= a s m) by (intros H1; apply (Qmult_le_l 0 (a s m) c Hc); lra).
      destruct s, ty; auto.
  Qed.

  Lemma scale_sw (ty : opt_type) m : sw_spec i a m <-> sw_spec i' (scale_a ty c a) m.
  Proof. destruct m; unfold sw_spec, sw_bounds, sw_ledger; sc_cbn; sc_go Hc. Qed.

  Lemma scale_cr (ty : opt_type) m : cr_spec i ty a m <-> cr_spec i' ty (scale_a ty c a) m.
  Proof. destruct m; unfold cr_spec, cr_consumed_eq; sc_cbn; sc_go Hc. Qed.

  Lemma scale_sf (ty : opt_type) m : sf_spec i ty a m <-> sf_spec i' ty (scale_a ty c a) m.
  Proof.
    destruct m; unfold sf_spec, sf_eaten_eq; sc_cbn; [sc_go Hc|].
    destruct (store_years i); [sc_go Hc|]. destruct (Nat.ltb 12 (S m)); sc_go Hc.
  Qed.

  Lemma scale_meat (ty : opt_type) m : meat_spec i a m <-> meat_spec i' (scale_a ty c a) m.
  Proof.
    unfold meat_spec; sc_cbn. destruct (store_years i); [destruct m|]; sc_go Hc.
  Qed.

  Lemma scale_scp (ty : opt_type) m : scp_spec i a m <-> scp_spec i' (scale_a ty c a) m.
  Proof. unfold scp_spec; sc_cbn; sc_go Hc. Qed.

  Lemma scale_cs (ty : opt_type) m : cs_spec i a m <-> cs_spec i' (scale_a ty c a) m.
  Proof. unfold cs_spec; sc_cbn; sc_go Hc. Qed.

  Lemma pin_bounds_scale : same_side c i -> pin_bounds i' = pin_bounds i.
  Proof.
    intros Hs. unfold same_side in Hs. unfold pin_bounds. cbn [pop scale_in].
    destruct (Qlt_le_dec (c * pop i) 10000000), (Qlt_le_dec (pop i) 10000000); try reflexivity.
    - apply Hs in q. lra.
    - apply Hs in q0. lra.
  Qed.


  Lemma scale_pin (ty : opt_type) (k : Q) (s : slot) (pin : list Q) m :
    s <> Consumed -> s <> Obj -> (ty = ToAnimals -> same_side c i) ->
    (pin_spec i ty a k s pin m <-> pin_spec i' ty (scale_a ty c a) k s (sc c pin) m).
  Proof.
    intros N1 N2 Hs. unfold pin_spec. apply imp_iff_morph. intros Ht.
    rewrite (pin_bounds_scale (Hs Ht)).
    assert (E : (scale_a ty c a) s m == c * a s m).
    { unfold scale_a. destruct s; try reflexivity; congruence. }
    rewrite E, at_sc.
    apply and_iff_morph; apply (sc_le _ _ _ _ _ Hc); ring.
  Qed.

  Lemma scale_feed_sum (ty : opt_type) m : feed_sum i' (scale_a ty c a) m == c * feed_sum i a m.
  Proof.
    unfold feed_sum, bq. sc_cbn.
    destruct (add_sf i), (add_cr i), (add_sw i), (add_cs i), (add_scp i); ring.
  Qed.

  Lemma scale_biofuel_sum (ty : opt_type) m : biofuel_sum i' (scale_a ty c a) m == c * biofuel_sum i a m.
  Proof.
    unfold biofuel_sum, bq. sc_cbn.
    destruct (add_sf i), (add_cr i), (add_sw i), (add_cs i), (add_scp i); ring.
  Qed.

  Lemma scale_human_sum (ty : opt_type) m : human_sum i' (scale_a ty c a) m == c * human_sum i a m.
  Proof.
    unfold human_sum, bq. sc_cbn.
    destruct (add_sf i), (add_cr i), (add_sw i), (add_meat i), (add_cs i), (add_scp i); ring.
  Qed.

  Lemma scale_fb (ty : opt_type) m : fb_spec i ty a m <-> fb_spec i' ty (scale_a ty c a) m.
  Proof.
    unfold fb_spec. change (has_nonhuman i') with (has_nonhuman i).
    apply imp_iff_morph. intros _.
    destruct ty.
    - rewrite scale_feed_sum, scale_biofuel_sum. sc_cbn. rewrite !at_sc.
      apply and_iff_morph; apply (sc_eq _ _ _ _ _ Hc); ring.
    - destruct m as [|p]; rewrite ?scale_feed_sum, ?scale_biofuel_sum; sc_cbn; rewrite !at_sc;
        repeat apply and_iff_morph; try tauto; apply (sc_le _ _ _ _ _ Hc); ring.
  Qed.

  Lemma scale_given m : given_kcals i' m == c * given_kcals i m.
  Proof. unfold given_kcals. sc_cbn. rewrite !at_sc. ring. Qed.

  Lemma scale_cons (ty : opt_type) m : 0 < need i -> (cons_spec i ty a m <-> cons_spec i' ty (scale_a ty c a) m).
  Proof.
    intros Hn. unfold cons_spec. apply imp_iff_morph. intros Ht.
    rewrite scale_human_sum, scale_given.
    assert (E : (scale_a ty c a) Consumed m = a Consumed m) by (unfold scale_a; rewrite Ht; reflexivity).
    rewrite E. apply eq_iff_r. unfold kneed. sc_cbn. field. split; intro HE; lra.
  Qed.

  Lemma scale_need0 : need0 i' == c * need0 i.
  Proof. unfold need0. sc_cbn. unfold Qdiv. ring. Qed.

  Lemma scale_caps_food (ty : opt_type) m (r : Q) (sh sf sb : slot) (ch cf cb : Q) :
    sh <> Consumed -> sh <> Obj -> sf <> Consumed -> sf <> Obj -> sb <> Consumed -> sb <> Obj ->
    (caps_food_spec i ty a m r sh sf sb ch cf cb <-> caps_food_spec i' ty (scale_a ty c a) m r sh sf sb ch cf cb).
  Proof.
    intros N1 N2 N3 N4 N5 N6. unfold caps_food_spec.
    assert (Eh : (scale_a ty c a) sh m == c * a sh m) by (unfold scale_a; destruct sh; try reflexivity; congruence).
    assert (Ef : (scale_a ty c a) sf m == c * a sf m) by (unfold scale_a; destruct sf; try reflexivity; congruence).
    assert (Eb : (scale_a ty c a) sb m == c * a sb m) by (unfold scale_a; destruct sb; try reflexivity; congruence).
    rewrite Eh, Ef, Eb, scale_need0.
    apply and_iff_morph; [apply imp_iff_morph; intros Ht|].
    - assert (E : (scale_a ty c a) Consumed m = a Consumed m) by (unfold scale_a; rewrite Ht; reflexivity).
      rewrite E. sc_cbn.
      apply and_iff_morph; apply (sc_le _ _ _ _ _ Hc); unfold Qdiv; ring.
    - sc_cbn. rewrite !at_sc.
      apply and_iff_morph; apply (sc_le _ _ _ _ _ Hc); unfold Qdiv; ring.
  Qed.

  Lemma scale_caps (ty : opt_type) m : caps_spec i ty a m <-> caps_spec i' ty (scale_a ty c a) m.
  Proof.
    unfold caps_spec.
    repeat apply and_iff_morph; apply imp_iff_morph; intros _;
      apply scale_caps_food; discriminate.
  Qed.

  Lemma scale_obj (ty : opt_type) : obj_spec i ty a <-> obj_spec i' ty (scale_a ty c a).
  Proof.
    unfold obj_spec. destruct ty.
    - unfold scale_a. cbn [NM scale_in]. tauto.
    - change (NM i') with (NM i).
      rewrite (sumQ_ext (feed_sum i' (scale_a ToAnimals c a)) (fun m => c * feed_sum i a m) (NM i)) by (intros; apply scale_feed_sum).
      rewrite (sumQ_ext (biofuel_sum i' (scale_a ToAnimals c a)) (fun m => c * biofuel_sum i a m) (NM i)) by (intros; apply scale_biofuel_sum).
      rewrite !sumQ_scale. unfold scale_a.
      apply (sc_le _ _ _ _ _ Hc); ring.
  Qed.

  Lemma scale_FeasT (ty : opt_type) :
    0 < need i -> (ty = ToAnimals -> same_side c i) -> (FeasT i ty a <-> FeasT i' ty (scale_a ty c a)).
  Proof.
    intros Hn Hs. unfold FeasT.
    apply and_iff_morph; [apply scale_nonneg|].
    change (NM i') with (NM i). change (add_sw i') with (add_sw i). change (add_cr i') with (add_cr i).
    change (add_sf i') with (add_sf i). change (add_meat i') with (add_meat i).
    change (add_scp i') with (add_scp i). change (add_cs i') with (add_cs i).
    repeat apply and_iff_morph.
    - split; intros H Hb m Hm; specialize (H Hb m Hm);
        [rewrite <- (scale_sw ty) | rewrite (scale_sw ty)]; (split; [tauto|]);
        [apply (scale_pin ty (sw_kcals i) SW_h (pin_sw i) m); try discriminate; tauto
        |apply (scale_pin ty (sw_kcals i) SW_h (pin_sw i) m); try discriminate; tauto].
    - split; intros H Hb m Hm; specialize (H Hb m Hm);
        [rewrite <- (scale_cr ty) | rewrite (scale_cr ty)]; (split; [tauto|]);
        apply (scale_pin ty 1 CR_h (pin_cr i) m); try discriminate; tauto.
    - split; intros H Hb m Hm; specialize (H Hb m Hm);
        [rewrite <- (scale_sf ty) | rewrite (scale_sf ty)]; (split; [tauto|]);
        apply (scale_pin ty 1 SF_h (pin_sf i) m); try discriminate; tauto.
    - split; intros H Hb m Hm; specialize (H Hb m Hm);
        [rewrite <- (scale_meat ty) | rewrite (scale_meat ty)]; (split; [tauto|]);
        apply (scale_pin ty 1 M_eaten (pin_meat i) m); try discriminate; tauto.
    - split; intros H Hb m Hm; specialize (H Hb m Hm);
        [rewrite <- (scale_scp ty) | rewrite (scale_scp ty)]; (split; [tauto|]);
        apply (scale_pin ty 1 SCP_h (pin_scp i) m); try discriminate; tauto.
    - split; intros H Hb m Hm; specialize (H Hb m Hm);
        [rewrite <- (scale_cs ty) | rewrite (scale_cs ty)]; (split; [tauto|]);
        apply (scale_pin ty 1 CS_h (pin_cs i) m); try discriminate; tauto.
    - split; intros H m Hm; specialize (H m Hm);
        [rewrite <- (scale_fb ty), <- (scale_cons ty), <- (scale_caps ty) | rewrite (scale_fb ty), (scale_cons ty), (scale_caps ty)]; auto.
    - apply scale_obj.
  Qed.
End Scale.

Lemma c12_scale_lemma (c : Q) (i : lp_in) (ty : opt_type) (a : assignment) :
  0 < c -> 0 < need i -> (ty = ToAnimals -> same_side c i) ->
  (Feasible i ty a <-> Feasible (scale_in c i) ty (scale_a ty c a)).
Proof. intros Hc Hn Hs. rewrite !FeasT_iff. apply scale_FeasT; assumption. Qed.

Lemma scale_obj_humans c a : scale_a ToHumans c a Obj 0%nat = a Obj 0%nat.
Proof. reflexivity. Qed.
Lemma scale_obj_animals c a : scale_a ToAnimals c a Obj 0%nat = c * a Obj 0%nat.
Proof. reflexivity. Qed.

(* ================================================================== *)
(* 2. monotonicity in the supplies                                    *)
(* ================================================================== *)

(* "the optimum of i' is at least the optimum of i", solver-independent form *)
Definition Dominated (i i' : lp_in) : Prop :=
  forall a, Feasible i ToHumans a ->
  exists a', Feasible i' ToHumans a' /\ a Obj 0%nat <= a' Obj 0%nat.

Lemma Dominated_refl i : Dominated i i.
Proof. intros a F. exists a. split; [exact F | lra]. Qed.

Lemma Dominated_trans i1 i2 i3 : Dominated i1 i2 -> Dominated i2 i3 -> Dominated i1 i3.
Proof.
  intros H12 H23 a F. destruct (H12 a F) as (a2 & F2 & L2). destruct (H23 a2 F2) as (a3 & F3 & L3).
  exists a3. split; [exact F3 | lra].
Qed.

Lemma Dominated_value i i' :
  Dominated i i' ->
  forall v, (exists a, Feasible i ToHumans a /\ v <= a Obj 0%nat) ->
            (exists a', Feasible i' ToHumans a' /\ v <= a' Obj 0%nat).
Proof. intros D v (a & F & L). destruct (D a F) as (a' & F' & L'). exists a'. split; [exact F' | lra]. Qed.

Definition caps_nonneg (i : lp_in) : Prop := 0 <= cap_sw_h i /\ 0 <= cap_scp_h i /\ 0 <= cap_cs_h i.

Definition set_supplies (i : lp_in) (sf0' meat_total' : Q)
  (crops_prod' milk' greenhouse' fish' scp_prod' cs_prod' built_area' meat_monthly' meat_running' : list Q) : lp_in :=
  {| NM := NM i; add_sw := add_sw i; add_cr := add_cr i; add_sf := add_sf i; add_meat := add_meat i; 
     add_scp := add_scp i; add_cs := add_cs i; store_years := store_years i; pop := pop i; 
     kcals_monthly_pp := kcals_monthly_pp i; need := need i; w_sf := w_sf i; w_cr := w_cr i; 
     w_meat := w_meat i; w_scp := w_scp i; w_cs := w_cs i; w_sw := w_sw i; sf0 := sf0'; 
     meat_total := meat_total'; sw_kcals := sw_kcals i; sw_init := sw_init i; 
     sw_init_area := sw_init_area i; sw_min_density := sw_min_density i; 
     sw_max_density := sw_max_density i; sw_harvest_loss := sw_harvest_loss i; 
     relocated := relocated i; harvest_delay := harvest_delay i; cap_sw_h := cap_sw_h i; 
     cap_sw_f := cap_sw_f i; cap_sw_b := cap_sw_b i; cap_scp_h := cap_scp_h i; 
     cap_scp_f := cap_scp_f i; cap_scp_b := cap_scp_b i; cap_cs_h := cap_cs_h i; 
     cap_cs_f := cap_cs_f i; cap_cs_b := cap_cs_b i; crops_prod := crops_prod'; milk := milk'; 
     greenhouse := greenhouse'; fish := fish'; scp_prod := scp_prod'; cs_prod := cs_prod'; 
     built_area := built_area'; growth := growth i; feed_charge := feed_charge i; 
     biofuel_charge := biofuel_charge i; meat_monthly := meat_monthly'; 
     meat_running := meat_running'; max_feed := max_feed i; max_biofuel := max_biofuel i; 
     pin_cr := pin_cr i; pin_sf := pin_sf i; pin_meat := pin_meat i; pin_scp := pin_scp i; 
     pin_cs := pin_cs i; pin_sw := pin_sw i |}.

(* add d m to slot s0 in month m *)
Definition slot_eqb (s s0 : slot) : bool := Nat.eqb (slot_id s) (slot_id s0).
Definition bump (a : assignment) (s0 : slot) (d : nat -> Q) : assignment :=
  fun s m => if slot_eqb s s0 then a s m + d m else a s m.

Lemma bump_nonneg a s0 d : nonneg a -> (forall m, 0 <= d m) -> nonneg (bump a s0 d).
Proof.
  intros Ha Hd s m. unfold bump. specialize (Ha s m). specialize (Hd m). destruct (slot_eqb s s0); lra.
Qed.

Lemma kneed_pos i : 0 < need i -> 0 < kneed i.
Proof. intros H. unfold kneed. apply Qlt_shift_div_l; [exact H | lra]. Qed.

Lemma cap_mono ch nd X C C' :
  0 <= ch -> 0 <= nd -> C <= C' -> X <= ch / 100 * (nd / 100) * C -> X <= ch / 100 * (nd / 100) * C'.
Proof.
  intros H1 H2 H3 H4.
  assert (0 <= ch / 100 * (nd / 100)).
  { apply Qmult_le_0_compat; rewrite Qdiv100; lra. }
  assert (0 <= (ch / 100 * (nd / 100)) * (C' - C)) by (apply Qmult_le_0_compat; lra).
  lra.
Qed.

Lemma caps_food_mono i a a' m r sh sf sb ch cf cb :
  0 <= ch -> 0 < need i ->
  a' sh m == a sh m -> a' sf m == a sf m -> a' sb m == a sb m -> a Consumed m <= a' Consumed m ->
  caps_food_spec i ToHumans a m r sh sf sb ch cf cb -> caps_food_spec i ToHumans a' m r sh sf sb ch cf cb.
Proof.
  intros Hch Hn Eh Ef Eb HC (H1 & H2 & H3). unfold caps_food_spec. rewrite Eh, Ef, Eb.
  split; [|tauto]. intros _. destruct (H1 eq_refl) as (H4 & H5). split; [exact H4|].
  apply (cap_mono ch (need i) _ (a Consumed m)); auto; lra.
Qed.

(* the nine resilient-food slots are untouched in month m *)
Definition same_res (a a' : assignment) (m : nat) : Prop :=
  a' SW_h m == a SW_h m /\ a' SW_f m == a SW_f m /\ a' SW_b m == a SW_b m /\
  a' SCP_h m == a SCP_h m /\ a' SCP_f m == a SCP_f m /\ a' SCP_b m == a SCP_b m /\
  a' CS_h m == a CS_h m /\ a' CS_f m == a CS_f m /\ a' CS_b m == a CS_b m.

Lemma caps_mono i a a' m :
  caps_nonneg i -> 0 < need i -> same_res a a' m -> a Consumed m <= a' Consumed m ->
  caps_spec i ToHumans a m -> caps_spec i ToHumans a' m.
Proof.
  intros (C1 & C2 & C3) Hn (E1 & E2 & E3 & E4 & E5 & E6 & E7 & E8 & E9) HC (H1 & H2 & H3).
  unfold caps_spec. split; [|split]; intros Hb; apply (caps_food_mono i a a'); auto.
Qed.

(* the month rows after a change that gives B more billion kcal to people in month m and leaves the
   feed and biofuel sums and the resilient foods alone *)
Lemma month_rows_bump i a a' B m :
  caps_nonneg i -> 0 < need i -> 0 <= B ->
  feed_sum i a' m == feed_sum i a m -> biofuel_sum i a' m == biofuel_sum i a m ->
  human_sum i a' m == human_sum i a m + B ->
  a' Consumed m == a Consumed m + kneed i * B ->
  same_res a a' m ->
  fb_spec i ToHumans a m /\ cons_spec i ToHumans a m /\ caps_spec i ToHumans a m ->
  fb_spec i ToHumans a' m /\ cons_spec i ToHumans a' m /\ caps_spec i ToHumans a' m.
Proof.
  intros Hc Hn HB Ef Eb Eh EC Hr (H1 & H2 & H3).
  pose proof (kneed_pos i Hn) as HK.
  assert (0 <= kneed i * B) by (apply Qmult_le_0_compat; lra).
  split; [|split].
  - unfold fb_spec in *. rewrite Ef, Eb. exact H1.
  - unfold cons_spec in *. intros _. specialize (H2 eq_refl). rewrite EC, Eh, H2. ring.
  - apply (caps_mono i a a'); auto. lra.
Qed.

Lemma obj_mono i a a' :
  a' Obj 0%nat == a Obj 0%nat -> (forall m, a Consumed m <= a' Consumed m) ->
  obj_spec i ToHumans a -> obj_spec i ToHumans a'.
Proof. intros E H Ho m Hm. specialize (Ho m Hm). specialize (H m). lra. Qed.

Lemma pin_humans i a c s pin m : pin_spec i ToHumans a c s pin m.
Proof. intros H; discriminate H. Qed.

Ltac feas_destruct F :=
  apply FeasT_iff in F;
  destruct F as (Hnn & Hsw & Hcr & Hsf & Hmeat & Hscp & Hcs & Hmon & Hobj).

Ltac sc_cbn_all := cbn -[Qmult Qplus Qminus Qdiv Qinv Qopp Qle Qlt Qeq at_ gross sc Nat.sub Nat.ltb inject_Z] in *.

Ltac feas_split :=
  apply FeasT_iff; unfold FeasT;
  split; [|split; [|split; [|split; [|split; [|split; [|split; [|split]]]]]]].

(* ---- (a) same assignment stays feasible: SCP, CS, meat (no-storage regime), seaweed built area ---- *)

Definition set_scp (l : list Q) (i : lp_in) : lp_in :=
  set_supplies i (sf0 i) (meat_total i) (crops_prod i) (milk i) (greenhouse i) (fish i)
               l (cs_prod i) (built_area i) (meat_monthly i) (meat_running i).
Definition set_cs (l : list Q) (i : lp_in) : lp_in :=
  set_supplies i (sf0 i) (meat_total i) (crops_prod i) (milk i) (greenhouse i) (fish i)
               (scp_prod i) l (built_area i) (meat_monthly i) (meat_running i).
Definition set_built (l : list Q) (i : lp_in) : lp_in :=
  set_supplies i (sf0 i) (meat_total i) (crops_prod i) (milk i) (greenhouse i) (fish i)
               (scp_prod i) (cs_prod i) l (meat_monthly i) (meat_running i).
Definition set_meat_monthly (l : list Q) (i : lp_in) : lp_in :=
  set_supplies i (sf0 i) (meat_total i) (crops_prod i) (milk i) (greenhouse i) (fish i)
               (scp_prod i) (cs_prod i) (built_area i) l (meat_running i).
Definition set_given (lm lg lf : list Q) (i : lp_in) : lp_in :=
  set_supplies i (sf0 i) (meat_total i) (crops_prod i) lm lg lf
               (scp_prod i) (cs_prod i) (built_area i) (meat_monthly i) (meat_running i).
Definition set_crops (l : list Q) (i : lp_in) : lp_in :=
  set_supplies i (sf0 i) (meat_total i) l (milk i) (greenhouse i) (fish i)
               (scp_prod i) (cs_prod i) (built_area i) (meat_monthly i) (meat_running i).
Definition set_sf0 (x : Q) (i : lp_in) : lp_in :=
  set_supplies i x (meat_total i) (crops_prod i) (milk i) (greenhouse i) (fish i)
               (scp_prod i) (cs_prod i) (built_area i) (meat_monthly i) (meat_running i).
Definition set_meat_stock (x : Q) (l : list Q) (i : lp_in) : lp_in :=
  set_supplies i (sf0 i) x (crops_prod i) (milk i) (greenhouse i) (fish i)
               (scp_prod i) (cs_prod i) (built_area i) (meat_monthly i) l.

Lemma scp_mono i l : (forall m, at_ (scp_prod i) m <= at_ l m) -> Dominated i (set_scp l i).
Proof.
  intros Hl a F. exists a. split; [|lra]. feas_destruct F.
  feas_split; [exact Hnn | exact Hsw | exact Hcr | exact Hsf | exact Hmeat | | exact Hcs | exact Hmon | exact Hobj].
  intros Hb m Hm. destruct (Hscp Hb m Hm) as [H1 H2]. split; [|exact H2].
  specialize (Hl m). unfold scp_spec in *. sc_cbn. lra.
Qed.

Lemma cs_mono i l : (forall m, at_ (cs_prod i) m <= at_ l m) -> Dominated i (set_cs l i).
Proof.
  intros Hl a F. exists a. split; [|lra]. feas_destruct F.
  feas_split; [exact Hnn | exact Hsw | exact Hcr | exact Hsf | exact Hmeat | exact Hscp | | exact Hmon | exact Hobj].
  intros Hb m Hm. destruct (Hcs Hb m Hm) as [H1 H2]. split; [|exact H2].
  specialize (Hl m). unfold cs_spec in *. sc_cbn. lra.
Qed.

Lemma meat_monthly_mono i l : (forall m, at_ (meat_monthly i) m <= at_ l m) -> Dominated i (set_meat_monthly l i).
Proof.
  intros Hl a F. exists a. split; [|lra]. feas_destruct F.
  feas_split; [exact Hnn | exact Hsw | exact Hcr | exact Hsf | | exact Hscp | exact Hcs | exact Hmon | exact Hobj].
  intros Hb m Hm. destruct (Hmeat Hb m Hm) as [H1 H2]. split; [|exact H2].
  specialize (Hl m). unfold meat_spec in *. sc_cbn. destruct (store_years i); [exact H1 | lra].
Qed.

Lemma built_mono i l :
  0 <= sw_max_density i -> (forall m, at_ (built_area i) m <= at_ l m) -> Dominated i (set_built l i).
Proof.
  intros Hd Hl a F. exists a. split; [|lra]. feas_destruct F.
  feas_split; [exact Hnn | | exact Hcr | exact Hsf | exact Hmeat | exact Hscp | exact Hcs | exact Hmon | exact Hobj].
  intros Hb m Hm. destruct (Hsw Hb m Hm) as [H1 H2]. split; [|exact H2].
  specialize (Hl m).
  assert (0 <= sw_max_density i * (at_ l m - at_ (built_area i) m)) by (apply Qmult_le_0_compat; lra).
  assert (Hbd : sw_bounds i a m -> sw_bounds (set_built l i) a m).
  { unfold sw_bounds. sc_cbn. intros (B1 & B2 & B3 & B4). repeat split; lra. }
  destruct m; sc_cbn_all; [destruct H1 as (B & R) | destruct H1 as (B & R)]; (split; [apply Hbd; exact B | exact R]).
Qed.

(* ---- (b) milk, greenhouse, fish: people eat the additional given food in the same month ---- *)

Lemma bump_Consumed_same_res a d m : same_res a (bump a Consumed d) m.
Proof. unfold same_res, bump. cbn. repeat split; reflexivity. Qed.

Lemma given_mono i lm lg lf :
  0 < need i -> caps_nonneg i ->
  (forall m, at_ (milk i) m <= at_ lm m) -> (forall m, at_ (greenhouse i) m <= at_ lg m) ->
  (forall m, at_ (fish i) m <= at_ lf m) ->
  Dominated i (set_given lm lg lf i).
Proof.
  intros Hn Hc H1 H2 H3 a F.
  set (i' := set_given lm lg lf i).
  set (B := fun m => given_kcals i' m - given_kcals i m).
  assert (HB : forall m, 0 <= B m).
  { intros m. unfold B, given_kcals, i'. sc_cbn. specialize (H1 m). specialize (H2 m). specialize (H3 m). lra. }
  pose proof (kneed_pos i Hn) as HK.
  assert (HKB : forall m, 0 <= kneed i * B m) by (intros m; apply Qmult_le_0_compat; [lra | apply HB]).
  set (a' := bump a Consumed (fun m => kneed i * B m)).
  exists a'. split; [|unfold a', bump; cbn; lra]. feas_destruct F.
  feas_split; [ | exact Hsw | exact Hcr | exact Hsf | exact Hmeat | exact Hscp | exact Hcs | | ].
  - apply bump_nonneg; assumption.
  - intros m Hm. destruct (Hmon m Hm) as (M1 & M2 & M3). split; [exact M1|]. split.
    + intros _. specialize (M2 eq_refl). change (kneed i') with (kneed i).
      change (human_sum i' a' m) with (human_sum i a m).
      change (a' Consumed m) with (a Consumed m + kneed i * B m). rewrite M2. unfold B. ring.
    + change (caps_spec i ToHumans a' m). apply (caps_mono i a a'); auto.
      * apply bump_Consumed_same_res.
      * change (a' Consumed m) with (a Consumed m + kneed i * B m). specialize (HKB m). lra.
  - apply (obj_mono i a a'); [reflexivity | | exact Hobj].
    intros m. change (a' Consumed m) with (a Consumed m + kneed i * B m). specialize (HKB m). lra.
Qed.

(* ---- (c) outdoor crops: the additional harvest of month m is eaten by people in month m ---- *)

Lemma gross_bump w d : waste_ok w -> gross w * (d * (1 - w / 100)) == d.
Proof. intros H. transitivity (d * (gross w * (1 - w / 100))); [ring | rewrite gross_spec by exact H; ring]. Qed.

Lemma crops_mono i l :
  admissible i -> caps_nonneg i ->
  (forall m, at_ (crops_prod i) m <= at_ l m) -> Dominated i (set_crops l i).
Proof.
  intros (_ & Hw & _ & _ & _ & _ & Hn & _) Hc Hl a F.
  set (i' := set_crops l i).
  set (d := fun m => at_ l m - at_ (crops_prod i) m).
  set (wc := 1 - w_cr i / 100).
  assert (Hwc : 0 < wc) by (apply waste_den_pos; exact Hw).
  assert (Hd : forall m, 0 <= d m) by (intros m; unfold d; specialize (Hl m); lra).
  assert (Hdw : forall m, 0 <= d m * wc) by (intros m; apply Qmult_le_0_compat; [apply Hd | lra]).
  set (B := fun m => bq (add_cr i) (d m * wc)).
  assert (HB : forall m, 0 <= B m) by (intros m; apply bq_nonneg; apply Hdw).
  pose proof (kneed_pos i Hn) as HK.
  assert (HKB : forall m, 0 <= kneed i * B m) by (intros m; apply Qmult_le_0_compat; [lra | apply HB]).
  set (a' := bump (bump (bump a CR_h (fun m => d m * wc)) CR_consumed d) Consumed (fun m => kneed i * B m)).
  assert (EC : forall m, a' Consumed m = a Consumed m + kneed i * B m) by reflexivity.
  exists a'. split; [|unfold a', bump; cbn; lra]. feas_destruct F.
  feas_split; [ | exact Hsw | | exact Hsf | exact Hmeat | exact Hscp | exact Hcs | | ].
  - repeat apply bump_nonneg; assumption.
  - intros Hb m Hm. destruct (Hcr Hb m Hm) as [H1 H2]. split; [|apply pin_humans].
    pose proof (gross_bump (w_cr i) (d m) Hw) as G. fold wc in G.
    destruct m as [|p]; unfold cr_spec, cr_consumed_eq in *.
    + change (a' CR_consumed 0%nat) with (a CR_consumed 0%nat + d 0%nat).
      change (a' CR_h 0%nat) with (a CR_h 0%nat + d 0%nat * wc).
      change (a' CR_f 0%nat) with (a CR_f 0%nat). change (a' CR_b 0%nat) with (a CR_b 0%nat).
      change (a' CR_storage 0%nat) with (a CR_storage 0%nat).
      change (at_ (crops_prod i') 0) with (at_ l 0). change (w_cr i') with (w_cr i).
      destruct H1 as (K1 & K2). unfold d in *. split; lra.
    + change (a' CR_consumed (S p)) with (a CR_consumed (S p) + d (S p)).
      change (a' CR_h (S p)) with (a CR_h (S p) + d (S p) * wc).
      change (a' CR_f (S p)) with (a CR_f (S p)). change (a' CR_b (S p)) with (a CR_b (S p)).
      change (a' CR_storage (S p)) with (a CR_storage (S p)). change (a' CR_storage p) with (a CR_storage p).
      change (at_ (crops_prod i') (S p)) with (at_ l (S p)). change (w_cr i') with (w_cr i).
      change (NM i') with (NM i).
      destruct H1 as (K1 & K2 & K3). unfold d in *. repeat split; try lra. exact K3.
  - intros m Hm. change (fb_spec i ToHumans a' m /\ cons_spec i ToHumans a' m /\ caps_spec i ToHumans a' m).
    apply (month_rows_bump i a a' (B m)); auto.
    + unfold feed_sum, a', bump. cbn. reflexivity.
    + unfold biofuel_sum, a', bump. cbn. reflexivity.
    + unfold human_sum, B, bq, a', bump. sc_cbn. destruct (add_sf i), (add_cr i), (add_sw i), (add_meat i), (add_cs i), (add_scp i). all: ring.
    + rewrite EC. reflexivity.
    + unfold same_res, a', bump. cbn. repeat split; reflexivity.
  - apply (obj_mono i a a'); [reflexivity | | exact Hobj].
    intros m. rewrite EC. specialize (HKB m). lra.
Qed.

(* ---- (d) initial stored food: the additional stock is eaten by people in month 0 ---- *)

Definition at0 (x : Q) (m : nat) : Q := match m with O => x | S _ => 0 end.

Lemma sf0_mono i x :
  admissible i -> caps_nonneg i -> sf0 i <= x -> Dominated i (set_sf0 x i).
Proof.
  intros (Hw & _ & _ & _ & _ & _ & Hn & _) Hc Hx a F.
  set (i' := set_sf0 x i).
  set (ws := 1 - w_sf i / 100).
  assert (Hws : 0 < ws) by (apply waste_den_pos; exact Hw).
  set (d := at0 (x - sf0 i)).
  assert (Hd : forall m, 0 <= d m) by (intros [|m]; unfold d, at0; lra).
  assert (Hdw : forall m, 0 <= d m * ws) by (intros m; apply Qmult_le_0_compat; [apply Hd | lra]).
  set (B := fun m => bq (add_sf i) (d m * ws)).
  assert (HB : forall m, 0 <= B m) by (intros m; apply bq_nonneg; apply Hdw).
  pose proof (kneed_pos i Hn) as HK.
  assert (HKB : forall m, 0 <= kneed i * B m) by (intros m; apply Qmult_le_0_compat; [lra | apply HB]).
  set (a' := bump (bump (bump a SF_h (fun m => d m * ws)) SF_start d) Consumed (fun m => kneed i * B m)).
  assert (EC : forall m, a' Consumed m = a Consumed m + kneed i * B m) by reflexivity.
  exists a'. split; [|unfold a', bump; cbn; lra]. feas_destruct F.
  feas_split; [ | exact Hsw | exact Hcr | | exact Hmeat | exact Hscp | exact Hcs | | ].
  - repeat apply bump_nonneg; assumption.
  - intros Hb m Hm. destruct (Hsf Hb m Hm) as [H1 H2]. split; [|apply pin_humans].
    destruct m as [|p]; unfold sf_spec, sf_eaten_eq in *.
    + pose proof (gross_bump (w_sf i) (d 0%nat) Hw) as G. fold ws in G.
      change (a' SF_start 0%nat) with (a SF_start 0%nat + d 0%nat).
      change (a' SF_h 0%nat) with (a SF_h 0%nat + d 0%nat * ws).
      change (a' SF_f 0%nat) with (a SF_f 0%nat). change (a' SF_b 0%nat) with (a SF_b 0%nat).
      change (a' SF_end 0%nat) with (a SF_end 0%nat).
      change (sf0 i') with x. change (w_sf i') with (w_sf i).
      destruct H1 as (K1 & K2). change (d 0%nat) with (x - sf0 i) in *. split; lra.
    + change (a' SF_start (S p)) with (a SF_start (S p) + 0).
      change (a' SF_h (S p)) with (a SF_h (S p) + 0 * ws).
      change (a' SF_f (S p)) with (a SF_f (S p)). change (a' SF_b (S p)) with (a SF_b (S p)).
      change (a' SF_end (S p)) with (a SF_end (S p)). change (a' SF_end p) with (a SF_end p).
      change (w_sf i') with (w_sf i). change (NM i') with (NM i). change (store_years i') with (store_years i).
      destruct H1 as (K1 & K2). split; [lra|].
      destruct (store_years i).
      * destruct K2 as (K2 & K3). split; [lra | exact K3].
      * destruct (Nat.ltb 12 (S p)); [destruct K2 as (K2 & K3 & K4); repeat split; lra | lra].
  - intros m Hm. change (fb_spec i ToHumans a' m /\ cons_spec i ToHumans a' m /\ caps_spec i ToHumans a' m).
    apply (month_rows_bump i a a' (B m)); auto.
    + unfold feed_sum, a', bump. cbn. reflexivity.
    + unfold biofuel_sum, a', bump. cbn. reflexivity.
    + unfold human_sum, B, bq, a', bump. sc_cbn. destruct (add_sf i), (add_cr i), (add_sw i), (add_meat i), (add_cs i), (add_scp i); ring.
    + rewrite EC. reflexivity.
    + unfold same_res, a', bump. cbn. repeat split; reflexivity.
  - apply (obj_mono i a a'); [reflexivity | | exact Hobj].
    intros m. rewrite EC. specialize (HKB m). lra.
Qed.

(* ---- (e) meat, storage regime: a larger stock (meat_total) and larger running ceilings;
        the additional stock is carried along in M_start / M_end, eaten amounts unchanged ---- *)

Lemma meat_stock_mono i x l :
  meat_total i <= x -> (forall m, at_ (meat_running i) m <= at_ l m) -> Dominated i (set_meat_stock x l i).
Proof.
  intros Hx Hl a F.
  set (i' := set_meat_stock x l i).
  set (d := fun _ : nat => x - meat_total i).
  assert (Hd : forall m, 0 <= d m) by (intros m; unfold d; lra).
  set (a' := bump (bump a M_start d) M_end d).
  exists a'. split; [|unfold a', bump; cbn; lra]. feas_destruct F.
  feas_split; [ | exact Hsw | exact Hcr | exact Hsf | | exact Hscp | exact Hcs | exact Hmon | exact Hobj].
  - repeat apply bump_nonneg; assumption.
  - intros Hb m Hm. destruct (Hmeat Hb m Hm) as [H1 H2]. split; [|apply pin_humans].
    unfold meat_spec in *. change (store_years i') with (store_years i).
    destruct (store_years i); [|exact H1].
    change (a' M_end m) with (a M_end m + (x - meat_total i)).
    change (a' M_start m) with (a M_start m + (x - meat_total i)).
    change (a' M_eaten m) with (a M_eaten m). change (w_meat i') with (w_meat i).
    change (meat_total i') with x. change (at_ (meat_running i') m) with (at_ l m).
    specialize (Hl m). destruct H1 as (K1 & K2 & K3 & K4).
    split; [|repeat split; lra].
    destruct m as [|p].
    + change (a' M_start 0%nat) with (a M_start 0%nat + (x - meat_total i)). lra.
    + change (a' M_start (S p)) with (a M_start (S p) + (x - meat_total i)).
      change (a' M_end p) with (a M_end p + (x - meat_total i)). lra.
Qed.

(* ---- all supplies together ---- *)

Lemma supply_mono_set i s mt cr mi gh fi scp cs bu mm mr :
  admissible i -> caps_nonneg i -> 0 <= sw_max_density i ->
  sf0 i <= s -> meat_total i <= mt ->
  (forall m, at_ (crops_prod i) m <= at_ cr m) ->
  (forall m, at_ (milk i) m <= at_ mi m) ->
  (forall m, at_ (greenhouse i) m <= at_ gh m) ->
  (forall m, at_ (fish i) m <= at_ fi m) ->
  (forall m, at_ (scp_prod i) m <= at_ scp m) ->
  (forall m, at_ (cs_prod i) m <= at_ cs m) ->
  (forall m, at_ (built_area i) m <= at_ bu m) ->
  (forall m, at_ (meat_monthly i) m <= at_ mm m) ->
  (forall m, at_ (meat_running i) m <= at_ mr m) ->
  Dominated i (set_supplies i s mt cr mi gh fi scp cs bu mm mr).
Proof.
  intros Ha Hc Hd H1 H2 H3 H4 H5 H6 H7 H8 H9 H10 H11.
  pose (i1 := set_scp scp i). pose (i2 := set_cs cs i1). pose (i3 := set_built bu i2).
  pose (i4 := set_meat_monthly mm i3). pose (i5 := set_given mi gh fi i4). pose (i6 := set_crops cr i5).
  pose (i7 := set_sf0 s i6).
  assert (Hn : 0 < need i) by (unfold admissible in Ha; tauto).
  apply (Dominated_trans _ i1); [apply scp_mono; exact H7|].
  apply (Dominated_trans _ i2); [apply cs_mono; exact H8|].
  apply (Dominated_trans _ i3); [apply built_mono; [exact Hd | exact H9]|].
  apply (Dominated_trans _ i4); [apply meat_monthly_mono; exact H10|].
  apply (Dominated_trans _ i5); [apply given_mono; [exact Hn | exact Hc | exact H4 | exact H5 | exact H6]|].
  apply (Dominated_trans _ i6); [apply crops_mono; [exact Ha | exact Hc | exact H3]|].
  apply (Dominated_trans _ i7); [apply sf0_mono; [exact Ha | exact Hc | exact H1]|].
  exact (meat_stock_mono i7 mt mr H2 H11).
Qed.

(* i' is i with (only) the supplies replaced, each by something pointwise at least as large.
   Not included: the initial seaweed stock and area (they are also lower bounds of every month,
   so raising them can make the programme infeasible) and the seaweed growth rates. *)
Definition supply_le (i i' : lp_in) : Prop :=
  i' = set_supplies i (sf0 i') (meat_total i') (crops_prod i') (milk i') (greenhouse i') (fish i')
                    (scp_prod i') (cs_prod i') (built_area i') (meat_monthly i') (meat_running i') /\
  sf0 i <= sf0 i' /\ meat_total i <= meat_total i' /\
  (forall m, at_ (crops_prod i) m <= at_ (crops_prod i') m) /\
  (forall m, at_ (milk i) m <= at_ (milk i') m) /\
  (forall m, at_ (greenhouse i) m <= at_ (greenhouse i') m) /\
  (forall m, at_ (fish i) m <= at_ (fish i') m) /\
  (forall m, at_ (scp_prod i) m <= at_ (scp_prod i') m) /\
  (forall m, at_ (cs_prod i) m <= at_ (cs_prod i') m) /\
  (forall m, at_ (built_area i) m <= at_ (built_area i') m) /\
  (forall m, at_ (meat_monthly i) m <= at_ (meat_monthly i') m) /\
  (forall m, at_ (meat_running i) m <= at_ (meat_running i') m).

Lemma supply_mono i i' :
  admissible i -> caps_nonneg i -> 0 <= sw_max_density i -> supply_le i i' -> Dominated i i'.
Proof.
  intros Ha Hc Hd (E & H1 & H2 & H3 & H4 & H5 & H6 & H7 & H8 & H9 & H10 & H11).
  rewrite E. apply supply_mono_set; assumption.
Qed.

Corollary supply_mono_value i i' :
  admissible i -> caps_nonneg i -> 0 <= sw_max_density i -> supply_le i i' ->
  forall v, (exists a, Feasible i ToHumans a /\ v <= a Obj 0%nat) ->
            (exists a', Feasible i' ToHumans a' /\ v <= a' Obj 0%nat).
Proof. intros Ha Hc Hd H. apply Dominated_value. apply supply_mono; assumption. Qed.

(* ================================================================== *)
(* 3. monotonicity in the feed and biofuel charges                    *)
(* ================================================================== *)

Definition set_charges (i : lp_in) (fc' bc' : list Q) : lp_in :=
  {| NM := NM i; add_sw := add_sw i; add_cr := add_cr i; add_sf := add_sf i; add_meat := add_meat i; 
     add_scp := add_scp i; add_cs := add_cs i; store_years := store_years i; pop := pop i; 
     kcals_monthly_pp := kcals_monthly_pp i; need := need i; w_sf := w_sf i; w_cr := w_cr i; 
     w_meat := w_meat i; w_scp := w_scp i; w_cs := w_cs i; w_sw := w_sw i; sf0 := sf0 i; 
     meat_total := meat_total i; sw_kcals := sw_kcals i; sw_init := sw_init i; 
     sw_init_area := sw_init_area i; sw_min_density := sw_min_density i; 
     sw_max_density := sw_max_density i; sw_harvest_loss := sw_harvest_loss i; 
     relocated := relocated i; harvest_delay := harvest_delay i; cap_sw_h := cap_sw_h i; 
     cap_sw_f := cap_sw_f i; cap_sw_b := cap_sw_b i; cap_scp_h := cap_scp_h i; 
     cap_scp_f := cap_scp_f i; cap_scp_b := cap_scp_b i; cap_cs_h := cap_cs_h i; 
     cap_cs_f := cap_cs_f i; cap_cs_b := cap_cs_b i; crops_prod := crops_prod i; milk := milk i; 
     greenhouse := greenhouse i; fish := fish i; scp_prod := scp_prod i; cs_prod := cs_prod i; 
     built_area := built_area i; growth := growth i; feed_charge := fc'; biofuel_charge := bc'; 
     meat_monthly := meat_monthly i; meat_running := meat_running i; max_feed := max_feed i; 
     max_biofuel := max_biofuel i; pin_cr := pin_cr i; pin_sf := pin_sf i; pin_meat := pin_meat i; 
     pin_scp := pin_scp i; pin_cs := pin_cs i; pin_sw := pin_sw i |}.

(* share of the old (larger) charge y that the new (smaller) charge x still takes *)
Definition lam (x y : Q) : Q := if Qeq_dec y 0 then 1 else x / y.

Lemma lam_range x y : 0 <= x <= y -> 0 <= lam x y <= 1.
Proof.
  intros [H0 H1]. unfold lam. destruct (Qeq_dec y 0) as [E|E]; [lra|].
  assert (Hy : 0 < y) by (destruct (Qlt_le_dec 0 y); [assumption | exfalso; apply E; lra]).
  split; [apply Qle_shift_div_l | apply Qle_shift_div_r]; lra.
Qed.

Lemma lam_spec x y : 0 <= x <= y -> lam x y * y == x.
Proof.
  intros [H0 H1]. unfold lam. destruct (Qeq_dec y 0) as [E|E]; [lra | field; exact E].
Qed.

(* From an assignment for the larger charges: every feed variable is multiplied by lf m, every
   biofuel variable by lb m (shares in [0,1]); what stored food and outdoor crops no longer give to
   animals and biofuel is eaten by people (net of retail waste); SCP and cellulosic sugar simply use
   less of their production (their human intake caps may be binding). *)
Definition redirect (i : lp_in) (lf lb : nat -> Q) (a : assignment) : assignment :=
  fun s m =>
    match s with
    | SF_f | CR_f | SCP_f | CS_f | SW_f => lf m * a s m
    | SF_b | CR_b | SCP_b | CS_b | SW_b => lb m * a s m
    | SF_h => a SF_h m + ((1 - lf m) * a SF_f m + (1 - lb m) * a SF_b m) * (1 - w_sf i / 100)
    | CR_h => a CR_h m + ((1 - lf m) * a CR_f m + (1 - lb m) * a CR_b m) * (1 - w_cr i / 100)
    | Consumed =>
        a Consumed m +
        kneed i * (bq (add_sf i) (((1 - lf m) * a SF_f m + (1 - lb m) * a SF_b m) * (1 - w_sf i / 100)) +
                   bq (add_cr i) (((1 - lf m) * a CR_f m + (1 - lb m) * a CR_b m) * (1 - w_cr i / 100)))
    | _ => a s m
    end.

Lemma cap_scale L r x cf F F' :
  0 <= L -> L * F == F' -> r * x <= cf / 100 * F -> r * (L * x) <= cf / 100 * F'.
Proof.
  intros HL E H. rewrite <- E.
  assert (0 <= L * (cf / 100 * F - r * x)) by (apply Qmult_le_0_compat; lra).
  lra.
Qed.

Lemma caps_food_charge i fc' bc' a a' m r sh sf sb ch cf cb L M :
  0 <= ch -> 0 < need i -> 0 <= L -> 0 <= M ->
  L * at_ (feed_charge i) m == at_ fc' m -> M * at_ (biofuel_charge i) m == at_ bc' m ->
  a' sh m == a sh m -> a' sf m == L * a sf m -> a' sb m == M * a sb m -> a Consumed m <= a' Consumed m ->
  caps_food_spec i ToHumans a m r sh sf sb ch cf cb ->
  caps_food_spec (set_charges i fc' bc') ToHumans a' m r sh sf sb ch cf cb.
Proof.
  intros Hch Hn HL HM EL EM Eh Ef Eb HC (H1 & H2 & H3). unfold caps_food_spec.
  rewrite Eh, Ef, Eb. change (need0 (set_charges i fc' bc')) with (need0 i).
  change (need (set_charges i fc' bc')) with (need i).
  change (at_ (feed_charge (set_charges i fc' bc')) m) with (at_ fc' m).
  change (at_ (biofuel_charge (set_charges i fc' bc')) m) with (at_ bc' m).
  split; [|split].
  - intros _. destruct (H1 eq_refl) as (H4 & H5). split; [exact H4|].
    apply (cap_mono ch (need i) _ (a Consumed m)); auto; lra.
  - apply (cap_scale L r _ cf (at_ (feed_charge i) m)); assumption.
  - apply (cap_scale M r _ cb (at_ (biofuel_charge i) m)); assumption.
Qed.

Lemma charge_mono i fc' bc' :
  admissible i -> caps_nonneg i -> add_sw i = false ->
  (forall m, 0 <= at_ fc' m <= at_ (feed_charge i) m) ->
  (forall m, 0 <= at_ bc' m <= at_ (biofuel_charge i) m) ->
  Dominated i (set_charges i fc' bc').
Proof.
  intros (Hwsf & Hwcr & _ & Hwscp & Hwcs & _ & Hn & _) Hc Hnosw Hf Hb a F.
  set (i' := set_charges i fc' bc').
  set (lf := fun m => lam (at_ fc' m) (at_ (feed_charge i) m)).
  set (lb := fun m => lam (at_ bc' m) (at_ (biofuel_charge i) m)).
  assert (Rf : forall m, 0 <= lf m <= 1) by (intros m; apply lam_range; apply Hf).
  assert (Rb : forall m, 0 <= lb m <= 1) by (intros m; apply lam_range; apply Hb).
  assert (Sf : forall m, lf m * at_ (feed_charge i) m == at_ fc' m) by (intros m; apply lam_spec; apply Hf).
  assert (Sb : forall m, lb m * at_ (biofuel_charge i) m == at_ bc' m) by (intros m; apply lam_spec; apply Hb).
  set (ws := 1 - w_sf i / 100). set (wc := 1 - w_cr i / 100).
  assert (Hws : 0 < ws) by (apply waste_den_pos; exact Hwsf).
  assert (Hwc : 0 < wc) by (apply waste_den_pos; exact Hwcr).
  set (a' := redirect i lf lb a).
  feas_destruct F.
  set (Xs := fun m => (1 - lf m) * a SF_f m + (1 - lb m) * a SF_b m).
  set (Xc := fun m => (1 - lf m) * a CR_f m + (1 - lb m) * a CR_b m).
  assert (Hprod : forall L x, 0 <= L <= 1 -> 0 <= x -> 0 <= L * x /\ 0 <= (1 - L) * x).
  { intros L x [L0 L1] Hx. split; apply Qmult_le_0_compat; lra. }
  assert (HXs : forall m, 0 <= Xs m).
  { intros m. unfold Xs. destruct (Hprod (lf m) (a SF_f m) (Rf m) (Hnn SF_f m)).
    destruct (Hprod (lb m) (a SF_b m) (Rb m) (Hnn SF_b m)). lra. }
  assert (HXc : forall m, 0 <= Xc m).
  { intros m. unfold Xc. destruct (Hprod (lf m) (a CR_f m) (Rf m) (Hnn CR_f m)).
    destruct (Hprod (lb m) (a CR_b m) (Rb m) (Hnn CR_b m)). lra. }
  assert (HXsw : forall m, 0 <= Xs m * ws) by (intros m; apply Qmult_le_0_compat; [apply HXs | lra]).
  assert (HXcw : forall m, 0 <= Xc m * wc) by (intros m; apply Qmult_le_0_compat; [apply HXc | lra]).
  set (B := fun m => bq (add_sf i) (Xs m * ws) + bq (add_cr i) (Xc m * wc)).
  assert (HB : forall m, 0 <= B m).
  { intros m. unfold B. pose proof (bq_nonneg (add_sf i) _ (HXsw m)). pose proof (bq_nonneg (add_cr i) _ (HXcw m)). lra. }
  pose proof (kneed_pos i Hn) as HK.
  assert (HKB : forall m, 0 <= kneed i * B m) by (intros m; apply Qmult_le_0_compat; [lra | apply HB]).
  assert (EC : forall m, a' Consumed m = a Consumed m + kneed i * B m) by reflexivity.
  exists a'. split; [|unfold a', redirect; cbn; lra].
  feas_split; [ | | | | exact Hmeat | | | | ].
  - (* nonneg *)
    intros s m. unfold a', redirect.
    pose proof (Hnn s m). specialize (HXsw m). specialize (HXcw m). specialize (HKB m).
    fold ws wc. fold (Xs m) (Xc m). fold (B m).
    destruct s; try assumption; try lra;
      try (apply Qmult_le_0_compat; [apply Rf | apply Hnn]); try (apply Qmult_le_0_compat; [apply Rb | apply Hnn]).
  - intros Hb'. change (add_sw i = true) in Hb'. congruence.
  - (* crops *)
    intros Hb' m Hm. destruct (Hcr Hb' m Hm) as [H1 _]. split; [|apply pin_humans].
    pose proof (gross_bump (w_cr i) (Xc m) Hwcr) as G. fold wc in G.
    assert (EQ : cr_consumed_eq i' a' m).
    { unfold cr_spec, cr_consumed_eq in *. destruct H1 as (K1 & _).
      change (a' CR_consumed m) with (a CR_consumed m). change (a' CR_h m) with (a CR_h m + Xc m * wc).
      change (a' CR_f m) with (lf m * a CR_f m). change (a' CR_b m) with (lb m * a CR_b m).
      change (w_cr i') with (w_cr i). unfold Xc in *. lra. }
    unfold cr_spec in *. split; [exact EQ|]. exact (proj2 H1).
  - (* stored food *)
    intros Hb' m Hm. destruct (Hsf Hb' m Hm) as [H1 _]. split; [|apply pin_humans].
    pose proof (gross_bump (w_sf i) (Xs m) Hwsf) as G. fold ws in G.
    assert (EQ : sf_eaten_eq i a m -> sf_eaten_eq i' a' m).
    { unfold sf_eaten_eq. intros K1.
      change (a' SF_end m) with (a SF_end m). change (a' SF_start m) with (a SF_start m).
      change (a' SF_h m) with (a SF_h m + Xs m * ws).
      change (a' SF_f m) with (lf m * a SF_f m). change (a' SF_b m) with (lb m * a SF_b m).
      change (w_sf i') with (w_sf i). unfold Xs in *. lra. }
    destruct m as [|p]; unfold sf_spec in *.
    + destruct H1 as (K1 & K2). split; [exact K1 | apply EQ; exact K2].
    + change (store_years i') with (store_years i). change (NM i') with (NM i).
      destruct H1 as (K1 & K2). split; [exact K1|].
      destruct (store_years i).
      * destruct K2 as (K2 & K3). split; [apply EQ; exact K2 | exact K3].
      * destruct (Nat.ltb 12 (S p)); [|apply EQ; exact K2].
        destruct K2 as (K2 & K3 & K4).
        change (a' SF_h (S p)) with (a SF_h (S p) + Xs (S p) * ws).
        change (a' SF_f (S p)) with (lf (S p) * a SF_f (S p)). change (a' SF_b (S p)) with (lb (S p) * a SF_b (S p)).
        unfold Xs. rewrite K2, K3, K4. repeat split; ring.
  - (* SCP *)
    intros Hb' m Hm. destruct (Hscp Hb' m Hm) as [H1 _]. split; [|apply pin_humans].
    unfold scp_spec in *.
    change (a' SCP_h m) with (a SCP_h m). change (a' SCP_f m) with (lf m * a SCP_f m).
    change (a' SCP_b m) with (lb m * a SCP_b m). change (w_scp i') with (w_scp i).
    change (at_ (scp_prod i') m) with (at_ (scp_prod i) m).
    destruct (Hprod (lf m) (a SCP_f m) (Rf m) (Hnn SCP_f m)). destruct (Hprod (lb m) (a SCP_b m) (Rb m) (Hnn SCP_b m)). lra.
  - (* CS *)
    intros Hb' m Hm. destruct (Hcs Hb' m Hm) as [H1 _]. split; [|apply pin_humans].
    unfold cs_spec in *.
    change (a' CS_h m) with (a CS_h m). change (a' CS_f m) with (lf m * a CS_f m).
    change (a' CS_b m) with (lb m * a CS_b m). change (w_cs i') with (w_cs i).
    change (at_ (cs_prod i') m) with (at_ (cs_prod i) m).
    destruct (Hprod (lf m) (a CS_f m) (Rf m) (Hnn CS_f m)). destruct (Hprod (lb m) (a CS_b m) (Rb m) (Hnn CS_b m)). lra.
  - (* month rows *)
    intros m Hm. destruct (Hmon m Hm) as (M1 & M2 & M3).
    assert (Ef : feed_sum i' a' m == lf m * feed_sum i a m).
    { unfold feed_sum, bq, a', redirect. sc_cbn. destruct (add_sf i), (add_cr i), (add_sw i), (add_cs i), (add_scp i); ring. }
    assert (Eb : biofuel_sum i' a' m == lb m * biofuel_sum i a m).
    { unfold biofuel_sum, bq, a', redirect. sc_cbn. destruct (add_sf i), (add_cr i), (add_sw i), (add_cs i), (add_scp i); ring. }
    assert (Eh : human_sum i' a' m == human_sum i a m + B m).
    { unfold human_sum, B, Xs, Xc, ws, wc, bq, a', redirect. sc_cbn.
      destruct (add_sf i), (add_cr i), (add_sw i), (add_meat i), (add_cs i), (add_scp i); ring. }
    split; [|split].
    + unfold fb_spec in *. change (has_nonhuman i') with (has_nonhuman i). intros Hh. destruct (M1 Hh) as (F1 & F2).
      rewrite Ef, Eb, F1, F2. split; [apply Sf | apply Sb].
    + unfold cons_spec in *. intros _. specialize (M2 eq_refl).
      rewrite EC, Eh. change (kneed i') with (kneed i). change (given_kcals i' m) with (given_kcals i m).
      rewrite M2. ring.
    + destruct Hc as (C1 & C2 & C3). destruct M3 as (K1 & K2 & K3). unfold caps_spec.
      assert (HCm : a Consumed m <= a' Consumed m) by (rewrite EC; specialize (HKB m); lra).
      split; [|split]; intros Hb'.
      * change (add_sw i = true) in Hb'. congruence.
      * apply (caps_food_charge i fc' bc' a a' m 1 SCP_h SCP_f SCP_b _ _ _ (lf m) (lb m)); auto;
          try apply Rf; try apply Rb; reflexivity.
      * apply (caps_food_charge i fc' bc' a a' m 1 CS_h CS_f CS_b _ _ _ (lf m) (lb m)); auto;
          try apply Rf; try apply Rb; reflexivity.
  - apply (obj_mono i a a'); [reflexivity | | exact Hobj].
    intros m. rewrite EC. specialize (HKB m). lra.
Qed.

(* ================================================================== *)
(* 4. monotonicity in the retail waste percentages                    *)
(* ================================================================== *)

Definition set_wastes (i : lp_in) (w_sf' w_cr' w_meat' w_scp' w_cs' : Q) : lp_in :=
  {| NM := NM i; add_sw := add_sw i; add_cr := add_cr i; add_sf := add_sf i; add_meat := add_meat i; 
     add_scp := add_scp i; add_cs := add_cs i; store_years := store_years i; pop := pop i; 
     kcals_monthly_pp := kcals_monthly_pp i; need := need i; w_sf := w_sf'; w_cr := w_cr'; 
     w_meat := w_meat'; w_scp := w_scp'; w_cs := w_cs'; w_sw := w_sw i; sf0 := sf0 i; 
     meat_total := meat_total i; sw_kcals := sw_kcals i; sw_init := sw_init i; 
     sw_init_area := sw_init_area i; sw_min_density := sw_min_density i; 
     sw_max_density := sw_max_density i; sw_harvest_loss := sw_harvest_loss i; 
     relocated := relocated i; harvest_delay := harvest_delay i; cap_sw_h := cap_sw_h i; 
     cap_sw_f := cap_sw_f i; cap_sw_b := cap_sw_b i; cap_scp_h := cap_scp_h i; 
     cap_scp_f := cap_scp_f i; cap_scp_b := cap_scp_b i; cap_cs_h := cap_cs_h i; 
     cap_cs_f := cap_cs_f i; cap_cs_b := cap_cs_b i; crops_prod := crops_prod i; milk := milk i; 
     greenhouse := greenhouse i; fish := fish i; scp_prod := scp_prod i; cs_prod := cs_prod i; 
     built_area := built_area i; growth := growth i; feed_charge := feed_charge i; 
     biofuel_charge := biofuel_charge i; meat_monthly := meat_monthly i; 
     meat_running := meat_running i; max_feed := max_feed i; max_biofuel := max_biofuel i; 
     pin_cr := pin_cr i; pin_sf := pin_sf i; pin_meat := pin_meat i; pin_scp := pin_scp i; 
     pin_cs := pin_cs i; pin_sw := pin_sw i |}.

(* gross w / gross w' : by how much the net human amount grows when waste w falls to w' *)
Definition rho (w w' : Q) : Q := gross w * (1 - w' / 100).

Lemma rho_spec w w' : waste_ok w' -> gross w' * rho w w' == gross w.
Proof.
  intros H. unfold rho. transitivity (gross w * (gross w' * (1 - w' / 100))); [ring|].
  rewrite gross_spec by exact H. ring.
Qed.

Lemma rho_ge1 w w' : waste_ok w -> w' <= w -> 1 <= rho w w'.
Proof.
  intros H Hle. unfold rho. pose proof (gross_spec w H) as G. pose proof (gross_pos w H) as P.
  assert (0 <= gross w * ((w - w') * (1 # 100))) by (apply Qmult_le_0_compat; lra).
  rewrite Qdiv100 in *. lra.
Qed.

Lemma gross_mono w w' : waste_ok w -> waste_ok w' -> w' <= w -> gross w' <= gross w.
Proof.
  intros H H' Hle. rewrite <- (rho_spec w w' H').
  pose proof (rho_ge1 w w' H Hle). pose proof (gross_pos w' H').
  assert (0 <= gross w' * (rho w w' - 1)) by (apply Qmult_le_0_compat; lra). lra.
Qed.

Definition rewaste (i : lp_in) (wsf' wcr' wmeat' : Q) (a : assignment) : assignment :=
  fun s m =>
    match s with
    | SF_h => rho (w_sf i) wsf' * a SF_h m
    | CR_h => rho (w_cr i) wcr' * a CR_h m
    | M_eaten => rho (w_meat i) wmeat' * a M_eaten m
    | Consumed =>
        a Consumed m +
        kneed i * (bq (add_sf i) ((rho (w_sf i) wsf' - 1) * a SF_h m) +
                   bq (add_cr i) ((rho (w_cr i) wcr' - 1) * a CR_h m) +
                   bq (add_meat i) ((rho (w_meat i) wmeat' - 1) * a M_eaten m))
    | _ => a s m
    end.

Lemma waste_mono i wsf' wcr' wmeat' wscp' wcs' :
  admissible i -> caps_nonneg i ->
  waste_ok wsf' -> wsf' <= w_sf i -> waste_ok wcr' -> wcr' <= w_cr i ->
  waste_ok wmeat' -> wmeat' <= w_meat i -> waste_ok wscp' -> wscp' <= w_scp i ->
  waste_ok wcs' -> wcs' <= w_cs i ->
  Dominated i (set_wastes i wsf' wcr' wmeat' wscp' wcs').
Proof.
  intros (Hwsf & Hwcr & Hwmeat & Hwscp & Hwcs & _ & Hn & _) Hc Os Ls Oc Lc Om Lm Op Lp Ou Lu a F.
  set (i' := set_wastes i wsf' wcr' wmeat' wscp' wcs').
  set (rs := rho (w_sf i) wsf'). set (rc := rho (w_cr i) wcr'). set (rm := rho (w_meat i) wmeat').
  assert (Rs : 1 <= rs) by (apply rho_ge1; assumption).
  assert (Rc : 1 <= rc) by (apply rho_ge1; assumption).
  assert (Rm : 1 <= rm) by (apply rho_ge1; assumption).
  assert (Gs : forall x, gross wsf' * (rs * x) == gross (w_sf i) * x).
  { intros x. rewrite Qmult_assoc. unfold rs. rewrite rho_spec by assumption. reflexivity. }
  assert (Gc : forall x, gross wcr' * (rc * x) == gross (w_cr i) * x).
  { intros x. rewrite Qmult_assoc. unfold rc. rewrite rho_spec by assumption. reflexivity. }
  assert (Gm : forall x, gross wmeat' * (rm * x) == gross (w_meat i) * x).
  { intros x. rewrite Qmult_assoc. unfold rm. rewrite rho_spec by assumption. reflexivity. }
  set (a' := rewaste i wsf' wcr' wmeat' a).
  feas_destruct F.
  set (B := fun m => bq (add_sf i) ((rs - 1) * a SF_h m) + bq (add_cr i) ((rc - 1) * a CR_h m) +
                     bq (add_meat i) ((rm - 1) * a M_eaten m)).
  assert (HB : forall m, 0 <= B m).
  { intros m. unfold B.
    assert (0 <= (rs - 1) * a SF_h m) by (apply Qmult_le_0_compat; [lra | apply Hnn]).
    assert (0 <= (rc - 1) * a CR_h m) by (apply Qmult_le_0_compat; [lra | apply Hnn]).
    assert (0 <= (rm - 1) * a M_eaten m) by (apply Qmult_le_0_compat; [lra | apply Hnn]).
    pose proof (bq_nonneg (add_sf i) _ H). pose proof (bq_nonneg (add_cr i) _ H0).
    pose proof (bq_nonneg (add_meat i) _ H1). lra. }
  pose proof (kneed_pos i Hn) as HK.
  assert (HKB : forall m, 0 <= kneed i * B m) by (intros m; apply Qmult_le_0_compat; [lra | apply HB]).
  assert (EC : forall m, a' Consumed m = a Consumed m + kneed i * B m) by reflexivity.
  exists a'. split; [|unfold a', rewaste; cbn; lra].
  feas_split; [ | exact Hsw | | | | | | | ].
  - intros s m. unfold a', rewaste. pose proof (Hnn s m). specialize (HKB m).
    fold rs rc rm. fold (B m).
    destruct s; try assumption; try lra; apply Qmult_le_0_compat; try lra; apply Hnn.
  - (* crops *)
    intros Hb' m Hm. destruct (Hcr Hb' m Hm) as [H1 _]. split; [|apply pin_humans].
    assert (EQ : cr_consumed_eq i' a' m).
    { unfold cr_spec, cr_consumed_eq in *. destruct H1 as (K1 & _).
      change (a' CR_consumed m) with (a CR_consumed m). change (a' CR_h m) with (rc * a CR_h m).
      change (a' CR_f m) with (a CR_f m). change (a' CR_b m) with (a CR_b m).
      change (w_cr i') with wcr'. pose proof (Gc (a CR_h m)) as G. lra. }
    unfold cr_spec in *. split; [exact EQ|]. exact (proj2 H1).
  - (* stored food *)
    intros Hb' m Hm. destruct (Hsf Hb' m Hm) as [H1 _]. split; [|apply pin_humans].
    assert (EQ : sf_eaten_eq i a m -> sf_eaten_eq i' a' m).
    { unfold sf_eaten_eq. intros K1.
      change (a' SF_end m) with (a SF_end m). change (a' SF_start m) with (a SF_start m).
      change (a' SF_h m) with (rs * a SF_h m).
      change (a' SF_f m) with (a SF_f m). change (a' SF_b m) with (a SF_b m).
      change (w_sf i') with wsf'. pose proof (Gs (a SF_h m)) as G. lra. }
    destruct m as [|p]; unfold sf_spec in *.
    + destruct H1 as (K1 & K2). split; [exact K1 | apply EQ; exact K2].
    + change (store_years i') with (store_years i). change (NM i') with (NM i).
      destruct H1 as (K1 & K2). split; [exact K1|].
      destruct (store_years i).
      * destruct K2 as (K2 & K3). split; [apply EQ; exact K2 | exact K3].
      * destruct (Nat.ltb 12 (S p)); [|apply EQ; exact K2].
        destruct K2 as (K2 & K3 & K4).
        change (a' SF_h (S p)) with (rs * a SF_h (S p)).
        change (a' SF_f (S p)) with (a SF_f (S p)). change (a' SF_b (S p)) with (a SF_b (S p)).
        rewrite K2. repeat split; try assumption; ring.
  - (* meat *)
    intros Hb' m Hm. destruct (Hmeat Hb' m Hm) as [H1 _]. split; [|apply pin_humans].
    unfold meat_spec in *. change (store_years i') with (store_years i).
    change (w_meat i') with wmeat'. change (a' M_eaten m) with (rm * a M_eaten m).
    change (a' M_end m) with (a M_end m). change (a' M_start m) with (a M_start m).
    change (meat_total i') with (meat_total i). change (at_ (meat_running i') m) with (at_ (meat_running i) m).
    change (at_ (meat_monthly i') m) with (at_ (meat_monthly i) m).
    pose proof (Gm (a M_eaten m)) as G.
    destruct (store_years i); [|lra].
    destruct H1 as (K1 & K2 & K3 & K4). split; [|repeat split; lra].
    destruct m as [|p]; exact K1.
  - (* SCP *)
    intros Hb' m Hm. destruct (Hscp Hb' m Hm) as [H1 _]. split; [|apply pin_humans].
    unfold scp_spec in *. change (w_scp i') with wscp'.
    change (a' SCP_h m) with (a SCP_h m). change (a' SCP_f m) with (a SCP_f m). change (a' SCP_b m) with (a SCP_b m).
    change (at_ (scp_prod i') m) with (at_ (scp_prod i) m).
    pose proof (gross_mono (w_scp i) wscp' Hwscp Op Lp).
    assert (0 <= (gross (w_scp i) - gross wscp') * a SCP_h m) by (apply Qmult_le_0_compat; [lra | apply Hnn]). lra.
  - (* CS *)
    intros Hb' m Hm. destruct (Hcs Hb' m Hm) as [H1 _]. split; [|apply pin_humans].
    unfold cs_spec in *. change (w_cs i') with wcs'.
    change (a' CS_h m) with (a CS_h m). change (a' CS_f m) with (a CS_f m). change (a' CS_b m) with (a CS_b m).
    change (at_ (cs_prod i') m) with (at_ (cs_prod i) m).
    pose proof (gross_mono (w_cs i) wcs' Hwcs Ou Lu).
    assert (0 <= (gross (w_cs i) - gross wcs') * a CS_h m) by (apply Qmult_le_0_compat; [lra | apply Hnn]). lra.
  - intros m Hm. change (fb_spec i ToHumans a' m /\ cons_spec i ToHumans a' m /\ caps_spec i ToHumans a' m).
    apply (month_rows_bump i a a' (B m)); auto.
    + unfold feed_sum, a', rewaste. cbn. reflexivity.
    + unfold biofuel_sum, a', rewaste. cbn. reflexivity.
    + unfold human_sum, B, rs, rc, rm, bq, a', rewaste. sc_cbn.
      destruct (add_sf i), (add_cr i), (add_sw i), (add_meat i), (add_cs i), (add_scp i); ring.
    + rewrite EC. reflexivity.
    + unfold same_res, a', rewaste. cbn. repeat split; reflexivity.
  - apply (obj_mono i a a'); [reflexivity | | exact Hobj].
    intros m. rewrite EC. specialize (HKB m). lra.
Qed.

(* ================================================================== *)
(* 5. concrete instances: non-vacuity and the seaweed counterexamples *)
(* ================================================================== *)

(* a two-month seaweed-only instance whose farm is full (initial stock = maximum density * area)
   and doubles in month 1, so that exactly one unit must be harvested in month 1;
   people may eat at most 0.3 (intake cap 0.3 % of need0 = 100) *)
Definition sw_inst (w f1 : Q) : lp_in :=
  {| NM := 2%nat; add_sw := true; add_cr := false; add_sf := false; add_meat := false; 
     add_scp := false; add_cs := false; store_years := true; pop := 1000000; 
     kcals_monthly_pp := 100000; need := 100; w_sf := 0; w_cr := 0; w_meat := 0; w_scp := 0; 
     w_cs := 0; w_sw := w; sf0 := 0; meat_total := 0; sw_kcals := 1; sw_init := 1; sw_init_area := 1; 
     sw_min_density := 0; sw_max_density := 1; sw_harvest_loss := 0; relocated := false; 
     harvest_delay := 0%nat; cap_sw_h := 3 # 10; cap_sw_f := 100; cap_sw_b := 100; cap_scp_h := 0; 
     cap_scp_f := 0; cap_scp_b := 0; cap_cs_h := 0; cap_cs_f := 0; cap_cs_b := 0; crops_prod := []; 
     milk := [100; 100]; greenhouse := []; fish := []; scp_prod := []; cs_prod := []; 
     built_area := [1; 1]; growth := [0; 100]; feed_charge := [0; f1]; biofuel_charge := [0; 0]; 
     meat_monthly := []; meat_running := []; max_feed := []; max_biofuel := []; pin_cr := []; 
     pin_sf := []; pin_meat := []; pin_scp := []; pin_cs := []; pin_sw := [] |}.

Definition sw_tbl (h1 f1 : Q) : list entry :=
  series SW_wet [1; 1] ++ series SW_area [1; 1] ++ series SW_h [0; h1] ++ series SW_f [0; f1] ++
  series Consumed [100; 100 + h1] ++ [(Obj, 0%nat, 100)].

Lemma sw_inst_feasible_charge : Feasible (sw_inst 0 1) ToHumans (a_of (sw_tbl 0 1)).
Proof. apply feasibleb_sound. vm_compute. reflexivity. Qed.

Lemma sw_inst_feasible_waste : Feasible (sw_inst 75 0) ToHumans (a_of (sw_tbl (1 # 4) 0)).
Proof. apply feasibleb_sound. vm_compute. reflexivity. Qed.

Lemma sw_inst_admissible w f1 : waste_ok w -> admissible (sw_inst w f1).
Proof. intros H. unfold admissible, waste_ok. cbn. repeat split; try lra; apply H. Qed.

Lemma sw_inst_caps w f1 : caps_nonneg (sw_inst w f1).
Proof. unfold caps_nonneg. cbn. repeat split; lra. Qed.

(* common part: in every feasible point of sw_inst w f1 the month-1 ledger reads
   wet_1 = 2 - gross w * h_1 - f_1 - b_1 with wet_1 <= 1, h_1 <= 3/10, f_1 = f1, b_1 = 0 *)
Lemma sw_inst_facts w f1 a :
  Feasible (sw_inst w f1) ToHumans a ->
  a SW_wet 1%nat <= 1 /\
  a SW_wet 1%nat == 2 - gross w * a SW_h 1%nat - a SW_f 1%nat - a SW_b 1%nat /\
  a SW_h 1%nat <= 3 # 10 /\ a SW_f 1%nat == f1 /\ a SW_b 1%nat == 0.
Proof.
  intros F. feas_destruct F.
  destruct (Hsw eq_refl 0%nat) as [S0 _]; [cbn; lia|].
  destruct (Hsw eq_refl 1%nat) as [S1 _]; [cbn; lia|].
  destruct (Hmon 1%nat) as (M1 & _ & M3); [cbn; lia|].
  destruct S0 as (_ & W0 & _). destruct S1 as ((_ & U1 & _) & L1).
  specialize (M1 eq_refl). destruct M1 as (F1 & B1).
  destruct M3 as (C1 & _). destruct (C1 eq_refl) as ((C2 & _) & _); [reflexivity|].
  unfold sw_ledger in L1. unfold feed_sum, biofuel_sum in *.
  cbn -[Qmult Qplus Qminus Qdiv Qinv Qopp Qle Qlt Qeq gross] in *.
  assert (E1 : (3 # 10) / 100 * need0 (sw_inst w f1) == 3 # 10) by reflexivity.
  assert (E2 : 1 + 100 / 100 == 2) by reflexivity.
  assert (E3 : 0 / 100 == 0) by reflexivity.
  rewrite E1 in C2. rewrite E2, E3, W0 in L1.
  repeat split; lra.
Qed.

Lemma charge_mono_refuted_seaweed :
  exists (i : lp_in) (fc' : list Q),
    admissible i /\ caps_nonneg i /\
    (forall m, 0 <= at_ fc' m <= at_ (feed_charge i) m) /\
    (exists a, Feasible i ToHumans a) /\
    (forall a, ~ Feasible (set_charges i fc' (biofuel_charge i)) ToHumans a).
Proof.
  exists (sw_inst 0 1), [0; 1 # 2].
  split; [apply sw_inst_admissible; unfold waste_ok; lra|].
  split; [apply sw_inst_caps|].
  split; [intros [|[|[|m]]]; cbn; lra|].
  split; [exists (a_of (sw_tbl 0 1)); apply sw_inst_feasible_charge|].
  intros a F. change (set_charges (sw_inst 0 1) [0; 1 # 2] (biofuel_charge (sw_inst 0 1))) with (sw_inst 0 (1 # 2)) in F.
  destruct (sw_inst_facts _ _ _ F) as (H1 & H2 & H3 & H4 & H5).
  assert (E : gross 0 == 1) by reflexivity. rewrite E in H2. lra.
Qed.

Lemma waste_mono_refuted_seaweed :
  exists w w' : Q,
    waste_ok w /\ waste_ok w' /\ w' <= w /\
    admissible (sw_inst w 0) /\ caps_nonneg (sw_inst w 0) /\
    (exists a, Feasible (sw_inst w 0) ToHumans a) /\
    (forall a, ~ Feasible (sw_inst w' 0) ToHumans a).
Proof.
  exists 75, 0. unfold waste_ok.
  split; [lra|]. split; [lra|]. split; [lra|].
  split; [apply sw_inst_admissible; unfold waste_ok; lra|].
  split; [apply sw_inst_caps|].
  split; [exists (a_of (sw_tbl (1 # 4) 0)); apply sw_inst_feasible_waste|].
  intros a F. destruct (sw_inst_facts _ _ _ F) as (H1 & H2 & H3 & H4 & H5).
  assert (E : gross 0 == 1) by reflexivity. rewrite E in H2. lra.
Qed.

(* ---- the set of attainable objective values is scale invariant ---- *)

Lemma eval_ext a a' l : (forall s m, a s m == a' s m) -> eval a l == eval a' l.
Proof.
  intros H. induction l as [|[c [s m]] l IH]; cbn [eval]; [reflexivity|]. rewrite IH, (H s m). reflexivity.
Qed.

Lemma sat_ext a a' r : (forall s m, a s m == a' s m) -> sat a r -> sat a' r.
Proof.
  intros H. unfold sat. pose proof (eval_ext a a' (lhs r) H) as E. destruct (sns r); intros; lra.
Qed.

Lemma Feasible_ext i ty a a' : (forall s m, a s m == a' s m) -> Feasible i ty a -> Feasible i ty a'.
Proof.
  intros H [Hn Hr]. split.
  - intros s m. rewrite <- (H s m). apply Hn.
  - apply Forall_forall. intros r Hin. apply (sat_ext a a' r H). rewrite Forall_forall in Hr. apply Hr; exact Hin.
Qed.

Lemma scale_value c i :
  0 < c -> 0 < need i ->
  forall v, (exists a, Feasible i ToHumans a /\ v <= a Obj 0%nat) <->
            (exists a', Feasible (scale_in c i) ToHumans a' /\ v <= a' Obj 0%nat).
Proof.
  intros Hc Hn v. split.
  - intros (a & F & L). exists (scale_a ToHumans c a). split; [|exact L].
    apply (c12_scale_lemma c i ToHumans a Hc Hn); [intros H; discriminate H | exact F].
  - intros (a' & F & L). exists (scale_a ToHumans (/ c) a'). split; [|exact L].
    apply (c12_scale_lemma c i ToHumans _ Hc Hn); [intros H; discriminate H|].
    apply (Feasible_ext _ _ a'); [|exact F].
    intros s m. unfold scale_a. destruct s; try reflexivity; field; intro HE; lra.
Qed.

(* ---- a two-month instance with outdoor crops, stored food, meat and SCP ---- *)

Definition ex_in : lp_in :=
  {| NM := 2%nat; add_sw := false; add_cr := true; add_sf := true; add_meat := true; add_scp := true; 
     add_cs := false; store_years := true; pop := 1000000; kcals_monthly_pp := 100000; need := 100; 
     w_sf := 20; w_cr := 20; w_meat := 20; w_scp := 0; w_cs := 0; w_sw := 0; sf0 := 100; 
     meat_total := 50; sw_kcals := 1; sw_init := 0; sw_init_area := 0; sw_min_density := 0; 
     sw_max_density := 0; sw_harvest_loss := 0; relocated := false; harvest_delay := 0%nat; 
     cap_sw_h := 0; cap_sw_f := 0; cap_sw_b := 0; cap_scp_h := 50; cap_scp_f := 100; 
     cap_scp_b := 100; cap_cs_h := 0; cap_cs_f := 0; cap_cs_b := 0; crops_prod := [100; 100]; 
     milk := [5; 5]; greenhouse := []; fish := []; scp_prod := [10; 10]; cs_prod := []; 
     built_area := []; growth := []; feed_charge := [20; 20]; biofuel_charge := [10; 10]; 
     meat_monthly := []; meat_running := [25; 50]; max_feed := []; max_biofuel := []; pin_cr := []; 
     pin_sf := []; pin_meat := []; pin_scp := []; pin_cs := []; pin_sw := [] |}.

Definition ex_tbl : list entry :=
  series SF_start [100; 50] ++ series SF_end [50; 0] ++ series SF_h [40; 40] ++
  series CR_consumed [100; 100] ++ series CR_h [56; 56] ++ series CR_f [20; 20] ++ series CR_b [10; 10] ++
  series M_start [50; 30] ++ series M_end [30; 10] ++ series M_eaten [16; 16] ++
  series SCP_h [10; 10] ++ series Consumed [127; 127] ++ [(Obj, 0%nat, 127)].

Lemma ex_feasible : Feasible ex_in ToHumans (a_of ex_tbl).
Proof. apply feasibleb_sound. vm_compute. reflexivity. Qed.

Lemma ex_admissible : admissible ex_in.
Proof. unfold admissible, waste_ok. cbn. repeat split; lra. Qed.

Lemma ex_caps : caps_nonneg ex_in.
Proof. unfold caps_nonneg. cbn. repeat split; lra. Qed.

(* more of everything *)
Definition ex_more : lp_in :=
  set_supplies ex_in 110 60 [100; 120] [5; 6] [1; 1] [0; 2] [10; 15] [3] [7; 7] [1; 1] [30; 60].

Ltac at_le := let m := fresh "m" in intros m; do 3 (destruct m as [|m]; [cbn; lra|]); cbn; lra.

Lemma ex_supply_le : supply_le ex_in ex_more.
Proof.
  unfold supply_le. split; [reflexivity|]. split; [cbn; lra|]. split; [cbn; lra|].
  repeat split; at_le.
Qed.

Lemma ex_charges_le :
  (forall m, 0 <= at_ [10; 20] m <= at_ (feed_charge ex_in) m) /\
  (forall m, 0 <= at_ [10; 5] m <= at_ (biofuel_charge ex_in) m).
Proof. split; intros m; do 3 (destruct m as [|m]; [cbn; lra|]); cbn; lra. Qed.

(* a to-animals round on the same instance (all pins and ceilings 0): nothing is used *)
Definition ex_tbl_animals : list entry :=
  series SF_start [100; 100] ++ series SF_end [100; 100] ++ series CR_storage [100; 200] ++
  series M_start [50; 50] ++ series M_end [50; 50].

Lemma ex_feasible_animals : Feasible ex_in ToAnimals (a_of ex_tbl_animals).
Proof. apply feasibleb_sound. vm_compute. reflexivity. Qed.

Lemma ex_same_side : same_side 3 ex_in.
Proof. unfold same_side. cbn. split; intros; lra. Qed.

(* ================================================================== *)
(* 6. the statements used by Props/C12.v                              *)
(* ================================================================== *)

Lemma scale_humans c i a :
  0 < c -> 0 < need i ->
  (Feasible i ToHumans a <-> Feasible (scale_in c i) ToHumans (scale_a ToHumans c a)) /\
  scale_a ToHumans c a Obj 0%nat == a Obj 0%nat.
Proof.
  intros Hc Hn. split; [|reflexivity].
  apply c12_scale_lemma; auto. intros H; discriminate H.
Qed.

Lemma scale_animals c i a :
  0 < c -> 0 < need i -> same_side c i ->
  (Feasible i ToAnimals a <-> Feasible (scale_in c i) ToAnimals (scale_a ToAnimals c a)) /\
  scale_a ToAnimals c a Obj 0%nat == c * a Obj 0%nat.
Proof.
  intros Hc Hn Hs. split; [|reflexivity].
  apply c12_scale_lemma; auto.
Qed.

Lemma charge_mono_value i fc' bc' :
  admissible i -> caps_nonneg i -> add_sw i = false ->
  (forall m, 0 <= at_ fc' m <= at_ (feed_charge i) m) ->
  (forall m, 0 <= at_ bc' m <= at_ (biofuel_charge i) m) ->
  forall v, (exists a, Feasible i ToHumans a /\ v <= a Obj 0%nat) ->
            (exists a', Feasible (set_charges i fc' bc') ToHumans a' /\ v <= a' Obj 0%nat).
Proof. intros. eapply Dominated_value; [apply charge_mono; assumption | assumption]. Qed.

Lemma waste_mono_value i wsf' wcr' wmeat' wscp' wcs' :
  admissible i -> caps_nonneg i ->
  waste_ok wsf' -> wsf' <= w_sf i -> waste_ok wcr' -> wcr' <= w_cr i ->
  waste_ok wmeat' -> wmeat' <= w_meat i -> waste_ok wscp' -> wscp' <= w_scp i ->
  waste_ok wcs' -> wcs' <= w_cs i ->
  forall v, (exists a, Feasible i ToHumans a /\ v <= a Obj 0%nat) ->
            (exists a', Feasible (set_wastes i wsf' wcr' wmeat' wscp' wcs') ToHumans a' /\ v <= a' Obj 0%nat).
Proof. intros. eapply Dominated_value; [apply waste_mono; assumption | assumption]. Qed.

(* non-vacuity: the hypotheses of the four results hold together on a concrete instance
   that has a feasible point, with strict changes *)
Lemma scale_nonvacuous :
  exists c i a, 0 < c /\ ~ c == 1 /\ 0 < need i /\ Feasible i ToHumans a /\ 0 < a Obj 0%nat.
Proof.
  exists 3, ex_in, (a_of ex_tbl). split; [lra|]. split; [intro H; lra|]. split; [cbn; lra|].
  split; [apply ex_feasible | vm_compute; reflexivity].
Qed.

Lemma scale_animals_nonvacuous :
  exists c i a, 0 < c /\ ~ c == 1 /\ 0 < need i /\ same_side c i /\ Feasible i ToAnimals a.
Proof.
  exists 3, ex_in, (a_of ex_tbl_animals). split; [lra|]. split; [intro H; lra|]. split; [cbn; lra|].
  split; [apply ex_same_side | apply ex_feasible_animals].
Qed.

Lemma supply_nonvacuous :
  exists i i' a, admissible i /\ caps_nonneg i /\ 0 <= sw_max_density i /\ supply_le i i' /\
                 sf0 i < sf0 i' /\ at_ (crops_prod i) 1 < at_ (crops_prod i') 1 /\
                 meat_total i < meat_total i' /\ Feasible i ToHumans a.
Proof.
  exists ex_in, ex_more, (a_of ex_tbl).
  split; [apply ex_admissible|]. split; [apply ex_caps|]. split; [cbn; lra|].
  split; [apply ex_supply_le|]. split; [cbn; lra|]. split; [cbn; lra|]. split; [cbn; lra|].
  apply ex_feasible.
Qed.

Lemma charge_nonvacuous :
  exists i fc' bc' a, admissible i /\ caps_nonneg i /\ add_sw i = false /\
    (forall m, 0 <= at_ fc' m <= at_ (feed_charge i) m) /\
    (forall m, 0 <= at_ bc' m <= at_ (biofuel_charge i) m) /\
    at_ fc' 0 < at_ (feed_charge i) 0 /\ at_ bc' 1 < at_ (biofuel_charge i) 1 /\
    Feasible i ToHumans a.
Proof.
  exists ex_in, [10; 20], [10; 5], (a_of ex_tbl).
  split; [apply ex_admissible|]. split; [apply ex_caps|]. split; [reflexivity|].
  split; [apply ex_charges_le|]. split; [apply ex_charges_le|]. split; [cbn; lra|]. split; [cbn; lra|].
  apply ex_feasible.
Qed.

Lemma waste_nonvacuous :
  exists i wsf' wcr' wmeat' wscp' wcs' a, admissible i /\ caps_nonneg i /\
    waste_ok wsf' /\ wsf' < w_sf i /\ waste_ok wcr' /\ wcr' < w_cr i /\
    waste_ok wmeat' /\ wmeat' <= w_meat i /\ waste_ok wscp' /\ wscp' <= w_scp i /\
    waste_ok wcs' /\ wcs' <= w_cs i /\ Feasible i ToHumans a.
Proof.
  exists ex_in, 10, 15, 20, 0, 0, (a_of ex_tbl). unfold waste_ok.
  split; [apply ex_admissible|]. split; [apply ex_caps|]. cbn.
  repeat (split; [lra|]). apply ex_feasible.
Qed.
