(* placeholder *)
