(* Proofs/Aggregate.v : lemmas about Model/Aggregate.v (C15) *)
From Coq Require Import ZArith QArith Qminmax List String Ascii Bool Lia Lqa.
From Allfed Require Import Base.StrUtil Model.Tables Model.Aggregate.
Import ListNotations.
Open Scope Q_scope.
Open Scope string_scope.

(* ------------------------------------------------------------------ small facts *)

Lemma str_mem_In s l : str_mem s l = true <-> In s l.
Proof.
  unfold str_mem. rewrite existsb_exists. split.
  - intros [x [Hin He]]. apply String.eqb_eq in He. subst; auto.
  - intro H; exists s; split; auto. apply String.eqb_refl.
Qed.

Lemma str_mem_false s l : str_mem s l = false <-> ~ In s l.
Proof.
  rewrite <- str_mem_In. destruct (str_mem s l); split; intro H; try congruence; try discriminate;
    try (exfalso; apply H; reflexivity).
Qed.

Lemma nodup_b_sound l : nodup_b l = true -> NoDup l.
Proof.
  induction l as [|x l IH]; simpl; intro H; [constructor|].
  apply andb_true_iff in H as [H1 H2]. constructor; auto.
  apply negb_true_iff in H1. now apply str_mem_false.
Qed.

Lemma filter_all {A} (f : A -> bool) l : forallb f l = true -> filter f l = l.
Proof.
  induction l as [|x l IH]; simpl; auto. intro H. apply andb_true_iff in H as [H1 H2].
  rewrite H1, IH; auto.
Qed.

Lemma filter_neg_nonempty {A} (f : A -> bool) l :
  forallb f l = false -> filter (fun x => negb (f x)) l <> [].
Proof.
  induction l as [|x l IH]; simpl; [discriminate|].
  destruct (f x) eqn:E; simpl; auto. discriminate.
Qed.

(* ------------------------------------------------------------------ selection *)

Lemma selected_nil c : selected [] c = true.
Proof. reflexivity. Qed.

Lemma selected_exclusion l c :
  l <> [] -> forallb has_bang l = true ->
  selected l c = negb (str_mem c (map strip_bang l)).
Proof.
  intros Hne Hall. unfold selected, get_run_skip. destruct l as [|x l]; [congruence|].
  rewrite Hall, (filter_all _ _ Hall). reflexivity.
Qed.

Lemma selected_inclusion l c :
  forallb has_bang l = false ->
  selected l c = str_mem c (filter (fun c => negb (has_bang c)) l).
Proof.
  intro Hf. unfold selected, get_run_skip. destruct l as [|x l]; [discriminate|].
  rewrite Hf. pose proof (filter_neg_nonempty _ _ Hf) as Hne.
  destruct (filter (fun c0 => negb (has_bang c0)) (x :: l)) as [|y ys] eqn:E; [congruence|].
  unfold selected_rs. simpl str_mem at 2. rewrite andb_true_r. reflexivity.
Qed.

(* "!" in front of a bang-free code *)
Lemma contains_bang_cons a s :
  contains "!" (String a s) = (if ascii_dec "!"%char a then true else contains "!" s).
Proof. cbn [contains prefix]. destruct (ascii_dec "!"%char a); [destruct s; reflexivity|reflexivity]. Qed.

Lemma replace_nobang fuel : forall s,
  contains "!" s = false -> (String.length s < fuel)%nat -> replace_all_fuel fuel "!" "" s = s.
Proof.
  induction fuel as [|fuel IH]; intros s Hc Hl; [lia|].
  destruct s as [|a s]; [reflexivity|].
  rewrite contains_bang_cons in Hc.
  cbn [replace_all_fuel prefix]. destruct (ascii_dec "!"%char a); [discriminate|].
  f_equal. apply IH; auto. simpl in Hl. lia.
Qed.

Lemma has_bang_prefixed c : has_bang ("!" ++ c) = true.
Proof.
  unfold has_bang. change ("!" ++ c) with (String "!"%char c). rewrite contains_bang_cons.
  destruct (ascii_dec "!"%char "!"%char); [reflexivity|congruence].
Qed.

Lemma replace_step_bang fuel s :
  replace_all_fuel (S fuel) "!" "" (String "!"%char s) = replace_all_fuel fuel "!" "" s.
Proof.
  cbn [replace_all_fuel prefix]. destruct (ascii_dec "!"%char "!"%char); [|congruence].
  destruct s; reflexivity.
Qed.

Lemma strip_bang_prefixed c : has_bang c = false -> strip_bang ("!" ++ c) = c.
Proof.
  intro H. unfold strip_bang, replace_all.
  change ("!" ++ c) with (String "!"%char c).
  rewrite replace_step_bang. apply replace_nobang; auto.
Qed.

Lemma strip_bang_nobang c : has_bang c = false -> strip_bang c = c.
Proof. intro H. unfold strip_bang, replace_all. apply replace_nobang; auto. Qed.

Definition no_bang (c : string) : Prop := has_bang c = false.

Lemma strip_map cs : Forall no_bang cs -> map strip_bang (map (append "!") cs) = cs.
Proof.
  induction 1 as [|x l Hx Hl IH]; [reflexivity|]. cbn [map].
  rewrite strip_bang_prefixed by exact Hx. rewrite IH. reflexivity.
Qed.

Lemma all_banged cs : forallb has_bang (map (append "!") cs) = true.
Proof.
  induction cs as [|x l IH]; [reflexivity|]. cbn [map forallb].
  rewrite has_bang_prefixed, IH. reflexivity.
Qed.

(* the documented syntax: every entry "!"-prefixed -> everything except the named codes *)
Lemma selected_exclusion_syntax cs c :
  cs <> [] -> Forall no_bang cs ->
  selected (map (append "!") cs) c = negb (str_mem c cs).
Proof.
  intros Hne Hnb. rewrite selected_exclusion.
  - rewrite strip_map by exact Hnb. reflexivity.
  - destruct cs; [congruence|discriminate].
  - apply all_banged.
Qed.

(* no entry carries a "!" -> exactly the named codes *)
Lemma selected_inclusion_syntax cs c :
  cs <> [] -> Forall no_bang cs -> selected cs c = str_mem c cs.
Proof.
  intros Hne Hnb. assert (Hf : filter (fun c => negb (has_bang c)) cs = cs).
  { apply filter_all. apply forallb_forall. intros x Hx. rewrite Forall_forall in Hnb.
    rewrite (Hnb x Hx). reflexivity. }
  rewrite selected_inclusion, Hf; auto.
  destruct cs as [|x l]; [congruence|]. simpl. inversion Hnb; subst.
  unfold no_bang in *. rewrite H1. reflexivity.
Qed.

(* mixed: the plain entries are run, the "!" entries are ignored *)
Lemma selected_mixed plain banged l c :
  plain <> [] -> Forall no_bang plain -> Forall (fun x => has_bang x = true) banged ->
  filter (fun c => negb (has_bang c)) l = plain -> forallb has_bang l = false ->
  selected l c = str_mem c plain.
Proof. intros _ _ _ Hf Hb. rewrite selected_inclusion, Hf; auto. Qed.

(* ------------------------------------------------------------------ custom parameters *)

Lemma iso3_set_cell k v r : iso3 (set_cell k v r) = iso3 r.
Proof. reflexivity. Qed.

Lemma iso3_apply_custom opts : forall r, iso3 (apply_custom opts r) = iso3 r.
Proof.
  unfold apply_custom. induction opts as [|kv opts IH]; intro r; simpl; auto.
  rewrite IH. destruct (has_col r (fst kv)); reflexivity.
Qed.

Lemma agg_step_custom rs opts frac ret a r :
  agg_step rs opts frac ret a r = agg_step rs [] frac ret a (apply_custom opts r).
Proof.
  unfold agg_step.
  change (apply_custom [] (apply_custom opts r)) with (apply_custom opts r).
  rewrite !iso3_apply_custom. reflexivity.
Qed.

Lemma agg_loop_custom rs opts frac ret rows : forall a,
  agg_loop rs opts frac ret rows a = agg_loop rs [] frac ret (map (apply_custom opts) rows) a.
Proof.
  induction rows as [|r rows IH]; intro a; simpl; auto.
  rewrite agg_step_custom. destruct (agg_step rs [] frac ret a (apply_custom opts r)); auto.
Qed.

(* ------------------------------------------------------------------ the loop *)

Lemma cap_min f : cap f == Qmin 1 f.
Proof.
  unfold cap. destruct (Qle_bool 1 f) eqn:E.
  - apply Qle_bool_iff in E. symmetry. apply Q.min_l; auto.
  - assert (H : ~ 1 <= f) by (intro H; apply Qle_bool_iff in H; congruence).
    symmetry. apply Q.min_r. lra.
Qed.

(* rows that contribute: selected, population not NaN, fraction not NaN *)
Definition counted (rs : list string * list string) (frac : string -> option Q) (r : row) : bool :=
  selected_rs rs (iso3 r)
  && (match getq r "population" with Some _ => true | None => false end)
  && (match frac (iso3 r) with Some _ => true | None => false end).

Lemma sum_pop_cons r rows : sum_pop (r :: rows) = pop_of r + sum_pop rows.
Proof. reflexivity. Qed.
Lemma sum_fed_cons frac r rows :
  sum_fed frac (r :: rows) = pop_of r * Qmin 1 (opt0 (frac (iso3 r))) + sum_fed frac rows.
Proof. reflexivity. Qed.

Lemma agg_loop_ok rs frac ret rows : forall a0,
  (forall r, In r rows -> selected_rs rs (iso3 r) = true -> verify_ok r = true) ->
  exists a, agg_loop rs [] frac ret rows a0 = AggOk a /\
    net_pop a == net_pop a0 + sum_pop (filter (counted rs frac) rows) /\
    net_fed a == net_fed a0 + sum_fed frac (filter (counted rs frac) rows) /\
    (ret = true -> NoDup (keys a0 ++ map cname (filter (counted rs frac) rows))%list ->
     keys a = (keys a0 ++ map cname (filter (counted rs frac) rows))%list) /\
    (ret = false -> keys a = keys a0).
Proof.
  induction rows as [|r rows IH]; intros a0 Hv.
  - exists a0. simpl. repeat split; try lra; intros; now rewrite ?app_nil_r.
  - assert (Hv' : forall r0, In r0 rows -> selected_rs rs (iso3 r0) = true -> verify_ok r0 = true)
      by (intros; apply Hv; simpl; auto).
    cbn [agg_loop filter]. unfold agg_step. cbn [apply_custom fold_left].
    destruct (selected_rs rs (iso3 r)) eqn:Es; cbn [negb].
    + rewrite (Hv r (or_introl eq_refl) Es). cbn [negb].
      destruct (getq r "population") as [pop|] eqn:Ep.
      * destruct (frac (iso3 r)) as [f|] eqn:Ef.
        -- assert (Ec : counted rs frac r = true) by (unfold counted; rewrite Es, Ep, Ef; reflexivity).
           rewrite Ec.
           match goal with |- context [agg_loop _ _ _ _ rows ?A] => destruct (IH A Hv') as [a [H1 [H2 [H3 [H4 H5]]]]] end.
           exists a. cbn [net_pop net_fed keys] in *. split; [exact H1|].
           rewrite sum_pop_cons, sum_fed_cons. cbn [map]. unfold pop_of at 1 2. rewrite Ep, Ef. cbn [opt0].
           split; [rewrite H2; ring|]. split; [rewrite H3, cap_min; ring|]. split.
           ++ intros Hr Hnd. subst ret. unfold dict_add in H4.
              assert (Hni : str_mem (cname r) (keys a0) = false).
              { apply str_mem_false. intro Hin. apply NoDup_remove_2 in Hnd. apply Hnd.
                apply in_or_app; left; exact Hin. }
              rewrite Hni in H4. rewrite H4; auto.
              ** rewrite <- app_assoc. reflexivity.
              ** rewrite <- app_assoc. exact Hnd.
           ++ intros Hr. subst ret. apply H5; reflexivity.
        -- assert (Ec : counted rs frac r = false) by (unfold counted; rewrite Es, Ep, Ef; reflexivity).
           rewrite Ec.
           match goal with |- context [agg_loop _ _ _ _ rows ?A] => destruct (IH A Hv') as [a [H1 [H2 [H3 [H4 H5]]]]] end.
           exists a. cbn [net_pop net_fed keys] in *. auto.
      * assert (Ec : counted rs frac r = false) by (unfold counted; rewrite Es, Ep; reflexivity).
        rewrite Ec. destruct (IH a0 Hv') as [a [H1 [H2 [H3 [H4 H5]]]]]. exists a. auto.
    + assert (Ec : counted rs frac r = false) by (unfold counted; rewrite Es; reflexivity).
      rewrite Ec. destruct (IH a0 Hv') as [a [H1 [H2 [H3 [H4 H5]]]]]. exists a. auto.
Qed.

(* rejection: a selected row that fails verify_country_data aborts the run *)
Lemma agg_loop_rejects rs frac ret rows : forall a0,
  existsb (fun r => selected_rs rs (iso3 r) && negb (verify_ok r)) rows = true ->
  agg_loop rs [] frac ret rows a0 = AggRejected.
Proof.
  induction rows as [|r rows IH]; intros a0 H; [discriminate|].
  cbn [agg_loop]. unfold agg_step. cbn [apply_custom fold_left].
  cbn [existsb] in H. destruct (selected_rs rs (iso3 r)) eqn:Es; cbn [negb andb] in *.
  - destruct (verify_ok r) eqn:Ev; cbn [negb orb] in *; [|reflexivity].
    destruct (getq r "population"); [destruct (frac (iso3 r))|]; apply IH; exact H.
  - apply IH; exact H.
Qed.

(* ------------------------------------------------------------------ range *)

Lemma sums_range frac rows :
  (forall r, In r rows -> 0 <= pop_of r) ->
  (forall r, In r rows -> 0 <= opt0 (frac (iso3 r))) ->
  0 <= sum_fed frac rows /\ sum_fed frac rows <= sum_pop rows.
Proof.
  induction rows as [|r rows IH]; intros Hp Hf; simpl; [lra|].
  destruct IH as [I1 I2]; [intros; apply Hp; simpl; auto|intros; apply Hf; simpl; auto|].
  assert (P : 0 <= pop_of r) by (apply Hp; simpl; auto).
  assert (F : 0 <= opt0 (frac (iso3 r))) by (apply Hf; simpl; auto).
  set (m := Qmin 1 (opt0 (frac (iso3 r)))).
  assert (M1 : m <= 1) by apply Q.le_min_l.
  assert (M0 : 0 <= m) by (apply Q.min_glb; lra).
  split; nra.
Qed.

Lemma ratio_range a b : 0 <= a -> a <= b -> 0 < b -> 0 <= a / b /\ a / b <= 1.
Proof.
  intros Ha Hab Hb. split.
  - apply Qle_shift_div_l; lra.
  - apply Qle_shift_div_r; lra.
Qed.

Lemma sum_pop_pos rows :
  (forall r, In r rows -> 0 < pop_of r) -> rows <> [] -> 0 < sum_pop rows.
Proof.
  induction rows as [|r rows IH]; intros Hp Hne; [congruence|]. simpl.
  assert (0 < pop_of r) by (apply Hp; simpl; auto).
  destruct rows as [|r' rows']; [simpl; lra|].
  assert (0 < sum_pop (r' :: rows')) by (apply IH; [intros; apply Hp; simpl; auto|discriminate]). lra.
Qed.

(* ------------------------------------------------------------------ each once *)

Lemma NoDup_map_filter {A B} (f : A -> B) (p : A -> bool) l : NoDup (map f l) -> NoDup (map f (filter p l)).
Proof.
  induction l as [|x l IH]; simpl; intro H; [constructor|].
  inversion H; subst. destruct (p x); simpl; auto. constructor; auto.
  intro Hin. apply H2. apply in_map_iff in Hin as [y [Hy Hin]]. apply filter_In in Hin as [Hin _].
  apply in_map_iff. exists y; auto.
Qed.

Lemma count_once (codes : list string) c : NoDup codes -> In c codes -> count_occ string_dec codes c = 1%nat.
Proof. intros Hn Hi. apply NoDup_count_occ'; auto. Qed.

(* ------------------------------------------------------------------ whole run *)

Lemma run_rejects_no_scenario opts l frac ret rows : run_no_trade 0 opts l frac ret rows = AggRejected.
Proof. reflexivity. Qed.

Lemma run_no_trade_value n opts l frac ret rows :
  n <> 0%nat ->
  (forall r, In r rows -> selected l (iso3 r) = true -> verify_ok (apply_custom opts r) = true) ->
  let cnt := filter (counted (get_run_skip l) frac) (map (apply_custom opts) rows) in
  exists a, run_no_trade n opts l frac ret rows = AggOk a /\
    net_pop a == sum_pop cnt /\ net_fed a == sum_fed frac cnt /\
    (ret = true -> NoDup (map cname cnt) -> keys a = map cname cnt) /\
    (ret = false -> keys a = []).
Proof.
  intros Hn Hv cnt. unfold run_no_trade.
  destruct (Nat.eqb_spec n 0) as [->|_]; [congruence|].
  rewrite agg_loop_custom.
  destruct (agg_loop_ok (get_run_skip l) frac ret (map (apply_custom opts) rows) acc0) as [a [H1 [H2 [H3 [H4 H5]]]]].
  - intros r' Hin Hs. apply in_map_iff in Hin as [r [<- Hin]].
    rewrite iso3_apply_custom in Hs. apply Hv; auto.
  - exists a. cbn [acc0 net_pop net_fed keys] in *. fold cnt in H2, H3, H4.
    split; [exact H1|]. split; [rewrite H2; ring|]. split; [rewrite H3; ring|]. split; auto.
Qed.

(* a selected row rejected by verify_country_data aborts the whole run; in particular a NaN population is
   rejected there, BEFORE the code's own `if np.isnan(population): continue` is reached *)
Lemma run_rejects n l frac ret rows :
  existsb (fun r => selected l (iso3 r) && negb (verify_ok r)) rows = true ->
  run_no_trade n [] l frac ret rows = AggRejected.
Proof.
  intro H. unfold run_no_trade. destruct (Nat.eqb n 0); [reflexivity|].
  apply agg_loop_rejects. exact H.
Qed.

Lemma verify_ok_nan_population r : getq r "population" = None -> verify_ok r = false.
Proof.
  intro H. unfold verify_ok. unfold verify_bounds. cbn [forallb]. unfold bound_ok at 1. rewrite H. reflexivity.
Qed.

Lemma aggregate_range frac a cnt :
  net_pop a == sum_pop cnt -> net_fed a == sum_fed frac cnt ->
  (forall r, In r cnt -> 0 <= pop_of r) -> (forall r, In r cnt -> 0 <= opt0 (frac (iso3 r))) ->
  0 < sum_pop cnt -> 0 <= aggregate a /\ aggregate a <= 1.
Proof.
  intros H1 H2 Hp Hf Hpos. unfold aggregate. rewrite H1, H2.
  destruct (sums_range frac cnt Hp Hf). apply ratio_range; auto.
Qed.

(* a table all of whose rows pass verify_country_data and have a positive population *)
Definition pos_pop (r : row) : bool :=
  match getq r "population" with Some p => Qlt_b 0 p | None => false end.
Definition rows_fine (rows : list row) : bool := forallb (fun r => verify_ok r && pos_pop r) rows.

Lemma pos_pop_spec r : pos_pop r = true -> exists p, getq r "population" = Some p /\ 0 < p.
Proof.
  unfold pos_pop. destruct (getq r "population") as [p|]; [|discriminate]. intro H. exists p; split; auto.
  unfold Qlt_b in H. apply negb_true_iff in H. destruct (Qlt_le_dec 0 p) as [L|L]; auto.
  apply Qle_bool_iff in L. congruence.
Qed.

Lemma map_apply_custom_nil rows : map (apply_custom []) rows = rows.
Proof. induction rows as [|r rows IH]; simpl; [|rewrite IH]; reflexivity. Qed.

Theorem run_fine_table n l frac rows :
  n <> 0%nat -> rows_fine rows = true -> NoDup (map cname rows) ->
  (forall c, exists f, frac c = Some f /\ 0 <= f) ->
  exists a, run_no_trade n [] l frac true rows = AggOk a /\
    net_pop a == sum_pop (sel_rows l rows) /\
    net_fed a == sum_fed frac (sel_rows l rows) /\
    keys a = map cname (sel_rows l rows) /\ NoDup (keys a) /\
    (sel_rows l rows <> [] -> 0 < net_pop a /\ 0 <= aggregate a /\ aggregate a <= 1).
Proof.
  intros Hn Hfine Hnd Hfr. unfold rows_fine in Hfine. rewrite forallb_forall in Hfine.
  destruct (run_no_trade_value n [] l frac true rows Hn) as [a [H1 [H2 [H3 [H4 _]]]]].
  - intros r Hin _. specialize (Hfine r Hin). apply andb_true_iff in Hfine as [Hv _]. exact Hv.
  - rewrite map_apply_custom_nil in *.
    assert (Heq : filter (counted (get_run_skip l) frac) rows = sel_rows l rows).
    { unfold sel_rows. apply filter_ext_in. intros r Hin. specialize (Hfine r Hin).
      apply andb_true_iff in Hfine as [_ Hp]. apply pos_pop_spec in Hp as [p [Hp _]].
      destruct (Hfr (iso3 r)) as [f [Hf _]]. unfold counted, selected. rewrite Hp, Hf.
      rewrite !andb_true_r. reflexivity. }
    rewrite Heq in *. clear Heq.
    assert (Hnd' : NoDup (map cname (sel_rows l rows))) by (apply NoDup_map_filter; exact Hnd).
    exists a. split; [exact H1|]. split; [exact H2|]. split; [exact H3|].
    specialize (H4 eq_refl Hnd'). split; [exact H4|]. split; [rewrite H4; exact Hnd'|].
    intro Hne.
    assert (Hpp : forall r, In r (sel_rows l rows) -> 0 < pop_of r).
    { intros r Hin. apply filter_In in Hin as [Hin _]. specialize (Hfine r Hin).
      apply andb_true_iff in Hfine as [_ Hp]. apply pos_pop_spec in Hp as [p [Hp Hpos]].
      unfold pop_of. rewrite Hp. exact Hpos. }
    assert (Hpos : 0 < sum_pop (sel_rows l rows)) by (apply sum_pop_pos; auto).
    split; [rewrite H2; exact Hpos|].
    apply (aggregate_range frac a (sel_rows l rows)); auto.
    + intros r Hin. apply Qlt_le_weak. apply Hpp; auto.
    + intros r _. destruct (Hfr (iso3 r)) as [f [Hf Hf0]]. rewrite Hf. exact Hf0.
Qed.

(* each selected code of a duplicate-free table is one row of the selection *)
Lemma sel_rows_once l rows c :
  NoDup (map iso3 rows) -> In c (map iso3 rows) -> selected l c = true ->
  exists r, In r (sel_rows l rows) /\ iso3 r = c /\
            forall r', In r' (sel_rows l rows) -> iso3 r' = c -> r' = r.
Proof.
  intros Hnd Hin Hs. apply in_map_iff in Hin as [r [Hc Hin]]. exists r. split.
  - unfold sel_rows. apply filter_In. rewrite Hc. auto.
  - split; auto. intros r' Hin' Hc'. apply filter_In in Hin' as [Hin' _].
    clear Hs. induction rows as [|x rows IH]; [contradiction|].
    simpl in Hnd. inversion Hnd as [|? ? Hni Hnd']; subst.
    destruct Hin as [->|Hin], Hin' as [->|Hin']; auto.
    + exfalso. apply Hni. apply in_map_iff. exists r'; auto.
    + exfalso. apply Hni. apply in_map_iff. exists r; split; auto.
Qed.
