(* Proofs/Tables.v : lemmas about Model/Tables.v (C17; row_ok is reused by C16) *)
From Coq Require Import ZArith QArith Qminmax List String Bool Lia Lqa.
From Allfed Require Import Base.StrUtil Model.Tables.
Import ListNotations.
Open Scope Q_scope.
Open Scope string_scope.

(* ------------------------------------------------------------------ comparisons *)

Lemma Qlt_b_true x y : Qlt_b x y = true <-> x < y.
Proof.
  unfold Qlt_b. rewrite negb_true_iff. split; intro H.
  - destruct (Qlt_le_dec x y) as [L|L]; auto. apply Qle_bool_iff in L. congruence.
  - destruct (Qle_bool y x) eqn:E; auto. apply Qle_bool_iff in E. lra.
Qed.

Lemma Qlt_b_false x y : Qlt_b x y = false <-> y <= x.
Proof.
  unfold Qlt_b. rewrite negb_false_iff. apply Qle_bool_iff.
Qed.

Lemma o_le_some a v : o_le (Some a) v = true -> exists x, v = Some x /\ a <= x.
Proof. destruct v as [x|]; simpl; [|discriminate]. intro H. exists x. split; auto. now apply Qle_bool_iff. Qed.

Lemma o_le_some_r v b : o_le v (Some b) = true -> exists x, v = Some x /\ x <= b.
Proof. destruct v as [x|]; simpl; [|discriminate]. intro H. exists x. split; auto. now apply Qle_bool_iff. Qed.

Lemma o_lt_some a v : o_lt (Some a) v = true -> exists x, v = Some x /\ a < x.
Proof. destruct v as [x|]; simpl; [|discriminate]. intro H. exists x. split; auto. now apply Qlt_b_true. Qed.

(* ------------------------------------------------------------------ what row_ok means *)

(* the property of one cell, by column class *)
Definition cell_prop (c : string) (x : Q) : Prop :=
  if prefix "crop_reduction_year" c then -1 - eps8 < x
  else if prefix "grasses_reduction_year" c then -1 <= x
  else if is_fraction c then 0 <= x /\ x <= 1
  else 0 <= x.

Lemma cell_extra_ok_spec c v : cell_extra_ok (c, v) = true -> exists x, v = Some x /\ cell_prop c x.
Proof.
  unfold cell_extra_ok, cell_prop.
  destruct (prefix "crop_reduction_year" c).
  - intro H. apply o_lt_some in H. exact H.
  - destruct (prefix "grasses_reduction_year" c).
    + intro H. apply o_le_some in H. exact H.
    + destruct (is_fraction c).
      * intro H. apply andb_true_iff in H as [H1 H2].
        apply o_le_some in H1 as [x [-> Hx]]. apply o_le_some_r in H2 as [y [Hy Hy1]].
        inversion Hy; subst. exists y; auto.
      * intro H. apply o_le_some in H. exact H.
Qed.

(* no cell is missing; every cell satisfies the clause of its class; the seasonality shares sum to 1 within 1e-9 *)
Lemma row_ok_spec r : row_ok r = true ->
  (forall c v, In (c, v) (cells r) -> exists x, v = Some x /\ cell_prop c x) /\
  (exists s, seasonality_sum r = Some s /\ - seas_tol <= s - 1 /\ s - 1 <= seas_tol) /\
  verify_ok r = true.
Proof.
  unfold row_ok. intro H. apply andb_true_iff in H as [H Hex]. apply andb_true_iff in H as [_ Hv].
  unfold extra_ok in Hex. apply andb_true_iff in Hex as [Hc Hs]. split; [|split; [|exact Hv]].
  - intros c v Hin. rewrite forallb_forall in Hc. apply (cell_extra_ok_spec c v). apply (Hc (c, v) Hin).
  - apply o_le_some_r in Hs as [a [Ha Hle]].
    destruct (seasonality_sum r) as [s|]; [|discriminate]. exists s. split; auto.
    simpl in Ha. inversion Ha; subst a. clear Ha.
    destruct (Qle_bool 0 (s + -1)) eqn:E.
    + apply Qle_bool_iff in E. lra.
    + assert (~ 0 <= s + -1) by (intro X; apply Qle_bool_iff in X; congruence). lra.
Qed.

Lemma table_ok_rows cols raws :
  table_ok cols raws = true -> forall r, In r raws -> row_ok (decode_row cols r) = true.
Proof.
  unfold table_ok. intro H. apply andb_true_iff in H as [_ H]. rewrite forallb_forall in H. exact H.
Qed.

Lemma str_mem_In' s l : str_mem s l = true <-> In s l.
Proof.
  unfold str_mem. rewrite existsb_exists. split.
  - intros [x [Hin He]]. apply String.eqb_eq in He. subst; auto.
  - intro H; exists s; split; auto. apply String.eqb_refl.
Qed.

Lemma nodup_b_NoDup l : nodup_b l = true -> NoDup l.
Proof.
  induction l as [|x l IH]; simpl; intro H; [constructor|].
  apply andb_true_iff in H as [H1 H2]. constructor; auto.
  apply negb_true_iff in H1. intro Hin. apply str_mem_In' in Hin. congruence.
Qed.

Lemma same_set_b_spec a b : same_set_b a b = true -> forall x, In x a <-> In x b.
Proof.
  unfold same_set_b. intro H. apply andb_true_iff in H as [H1 H2].
  rewrite forallb_forall in H1, H2. intro x. split; intro Hin.
  - apply str_mem_In'. auto.
  - apply str_mem_In'. auto.
Qed.

(* ------------------------------------------------------------------ weighted_average_percentages *)

Definition vsum_pw (vp : list (Q * Q)) : Q := fold_right (fun pw s => fst pw * snd pw + s) 0 vp.
Definition vsum_w (vp : list (Q * Q)) : Q := fold_right (fun pw s => snd pw + s) 0 vp.
Definition sumr (l : list Q) : Q := fold_right Qplus 0 l.

Lemma qsum_sumr_gen l : forall a, fold_left Qplus l a == a + sumr l.
Proof.
  induction l as [|x l IH]; intro a; simpl; [ring|]. rewrite IH. ring.
Qed.
Lemma qsum_sumr l : qsum l == sumr l.
Proof. unfold qsum. rewrite qsum_sumr_gen. ring. Qed.

(* loop invariant *)
Lemma wloop_inv ps : forall ws n mean rej nrej n' mean' rej' nrej',
  List.length ps = List.length ws ->
  wloop ps ws (n, mean, rej, nrej) = Some (n', mean', rej', nrej') ->
  n' = (n + List.length (valid_pairs ps ws))%nat /\
  mean' == mean + vsum_pw (valid_pairs ps ws) /\
  nrej' == nrej + vsum_w (valid_pairs ps ws) /\
  rej' + nrej' == rej + nrej + sumr ws /\
  Forall (fun pw => 0 <= snd pw) (valid_pairs ps ws) /\
  Forall (fun w => 0 <= w) ws.
Proof.
  induction ps as [|p ps IH]; intros ws n mean rej nrej n' mean' rej' nrej' Hl H.
  - destruct ws; [|discriminate]. simpl in H. inversion H; subst. simpl.
    repeat split; try lia; try ring; constructor.
  - destruct ws as [|w ws]; [discriminate|]. simpl in Hl. injection Hl as Hl.
    cbn [wloop] in H. destruct (Qle_bool 0 w && Qle_bool w 1) eqn:Ew; [|discriminate].
    apply andb_true_iff in Ew as [Ew0 Ew1]. apply Qle_bool_iff in Ew0.
    cbn [valid_pairs]. destruct (impossible p) eqn:Ei.
    + destruct (IH _ _ _ _ _ _ _ _ _ Hl H) as [I1 [I2 [I3 [I4 [I5 I6]]]]].
      repeat split; auto.
      * rewrite I4. simpl. ring.
    + destruct (IH _ _ _ _ _ _ _ _ _ Hl H) as [I1 [I2 [I3 [I4 [I5 I6]]]]].
      repeat split.
      * simpl. lia.
      * rewrite I2. simpl. ring.
      * rewrite I3. simpl. ring.
      * rewrite I4. simpl. ring.
      * constructor; auto.
      * constructor; auto.
Qed.

(* a weighted sum with non-negative weights lies between lo * W and hi * W *)
Lemma vsum_bounds lo hi vp :
  Forall (fun pw => 0 <= snd pw) vp -> (forall pw, In pw vp -> lo <= fst pw /\ fst pw <= hi) ->
  lo * vsum_w vp <= vsum_pw vp /\ vsum_pw vp <= hi * vsum_w vp.
Proof.
  induction vp as [|[p w] vp IH]; intros Hw Hr; simpl; [lra|].
  inversion Hw; subst. simpl in *. destruct IH as [I1 I2]; auto.
  destruct (Hr (p, w) (or_introl eq_refl)) as [R1 R2]. simpl in *. split; nra.
Qed.

Lemma valid_pairs_In ps : forall ws p w, In (p, w) (valid_pairs ps ws) -> In p ps /\ impossible p = false.
Proof.
  induction ps as [|p0 ps IH]; intros ws p w H; [destruct ws; contradiction|].
  destruct ws as [|w0 ws]; [contradiction|]. cbn [valid_pairs] in H.
  destruct (impossible p0) eqn:E.
  - destruct (IH _ _ _ H). split; auto. right; auto.
  - destruct H as [H|H].
    + inversion H; subst. split; auto. left; auto.
    + destruct (IH _ _ _ H). split; auto. right; auto.
Qed.

(* what an accepted, non-sentinel call computed *)
Lemma wavg_gen_ok spec ps ws r :
  wavg_gen spec ps ws = WOk r ->
  let vp := valid_pairs ps ws in
  let rej := sumr ws - vsum_w vp in
  (vp = [] /\ r = sentinel) \/
  (vp <> [] /\ Qeq_bool (1 - rej) 0 = true /\ r = sentinel) \/
  (vp <> [] /\ ~ 1 - rej == 0 /\
   r_lo <= vsum_w vp / (1 - rej) /\ vsum_w vp / (1 - rej) <= r_hi /\
   Forall (fun pw => 0 <= snd pw) vp /\
   r == vsum_pw vp / (if spec then vsum_w vp else 1 - rej)).
Proof.
  intro H. cbv zeta. set (vp := valid_pairs ps ws). set (rej := sumr ws - vsum_w vp). unfold wavg_gen in H.
  destruct (Nat.eqb_spec (List.length ps) (List.length ws)) as [Hl|]; cbn [negb] in H; [|discriminate].
  destruct (Qle_bool (qsum ws) w_hi && Qlt_b w_lo (qsum ws)); cbn [negb] in H; [|discriminate].
  destruct (wloop ps ws (0%nat, 0, 0, 0)) as [[[[n mean] rj] nrej]|] eqn:Ew; [|discriminate].
  destruct (wloop_inv _ _ _ _ _ _ _ _ _ _ Hl Ew) as [I1 [I2 [I3 [I4 [I5 I6]]]]].
  fold vp in I1, I2, I3, I5.
  assert (Hrej : rj == rej) by (unfold rej; lra).
  destruct (Nat.eqb_spec n 0) as [Hn|Hn].
  - left. inversion H as [Hr]. split; [|reflexivity]. apply length_zero_iff_nil. lia.
  - assert (Hvp : vp <> []) by (intro E; apply length_zero_iff_nil in E; lia).
    destruct (Qeq_bool (1 - rj) 0) eqn:Eq.
    + right; left. inversion H as [Hr]. split; auto. split; [|reflexivity].
      apply Qeq_bool_iff in Eq. apply Qeq_bool_iff. lra.
    + right; right.
      destruct (Qle_bool r_lo (nrej / (1 - rj)) && Qle_bool (nrej / (1 - rj)) r_hi) eqn:Ea; cbn [negb] in H; [|discriminate].
      apply andb_true_iff in Ea as [Ea1 Ea2]. apply Qle_bool_iff in Ea1, Ea2.
      inversion H as [Hr]. clear H.
      assert (Hne : ~ 1 - rj == 0) by (intro X; apply Qeq_bool_iff in X; congruence).
      assert (Hnr : nrej == vsum_w vp) by lra.
      assert (Hm : mean == vsum_pw vp) by lra.
      assert (Hd : 1 - rj == 1 - rej) by lra.
      assert (Hq : vsum_w vp / (1 - rej) == nrej / (1 - rj)) by (rewrite Hnr, Hd; reflexivity).
      split; auto. split; [intro X; apply Hne; lra|].
      split; [rewrite Hq; exact Ea1|]. split; [rewrite Hq; exact Ea2|]. split; [exact I5|].
      rewrite <- Hm. destruct spec; [rewrite <- Hnr|rewrite <- Hd]; reflexivity.
Qed.

(* positivity of both denominators on the accepted path *)
Lemma accepted_denoms W R : 0 <= W -> ~ R == 0 -> r_lo <= W / R -> 0 < W /\ 0 < R.
Proof.
  intros HW HR H. unfold r_lo in H.
  assert (HWR : W == (W / R) * R) by (field; exact HR).
  destruct (Qlt_le_dec 0 R) as [RP|RN].
  - split; auto. assert (0 < W / R) by lra. nra.
  - assert (R < 0) by lra. exfalso.
    assert (9999 # 10000 <= W / R) by exact H.
    assert (0 < W / R) by lra. nra.
Qed.

Lemma vsum_w_nonneg vp : Forall (fun pw => 0 <= snd pw) vp -> 0 <= vsum_w vp.
Proof. induction 1; simpl; lra. Qed.

(* F6 variant: the result is the weighted mean of the valid inputs, hence within their range *)
Lemma wavg_spec_range ps ws r lo hi :
  wavg_spec ps ws = WOk r -> r <> sentinel ->
  (forall p, In p ps -> impossible p = false -> lo <= p /\ p <= hi) ->
  lo <= r /\ r <= hi.
Proof.
  intros H Hs Hr. apply wavg_gen_ok in H.
  destruct H as [[_ E]|[[_ [_ E]]|[Hvp [Hne [A1 [A2 [Hw Hv]]]]]]]; try congruence.
  set (vp := valid_pairs ps ws) in *. set (R := 1 - (sumr ws - vsum_w vp)) in *.
  destruct (accepted_denoms (vsum_w vp) R (vsum_w_nonneg _ Hw) Hne A1) as [WP RP].
  destruct (vsum_bounds lo hi vp Hw) as [B1 B2].
  { intros [p w] Hin. apply valid_pairs_In in Hin as [Hin Hi]. simpl. apply Hr; auto. }
  rewrite Hv. split.
  - apply Qle_shift_div_l; auto.
  - apply Qle_shift_div_r; auto.
Qed.

(* the code as it is: exact range when the weights sum to exactly 1 *)
Lemma wavg_range_sum1 ps ws r lo hi :
  wavg ps ws = WOk r -> r <> sentinel -> qsum ws == 1 ->
  (forall p, In p ps -> impossible p = false -> lo <= p /\ p <= hi) ->
  lo <= r /\ r <= hi.
Proof.
  intros H Hs H1 Hr. apply wavg_gen_ok in H.
  destruct H as [[_ E]|[[_ [_ E]]|[Hvp [Hne [A1 [A2 [Hw Hv]]]]]]]; try congruence.
  set (vp := valid_pairs ps ws) in *. rewrite qsum_sumr in H1.
  assert (HR : 1 - (sumr ws - vsum_w vp) == vsum_w vp) by lra.
  set (R := 1 - (sumr ws - vsum_w vp)) in *.
  destruct (accepted_denoms (vsum_w vp) R (vsum_w_nonneg _ Hw) Hne A1) as [WP RP].
  destruct (vsum_bounds lo hi vp Hw) as [B1 B2].
  { intros [p w] Hin. apply valid_pairs_In in Hin as [Hin Hi]. simpl. apply Hr; auto. }
  rewrite Hv. split.
  - apply Qle_shift_div_l; auto. rewrite HR. exact B1.
  - apply Qle_shift_div_r; auto. rewrite HR. exact B2.
Qed.

(* the code as it is, for every accepted weight vector: r = m * k with m in the range of the valid inputs and
   k = (valid weight) / (1 - rejected weight) in [0.9999, 1.0001] (the function's own assertion) *)
Lemma wavg_range_partial ps ws r lo hi :
  wavg ps ws = WOk r -> r <> sentinel ->
  (forall p, In p ps -> impossible p = false -> lo <= p /\ p <= hi) ->
  exists m k, r == m * k /\ lo <= m /\ m <= hi /\ r_lo <= k /\ k <= r_hi.
Proof.
  intros H Hs Hr. apply wavg_gen_ok in H.
  destruct H as [[_ E]|[[_ [_ E]]|[Hvp [Hne [A1 [A2 [Hw Hv]]]]]]]; try congruence.
  set (vp := valid_pairs ps ws) in *. set (R := 1 - (sumr ws - vsum_w vp)) in *.
  destruct (accepted_denoms (vsum_w vp) R (vsum_w_nonneg _ Hw) Hne A1) as [WP RP].
  destruct (vsum_bounds lo hi vp Hw) as [B1 B2].
  { intros [p w] Hin. apply valid_pairs_In in Hin as [Hin Hi]. simpl. apply Hr; auto. }
  exists (vsum_pw vp / vsum_w vp), (vsum_w vp / R). split; [|split; [|split; [|split]]]; auto.
  - rewrite Hv. field. split; lra.
  - apply Qle_shift_div_l; auto.
  - apply Qle_shift_div_r; auto.
Qed.

(* impossible values are ignored: replacing one impossible value by another changes nothing *)
Definition same_or_both_impossible (p p' : Q) : Prop :=
  p = p' \/ (impossible p = true /\ impossible p' = true).

Lemma wloop_ignores ps : forall ps' ws st,
  Forall2 same_or_both_impossible ps ps' -> wloop ps ws st = wloop ps' ws st.
Proof.
  induction ps as [|p ps IH]; intros ps' ws st HF; inversion HF; subst; [reflexivity|].
  destruct ws as [|w ws]; [reflexivity|]. cbn [wloop]. destruct st as [[[n mean] rej] nrej].
  destruct (Qle_bool 0 w && Qle_bool w 1); [|reflexivity].
  destruct H1 as [->|[E1 E2]].
  - destruct (impossible y); apply IH; auto.
  - rewrite E1, E2. apply IH; auto.
Qed.

Lemma F2_length {A B} (R : A -> B -> Prop) l l' : Forall2 R l l' -> List.length l = List.length l'.
Proof. induction 1; simpl; auto. Qed.

Lemma wavg_gen_ignores spec ps ps' ws :
  Forall2 same_or_both_impossible ps ps' -> wavg_gen spec ps ws = wavg_gen spec ps' ws.
Proof.
  intro HF. unfold wavg_gen. rewrite (F2_length _ _ _ HF), (wloop_ignores ps ps' ws _ HF). reflexivity.
Qed.

(* only impossible values -> the sentinel 9.37e36 *)
Lemma wavg_all_invalid spec ps ws r :
  wavg_gen spec ps ws = WOk r -> (forall p, In p ps -> impossible p = true) -> r = sentinel.
Proof.
  intros H Hall. apply wavg_gen_ok in H.
  destruct H as [[_ E]|[[_ [_ E]]|[Hvp _]]]; auto.
  exfalso. destruct (valid_pairs ps ws) as [|[p w] vp] eqn:E; [congruence|].
  assert (Hin : In (p, w) (valid_pairs ps ws)) by (rewrite E; left; auto).
  apply valid_pairs_In in Hin as [Hin Hi]. rewrite (Hall p Hin) in Hi. discriminate.
Qed.
